(** The four simple adders: summary of the theorems proved in
    SimpleMutex.v, SimpleAtomic.v and SimpleRC.v, restated verbatim. *)
From Coq Require Import List Arith Bool ZArith.
From Garr Require Import Conc.Conc Conc.Lin Pure.F64
     Adder.StripedModel Adder.SimpleModel Adder.AdderSpec.
From Garr Require Export Adder.SimpleMutex Adder.SimpleAtomic Adder.SimpleRC.
Import ListNotations.

(** 1. mutex adder *)
Theorem mutex_adder_linearizable' : forall (progs : list (list aop)) (sched : list nat),
  lin_ok mutex_adder aret_eqb (counter_spec wadd) xlp xinit tt 0%Z progs sched = true.
Proof. exact mutex_adder_linearizable. Qed.
Print Assumptions mutex_adder_linearizable.

(** 2. atomic adders, SumAndReset excluded *)
Theorem atomic_adder_linearizable' : forall progs sched, no_sar progs ->
  lin_ok atomic_adder aret_eqb (counter_spec wadd) tlp 0%Z tt 0%Z progs sched = true.
Proof. exact atomic_adder_linearizable. Qed.
Print Assumptions atomic_adder_linearizable.

Theorem atomic_f64_adder_linearizable' : forall progs sched, no_sar progs ->
  lin_ok atomic_f64_adder aret_eqb (counter_spec Z.add) tlp 0%Z tt 0%Z progs sched = true.
Proof. exact atomic_f64_adder_linearizable. Qed.
Print Assumptions atomic_f64_adder_linearizable.

(** 3. random-cell adder: any n > 0 (no power-of-two hypothesis needed) *)
Theorem rc_no_lost_update' : forall (n : nat) (rnd : list Z) progs sched,
  (0 < n)%nat -> updates_only progs ->
  let c := final rc_adder (init rpc (rinit n rnd) tt progs) sched in
  all_done c -> cells_sum (rc_cells (c_sh c)) = wrap64 (total progs).
Proof. exact rc_no_lost_update. Qed.
Print Assumptions rc_no_lost_update.

Theorem rc_sum_solo' : forall (s : rshared), (0 < length (rc_cells s))%nat ->
  solo_returns rc_adder tt s Sum (RZ (cells_sum (rc_cells s))).
Proof. exact rc_sum_solo. Qed.
Print Assumptions rc_sum_solo.
