(** C09 without the [no_dead] hypothesis: by StripedNoFault.v no thread of a
    reachable configuration of the striped adder ever faults, so the bounds on
    concurrent Sums and their monotonicity hold unconditionally. *)
From Coq Require Import List Arith Bool ZArith Lia Permutation.
From Garr Require Import Conc.Conc Pure.F64 Adder.StripedModel Adder.AdderSpec Adder.StripedLib
  Adder.StripedInv Adder.StripedPres Adder.StripedProofs Adder.StripedLocal Adder.StripedPhase
  Adder.StripedStrip Adder.StripedMono Adder.StripedRead Adder.StripedReadW Adder.StripedC09
  Adder.StripedNoFault Breaker.ConcBase.
Import ListNotations.
Local Open Scope Z_scope.

Section C09b.
Variable f64 : bool.
Variable maxcells : Z.
Notation MZ := (striped Z.add f64 maxcells).
Notation MW := (striped wadd f64 maxcells).

(** every configuration reached from the initial one is free of dead threads *)
Lemma no_dead_reach vadd rnd progs sched :
  no_dead (final (striped vadd f64 maxcells) (init apc (ainit rnd) tt progs) sched).
Proof. intros th Hin. eapply striped_no_fault; eauto. Qed.

(** ... and so is the successor of every configuration of the log *)
Lemma no_dead_log_succ vadd rnd progs sched j cj t cj' ej :
  nth_error (steps_of (striped vadd f64 maxcells) (init apc (ainit rnd) tt progs) sched) j = Some (cj, t) ->
  step_thread (striped vadd f64 maxcells) cj t = Some (cj', ej) -> no_dead cj'.
Proof.
  intros Hj Hs. destruct (steps_of_reach _ _ _ _ _ _ Hj) as [s1 E].
  assert (Ec : cj' = final (striped vadd f64 maxcells) (init apc (ainit rnd) tt progs) (s1 ++ [t])).
  { rewrite final_app, <- E. simpl. rewrite final_cons. unfold step_cfg. rewrite Hs. reflexivity. }
  rewrite Ec. apply no_dead_reach.
Qed.

(** (2a) for the int64 adders *)
Theorem sum_bounds_log' rnd progs sched i j t ci cj thi thj pr cj' ej r :
  reader_progs progs -> total progs < 2 ^ 62 ->
  let log := steps_of MW (init apc (ainit rnd) tt progs) sched in
  nth_error log i = Some (ci, t) -> nth_error log j = Some (cj, t) -> (i < j)%nat ->
  nth_error (c_thr ci) t = Some thi -> t_cur thi = None -> t_prog thi = Sum :: pr ->
  nth_error (c_thr cj) t = Some thj -> t_prog thj = pr ->
  step_thread MW cj t = Some (cj', ej) -> In (ERet t Sum (RZ r)) ej ->
  applied (c_sh ci) <= r <= applied (c_sh cj') /\ applied (c_sh cj') <= total progs.
Proof.
  intros Hrp Hsmall log Hi Hj Hlt Hni Hci Hpi Hnj Hpj Hsj Hret.
  eapply (sum_bounds_log f64 maxcells rnd progs sched i j t ci cj thi thj pr cj' ej r); eauto.
  eapply no_dead_log_succ; eauto.
Qed.

(** exact arithmetic (the float adders on exactly representable sums) *)
Theorem sum_bounds_log_exact' rnd progs sched i j t ci cj thi thj pr cj' ej r :
  reader_progs progs ->
  let log := steps_of MZ (init apc (ainit rnd) tt progs) sched in
  nth_error log i = Some (ci, t) -> nth_error log j = Some (cj, t) -> (i < j)%nat ->
  nth_error (c_thr ci) t = Some thi -> t_cur thi = None -> t_prog thi = Sum :: pr ->
  nth_error (c_thr cj) t = Some thj -> t_prog thj = pr ->
  step_thread MZ cj t = Some (cj', ej) -> In (ERet t Sum (RZ r)) ej ->
  applied (c_sh ci) <= r <= applied (c_sh cj') /\ applied (c_sh cj') <= total progs.
Proof.
  intros Hrp log Hi Hj Hlt Hni Hci Hpi Hnj Hpj Hsj Hret.
  eapply (sum_bounds_log_exact f64 maxcells rnd progs sched i j t ci cj thi thj pr cj' ej r); eauto.
  eapply no_dead_log_succ; eauto.
Qed.

(** Sums that follow each other in real time never decrease *)
Theorem sums_monotone' rnd progs sched
        i1 j1 t1 ci1 cj1 thi1 thj1 pr1 cj1' ej1 r1
        i2 j2 t2 ci2 cj2 thi2 thj2 pr2 cj2' ej2 r2 :
  reader_progs progs -> total progs < 2 ^ 62 ->
  let log := steps_of MW (init apc (ainit rnd) tt progs) sched in
  (* the first Sum *)
  nth_error log i1 = Some (ci1, t1) -> nth_error log j1 = Some (cj1, t1) -> (i1 < j1)%nat ->
  nth_error (c_thr ci1) t1 = Some thi1 -> t_cur thi1 = None -> t_prog thi1 = Sum :: pr1 ->
  nth_error (c_thr cj1) t1 = Some thj1 -> t_prog thj1 = pr1 ->
  step_thread MW cj1 t1 = Some (cj1', ej1) -> In (ERet t1 Sum (RZ r1)) ej1 ->
  (* the second Sum, invoked after the first has returned *)
  nth_error log i2 = Some (ci2, t2) -> nth_error log j2 = Some (cj2, t2) -> (i2 < j2)%nat ->
  nth_error (c_thr ci2) t2 = Some thi2 -> t_cur thi2 = None -> t_prog thi2 = Sum :: pr2 ->
  nth_error (c_thr cj2) t2 = Some thj2 -> t_prog thj2 = pr2 ->
  step_thread MW cj2 t2 = Some (cj2', ej2) -> In (ERet t2 Sum (RZ r2)) ej2 ->
  (j1 < i2)%nat ->
  r1 <= r2 /\ r2 <= total progs.
Proof.
  intros Hrp Hsmall log Hi1 Hj1 Hlt1 Hni1 Hci1 Hpi1 Hnj1 Hpj1 Hsj1 Hret1
         Hi2 Hj2 Hlt2 Hni2 Hci2 Hpi2 Hnj2 Hpj2 Hsj2 Hret2 Hord.
  eapply (sums_monotone f64 maxcells rnd progs sched
            i1 j1 t1 ci1 cj1 thi1 thj1 pr1 cj1' ej1 r1
            i2 j2 t2 ci2 cj2 thi2 thj2 pr2 cj2' ej2 r2); eauto.
  eapply no_dead_log_succ; eauto.
Qed.

(** the core statements in terms of reachable configurations *)
Theorem sum_bounds_core' rnd progs s1 t thi pr ci' ei s3 thj cj' ej r :
  reader_progs progs ->
  let c0 := init apc (ainit rnd) tt progs in
  let ci := final MZ c0 s1 in
  nth_error (c_thr ci) t = Some thi -> t_cur thi = None -> t_prog thi = Sum :: pr ->
  step_thread MZ ci t = Some (ci', ei) ->
  let cj := final MZ ci' s3 in
  nth_error (c_thr cj) t = Some thj -> t_prog thj = pr ->
  step_thread MZ cj t = Some (cj', ej) -> In (ERet t Sum (RZ r)) ej ->
  applied (c_sh ci) <= r <= applied (c_sh cj') /\ applied (c_sh cj') <= total progs.
Proof.
  intros Hrp c0 ci Hni Hci Hpi Hsi cj Hnj Hpj Hsj Hret.
  eapply (sum_bounds_core f64 maxcells rnd progs s1 t thi pr ci' ei s3 thj cj' ej r); eauto.
  assert (E1 : step_cfg MZ ci t = ci') by (unfold step_cfg; rewrite Hsi; reflexivity).
  assert (E2 : step_cfg MZ cj t = cj') by (unfold step_cfg; rewrite Hsj; reflexivity).
  assert (Ec : cj' = final MZ c0 (s1 ++ [t] ++ s3 ++ [t])).
  { rewrite final_app. fold ci. change ([t] ++ s3 ++ [t]) with (t :: (s3 ++ [t])).
    rewrite final_cons, E1, final_app. fold cj. rewrite final_cons, E2. reflexivity. }
  rewrite Ec. apply no_dead_reach.
Qed.

Theorem sum_bounds_core_wadd' rnd progs s1 t thi pr ci' ei s3 thj cj' ej r :
  reader_progs progs -> total progs < 2 ^ 62 ->
  let c0 := init apc (ainit rnd) tt progs in
  let ci := final MW c0 s1 in
  nth_error (c_thr ci) t = Some thi -> t_cur thi = None -> t_prog thi = Sum :: pr ->
  step_thread MW ci t = Some (ci', ei) ->
  let cj := final MW ci' s3 in
  nth_error (c_thr cj) t = Some thj -> t_prog thj = pr ->
  step_thread MW cj t = Some (cj', ej) -> In (ERet t Sum (RZ r)) ej ->
  applied (c_sh ci) <= r <= applied (c_sh cj') /\ applied (c_sh cj') <= total progs.
Proof.
  intros Hrp Hsmall c0 ci Hni Hci Hpi Hsi cj Hnj Hpj Hsj Hret.
  eapply (sum_bounds_core_wadd f64 maxcells rnd progs s1 t thi pr ci' ei s3 thj cj' ej r); eauto.
  assert (E1 : step_cfg MW ci t = ci') by (unfold step_cfg; rewrite Hsi; reflexivity).
  assert (E2 : step_cfg MW cj t = cj') by (unfold step_cfg; rewrite Hsj; reflexivity).
  assert (Ec : cj' = final MW c0 (s1 ++ [t] ++ s3 ++ [t])).
  { rewrite final_app. fold ci. change ([t] ++ s3 ++ [t]) with (t :: (s3 ++ [t])).
    rewrite final_cons, E1, final_app. fold cj. rewrite final_cons, E2. reflexivity. }
  rewrite Ec. apply no_dead_reach.
Qed.

(** the applied amount of a reachable configuration never decreases and never exceeds the total *)
Theorem applied_mono_reach' rnd progs s1 s3 :
  reader_progs progs -> total progs < 2 ^ 62 ->
  let c0 := init apc (ainit rnd) tt progs in
  applied (c_sh (final MW c0 s1)) <= applied (c_sh (final MW c0 (s1 ++ s3))).
Proof.
  intros Hrp Hsmall c0. apply applied_mono_reach; auto. apply no_dead_reach.
Qed.

(** the [wadd] machine and the exact machine make the same runs (no wrap-around below 2^62) *)
Theorem run_wadd_exact rnd progs sched :
  reader_progs progs -> total progs < 2 ^ 62 ->
  let c0 := init apc (ainit rnd) tt progs in
  run MW c0 sched = run MZ c0 sched.
Proof.
  intros Hrp Hsmall c0. assert (HT : 2 * total progs < 2 ^ 63) by lia.
  apply (run_coincide f64 maxcells (total progs) HT c0 sched).
  - apply P3_init. exact Hrp.
  - apply no_dead_reach.
Qed.

End C09b.

Print Assumptions sum_bounds_log'.
Print Assumptions sum_bounds_log_exact'.
Print Assumptions sums_monotone'.
Print Assumptions sum_bounds_core'.
Print Assumptions sum_bounds_core_wadd'.
Print Assumptions run_wadd_exact.

(** ** the invariants hold outright (no [has_dead] alternative) *)
Section Strong.
Variable nrm : Z -> Z.
Hypothesis nrm_add : forall a b, nrm (nrm a + b) = nrm (a + b).
Hypothesis nrm_0 : nrm 0 = 0.
Variable vadd : Z -> Z -> Z.
Hypothesis vadd_def : forall a b, vadd a b = nrm (a + b).
Variable f64 : bool.
Variable maxcells : Z.
Notation M := (striped vadd f64 maxcells).

(** update-only programs: [Inv] holds in every reachable configuration *)
Theorem striped_Inv_reach rnd progs sched :
  updates_only progs -> Inv nrm (total progs) (final M (init apc (ainit rnd) tt progs) sched).
Proof.
  intros Hup.
  assert (HP : P nrm (total progs) (final M (init apc (ainit rnd) tt progs) sched)).
  { apply invariant_run.
    - right. apply (Inv_init nrm nrm_0). exact Hup.
    - intros c0 t c' e H0 Hs. eapply (pres_step nrm nrm_add vadd vadd_def); eauto. }
  destruct HP as [Hd|HI]; [|exact HI].
  exfalso. destruct Hd as (th & Hin & Hd). rewrite (striped_no_fault vadd f64 maxcells rnd progs sched th Hin) in Hd.
  discriminate.
Qed.

(** a thread that has finished its program has returned from all its calls: [all_done] only
    has to look at the programs *)
Theorem striped_all_done_iff rnd progs sched :
  let c := final M (init apc (ainit rnd) tt progs) sched in
  all_done c <-> (forall th, In th (c_thr c) -> t_prog th = [] /\ t_cur th = None).
Proof.
  intros c. split.
  - intros H th Hin. destruct (H th Hin) as (H1 & H2 & _). auto.
  - intros H th Hin. destruct (H th Hin) as (H1 & H2). repeat split; auto.
    eapply striped_no_fault; eauto.
Qed.

End Strong.

(** mixed programs (non-negative updates and Sums, exact arithmetic): [MI] holds in every
    reachable configuration *)
Theorem striped_MI_reach f64 maxcells rnd progs sched :
  reader_progs progs ->
  MI (total progs) (final (striped Z.add f64 maxcells) (init apc (ainit rnd) tt progs) sched).
Proof.
  intros Hrp.
  destruct (MI_final f64 maxcells (total progs) (init apc (ainit rnd) tt progs) sched
              (or_intror (MI_init rnd progs Hrp))) as [Hd|HM]; [|exact HM].
  exfalso. destruct Hd as (th & Hin & Hd).
  rewrite (striped_no_fault Z.add f64 maxcells rnd progs sched th Hin) in Hd. discriminate.
Qed.

Print Assumptions striped_Inv_reach.
Print Assumptions striped_MI_reach.
