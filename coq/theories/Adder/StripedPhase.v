(** C16, concurrent half: an update phase started from ANY quiescent good
    state adds exactly the total of its updates to the value of the adder. *)
From Coq Require Import List Arith Bool ZArith Lia.
From Garr Require Import Conc.Conc Pure.F64 Adder.StripedModel Adder.AdderSpec Adder.StripedLib
  Adder.StripedInv Adder.StripedUpdate Adder.StripedSteps Adder.StripedPres Adder.StripedProofs
  Adder.StripedErase Adder.StripedLocal.
Import ListNotations.
Local Open Scope Z_scope.

Lemma arr_of_erase k s a : (k <= a)%nat -> arr_of (erase k s) a = arr_of s a.
Proof.
  intros H. unfold arr_of. simpl.
  destruct (nth_error (a_arrays s) a) as [x|] eqn:E.
  - rewrite (nth_nth_error _ _ [] _ E). apply nth_nth_error. rewrite era_nth_error_ge by exact H. exact E.
  - rewrite !nth_overflow; auto.
    + apply nth_error_None. exact E.
    + rewrite era_length. apply nth_error_None. exact E.
Qed.

Lemma att_erase k s : sinv k s -> att (erase k s) = att s.
Proof.
  intros [_ H]. unfold att. simpl. destruct (a_table s) as [tab|] eqn:E; [|reflexivity].
  rewrite arr_of_erase; [reflexivity|]. apply (H tab eq_refl).
Qed.

Lemma cellsum_erase k s l : cellsum (erase k s) l = cellsum s l.
Proof. apply cellsum_heq. reflexivity. Qed.

Section Phase.
Variable nrm : Z -> Z.
Hypothesis nrm_add : forall a b, nrm (nrm a + b) = nrm (a + b).
Variable vadd : Z -> Z -> Z.
Hypothesis vadd_def : forall a b, vadd a b = nrm (a + b).
Variable f64 : bool.
Variable maxcells : Z.
Notation M := (striped vadd f64 maxcells).

(** the number the adder stands for *)
Definition value (s : ashared) : Z := nrm (a_base s + cellsum s (att s)).

(** good quiescent states: [Glob] up to arrays nobody can reach any more,
    and a table (if any) of positive length *)
Definition Good (s : ashared) : Prop := exists k, sinv k s /\ Glob nrm (erase k s).

Lemma value_erase k s : sinv k s -> value (erase k s) = value s.
Proof. intros H. unfold value. rewrite (att_erase _ _ H), cellsum_erase. reflexivity. Qed.

Lemma Glob_Good s : Glob nrm s -> (forall tab, a_table s = Some tab -> (0 < snd tab)%nat) -> Good s.
Proof.
  intros G H. exists 0%nat. split.
  - split; [lia|]. intros tab E. split; [lia|apply (H tab E)].
  - unfold erase. rewrite era_0. destruct s; exact G.
Qed.

Lemma Inv_init_gen s0 progs :
  Glob nrm s0 -> updates_only progs ->
  Inv nrm (a_base s0 + cellsum s0 (att s0) + total progs) (init apc s0 tt progs).
Proof.
  intros G Hup.
  assert (Hth : forall t th, nth_error (map (mk_thread apc tt) progs) t = Some th ->
                exists p, In p progs /\ th = mk_thread apc tt p).
  { intros t th H. apply nth_error_In in H. apply in_map_iff in H. destruct H as (p & <- & Hp). eauto. }
  constructor; simpl.
  - exact G.
  - intros t th H. destruct (Hth _ _ H) as (p & Hp & ->). split; [reflexivity|]. split; [|exact I].
    intros o Ho. apply (Hup p o Hp Ho).
  - intros t th H. destruct (Hth _ _ H) as (p & Hp & ->). discriminate.
  - intros t1 t2 th1 th2 H1 _. destruct (Hth _ _ H1) as (p & Hp & ->). discriminate.
  - intros t th r H. destruct (Hth _ _ H) as (p & Hp & ->). intros [].
  - rewrite pending_init. reflexivity.
Qed.

Lemma all_done_no_cur (c : acfg) t th o l :
  all_done c -> nth_error (c_thr c) t = Some th -> t_cur th = Some (o, l) -> False.
Proof.
  intros Hd Hn Hc. apply nth_error_In in Hn. destruct (Hd th Hn) as (_ & E & _). congruence.
Qed.

(** (1b) a concurrent update phase from any good quiescent state *)
Theorem striped_update_phase s0 progs sched :
  Good s0 -> a_busy s0 = 0 -> updates_only progs ->
  let c := final M (init apc s0 tt progs) sched in
  all_done c ->
  Good (c_sh c) /\ a_busy (c_sh c) = 0 /\ value (c_sh c) = nrm (value s0 + total progs).
Proof.
  intros (k & Hs & G) Hb Hup c Hdone.
  set (c0 := init apc s0 tt progs) in *.
  assert (Hl0 : linv k c0).
  { split; [exact Hs|]. intros t th o l Hn Hc. apply nth_error_In in Hn. apply in_map_iff in Hn.
    destruct Hn as (p & <- & _). discriminate. }
  assert (Hlf : linv k c) by (apply linv_final; exact Hl0).
  assert (He : final M (cerase k c0) sched = cerase k c).
  { unfold final. rewrite (run_erase vadd f64 maxcells k c0 sched Hl0). reflexivity. }
  assert (HP : P nrm (a_base (erase k s0) + cellsum (erase k s0) (att (erase k s0)) + total progs) (cerase k c)).
  { rewrite <- He. apply invariant_run.
    - right. apply (Inv_init_gen (erase k s0) progs G Hup).
    - intros c1 t c' e H1 Hst. eapply pres_step; eauto. }
  assert (Hlk : lockinv c).
  { apply lockinv_final. right. simpl. intros E. lia. }
  destruct HP as [(th & Hin & Hd)|HI].
  { destruct (Hdone th Hin) as (_ & _ & Hd'). congruence. }
  pose proof (iv_glob HI) as G'. simpl in G'.
  split; [exists k; split; [apply Hlf|exact G']|]. split.
  - destruct Hlk as [(th & Hin & Hd)|Hlk].
    { destruct (Hdone th Hin) as (_ & _ & Hd'). congruence. }
    destruct (gl_busy G') as [E|E]; [exact E|]. simpl in E.
    destruct (Hlk E) as (t & th & o & l & Hn & Hc & _). exfalso. eapply all_done_no_cur; eauto.
  - pose proof (iv_sum HI) as Hsum. simpl in Hsum.
    rewrite (pending_done _ Hdone) in Hsum.
    rewrite (att_erase _ _ (proj1 Hlf)), (att_erase _ _ Hs), !cellsum_erase in Hsum.
    unfold value. rewrite nrm_add. rewrite <- Hsum. f_equal. ring.
Qed.

End Phase.
