(** Every step of the striped adder preserves the invariant (update-only programs). *)
From Coq Require Import List Arith Bool ZArith Lia Permutation.
From Garr Require Import Conc.Conc Pure.F64 Adder.StripedModel Adder.AdderSpec Adder.StripedLib
  Adder.StripedInv Adder.StripedUpdate Adder.StripedSteps Adder.StripedCells Adder.StripedArrays.
Import ListNotations.
Local Open Scope Z_scope.

Lemma take_rnd_spec s r s1 :
  take_rnd s = (r, s1) ->
  a_base s1 = a_base s /\ a_busy s1 = a_busy s /\ a_table s1 = a_table s /\
  a_arrays s1 = a_arrays s /\ a_cells s1 = a_cells s.
Proof.
  unfold take_rnd. destruct (a_rnd s); intros H; injection H as <- <-; simpl; auto.
Qed.

Lemma enter_acc_spec x i u s :
  exists st s1, enter_acc x i u s = Next (L1 st) s1 /\ r_x st = x /\
    a_base s1 = a_base s /\ a_busy s1 = a_busy s /\ a_table s1 = a_table s /\
    a_arrays s1 = a_arrays s /\ a_cells s1 = a_cells s.
Proof.
  unfold enter_acc. destruct (i =? 0).
  - destruct (take_rnd s) as [r s1] eqn:E. apply take_rnd_spec in E.
    eexists _, s1. split; [reflexivity|]. simpl. tauto.
  - eexists _, s. split; [reflexivity|]. simpl. tauto.
Qed.

Local Opaque enter_acc take_rnd.

(** the configuration after thread [t] (in call [o], program rest [pr]) made a step with outcome [out] *)
Definition after (c : acfg) (t : nat) (th : athread) (pr : list aop) (o : aop)
           (out : outcome ashared unit apc aret) : option acfg :=
  match out with
  | Next l' s' => Some (Config s' (upd (c_thr c) t (Thread pr (t_ts th) (Some (o, l')) false)))
  | Done r ts' s' => Some (Config s' (upd (c_thr c) t (Thread pr ts' None false)))
  | Blocked => None
  | Fault => Some (Config (c_sh c) (upd (c_thr c) t (Thread pr (t_ts th) None true)))
  end.

Definition has_dead (c : acfg) : Prop := exists th, In th (c_thr c) /\ t_dead th = true.

Lemma has_dead_upd (thr : list athread) t th s pr ts :
  nth_error thr t = Some th -> has_dead (Config s (upd thr t (Thread pr ts None true))).
Proof.
  intros H. exists (Thread pr ts None true). split; [|reflexivity]. simpl.
  apply nth_error_In with (n := t). apply nth_error_upd_same.
  apply nth_error_Some. congruence.
Qed.

Section Pres.
Variable nrm : Z -> Z.
Hypothesis nrm_add : forall a b, nrm (nrm a + b) = nrm (a + b).
Variable vadd : Z -> Z -> Z.
Hypothesis vadd_def : forall a b, vadd a b = nrm (a + b).
Variable f64 : bool.
Variable maxcells : Z.
Variable T : Z.

Notation Inv := (Inv nrm T).
Notation Glob := (Glob nrm).
Notation step := (astep vadd f64 maxcells).

Definition P (c : acfg) : Prop := has_dead c \/ Inv c.

(** side conditions of the quiet-step lemmas *)
Ltac side Hcur :=
  first
  [ reflexivity
  | assumption
  | (unfold lockedth; rewrite Hcur; reflexivity)
  | (unfold ownedth; rewrite Hcur; simpl; first [apply incl_refl | apply incl_nil_l])
  | (unfold pend_th; rewrite Hcur; simpl; reflexivity) ].

Ltac okth Hp Hu := split; [reflexivity | split; [exact Hp | simpl t_cur; cbv iota beta; split; [exact Hu | simpl ltok]]].

Ltac fault Hn := left; eapply has_dead_upd; exact Hn.

Lemma pres_add (c : acfg) t th o l c' :
  Inv c -> nth_error (c_thr c) t = Some th -> t_cur th = Some (o, l) ->
  match l with
  | AddLoadTab _ | AddLoadBase _ | AddCasBase _ _ | AddSlot _ _ _ | AddCellLoad _ _ _ | AddCellCas _ _ _ _ => True
  | _ => False
  end ->
  after c t th (t_prog th) o (step l (c_sh c)) = Some c' -> P c'.
Proof.
  intros HI Hn Hcur Hl H.
  pose proof (iv_glob HI) as G.
  destruct (iv_thr HI _ _ Hn) as (Hd & Hp & Hc). rewrite Hcur in Hc. destruct Hc as [Hu Hk].
  destruct l; try contradiction; clear Hl; simpl in Hk; simpl in H.
  - (* AddLoadTab *)
    destruct (a_table (c_sh c)) as [tab|] eqn:Et.
    + destruct (take_rnd (c_sh c)) as [r s1] eqn:Er.
      destruct (take_rnd_spec _ _ _ Er) as (E1 & E2 & E3 & E4 & E5).
      destruct (nmask tab <? 0).
      * destruct (enter_acc_spec x r true s1) as (st & s2 & Ee & Ex & F1 & F2 & F3 & F4 & F5).
        rewrite Ee in H. injection H as <-. right.
        eapply Inv_Q with (th := th); try eassumption; try congruence; try side Hcur.
        okth Hp Hu. congruence.
      * injection H as <-. right.
        eapply Inv_Q with (th := th); try eassumption; try side Hcur.
        okth Hp Hu. split; [assumption|congruence].
    + injection H as <-. right.
      eapply Inv_Q with (th := th); try eassumption; try side Hcur.
      okth Hp Hu. assumption.
  - (* AddLoadBase *)
    injection H as <-. right.
    eapply Inv_Q with (th := th); try eassumption; try side Hcur.
    okth Hp Hu. assumption.
  - (* AddCasBase *)
    destruct (a_base (c_sh c) =? b) eqn:Eb.
    + injection H as <-. right. apply Z.eqb_eq in Eb. subst b x.
      rewrite vadd_def.
      eapply Inv_base with (th := th); try eassumption; try side Hcur.
      * split; [reflexivity|split; [exact Hp|exact I]].
      * unfold pend_th. rewrite Hcur. simpl. ring.
    + destruct (take_rnd (c_sh c)) as [r s1] eqn:Er.
      destruct (take_rnd_spec _ _ _ Er) as (E1 & E2 & E3 & E4 & E5).
      destruct (enter_acc_spec x r true s1) as (st & s2 & Ee & Ex & F1 & F2 & F3 & F4 & F5).
      rewrite Ee in H. injection H as <-. right.
      eapply Inv_Q with (th := th); try eassumption; try congruence; try side Hcur.
      okth Hp Hu. congruence.
  - (* AddSlot *)
    destruct Hk as [Hx Hnn].
    destruct (get_slot (c_sh c) (fst tab) (Z.to_nat probe)) as [[|cc]|] eqn:Es.
    + destruct (enter_acc_spec x probe true (c_sh c)) as (st & s2 & Ee & Ex & F1 & F2 & F3 & F4 & F5).
      rewrite Ee in H. injection H as <-. right.
      eapply Inv_Q with (th := th); try eassumption; try side Hcur.
      okth Hp Hu. congruence.
    + injection H as <-. right.
      eapply Inv_Q with (th := th); try eassumption; try side Hcur.
      okth Hp Hu. split; [assumption|].
      apply get_slot_arr in Es. destruct Es as [_ Es]. apply nth_error_In in Es.
      apply (gl_slots G Hnn _ _ Es). discriminate.
    + injection H as <-. fault Hn.
  - (* AddCellLoad *)
    destruct Hk as [Hx Hin].
    destruct (get_cell (c_sh c) c0) as [v|] eqn:Eg.
    + injection H as <-. right.
      eapply Inv_Q with (th := th); try eassumption; try side Hcur.
      okth Hp Hu. auto.
    + injection H as <-. fault Hn.
  - (* AddCellCas *)
    destruct Hk as [Hx Hin].
    destruct (get_cell (c_sh c) c0) as [cur|] eqn:Eg.
    + destruct (cur =? v) eqn:Ev.
      * injection H as <-. right. apply Z.eqb_eq in Ev. subst cur x. rewrite vadd_def.
        eapply Inv_cell_cas; eauto.
      * destruct (enter_acc_spec x probe false (c_sh c)) as (st & s2 & Ee & Ex & F1 & F2 & F3 & F4 & F5).
        rewrite Ee in H. injection H as <-. right.
        eapply Inv_Q with (th := th); try eassumption; try side Hcur.
        okth Hp Hu. congruence.
    + injection H as <-. fault Hn.
Qed.

Lemma pres_attach (c : acfg) t th o l c' :
  Inv c -> nth_error (c_thr c) t = Some th -> t_cur th = Some (o, l) ->
  match l with
  | L1 _ | L2 _ _ | L3 _ _ | L3f _ _ | L4 _ _ | L5 _ _ | L6 _ _ | L7 _ _ _ _ | L8 _ _ _ _ | L9 _ _ => True
  | _ => False
  end ->
  after c t th (t_prog th) o (step l (c_sh c)) = Some c' -> P c'.
Proof.
  intros HI Hn Hcur Hl H.
  pose proof (iv_glob HI) as G.
  destruct (iv_thr HI _ _ Hn) as (Hd & Hp & Hc). rewrite Hcur in Hc. destruct Hc as [Hu Hk].
  destruct l; try contradiction; clear Hl; simpl in Hk; simpl in H.
  - (* L1 *)
    destruct (a_table (c_sh c)) as [tab|] eqn:Et.
    + destruct (nmask tab <? 0); injection H as <-; right;
        (eapply Inv_Q with (th := th); try eassumption; try side Hcur); okth Hp Hu.
      * assumption.
      * split; [assumption|]. split; [congruence|]. apply (gl_tab G _ Et).
    + injection H as <-. right.
      eapply Inv_Q with (th := th); try eassumption; try side Hcur. okth Hp Hu. assumption.
  - (* L2 *)
    destruct Hk as (Hx & Hnn & Htok).
    destruct (get_slot (c_sh c) (fst tab) (slot_of (r_index st) tab)) as [[|cc]|] eqn:Es.
    + injection H as <-. right.
      eapply Inv_Q with (th := th); try eassumption; try side Hcur. okth Hp Hu. auto.
    + assert (Hin : In (S cc) (att (c_sh c))).
      { apply get_slot_arr in Es. destruct Es as [_ Es]. apply nth_error_In in Es.
        apply (gl_slots G Hnn _ _ Es). discriminate. }
      destruct (negb (r_unc st)); injection H as <-; right;
        (eapply Inv_Q with (th := th); try eassumption; try side Hcur); okth Hp Hu; auto.
    + injection H as <-. fault Hn.
  - (* L3 *)
    destruct Hk as (Hx & Hnn).
    destruct (a_busy (c_sh c) =? 0).
    + destruct f64; injection H as <-; right;
        (eapply Inv_new_cell with (th := th); try eassumption; try reflexivity; try side Hcur).
      * okth Hp Hu. split; [assumption|]. split; [assumption|].
        split; [discriminate|]. simpl. rewrite app_length. simpl. lia.
      * unfold ownedth. simpl. intros r [<-|[]]. reflexivity.
      * okth Hp Hu. split; [assumption|]. split; [assumption|].
        rewrite <- Hx. apply (get_cell_new_cell_new (c_sh c) (r_x st)).
      * unfold ownedth. simpl. intros r [<-|[]]. reflexivity.
    + injection H as <-. right.
      eapply Inv_Q with (th := th); try eassumption; try side Hcur. okth Hp Hu. assumption.
  - (* L3f *)
    destruct Hk as (Hx & Hnn & Hv).
    injection H as <-. right.
    eapply Inv_cell_priv with (th := th); try eassumption; try side Hcur.
    + unfold ownedth. rewrite Hcur. left. reflexivity.
    + right. exact Hnn.
    + okth Hp Hu. split; [assumption|]. split.
      * destruct r; exact Hnn.
      * rewrite get_cell_set_cell, Nat.eqb_refl. destruct (valid_get_cell _ _ Hv) as [w ->].
        rewrite Hx. reflexivity.
  - (* L4 *)
    destruct Hk as (Hx & Hnn & Hg).
    destruct (a_busy (c_sh c) =? 0); injection H as <-; right;
      (eapply Inv_Q with (th := th); try eassumption; try side Hcur); okth Hp Hu; auto.
  - (* L5 *)
    destruct Hk as (Hx & Hnn & Hg).
    destruct (a_busy (c_sh c) =? 0) eqn:Eb.
    + injection H as <-. right. apply Z.eqb_eq in Eb.
      eapply Inv_acquire with (th := th); try eassumption; try side Hcur. okth Hp Hu; auto.
    + injection H as <-. right.
      eapply Inv_Q with (th := th); try eassumption; try side Hcur. okth Hp Hu; auto.
  - (* L6 *)
    destruct Hk as (Hx & Hnn & Hg).
    destruct (a_table (c_sh c)) as [rs|] eqn:Et; [|injection H as <-; fault Hn].
    destruct (nmask rs <? 0) eqn:Em; injection H as <-; right;
      (eapply Inv_Q with (th := th); try eassumption; try side Hcur); okth Hp Hu.
    + split; [assumption|congruence].
    + split; [assumption|]. split; [assumption|]. split; [exact Et|]. apply slot_of_lt. exact Em.
  - (* L7 *)
    destruct Hk as (Hx & Hg & Ht & Hj).
    destruct (get_slot (c_sh c) (fst rs) j) as [[|cc]|] eqn:Es; injection H as <-;
      [right|right|fault Hn];
      (eapply Inv_Q with (th := th); try eassumption; try side Hcur); okth Hp Hu.
    + apply get_slot_arr in Es. destruct Es as [_ Es]. auto.
    + split; [assumption|congruence].
  - (* L8 *)
    injection H as <-. right. apply Inv_L8; assumption.
  - (* L9 *)
    destruct Hk as (Hx & Hnn).
    destruct fin; injection H as <-; right;
      (eapply Inv_release with (th := th); try eassumption; try side Hcur).
    + split; [reflexivity|split; [exact Hp|exact I]].
    + okth Hp Hu. assumption.
Qed.

Lemma cap_of_arr s a : (a < length (a_arrays s))%nat -> cap_of s a = length (arr_of s a).
Proof. intros H. unfold cap_of. rewrite (arr_of_nth_error _ _ H). reflexivity. Qed.

Lemma pres_grow (c : acfg) t th o l c' :
  Inv c -> nth_error (c_thr c) t = Some th -> t_cur th = Some (o, l) ->
  match l with
  | L10 _ _ _ | L11 _ _ _ _ | L12 _ _ | L13 _ _ | L14 _ _ | L15 _ _ | Lcopy _ _ _ | L16 _ _ | L17 _ => True
  | _ => False
  end ->
  after c t th (t_prog th) o (step l (c_sh c)) = Some c' -> P c'.
Proof.
  intros HI Hn Hcur Hl H.
  pose proof (iv_glob HI) as G.
  destruct (iv_thr HI _ _ Hn) as (Hd & Hp & Hc). rewrite Hcur in Hc. destruct Hc as [Hu Hk].
  destruct l; try contradiction; clear Hl; simpl in Hk; simpl in H.
  - (* L10 *)
    destruct Hk as (Hx & Hin & Htok).
    destruct (get_cell (c_sh c) c0) as [v|] eqn:Eg; injection H as <-; [right|fault Hn].
    eapply Inv_Q with (th := th); try eassumption; try side Hcur. okth Hp Hu; auto.
  - (* L11 *)
    destruct Hk as (Hx & Hin & Htok).
    destruct (get_cell (c_sh c) c0) as [cur|] eqn:Eg; [|injection H as <-; fault Hn].
    destruct (cur =? v) eqn:Ev.
    + injection H as <-. right. apply Z.eqb_eq in Ev. subst cur. rewrite vadd_def, Hx.
      eapply Inv_cell_cas; eauto.
    + destruct (nmask tab >=? maxcells); injection H as <-; right;
        (eapply Inv_Q with (th := th); try eassumption; try side Hcur); okth Hp Hu; auto.
  - (* L12 *)
    destruct Hk as (Hx & Htok).
    destruct (a_table (c_sh c)) as [cur|] eqn:Et; [|injection H as <-; fault Hn].
    destruct (negb (fst cur =? fst tab)%nat); [|destruct (negb (r_collide st))];
      injection H as <-; right;
      (eapply Inv_Q with (th := th); try eassumption; try side Hcur); okth Hp Hu; auto.
  - (* L13 *)
    destruct Hk as (Hx & Htok).
    destruct (a_busy (c_sh c) =? 0); injection H as <-; right;
      (eapply Inv_Q with (th := th); try eassumption; try side Hcur); okth Hp Hu; auto.
  - (* L14 *)
    destruct Hk as (Hx & Htok).
    destruct (a_busy (c_sh c) =? 0) eqn:Eb.
    + injection H as <-. right. apply Z.eqb_eq in Eb.
      eapply Inv_acquire with (th := th); try eassumption; try side Hcur. okth Hp Hu; auto.
    + injection H as <-. right.
      eapply Inv_Q with (th := th); try eassumption; try side Hcur. okth Hp Hu; auto.
  - (* L15 *)
    destruct Hk as (Hx & [Hft Hlen]).
    destruct (a_table (c_sh c)) as [rs|] eqn:Et; [|injection H as <-; fault Hn].
    assert (Hnn : a_table (c_sh c) <> None) by congruence.
    rewrite (cap_of_arr _ _ Hft) in H.
    destruct (Nat.eqb_spec (fst rs) (fst tab)) as [Efst|Efst].
    + destruct (Nat.ltb_spec (snd tab) (length (arr_of (c_sh c) (fst tab)))) as [Hlt|Hge].
      * injection H as <-. right.
        eapply Inv_Q with (th := th); try eassumption; try side Hcur. okth Hp Hu.
        split; [assumption|]. split; [assumption|]. rewrite Efst. simpl. split; [|split].
        -- split; simpl; [exact Hft|lia].
        -- unfold att. rewrite Et, Efst. reflexivity.
        -- intros i Hi. apply nth_overflow. exact Hi.
      * injection H as <-. right.
        destruct (new_array_facts (c_sh c) (length (arr_of (c_sh c) (fst tab)) * 4)) as (Haro & Htk & _).
        match goal with |- Inv (Config ?s0 _) =>
          replace s0 with (snd (new_array (c_sh c) (length (arr_of (c_sh c) (fst tab)) * 4)))
            by (simpl; rewrite Et; reflexivity) end.
        eapply Inv_new_array with (th := th); try eassumption; try side Hcur.
        okth Hp Hu. split; [assumption|]. split; [exists (snd rs); simpl; rewrite Et, <- Efst; destruct rs; reflexivity|].
        rewrite !Haro. rewrite Nat.eqb_refl.
        destruct (Nat.eqb_spec (fst tab) (length (a_arrays (c_sh c)))) as [E|E]; [lia|].
        simpl. rewrite app_length. simpl.
        assert (Es : snd tab = length (arr_of (c_sh c) (fst tab))) by lia.
        repeat split; try lia. rewrite Es. reflexivity.
    + injection H as <-. right.
      eapply Inv_Q with (th := th); try eassumption; try side Hcur. okth Hp Hu. auto.
  - (* Lcopy *)
    destruct (nth_error (a_arrays (c_sh c)) (fst tab)) as [old|] eqn:Eo; [|injection H as <-; fault Hn].
    destruct (nth_error (a_arrays (c_sh c)) arr) as [new|] eqn:En; [|injection H as <-; fault Hn].
    injection H as <-. right. apply Inv_Lcopy; assumption.
  - (* L16 *)
    injection H as <-. right. apply Inv_L16; assumption.
  - (* L17 *)
    destruct Hk as (Hx & Hnn).
    injection H as <-. right.
    eapply Inv_release with (th := th); try eassumption; try side Hcur. okth Hp Hu. assumption.
Qed.

Lemma pres_create (c : acfg) t th o l c' :
  Inv c -> nth_error (c_thr c) t = Some th -> t_cur th = Some (o, l) ->
  match l with
  | C1 _ | C2 _ | C3 _ | C4 _ | C4f _ _ _ | C5 _ _ _ | C6 _ _ | B1 _ | B2 _ _ => True
  | _ => False
  end ->
  after c t th (t_prog th) o (step l (c_sh c)) = Some c' -> P c'.
Proof.
  intros HI Hn Hcur Hl H.
  pose proof (iv_glob HI) as G.
  destruct (iv_thr HI _ _ Hn) as (Hd & Hp & Hc). rewrite Hcur in Hc. destruct Hc as [Hu Hk].
  destruct l; try contradiction; clear Hl; simpl in Hk; simpl in H.
  - (* C1 *)
    destruct (a_busy (c_sh c) =? 0); injection H as <-; right;
      (eapply Inv_Q with (th := th); try eassumption; try side Hcur); okth Hp Hu; auto.
  - (* C2 *)
    destruct (a_table (c_sh c)); injection H as <-; right;
      (eapply Inv_Q with (th := th); try eassumption; try side Hcur); okth Hp Hu; auto.
  - (* C3 *)
    destruct (a_busy (c_sh c) =? 0) eqn:Eb.
    + injection H as <-. right. apply Z.eqb_eq in Eb.
      eapply Inv_acquire with (th := th); try eassumption; try side Hcur. okth Hp Hu.
      split; [assumption|]. intros Ht. apply (gl_zero G Ht Eb).
    + injection H as <-. right.
      eapply Inv_Q with (th := th); try eassumption; try side Hcur. okth Hp Hu; auto.
  - (* C4 *)
    destruct Hk as (Hx & Hz).
    destruct (a_table (c_sh c)) as [tb|] eqn:Et.
    + injection H as <-. right.
      eapply Inv_Q with (th := th); try eassumption; try side Hcur. okth Hp Hu.
      split; [assumption|congruence].
    + pose proof (Inv_C4 nrm nrm_add T c t th o st f64 HI Hn Hcur Et) as HC.
      simpl in HC. rewrite Et in HC.
      destruct f64; injection H as <-; right; exact HC.
  - (* C4f *)
    destruct Hk as (Hx & Ht & Hz & Hv & Harr & Hlen).
    injection H as <-. right.
    eapply Inv_cell_priv with (th := th); try eassumption; try side Hcur.
    + unfold ownedth. rewrite Hcur. left. reflexivity.
    + left. unfold lockedth. rewrite Hcur. reflexivity.
    + okth Hp Hu. split; [assumption|].
      assert (Ea : a_arrays (set_cell (c_sh c) r (r_x st)) = a_arrays (c_sh c)) by (destruct r; reflexivity).
      split; [destruct r; exact Ht|]. split; [apply (all_zero_heq (c_sh c)); assumption|].
      split; [|split].
      * rewrite get_cell_set_cell, Nat.eqb_refl. destruct (valid_get_cell _ _ Hv) as [w ->].
        rewrite Hx. reflexivity.
      * rewrite Ea. exact Harr.
      * rewrite (arr_of_heq _ _ Ea). exact Hlen.
  - (* C5 *)
    injection H as <-. right. apply Inv_C5; try assumption. apply land1_lt.
  - (* C6 *)
    injection H as <-. right. apply Inv_C6; assumption.
  - (* B1 *)
    injection H as <-. right.
    eapply Inv_Q with (th := th); try eassumption; try side Hcur. okth Hp Hu; auto.
  - (* B2 *)
    destruct (a_base (c_sh c) =? v) eqn:Eb.
    + injection H as <-. right. apply Z.eqb_eq in Eb. subst v.
      rewrite vadd_def, Hk.
      eapply Inv_base with (th := th); try eassumption; try side Hcur.
      * split; [reflexivity|split; [exact Hp|exact I]].
      * unfold pend_th. rewrite Hcur. simpl. ring.
    + injection H as <-. right.
      eapply Inv_Q with (th := th); try eassumption; try side Hcur. okth Hp Hu; auto.
Qed.

End Pres.
