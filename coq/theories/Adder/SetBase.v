(** Generic facts about execution logs used by the proofs of the exact form of
    C09 (RCSet.v, StripedSet*.v): the configuration before every position,
    induction along the log, per-location histories of landing steps, and an
    invariant principle for "thread t is inside the call it invoked at
    position a". *)
From Coq Require Import List Arith Bool ZArith Lia.
From Garr Require Import Conc.Conc Breaker.ConcBase Adder.SetDefs.
Import ListNotations.
Local Open Scope Z_scope.

Lemma zfold_app (l1 l2 : list Z) :
  fold_right Z.add 0 (l1 ++ l2) = fold_right Z.add 0 l1 + fold_right Z.add 0 l2.
Proof. induction l1 as [|a l1 IH]; simpl; [reflexivity|rewrite IH; lia]. Qed.

Lemma NoDup_app_disj {A} (l1 l2 : list A) :
  NoDup l1 -> NoDup l2 -> (forall x, In x l1 -> ~ In x l2) -> NoDup (l1 ++ l2).
Proof.
  induction l1 as [|a l1 IH]; intros H1 H2 Hd; [exact H2|].
  inversion H1 as [|x l Hna Hnd]; subst. simpl. constructor.
  - intros Hin. apply in_app_or in Hin. destruct Hin as [Hin|Hin]; [contradiction|].
    apply (Hd a); [left; reflexivity|exact Hin].
  - apply IH; auto. intros x Hx. apply Hd. right. exact Hx.
Qed.

Section LogFacts.
Context {sh ts lo op ret : Type}.
Variable M : machine sh ts lo op ret.
Notation cfg := (config sh ts lo op).

(** ** the configuration before position [p] (the final one if [p] is the length of the log) *)
Definition cfg_at (c : cfg) (sched : list nat) (p : nat) : cfg :=
  nth p (map fst (steps_of M c sched)) (final M c sched).

Lemma cfg_at_0 c sched : cfg_at c sched 0 = c.
Proof.
  unfold cfg_at. revert c. induction sched as [|t s IH]; intros c; [reflexivity|].
  cbn [steps_of]. rewrite final_cons. destruct (step_thread M c t) as [[c' e]|] eqn:E.
  - reflexivity.
  - rewrite (step_cfg_none M c t E). apply IH.
Qed.

Lemma cfg_at_step c sched p cp tp :
  nth_error (steps_of M c sched) p = Some (cp, tp) ->
  cfg_at c sched p = cp /\ exists e, step_thread M cp tp = Some (cfg_at c sched (S p), e).
Proof.
  unfold cfg_at. revert c p. induction sched as [|t s IH]; intros c p H.
  - destruct p; discriminate.
  - cbn [steps_of] in *. rewrite final_cons. destruct (step_thread M c t) as [[c' e]|] eqn:E.
    + rewrite (step_cfg_some M c t c' e E). destruct p as [|p].
      * injection H as <- <-. split; [reflexivity|]. exists e. cbn [map nth fst].
        change (nth 0 (map fst (steps_of M c' s)) (final M c' s)) with (cfg_at c' s 0).
        rewrite cfg_at_0. exact E.
      * cbn [nth_error] in H. destruct (IH c' p H) as [H1 H2]. cbn [map nth]. auto.
    + rewrite (step_cfg_none M c t E). apply IH. exact H.
Qed.

Lemma cfg_at_reach c sched p : exists s1, cfg_at c sched p = final M c s1.
Proof.
  destruct (nth_error (steps_of M c sched) p) as [[cp tp]|] eqn:E.
  - destruct (cfg_at_step c sched p cp tp E) as [-> _]. eapply steps_of_reach; eauto.
  - exists sched. unfold cfg_at. apply nth_overflow. rewrite map_length. apply nth_error_None. exact E.
Qed.

Lemma log_reach c sched p cp tp :
  nth_error (steps_of M c sched) p = Some (cp, tp) -> exists s1, cp = final M c s1.
Proof. apply steps_of_reach. Qed.

(** induction along the log *)
Lemma log_ind c sched (Q : nat -> cfg -> Prop) a :
  Q a (cfg_at c sched a) ->
  (forall p cp tp cp' e, (a <= p)%nat -> nth_error (steps_of M c sched) p = Some (cp, tp) ->
     Q p cp -> step_thread M cp tp = Some (cp', e) -> Q (S p) cp') ->
  forall p, (a <= p)%nat -> (p <= length (steps_of M c sched))%nat -> Q p (cfg_at c sched p).
Proof.
  intros Ha Hstep p Hle. induction Hle as [|p Hle IH]; intros Hlen; [exact Ha|].
  destruct (nth_error (steps_of M c sched) p) as [[cp tp]|] eqn:E.
  - destruct (cfg_at_step c sched p cp tp E) as [E1 [e E2]].
    eapply Hstep; [exact Hle|exact E| |exact E2]. rewrite <- E1. apply IH. lia.
  - apply nth_error_None in E. lia.
Qed.

(** ** inversion of a step *)
Definition after_step (c : cfg) (t : nat) (th : thread ts lo op) (pr : list op) (o : op)
           (out : outcome sh ts lo ret) : option cfg :=
  match out with
  | Next l' s' => Some (Config s' (upd (c_thr c) t (Thread pr (t_ts th) (Some (o, l')) false)))
  | Done r ts' s' => Some (Config s' (upd (c_thr c) t (Thread pr ts' None false)))
  | Blocked => None
  | Fault => Some (Config (c_sh c) (upd (c_thr c) t (Thread pr (t_ts th) None true)))
  end.

Lemma step_thread_inv c t c' e :
  step_thread M c t = Some (c', e) ->
  exists th o l pr,
    nth_error (c_thr c) t = Some th /\ t_dead th = false /\
    ((t_cur th = Some (o, l) /\ pr = t_prog th) \/
     (t_cur th = None /\ t_prog th = o :: pr /\ l = m_start M (t_ts th) o)) /\
    after_step c t th pr o (m_step M l (c_sh c)) = Some c' /\
    (forall t' o' r, In (ERet t' o' r) e ->
       t' = t /\ o' = o /\ exists ts' s', m_step M l (c_sh c) = Done r ts' s').
Proof.
  unfold step_thread. destruct (nth_error (c_thr c) t) as [th|] eqn:Hn; [|discriminate].
  unfold view. destruct (t_dead th) eqn:Hd; [discriminate|].
  destruct (t_cur th) as [[o l]|] eqn:Hcur.
  - intros H. exists th, o, l, (t_prog th). split; [reflexivity|]. split; [exact Hd|].
    split; [left; auto|]. unfold rest_prog in H. cbv beta iota in H. unfold after_step.
    destruct (m_step M l (c_sh c)) as [l' s'|r ts' s'| |]; try discriminate; injection H as <- <-;
      (split; [reflexivity|]); intros t' o' r' Hin; simpl in Hin;
      repeat (match type of Hin with _ \/ _ => destruct Hin as [Hin|Hin] end); try contradiction; try discriminate.
    injection Hin as <- <- <-. repeat split; eauto.
  - destruct (t_prog th) as [|o pr] eqn:Hp; [discriminate|].
    intros H. exists th, o, (m_start M (t_ts th) o), pr. split; [reflexivity|]. split; [exact Hd|].
    split; [right; auto|]. unfold rest_prog in H. cbv beta iota in H. rewrite Hp in H. cbn [tl] in H.
    unfold after_step.
    destruct (m_step M (m_start M (t_ts th) o) (c_sh c)) as [l' s'|r ts' s'| |]; try discriminate;
      injection H as <- <-; (split; [reflexivity|]); intros t' o' r' Hin; simpl in Hin;
      repeat (match type of Hin with _ \/ _ => destruct Hin as [Hin|Hin] end); try contradiction; try discriminate.
    injection Hin as <- <- <-. repeat split; eauto.
Qed.

Lemma nth_error_upd_eq {A} (l : list A) i x y : nth_error l i = Some y -> nth_error (upd l i x) i = Some x.
Proof. intros H. rewrite nth_error_upd, Nat.eqb_refl, H. reflexivity. Qed.

Lemma nth_error_upd_neq {A} (l : list A) i j x : i <> j -> nth_error (upd l i x) j = nth_error l j.
Proof. intros H. rewrite nth_error_upd. destruct (Nat.eqb_spec i j); [contradiction|reflexivity]. Qed.

(** a step of another thread leaves thread [t] alone *)
Lemma step_thread_other c t c' e t' :
  step_thread M c t = Some (c', e) -> t' <> t -> nth_error (c_thr c') t' = nth_error (c_thr c) t'.
Proof.
  intros H Hne. rewrite <- (step_cfg_some M c t c' e H). apply step_cfg_other. exact Hne.
Qed.

(** ** thread [t] inside the call it invoked at position [a] *)
Lemma call_invariant c0 sched t o pr (J : nat -> lo -> cfg -> Prop) a ca tha :
  nth_error (steps_of M c0 sched) a = Some (ca, t) ->
  nth_error (c_thr ca) t = Some tha -> t_cur tha = None -> t_prog tha = o :: pr ->
  (forall l' s', m_step M (m_start M (t_ts tha) o) (c_sh ca) = Next l' s' ->
     J (S a) l' (cfg_at c0 sched (S a))) ->
  (forall p cp th l l' s' cp' e, (a < p)%nat -> nth_error (steps_of M c0 sched) p = Some (cp, t) ->
     nth_error (c_thr cp) t = Some th -> t_prog th = pr -> t_cur th = Some (o, l) -> J p l cp ->
     m_step M l (c_sh cp) = Next l' s' -> step_thread M cp t = Some (cp', e) -> J (S p) l' cp') ->
  (forall p cp tp l cp' e, (a < p)%nat -> nth_error (steps_of M c0 sched) p = Some (cp, tp) -> tp <> t ->
     J p l cp -> step_thread M cp tp = Some (cp', e) -> J (S p) l cp') ->
  forall p, (a < p)%nat -> (p <= length (steps_of M c0 sched))%nat ->
    forall th, nth_error (c_thr (cfg_at c0 sched p)) t = Some th ->
      (length (t_prog th) <= length pr)%nat /\
      (t_prog th = pr -> forall o' l, t_cur th = Some (o', l) -> o' = o /\ J p l (cfg_at c0 sched p)).
Proof.
  intros Ha Htha Hcur Hprog Hstart Hown Hother p Hlt Hlen.
  set (Q := fun (p : nat) (c : cfg) => forall th, nth_error (c_thr c) t = Some th ->
      (length (t_prog th) <= length pr)%nat /\
      (t_prog th = pr -> forall o' l, t_cur th = Some (o', l) -> o' = o /\ J p l c)).
  apply (log_ind c0 sched Q (S a)); [| |lia|exact Hlen].
  - (* just after the invocation *)
    destruct (cfg_at_step c0 sched a ca t Ha) as [_ [e Hs]].
    destruct (step_thread_inv _ _ _ _ Hs) as (th & o1 & l1 & pr1 & Hn & Hd & Hc & Haft & _).
    rewrite Htha in Hn. injection Hn as <-.
    destruct Hc as [[Hc _]|(_ & Hp & ->)]; [congruence|].
    rewrite Hprog in Hp. injection Hp as <- <-.
    intros th Hth. unfold after_step in Haft.
    destruct (m_step M (m_start M (t_ts tha) o) (c_sh ca)) as [l' s'|r ts' s'| |] eqn:Es; try discriminate;
      injection Haft as Haft; rewrite <- Haft in Hth; cbn [c_thr] in Hth;
      rewrite (nth_error_upd_eq _ _ _ _ Htha) in Hth; injection Hth as <-; cbn [t_prog t_cur];
      (split; [lia|]); intros _ o' l E; try discriminate.
    injection E as <- <-. split; [reflexivity|]. apply (Hstart _ _ eq_refl).
  - (* one more step *)
    intros q cq tq cq' e Hq Hnq HQ Hs th' Hth'.
    destruct (Nat.eq_dec tq t) as [->|Hne].
    + destruct (step_thread_inv _ _ _ _ Hs) as (th & o1 & l1 & pr1 & Hn & Hd & Hc & Haft & _).
      destruct (HQ th Hn) as [Hl HJ].
      destruct Hc as [[Hc ->]|(Hc & Hp & ->)].
      * unfold after_step in Haft.
        destruct (m_step M l1 (c_sh cq)) as [l' s'|r ts' s'| |] eqn:Es; try discriminate;
          injection Haft as Haft; rewrite <- Haft in Hth'; cbn [c_thr] in Hth';
          rewrite (nth_error_upd_eq _ _ _ _ Hn) in Hth'; injection Hth' as <-; cbn [t_prog t_cur];
          (split; [exact Hl|]); intros E o' l E'; try discriminate.
        injection E' as <- <-. destruct (HJ E o1 l1 Hc) as [-> HJ1]. split; [reflexivity|].
        eapply Hown; eauto.
      * unfold after_step in Haft. rewrite Hp in Hl. cbn [length] in Hl.
        destruct (m_step M (m_start M (t_ts th) o1) (c_sh cq)) as [l' s'|r ts' s'| |]; try discriminate;
          injection Haft as Haft; rewrite <- Haft in Hth'; cbn [c_thr] in Hth';
          rewrite (nth_error_upd_eq _ _ _ _ Hn) in Hth'; injection Hth' as <-; cbn [t_prog t_cur];
          (split; [lia|]); intros E; subst pr1; lia.
    + rewrite (step_thread_other _ _ _ _ t Hs) in Hth' by auto.
      destruct (HQ th' Hth') as [Hl HJ]. split; [exact Hl|].
      intros E o' l Hc. destruct (HJ E o' l Hc) as [-> HJ1]. split; [reflexivity|].
      eapply Hother; eauto.
Qed.

(** the returning step of a call is not its invocation step, provided invocations never return at once *)
Lemma returns_cur c t c' e o r th :
  (forall tsx ox s rx tsx' s', m_step M (m_start M tsx ox) s <> Done rx tsx' s') ->
  step_thread M c t = Some (c', e) -> In (ERet t o r) e -> nth_error (c_thr c) t = Some th ->
  exists l ts' s', t_cur th = Some (o, l) /\ m_step M l (c_sh c) = Done r ts' s' /\ c_sh c' = s'.
Proof.
  intros Hnd Hs Hin Hn.
  destruct (step_thread_inv _ _ _ _ Hs) as (th0 & o1 & l1 & pr1 & Hn0 & Hd & Hc & Haft & Hev).
  rewrite Hn in Hn0. injection Hn0 as <-.
  destruct (Hev _ _ _ Hin) as (_ & -> & ts' & s' & Es).
  destruct Hc as [[Hc _]|(_ & _ & ->)].
  - exists l1, ts', s'. split; [exact Hc|]. split; [exact Es|].
    rewrite Es in Haft. injection Haft as <-. reflexivity.
  - exfalso. eapply Hnd; eauto.
Qed.

(** ** histories of landing steps *)
Section Hist.
Context {loc : Type}.
Variable loc_eqb : loc -> loc -> bool.
Hypothesis loc_eqb_spec : forall a b, loc_eqb a b = true <-> a = b.
Variable commit : cfg -> nat -> option (loc * Z).
Variable log : list (cfg * nat).

Definition lands_on (l : loc) (k : nat) : bool :=
  match landing commit log k with Some (l', _) => loc_eqb l l' | None => false end.

(** the positions [k < p] that land on [l] *)
Definition hist (l : loc) (p : nat) : list nat := filter (lands_on l) (seq 0 p).

Lemma lands_on_iff l k : lands_on l k = true <-> exists x, landing commit log k = Some (l, x).
Proof.
  unfold lands_on. destruct (landing commit log k) as [[l' x]|].
  - rewrite loc_eqb_spec. split; [intros ->; eauto|intros [x' E]; congruence].
  - split; [discriminate|intros [x' E]; discriminate].
Qed.

Lemma hist_S l p : hist l (S p) = hist l p ++ (if lands_on l p then [p] else []).
Proof. unfold hist. rewrite seq_S, filter_app. reflexivity. Qed.

Lemma hist_In l p k : In k (hist l p) <-> (k < p)%nat /\ lands_on l k = true.
Proof. unfold hist. rewrite filter_In, in_seq. intuition lia. Qed.

Lemma hist_NoDup l p : NoDup (hist l p).
Proof. apply NoDup_filter. apply seq_NoDup. Qed.

Lemma hist_nil_iff l p : hist l p = [] <-> forall k, (k < p)%nat -> lands_on l k = false.
Proof.
  split.
  - intros E k Hk. destruct (lands_on l k) eqn:El; [|reflexivity].
    assert (Hin : In k (hist l p)) by (apply hist_In; auto). rewrite E in Hin. contradiction.
  - intros H. destruct (hist l p) as [|k r] eqn:E; [reflexivity|].
    assert (Hin : In k (hist l p)) by (rewrite E; left; reflexivity).
    apply hist_In in Hin. destruct Hin as [Hk Hl]. rewrite (H k Hk) in Hl. discriminate.
Qed.

Lemma asum_app K1 K2 : asum commit log (K1 ++ K2) = asum commit log K1 + asum commit log K2.
Proof. unfold asum. rewrite map_app. apply zfold_app. Qed.

Lemma asum_hist_S l p :
  asum commit log (hist l (S p)) =
  asum commit log (hist l p) + (if lands_on l p then amount commit log p else 0).
Proof.
  rewrite hist_S, asum_app. destruct (lands_on l p); unfold asum; simpl; lia.
Qed.

Lemma amount_landing k l x : landing commit log k = Some (l, x) -> amount commit log k = x.
Proof. unfold amount. intros ->. reflexivity. Qed.

End Hist.
End LogFacts.

Arguments cfg_at {sh ts lo op ret} M c sched p.
