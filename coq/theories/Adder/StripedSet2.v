(** Striped adder, exact form of C09, part 2: reachable configurations of
    programs that mix updates of ANY sign with Sums.

    [SI]: the update-only invariant [Inv] of the configuration with the Sum
    calls erased ([strip]), plus [ND].  [st_step_cases]: what a step of a
    reachable configuration does to the summand locations. *)
From Coq Require Import List Arith Bool ZArith Lia Permutation.
From Garr Require Import Conc.Conc Pure.F64 Breaker.ConcBase Adder.StripedModel Adder.AdderSpec Adder.StripedLib
  Adder.StripedInv Adder.StripedPres Adder.StripedProofs Adder.StripedLocal Adder.StripedPhase
  Adder.StripedStrip Adder.StripedMono Adder.StripedNoFault Adder.SetDefs Adder.SetBase Adder.StripedSet1.
Import ListNotations.
Local Open Scope Z_scope.

Lemma sumpc_commit l s : sumpc l -> a_commit_pc l s = None.
Proof. destruct l; simpl; try contradiction; reflexivity. Qed.

Lemma mixed_rop o : mixed_op o <-> rop o.
Proof. reflexivity. Qed.

Definition is_some {A} (o : option A) : bool := match o with Some _ => true | None => false end.

Section Cfg.
Variable nrm : Z -> Z.
Hypothesis nrm_add : forall a b, nrm (nrm a + b) = nrm (a + b).
Hypothesis nrm_0 : nrm 0 = 0.
Variable vadd : Z -> Z -> Z.
Hypothesis vadd_def : forall a b, vadd a b = nrm (a + b).
Variable f64 : bool.
Variable maxcells : Z.
Notation M := (striped vadd f64 maxcells).
Notation step := (astep vadd f64 maxcells).

Definition SI (T : Z) (c : acfg) : Prop := prog_ok c /\ Inv nrm T (strip c) /\ ND (c_sh c).

Lemma astep_start_not_done (tsx : unit) ox s rx (tsx' : unit) s' :
  m_step M (m_start M tsx ox) s <> Done rx tsx' s'.
Proof. change (step (AInv ox) s <> Done rx tsx' s'). destruct ox; discriminate. Qed.

Lemma st_step_cases T (c : acfg) t c' e :
  SI T c -> step_thread M c t = Some (c', e) -> ~ has_dead c' ->
  SI T c' /\ SL (c_sh c) (c_sh c') /\
  match a_commit c t with
  | Some (loc, x) =>
      lands_eff vadd (c_sh c) (c_sh c') loc x /\
      exists th o l, nth_error (c_thr c) t = Some th /\ t_cur th = Some (o, l) /\
                     is_update o = true /\ delta o = x
  | None => same_summands (c_sh c) (c_sh c')
  end.
Proof.
  intros (Hok & HI & Hd) H Hnd.
  destruct (strip_step vadd f64 maxcells c t c' e Hok H) as [Hok' Htri].
  assert (HI' : Inv nrm T (strip c')).
  { destruct Htri as [Hdead|[[Es _]|[e' Hs]]].
    - contradiction.
    - rewrite Es. exact HI.
    - destruct (pres_step nrm nrm_add vadd vadd_def f64 maxcells T (strip c) t (strip c') e'
                  (or_intror HI) Hs) as [Hdead|HI']; [|exact HI'].
      exfalso. apply Hnd. apply has_dead_strip. exact Hdead. }
  assert (Hst : ND (c_sh c') /\ SL (c_sh c) (c_sh c') /\
                match a_commit c t with
                | Some (loc, x) =>
                    lands_eff vadd (c_sh c) (c_sh c') loc x /\
                    exists th o l, nth_error (c_thr c) t = Some th /\ t_cur th = Some (o, l) /\
                                   is_update o = true /\ delta o = x
                | None => same_summands (c_sh c) (c_sh c')
                end).
  { destruct (step_after vadd f64 maxcells _ _ _ _ H) as (th & Hnth & Hdd & Ha).
    destruct (Hok _ _ Hnth) as [_ Hcur].
    unfold a_commit. rewrite Hnth.
    destruct (t_cur th) as [[o l]|] eqn:Ec.
    - destruct (Hcur o l eq_refl) as [Hro Hsum].
      destruct (is_update o) eqn:Hu.
      + assert (Hns : nth_error (c_thr (strip c)) t = Some (strip_th th)).
        { simpl. rewrite nth_error_map, Hnth. reflexivity. }
        destruct (iv_thr HI _ _ Hns) as (_ & _ & Hc). unfold strip_th in Hc. simpl in Hc.
        rewrite Ec in Hc. simpl in Hc. rewrite Hu in Hc. destruct Hc as [_ Hk].
        assert (Hown : forall r, In r (owned l) -> ~ In r (att (c_sh c))).
        { intros r Hr. assert (Hr' : In r (ownedth (strip_th th))).
          { unfold ownedth, strip_th. simpl. rewrite Ec. simpl. rewrite Hu. exact Hr. }
          apply (iv_own HI _ _ _ Hns Hr'). }
        pose proof (upd_shape nrm vadd f64 maxcells (delta o) l (c_sh c) (iv_glob HI) Hk Hown Hd) as Hsh.
        pose proof (upd_effect nrm vadd f64 maxcells (delta o) l (c_sh c) (iv_glob HI) Hk Hown) as Hef.
        assert (Hconv : forall s',
                  match a_commit_pc l (c_sh c) with
                  | Some (loc, y) => y = delta o /\ lands_eff vadd (c_sh c) s' loc (delta o)
                  | None => same_summands (c_sh c) s'
                  end ->
                  match a_commit_pc l (c_sh c) with
                  | Some (loc, x) =>
                      lands_eff vadd (c_sh c) s' loc x /\
                      exists th0 o0 l0, Some th = Some th0 /\ t_cur th0 = Some (o0, l0) /\
                                        is_update o0 = true /\ delta o0 = x
                  | None => same_summands (c_sh c) s'
                  end).
        { intros s' Hm. destruct (a_commit_pc l (c_sh c)) as [[loc y]|]; [|exact Hm].
          destruct Hm as [-> Hl]. split; [exact Hl|]. exists th, o, l. auto. }
        unfold after in Ha. destruct (step l (c_sh c)) as [l' s'|r ts' s'| |]; try discriminate;
          injection Ha as <-; cbn [c_sh].
        * destruct Hsh as [H1 H2]. split; [exact H1|]. split; [exact H2|]. apply Hconv. exact Hef.
        * destruct Hsh as [H1 H2]. split; [exact H1|]. split; [exact H2|]. apply Hconv. exact Hef.
        * exfalso. apply Hnd. eapply has_dead_upd. exact Hnth.
      + destruct Hro as [Hro|Hro]; [congruence|]. subst o.
        pose proof (step_sumpc vadd f64 maxcells l (c_sh c) (Hsum eq_refl)) as Hs.
        rewrite (sumpc_commit l (c_sh c) (Hsum eq_refl)).
        unfold after in Ha. destruct (step l (c_sh c)) as [l' s'|r ts' s'| |]; try contradiction;
          injection Ha as <-; cbn [c_sh].
        * destruct Hs as [_ ->]. split; [exact Hd|]. split; [apply SL_refl|]. intros loc. reflexivity.
        * destruct Hs as [-> _]. split; [exact Hd|]. split; [apply SL_refl|]. intros loc. reflexivity.
        * exfalso. apply Hnd. eapply has_dead_upd. exact Hnth.
    - destruct Ha as (o & pr & _ & Ha).
      assert (E : c_sh c' = c_sh c).
      { unfold after in Ha. destruct o; simpl in Ha; injection Ha as <-; reflexivity. }
      rewrite E. split; [exact Hd|]. split; [apply SL_refl|]. intros loc. reflexivity. }
  destruct Hst as (Hd' & HSL & Heff).
  split; [|split; [exact HSL|exact Heff]].
  split; [exact Hok'|]. split; [exact HI'|exact Hd'].
Qed.

(** ** every reachable configuration of a mixed program satisfies [SI] *)
Variable rnd : list Z.
Variable progs : list (list aop).
Hypothesis progs_mixed : mixed_progs progs.

Notation c0 := (init apc (ainit rnd) tt progs).
Definition T0 : Z := total (map (filter is_update) progs).

Lemma reach_no_dead sched : ~ has_dead (final M c0 sched).
Proof.
  intros (th & Hin & Hd). rewrite (striped_no_fault vadd f64 maxcells rnd progs sched th Hin) in Hd.
  discriminate.
Qed.

Lemma SI_init : SI T0 c0.
Proof.
  assert (Hth : forall t th, nth_error (map (mk_thread apc tt) progs) t = Some th ->
                exists p, In p progs /\ th = mk_thread apc tt p).
  { intros t th H. apply nth_error_In in H. apply in_map_iff in H. destruct H as (p & <- & Hp). eauto. }
  split; [|split].
  - intros t th H. destruct (Hth _ _ H) as (p & Hp & ->). split; simpl.
    + intros o Ho. apply (progs_mixed p o Hp Ho).
    + intros; discriminate.
  - assert (Es : strip c0 = init apc (ainit rnd) tt (map (filter is_update) progs)).
    { unfold strip, init. simpl. rewrite !map_map. reflexivity. }
    rewrite Es. apply (Inv_init nrm nrm_0).
    intros p o Hp Ho. apply in_map_iff in Hp. destruct Hp as (p0 & <- & _).
    apply filter_In in Ho. tauto.
  - intros a. unfold arr_of. simpl. destruct a; constructor.
Qed.

Lemma SI_reach sched : SI T0 (final M c0 sched).
Proof.
  assert (H : reachable M c0 (final M c0 sched) /\ SI T0 (final M c0 sched)); [|apply H].
  apply (invariant_run M (fun c => reachable M c0 c /\ SI T0 c)).
  - split; [apply reachable_refl|apply SI_init].
  - intros c t c' e [Hr HS] Hs.
    assert (Hr' : reachable M c0 c').
    { rewrite <- (step_cfg_some M c t c' e Hs). apply reachable_step. exact Hr. }
    split; [exact Hr'|]. destruct Hr' as [s' <-].
    apply (st_step_cases T0 c t _ e HS Hs (reach_no_dead s')).
Qed.

End Cfg.

Lemma commit_amount x l s loc y : ltok x l s -> a_commit_pc l s = Some (loc, y) -> y = x.
Proof.
  intros Hk Hc.
  destruct l; simpl in Hk, Hc; try discriminate; try contradiction;
    repeat match type of Hc with
           | context [if ?b then _ else _] => destruct b
           | context [match ?g with _ => _ end] => destruct g
           end; try discriminate; injection Hc as _ <-; intuition congruence.
Qed.

(** ** the phase of an update call: before / after its landing step *)
Section Phase.
Variable vadd : Z -> Z -> Z.
Variable f64 : bool.
Variable maxcells : Z.
Notation step := (astep vadd f64 maxcells).

Ltac brk :=
  repeat match goal with
  | |- context [take_rnd ?s] =>
      let H := fresh "Hrnd" in pose proof (take_rnd_shape s) as H; destruct (take_rnd s); simpl in H
  | |- context [enter_acc ?x ?i ?u ?s] =>
      let st := fresh "st" in let s1 := fresh "s1" in let E := fresh "Eacc" in let H := fresh "Hacc" in
      destruct (enter_acc_shape x i u s) as (st & s1 & E & H); rewrite E
  | |- context [match a_table ?s with _ => _ end] => destruct (a_table s) eqn:?
  | |- context [if ?b then _ else _] => destruct b eqn:?
  | |- context [match get_slot ?s ?a ?i with _ => _ end] => destruct (get_slot s a i) as [[|?]|] eqn:?
  | |- context [match get_cell ?s ?c with _ => _ end] => destruct (get_cell s c) eqn:?
  | |- context [match nth_error ?l ?c with _ => _ end] => destruct (nth_error l c) eqn:?
  end; cbn [fst snd goto fin rehash new_cell new_array].

(** a call that continues was not effected yet, and is effected afterwards iff the step
    was its landing step; a call returns either with its landing step or after it *)
Lemma pc_phase x l s :
  ltok x l s ->
  match step l s with
  | Next l' _ => effected l = false /\ effected l' = is_some (a_commit_pc l s)
  | Done _ _ _ => effected l = negb (is_some (a_commit_pc l s))
  | _ => True
  end.
Proof.
  intros Hk.
  destruct l; simpl in Hk; try contradiction; cbn [astep a_commit_pc]; brk; cbn [effected is_some negb]; auto.
  destruct Hk as (_ & _ & _ & _ & _ & _ & r & Hf & _). rewrite Hf. auto.
Qed.

End Phase.
