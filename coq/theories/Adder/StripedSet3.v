(** Striped adder (JDKAdder / JDKF64Adder), exact form of C09, part 3: the
    theorems over the execution log, for any addition [vadd a b = nrm (a + b)]
    with [nrm (nrm a + b) = nrm (a + b)], [nrm 0 = 0] (wrap-around or exact).

    - [st_hist_inv]: per-location histories.  Before log position [p] the value
      [v] of a summand location satisfies [nrm v = nrm (sum of the amounts of
      the landing steps k < p on it)]; a location that is not (yet) a summand
      has no landing step before [p];
    - [st_update_lands_once], [st_landing_effect];
    - [st_sum_is_set_of_whole_updates]. *)
From Coq Require Import List Arith Bool ZArith Lia Permutation.
From Garr Require Import Conc.Conc Pure.F64 Breaker.ConcBase Adder.StripedModel Adder.AdderSpec Adder.StripedLib
  Adder.StripedInv Adder.StripedPres Adder.StripedProofs Adder.StripedLocal Adder.StripedStrip
  Adder.StripedMono Adder.StripedRead Adder.StripedNoFault
  Adder.SetDefs Adder.SetBase Adder.StripedSet1 Adder.StripedSet2.
Import ListNotations.
Local Open Scope Z_scope.

Definition sloc_eqb (a b : sloc) : bool :=
  match a, b with
  | LBase, LBase => true
  | LCell c, LCell d => Nat.eqb c d
  | _, _ => false
  end.

Lemma sloc_eqb_spec a b : sloc_eqb a b = true <-> a = b.
Proof.
  destruct a as [|c], b as [|d]; simpl; split; intros H; try discriminate; try reflexivity.
  - apply Nat.eqb_eq in H. congruence.
  - injection H as ->. apply Nat.eqb_refl.
Qed.

Lemma sloc_eqb_refl a : sloc_eqb a a = true.
Proof. apply sloc_eqb_spec. reflexivity. Qed.

Lemma sloc_eqb_neq a b : a <> b -> sloc_eqb a b = false.
Proof. intros H. destruct (sloc_eqb a b) eqn:E; [|reflexivity]. apply sloc_eqb_spec in E. contradiction. Qed.

Section StSet.
Variable nrm : Z -> Z.
Hypothesis nrm_add : forall a b, nrm (nrm a + b) = nrm (a + b).
Hypothesis nrm_0 : nrm 0 = 0.
Variable vadd : Z -> Z -> Z.
Hypothesis vadd_def : forall a b, vadd a b = nrm (a + b).
Variable f64 : bool.
Variable maxcells : Z.
Variable rnd : list Z.
Variable progs : list (list aop).
Hypothesis progs_mixed : mixed_progs progs.
Variable sched : list nat.

Notation M := (striped vadd f64 maxcells).
Notation step := (astep vadd f64 maxcells).
Notation c0 := (init apc (ainit rnd) tt progs).
Notation log := (steps_of M c0 sched).
Notation cat := (cfg_at M c0 sched).
Notation lnd := (landing a_commit log).
Notation hst := (hist sloc_eqb a_commit log).
Notation sm := (asum a_commit log).
Notation TT := (T0 progs).

Lemma SI_fin s1 : SI nrm TT (final M c0 s1).
Proof. apply (SI_reach nrm nrm_add nrm_0 vadd vadd_def f64 maxcells rnd progs progs_mixed s1). Qed.

Lemma SI_log p cp tp : nth_error log p = Some (cp, tp) -> SI nrm TT cp.
Proof. intros H. destruct (log_reach _ _ _ _ _ _ H) as [s1 ->]. apply SI_fin. Qed.

Lemma SI_at p : SI nrm TT (cat p).
Proof. destruct (cfg_at_reach M c0 sched p) as [s1 ->]. apply SI_fin. Qed.

Lemma glob_of (c : acfg) : SI nrm TT c -> Glob nrm (c_sh c).
Proof. intros (_ & HI & _). apply (iv_glob HI). Qed.

(** what thread [t], inside an update call at pc [l], knows *)
Lemma ltok_of (c : acfg) t th o l :
  SI nrm TT c -> nth_error (c_thr c) t = Some th -> t_cur th = Some (o, l) -> is_update o = true ->
  ltok (delta o) l (c_sh c).
Proof.
  intros (_ & HI & _) Hn Hc Hu.
  assert (Hns : nth_error (c_thr (strip c)) t = Some (strip_th th)).
  { simpl. rewrite nth_error_map, Hn. reflexivity. }
  destruct (iv_thr HI _ _ Hns) as (_ & _ & Hk). unfold strip_th in Hk. simpl in Hk.
  rewrite Hc in Hk. simpl in Hk. rewrite Hu in Hk. apply Hk.
Qed.

(** the step at a log position *)
Lemma st_log_step p cp tp :
  nth_error log p = Some (cp, tp) ->
  SL (c_sh cp) (c_sh (cat (S p))) /\
  match lnd p with
  | Some (loc, x) =>
      lands_eff vadd (c_sh cp) (c_sh (cat (S p))) loc x /\
      exists th o l, nth_error (c_thr cp) tp = Some th /\ t_cur th = Some (o, l) /\
                     is_update o = true /\ delta o = x
  | None => same_summands (c_sh cp) (c_sh (cat (S p)))
  end.
Proof.
  intros H. destruct (cfg_at_step M c0 sched p cp tp H) as [_ [e Hs]].
  assert (Hnd : ~ has_dead (cat (S p))).
  { destruct (cfg_at_reach M c0 sched (S p)) as [s1 ->]. apply reach_no_dead. }
  destruct (st_step_cases nrm nrm_add vadd vadd_def f64 maxcells TT cp tp _ e (SI_log _ _ _ H) Hs Hnd)
    as (_ & HSL & Heff).
  split; [exact HSL|]. unfold landing. rewrite H. exact Heff.
Qed.

(** ** per-location histories *)
Definition hist_ok (p : nat) (s : ashared) : Prop :=
  forall loc, match summand s loc with
              | Some v => nrm v = nrm (sm (hst loc p))
              | None => hst loc p = []
              end.

Lemma st_hist_inv p : (p <= length log)%nat -> hist_ok p (c_sh (cat p)).
Proof.
  intros Hp.
  apply (log_ind M c0 sched (fun p c => hist_ok p (c_sh c)) 0%nat); [| |lia|exact Hp].
  - intros loc. rewrite cfg_at_0. destruct loc as [|c]; simpl; reflexivity.
  - intros q cq tq cq' e _ Hq IH Hs loc.
    destruct (cfg_at_step M c0 sched q cq tq Hq) as [_ [e' Hs']].
    rewrite Hs in Hs'. injection Hs' as -> _.
    destruct (st_log_step q cq tq Hq) as [_ Heff].
    rewrite (hist_S sloc_eqb a_commit log). unfold lands_on.
    destruct (lnd q) as [[loc0 x]|] eqn:El.
    + destruct Heff as [[Hoth Hloc] _].
      destruct (sloc_eqb loc loc0) eqn:Eq.
      * apply sloc_eqb_spec in Eq. subst loc0. specialize (IH loc).
        destruct (summand (c_sh cq) loc) as [v|]; rewrite Hloc.
        -- rewrite (asum_app a_commit log). unfold asum at 2. cbn [map fold_right].
           rewrite (amount_landing a_commit log q loc x El), Z.add_0_r.
           rewrite vadd_def, (nrm_idem nrm nrm_add). apply (nrm_cong nrm nrm_add). exact IH.
        -- rewrite IH. cbn [app]. unfold asum. cbn [map fold_right].
           rewrite (amount_landing a_commit log q loc x El), Z.add_0_r. reflexivity.
      * assert (Hne : loc <> loc0) by (intros ->; rewrite sloc_eqb_refl in Eq; discriminate).
        rewrite (Hoth loc Hne), app_nil_r. apply IH.
    + rewrite (Heff loc), app_nil_r. apply IH.
Qed.

(** a location on which something landed is a summand ever after *)
Lemma landed_summand p k loc x :
  (p <= length log)%nat -> (k < p)%nat -> lnd k = Some (loc, x) -> summand (c_sh (cat p)) loc <> None.
Proof.
  intros Hp Hk Hl Hn. pose proof (st_hist_inv p Hp loc) as H. rewrite Hn in H.
  assert (Hin : In k (hst loc p)).
  { apply hist_In. split; [exact Hk|]. apply (lands_on_iff sloc_eqb sloc_eqb_spec). eauto. }
  rewrite H in Hin. contradiction.
Qed.

Lemma summand_att s c : summand s (LCell c) <> None -> In c (att s).
Proof. simpl. destruct (in_dec Nat.eq_dec c (att s)); [auto|congruence]. Qed.

(** ** Theorem: what a landing step is *)
Theorem st_landing_effect k c t :
  nth_error log k = Some (c, t) ->
  match lnd k with
  | Some (loc, x) =>
      (forall loc', loc' <> loc -> summand (c_sh (cat (S k))) loc' = summand (c_sh c) loc') /\
      match summand (c_sh c) loc with
      | Some v => summand (c_sh (cat (S k))) loc = Some (vadd v x)
      | None => summand (c_sh (cat (S k))) loc = Some x
      end /\
      exists th o l, nth_error (c_thr c) t = Some th /\ t_cur th = Some (o, l) /\
                     is_update o = true /\ delta o = x
  | None => forall loc, summand (c_sh (cat (S k))) loc = summand (c_sh c) loc
  end.
Proof.
  intros H. destruct (st_log_step k c t H) as [_ Heff].
  destruct (lnd k) as [[loc x]|]; [|exact Heff].
  destruct Heff as [[H1 H2] H3]. auto.
Qed.

Corollary st_sum_steps_change_nothing k c t th :
  nth_error log k = Some (c, t) -> nth_error (c_thr c) t = Some th ->
  (t_cur th = None /\ (exists pr, t_prog th = Sum :: pr) \/ exists l, t_cur th = Some (Sum, l)) ->
  lnd k = None /\ forall loc, summand (c_sh (cat (S k))) loc = summand (c_sh c) loc.
Proof.
  intros H Hn Hs. pose proof (st_landing_effect k c t H) as He.
  destruct (lnd k) as [[loc x]|] eqn:El; [|auto].
  exfalso. destruct He as (_ & _ & th' & o & l & Hn' & Hc & Hu & _).
  rewrite Hn in Hn'. injection Hn' as <-.
  destruct Hs as [[Hc' _]|[l' Hc']]; rewrite Hc in Hc'; [discriminate|].
  injection Hc' as -> _. discriminate.
Qed.

(** ** inside an update call: before / after its landing step *)
Definition st_phase (a t : nat) (o : aop) (p : nat) (l : apc) : Prop :=
  (effected l = false -> forall k, (a <= k < p)%nat -> step_of log k t -> lnd k = None) /\
  (effected l = true -> exists k loc, (a <= k < p)%nat /\ step_of log k t /\ lnd k = Some (loc, delta o) /\
      forall k', (a <= k' < p)%nat -> step_of log k' t -> lnd k' <> None -> k' = k).

Lemma st_commit_at p cp t th o l :
  nth_error log p = Some (cp, t) -> nth_error (c_thr cp) t = Some th -> t_cur th = Some (o, l) ->
  is_update o = true ->
  lnd p = a_commit_pc l (c_sh cp) /\ ltok (delta o) l (c_sh cp).
Proof.
  intros Hnp Hth Hcur Hu. split.
  - unfold landing. rewrite Hnp. unfold a_commit. rewrite Hth, Hcur. reflexivity.
  - eapply ltok_of; eauto. eapply SI_log; eauto.
Qed.

Lemma st_call_phase a t o pr :
  is_update o = true -> invoked_at log a t o pr ->
  forall p th o' l, (a < p)%nat -> (p <= length log)%nat ->
    nth_error (c_thr (cat p)) t = Some th -> t_prog th = pr -> t_cur th = Some (o', l) ->
    o' = o /\ st_phase a t o p l.
Proof.
  intros Hu (ca & tha & Ha & Htha & Hca & Hpa) p0 th0 o0 l0 Hp0 Hpl0 Hth0 Hprog0 Hcur0.
  set (J := fun (p : nat) (l : apc) (_ : acfg) => st_phase a t o p l).
  assert (HJ := call_invariant M c0 sched t o pr J a ca tha Ha Htha Hca Hpa).
  destruct (HJ) with (p := p0) (th := th0) as [_ HJp]; try lia; [| | |exact Hth0|].
  - (* invocation *)
    intros l' s' Es. change (step (AInv o) (c_sh ca) = Next l' s') in Es.
    assert (El : effected l' = false) by (destruct o; try discriminate; injection Es as <- _; reflexivity).
    split; [|rewrite El; discriminate].
    intros _ k Hk _. assert (k = a) by lia. subst k.
    unfold landing. rewrite Ha. unfold a_commit. rewrite Htha, Hca. reflexivity.
  - (* own steps *)
    intros p cp th l l' s' cp' e Hp Hnp Hth Hprog Hcur [HJ1 HJ2] Es _.
    destruct (st_commit_at p cp t th o l Hnp Hth Hcur Hu) as [Hlp Hk].
    pose proof (pc_phase vadd f64 maxcells (delta o) l (c_sh cp) Hk) as Hph.
    change (step l (c_sh cp) = Next l' s') in Es. rewrite Es in Hph. destruct Hph as [He He'].
    specialize (HJ1 He). clear HJ2.
    destruct (a_commit_pc l (c_sh cp)) as [[loc y]|] eqn:Ecm; cbn [is_some] in He'.
    + pose proof (commit_amount (delta o) l (c_sh cp) loc y Hk Ecm) as ->.
      split; [rewrite He'; discriminate|]. intros _. exists p, loc.
      split; [lia|]. split; [exists cp; exact Hnp|]. split; [exact Hlp|].
      intros k' Hk' Hst Hl. destruct (Nat.eq_dec k' p) as [E|E]; [exact E|].
      exfalso. apply Hl. apply HJ1; [lia|exact Hst].
    + split; [|rewrite He'; discriminate]. intros _ k Hkk Hst.
      destruct (Nat.eq_dec k p) as [->|E]; [exact Hlp|]. apply HJ1; [lia|exact Hst].
  - (* steps of the others *)
    intros p cp tp l cp' e Hp Hnp Hne [HJ1 HJ2] _.
    assert (Hnot : forall k, step_of log k t -> k <> p).
    { intros k [c1 Hc1] ->. rewrite Hnp in Hc1. congruence. }
    split.
    + intros He k Hk Hst. apply (HJ1 He); [|exact Hst]. specialize (Hnot k Hst). lia.
    + intros He. destruct (HJ2 He) as (k & loc & Hk & Hst & Hl & Huq). exists k, loc.
      split; [lia|]. split; [exact Hst|]. split; [exact Hl|].
      intros k' Hk' Hst' Hl'. apply Huq; auto. specialize (Hnot k' Hst'). lia.
  - apply (HJp Hprog0 o0 l0 Hcur0).
Qed.

(** ** Theorem: every returned update has exactly one landing step *)
Theorem st_update_lands_once a b t o pr r :
  is_update o = true ->
  invoked_at log a t o pr -> returns_at M log b t o pr r -> (a < b)%nat ->
  exists k loc,
    (a <= k <= b)%nat /\ step_of log k t /\ lnd k = Some (loc, delta o) /\
    forall k', (a <= k' <= b)%nat -> step_of log k' t -> lnd k' <> None -> k' = k.
Proof.
  intros Hu Hinv (cb & thb & cb' & eb & Hb & Hthb & Hpb & Hsb & Hret) Hlt.
  assert (Hblen : (b < length log)%nat) by (apply nth_error_Some; congruence).
  destruct (cfg_at_step M c0 sched b cb t Hb) as [Ecb _].
  destruct (returns_cur M cb t cb' eb o r thb (astep_start_not_done vadd f64 maxcells) Hsb Hret Hthb)
    as (l & ts' & s' & Hcur & Es & _).
  destruct (st_call_phase a t o pr Hu Hinv b thb o l Hlt ltac:(lia) ltac:(rewrite Ecb; exact Hthb) Hpb Hcur)
    as (_ & HJ1 & HJ2).
  destruct (st_commit_at b cb t thb o l Hb Hthb Hcur Hu) as [Hlb Hk].
  pose proof (pc_phase vadd f64 maxcells (delta o) l (c_sh cb) Hk) as Hph.
  change (step l (c_sh cb) = Done r ts' s') in Es. rewrite Es in Hph.
  destruct (a_commit_pc l (c_sh cb)) as [[loc y]|] eqn:Ecm; cbn [is_some negb] in Hph.
  - pose proof (commit_amount (delta o) l (c_sh cb) loc y Hk Ecm) as ->.
    exists b, loc. split; [lia|]. split; [exists cb; exact Hb|]. split; [exact Hlb|].
    intros k' Hk' Hst Hl. destruct (Nat.eq_dec k' b) as [E|E]; [exact E|].
    exfalso. apply Hl. apply (HJ1 Hph); [lia|exact Hst].
  - destruct (HJ2 Hph) as (k & loc & Hk1 & Hst & Hl & Huq). exists k, loc.
    split; [lia|]. split; [exact Hst|]. split; [exact Hl|].
    intros k' Hk' Hst' Hl'. destruct (Nat.eq_dec k' b) as [->|E]; [congruence|].
    apply Huq; auto. lia.
Qed.

Lemma effected_no_commit l s : effected l = true -> a_commit_pc l s = None.
Proof. destruct l; simpl; try discriminate. reflexivity. Qed.

(** ... and no call, returned or not, ever has two: once a step of the call has landed, no
    later step of the same call (the thread still has the same remaining program) lands *)
Theorem st_update_lands_at_most_once a t o pr k1 k2 c2 th2 :
  is_update o = true -> invoked_at log a t o pr ->
  (a <= k1 < k2)%nat -> step_of log k1 t -> lnd k1 <> None ->
  nth_error log k2 = Some (c2, t) -> nth_error (c_thr c2) t = Some th2 -> t_prog th2 = pr ->
  lnd k2 = None.
Proof.
  intros Hu Hinv Hk Hst Hl1 H2 Hth2 Hp2.
  assert (H2len : (k2 < length log)%nat) by (apply nth_error_Some; congruence).
  destruct (cfg_at_step M c0 sched k2 c2 t H2) as [Ec2 _].
  destruct (t_cur th2) as [[o' l]|] eqn:Hcur.
  - destruct (st_call_phase a t o pr Hu Hinv k2 th2 o' l ltac:(lia) ltac:(lia) ltac:(rewrite Ec2; exact Hth2) Hp2 Hcur)
      as (-> & HJ1 & _).
    destruct (st_commit_at k2 c2 t th2 o l H2 Hth2 Hcur Hu) as [Hl2 _]. rewrite Hl2.
    destruct (effected l) eqn:He; [apply effected_no_commit; exact He|].
    exfalso. apply Hl1. apply (HJ1 eq_refl); [lia|exact Hst].
  - unfold landing. rewrite H2. unfold a_commit. rewrite Hth2, Hcur. reflexivity.
Qed.

(** ** the reader *)
Section Reader.
Variable i : nat.   (* the position at which the Sum was invoked *)

Definition vis (s : ashared) (tab : nat * nat) (idx : nat) (loc : sloc) : Prop :=
  loc = LBase \/
  exists c q, loc = LCell c /\ c <> O /\ (q < idx)%nat /\ nth_error (arr_of s (fst tab)) q = Some c.

Definition cov (s : ashared) (tab : nat * nat) (idx : nat) (K : list nat) (k : nat) (loc : sloc) : Prop :=
  (loc = LBase /\ In k K) \/
  exists c q, loc = LCell c /\ c <> O /\ (q < snd tab)%nat /\
              nth_error (arr_of s (fst tab)) q = Some c /\ ((q < idx)%nat -> In k K).

Definition RD (p : nat) (s : ashared) (sum : Z) (tab : nat * nat) (idx : nat) : Prop :=
  a_table s <> None /\
  exists K, NoDup K /\
    (forall k, In k K -> (k < p)%nat /\ exists loc x, lnd k = Some (loc, x) /\ vis s tab idx loc) /\
    (forall k loc x, (k < i)%nat -> lnd k = Some (loc, x) -> cov s tab idx K k loc) /\
    sum = nrm (sm K).

Definition RB (p : nat) (sum : Z) : Prop :=
  exists K, NoDup K /\
    (forall k, In k K -> (k < p)%nat /\ exists x, lnd k = Some (LBase, x)) /\
    (forall k x, (k < i)%nat -> lnd k = Some (LBase, x) -> In k K) /\
    sum = nrm (sm K).

Definition rdJ (p : nat) (l : apc) (c : acfg) : Prop :=
  match l with
  | S1 None => True
  | S2 None sum => RB p sum
  | S3 None sum tab idx => RD p (c_sh c) sum tab idx
  | S4 None sum tab idx cc =>
      RD p (c_sh c) sum tab idx /\ nth_error (arr_of (c_sh c) (fst tab)) idx = Some cc /\ cc <> O
  | _ => False
  end.

(** the final claim about a returned value *)
Definition FIN (p : nat) (r : Z) : Prop :=
  exists K, NoDup K /\
    (forall k, In k K -> (k < p)%nat /\ lnd k <> None) /\
    (forall k, (k < i)%nat -> lnd k <> None -> In k K) /\
    r = nrm (sm K).

Lemma vis_SL s s' tab idx loc : SL s s' -> vis s tab idx loc -> vis s' tab idx loc.
Proof.
  intros [HS _] [H|(c & q & H1 & H2 & H3 & H4)]; [left; exact H|].
  right. exists c, q. repeat split; auto.
Qed.

Lemma cov_SL s s' tab idx K k loc : SL s s' -> cov s tab idx K k loc -> cov s' tab idx K k loc.
Proof.
  intros [HS _] [H|(c & q & H1 & H2 & H3 & H4 & H5)]; [left; exact H|].
  right. exists c, q. repeat split; auto.
Qed.

Lemma RD_stable p s s' sum tab idx : SL s s' -> RD p s sum tab idx -> RD (S p) s' sum tab idx.
Proof.
  intros HSL (Hnn & K & Hnd & HK1 & HK2 & Hsum). split; [apply HSL; exact Hnn|].
  exists K. split; [exact Hnd|]. split; [|split; [|exact Hsum]].
  - intros k Hk. destruct (HK1 k Hk) as (Hkp & loc & x & Hl & Hv). split; [lia|].
    exists loc, x. split; [exact Hl|]. eapply vis_SL; eauto.
  - intros k loc x Hk Hl. eapply cov_SL; eauto.
Qed.

Lemma RB_mono p sum : RB p sum -> RB (S p) sum.
Proof.
  intros (K & Hnd & HK1 & HK2 & Hsum). exists K. split; [exact Hnd|]. split; [|split; assumption].
  intros k Hk. destruct (HK1 k Hk) as [Hkp Hx]. split; [lia|exact Hx].
Qed.

(** the slot at [idx] is empty: nothing to add *)
Lemma RD_skip p s sum tab idx :
  RD p s sum tab idx -> nth_error (arr_of s (fst tab)) idx = Some O -> RD p s sum tab (S idx).
Proof.
  intros (Hnn & K & Hnd & HK1 & HK2 & Hsum) Hz. split; [exact Hnn|].
  exists K. split; [exact Hnd|]. split; [|split; [|exact Hsum]].
  - intros k Hk. destruct (HK1 k Hk) as (Hkp & loc & x & Hl & Hv). split; [exact Hkp|].
    exists loc, x. split; [exact Hl|]. destruct Hv as [Hv|(c & q & H1 & H2 & H3 & H4)]; [left; exact Hv|].
    right. exists c, q. repeat split; auto.
  - intros k loc x Hk Hl. destruct (HK2 k loc x Hk Hl) as [H|(c & q & H1 & H2 & H3 & H4 & H5)]; [left; exact H|].
    right. exists c, q. repeat split; auto. intros Hq. apply H5.
    destruct (Nat.eq_dec q idx) as [->|Hne]; [|lia]. rewrite Hz in H4. congruence.
Qed.

(** the slot at [idx] holds cell [cc], whose value [v] is read at position [p] *)
Lemma RD_read p s sum tab idx cc v :
  (i < p)%nat -> Glob nrm s -> ND s -> hist_ok p s ->
  RD p s sum tab idx -> nth_error (arr_of s (fst tab)) idx = Some cc -> cc <> O ->
  get_cell s cc = Some v ->
  RD p s (vadd sum v) tab (S idx).
Proof.
  intros Hip G Hd Hh (Hnn & K & Hnd & HK1 & HK2 & Hsum) Hcc Hnz Hg. split; [exact Hnn|].
  assert (Hatt : In cc (att s)).
  { apply (gl_slots G Hnn (fst tab)); [eapply nth_error_In; eauto|exact Hnz]. }
  pose proof (Hh (LCell cc)) as Hv. rewrite (summand_cell_in s cc Hatt), Hg in Hv.
  exists (K ++ hst (LCell cc) p). split; [|split; [|split]].
  - apply NoDup_app_disj; [exact Hnd|apply hist_NoDup|].
    intros k Hk Hk'. destruct (HK1 k Hk) as (_ & loc & x & Hl & Hvis).
    apply hist_In in Hk'. destruct Hk' as [_ Hk']. unfold lands_on in Hk'. rewrite Hl in Hk'.
    apply sloc_eqb_spec in Hk'. subst loc.
    destruct Hvis as [Hv'|(c & q & H1 & H2 & H3 & H4)]; [discriminate|]. injection H1 as <-.
    pose proof (nodup_pos _ _ _ _ (Hd (fst tab)) H4 Hcc Hnz). lia.
  - intros k Hk. apply in_app_or in Hk. destruct Hk as [Hk|Hk].
    + destruct (HK1 k Hk) as (Hkp & loc & x & Hl & Hvis). split; [exact Hkp|]. exists loc, x. split; [exact Hl|].
      destruct Hvis as [Hv'|(c & q & H1 & H2 & H3 & H4)]; [left; exact Hv'|].
      right. exists c, q. repeat split; auto.
    + apply hist_In in Hk. destruct Hk as [Hkp Hk].
      apply (lands_on_iff sloc_eqb sloc_eqb_spec) in Hk. destruct Hk as [x Hl].
      split; [exact Hkp|]. exists (LCell cc), x. split; [exact Hl|]. right. exists cc, idx. repeat split; auto.
  - intros k loc x Hk Hl. destruct (HK2 k loc x Hk Hl) as [[H1 H2]|(c & q & H1 & H2 & H3 & H4 & H5)].
    + left. split; [exact H1|]. apply in_or_app. left. exact H2.
    + right. exists c, q. repeat split; auto. intros Hq. apply in_or_app.
      destruct (Nat.eq_dec q idx) as [->|Hne].
      * right. rewrite Hcc in H4. injection H4 as <-. subst loc. apply hist_In. split; [lia|].
        apply (lands_on_iff sloc_eqb sloc_eqb_spec). eauto.
      * left. apply H5. lia.
  - rewrite (asum_app a_commit log), vadd_def, Hsum, nrm_add.
    rewrite <- (nrm_add_r nrm nrm_add v), Hv, (nrm_add_r nrm nrm_add). reflexivity.
Qed.

(** the scan is over *)
Lemma RD_fin p s sum tab idx : RD p s sum tab idx -> (snd tab <= idx)%nat -> FIN p sum.
Proof.
  intros (Hnn & K & Hnd & HK1 & HK2 & Hsum) Hle. exists K. split; [exact Hnd|]. split; [|split; [|exact Hsum]].
  - intros k Hk. destruct (HK1 k Hk) as (Hkp & loc & x & Hl & _). split; [exact Hkp|congruence].
  - intros k Hk Hl. destruct (lnd k) as [[loc x]|] eqn:El; [|congruence].
    destruct (HK2 k loc x Hk El) as [[_ H]|(c & q & _ & _ & H3 & _ & H5)]; [exact H|]. apply H5. lia.
Qed.

(** a table without cells (none, or of length 0) *)
Lemma RB_fin p s sum :
  (i < p)%nat -> (p <= length log)%nat -> s = c_sh (cat p) -> att s = [] -> RB p sum -> FIN p sum.
Proof.
  intros Hip Hp Es Ha (K & Hnd & HK1 & HK2 & Hsum). exists K. split; [exact Hnd|]. split; [|split; [|exact Hsum]].
  - intros k Hk. destruct (HK1 k Hk) as (Hkp & x & Hl). split; [exact Hkp|congruence].
  - intros k Hk Hl. destruct (lnd k) as [[[|c] x]|] eqn:El; [eapply HK2; eauto| |congruence].
    exfalso. assert (Hin : In c (att s)).
    { apply summand_att. rewrite Es. apply (landed_summand p k (LCell c) x); auto; lia. }
    rewrite Ha in Hin. contradiction.
Qed.

(** the table is loaded *)
Lemma RB_table p s sum tab :
  (i < p)%nat -> (p <= length log)%nat -> s = c_sh (cat p) -> Glob nrm s -> a_table s = Some tab ->
  RB p sum -> RD p s sum tab 0.
Proof.
  intros Hip Hp Es G Ht (K & Hnd & HK1 & HK2 & Hsum). split; [rewrite Ht; discriminate|].
  exists K. split; [exact Hnd|]. split; [|split; [|exact Hsum]].
  - intros k Hk. destruct (HK1 k Hk) as (Hkp & x & Hl). split; [exact Hkp|]. exists LBase, x. split; [exact Hl|left; reflexivity].
  - intros k [|c] x Hk Hl; [left; split; [reflexivity|eapply HK2; eauto]|].
    right. assert (Hin : In c (att s)).
    { apply summand_att. rewrite Es. apply (landed_summand p k (LCell c) x); auto; lia. }
    unfold att in Hin. rewrite Ht in Hin. apply in_filter_nz in Hin. destruct Hin as [Hin Hnz].
    apply In_nth_error in Hin. destruct Hin as [q Eq]. exists c, q. repeat split; auto; [|lia].
    destruct (Nat.ltb_spec q (snd tab)) as [Hlt|Hge]; [exact Hlt|].
    pose proof (gl_tail G _ Ht q Hge) as Ez. rewrite (nth_nth_error _ _ O _ Eq) in Ez. congruence.
Qed.

End Reader.

(** ** Theorem: a Sum returns the total of a set of whole updates *)
Theorem st_sum_is_set_of_whole_updates i j t pr r :
  invoked_at log i t Sum pr -> returns_at M log j t Sum pr (RZ r) -> (i < j)%nat ->
  exists K : list nat,
    NoDup K /\
    (forall k, In k K -> (k < j)%nat /\ lnd k <> None) /\
    (forall k, (k < i)%nat -> lnd k <> None -> In k K) /\
    r = nrm (sm K).
Proof.
  intros (ci & thi & Hi & Hthi & Hci & Hpi) (cj & thj & cj' & ej & Hj & Hthj & Hpj & Hsj & Hret) Hlt.
  assert (Hjlen : (j < length log)%nat) by (apply nth_error_Some; congruence).
  destruct (cfg_at_step M c0 sched j cj t Hj) as [Ecj _].
  (* facts available at every position of the log *)
  assert (Hat : forall p cp tp, nth_error log p = Some (cp, tp) ->
            (p <= length log)%nat /\ cp = cat p /\ Glob nrm (c_sh cp) /\ ND (c_sh cp) /\ hist_ok p (c_sh cp)).
  { intros p cp tp Hnp.
    assert (Hpl : (p < length log)%nat) by (apply nth_error_Some; congruence).
    destruct (cfg_at_step M c0 sched p cp tp Hnp) as [Ecp _].
    pose proof (SI_log _ _ _ Hnp) as HS.
    split; [lia|]. split; [symmetry; exact Ecp|]. split; [apply glob_of; exact HS|].
    split; [apply HS|]. rewrite <- Ecp. apply st_hist_inv. lia. }
  assert (HJ := call_invariant M c0 sched t Sum pr (rdJ i) i ci thi Hi Hthi Hci Hpi).
  destruct (HJ) with (p := j) (th := thj) as [_ HJj]; try lia; [| | |rewrite Ecj; exact Hthj|].
  - (* invocation *)
    intros l' s' Es. change (step (AInv Sum) (c_sh ci) = Next l' s') in Es. cbn [astep goto] in Es.
    injection Es as <- <-. exact I.
  - (* the reader's own steps *)
    intros p cp th l l' s' cp' e Hp Hnp Hth Hprog Hcur HJp Es Hstep.
    destruct (Hat p cp t Hnp) as (Hpl & Ecp & G & Hd & Hh).
    assert (Esh : c_sh cp' = c_sh cp).
    { destruct (st_log_step p cp t Hnp) as [_ Heff].
      pose proof (SI_log _ _ _ Hnp) as (Hok & _ & _).
      destruct (Hok _ _ Hth) as [_ Hc]. destruct (Hc Sum l Hcur) as [_ Hsp]. specialize (Hsp eq_refl).
      pose proof (step_sumpc vadd f64 maxcells l (c_sh cp) Hsp) as Hss.
      change (m_step M l (c_sh cp)) with (step l (c_sh cp)) in Es. rewrite Es in Hss. destruct Hss as [_ ->].
      destruct (step_thread_inv M _ _ _ _ Hstep) as (th0 & o1 & l1 & pr1 & Hn0 & _ & Hc0 & Haft & _).
      rewrite Hth in Hn0. injection Hn0 as <-.
      destruct Hc0 as [[Hc0 _]|[Hc0 _]]; [|congruence]. rewrite Hcur in Hc0. injection Hc0 as <- <-.
      change (m_step M l (c_sh cp)) with (step l (c_sh cp)) in Haft. rewrite Es in Haft.
      cbn [after_step] in Haft. injection Haft as <-. reflexivity. }
    change (m_step M l (c_sh cp)) with (step l (c_sh cp)) in Es.
    destruct l; cbn [rdJ] in HJp; try contradiction; destruct k; try contradiction; cbn [astep] in Es.
    + (* S1: read base *)
      cbn [goto] in Es. injection Es as <- _. cbn [rdJ].
      exists (hst LBase p). split; [apply hist_NoDup|]. split; [|split].
      * intros k Hk. apply hist_In in Hk. destruct Hk as [Hkp Hk]. split; [lia|].
        apply (lands_on_iff sloc_eqb sloc_eqb_spec) in Hk. exact Hk.
      * intros k x Hk Hl. apply hist_In. split; [lia|]. apply (lands_on_iff sloc_eqb sloc_eqb_spec). eauto.
      * pose proof (Hh LBase) as Hb. cbn [summand] in Hb. rewrite <- Hb. symmetry. apply (gl_base G).
    + (* S2: load the table *)
      destruct (a_table (c_sh cp)) as [tab|] eqn:Ht; [|discriminate].
      destruct (Nat.eqb (snd tab) 0); [discriminate|]. cbn [goto] in Es. injection Es as <- _.
      cbn [rdJ]. rewrite Esh. apply RD_stable with (s := c_sh cp); [apply SL_refl|].
      eapply RB_table; eauto. rewrite Ecp. reflexivity.
    + (* S3: read a slot *)
      destruct (get_slot (c_sh cp) (fst tab) i0) as [[|c]|] eqn:Eg; [| |discriminate].
      * destruct (Nat.ltb (S i0) (snd tab)); [|discriminate]. cbn [goto] in Es. injection Es as <- _.
        cbn [rdJ]. rewrite Esh. apply RD_stable with (s := c_sh cp); [apply SL_refl|].
        apply RD_skip; [exact HJp|]. apply get_slot_arr in Eg. apply Eg.
      * cbn [goto] in Es. injection Es as <- _. cbn [rdJ]. rewrite Esh. apply get_slot_arr in Eg.
        split; [apply RD_stable with (s := c_sh cp); [apply SL_refl|exact HJp]|]. split; [apply Eg|discriminate].
    + (* S4: read a cell *)
      destruct HJp as (HR & Hcc & Hnz).
      destruct (get_cell (c_sh cp) c) as [v|] eqn:Eg; [|discriminate].
      destruct (Nat.ltb (S i0) (snd tab)); [|discriminate]. cbn [goto] in Es. injection Es as <- _.
      cbn [rdJ]. rewrite Esh. apply RD_stable with (s := c_sh cp); [apply SL_refl|].
      eapply RD_read; eauto.
  - (* steps of the others *)
    intros p cp tp l cp' e Hp Hnp Hne HJp Hstep.
    destruct (st_log_step p cp tp Hnp) as [HSL _].
    destruct (cfg_at_step M c0 sched p cp tp Hnp) as [_ [e' Hs']]. rewrite Hstep in Hs'. injection Hs' as E' _.
    rewrite <- E' in HSL.
    destruct l; cbn [rdJ] in HJp |- *; try contradiction; destruct k; try contradiction.
    + exact I.
    + apply RB_mono. exact HJp.
    + eapply RD_stable; eauto.
    + destruct HJp as (HR & Hcc & Hnz). split; [eapply RD_stable; eauto|]. split; [|exact Hnz].
      apply HSL; assumption.
  - (* the returning step *)
    destruct (returns_cur M cj t cj' ej Sum (RZ r) thj (astep_start_not_done vadd f64 maxcells) Hsj Hret Hthj)
      as (l & ts' & s' & Hcur & Es & _).
    rewrite Ecj in HJj. destruct (HJj Hpj Sum l Hcur) as (_ & HJl).
    destruct (Hat j cj t Hj) as (Hpl & Ecp & G & Hd & Hh).
    change (m_step M l (c_sh cj)) with (step l (c_sh cj)) in Es.
    assert (HF : FIN i j r).
    { destruct l; cbn [rdJ] in HJl; try contradiction; destruct k; try contradiction; cbn [astep] in Es.
      - discriminate.
      - (* S2 *)
        destruct (a_table (c_sh cj)) as [tab|] eqn:Ht.
        + destruct (Nat.eqb_spec (snd tab) 0) as [E0|E0]; [|discriminate]. cbn [fin] in Es. injection Es as <- _.
          apply (RB_fin i j (c_sh cj) sum Hlt Hpl (f_equal (@c_sh _ _ _ _) Ecp)); [|exact HJl].
          unfold att. rewrite Ht. apply filter_nz_all_zero. intros c Hc.
          apply In_nth with (d := O) in Hc. destruct Hc as (q & _ & <-). apply (gl_tail G _ Ht). lia.
        + cbn [fin] in Es. injection Es as <- _.
          apply (RB_fin i j (c_sh cj) sum Hlt Hpl (f_equal (@c_sh _ _ _ _) Ecp)); [|exact HJl].
          unfold att. rewrite Ht. reflexivity.
      - (* S3 *)
        destruct (get_slot (c_sh cj) (fst tab) i0) as [[|c]|] eqn:Eg; [|discriminate|discriminate].
        destruct (Nat.ltb_spec (S i0) (snd tab)) as [Hl|Hge]; [discriminate|]. cbn [fin] in Es. injection Es as <- _.
        apply get_slot_arr in Eg. eapply RD_fin; [apply RD_skip; [exact HJl|apply Eg]|lia].
      - (* S4 *)
        destruct HJl as (HR & Hcc & Hnz).
        destruct (get_cell (c_sh cj) c) as [v|] eqn:Eg; [|discriminate].
        destruct (Nat.ltb_spec (S i0) (snd tab)) as [Hl|Hge]; [discriminate|]. cbn [fin] in Es. injection Es as <- _.
        eapply RD_fin; [eapply RD_read; eauto|lia]. }
    exact HF.
Qed.

End StSet.
