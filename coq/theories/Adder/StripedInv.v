(** The invariant of the striped adder on update-only programs. *)
From Coq Require Import List Arith Bool ZArith Lia Permutation.
From Garr Require Import Conc.Conc Pure.F64 Adder.StripedModel Adder.AdderSpec Adder.StripedLib.
Import ListNotations.
Local Open Scope Z_scope.

Notation acfg := (config ashared unit apc aop).
Notation athread := (thread unit apc aop).

(** ** views of the heap *)

Definition arr_of (s : ashared) (a : nat) : list nat := nth a (a_arrays s) [].

(** the cells attached to the published table *)
Definition att (s : ashared) : list nat :=
  match a_table s with
  | Some tab => filter nz (arr_of s (fst tab))
  | None => []
  end.

Definition cellval (s : ashared) (c : nat) : Z :=
  match get_cell s c with Some v => v | None => 0 end.

Definition cellsum (s : ashared) (l : list nat) : Z := zsum (map (cellval s) l).

Definition tab_ok (s : ashared) (tab : nat * nat) : Prop :=
  (fst tab < length (a_arrays s))%nat /\ (snd tab <= length (arr_of s (fst tab)))%nat.

Definition tail_zero (l : list nat) (n : nat) : Prop :=
  forall i, (n <= i)%nat -> nth i l O = O.

Definition all_zero (s : ashared) : Prop := forall a c, In c (arr_of s a) -> c = O.

(** ** program counters *)

Definition locked (l : apc) : bool :=
  match l with
  | L6 _ _ | L7 _ _ _ _ | L8 _ _ _ _ | L9 _ _ | L15 _ _ | Lcopy _ _ _ | L16 _ _ | L17 _
  | C4 _ | C4f _ _ _ | C5 _ _ _ | C6 _ _ => true
  | _ => false
  end.

(** the update of the call has taken effect *)
Definition effected (l : apc) : bool :=
  match l with L9 _ true => true | _ => false end.

(** the optimistically created cell a thread holds privately *)
Definition owned (l : apc) : list nat :=
  match l with
  | L3f _ r | L4 _ r | L5 _ r | L6 _ r | L7 _ r _ _ | L8 _ r _ _ | C4f _ _ r | C5 _ _ r => [r]
  | _ => []
  end.

Definition lockedth (th : athread) : bool :=
  match t_cur th with Some (_, l) => locked l | None => false end.
Definition ownedth (th : athread) : list nat :=
  match t_cur th with Some (_, l) => owned l | None => [] end.

Definition pend_th (th : athread) : Z :=
  zsum (map delta (t_prog th)) +
  match t_cur th with
  | Some (o, l) => if effected l then 0 else delta o
  | None => 0
  end.

Definition pending (thr : list athread) : Z := zsum (map pend_th thr).

Definition valid_cell (s : ashared) (r : nat) : Prop := r <> O /\ (r <= length (a_cells s))%nat.

(** what a thread at pc [l] inside a call adding [x] knows *)
Definition ltok (x : Z) (l : apc) (s : ashared) : Prop :=
  match l with
  | AddLoadTab x' | AddLoadBase x' | AddCasBase x' _ => x' = x
  | AddSlot x' tab _ => x' = x /\ a_table s <> None
  | AddCellLoad x' _ c | AddCellCas x' _ c _ => x' = x /\ In c (att s)
  | L1 st | C1 st | C2 st | C3 st | B1 st | B2 st _ => r_x st = x
  | L2 st tab => r_x st = x /\ a_table s <> None /\ tab_ok s tab
  | L3 st tab => r_x st = x /\ a_table s <> None
  | L3f st r => r_x st = x /\ a_table s <> None /\ valid_cell s r
  | L4 st r | L5 st r | L6 st r => r_x st = x /\ a_table s <> None /\ get_cell s r = Some x
  | L7 st r rs j => r_x st = x /\ get_cell s r = Some x /\ a_table s = Some rs /\ (j < snd rs)%nat
  | L8 st r rs j =>
      r_x st = x /\ get_cell s r = Some x /\ a_table s = Some rs /\
      nth_error (arr_of s (fst rs)) j = Some O /\ (j < snd rs)%nat
  | L9 st _ | L17 st => r_x st = x /\ a_table s <> None
  | L10 st tab c | L11 st tab c _ => r_x st = x /\ In c (att s) /\ tab_ok s tab
  | L12 st tab | L13 st tab | L14 st tab | L15 st tab => r_x st = x /\ tab_ok s tab
  | Lcopy st tab arr =>
      r_x st = x /\ (exists n, a_table s = Some (fst tab, n)) /\
      (fst tab < length (a_arrays s))%nat /\ snd tab = length (arr_of s (fst tab)) /\
      (arr < length (a_arrays s))%nat /\ arr <> fst tab /\
      arr_of s arr = repeat O (snd tab * 4)
  | L16 st nt =>
      r_x st = x /\ a_table s <> None /\ tab_ok s nt /\
      filter nz (arr_of s (fst nt)) = att s /\ tail_zero (arr_of s (fst nt)) (snd nt)
  | C4 st => r_x st = x /\ (a_table s = None -> all_zero s)
  | C4f st arr r =>
      r_x st = x /\ a_table s = None /\ all_zero s /\ valid_cell s r /\
      (arr < length (a_arrays s))%nat /\ (4 <= length (arr_of s arr))%nat
  | C5 st arr r =>
      r_x st = x /\ a_table s = None /\ all_zero s /\ get_cell s r = Some x /\
      (arr < length (a_arrays s))%nat /\ (4 <= length (arr_of s arr))%nat
  | C6 st arr =>
      r_x st = x /\ a_table s = None /\
      (arr < length (a_arrays s))%nat /\ (2 <= length (arr_of s arr))%nat /\
      tail_zero (arr_of s arr) 2 /\
      (forall a c, a <> arr -> In c (arr_of s a) -> c = O) /\
      exists r, filter nz (arr_of s arr) = [r] /\ get_cell s r = Some x
  | _ => False
  end.

Definition thr_ok (th : athread) (s : ashared) : Prop :=
  t_dead th = false /\
  (forall o, In o (t_prog th) -> is_update o = true) /\
  match t_cur th with
  | None => True
  | Some (o, l) => is_update o = true /\ ltok (delta o) l s
  end.

Section Inv.
Variable nrm : Z -> Z.
Variable T : Z.

Record Glob (s : ashared) : Prop := {
  gl_busy : a_busy s = 0 \/ a_busy s = 1;
  gl_base : nrm (a_base s) = a_base s;
  gl_tab : forall tab, a_table s = Some tab -> tab_ok s tab;
  gl_tail : forall tab, a_table s = Some tab -> tail_zero (arr_of s (fst tab)) (snd tab);
  gl_slots : a_table s <> None -> forall a c, In c (arr_of s a) -> c <> O -> In c (att s);
  gl_zero : a_table s = None -> a_busy s = 0 -> all_zero s;
  gl_nodup : NoDup (att s);
  gl_valid : forall c, In c (att s) -> (c <= length (a_cells s))%nat
}.

Record Inv (c : acfg) : Prop := {
  iv_glob : Glob (c_sh c);
  iv_thr : forall t th, nth_error (c_thr c) t = Some th -> thr_ok th (c_sh c);
  iv_lock : forall t th, nth_error (c_thr c) t = Some th -> lockedth th = true -> a_busy (c_sh c) = 1;
  iv_uniq : forall t1 t2 th1 th2,
      nth_error (c_thr c) t1 = Some th1 -> nth_error (c_thr c) t2 = Some th2 ->
      lockedth th1 = true -> lockedth th2 = true -> t1 = t2;
  iv_own : forall t th r, nth_error (c_thr c) t = Some th -> In r (ownedth th) ->
      valid_cell (c_sh c) r /\ ~ In r (att (c_sh c)) /\
      forall t' th', t' <> t -> nth_error (c_thr c) t' = Some th' -> ~ In r (ownedth th');
  iv_sum : nrm (a_base (c_sh c) + cellsum (c_sh c) (att (c_sh c)) + pending (c_thr c)) = nrm T
}.

End Inv.

Arguments gl_busy {nrm s}. Arguments gl_base {nrm s}. Arguments gl_tab {nrm s}.
Arguments gl_tail {nrm s}. Arguments gl_slots {nrm s}. Arguments gl_zero {nrm s}.
Arguments gl_nodup {nrm s}. Arguments gl_valid {nrm s}.
Arguments iv_glob {nrm T c}. Arguments iv_thr {nrm T c}. Arguments iv_lock {nrm T c}.
Arguments iv_uniq {nrm T c}. Arguments iv_own {nrm T c}. Arguments iv_sum {nrm T c}.

(** executable accounting, to test the SUM clause on concrete runs *)
Definition accounted (c : acfg) : Z :=
  a_base (c_sh c) + cellsum (c_sh c) (att (c_sh c)) + pending (c_thr c).

(** ** heap lemmas *)

Lemma att_heq s s' : a_table s' = a_table s -> a_arrays s' = a_arrays s -> att s' = att s.
Proof. unfold att, arr_of. intros -> ->. reflexivity. Qed.

Lemma arr_of_heq s s' : a_arrays s' = a_arrays s -> forall a, arr_of s' a = arr_of s a.
Proof. unfold arr_of. intros ->. reflexivity. Qed.

Lemma cellval_heq s s' : a_cells s' = a_cells s -> forall c, cellval s' c = cellval s c.
Proof. unfold cellval, get_cell. intros -> c. reflexivity. Qed.

Lemma cellsum_heq s s' l : a_cells s' = a_cells s -> cellsum s' l = cellsum s l.
Proof. intros H. unfold cellsum. f_equal. apply map_ext. apply cellval_heq. exact H. Qed.

Lemma get_cell_heq s s' : a_cells s' = a_cells s -> forall c, get_cell s' c = get_cell s c.
Proof. unfold get_cell. intros -> c. reflexivity. Qed.

Lemma get_cell_valid s r v : get_cell s r = Some v -> valid_cell s r.
Proof.
  unfold get_cell, valid_cell. destruct r as [|i]; [discriminate|]. intros H.
  split; [discriminate|]. assert (nth_error (a_cells s) i <> None) by congruence.
  apply nth_error_Some in H0. lia.
Qed.

Lemma valid_get_cell s r : valid_cell s r -> exists v, get_cell s r = Some v.
Proof.
  unfold get_cell, valid_cell. destruct r as [|i]; intros [H1 H2]; [congruence|].
  destruct (nth_error (a_cells s) i) eqn:E; [eauto|]. apply nth_error_None in E. lia.
Qed.

Lemma get_cell_set_cell s c v r :
  get_cell (set_cell s c v) r =
  if Nat.eqb c r then (match get_cell s c with Some _ => Some v | None => None end) else get_cell s r.
Proof.
  unfold get_cell, set_cell. destruct c as [|i], r as [|j]; simpl; try reflexivity.
  rewrite nth_error_upd. reflexivity.
Qed.

Lemma get_cell_new_cell s v r :
  (r <= length (a_cells s))%nat -> get_cell (snd (new_cell s v)) r = get_cell s r.
Proof.
  unfold get_cell, new_cell. simpl. destruct r as [|i]; [reflexivity|]. intros H.
  apply nth_error_app1. lia.
Qed.

Lemma get_cell_new_cell_new s v : get_cell (snd (new_cell s v)) (fst (new_cell s v)) = Some v.
Proof.
  unfold get_cell, new_cell. simpl. rewrite nth_error_app2 by lia. rewrite Nat.sub_diag. reflexivity.
Qed.

Lemma cellval_set_cell_other s c v r : c <> r -> cellval (set_cell s c v) r = cellval s r.
Proof.
  intros H. unfold cellval. rewrite get_cell_set_cell.
  destruct (Nat.eqb_spec c r); [contradiction|reflexivity].
Qed.

Lemma cellval_set_cell_same s c v : valid_cell s c -> cellval (set_cell s c v) c = v.
Proof.
  intros H. unfold cellval. rewrite get_cell_set_cell, Nat.eqb_refl.
  destruct (valid_get_cell _ _ H) as [w ->]. reflexivity.
Qed.

Lemma cellsum_set_cell_notin s c v l : ~ In c l -> cellsum (set_cell s c v) l = cellsum s l.
Proof.
  intros H. unfold cellsum. apply zsum_map_ext_in. intros a Ha.
  apply cellval_set_cell_other. intros ->. contradiction.
Qed.

Lemma cellsum_set_cell_in s c v l :
  NoDup l -> In c l -> valid_cell s c ->
  cellsum (set_cell s c v) l = cellsum s l - cellval s c + v.
Proof.
  intros Hnd Hin Hv. apply in_split in Hin. destruct Hin as (l1 & l2 & ->).
  apply NoDup_remove_2 in Hnd.
  unfold cellsum. rewrite !map_app, !zsum_app. simpl.
  fold (cellsum (set_cell s c v) l1) (cellsum (set_cell s c v) l2) (cellsum s l1) (cellsum s l2).
  rewrite !cellsum_set_cell_notin by (intros H; apply Hnd; apply in_or_app; auto).
  rewrite cellval_set_cell_same by exact Hv. ring.
Qed.

Lemma cellsum_new_cell s v l :
  (forall c, In c l -> (c <= length (a_cells s))%nat) ->
  cellsum (snd (new_cell s v)) l = cellsum s l.
Proof.
  intros H. unfold cellsum. apply zsum_map_ext_in. intros a Ha.
  unfold cellval. rewrite get_cell_new_cell by (apply H; exact Ha). reflexivity.
Qed.

Lemma cellsum_app s l1 l2 : cellsum s (l1 ++ l2) = cellsum s l1 + cellsum s l2.
Proof. unfold cellsum. rewrite map_app, zsum_app. reflexivity. Qed.

(** arrays *)
Lemma arr_of_upd (arrs : list (list nat)) a x a' :
  (a < length arrs)%nat ->
  nth a' (upd arrs a x) [] = if Nat.eqb a a' then x else nth a' arrs [].
Proof.
  intros H. rewrite nth_upd. destruct (Nat.eqb a a'); [|reflexivity].
  destruct (Nat.ltb_spec a (length arrs)); [reflexivity|lia].
Qed.

Lemma arr_of_app_old (arrs : list (list nat)) x a :
  (a < length arrs)%nat -> nth a (arrs ++ [x]) [] = nth a arrs [].
Proof. intros. apply app_nth1. assumption. Qed.

Lemma arr_of_app (arrs : list (list nat)) x a :
  nth a (arrs ++ [x]) [] = if Nat.eqb a (length arrs) then x else nth a arrs [].
Proof.
  destruct (Nat.eqb_spec a (length arrs)) as [->|Hne].
  - rewrite app_nth2 by lia. rewrite Nat.sub_diag. reflexivity.
  - destruct (Nat.ltb_spec a (length arrs)).
    + apply app_nth1. assumption.
    + rewrite !nth_overflow; auto; try lia. rewrite app_length. simpl. lia.
Qed.

Lemma get_slot_arr s a i c :
  get_slot s a i = Some c -> (a < length (a_arrays s))%nat /\ nth_error (arr_of s a) i = Some c.
Proof.
  unfold get_slot, arr_of. destruct (nth_error (a_arrays s) a) as [x|] eqn:E; [|discriminate].
  intros H. split.
  - apply nth_error_Some. congruence.
  - rewrite (nth_nth_error _ _ [] _ E). exact H.
Qed.

Lemma nth_error_arr_of s a x : nth_error (a_arrays s) a = Some x -> arr_of s a = x /\ (a < length (a_arrays s))%nat.
Proof.
  intros E. split; [apply nth_nth_error; exact E|]. apply nth_error_Some. congruence.
Qed.

Lemma arr_of_nth_error s a : (a < length (a_arrays s))%nat -> nth_error (a_arrays s) a = Some (arr_of s a).
Proof. intros. apply nth_error_nth'. assumption. Qed.

(** storing a cell into an empty slot *)
Lemma filter_nz_upd_zero (l : list nat) j r :
  nth_error l j = Some O -> r <> O ->
  exists l1 l2, filter nz l = l1 ++ l2 /\ filter nz (upd l j r) = l1 ++ r :: l2.
Proof.
  intros H Hr. destruct (upd_split l j r O H) as (l1 & l2 & E1 & E2 & _).
  exists (filter nz l1), (filter nz l2). rewrite E2, E1, !filter_app. simpl.
  apply nz_true in Hr. rewrite Hr. auto.
Qed.

Lemma tail_zero_filter (l : list nat) n : tail_zero l n -> filter nz (firstn n l) = filter nz l.
Proof.
  revert n; induction l as [|a l IH]; intros n H.
  - destruct n; reflexivity.
  - destruct n as [|n].
    + simpl firstn. simpl filter at 1. symmetry. apply filter_nz_all_zero.
      intros c Hc. apply In_nth with (d := O) in Hc. destruct Hc as (i & _ & <-). apply H. lia.
    + simpl. rewrite IH; [reflexivity|]. intros i Hi. apply (H (S i)). lia.
Qed.
