(** Vocabulary of the exact form of property C09:
    "a concurrent Sum returns the total of a SET OF WHOLE UPDATES".

    Everything is phrased over the execution log
        log = steps_of M (init ...) sched : list (config * nat)
    (Breaker/ConcBase.v): entry k is the configuration BEFORE the k-th executed
    step and the thread that takes it.  A log position therefore names one
    atomic step of the run.

    - [invoked_at] / [returns_at]: the first and the last step of one call;
    - [landing log k = Some (loc, x)]: the step at position k is the LANDING
      STEP of an update: the one read-modify-write (or, for the striped adder,
      the attach of a freshly created cell) that adds the amount [x] to the
      summand location [loc].  It is defined from the program counter of the
      stepping thread ([rc_commit], [a_commit]); that this is exactly the step
      that changes a summand location - from [v] to [vadd v x], nothing else -
      and that every other step changes none is the theorem [*_landing_effect]
      of SetForm.v;
    - [amount log k]: the amount that lands at k (0 if k is not a landing step);
    - [asum log K]: the integer sum of the amounts of a list K of positions. *)
From Coq Require Import List Arith Bool ZArith.
From Garr Require Import Conc.Conc Breaker.ConcBase Adder.StripedModel Adder.SimpleModel
     Adder.AdderSpec Adder.StripedLib Adder.StripedInv.
Import ListNotations.
Local Open Scope Z_scope.

(** programs: any calls of Add x (x of ANY sign), Inc, Dec and Sum *)
Definition mixed_op (o : aop) : Prop := is_update o = true \/ o = Sum.
Definition mixed_progs (progs : list (list aop)) : Prop :=
  forall p o, In p progs -> In o p -> mixed_op o.

Section Log.
Context {sh ts lo op ret : Type}.
Variable M : machine sh ts lo op ret.
Notation cfg := (config sh ts lo op).

(** thread [t] takes the step at position [k] *)
Definition step_of (log : list (cfg * nat)) (k t : nat) : Prop :=
  exists c, nth_error log k = Some (c, t).

(** position [a] is the first step of a call [o] of thread [t] (the thread is
    between two calls and [o] is the next one of its program; [pr] = what
    remains of the program after [o]) *)
Definition invoked_at (log : list (cfg * nat)) (a t : nat) (o : op) (pr : list op) : Prop :=
  exists c th, nth_error log a = Some (c, t) /\ nth_error (c_thr c) t = Some th /\
               t_cur th = None /\ t_prog th = o :: pr.

(** the step at position [b] is the one with which that call returns [r] *)
Definition returns_at (log : list (cfg * nat)) (b t : nat) (o : op) (pr : list op) (r : ret) : Prop :=
  exists c th c' e, nth_error log b = Some (c, t) /\ nth_error (c_thr c) t = Some th /\
               t_prog th = pr /\ step_thread M c t = Some (c', e) /\ In (ERet t o r) e.

(** landing steps, given what a thread about to step commits ([commit c t]) *)
Section Landing.
Context {loc : Type}.
Variable commit : cfg -> nat -> option (loc * Z).

Definition landing (log : list (cfg * nat)) (k : nat) : option (loc * Z) :=
  match nth_error log k with
  | Some (c, t) => commit c t
  | None => None
  end.

Definition amount (log : list (cfg * nat)) (k : nat) : Z :=
  match landing log k with Some (_, x) => x | None => 0 end.

Definition asum (log : list (cfg * nat)) (K : list nat) : Z :=
  fold_right Z.add 0 (map (amount log) K).
End Landing.
End Log.

(** ** RandomCellAdder: summand locations = the cells (by index) *)
Notation rccfg := (config rshared unit rpc aop).

(** the only step of an update that writes: the fetch-and-add [RAdd x i] *)
Definition rc_commit (c : rccfg) (t : nat) : option (nat * Z) :=
  match nth_error (c_thr c) t with
  | Some th => match t_cur th with Some (_, RAdd x i) => Some (i, x) | _ => None end
  | None => None
  end.

(** ** JDKAdder / JDKF64Adder: summand locations = base and the ATTACHED cells *)
Inductive sloc := LBase | LCell (c : nat).

(** value of a summand location; [None]: not (yet) a summand.  [att s] = the
    cells in the slots of the published table (StripedInv.v) *)
Definition summand (s : ashared) (l : sloc) : option Z :=
  match l with
  | LBase => Some (a_base s)
  | LCell c => if in_dec Nat.eq_dec c (att s) then get_cell s c else None
  end.

(** the steps of [accumulate]/[Add] that commit the amount of the call:
    a successful CAS on base or on an attached cell, or the store that attaches
    the cell the thread created with its amount as initial value (into an empty
    slot of the table: [L8]; as the only cell of the first table: [C6]) *)
Definition a_commit_pc (l : apc) (s : ashared) : option (sloc * Z) :=
  match l with
  | AddCasBase x b => if a_base s =? b then Some (LBase, x) else None
  | B2 st v => if a_base s =? v then Some (LBase, r_x st) else None
  | AddCellCas x _ c v =>
      match get_cell s c with
      | Some cur => if cur =? v then Some (LCell c, x) else None
      | None => None
      end
  | L11 st _ c v =>
      match get_cell s c with
      | Some cur => if cur =? v then Some (LCell c, r_x st) else None
      | None => None
      end
  | L8 st r _ _ => Some (LCell r, r_x st)
  | C6 st arr =>
      match filter nz (arr_of s arr) with
      | r :: _ => Some (LCell r, r_x st)
      | [] => None
      end
  | _ => None
  end.

Notation stcfg := (config ashared unit apc aop).

Definition a_commit (c : stcfg) (t : nat) : option (sloc * Z) :=
  match nth_error (c_thr c) t with
  | Some th => match t_cur th with Some (_, l) => a_commit_pc l (c_sh c) | None => None end
  | None => None
  end.
