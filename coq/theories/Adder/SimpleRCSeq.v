(** RandomCellAdder (adder/randomCellAdder.go), sequential half: one goroutine
    running ANY operations of the API alone, from any state with at least one
    cell, behaves like a plain int64 number whose value is the wrap-around sum
    of the cells.  [spec_run]/[rets] are [StripedSeq.spec_run]/[StripedSeq.rets]
    (re-exported as notations by SimpleSeqLib). *)
From Coq Require Import List Arith Bool ZArith Lia.
From Garr Require Import Conc.Conc Pure.F64 Adder.StripedModel Adder.SimpleModel Adder.AdderSpec
     Adder.SimpleSeqLib Adder.SimpleRC.
Import ListNotations.
Local Open Scope Z_scope.

(** [Store v] writes [v] unwrapped into cell 0; a later Sum returns [wrap64 v] *)
Definition op_ok (o : aop) : Prop := match o with Store v => wrap64 v = v | _ => True end.

(** ** why [op_ok] is needed: Store of a value outside int64 *)
Example rc_store_unwrapped_counterexample :
  let ops := [Store (2 ^ 63); Sum] in
  let '(c, e) := run rc_adder (Config (rinit 1 []) [mk_thread rpc tt ops]) (repeat 0%nat 6) in
  (rets e, snd (spec_run wadd (cells_sum (rc_cells (rinit 1 []))) ops),
   map (fun th => (t_prog th, t_cur th, t_dead th)) (c_thr c)) =
  ([RU; RZ (- 2 ^ 63)], [RU; RZ (2 ^ 63)], [([], None, false)]).
Proof. vm_compute. reflexivity. Qed.

Example rc_store_unwrapped_differs :
  let ops := [Store (2 ^ 63); Sum] in
  rets (snd (run rc_adder (Config (rinit 1 []) [mk_thread rpc tt ops]) (repeat 0%nat 6))) <>
  snd (spec_run wadd (cells_sum (rc_cells (rinit 1 []))) ops).
Proof. vm_compute. discriminate. Qed.

(** ** list facts *)
Lemma upd_split {A} (l : list A) i v :
  (i < length l)%nat -> upd l i v = firstn i l ++ v :: skipn (S i) l.
Proof.
  revert i; induction l as [|a l IH]; intros i Hi; simpl in *.
  - lia.
  - destruct i as [|i]; [reflexivity|]. simpl. f_equal. apply IH. lia.
Qed.

Lemma firstn_S_upd {A} (l : list A) i v :
  (i < length l)%nat -> firstn (S i) (upd l i v) = firstn i l ++ [v].
Proof.
  revert i; induction l as [|a l IH]; intros i Hi; simpl in *.
  - lia.
  - destruct i as [|i]; [reflexivity|]. simpl. f_equal. apply IH. lia.
Qed.

Lemma skipn_S_upd {A} (l : list A) i v : skipn (S i) (upd l i v) = skipn (S i) l.
Proof.
  revert i; induction l as [|a l IH]; intros i.
  - reflexivity.
  - destruct i as [|i]; [reflexivity|]. apply (IH i).
Qed.

Lemma zsum_map_zero (w : nat -> Z) l : (forall j, In j l -> w j = 0) -> zsum (map w l) = 0.
Proof.
  induction l as [|a l IH]; intros H; simpl; [reflexivity|].
  rewrite (H a) by (left; reflexivity). rewrite IH; [reflexivity|].
  intros b Hb. apply H. right; exact Hb.
Qed.

Lemma wrap64_idem z : wrap64 (wrap64 z) = wrap64 z.
Proof. apply wrap64_of_congr64. apply wrap64_congr64. Qed.

Lemma cells_sum_upd_add l i x :
  (i < length l)%nat -> cells_sum (upd l i (wadd (nth i l 0) x)) = wadd (cells_sum l) x.
Proof.
  intros Hi. rewrite !cells_sum_zsum, zsum_upd by exact Hi. unfold wadd.
  rewrite wrap64_wrap64_add. apply wrap64_of_congr64.
  destruct (wrap64_congr64 (nth i l 0 + x)) as [k Hk]. exists k. lia.
Qed.

(** the cells written by Reset / SumAndReset / Store *)
Definition wzero (j : nat) : Z := 0.
Definition wstore (v : Z) (j : nat) : Z := if Nat.eqb j 0 then v else 0.

Lemma cells_sum_wzero n : cells_sum (map wzero (seq 0 n)) = 0.
Proof. rewrite cells_sum_zsum, zsum_map_zero; [reflexivity|]. intros; reflexivity. Qed.

Lemma cells_sum_wstore v n : (0 < n)%nat -> cells_sum (map (wstore v) (seq 0 n)) = wrap64 v.
Proof.
  intros Hn. destruct n as [|n]; [lia|]. rewrite cells_sum_zsum. f_equal.
  simpl seq. simpl map. simpl zsum. rewrite zsum_map_zero; [unfold wstore; simpl; lia|].
  intros j Hj. apply in_seq in Hj. unfold wstore. destruct j; [lia|reflexivity].
Qed.

(** ** the loops, alone *)
Notation rruns := (runs rc_adder).

Lemma sum_loop (s : rshared) : forall k i acc,
  (i + S k = length (rc_cells s))%nat ->
  rruns (RSumL acc i) s (RZ (fold_left wadd (skipn i (rc_cells s)) acc)) s.
Proof.
  induction k as [|k IH]; intros i acc Hi.
  - apply runs_done. change (m_step rc_adder) with rstep. unfold rstep.
    destruct (Nat.ltb_spec (S i) (length (rc_cells s))) as [L|L]; [lia|].
    rewrite (skipn_nth _ i 0) by lia. rewrite skipn_all2 by lia. reflexivity.
  - eapply runs_next.
    + change (m_step rc_adder) with rstep. unfold rstep.
      destruct (Nat.ltb_spec (S i) (length (rc_cells s))) as [L|L]; [reflexivity|lia].
    + rewrite (skipn_nth _ i 0) by lia. cbn [fold_left]. apply IH. lia.
Qed.

Section WriteLoops.
Variable w : nat -> Z.

Lemma tail_step (l : list Z) i k v : w i = v ->
  (firstn i l ++ [v]) ++ map w (seq (S i) k) = firstn i l ++ map w (seq i (S k)).
Proof. intros <-. rewrite <- app_assoc. reflexivity. Qed.

Lemma tail_last (l : list Z) i v : w i = v ->
  (S i = length l)%nat -> upd l i v = firstn i l ++ map w (seq i 1).
Proof.
  intros <- H. rewrite upd_split by lia. rewrite skipn_all2 by lia. reflexivity.
Qed.

Lemma reset_loop (Hw : forall j, w j = 0) : forall k i (s : rshared),
  (i + S k = length (rc_cells s))%nat ->
  rruns (RResetL i) s RU (RS (firstn i (rc_cells s) ++ map w (seq i (S k))) (rc_rnd s)).
Proof.
  induction k as [|k IH]; intros i s Hi.
  - apply runs_done. change (m_step rc_adder) with rstep. unfold rstep.
    destruct (Nat.ltb_spec (S i) (length (rc_cells s))) as [L|L]; [lia|].
    unfold rc_set. rewrite (tail_last _ i _ (Hw i)) by lia. reflexivity.
  - eapply runs_next.
    + change (m_step rc_adder) with rstep. unfold rstep.
      destruct (Nat.ltb_spec (S i) (length (rc_cells s))) as [L|L]; [reflexivity|lia].
    + pose proof (IH (S i) (rc_set s i 0)) as H. unfold rc_set in H. cbn [rc_cells rc_rnd] in H.
      rewrite upd_length in H. specialize (H ltac:(lia)).
      rewrite firstn_S_upd in H by lia. rewrite (tail_step _ i _ _ (Hw i)) in H. exact H.
Qed.

Lemma sr_loop (Hw : forall j, w j = 0) : forall k i (s : rshared) acc,
  (i + S k = length (rc_cells s))%nat ->
  rruns (RSRLoad acc i) s (RZ (fold_left wadd (skipn i (rc_cells s)) acc))
        (RS (firstn i (rc_cells s) ++ map w (seq i (S k))) (rc_rnd s)).
Proof.
  induction k as [|k IH]; intros i s acc Hi.
  - eapply runs_next; [reflexivity|].
    apply runs_done. change (m_step rc_adder) with rstep. unfold rstep.
    destruct (Nat.ltb_spec (S i) (length (rc_cells s))) as [L|L]; [lia|].
    unfold rc_set. rewrite (tail_last _ i _ (Hw i)) by lia.
    rewrite (skipn_nth _ i 0) by lia. rewrite skipn_all2 by lia. reflexivity.
  - eapply runs_next; [reflexivity|].
    eapply runs_next.
    + change (m_step rc_adder) with rstep. unfold rstep.
      destruct (Nat.ltb_spec (S i) (length (rc_cells s))) as [L|L]; [reflexivity|lia].
    + pose proof (IH (S i) (rc_set s i 0) (wadd acc (rc_get s i))) as H.
      unfold rc_set in H. cbn [rc_cells rc_rnd] in H.
      rewrite upd_length in H. specialize (H ltac:(lia)).
      rewrite firstn_S_upd in H by lia. rewrite (tail_step _ i _ _ (Hw i)) in H.
      rewrite skipn_S_upd in H.
      rewrite (skipn_nth _ i 0) by lia. cbn [fold_left]. exact H.
Qed.

Lemma store_loop v (Hw : forall j, w j = if Nat.eqb j 0 then v else 0) : forall k i (s : rshared),
  (i + S k = length (rc_cells s))%nat ->
  rruns (RStoreL v i) s RU (RS (firstn i (rc_cells s) ++ map w (seq i (S k))) (rc_rnd s)).
Proof.
  induction k as [|k IH]; intros i s Hi.
  - apply runs_done. change (m_step rc_adder) with rstep. unfold rstep.
    destruct (Nat.ltb_spec (S i) (length (rc_cells s))) as [L|L]; [lia|].
    unfold rc_set. rewrite (tail_last _ i _ (Hw i)) by lia. reflexivity.
  - eapply runs_next.
    + change (m_step rc_adder) with rstep. unfold rstep.
      destruct (Nat.ltb_spec (S i) (length (rc_cells s))) as [L|L]; [reflexivity|lia].
    + pose proof (IH (S i) (rc_set s i (if Nat.eqb i 0 then v else 0))) as H.
      unfold rc_set in H. cbn [rc_cells rc_rnd] in H.
      rewrite upd_length in H. specialize (H ltac:(lia)).
      rewrite firstn_S_upd in H by lia. rewrite (tail_step _ i _ _ (Hw i)) in H. exact H.
Qed.

End WriteLoops.

(** ** one operation alone *)
Lemma rc_take_cells s : rc_cells (snd (rc_take s)) = rc_cells s.
Proof. unfold rc_take. destruct (rc_rnd s); reflexivity. Qed.

Lemma update_alone (s : rshared) o :
  (0 < length (rc_cells s))%nat -> is_update o = true ->
  exists s', rruns (RInv o) s RU s' /\ length (rc_cells s') = length (rc_cells s) /\
             cells_sum (rc_cells s') = wadd (cells_sum (rc_cells s)) (delta o).
Proof.
  intros Hn Hu.
  destruct (rstep_inv o s Hu) as (r & s1 & Et & Ecells & Est).
  set (i := Z.to_nat (Z.land r (Z.of_nat (length (rc_cells s)) - 1))) in *.
  assert (Hi : (i < length (rc_cells s))%nat) by (apply idx_lt; exact Hn).
  exists (rc_set s1 i (wadd (rc_get s1 i) (delta o))). split; [|split].
  - eapply runs_next; [exact Est|]. apply runs_done. reflexivity.
  - unfold rc_set. cbn [rc_cells]. rewrite upd_length. congruence.
  - unfold rc_set, rc_get. cbn [rc_cells]. rewrite Ecells. apply cells_sum_upd_add. exact Hi.
Qed.

Lemma rc_op_alone (n : nat) (Hn : (0 < n)%nat) (s : rshared) (o : aop) :
  length (rc_cells s) = n -> op_ok o ->
  exists s' r, rruns (m_start rc_adder tt o) s r s' /\ length (rc_cells s') = n /\
               counter_spec wadd (cells_sum (rc_cells s)) o = (cells_sum (rc_cells s'), r).
Proof.
  intros Hlen Hok. change (m_start rc_adder tt o) with (RInv o).
  assert (Hpos : (0 < length (rc_cells s))%nat) by lia.
  assert (Hupd : is_update o = true ->
            exists s' r, rruns (RInv o) s r s' /\ length (rc_cells s') = n /\
              (wadd (cells_sum (rc_cells s)) (delta o), RU) = (cells_sum (rc_cells s'), r)).
  { intros Hu. destruct (update_alone s o Hpos Hu) as (s' & Hr & Hl & Hs).
    exists s', RU. split; [exact Hr|]. split; [congruence|]. rewrite Hs. reflexivity. }
  assert (Hk : (0 + S (n - 1) = length (rc_cells s))%nat) by lia.
  assert (Hseq : S (n - 1) = n) by lia.
  destruct o as [x| | | | | |v].
  - apply Hupd. reflexivity.
  - apply Hupd. reflexivity.
  - apply Hupd. reflexivity.
  - (* Sum *)
    exists s, (RZ (cells_sum (rc_cells s))). split; [|split; [exact Hlen|reflexivity]].
    eapply runs_next; [reflexivity|]. apply (sum_loop s (n - 1) 0 0 Hk).
  - (* Reset *)
    exists (RS (map wzero (seq 0 n)) (rc_rnd s)), RU. split; [|split].
    + eapply runs_next; [reflexivity|].
      pose proof (reset_loop wzero (fun _ => eq_refl) (n - 1) 0 s Hk) as H.
      rewrite Hseq in H. exact H.
    + cbn [rc_cells]. rewrite map_length, seq_length. reflexivity.
    + cbn [rc_cells]. rewrite cells_sum_wzero. reflexivity.
  - (* SumAndReset *)
    exists (RS (map wzero (seq 0 n)) (rc_rnd s)), (RZ (cells_sum (rc_cells s))). split; [|split].
    + eapply runs_next; [reflexivity|].
      pose proof (sr_loop wzero (fun _ => eq_refl) (n - 1) 0 s 0 Hk) as H.
      rewrite Hseq in H. exact H.
    + cbn [rc_cells]. rewrite map_length, seq_length. reflexivity.
    + cbn [rc_cells]. rewrite cells_sum_wzero. reflexivity.
  - (* Store *)
    exists (RS (map (wstore v) (seq 0 n)) (rc_rnd s)), RU. split; [|split].
    + eapply runs_next; [reflexivity|].
      pose proof (store_loop (wstore v) v (fun _ => eq_refl) (n - 1) 0 s Hk) as H.
      rewrite Hseq in H. exact H.
    + cbn [rc_cells]. rewrite map_length, seq_length. reflexivity.
    + cbn [rc_cells]. rewrite cells_sum_wstore by exact Hn. simpl in Hok. rewrite Hok. reflexivity.
Qed.

(** ** any list of operations from one goroutine *)
Theorem rc_sequential_number : forall (s : rshared) (ops : list aop),
  (0 < length (rc_cells s))%nat -> Forall op_ok ops ->
  exists n, forall m, (n <= m)%nat ->
    let '(c, e) := run rc_adder (Config s [mk_thread rpc tt ops]) (repeat 0%nat m) in
    rets e = snd (spec_run wadd (cells_sum (rc_cells s)) ops) /\
    cells_sum (rc_cells (c_sh c)) = fst (spec_run wadd (cells_sum (rc_cells s)) ops) /\
    length (rc_cells (c_sh c)) = length (rc_cells s).
Proof.
  intros s ops Hn Hok.
  destruct (sequential_number_gen rc_adder wadd
              (fun s' => length (rc_cells s') = length (rc_cells s))
              (fun s' => cells_sum (rc_cells s')) op_ok
              (rc_op_alone (length (rc_cells s)) Hn) ops s eq_refl Hok) as [n H].
  exists n. intros m Hm. specialize (H m Hm).
  destruct (run rc_adder (Config s [mk_thread rpc tt ops]) (repeat 0%nat m)) as [c e].
  destruct H as (H1 & H2 & H3). auto.
Qed.

Print Assumptions rc_sequential_number.

Theorem rc_seq_done : forall (s : rshared) (ops : list aop) m c e,
  (0 < length (rc_cells s))%nat -> Forall op_ok ops ->
  run rc_adder (Config s [mk_thread rpc tt ops]) (repeat 0%nat m) = (c, e) -> all_done c ->
  rets e = snd (spec_run wadd (cells_sum (rc_cells s)) ops) /\
  cells_sum (rc_cells (c_sh c)) = fst (spec_run wadd (cells_sum (rc_cells s)) ops) /\
  length (rc_cells (c_sh c)) = length (rc_cells s).
Proof.
  intros s ops m c e Hn Hok Hrun Hdone.
  destruct (seq_done_gen rc_adder wadd
              (fun s' => length (rc_cells s') = length (rc_cells s))
              (fun s' => cells_sum (rc_cells s')) op_ok
              (rc_op_alone (length (rc_cells s)) Hn) s ops m c e eq_refl Hok Hrun Hdone)
    as (H1 & H2 & H3).
  auto.
Qed.

Print Assumptions rc_seq_done.
