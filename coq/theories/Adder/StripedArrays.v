(** Preservation: steps of the holder of the flag that change arrays or the table. *)
From Coq Require Import List Arith Bool ZArith Lia Permutation.
From Garr Require Import Conc.Conc Pure.F64 Adder.StripedModel Adder.AdderSpec Adder.StripedLib
  Adder.StripedInv Adder.StripedUpdate Adder.StripedSteps Adder.StripedCells.
Import ListNotations.
Local Open Scope Z_scope.

Lemma owned_unlocked_table x l s r :
  ltok x l s -> locked l = false -> In r (owned l) -> a_table s <> None.
Proof. destruct l; simpl; try contradiction; try discriminate; intros H; intros; apply H. Qed.

Lemma set_slot_eq s a j r :
  (a < length (a_arrays s))%nat ->
  set_slot s a j r =
  AS (a_base s) (a_busy s) (a_table s) (upd (a_arrays s) a (upd (arr_of s a) j r)) (a_cells s) (a_rnd s).
Proof. intros H. unfold set_slot. rewrite (arr_of_nth_error _ _ H). reflexivity. Qed.

Section Arrays.
Variable nrm : Z -> Z.
Hypothesis nrm_add : forall a b, nrm (nrm a + b) = nrm (a + b).
Variable T : Z.

Notation Inv := (Inv nrm T).
Notation Glob := (Glob nrm).

(** generic step of the flag holder that keeps base, flag and cells *)
Lemma Inv_locked (c : acfg) t th th' s' :
  Inv c -> nth_error (c_thr c) t = Some th ->
  lockedth th = true -> lockedth th' = true ->
  a_base s' = a_base (c_sh c) -> a_busy s' = a_busy (c_sh c) -> a_cells s' = a_cells (c_sh c) ->
  Glob s' -> thr_ok th' s' ->
  (a_table (c_sh c) <> None -> a_table s' <> None) ->
  incl (att (c_sh c)) (att s') ->
  (forall tab, tab_ok (c_sh c) tab -> tab_ok s' tab) ->
  (forall r, In r (ownedth th') -> In r (ownedth th) /\ ~ In r (att s')) ->
  (forall r, In r (att s') -> In r (att (c_sh c)) \/ In r (ownedth th) \/ a_table (c_sh c) = None) ->
  cellsum (c_sh c) (att s') + pend_th th' = cellsum (c_sh c) (att (c_sh c)) + pend_th th ->
  Inv (Config s' (upd (c_thr c) t th')).
Proof.
  intros HI Hn Hl Hl' Eb Ebu Ec G' Hok Hnn Hincl Htab Hown Hatt Hsum.
  assert (Hb1 : a_busy (c_sh c) = 1) by (eapply (iv_lock HI); eauto).
  eapply Inv_update with (th := th); [exact nrm_add | exact HI | exact Hn | ..].
  - exact G'.
  - exact Hok.
  - intros t' th0 Hne H0. destruct (t_cur th0) as [[o0 l0]|] eqn:E0; [|exact I].
    assert (Hu : lockedth th0 = false) by (apply (others_unlocked nrm T c t th t' th0 HI Hn Hl Hne H0)).
    unfold lockedth in Hu. rewrite E0 in Hu.
    apply frame_unlocked; auto.
    + rewrite Ec. lia.
    + intros. apply get_cell_heq. exact Ec.
  - intros _. rewrite Ebu. exact Hb1.
  - intros _. left. rewrite Ebu. exact Hb1.
  - intros _. left. exact Hl.
  - intros r Hr. destruct (Hown r Hr) as [H1 H2]. split; [|split]; auto.
    destruct (iv_own HI _ _ _ Hn H1) as ([Hv1 Hv2] & _). split; [exact Hv1|rewrite Ec; exact Hv2].
  - intros t' th0 r Hne H0 Hr Hin.
    destruct (iv_own HI _ _ _ H0 Hr) as (_ & Hna & Hdis).
    destruct (Hatt r Hin) as [H|[H|H]].
    + contradiction.
    + apply (Hdis t th (not_eq_sym Hne) Hn). exact H.
    + assert (Hu : lockedth th0 = false) by (apply (others_unlocked nrm T c t th t' th0 HI Hn Hl Hne H0)).
      destruct (iv_thr HI _ _ H0) as (_ & _ & Hc). unfold lockedth in Hu. unfold ownedth in Hr.
      destruct (t_cur th0) as [[o0 l0]|]; [|contradiction]. destruct Hc as [_ Hc].
      apply (owned_unlocked_table _ _ _ _ Hc Hu Hr). exact H.
  - rewrite Eb, (cellsum_heq _ _ _ Ec).
    replace (a_base (c_sh c) + cellsum (c_sh c) (att s') + pend_th th')
      with (a_base (c_sh c) + (cellsum (c_sh c) (att s') + pend_th th')) by ring.
    rewrite Hsum. f_equal. ring.
Qed.

(** states without a table, flag taken *)
Lemma Glob_none s :
  a_table s = None -> a_busy s = 1 -> nrm (a_base s) = a_base s -> Glob s.
Proof.
  intros Ht Hb Hbase. assert (Ha : att s = []) by (unfold att; rewrite Ht; reflexivity).
  constructor; rewrite ?Ha; auto; try congruence; try (intros; lia).
  - constructor.
  - intros c [].
Qed.

(** attaching a private cell to an empty slot of the published table *)
Lemma Glob_attach s rs j r :
  Glob s -> a_table s = Some rs -> nth_error (arr_of s (fst rs)) j = Some O -> (j < snd rs)%nat ->
  valid_cell s r -> ~ In r (att s) ->
  Glob (set_slot s (fst rs) j r) /\
  (exists l1 l2, att s = l1 ++ l2 /\ att (set_slot s (fst rs) j r) = l1 ++ r :: l2) /\
  (forall tab, tab_ok s tab -> tab_ok (set_slot s (fst rs) j r) tab).
Proof.
  intros G Ht Hj Hlt [Hr0 Hrv] Hna.
  destruct (gl_tab G _ Ht) as [Ha Hlen].
  rewrite (set_slot_eq _ _ _ _ Ha).
  set (s' := AS _ _ _ _ _ _).
  assert (Haro : forall a', arr_of s' a' = if Nat.eqb (fst rs) a' then upd (arr_of s (fst rs)) j r else arr_of s a').
  { intros a'. unfold arr_of at 1. simpl. apply arr_of_upd. exact Ha. }
  assert (Eatt : att s = filter nz (arr_of s (fst rs))) by (unfold att; rewrite Ht; reflexivity).
  assert (Eatt' : att s' = filter nz (upd (arr_of s (fst rs)) j r)).
  { unfold att. simpl. rewrite Ht, Haro, Nat.eqb_refl. reflexivity. }
  destruct (filter_nz_upd_zero _ _ _ Hj Hr0) as (l1 & l2 & E1 & E2).
  assert (Hincl : forall x, In x (att s) -> In x (att s')).
  { intros x. rewrite Eatt, Eatt', E1, E2, !in_app_iff. simpl. tauto. }
  assert (Htok : forall tab, tab_ok s tab -> tab_ok s' tab).
  { intros tab [H1 H2]. split; simpl.
    - rewrite upd_length. exact H1.
    - rewrite Haro. destruct (Nat.eqb_spec (fst rs) (fst tab)) as [E|E].
      + rewrite upd_length, E. exact H2.
      + exact H2. }
  split; [|split].
  - constructor; simpl.
    + apply (gl_busy G).
    + apply (gl_base G).
    + intros tab Htab. apply Htok. apply (gl_tab G). exact Htab.
    + intros tab Htab. rewrite Ht in Htab. injection Htab as <-.
      rewrite Haro, Nat.eqb_refl. intros i Hi. rewrite nth_upd_nat.
      destruct (Nat.eqb_spec j i); [lia|]. apply (gl_tail G _ Ht). exact Hi.
    + intros Hnn a c. rewrite Haro. destruct (Nat.eqb_spec (fst rs) a) as [E|E].
      * intros Hin Hc. rewrite Eatt'. apply in_filter_nz. split; assumption.
      * intros Hin Hc. apply Hincl. apply (gl_slots G Hnn a c Hin Hc).
    + rewrite Ht. discriminate.
    + rewrite Eatt', E2. pose proof (gl_nodup G) as Hnd. rewrite Eatt, E1 in Hnd.
      apply (Permutation_NoDup (Permutation_middle l1 l2 r)). constructor; [|exact Hnd].
      rewrite <- E1, <- Eatt. exact Hna.
    + intros c. rewrite Eatt', E2, in_app_iff. simpl. intros H.
      assert (Hc : c = r \/ In c (att s)) by (rewrite Eatt, E1, in_app_iff; destruct H as [H|[H|H]]; auto).
      destruct Hc as [->|Hc]; [exact Hrv|apply (gl_valid G _ Hc)].
  - exists l1, l2. rewrite Eatt, Eatt'. auto.
  - exact Htok.
Qed.

Lemma Inv_L8 (c : acfg) t th o st r rs j :
  Inv c -> nth_error (c_thr c) t = Some th -> t_cur th = Some (o, L8 st r rs j) ->
  Inv (Config (set_slot (c_sh c) (fst rs) j r)
              (upd (c_thr c) t (Thread (t_prog th) (t_ts th) (Some (o, L9 st true)) false))).
Proof.
  intros HI Hn Hcur.
  pose proof (iv_glob HI) as G.
  destruct (iv_thr HI _ _ Hn) as (Hd & Hp & Hc). rewrite Hcur in Hc.
  destruct Hc as (Hu & Hx & Hg & Ht & Hj & Hlt).
  assert (Hor : In r (ownedth th)) by (unfold ownedth; rewrite Hcur; left; reflexivity).
  destruct (iv_own HI _ _ _ Hn Hor) as (Hv & Hna & _).
  destruct (Glob_attach _ _ _ _ G Ht Hj Hlt Hv Hna) as (G' & (l1 & l2 & E1 & E2) & Htok).
  set (s' := set_slot (c_sh c) (fst rs) j r) in *.
  assert (Hf : a_base s' = a_base (c_sh c) /\ a_busy s' = a_busy (c_sh c) /\
               a_cells s' = a_cells (c_sh c) /\ a_table s' = a_table (c_sh c)).
  { unfold s', set_slot. destruct (nth_error (a_arrays (c_sh c)) (fst rs)); simpl; auto. }
  destruct Hf as (Eb & Ebu & Ec & Et).
  apply Inv_locked with (th := th); try assumption.
  - unfold lockedth. rewrite Hcur. reflexivity.
  - reflexivity.
  - repeat split; auto. simpl. rewrite Et, Ht. discriminate.
  - rewrite Et. auto.
  - intros x. rewrite E1, E2, !in_app_iff. simpl. tauto.
  - simpl. contradiction.
  - intros x. rewrite E1, E2, !in_app_iff. simpl. intros [H|[H|H]]; auto.
    right; left. rewrite <- H. exact Hor.
  - rewrite E1, E2, !cellsum_app. unfold pend_th. rewrite Hcur. simpl.
    unfold cellsum at 2. simpl. fold (cellsum (c_sh c) l2).
    unfold cellval. rewrite Hg. ring.
Qed.

(** allocation of a zero-filled array by the flag holder *)
Lemma new_array_facts s k :
  (forall a, arr_of (snd (new_array s k)) a = if Nat.eqb a (length (a_arrays s)) then repeat O k else arr_of s a) /\
  (forall tab, tab_ok s tab -> tab_ok (snd (new_array s k)) tab) /\
  ((forall tab, a_table s = Some tab -> (fst tab < length (a_arrays s))%nat) -> att (snd (new_array s k)) = att s).
Proof.
  assert (Haro : forall a, arr_of (snd (new_array s k)) a =
                           if Nat.eqb a (length (a_arrays s)) then repeat O k else arr_of s a).
  { intros a. unfold arr_of. simpl. apply arr_of_app. }
  split; [exact Haro|split].
  - intros tab [H1 H2]. split.
    + simpl. rewrite app_length. simpl. lia.
    + rewrite Haro. destruct (Nat.eqb_spec (fst tab) (length (a_arrays s))); [lia|exact H2].
  - intros H. unfold att. change (a_table (snd (new_array s k))) with (a_table s).
    destruct (a_table s) as [tab|]; [|reflexivity].
    rewrite Haro. specialize (H tab eq_refl).
    destruct (Nat.eqb_spec (fst tab) (length (a_arrays s))); [lia|reflexivity].
Qed.

Lemma in_repeat_zero c k : In c (repeat O k) -> c = O.
Proof. intros H. apply repeat_spec in H. exact H. Qed.

Lemma Glob_new_array s k : Glob s -> a_busy s = 1 -> Glob (snd (new_array s k)).
Proof.
  intros G Hb. destruct (new_array_facts s k) as (Haro & Htok & Hatt).
  assert (Eatt : att (snd (new_array s k)) = att s).
  { apply Hatt. intros tab Ht. apply (gl_tab G _ Ht). }
  constructor; rewrite ?Eatt; simpl.
  - apply (gl_busy G).
  - apply (gl_base G).
  - intros tab Ht. apply Htok. apply (gl_tab G _ Ht).
  - intros tab Ht. rewrite Haro. destruct (gl_tab G _ Ht) as [H1 _].
    destruct (Nat.eqb_spec (fst tab) (length (a_arrays s))); [lia|]. apply (gl_tail G _ Ht).
  - intros Hnn a c. rewrite Haro. destruct (Nat.eqb_spec a (length (a_arrays s))).
    + intros Hin Hc. apply in_repeat_zero in Hin. contradiction.
    + apply (gl_slots G Hnn).
  - intros _ H0. lia.
  - apply (gl_nodup G).
  - apply (gl_valid G).
Qed.

Lemma Inv_new_array (c : acfg) t th th' k :
  Inv c -> nth_error (c_thr c) t = Some th ->
  lockedth th = true -> lockedth th' = true ->
  thr_ok th' (snd (new_array (c_sh c) k)) ->
  incl (ownedth th') (ownedth th) ->
  pend_th th' = pend_th th ->
  Inv (Config (snd (new_array (c_sh c) k)) (upd (c_thr c) t th')).
Proof.
  intros HI Hn Hl Hl' Hok Hown Hp.
  pose proof (iv_glob HI) as G.
  assert (Hb1 : a_busy (c_sh c) = 1) by (eapply (iv_lock HI); eauto).
  destruct (new_array_facts (c_sh c) k) as (Haro & Htok & Hatt).
  assert (Eatt : att (snd (new_array (c_sh c) k)) = att (c_sh c)).
  { apply Hatt. intros tab Ht. apply (gl_tab G _ Ht). }
  apply Inv_locked with (th := th); try assumption; try reflexivity.
  - apply Glob_new_array; assumption.
  - simpl. auto.
  - rewrite Eatt. apply incl_refl.
  - intros r Hr. split; [apply Hown; exact Hr|]. rewrite Eatt.
    apply (iv_own HI _ _ _ Hn (Hown _ Hr)).
  - intros r. rewrite Eatt. auto.
  - rewrite Eatt, Hp. reflexivity.
Qed.

(** publishing a table with the same attached cells (growth) *)
Lemma Inv_L16 (c : acfg) t th o st nt :
  Inv c -> nth_error (c_thr c) t = Some th -> t_cur th = Some (o, L16 st nt) ->
  Inv (Config (set_table (c_sh c) (Some nt))
              (upd (c_thr c) t (Thread (t_prog th) (t_ts th) (Some (o, L17 st)) false))).
Proof.
  intros HI Hn Hcur.
  pose proof (iv_glob HI) as G.
  destruct (iv_thr HI _ _ Hn) as (Hd & Hp & Hc). rewrite Hcur in Hc.
  destruct Hc as (Hu & Hx & Hnn & Hok & Hf & Htl).
  set (s' := set_table (c_sh c) (Some nt)).
  assert (Eatt : att s' = att (c_sh c)) by (unfold att at 1; simpl; exact Hf).
  apply Inv_locked with (th := th); try assumption; try reflexivity.
  - unfold lockedth. rewrite Hcur. reflexivity.
  - constructor; rewrite ?Eatt; simpl.
    + apply (gl_busy G).
    + apply (gl_base G).
    + intros tab E. injection E as <-. exact Hok.
    + intros tab E. injection E as <-. exact Htl.
    + intros _. apply (gl_slots G Hnn).
    + discriminate.
    + apply (gl_nodup G).
    + apply (gl_valid G).
  - repeat split; auto. simpl. discriminate.
  - simpl. discriminate.
  - rewrite Eatt. apply incl_refl.
  - auto.
  - simpl. contradiction.
  - intros r. rewrite Eatt. auto.
  - rewrite Eatt. unfold pend_th. rewrite Hcur. reflexivity.
Qed.

Lemma skipn_repeat {A} (x : A) n m : skipn n (repeat x m) = repeat x (m - n).
Proof.
  revert m; induction n as [|n IH]; intros m; simpl.
  - rewrite Nat.sub_0_r. reflexivity.
  - destruct m; simpl; [reflexivity|apply IH].
Qed.

Lemma nth_repeat_zero i n : nth i (repeat O n) O = O.
Proof.
  destruct (Nat.ltb_spec i n).
  - apply nth_repeat.
  - apply nth_overflow. rewrite repeat_length. assumption.
Qed.

(** the copy of the growth path *)
Lemma Inv_Lcopy (c : acfg) t th o st tab arr old new :
  Inv c -> nth_error (c_thr c) t = Some th -> t_cur th = Some (o, Lcopy st tab arr) ->
  nth_error (a_arrays (c_sh c)) (fst tab) = Some old ->
  nth_error (a_arrays (c_sh c)) arr = Some new ->
  Inv (Config (AS (a_base (c_sh c)) (a_busy (c_sh c)) (a_table (c_sh c))
                  (upd (a_arrays (c_sh c)) arr (firstn (snd tab) old ++ skipn (snd tab) new))
                  (a_cells (c_sh c)) (a_rnd (c_sh c)))
              (upd (c_thr c) t (Thread (t_prog th) (t_ts th) (Some (o, L16 st (arr, (snd tab * 2)%nat))) false))).
Proof.
  intros HI Hn Hcur Hold Hnew.
  pose proof (iv_glob HI) as G.
  destruct (iv_thr HI _ _ Hn) as (Hd & Hp & Hc). rewrite Hcur in Hc.
  destruct Hc as (Hu & Hx & [n Ht] & Hft & Hlen & Harr & Hne & Hz).
  destruct (nth_error_arr_of _ _ _ Hold) as [Eold _].
  destruct (nth_error_arr_of _ _ _ Hnew) as [Enew _].
  rewrite <- Eold, <- Enew, Hz, Hlen, firstn_all, skipn_repeat.
  set (len := length (arr_of (c_sh c) (fst tab))) in *.
  set (X := arr_of (c_sh c) (fst tab) ++ repeat O (len * 4 - len)).
  set (s' := AS _ _ _ _ _ _).
  assert (Haro : forall a', arr_of s' a' = if Nat.eqb arr a' then X else arr_of (c_sh c) a').
  { intros a'. unfold arr_of at 1. simpl. apply arr_of_upd. exact Harr. }
  assert (Eatt0 : att (c_sh c) = filter nz (arr_of (c_sh c) (fst tab))) by (unfold att; rewrite Ht; reflexivity).
  assert (Eatt : att s' = att (c_sh c)).
  { unfold att. simpl. rewrite Ht. simpl. rewrite Haro.
    destruct (Nat.eqb_spec arr (fst tab)); [contradiction|reflexivity]. }
  assert (HfX : filter nz X = att (c_sh c)).
  { unfold X. rewrite filter_app, filter_nz_repeat, app_nil_r. symmetry. exact Eatt0. }
  assert (HlX : length X = (len * 4)%nat).
  { unfold X. rewrite app_length, repeat_length. fold len. lia. }
  assert (Htok : forall tb, tab_ok (c_sh c) tb -> tab_ok s' tb).
  { intros tb [H1 H2]. split; simpl.
    - rewrite upd_length. exact H1.
    - rewrite Haro. destruct (Nat.eqb_spec arr (fst tb)) as [E|E]; [|exact H2].
      rewrite HlX. rewrite <- E, Hz, repeat_length in H2. rewrite <- Hlen. exact H2. }
  assert (Hnn : a_table (c_sh c) <> None) by (rewrite Ht; discriminate).
  apply Inv_locked with (th := th); try assumption; try reflexivity.
  - unfold lockedth. rewrite Hcur. reflexivity.
  - constructor; rewrite ?Eatt; simpl.
    + apply (gl_busy G).
    + apply (gl_base G).
    + intros tb E. apply Htok. apply (gl_tab G _ E).
    + intros tb E. rewrite Haro. rewrite Ht in E. injection E as <-. simpl.
      destruct (Nat.eqb_spec arr (fst tab)); [contradiction|]. apply (gl_tail G _ Ht).
    + intros _ a cc. rewrite Haro. destruct (Nat.eqb_spec arr a).
      * intros Hin Hcc. rewrite <- HfX. apply in_filter_nz. split; assumption.
      * apply (gl_slots G Hnn).
    + rewrite Ht. discriminate.
    + apply (gl_nodup G).
    + apply (gl_valid G).
  - repeat split; auto; simpl.
    + rewrite upd_length. exact Harr.
    + rewrite Haro, Nat.eqb_refl, HlX. lia.
    + rewrite Haro, Nat.eqb_refl, Eatt. exact HfX.
    + rewrite Haro, Nat.eqb_refl. intros i Hi. unfold X.
      rewrite app_nth2 by (fold len; lia). apply nth_repeat_zero.
  - auto.
  - rewrite Eatt. apply incl_refl.
  - simpl. contradiction.
  - intros r. rewrite Eatt. auto.
  - rewrite Eatt. unfold pend_th. rewrite Hcur. reflexivity.
Qed.

Lemma upd_upd {A} (l : list A) t x y : upd (upd l t x) t y = upd l t y.
Proof. revert t; induction l as [|a l IH]; intros [|t]; simpl; auto. rewrite IH. reflexivity. Qed.

(** creation of the table: store of the first cell into the private array *)
Lemma Inv_C5 (c : acfg) t th o st arr r i :
  Inv c -> nth_error (c_thr c) t = Some th -> t_cur th = Some (o, C5 st arr r) -> (i < 2)%nat ->
  Inv (Config (set_slot (c_sh c) arr i r)
              (upd (c_thr c) t (Thread (t_prog th) (t_ts th) (Some (o, C6 st arr)) false))).
Proof.
  intros HI Hn Hcur Hi.
  pose proof (iv_glob HI) as G.
  destruct (iv_thr HI _ _ Hn) as (Hd & Hp & Hc). rewrite Hcur in Hc.
  destruct Hc as (Hu & Hx & Ht & Hz & Hg & Harr & Hlen).
  assert (Hl : lockedth th = true) by (unfold lockedth; rewrite Hcur; reflexivity).
  assert (Hb1 : a_busy (c_sh c) = 1) by (eapply (iv_lock HI); eauto).
  rewrite (set_slot_eq _ _ _ _ Harr).
  set (A := arr_of (c_sh c) arr) in *.
  set (s' := AS _ _ _ _ _ _).
  assert (Haro : forall a', arr_of s' a' = if Nat.eqb arr a' then upd A i r else arr_of (c_sh c) a').
  { intros a'. unfold arr_of at 1. simpl. apply arr_of_upd. exact Harr. }
  assert (Ea : att (c_sh c) = []) by (unfold att; rewrite Ht; reflexivity).
  assert (Ea' : att s' = []) by (unfold att; simpl; rewrite Ht; reflexivity).
  assert (HA0 : forall k, nth k A O = O).
  { intros k. destruct (nth_In_or_zero A k) as [E|E]; [exact E|]. apply (Hz arr). exact E. }
  assert (Hi0 : nth_error A i = Some O).
  { rewrite (nth_error_nth' A i O) by lia. rewrite HA0. reflexivity. }
  destruct (get_cell_valid _ _ _ Hg) as [Hr0 Hrv].
  apply Inv_locked with (th := th); try assumption; try reflexivity.
  - apply Glob_none; simpl; auto. apply (gl_base G).
  - repeat split; auto; simpl.
    + rewrite upd_length. exact Harr.
    + rewrite Haro, Nat.eqb_refl, upd_length. lia.
    + rewrite Haro, Nat.eqb_refl. intros k Hk. rewrite nth_upd_nat.
      destruct (Nat.eqb_spec i k); [lia|apply HA0].
    + intros a cc Hne. rewrite Haro. destruct (Nat.eqb_spec arr a); [congruence|]. apply Hz.
    + exists r. split; [|exact Hg]. rewrite Haro, Nat.eqb_refl.
      destruct (filter_nz_upd_zero _ _ _ Hi0 Hr0) as (l1 & l2 & E1 & E2).
      rewrite (filter_nz_all_zero A) in E1 by (intros cc Hcc; apply (Hz arr); exact Hcc).
      symmetry in E1. apply app_eq_nil in E1. destruct E1 as [-> ->]. exact E2.
  - intros H; contradiction.
  - rewrite Ea. intros x [].
  - intros tb [H1 H2]. split; simpl.
    + rewrite upd_length. exact H1.
    + rewrite Haro. destruct (Nat.eqb_spec arr (fst tb)) as [E|E]; [|exact H2].
      rewrite upd_length. unfold A. rewrite E. exact H2.
  - simpl. contradiction.
  - rewrite Ea'. intros x [].
  - rewrite Ea, Ea'. unfold pend_th. rewrite Hcur. reflexivity.
Qed.

(** creation of the table: publication *)
Lemma Inv_C6 (c : acfg) t th o st arr :
  Inv c -> nth_error (c_thr c) t = Some th -> t_cur th = Some (o, C6 st arr) ->
  Inv (Config (set_table (c_sh c) (Some (arr, 2%nat)))
              (upd (c_thr c) t (Thread (t_prog th) (t_ts th) (Some (o, L9 st true)) false))).
Proof.
  intros HI Hn Hcur.
  pose proof (iv_glob HI) as G.
  destruct (iv_thr HI _ _ Hn) as (Hd & Hp & Hc). rewrite Hcur in Hc.
  destruct Hc as (Hu & Hx & Ht & Harr & Hlen & Htl & Hoth & r & Hf & Hg).
  assert (Hl : lockedth th = true) by (unfold lockedth; rewrite Hcur; reflexivity).
  set (s' := set_table (c_sh c) (Some (arr, 2%nat))).
  assert (Ea : att (c_sh c) = []) by (unfold att; rewrite Ht; reflexivity).
  assert (Ea' : att s' = [r]) by (unfold att; simpl; exact Hf).
  destruct (get_cell_valid _ _ _ Hg) as [Hr0 Hrv].
  apply Inv_locked with (th := th); try assumption; try reflexivity.
  - constructor; rewrite ?Ea'; simpl.
    + apply (gl_busy G).
    + apply (gl_base G).
    + intros tb E. injection E as <-. split; simpl; assumption.
    + intros tb E. injection E as <-. exact Htl.
    + intros _ a cc Hin Hcc. destruct (Nat.eq_dec a arr) as [->|Hne].
      * change (arr_of s' arr) with (arr_of (c_sh c) arr) in Hin.
        assert (Hin' : In cc (filter nz (arr_of (c_sh c) arr))) by (apply in_filter_nz; split; assumption).
        rewrite Hf in Hin'. exact Hin'.
      * exfalso. apply Hcc. apply (Hoth a cc Hne Hin).
    + discriminate.
    + constructor; [intros []|constructor].
    + intros cc [<-|[]]. exact Hrv.
  - repeat split; auto. simpl. discriminate.
  - intros _. simpl. discriminate.
  - rewrite Ea. intros x [].
  - auto.
  - simpl. contradiction.
  - intros x _. right; right. exact Ht.
  - rewrite Ea, Ea'. unfold pend_th. rewrite Hcur. simpl. unfold cellsum. simpl.
    unfold cellval. rewrite Hg. ring.
Qed.

(** creation of the table: allocation of the array and of the first cell *)
Lemma Inv_C4 (c : acfg) t th o st (f : bool) :
  Inv c -> nth_error (c_thr c) t = Some th -> t_cur th = Some (o, C4 st) ->
  a_table (c_sh c) = None ->
  let s1 := snd (new_array (c_sh c) 4) in
  let arr := length (a_arrays (c_sh c)) in
  let r := S (length (a_cells (c_sh c))) in
  let s2 := snd (new_cell s1 (if f then 0 else r_x st)) in
  Inv (Config s2 (upd (c_thr c) t
         (Thread (t_prog th) (t_ts th) (Some (o, if f then C4f st arr r else C5 st arr r)) false))).
Proof.
  intros HI Hn Hcur Ht s1 arr r s2.
  destruct (iv_thr HI _ _ Hn) as (Hd & Hp & Hc). rewrite Hcur in Hc.
  destruct Hc as (Hu & Hx & Hz). specialize (Hz Ht).
  assert (Hl : lockedth th = true) by (unfold lockedth; rewrite Hcur; reflexivity).
  destruct (new_array_facts (c_sh c) 4) as (Haro & Htok & _). fold s1 in Haro, Htok.
  assert (Hz1 : all_zero s1).
  { intros a cc. rewrite Haro. destruct (Nat.eqb_spec a (length (a_arrays (c_sh c)))).
    - apply in_repeat_zero.
    - apply Hz. }
  assert (H1 : Inv (Config s1 (upd (c_thr c) t th))).
  { apply Inv_new_array with (th := th); auto.
    - split; [exact Hd|split; [exact Hp|]]. rewrite Hcur. split; [exact Hu|]. simpl. auto.
    - apply incl_refl. }
  assert (Hn1 : nth_error (c_thr (Config s1 (upd (c_thr c) t th))) t = Some th).
  { simpl. rewrite nth_error_upd, Nat.eqb_refl, Hn. reflexivity. }
  pose proof (Inv_new_cell nrm nrm_add T _ t th
                (Thread (t_prog th) (t_ts th) (Some (o, if f then C4f st arr r else C5 st arr r)) false)
                s2 (if f then 0 else r_x st) H1 Hn1) as H2.
  simpl c_thr in H2. rewrite upd_upd in H2. apply H2; try reflexivity.
  - assert (Hz2 : all_zero s2) by (apply (all_zero_heq s1); [reflexivity|exact Hz1]).
    assert (Hlen : (4 <= length (arr_of s2 arr))%nat).
    { change (arr_of s2 arr) with (arr_of s1 arr). rewrite Haro. unfold arr. rewrite Nat.eqb_refl. simpl. lia. }
    assert (Harr : (arr < length (a_arrays s2))%nat).
    { simpl. rewrite app_length. simpl. unfold arr. lia. }
    assert (Hg : get_cell s2 r = Some (if f then 0 else r_x st)) by (apply get_cell_new_cell_new).
    split; [reflexivity|split; [exact Hp|]]. simpl t_cur. split; [exact Hu|].
    destruct f; simpl ltok; repeat split; auto.
    + discriminate.
    + simpl. rewrite app_length. simpl. unfold r. lia.
    + rewrite <- Hx. exact Hg.
  - unfold lockedth. rewrite Hcur. destruct f; reflexivity.
  - intros r0. unfold ownedth. simpl. destruct f; simpl; intros [<-|[]]; reflexivity.
  - unfold pend_th. rewrite Hcur. destruct f; reflexivity.
Qed.

End Arrays.
