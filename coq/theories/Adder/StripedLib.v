(** Arithmetic and list facts used by the striped adder proofs. *)
From Coq Require Import List Arith Bool ZArith Lia Permutation.
From Garr Require Import Conc.Conc Pure.F64 Adder.StripedModel.
Import ListNotations.
Local Open Scope Z_scope.

(** ** wrap-around arithmetic *)

Lemma wrap64_add_l a b : wrap64 (wrap64 a + b) = wrap64 (a + b).
Proof.
  unfold wrap64.
  replace ((a + 2 ^ 63) mod 2 ^ 64 - 2 ^ 63 + b + 2 ^ 63) with ((a + 2 ^ 63) mod 2 ^ 64 + b) by ring.
  rewrite Zplus_mod_idemp_l.
  replace (a + 2 ^ 63 + b) with (a + b + 2 ^ 63) by ring. reflexivity.
Qed.

Lemma land_le_r i m : 0 <= m -> 0 <= Z.land i m <= m.
Proof.
  intros Hm. split.
  - apply Z.land_nonneg. right. exact Hm.
  - assert (H : Z.ldiff (Z.land i m) m = 0).
    { rewrite Z.land_comm. apply Z.bits_inj'. intros n Hn.
      rewrite Z.ldiff_spec, Z.land_spec, Z.bits_0.
      destruct (Z.testbit m n), (Z.testbit i n); reflexivity. }
    apply Z.sub_nocarry_ldiff in H.
    assert (0 <= Z.ldiff m (Z.land i m)) by (apply Z.ldiff_nonneg; left; exact Hm).
    lia.
Qed.

Lemma slot_of_lt idx tab : (nmask tab <? 0) = false -> (slot_of idx tab < snd tab)%nat.
Proof.
  unfold slot_of, nmask. intros H. apply Z.ltb_ge in H.
  pose proof (land_le_r idx (Z.of_nat (snd tab) - 1) H). lia.
Qed.

Lemma land1_lt idx : (Z.to_nat (Z.land idx 1) < 2)%nat.
Proof. pose proof (land_le_r idx 1 ltac:(lia)). lia. Qed.

(** ** the abstract "normalisation" of an adder kind *)
Section Nrm.
Variable nrm : Z -> Z.
Hypothesis nrm_add : forall a b, nrm (nrm a + b) = nrm (a + b).

Lemma nrm_idem a : nrm (nrm a) = nrm a.
Proof. pose proof (nrm_add a 0) as H. rewrite !Z.add_0_r in H. exact H. Qed.

Lemma nrm_add_r a b : nrm (b + nrm a) = nrm (b + a).
Proof. rewrite Z.add_comm, nrm_add, Z.add_comm. reflexivity. Qed.

Lemma nrm_cong a b c : nrm a = nrm b -> nrm (a + c) = nrm (b + c).
Proof. intros H. rewrite <- nrm_add, H, nrm_add. reflexivity. Qed.

Lemma fold_vadd_nrm (vals : list Z) (b : Z) :
  nrm b = b ->
  fold_left (fun a v => nrm (a + v)) vals b = nrm (b + fold_right Z.add 0 vals).
Proof.
  revert b; induction vals as [|v vals IH]; intros b Hb; simpl.
  - rewrite Z.add_0_r. symmetry; exact Hb.
  - rewrite IH by apply nrm_idem. rewrite nrm_add. f_equal. ring.
Qed.
End Nrm.

(** ** lists *)

Definition nz (c : nat) : bool := negb (Nat.eqb c 0).

Lemma nz_true c : nz c = true <-> c <> O.
Proof. unfold nz. destruct c; simpl; split; intros; congruence. Qed.

Lemma in_filter_nz c l : In c (filter nz l) <-> In c l /\ c <> O.
Proof. rewrite filter_In, nz_true. reflexivity. Qed.

Lemma filter_nz_repeat n : filter nz (repeat O n) = [].
Proof. induction n; simpl; auto. Qed.

Lemma filter_nz_all_zero l : (forall c, In c l -> c = O) -> filter nz l = [].
Proof.
  induction l as [|a l IH]; intros H; simpl; [reflexivity|].
  rewrite (H a) by (left; reflexivity). simpl. apply IH. intros c Hc. apply H. right; exact Hc.
Qed.

Lemma nth_error_upd_same {A} (l : list A) i x : (i < length l)%nat -> nth_error (upd l i x) i = Some x.
Proof.
  intros H. rewrite nth_error_upd, Nat.eqb_refl.
  destruct (nth_error l i) eqn:E; [reflexivity|]. apply nth_error_None in E. lia.
Qed.

Lemma nth_error_upd_other {A} (l : list A) i j x : i <> j -> nth_error (upd l i x) j = nth_error l j.
Proof.
  intros H. rewrite nth_error_upd. destruct (Nat.eqb_spec i j); [contradiction|reflexivity].
Qed.

Lemma upd_split {A} (l : list A) j x y :
  nth_error l j = Some y ->
  exists l1 l2, l = l1 ++ y :: l2 /\ upd l j x = l1 ++ x :: l2 /\ length l1 = j.
Proof.
  revert j; induction l as [|a l IH]; intros [|j] H; simpl in H; try discriminate.
  - injection H as ->. exists [], l. auto.
  - destruct (IH j H) as (l1 & l2 & E1 & E2 & E3).
    exists (a :: l1), l2. simpl. rewrite <- E1, E2, E3. auto.
Qed.

Lemma in_upd {A} (l : list A) j x c : In c (upd l j x) -> c = x \/ In c l.
Proof.
  revert j; induction l as [|a l IH]; intros [|j]; simpl; auto.
  - intros [H|H]; auto.
  - intros [H|H]; auto. destruct (IH j H); auto.
Qed.

Lemma nth_upd_nat (l : list nat) i j x :
  nth j (upd l i x) O = if Nat.eqb i j then (if Nat.ltb i (length l) then x else O) else nth j l O.
Proof. apply nth_upd. Qed.

Lemma nth_In_or_zero (l : list nat) i : nth i l O = O \/ In (nth i l O) l.
Proof.
  destruct (Nat.ltb_spec i (length l)).
  - right. apply nth_In. assumption.
  - left. apply nth_overflow. assumption.
Qed.

Lemma nth_nth_error {A} (l : list A) i d x : nth_error l i = Some x -> nth i l d = x.
Proof. revert i; induction l; intros [|i]; simpl; intros; try discriminate; auto. congruence. Qed.

Lemma nth_error_nth' {A} (l : list A) i d : (i < length l)%nat -> nth_error l i = Some (nth i l d).
Proof. revert i; induction l; intros [|i]; simpl; intros; try lia; auto. apply IHl. lia. Qed.

Lemma nth_app_r_le {A} (l : list A) x i d : (i < length l)%nat -> nth i (l ++ [x]) d = nth i l d.
Proof. intros. apply app_nth1. assumption. Qed.

Lemma nth_error_app_l {A} (l l' : list A) i : (i < length l)%nat -> nth_error (l ++ l') i = nth_error l i.
Proof. intros. apply nth_error_app1. assumption. Qed.

(** sums of list of integers *)
Definition zsum (l : list Z) : Z := fold_right Z.add 0 l.

Lemma zsum_app l1 l2 : zsum (l1 ++ l2) = zsum l1 + zsum l2.
Proof. induction l1; simpl; [reflexivity|]. rewrite IHl1. ring. Qed.

Lemma zsum_map_upd {A} (f : A -> Z) (l : list A) t x y :
  nth_error l t = Some x -> zsum (map f (upd l t y)) = zsum (map f l) - f x + f y.
Proof.
  intros H. destruct (upd_split l t y x H) as (l1 & l2 & E1 & E2 & _).
  rewrite E2. rewrite E1. rewrite !map_app, !zsum_app. simpl. ring.
Qed.

Lemma zsum_map_ext_in {A} (f g : A -> Z) l : (forall a, In a l -> f a = g a) -> zsum (map f l) = zsum (map g l).
Proof. intros H. f_equal. apply map_ext_in. exact H. Qed.
