(** Striped adder, exact form of C09, part 1: what ONE step of an update call
    does to the heap, for updates of any sign.

    - shape: no array ever holds a cell twice ([ND]), non-empty slots never
      change and the table is never un-published ([SL]);
    - effect: a step that is a landing step ([a_commit_pc l s = Some (loc, x)])
      changes exactly the summand location [loc], from [v] to [vadd v x] (or
      creates it with value [x]); every other step changes no summand. *)
From Coq Require Import List Arith Bool ZArith Lia Permutation.
From Garr Require Import Conc.Conc Pure.F64 Adder.StripedModel Adder.AdderSpec Adder.StripedLib
  Adder.StripedInv Adder.StripedUpdate Adder.StripedSteps Adder.StripedCells Adder.StripedArrays
  Adder.StripedPres Adder.StripedProofs Adder.StripedLocal Adder.StripedMono Adder.SetDefs.
Import ListNotations.
Local Open Scope Z_scope.

(** ** shape *)
Definition SL (s s' : ashared) : Prop :=
  (forall a i c, nth_error (arr_of s a) i = Some c -> c <> O -> nth_error (arr_of s' a) i = Some c) /\
  (a_table s <> None -> a_table s' <> None).

Lemma SL_refl s : SL s s.
Proof. split; auto. Qed.

Lemma SL_trans s1 s2 s3 : SL s1 s2 -> SL s2 s3 -> SL s1 s3.
Proof. intros [A1 A2] [B1 B2]. split; auto. Qed.

Lemma sh_heq s s' : a_table s' = a_table s -> a_arrays s' = a_arrays s -> ND s -> ND s' /\ SL s s'.
Proof.
  intros Et Ea Hd. pose proof (arr_of_heq _ _ Ea) as Earo. split; [|split].
  - intros a. rewrite Earo. apply Hd.
  - intros a i c. rewrite Earo. auto.
  - rewrite Et. auto.
Qed.

Lemma sh_trans s1 s2 s3 : ND s2 /\ SL s1 s2 -> (ND s2 -> ND s3 /\ SL s2 s3) -> ND s3 /\ SL s1 s3.
Proof. intros [H1 H2] H. destruct (H H1) as [H3 H4]. split; [exact H3|eapply SL_trans; eauto]. Qed.

Lemma sh_set_slot s a j r :
  (a < length (a_arrays s))%nat -> nth_error (arr_of s a) j = Some O -> r <> O -> ~ In r (arr_of s a) ->
  ND s -> ND (set_slot s a j r) /\ SL s (set_slot s a j r).
Proof.
  intros Ha Hj Hr Hnin Hd. rewrite (set_slot_eq _ _ _ _ Ha).
  set (s' := AS _ _ _ _ _ _).
  assert (Haro : forall a', arr_of s' a' = if Nat.eqb a a' then upd (arr_of s a) j r else arr_of s a').
  { intros a'. unfold arr_of at 1. simpl. apply arr_of_upd. exact Ha. }
  destruct (filter_nz_upd_zero _ _ _ Hj Hr) as (l1 & l2 & E1 & E2).
  split; [|split].
  - intros a'. rewrite Haro. destruct (Nat.eqb_spec a a') as [<-|Hne]; [|apply Hd].
    rewrite E2. apply (Permutation_NoDup (Permutation_middle l1 l2 r)). constructor.
    + rewrite <- E1. intros Hin. apply in_filter_nz in Hin. tauto.
    + rewrite <- E1. apply Hd.
  - intros a' i c. rewrite Haro. destruct (Nat.eqb_spec a a') as [<-|Hne]; [|auto].
    intros Hi Hc. rewrite nth_error_upd_other; [exact Hi|]. intros <-. rewrite Hj in Hi. congruence.
  - auto.
Qed.

Lemma sh_new_array s k : ND s -> ND (snd (new_array s k)) /\ SL s (snd (new_array s k)).
Proof.
  intros Hd. destruct (new_array_facts s k) as (Haro & _ & _). split; [|split].
  - intros a. rewrite Haro. destruct (Nat.eqb_spec a (length (a_arrays s))); [|apply Hd].
    rewrite filter_nz_repeat. constructor.
  - intros a i c. rewrite Haro. destruct (Nat.eqb_spec a (length (a_arrays s))) as [->|Hne]; [|auto].
    unfold arr_of. rewrite nth_overflow by lia. destruct i; discriminate.
  - auto.
Qed.

Lemma sh_replace_zero s arr X :
  (arr < length (a_arrays s))%nat -> (forall c, In c (arr_of s arr) -> c = O) ->
  NoDup (filter nz X) -> ND s ->
  let s' := AS (a_base s) (a_busy s) (a_table s) (upd (a_arrays s) arr X) (a_cells s) (a_rnd s) in
  ND s' /\ SL s s'.
Proof.
  intros Ha Hz Hx Hd s'.
  assert (Haro : forall a', arr_of s' a' = if Nat.eqb arr a' then X else arr_of s a').
  { intros a'. unfold arr_of at 1. simpl. apply arr_of_upd. exact Ha. }
  split; [|split].
  - intros a'. rewrite Haro. destruct (Nat.eqb_spec arr a'); [exact Hx|apply Hd].
  - intros a' i c. rewrite Haro. destruct (Nat.eqb_spec arr a') as [<-|Hne]; [|auto].
    intros Hi Hc. apply nth_error_In in Hi. apply Hz in Hi. contradiction.
  - auto.
Qed.

Lemma sh_set_table s nt : ND s -> ND (set_table s (Some nt)) /\ SL s (set_table s (Some nt)).
Proof. intros Hd. split; [exact Hd|]. split; [auto|]. simpl. discriminate. Qed.

(** ** summands *)
Definition same_summands (s s' : ashared) : Prop := forall loc, summand s' loc = summand s loc.

(** the step from [s] to [s'] lands [x] on [loc] *)
Definition lands_eff (vadd : Z -> Z -> Z) (s s' : ashared) (loc : sloc) (x : Z) : Prop :=
  (forall loc', loc' <> loc -> summand s' loc' = summand s loc') /\
  match summand s loc with
  | Some v => summand s' loc = Some (vadd v x)
  | None => summand s' loc = Some x
  end.

Lemma summand_cell_in s c : In c (att s) -> summand s (LCell c) = get_cell s c.
Proof. intros H. simpl. destruct (in_dec Nat.eq_dec c (att s)); [reflexivity|contradiction]. Qed.

Lemma summand_cell_notin s c : ~ In c (att s) -> summand s (LCell c) = None.
Proof. intros H. simpl. destruct (in_dec Nat.eq_dec c (att s)); [contradiction|reflexivity]. Qed.

Lemma same_summands_gen s s' :
  a_base s' = a_base s -> (forall c, In c (att s') <-> In c (att s)) ->
  (forall c, In c (att s) -> get_cell s' c = get_cell s c) -> same_summands s s'.
Proof.
  intros Eb Ha Hc [|c]; simpl; [rewrite Eb; reflexivity|].
  destruct (in_dec Nat.eq_dec c (att s')) as [H|H], (in_dec Nat.eq_dec c (att s)) as [H'|H']; auto.
  - exfalso. apply H'. apply Ha. exact H.
  - exfalso. apply H. apply Ha. exact H'.
Qed.

Lemma same_summands_heq s s' :
  a_base s' = a_base s -> a_table s' = a_table s -> a_arrays s' = a_arrays s -> a_cells s' = a_cells s ->
  same_summands s s'.
Proof.
  intros Eb Et Ea Ec. apply same_summands_gen; [exact Eb| |].
  - intros c. rewrite (att_heq _ _ Et Ea). tauto.
  - intros c _. apply get_cell_heq. exact Ec.
Qed.

Lemma lands_base vadd s s' x :
  a_table s' = a_table s -> a_arrays s' = a_arrays s -> a_cells s' = a_cells s ->
  a_base s' = vadd (a_base s) x -> lands_eff vadd s s' LBase x.
Proof.
  intros Et Ea Ec Eb. split; [|simpl; rewrite Eb; reflexivity].
  intros [|c] Hne; [congruence|]. simpl. rewrite (att_heq _ _ Et Ea), (get_cell_heq _ _ Ec). reflexivity.
Qed.

Lemma lands_cell_cas vadd s c v x :
  In c (att s) -> get_cell s c = Some v -> lands_eff vadd s (set_cell s c (vadd v x)) (LCell c) x.
Proof.
  intros Hin Hg.
  assert (Eatt : att (set_cell s c (vadd v x)) = att s).
  { apply att_heq; destruct c; reflexivity. }
  split.
  - intros [|c'] Hne; simpl.
    + destruct c; reflexivity.
    + rewrite Eatt. destruct (in_dec Nat.eq_dec c' (att s)); [|reflexivity].
      rewrite get_cell_set_cell. destruct (Nat.eqb_spec c c'); [congruence|reflexivity].
  - rewrite (summand_cell_in s c Hin), Hg. rewrite summand_cell_in by (rewrite Eatt; exact Hin).
    rewrite get_cell_set_cell, Nat.eqb_refl, Hg. reflexivity.
Qed.

Lemma lands_attach vadd s s' r x :
  a_base s' = a_base s -> ~ In r (att s) -> (forall c, In c (att s') <-> c = r \/ In c (att s)) ->
  get_cell s' r = Some x -> (forall c, In c (att s) -> get_cell s' c = get_cell s c) ->
  lands_eff vadd s s' (LCell r) x.
Proof.
  intros Eb Hna Ha Hg Hc. split.
  - intros [|c] Hne; simpl; [rewrite Eb; reflexivity|].
    assert (Hcr : c <> r) by congruence.
    destruct (in_dec Nat.eq_dec c (att s')) as [H|H], (in_dec Nat.eq_dec c (att s)) as [H'|H']; auto.
    + apply Ha in H. destruct H; [contradiction|contradiction].
    + exfalso. apply H. apply Ha. auto.
  - rewrite (summand_cell_notin s r Hna). rewrite summand_cell_in by (apply Ha; auto). exact Hg.
Qed.

Lemma ss_cells_app nrm s s' v :
  Glob nrm s -> a_base s' = a_base s -> a_table s' = a_table s -> a_arrays s' = a_arrays s ->
  a_cells s' = a_cells s ++ [v] -> same_summands s s'.
Proof.
  intros G Eb Et Ea Ec. apply same_summands_gen; [exact Eb| |].
  - intros c. rewrite (att_heq _ _ Et Ea). tauto.
  - intros c Hc. pose proof (gl_valid G c Hc) as Hv. unfold get_cell. rewrite Ec.
    destruct c as [|i]; [reflexivity|]. apply nth_error_app1. lia.
Qed.

Lemma ss_set_cell_priv s r v : ~ In r (att s) -> same_summands s (set_cell s r v).
Proof.
  intros Hna. apply same_summands_gen.
  - destruct r; reflexivity.
  - intros c. rewrite (att_heq (set_cell s r v) s); [tauto| |]; destruct r; reflexivity.
  - intros c Hc. rewrite get_cell_set_cell. destruct (Nat.eqb_spec r c); [subst; contradiction|reflexivity].
Qed.

Lemma ss_new_array nrm s k : Glob nrm s -> same_summands s (snd (new_array s k)).
Proof.
  intros G. destruct (new_array_facts s k) as (_ & _ & Hatt).
  apply same_summands_gen; [reflexivity| |].
  - intros c. rewrite Hatt; [tauto|]. intros tab Ht. apply (gl_tab G _ Ht).
  - intros c _. reflexivity.
Qed.

Lemma ss_no_table s s' :
  a_base s' = a_base s -> a_table s = None -> a_table s' = None -> same_summands s s'.
Proof.
  intros Eb Et Et'. apply same_summands_gen; [exact Eb| |].
  - intros c. unfold att. rewrite Et, Et'. tauto.
  - intros c. unfold att. rewrite Et. intros [].
Qed.

Lemma ss_att_eq s s' :
  a_base s' = a_base s -> a_cells s' = a_cells s -> att s' = att s -> same_summands s s'.
Proof.
  intros Eb Ec Ea. apply same_summands_gen; [exact Eb| |].
  - intros c. rewrite Ea. tauto.
  - intros c _. apply get_cell_heq. exact Ec.
Qed.

Section Effect.
Variable nrm : Z -> Z.
Variable vadd : Z -> Z -> Z.
Variable f64 : bool.
Variable maxcells : Z.
Notation step := (astep vadd f64 maxcells).
Notation Glob := (Glob nrm).

Ltac brk :=
  repeat match goal with
  | |- context [take_rnd ?s] =>
      let H := fresh "Hrnd" in pose proof (take_rnd_shape s) as H; destruct (take_rnd s); simpl in H
  | |- context [enter_acc ?x ?i ?u ?s] =>
      let st := fresh "st" in let s1 := fresh "s1" in let E := fresh "Eacc" in let H := fresh "Hacc" in
      destruct (enter_acc_shape x i u s) as (st & s1 & E & H); rewrite E
  | |- context [match a_table ?s with _ => _ end] => destruct (a_table s) eqn:?
  | |- context [if ?b then _ else _] => destruct b eqn:?
  | |- context [match get_slot ?s ?a ?i with _ => _ end] => destruct (get_slot s a i) as [[|?]|] eqn:?
  | |- context [match get_cell ?s ?c with _ => _ end] => destruct (get_cell s c) eqn:?
  | |- context [match nth_error ?l ?c with _ => _ end] => destruct (nth_error l c) eqn:?
  end; cbn [fst snd goto fin rehash new_cell new_array].

Ltac heq_side :=
  first [ reflexivity
        | match goal with |- _ (set_cell ?s ?c ?v) = _ => destruct c; reflexivity end
        | simpl; intuition congruence ].

Lemma upd_shape x l s :
  Glob s -> ltok x l s -> (forall r, In r (owned l) -> ~ In r (att s)) -> ND s ->
  match step l s with
  | Next _ s' | Done _ _ s' => ND s' /\ SL s s'
  | _ => True
  end.
Proof.
  intros G Hk Hown Hd.
  destruct l; simpl in Hk; try contradiction; cbn [astep]; brk; auto.
  all: try (apply sh_heq; [heq_side|heq_side|exact Hd]; fail).
  - (* L8 *)
    destruct Hk as (Hr & Hg & Ht & Hj & Hlt).
    destruct (gl_tab G _ Ht) as [Ha _]. destruct (get_cell_valid _ _ _ Hg) as [Hr0 _].
    apply sh_set_slot; auto.
    intros Hin. apply (Hown r); [left; reflexivity|].
    unfold att. rewrite Ht. apply in_filter_nz. split; assumption.
  - (* L15: allocation *)
    apply (sh_new_array s (cap_of s (fst tab) * 4)). exact Hd.
  - (* Lcopy *)
    destruct Hk as (Hr & [n Ht] & Hft & Hlen & Harr & Hne & Hz).
    destruct (nth_error_arr_of _ _ _ Heqo) as [El _].
    apply sh_replace_zero; auto.
    + rewrite Hz. intros c Hc. apply repeat_spec in Hc. exact Hc.
    + rewrite filter_app.
      destruct (nth_error_arr_of _ _ _ Heqo0) as [El0 _]. rewrite <- El0, Hz, skipn_repeat, filter_nz_repeat, app_nil_r.
      rewrite <- El, Hlen, firstn_all. apply Hd.
  - (* L16 *) apply sh_set_table. exact Hd.
  - (* C4, f64 *)
    eapply sh_trans; [apply (sh_new_array s 4); exact Hd|].
    intros Hd1. apply sh_heq; [reflexivity|reflexivity|exact Hd1].
  - eapply sh_trans; [apply (sh_new_array s 4); exact Hd|].
    intros Hd1. apply sh_heq; [reflexivity|reflexivity|exact Hd1].
  - (* C5 *)
    destruct Hk as (Hr & Ht & Hz & Hg & Harr & Hlen).
    destruct (get_cell_valid _ _ _ Hg) as [Hr0 _].
    pose proof (land1_lt (r_index st)) as Hi.
    apply sh_set_slot; auto.
    + rewrite (nth_error_nth' _ _ O) by lia. f_equal.
      destruct (nth_In_or_zero (arr_of s arr) (Z.to_nat (Z.land (r_index st) 1))) as [E|E]; [exact E|].
      apply (Hz arr). exact E.
    + intros Hin. apply Hr0. apply (Hz arr). exact Hin.
  - (* C6 *) apply sh_set_table. exact Hd.
Qed.

Lemma upd_effect x l s :
  Glob s -> ltok x l s -> (forall r, In r (owned l) -> ~ In r (att s)) ->
  match step l s with
  | Next _ s' | Done _ _ s' =>
      match a_commit_pc l s with
      | Some (loc, y) => y = x /\ lands_eff vadd s s' loc x
      | None => same_summands s s'
      end
  | _ => True
  end.
Proof.
  intros G Hk Hown.
  destruct l; simpl in Hk; try contradiction; cbn [astep a_commit_pc]; brk; auto.
  all: try (apply same_summands_heq; heq_side; fail).
  - (* AddCasBase *)
    split; [exact Hk|]. subst x0.
    match goal with H : (a_base s =? _) = true |- _ => apply Z.eqb_eq in H; subst b end.
    apply lands_base; reflexivity.
  - (* AddCellCas *)
    destruct Hk as [-> Hin]. split; [reflexivity|].
    match goal with H : (?z0 =? v) = true |- _ => apply Z.eqb_eq in H; subst z0 end.
    apply lands_cell_cas; assumption.
  - (* L3, f64 *) eapply ss_cells_app; try reflexivity. exact G.
  - (* L3 *) eapply ss_cells_app; try reflexivity. exact G.
  - (* L3f *) apply ss_set_cell_priv. apply Hown. left. reflexivity.
  - (* L8 *)
    destruct Hk as (Hr & Hg & Ht & Hj & Hlt). split; [exact Hr|].
    assert (Hna : ~ In r (att s)) by (apply Hown; left; reflexivity).
    destruct (Glob_attach nrm _ _ _ _ G Ht Hj Hlt (get_cell_valid _ _ _ Hg) Hna) as (_ & (l1 & l2 & E1 & E2) & _).
    assert (Hf : a_base (set_slot s (fst rs) j r) = a_base s /\ a_cells (set_slot s (fst rs) j r) = a_cells s).
    { unfold set_slot. destruct (nth_error (a_arrays s) (fst rs)); simpl; auto. }
    destruct Hf as [Eb Ec].
    apply lands_attach; [exact Eb|exact Hna| | |].
    + intros c. rewrite E1, E2, !in_app_iff. simpl. intuition congruence.
    + rewrite (get_cell_heq _ _ Ec). exact Hg.
    + intros c _. apply get_cell_heq. exact Ec.
  - (* L11 *)
    destruct Hk as (Hr & Hin & _). split; [exact Hr|]. rewrite Hr.
    match goal with H : (?z0 =? v) = true |- _ => apply Z.eqb_eq in H; subst z0 end.
    apply lands_cell_cas; assumption.
  - destruct Hk as (Hr & Hin & _). split; [exact Hr|]. rewrite Hr.
    match goal with H : (?z0 =? v) = true |- _ => apply Z.eqb_eq in H; subst z0 end.
    apply lands_cell_cas; assumption.
  - (* L15: allocation *) apply (ss_new_array nrm s (cap_of s (fst tab) * 4)). exact G.
  - (* Lcopy *)
    destruct Hk as (Hr & [n Ht] & Hft & Hlen & Harr & Hne & Hz).
    apply ss_att_eq; try reflexivity.
    unfold att. cbn [a_table]. rewrite Ht. cbn [fst]. unfold arr_of. cbn [a_arrays].
    rewrite arr_of_upd by exact Harr. destruct (Nat.eqb_spec arr (fst tab)); [contradiction|reflexivity].
  - (* L16 *)
    destruct Hk as (Hr & Hnn & Hok & Hf & Htl). apply ss_att_eq; try reflexivity.
    unfold att at 1. cbn [set_table a_table]. exact Hf.
  - (* C4, f64 *) apply ss_no_table; auto.
  - apply ss_no_table; auto.
  - (* C4f *) apply ss_set_cell_priv. apply Hown. left. reflexivity.
  - (* C5 *)
    destruct Hk as (Hr & Ht & _). apply ss_no_table; auto.
    + unfold set_slot. destruct (nth_error (a_arrays s) arr); reflexivity.
    + unfold set_slot. destruct (nth_error (a_arrays s) arr); simpl; exact Ht.
  - (* C6 *)
    destruct Hk as (Hr & Ht & Harr & Hlen & Htl & Hoth & r & Hf & Hg). rewrite Hf.
    split; [exact Hr|]. apply lands_attach; [reflexivity| | |exact Hg|].
    + unfold att. rewrite Ht. intros [].
    + intros c. unfold att. cbn [set_table a_table fst]. rewrite Ht.
      change (arr_of (set_table s (Some (arr, 2%nat))) arr) with (arr_of s arr). rewrite Hf. simpl. intuition.
    + intros c _. reflexivity.
  - (* B2 *)
    split; [exact Hk|]. rewrite Hk.
    match goal with H : (a_base s =? _) = true |- _ => apply Z.eqb_eq in H; subst v end.
    apply lands_base; reflexivity.
Qed.

End Effect.
