(** Frame conditions and the generic "thread t moves" preservation lemma. *)
From Coq Require Import List Arith Bool ZArith Lia Permutation.
From Garr Require Import Conc.Conc Pure.F64 Adder.StripedModel Adder.AdderSpec Adder.StripedLib Adder.StripedInv.
Import ListNotations.
Local Open Scope Z_scope.

(** what another thread at pc [l] needs from a change [s -> s'] of the heap *)
Definition frame (l : apc) (s s' : ashared) : Prop :=
  (locked l = true -> a_table s' = a_table s /\ a_arrays s' = a_arrays s) /\
  (a_table s <> None -> a_table s' <> None) /\
  incl (att s) (att s') /\
  (forall tab, tab_ok s tab -> tab_ok s' tab) /\
  (length (a_cells s) <= length (a_cells s'))%nat /\
  (forall r, In r (owned l) -> get_cell s' r = get_cell s r) /\
  (locked l = true -> a_table s = None -> forall r v, get_cell s r = Some v -> get_cell s' r = Some v).

Lemma valid_cell_mono s s' r :
  (length (a_cells s) <= length (a_cells s'))%nat -> valid_cell s r -> valid_cell s' r.
Proof. unfold valid_cell. intros H [H1 H2]. split; [exact H1|lia]. Qed.

Lemma all_zero_heq s s' : a_arrays s' = a_arrays s -> all_zero s -> all_zero s'.
Proof. unfold all_zero, arr_of. intros ->. auto. Qed.

Lemma ltok_frame x l s s' : frame l s s' -> ltok x l s -> ltok x l s'.
Proof.
  intros (Hlk & Hnn & Hatt & Htok & Hlen & Hown & Hc6) H.
  destruct l; simpl in *; try exact H;
    try (specialize (Hlk eq_refl); destruct Hlk as [Etab Earr];
         pose proof (att_heq _ _ Etab Earr) as Eatt;
         pose proof (arr_of_heq _ _ Earr) as Earo;
         rewrite ?Etab, ?Earr, ?Eatt, ?Earo in *).
  all: repeat match goal with
       | H : _ /\ _ |- _ => destruct H
       | H : exists _, _ |- _ => destruct H
       | H : tab_ok _ _ |- _ => apply Htok in H
       end.
  all: repeat match goal with |- _ /\ _ => split end; eauto using valid_cell_mono, all_zero_heq;
       try (rewrite Hown by auto; assumption);
       try (rewrite ?Earo; assumption).
  all: try (eexists; split; [eassumption|apply Hc6; auto]).
  all: try (intros a0 c0 Hne0; rewrite Earo; eauto).
Qed.

Lemma thr_ok_frame th s s' :
  match t_cur th with Some (_, l) => frame l s s' | None => True end ->
  thr_ok th s -> thr_ok th s'.
Proof.
  unfold thr_ok. intros Hf (Hd & Hp & Hc). repeat split; auto.
  destruct (t_cur th) as [[o l]|]; [|exact I].
  destruct Hc as [Hu Hl]. split; [exact Hu|]. eapply ltok_frame; eauto.
Qed.

(** frames for the usual kinds of steps *)
Lemma frame_heq l s s' :
  a_table s' = a_table s -> a_arrays s' = a_arrays s -> a_cells s' = a_cells s -> frame l s s'.
Proof.
  intros Et Ea Ec. unfold frame. rewrite (att_heq _ _ Et Ea), Et, Ec.
  repeat split; auto using incl_refl.
  - unfold tab_ok, arr_of in *. rewrite Ea. tauto.
  - unfold tab_ok, arr_of in *. rewrite Ea. tauto.
  - intros. apply get_cell_heq; assumption.
  - intros ? ? r v. rewrite (get_cell_heq _ _ Ec). auto.
Qed.

Lemma frame_set_cell l s c v :
  ~ In c (owned l) -> (locked l = true -> a_table s = None -> False) -> frame l s (set_cell s c v).
Proof.
  intros Hn Hl.
  assert (Et : a_table (set_cell s c v) = a_table s) by (destruct c; reflexivity).
  assert (Ea : a_arrays (set_cell s c v) = a_arrays s) by (destruct c; reflexivity).
  unfold frame. rewrite (att_heq _ _ Et Ea), Et, Ea.
  repeat split; auto using incl_refl.
  - unfold tab_ok, arr_of in *. rewrite Ea. tauto.
  - unfold tab_ok, arr_of in *. rewrite Ea. tauto.
  - destruct c; simpl; [lia|]. rewrite upd_length. lia.
  - intros r Hr. rewrite get_cell_set_cell. destruct (Nat.eqb_spec c r); [subst; contradiction|reflexivity].
  - intros H1 H2. exfalso; auto.
Qed.

Lemma frame_cells_app l s s' v :
  a_table s' = a_table s -> a_arrays s' = a_arrays s -> a_cells s' = a_cells s ++ [v] ->
  (forall r, In r (owned l) -> (r <= length (a_cells s))%nat) -> frame l s s'.
Proof.
  intros Et Ea Ec Hv.
  assert (Hg : forall r, (r <= length (a_cells s))%nat -> get_cell s' r = get_cell s r).
  { intros r Hr. unfold get_cell. rewrite Ec. destruct r; [reflexivity|]. apply nth_error_app1. lia. }
  unfold frame. rewrite (att_heq _ _ Et Ea), Et, Ea.
  repeat split; auto using incl_refl.
  - unfold tab_ok, arr_of in *. rewrite Ea. tauto.
  - unfold tab_ok, arr_of in *. rewrite Ea. tauto.
  - rewrite Ec, app_length. lia.
  - intros _ _ r w Hr. rewrite Hg; [exact Hr|]. apply get_cell_valid in Hr. apply Hr.
Qed.

(** a change of arrays/table made by the holder of the flag, seen by a thread outside *)
Lemma frame_unlocked l s s' :
  locked l = false ->
  (length (a_cells s) <= length (a_cells s'))%nat ->
  (forall r, In r (owned l) -> get_cell s' r = get_cell s r) ->
  (a_table s <> None -> a_table s' <> None) ->
  incl (att s) (att s') ->
  (forall tab, tab_ok s tab -> tab_ok s' tab) ->
  frame l s s'.
Proof.
  intros Hl Hlen Hg Hn Hi Ht. unfold frame. rewrite Hl.
  repeat match goal with |- _ /\ _ => split end; auto; try discriminate.
Qed.

Section Update.
Variable nrm : Z -> Z.
Hypothesis nrm_add : forall a b, nrm (nrm a + b) = nrm (a + b).
Variable T : Z.

Lemma pending_upd thr t (th th' : athread) :
  nth_error thr t = Some th -> pending (upd thr t th') = pending thr - pend_th th + pend_th th'.
Proof. intros H. unfold pending. apply zsum_map_upd. exact H. Qed.

Lemma Inv_update (c : acfg) t th th' s' :
  Inv nrm T c -> nth_error (c_thr c) t = Some th ->
  Glob nrm s' ->
  thr_ok th' s' ->
  (forall t' th0, t' <> t -> nth_error (c_thr c) t' = Some th0 ->
     match t_cur th0 with Some (_, l) => frame l (c_sh c) s' | None => True end) ->
  (lockedth th' = true -> a_busy s' = 1) ->
  (a_busy (c_sh c) = 1 -> a_busy s' = 1 \/ lockedth th = true) ->
  (lockedth th' = true -> lockedth th = true \/ a_busy (c_sh c) = 0) ->
  (forall r, In r (ownedth th') ->
     valid_cell s' r /\ ~ In r (att s') /\ (In r (ownedth th) \/ (length (a_cells (c_sh c)) < r)%nat)) ->
  (forall t' th0 r, t' <> t -> nth_error (c_thr c) t' = Some th0 -> In r (ownedth th0) -> ~ In r (att s')) ->
  nrm (a_base s' + cellsum s' (att s') + pend_th th') =
    nrm (a_base (c_sh c) + cellsum (c_sh c) (att (c_sh c)) + pend_th th) ->
  Inv nrm T (Config s' (upd (c_thr c) t th')).
Proof.
  intros HI Hn Hglob Hok Hfr Hlk Hbusy Huq Hown Hoatt Hsum.
  assert (Hnth : forall t', nth_error (upd (c_thr c) t th') t' =
                            if Nat.eqb t t' then Some th' else nth_error (c_thr c) t').
  { intros t'. rewrite nth_error_upd, Hn. reflexivity. }
  constructor; simpl.
  - exact Hglob.
  - intros t' th0 H0. rewrite Hnth in H0. destruct (Nat.eqb_spec t t') as [<-|Hne].
    + injection H0 as <-. exact Hok.
    + eapply thr_ok_frame; [apply (Hfr t'); auto | apply (iv_thr HI _ _ H0)].
  - intros t' th0 H0 Hl. rewrite Hnth in H0. destruct (Nat.eqb_spec t t') as [<-|Hne].
    + injection H0 as <-. auto.
    + destruct (Hbusy (iv_lock HI _ _ H0 Hl)) as [E|E].
      * exact E.
      * exfalso. apply Hne. eapply (iv_uniq HI); eauto.
  - intros t1 t2 th1 th2 H1 H2 W1 W2. rewrite Hnth in H1, H2.
    destruct (Nat.eqb_spec t t1) as [<-|N1]; destruct (Nat.eqb_spec t t2) as [<-|N2].
    + reflexivity.
    + injection H1 as <-. destruct (Huq W1) as [W|F].
      * eapply (iv_uniq HI); eauto.
      * pose proof (iv_lock HI _ _ H2 W2). lia.
    + injection H2 as <-. destruct (Huq W2) as [W|F].
      * eapply (iv_uniq HI); eauto.
      * pose proof (iv_lock HI _ _ H1 W1). lia.
    + eapply (iv_uniq HI); eauto.
  - intros t1 th1 r H1 Hr. rewrite Hnth in H1. destruct (Nat.eqb_spec t t1) as [<-|N1].
    + injection H1 as <-. destruct (Hown r Hr) as (Hv & Ha & Hd). repeat split; try apply Hv; auto.
      intros t' th0 Hne H0. rewrite Hnth in H0. destruct (Nat.eqb_spec t t'); [congruence|].
      intros Hr0. destruct Hd as [Hd|Hd].
      * destruct (iv_own HI _ _ _ Hn Hd) as (_ & _ & Hx). eapply (Hx t'); eauto.
      * destruct (iv_own HI _ _ _ H0 Hr0) as ([_ Hle] & _). lia.
    + destruct (iv_own HI _ _ _ H1 Hr) as (Hv & Ha & Hd). repeat split.
      * apply Hv.
      * assert (Hf := Hfr t1 th1 (not_eq_sym N1) H1). unfold ownedth in Hr.
        destruct (t_cur th1) as [[o l]|]; [|contradiction].
        destruct Hf as (_ & _ & _ & _ & Hlen & _). destruct Hv. lia.
      * eapply Hoatt; eauto.
      * intros t' th0 Hne H0. rewrite Hnth in H0. destruct (Nat.eqb_spec t t') as [<-|N2].
        -- injection H0 as <-. intros Hr0. destruct (Hown r Hr0) as (_ & _ & [Hd'|Hd']).
           ++ eapply (Hd t); eauto.
           ++ destruct Hv. lia.
        -- eapply Hd; eauto.
  - rewrite (pending_upd _ _ _ _ Hn).
    replace (a_base s' + cellsum s' (att s') + (pending (c_thr c) - pend_th th + pend_th th'))
      with (a_base s' + cellsum s' (att s') + pend_th th' + (pending (c_thr c) - pend_th th)) by ring.
    rewrite (nrm_cong nrm nrm_add _ _ _ Hsum). rewrite <- (iv_sum HI). f_equal. ring.
Qed.

End Update.
