(** C16 for the two adder kinds, and what [Store] does to the invariant. *)
From Coq Require Import List Arith Bool ZArith Lia.
From Garr Require Import Conc.Conc Pure.F64 Adder.StripedModel Adder.AdderSpec Adder.StripedLib
  Adder.StripedInv Adder.StripedProofs Adder.StripedErase Adder.StripedLocal Adder.StripedPhase
  Adder.StripedSeq.
Import ListNotations.
Local Open Scope Z_scope.

(** ** [Store] breaks clause A3 of [Glob] (old arrays keep their cell ids) *)

Definition store_demo_start : ashared := AS 0 0 (Some (0, 2)%nat) [[1; 0; 0; 0]%nat] [5] [].

Definition store_demo_end : ashared :=
  c_sh (final (jdk_adder 8) (Config store_demo_start [mk_thread apc tt [Store 7]]) (repeat 0%nat 10)).

Example store_demo_end_eq :
  store_demo_end = AS 7 0 (Some (1, 2)%nat) [[1; 0; 0; 0]; [2; 3]]%nat [5; 0; 0] [].
Proof. vm_compute. reflexivity. Qed.

Lemma store_demo_start_Glob : Glob wrap64 store_demo_start.
Proof.
  constructor; simpl; auto.
  - intros tab E. injection E as <-. split; simpl; lia.
  - intros tab E. injection E as <-. intros i Hi. simpl in Hi. simpl.
    destruct i as [|[|[|[|[|i]]]]]; try lia; reflexivity.
  - intros _ a c. unfold arr_of. simpl. destruct a as [|[|a]]; simpl; intuition (subst; auto; try lia).
  - discriminate.
  - unfold att. simpl. constructor; [intros []|constructor].
  - unfold att. simpl. intros c [<-|[]]. lia.
Qed.

(** after a Store the old array still holds cell 1, which is not attached any more *)
Lemma store_breaks_Glob : ~ Glob wrap64 store_demo_end.
Proof.
  rewrite store_demo_end_eq. intros G.
  assert (H : In 1%nat (att (AS 7 0 (Some (1, 2)%nat) [[1; 0; 0; 0]; [2; 3]]%nat [5; 0; 0] []))).
  { apply (gl_slots G) with (a := 0%nat); simpl; [discriminate|auto|discriminate]. }
  unfold att in H. simpl in H. intuition discriminate.
Qed.

(** ... but the state is [Good]: erasing the dead array restores [Glob] *)
Lemma store_demo_end_Good : Good wrap64 store_demo_end.
Proof.
  pose proof (striped_sequential_number wrap64 wrap64_add_l wrap64_0 wadd (fun a b => eq_refl) false 8
                [Store 7] store_demo_start) as H.
  destruct H as [n Hn].
  - apply Glob_Good; [apply store_demo_start_Glob|]. intros tab E. injection E as <-. simpl. lia.
  - reflexivity.
  - constructor; [reflexivity|constructor].
  - specialize (Hn (n + 10)%nat ltac:(lia)).
    replace (n + 10)%nat with (10 + n)%nat in Hn by lia. rewrite repeat_app in Hn.
    unfold store_demo_end, final, jdk_adder.
    assert (E : forall (c : acfg) s1 s2, c_sh (fst (run (striped wadd false 8) c (s1 ++ s2))) =
                c_sh (fst (run (striped wadd false 8) (fst (run (striped wadd false 8) c s1)) s2))).
    { intros c s1 s2. rewrite run_app. reflexivity. }
    destruct (run (striped wadd false 8) (Config store_demo_start [mk_thread apc tt [Store 7]])
                (repeat 0%nat 10 ++ repeat 0%nat n)) as [c e] eqn:Er.
    destruct Hn as (_ & Hg & _).
    assert (Ec : c = fst (run (striped wadd false 8) (Config store_demo_start [mk_thread apc tt [Store 7]])
                (repeat 0%nat 10 ++ repeat 0%nat n))) by (rewrite Er; reflexivity).
    rewrite Ec, E in Hg.
    assert (Ed : fst (run (striped wadd false 8) (Config store_demo_start [mk_thread apc tt [Store 7]]) (repeat 0%nat 10))
                 = Config (AS 7 0 (Some (1, 2)%nat) [[1; 0; 0; 0]; [2; 3]]%nat [5; 0; 0] []) [Thread [] tt None false])
      by (vm_compute; reflexivity).
    rewrite Ed in Hg. unfold mk_thread in Hg. rewrite run_idle in Hg. simpl in Hg.
    rewrite Ed. exact Hg.
Qed.

(** ** the two adder kinds *)
Section C16.
Variable f64 : bool.
Variable maxcells : Z.

Theorem striped_sequential_number_wadd : forall ops s,
  Good wrap64 s -> a_busy s = 0 -> Forall (op_ok wrap64) ops ->
  exists n, forall m, (n <= m)%nat ->
    let '(c, e) := run (striped wadd f64 maxcells) (Config s [mk_thread apc tt ops]) (repeat 0%nat m) in
    rets e = snd (spec_run wadd (value wrap64 s) ops) /\
    Good wrap64 (c_sh c) /\ a_busy (c_sh c) = 0 /\
    value wrap64 (c_sh c) = fst (spec_run wadd (value wrap64 s) ops).
Proof.
  apply (striped_sequential_number wrap64 wrap64_add_l wrap64_0 wadd (fun a b => eq_refl) f64 maxcells).
Qed.

Theorem striped_sequential_number_exact : forall ops s,
  Good (fun z => z) s -> a_busy s = 0 ->
  exists n, forall m, (n <= m)%nat ->
    let '(c, e) := run (striped Z.add f64 maxcells) (Config s [mk_thread apc tt ops]) (repeat 0%nat m) in
    rets e = snd (spec_run Z.add (value (fun z => z) s) ops) /\
    Good (fun z => z) (c_sh c) /\ a_busy (c_sh c) = 0 /\
    value (fun z => z) (c_sh c) = fst (spec_run Z.add (value (fun z => z) s) ops).
Proof.
  intros ops s Hg Hb.
  apply (striped_sequential_number (fun z => z) (fun a b => eq_refl) eq_refl Z.add (fun a b => eq_refl)
           f64 maxcells ops s Hg Hb).
  apply Forall_forall. intros o _. destruct o; simpl; auto.
Qed.

Theorem striped_update_phase_wadd s0 progs sched :
  Good wrap64 s0 -> a_busy s0 = 0 -> updates_only progs ->
  let c := final (striped wadd f64 maxcells) (init apc s0 tt progs) sched in
  all_done c ->
  Good wrap64 (c_sh c) /\ a_busy (c_sh c) = 0 /\
  value wrap64 (c_sh c) = wadd (value wrap64 s0) (total progs).
Proof.
  apply (striped_update_phase wrap64 wrap64_add_l wadd (fun a b => eq_refl) f64 maxcells).
Qed.

Theorem striped_update_phase_exact s0 progs sched :
  Good (fun z => z) s0 -> a_busy s0 = 0 -> updates_only progs ->
  let c := final (striped Z.add f64 maxcells) (init apc s0 tt progs) sched in
  all_done c ->
  Good (fun z => z) (c_sh c) /\ a_busy (c_sh c) = 0 /\
  value (fun z => z) (c_sh c) = value (fun z => z) s0 + total progs.
Proof.
  apply (striped_update_phase (fun z => z) (fun a b => eq_refl) Z.add (fun a b => eq_refl) f64 maxcells).
Qed.

(** C16 for the int64 adders: any alternation of phases *)
Theorem striped_C16_wadd s v ops m c e :
  reach16 wrap64 wadd f64 maxcells s v -> Forall (op_ok wrap64) ops ->
  run (striped wadd f64 maxcells) (Config s [mk_thread apc tt ops]) (repeat 0%nat m) = (c, e) ->
  all_done c ->
  rets e = snd (spec_run wadd v ops).
Proof.
  apply (striped_C16 wrap64 wrap64_add_l wrap64_0 wadd (fun a b => eq_refl) f64 maxcells).
Qed.

Theorem striped_C16_exact s v ops m c e :
  reach16 (fun z => z) Z.add f64 maxcells s v ->
  run (striped Z.add f64 maxcells) (Config s [mk_thread apc tt ops]) (repeat 0%nat m) = (c, e) ->
  all_done c ->
  rets e = snd (spec_run Z.add v ops).
Proof.
  intros Hr. apply (striped_C16 (fun z => z) (fun a b => eq_refl) eq_refl Z.add (fun a b => eq_refl) f64 maxcells);
    [exact Hr|]. apply Forall_forall. intros o _. destruct o; simpl; auto.
Qed.

End C16.

Print Assumptions striped_sequential_number_wadd.
Print Assumptions striped_sequential_number_exact.
Print Assumptions striped_update_phase_wadd.
Print Assumptions striped_update_phase_exact.
Print Assumptions store_breaks_Glob.
Print Assumptions store_demo_end_Good.
Print Assumptions striped_C16_wadd.
Print Assumptions striped_C16_exact.
