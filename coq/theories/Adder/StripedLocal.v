(** Thread-local invariants of the striped adder that hold for ALL programs
    (updates, Sum, Store/Reset): array registers point at live arrays, table
    lengths are positive, and the spin flag is held by a thread at a locked pc. *)
From Coq Require Import List Arith Bool ZArith Lia.
From Garr Require Import Conc.Conc Pure.F64 Adder.StripedModel Adder.AdderSpec Adder.StripedLib
  Adder.StripedInv Adder.StripedErase Adder.StripedPres Adder.StripedProofs.
Import ListNotations.
Local Open Scope Z_scope.

Definition rinv (k : nat) (l : apc) : Prop :=
  match l with
  | AddSlot _ tab _ | L3 _ tab | L7 _ _ tab _ | L8 _ _ tab _ | S3 _ _ tab _ | S4 _ _ tab _ _ => (k <= fst tab)%nat
  | L2 _ tab | L10 _ tab _ | L11 _ tab _ _ | L12 _ tab | L13 _ tab | L14 _ tab | L15 _ tab | L16 _ tab =>
      (k <= fst tab)%nat /\ (0 < snd tab)%nat
  | Lcopy _ tab arr => (k <= fst tab)%nat /\ (k <= arr)%nat /\ (0 < snd tab)%nat
  | C4f _ arr _ | C5 _ arr _ | C6 _ arr => (k <= arr)%nat
  | T3 arr len _ _ | T4 arr len _ => (k <= arr)%nat /\ (0 < len)%nat
  | _ => True
  end.

Definition sinv (k : nat) (s : ashared) : Prop :=
  (k <= length (a_arrays s))%nat /\
  forall tab, a_table s = Some tab -> (k <= fst tab)%nat /\ (0 < snd tab)%nat.

Lemma rinv_ge k l : rinv k l -> regs_ge k l.
Proof. destruct l; simpl; tauto. Qed.

Lemma sinv_ge k s : sinv k s -> st_ge k s.
Proof. intros [H1 H2]. split; [exact H1|]. intros tab H. apply (H2 tab H). Qed.

Lemma sinv_eq k s s' :
  a_table s' = a_table s -> length (a_arrays s') = length (a_arrays s) -> sinv k s -> sinv k s'.
Proof. unfold sinv. intros -> ->. auto. Qed.

Lemma set_slot_shape s a i c :
  a_table (set_slot s a i c) = a_table s /\ length (a_arrays (set_slot s a i c)) = length (a_arrays s) /\
  a_busy (set_slot s a i c) = a_busy s.
Proof.
  unfold set_slot. destruct (nth_error (a_arrays s) a); simpl; auto. rewrite upd_length. auto.
Qed.

Lemma set_cell_shape s c v :
  a_table (set_cell s c v) = a_table s /\ a_arrays (set_cell s c v) = a_arrays s /\
  a_busy (set_cell s c v) = a_busy s.
Proof. destruct c; simpl; auto. Qed.

Lemma take_rnd_shape s :
  a_table (snd (take_rnd s)) = a_table s /\ a_arrays (snd (take_rnd s)) = a_arrays s /\
  a_busy (snd (take_rnd s)) = a_busy s /\ a_base (snd (take_rnd s)) = a_base s /\
  a_cells (snd (take_rnd s)) = a_cells s.
Proof. unfold take_rnd. destruct (a_rnd s); simpl; auto. Qed.

Lemma enter_acc_shape x i u s :
  exists st s1, enter_acc x i u s = Next (L1 st) s1 /\ r_x st = x /\
    a_table s1 = a_table s /\ a_arrays s1 = a_arrays s /\ a_busy s1 = a_busy s /\
    a_base s1 = a_base s /\ a_cells s1 = a_cells s.
Proof.
  unfold enter_acc. destruct (i =? 0).
  - pose proof (take_rnd_shape s) as H. destruct (take_rnd s) as [r s1]. simpl in H.
    eexists _, s1. split; [reflexivity|]. simpl. tauto.
  - eexists _, s. split; [reflexivity|]. simpl. tauto.
Qed.

Lemma sinv_arrs k s s' :
  a_table s' = a_table s -> (length (a_arrays s) <= length (a_arrays s'))%nat -> sinv k s -> sinv k s'.
Proof. unfold sinv. intros -> H [H1 H2]. split; [lia|exact H2]. Qed.

Lemma sinv_set_cell k s c v : sinv k s -> sinv k (set_cell s c v).
Proof.
  destruct (set_cell_shape s c v) as (E1 & E2 & _). apply sinv_arrs; [exact E1|rewrite E2; lia].
Qed.

Lemma sinv_set_slot k s a i c : sinv k s -> sinv k (set_slot s a i c).
Proof.
  destruct (set_slot_shape s a i c) as (E1 & E2 & _). apply sinv_arrs; [exact E1|rewrite E2; lia].
Qed.

Lemma sinv_table k s tb :
  sinv k s -> (k <= fst tb)%nat -> (0 < snd tb)%nat -> sinv k (set_table s (Some tb)).
Proof. intros [H1 _] H2 H3. split; [exact H1|]. simpl. intros tab E. injection E as <-. auto. Qed.

Section Local.
Variable vadd : Z -> Z -> Z.
Variable f64 : bool.
Variable maxcells : Z.
Notation step := (astep vadd f64 maxcells).
Notation M := (striped vadd f64 maxcells).

Ltac brk :=
  repeat match goal with
  | |- context [take_rnd ?s] =>
      let H := fresh "Hrnd" in pose proof (take_rnd_shape s) as H; destruct (take_rnd s); simpl in H
  | |- context [enter_acc ?x ?i ?u ?s] =>
      let st := fresh "st" in let s1 := fresh "s1" in let E := fresh "Eacc" in let H := fresh "Hacc" in
      destruct (enter_acc_shape x i u s) as (st & s1 & E & H); rewrite E
  | |- context [match a_table ?s with _ => _ end] => destruct (a_table s) eqn:?
  | |- context [if ?b then _ else _] => destruct b eqn:?
  | |- context [match get_slot ?s ?a ?i with _ => _ end] => destruct (get_slot s a i) as [[|?]|] eqn:?
  | |- context [match get_cell ?s ?c with _ => _ end] => destruct (get_cell s c) eqn:?
  | |- context [match nth_error ?l ?c with _ => _ end] => destruct (nth_error l c) eqn:?
  end; cbn [fst snd goto fin rehash new_cell new_array].

Lemma astep_rinv k l s :
  rinv k l -> sinv k s ->
  match step l s with
  | Next l' s' => rinv k l' /\ sinv k s'
  | Done _ _ s' => sinv k s'
  | _ => True
  end.
Proof.
  intros Hr Hs.
  destruct l; cbn [rinv] in Hr; cbn [astep]; try (destruct o); brk; cbn [rinv]; auto.
  all: try match goal with E : a_table ?s0 = Some ?p, Hs0 : sinv _ ?s0 |- _ => pose proof (proj2 Hs0 p E) as [? ?] end.
  all: pose proof (proj1 Hs) as Hk.
  all: try match goal with |- _ /\ sinv _ _ => split end.
  all: try match goal with
       | |- sinv _ (set_cell _ _ _) => apply sinv_set_cell; exact Hs
       | |- sinv _ (set_slot _ _ _ _) => apply sinv_set_slot
       | |- sinv _ (set_table _ _) => apply sinv_table; simpl; try tauto; try lia
       end.
  all: try match goal with
       | |- sinv _ _ => exact Hs
       | |- sinv _ _ => eapply sinv_arrs; [| |exact Hs]; simpl; rewrite ?app_length, ?upd_length; simpl;
                        intuition (try congruence; try lia);
                        repeat match goal with H : a_arrays _ = _ |- _ => rewrite H end; lia
       end.
  all: repeat match goal with H : (_ <? _)%nat = true |- _ => apply Nat.ltb_lt in H end.
  all: try (cbn [rinv fst snd]; intuition lia).
Qed.

(** how a step treats the spin flag *)
Lemma astep_busy l s :
  match step l s with
  | Next l' s' =>
      (a_busy s' = a_busy s /\ locked l' = locked l) \/
      (a_busy s = 0 /\ a_busy s' = 1 /\ locked l = false /\ locked l' = true) \/
      (locked l = true /\ a_busy s' = 0 /\ locked l' = false)
  | Done _ _ s' =>
      (a_busy s' = a_busy s /\ locked l = false) \/ (locked l = true /\ a_busy s' = 0)
  | _ => True
  end.
Proof.
  destruct l; cbn [astep]; try (destruct o); brk; cbn [locked]; auto.
  all: try (left; split; [|reflexivity]).
  all: try match goal with
       | |- a_busy (set_cell ?s ?c ?v) = _ => apply (set_cell_shape s c v)
       | |- a_busy (set_slot ?s ?a ?i ?c) = _ => apply (set_slot_shape s a i c)
       end.
  all: try (simpl; intuition congruence).
  all: right; left; apply Z.eqb_eq in Heqb; simpl; auto.
Qed.

(** ** configurations *)

Definition linv (k : nat) (c : acfg) : Prop :=
  sinv k (c_sh c) /\
  forall t th o l, nth_error (c_thr c) t = Some th -> t_cur th = Some (o, l) -> rinv k l.

Definition lockinv (c : acfg) : Prop :=
  has_dead c \/
  (a_busy (c_sh c) = 1 ->
   exists t th o l, nth_error (c_thr c) t = Some th /\ t_cur th = Some (o, l) /\ locked l = true).

Lemma nth_upd_cases {A} (l : list A) t x t' y :
  nth_error (upd l t x) t' = Some y -> (t' = t /\ y = x) \/ (t' <> t /\ nth_error l t' = Some y).
Proof.
  rewrite nth_error_upd. destruct (Nat.eqb_spec t t') as [<-|Hne].
  - destruct (nth_error l t); intros H; [injection H as <-; auto|discriminate].
  - auto.
Qed.

Lemma linv_step k (c : acfg) t c' e :
  linv k c -> step_thread M c t = Some (c', e) -> linv k c'.
Proof.
  intros [Hs Hr] H.
  destruct (step_after vadd f64 maxcells _ _ _ _ H) as (th & Hn & Hd & Ha).
  assert (Hgen : forall pr o l, rinv k l ->
            after c t th pr o (step l (c_sh c)) = Some c' -> linv k c').
  { intros pr o l Hl Hafter. pose proof (astep_rinv k l (c_sh c) Hl Hs) as Hst.
    unfold after in Hafter. destruct (step l (c_sh c)) as [l' s'|r ts' s'| |]; try discriminate;
      injection Hafter as <-; split; simpl; try tauto.
    - intros t' th' o' l0 Hn' Hc'. apply nth_upd_cases in Hn'. destruct Hn' as [[-> ->]|[_ Hn']].
      + simpl in Hc'. injection Hc' as <- <-. tauto.
      + eapply Hr; eauto.
    - intros t' th' o' l0 Hn' Hc'. apply nth_upd_cases in Hn'. destruct Hn' as [[-> ->]|[_ Hn']].
      + discriminate.
      + eapply Hr; eauto.
    - intros t' th' o' l0 Hn' Hc'. apply nth_upd_cases in Hn'. destruct Hn' as [[-> ->]|[_ Hn']].
      + discriminate.
      + eapply Hr; eauto. }
  destruct (t_cur th) as [[o l]|] eqn:Hcur.
  - eapply Hgen; [|exact Ha]. eapply Hr; eauto.
  - destruct Ha as (o & pr & _ & Ha). eapply Hgen; [|exact Ha]. exact I.
Qed.

Lemma linv_final k (c : acfg) sched : linv k c -> linv k (final M c sched).
Proof.
  intros H. apply invariant_run; [exact H|]. intros c0 t c' e H0 Hs. eapply linv_step; eauto.
Qed.

Lemma lockinv_step (c : acfg) t c' e :
  lockinv c -> step_thread M c t = Some (c', e) -> lockinv c'.
Proof.
  intros [Hdead|Hl] H.
  - left. eapply has_dead_step; eauto.
  - destruct (step_after vadd f64 maxcells _ _ _ _ H) as (th & Hn & Hd & Ha).
    assert (Hgen : forall pr o l, (t_cur th = Some (o, l) \/ (t_cur th = None /\ locked l = false)) ->
              after c t th pr o (step l (c_sh c)) = Some c' -> lockinv c').
    { intros pr o l Hcur Hafter. pose proof (astep_busy l (c_sh c)) as Hb.
      assert (Hoth : forall thr' s', a_busy s' = a_busy (c_sh c) ->
                (forall t', t' <> t -> nth_error thr' t' = nth_error (c_thr c) t') ->
                (locked l = true -> exists th' o' l', nth_error thr' t = Some th' /\ t_cur th' = Some (o', l') /\ locked l' = true) ->
                lockinv (Config s' thr')).
      { intros thr' s' Eb Hsame Hself. right. simpl. rewrite Eb. intros Hb1.
        destruct (Hl Hb1) as (t0 & th0 & o0 & l0 & Hn0 & Hc0 & Hl0).
        destruct (Nat.eq_dec t0 t) as [->|Hne].
        - rewrite Hn in Hn0. injection Hn0 as <-.
          destruct Hcur as [Hcur|[Hcur _]]; [|congruence].
          rewrite Hcur in Hc0. injection Hc0 as <- <-.
          destruct (Hself Hl0) as (th' & o' & l' & H1 & H2 & H3). exists t, th', o', l'. auto.
        - exists t0, th0, o0, l0. rewrite Hsame by exact Hne. auto. }
      assert (Hupd : forall x t', t' <> t -> nth_error (upd (c_thr c) t x) t' = nth_error (c_thr c) t').
      { intros x t' Hne. apply nth_error_upd_other. auto. }
      assert (Hlt : (t < length (c_thr c))%nat) by (apply nth_error_Some; congruence).
      unfold after in Hafter. destruct (step l (c_sh c)) as [l' s'|r ts' s'| |]; try discriminate;
        injection Hafter as <-.
      - destruct Hb as [[Eb El]|[(Eb0 & Eb1 & El & El')|(El & Eb & El')]].
        + apply Hoth; auto. intros Hll. eexists _, o, l'. rewrite nth_error_upd_same by exact Hlt.
          split; [reflexivity|]. simpl. split; [reflexivity|congruence].
        + right. simpl. intros _. eexists t, _, o, l'. rewrite nth_error_upd_same by exact Hlt.
          split; [reflexivity|]. simpl. auto.
        + right. simpl. intros E. lia.
      - destruct Hb as [[Eb El]|[El Eb]].
        + apply Hoth; auto. intros Hll. congruence.
        + right. simpl. intros E. lia.
      - left. eapply has_dead_upd. exact Hn. }
    destruct (t_cur th) as [[o l]|] eqn:Hcur.
    + eapply Hgen; [|exact Ha]. left. reflexivity.
    + destruct Ha as (o & pr & _ & Ha). eapply Hgen; [|exact Ha]. right. split; reflexivity.
Qed.

Lemma lockinv_final (c : acfg) sched : lockinv c -> lockinv (final M c sched).
Proof.
  intros H. apply invariant_run; [exact H|]. intros c0 t c' e H0 Hs. eapply lockinv_step; eauto.
Qed.

(** ** the simulation *)

Definition cerase (k : nat) (c : acfg) : acfg := Config (erase k (c_sh c)) (c_thr c).

Lemma step_thread_erase k (c : acfg) t :
  linv k c ->
  step_thread M (cerase k c) t =
  match step_thread M c t with Some (c', e) => Some (cerase k c', e) | None => None end.
Proof.
  intros [Hs Hr]. unfold step_thread. simpl c_thr.
  destruct (nth_error (c_thr c) t) as [th|] eqn:Hn; [|reflexivity].
  destruct (view M th) as [[[o l] fresh]|] eqn:Hv; [|reflexivity].
  assert (Hl : rinv k l).
  { unfold view in Hv. destruct (t_dead th); [discriminate|].
    destruct (t_cur th) as [[o0 l0]|] eqn:Hc.
    - injection Hv as <- <- <-. eapply Hr; eauto.
    - destruct (t_prog th); [discriminate|]. injection Hv as <- <- <-. exact I. }
  change (m_step M l (c_sh (cerase k c))) with (step l (erase k (c_sh c))).
  change (m_step M l (c_sh c)) with (step l (c_sh c)).
  rewrite (astep_erase vadd f64 maxcells k l (c_sh c) (rinv_ge _ _ Hl) (sinv_ge _ _ Hs)).
  destruct (step l (c_sh c)); reflexivity.
Qed.

Lemma run_erase k (c : acfg) sched :
  linv k c ->
  run M (cerase k c) sched = (cerase k (fst (run M c sched)), snd (run M c sched)).
Proof.
  revert c; induction sched as [|t sched IH]; intros c Hl; [reflexivity|].
  cbn [run]. unfold step_cfg, step_evs. rewrite (step_thread_erase k c t Hl).
  destruct (step_thread M c t) as [[c' e]|] eqn:Es.
  - rewrite (IH c') by (eapply linv_step; eauto). destruct (run M c' sched). reflexivity.
  - rewrite (IH c Hl). destruct (run M c sched). reflexivity.
Qed.

End Local.
