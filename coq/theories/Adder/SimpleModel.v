(** Hand-written step machines for the four simple adders:
    adder/randomCellAdder.go, atomicAdder.go, atomicF64Adder.go, mutexAdder.go.
    Same conventions as StripedModel.v (one step per sync access; the plain
    accesses of the mutex adder's critical section are silent steps). *)
From Coq Require Import List Arith Bool ZArith.
From Garr Require Import Conc.Conc Adder.StripedModel Queue.MutexModel.
Import ListNotations.
Local Open Scope Z_scope.

(** ** RandomCellAdder: [ncells] int64 cells, atomic add on a random one *)
Record rshared := RS { rc_cells : list Z; rc_rnd : list Z }.

Inductive rpc :=
| RInv (o : aop)
| RAdd (x : Z) (i : nat)
| RSumL (sum : Z) (i : nat)
| RResetL (i : nat)
| RSRLoad (sum : Z) (i : nat)
| RSRStore (sum : Z) (i : nat)
| RStoreL (v : Z) (i : nat).

Definition rout := outcome rshared unit rpc aret.

Definition rc_take (s : rshared) : Z * rshared :=
  match rc_rnd s with
  | [] => (0, s)
  | r :: rest => (Z.land r limit31, RS (rc_cells s) rest)
  end.

Definition rc_get (s : rshared) (i : nat) : Z := nth i (rc_cells s) 0.
Definition rc_set (s : rshared) (i : nat) (v : Z) : rshared := RS (upd (rc_cells s) i v) (rc_rnd s).

Definition rstep (l : rpc) (s : rshared) : rout :=
  let n := length (rc_cells s) in
  match l with
  | RInv (Add x) => let '(r, s') := rc_take s in Next (RAdd x (Z.to_nat (Z.land r (Z.of_nat n - 1)))) s'
  | RInv Inc => let '(r, s') := rc_take s in Next (RAdd 1 (Z.to_nat (Z.land r (Z.of_nat n - 1)))) s'
  | RInv Dec => let '(r, s') := rc_take s in Next (RAdd (-1) (Z.to_nat (Z.land r (Z.of_nat n - 1)))) s'
  | RInv Sum => Next (RSumL 0 0%nat) s
  | RInv Reset => Next (RResetL 0%nat) s
  | RInv SumAndReset => Next (RSRLoad 0 0%nat) s
  | RInv (Store v) => Next (RStoreL v 0%nat) s
  | RAdd x i => Done RU tt (rc_set s i (wadd (rc_get s i) x))
  | RSumL sum i =>
      let sum' := wadd sum (rc_get s i) in
      if Nat.ltb (S i) n then Next (RSumL sum' (S i)) s else Done (RZ sum') tt s
  | RResetL i =>
      if Nat.ltb (S i) n then Next (RResetL (S i)) (rc_set s i 0) else Done RU tt (rc_set s i 0)
  | RSRLoad sum i => Next (RSRStore (wadd sum (rc_get s i)) i) s
  | RSRStore sum i =>
      if Nat.ltb (S i) n then Next (RSRLoad sum (S i)) (rc_set s i 0) else Done (RZ sum) tt (rc_set s i 0)
  | RStoreL v i =>
      let s' := rc_set s i (if Nat.eqb i 0 then v else 0) in
      if Nat.ltb (S i) n then Next (RStoreL v (S i)) s' else Done RU tt s'
  end.

Definition rc_adder : machine rshared unit rpc aop aret :=
  Machine (fun _ o => RInv o) rstep (fun _ => false).
Definition rinit (ncells : nat) (rnd : list Z) : rshared := RS (repeat 0 ncells) rnd.

(** ** AtomicAdder (f64 = false: atomic add) and AtomicF64Adder (f64 = true: CAS loop) *)
Inductive tpc :=
| TInv (o : aop)
| TAdd (x : Z)
| TLoad (x : Z)            (* f64: old := Sum() *)
| TCas (x old : Z)
| TSum
| TSRLoad
| TStore (v : Z) (ret : aret).

Section Atomic.
Variable vadd : Z -> Z -> Z.
Variable f64 : bool.

Definition tstep (l : tpc) (s : Z) : outcome Z unit tpc aret :=
  let add x := if f64 then Next (TLoad x) s else Next (TAdd x) s in
  match l with
  | TInv (Add x) => add x
  | TInv Inc => add 1
  | TInv Dec => add (-1)
  | TInv Sum => Next TSum s
  | TInv Reset => Next (TStore 0 RU) s
  | TInv SumAndReset => Next TSRLoad s
  | TInv (Store v) => Next (TStore v RU) s
  | TAdd x => Done RU tt (vadd s x)
  | TLoad x => Next (TCas x s) s
  | TCas x old => if s =? old then Done RU tt (vadd old x) else Next (TLoad x) s
  | TSum => Done (RZ s) tt s
  | TSRLoad => Next (TStore 0 (RZ s)) s
  | TStore v ret => Done ret tt v
  end.

Definition atomic_machine : machine Z unit tpc aop aret :=
  Machine (fun _ o => TInv o) tstep (fun _ => false).
End Atomic.

Definition atomic_adder := atomic_machine wadd false.
Definition atomic_f64_adder := atomic_machine Z.add true.

(** ** MutexAdder *)
Record xshared := XS { x_lock : rw; x_val : Z }.

Inductive xpc :=
| XInv (o : aop)
| XLock (o : aop)
| XRead (o : aop)                (* plain read of value *)
| XWrite (o : aop) (snap : Z)    (* plain write computed from what was read *)
| XUnlock (w : bool) (r : aret).

Definition x_writer (o : aop) : bool := match o with Sum => false | _ => true end.

Definition xstep (l : xpc) (s : xshared) : outcome xshared unit xpc aret :=
  let lk := x_lock s in
  match l with
  | XInv o => Next (XLock o) s
  | XLock o =>
      if x_writer o then
        if rw_writer lk || negb (Nat.eqb (rw_readers lk) 0) then Blocked
        else Next (XRead o) (XS (RW true 0) (x_val s))
      else
        if rw_writer lk then Blocked
        else Next (XRead o) (XS (RW false (S (rw_readers lk))) (x_val s))
  | XRead o =>
      match o with
      | Sum => Next (XUnlock false (RZ (x_val s))) s
      | _ => Next (XWrite o (x_val s)) s
      end
  | XWrite o snap =>
      match o with
      | Add x => Next (XUnlock true RU) (XS lk (wadd snap x))
      | Inc => Next (XUnlock true RU) (XS lk (wadd snap 1))
      | Dec => Next (XUnlock true RU) (XS lk (wadd snap (-1)))
      | Sum => Fault
      | Reset => Next (XUnlock true RU) (XS lk 0)
      | SumAndReset => Next (XUnlock true (RZ snap)) (XS lk 0)
      | Store v => Next (XUnlock true RU) (XS lk v)
      end
  | XUnlock w r =>
      if w then Done r tt (XS (RW false (rw_readers lk)) (x_val s))
      else Done r tt (XS (RW (rw_writer lk) (pred (rw_readers lk))) (x_val s))
  end.

Definition mutex_adder : machine xshared unit xpc aop aret :=
  Machine (fun _ o => XInv o) xstep (fun l => match l with XRead _ | XWrite _ _ => true | _ => false end).
Definition xinit : xshared := XS (RW false 0) 0.
