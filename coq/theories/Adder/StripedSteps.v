(** Preservation lemmas, one per kind of step. *)
From Coq Require Import List Arith Bool ZArith Lia Permutation.
From Garr Require Import Conc.Conc Pure.F64 Adder.StripedModel Adder.AdderSpec Adder.StripedLib
  Adder.StripedInv Adder.StripedUpdate.
Import ListNotations.
Local Open Scope Z_scope.

Section Steps.
Variable nrm : Z -> Z.
Hypothesis nrm_add : forall a b, nrm (nrm a + b) = nrm (a + b).
Variable T : Z.

Notation Inv := (Inv nrm T).
Notation Glob := (Glob nrm).

Lemma Glob_heq s s' :
  Glob s ->
  a_table s' = a_table s -> a_arrays s' = a_arrays s ->
  (length (a_cells s) <= length (a_cells s'))%nat ->
  (a_busy s' = 0 \/ a_busy s' = 1) ->
  nrm (a_base s') = a_base s' ->
  (a_busy s' = 0 -> a_busy s = 0 \/ a_table s <> None) ->
  Glob s'.
Proof.
  intros G Et Ea Ec Hb Hbase Hz.
  pose proof (att_heq _ _ Et Ea) as Eatt. pose proof (arr_of_heq _ _ Ea) as Earo.
  constructor; rewrite ?Et, ?Eatt; try assumption.
  - intros tab H. destruct (gl_tab G tab H) as [H1 H2]. split; [rewrite Ea; exact H1|rewrite Earo; exact H2].
  - intros tab H. rewrite Earo. apply (gl_tail G tab H).
  - intros H a c. rewrite Earo. apply (gl_slots G H).
  - intros H Hb0. apply (all_zero_heq s); [exact Ea|]. destruct (Hz Hb0) as [Z|Z]; [|contradiction].
    apply (gl_zero G H Z).
  - apply (gl_nodup G).
  - intros c0 Hc0. pose proof (gl_valid G c0 Hc0). lia.
Qed.

(** other threads are not at a locked pc when [t] is *)
Lemma others_unlocked (c : acfg) t th t' th0 :
  Inv c -> nth_error (c_thr c) t = Some th -> lockedth th = true ->
  t' <> t -> nth_error (c_thr c) t' = Some th0 -> lockedth th0 = false.
Proof.
  intros HI Hn Hl Hne H0. destruct (lockedth th0) eqn:E; [|reflexivity].
  exfalso. apply Hne. eapply (iv_uniq HI); eauto.
Qed.

Lemma others_unlocked_busy0 (c : acfg) t' th0 :
  Inv c -> a_busy (c_sh c) = 0 -> nth_error (c_thr c) t' = Some th0 -> lockedth th0 = false.
Proof.
  intros HI Hb H0. destruct (lockedth th0) eqn:E; [|reflexivity].
  pose proof (iv_lock HI _ _ H0 E). lia.
Qed.

(** a step that leaves table, arrays and cells alone *)
Lemma Inv_heq (c : acfg) t th th' s' :
  Inv c -> nth_error (c_thr c) t = Some th ->
  a_table s' = a_table (c_sh c) -> a_arrays s' = a_arrays (c_sh c) -> a_cells s' = a_cells (c_sh c) ->
  (a_busy s' = 0 \/ a_busy s' = 1) ->
  nrm (a_base s') = a_base s' ->
  (a_busy s' = 0 -> a_busy (c_sh c) = 0 \/ a_table (c_sh c) <> None) ->
  thr_ok th' (c_sh c) ->
  (lockedth th' = true -> a_busy s' = 1) ->
  (a_busy (c_sh c) = 1 -> a_busy s' = 1 \/ lockedth th = true) ->
  (lockedth th' = true -> lockedth th = true \/ a_busy (c_sh c) = 0) ->
  incl (ownedth th') (ownedth th) ->
  (forall cs, nrm (a_base s' + cs + pend_th th') = nrm (a_base (c_sh c) + cs + pend_th th)) ->
  Inv (Config s' (upd (c_thr c) t th')).
Proof.
  intros HI Hn Et Ea Ec Hb Hbase Hz Hok Hlk Hbusy Huq Hown Hsum.
  pose proof (att_heq _ _ Et Ea) as Eatt.
  eapply Inv_update with (th := th); eauto.
  - eapply Glob_heq; eauto. apply (iv_glob HI). rewrite Ec. lia.
  - eapply thr_ok_frame; [|exact Hok]. destruct (t_cur th') as [[o l]|]; [|exact I].
    apply frame_heq; assumption.
  - intros t' th0 _ _. destruct (t_cur th0) as [[o l]|]; [|exact I]. apply frame_heq; assumption.
  - intros r Hr. apply Hown in Hr. destruct (iv_own HI _ _ _ Hn Hr) as (Hv & Ha & _).
    rewrite Eatt. split; [|split]; auto. destruct Hv as [H1 H2]. split; [exact H1|rewrite Ec; exact H2].
  - intros t' th0 r _ H0 Hr. rewrite Eatt. apply (iv_own HI _ _ _ H0 Hr).
  - rewrite Eatt, (cellsum_heq _ _ _ Ec). apply Hsum.
Qed.

(** fully quiet: base and busy unchanged too *)
Lemma Inv_Q (c : acfg) t th th' s' :
  Inv c -> nth_error (c_thr c) t = Some th ->
  a_base s' = a_base (c_sh c) -> a_busy s' = a_busy (c_sh c) ->
  a_table s' = a_table (c_sh c) -> a_arrays s' = a_arrays (c_sh c) -> a_cells s' = a_cells (c_sh c) ->
  thr_ok th' (c_sh c) ->
  lockedth th' = lockedth th ->
  incl (ownedth th') (ownedth th) ->
  pend_th th' = pend_th th ->
  Inv (Config s' (upd (c_thr c) t th')).
Proof.
  intros HI Hn Eb Ebu Et Ea Ec Hok Hl Hown Hp.
  pose proof (iv_glob HI) as G.
  apply Inv_heq with (th := th); try assumption.
  - rewrite Ebu. apply (gl_busy G).
  - rewrite Eb. apply (gl_base G).
  - rewrite Ebu. auto.
  - rewrite Hl, Ebu. intros H. eapply (iv_lock HI); eauto.
  - rewrite Ebu. auto.
  - rewrite Hl. auto.
  - intros cs. rewrite Eb, Hp. reflexivity.
Qed.

(** taking the flag *)
Lemma Inv_acquire (c : acfg) t th th' :
  Inv c -> nth_error (c_thr c) t = Some th ->
  a_busy (c_sh c) = 0 ->
  thr_ok th' (c_sh c) ->
  incl (ownedth th') (ownedth th) ->
  pend_th th' = pend_th th ->
  Inv (Config (set_busy (c_sh c) 1) (upd (c_thr c) t th')).
Proof.
  intros HI Hn Hb Hok Hown Hp.
  pose proof (iv_glob HI) as G.
  apply Inv_heq with (th := th); try assumption; simpl; auto.
  - apply (gl_base G).
  - intros cs. rewrite Hp. reflexivity.
Qed.

(** releasing the flag *)
Lemma Inv_release (c : acfg) t th th' :
  Inv c -> nth_error (c_thr c) t = Some th ->
  lockedth th = true -> lockedth th' = false ->
  a_table (c_sh c) <> None ->
  thr_ok th' (c_sh c) ->
  incl (ownedth th') (ownedth th) ->
  pend_th th' = pend_th th ->
  Inv (Config (set_busy (c_sh c) 0) (upd (c_thr c) t th')).
Proof.
  intros HI Hn Hl Hl' Ht Hok Hown Hp.
  pose proof (iv_glob HI) as G.
  apply Inv_heq with (th := th); try assumption; simpl; auto.
  - apply (gl_base G).
  - rewrite Hl'. discriminate.
  - intros cs. rewrite Hp. reflexivity.
Qed.

(** a successful CAS on the base *)
Lemma Inv_base (c : acfg) t th th' x :
  Inv c -> nth_error (c_thr c) t = Some th ->
  lockedth th = false -> lockedth th' = false ->
  thr_ok th' (c_sh c) ->
  incl (ownedth th') (ownedth th) ->
  pend_th th' = pend_th th - x ->
  Inv (Config (set_base (c_sh c) (nrm (a_base (c_sh c) + x))) (upd (c_thr c) t th')).
Proof.
  intros HI Hn Hl Hl' Hok Hown Hp.
  pose proof (iv_glob HI) as G.
  apply Inv_heq with (th := th); try assumption; simpl; auto.
  - apply (gl_busy G).
  - apply (nrm_idem nrm nrm_add).
  - rewrite Hl'. discriminate.
  - rewrite Hl'. discriminate.
  - intros cs. rewrite Hp.
    replace (nrm (a_base (c_sh c) + x) + cs + (pend_th th - x))
      with (nrm (a_base (c_sh c) + x) + (cs + pend_th th - x)) by ring.
    rewrite nrm_add. f_equal. ring.
Qed.

End Steps.
