(** Concrete runs with updates of mixed sign: the hypotheses of the theorems of
    SetForm.v are satisfiable, and the set K of landing steps can be read off. *)
From Coq Require Import List Arith Bool ZArith Lia.
From Garr Require Import Conc.Conc Pure.F64 Breaker.ConcBase Adder.StripedModel Adder.SimpleModel
     Adder.AdderSpec Adder.SetDefs Adder.SetBase Properties.C09Set.
Import ListNotations.
Local Open Scope Z_scope.

Ltac in_cases H := repeat (destruct H as [H|H]; [subst|]); try contradiction.
(* conjunctions of closed equations, each checked by the virtual machine *)
Ltac vm_conj := repeat match goal with |- _ /\ _ => split end; try (vm_compute; reflexivity).

(** ** RandomCellAdder, 2 cells: thread 0 adds 5 then -3, thread 2 decrements, thread 1 sums *)
Definition rprogs : list (list aop) := [[Add 5; Add (-3)]; [Sum]; [Dec]].
Definition rsched : list nat := [0; 0; 1; 0; 1; 2; 2; 0; 1; 1]%nat.
Notation rc0 := (init rpc (rinit 2 [0; 1; 1]) tt rprogs).
Notation rlog := (steps_of rc_adder rc0 rsched).

Example rprogs_mixed : mixed_progs rprogs.
Proof.
  intros p o Hp Ho. unfold rprogs in Hp. in_cases Hp; in_cases Ho; unfold mixed_op; simpl; auto.
Qed.

(** the Sum of thread 1 is invoked at position 2 and returns 1 at position 8 *)
Example r_sum_invoked : invoked_at rlog 2 1 Sum [].
Proof.
  exists (cfg_at rc_adder rc0 rsched 2), (mk_thread rpc tt [Sum]). vm_conj.
Qed.

Example r_sum_returns : returns_at rc_adder rlog 8 1 Sum [] (RZ 1).
Proof.
  exists (cfg_at rc_adder rc0 rsched 8), (Thread [] tt (Some (Sum, RSumL 5 1)) false),
         (cfg_at rc_adder rc0 rsched 9), [ERet 1%nat Sum (RZ 1)].
  vm_conj. left. reflexivity.
Qed.

(** the landing steps of the run: +5 on cell 0 (position 1), -1 and -3 on cell 1 (positions 6, 7) *)
Example r_landings :
  map (landing rc_commit rlog) (seq 0 9) =
  [None; Some (0%nat, 5); None; None; None; None; Some (1%nat, -1); Some (1%nat, -3); None].
Proof. vm_compute. reflexivity. Qed.

(** Add 5 returned before the Sum was invoked; Dec and Add (-3) ran concurrently with the Sum and
    both were seen: 1 = 5 - 1 - 3, K = {1, 6, 7} *)
Example r_sum_K : wrap64 (asum rc_commit rlog [1; 6; 7]%nat) = 1.
Proof. vm_compute. reflexivity. Qed.

(** the negative update Add (-3) of thread 0: invoked at 3, returned at 7 = its landing step *)
Example r_add_neg_invoked : invoked_at rlog 3 0 (Add (-3)) [].
Proof.
  exists (cfg_at rc_adder rc0 rsched 3), (mk_thread rpc tt [Add (-3)]). vm_conj.
Qed.

Example r_add_neg_returns : returns_at rc_adder rlog 7 0 (Add (-3)) [] RU.
Proof.
  exists (cfg_at rc_adder rc0 rsched 7), (Thread [] tt (Some (Add (-3), RAdd (-3) 1)) false),
         (cfg_at rc_adder rc0 rsched 8), [ERet 0%nat (Add (-3)) RU].
  vm_conj. left. reflexivity.
Qed.

(** the theorems apply *)
Example r_theorem_applies :
  exists K : list nat,
    NoDup K /\
    (forall k, In k K -> (k < 8)%nat /\ landing rc_commit rlog k <> None) /\
    (forall k, (k < 2)%nat -> landing rc_commit rlog k <> None -> In k K) /\
    1 = wrap64 (asum rc_commit rlog K).
Proof.
  apply (C09set_rc_sum_is_set_of_whole_updates 2 [0; 1; 1] rprogs rsched ltac:(lia) rprogs_mixed 2 8 1 [] 1
           r_sum_invoked r_sum_returns ltac:(lia)).
Qed.

(** ** JDKAdder (int64) and JDKF64Adder: base contention, creation of the table while the Sum runs *)
Definition sprogs : list (list aop) := [[Add 5; Add (-3)]; [Sum]; [Dec; Add (-7)]].
Definition ssched : list nat :=
  [0;0;0;0;0;2;2;2;0;0;2;2;2;2;2;2;2;2;2;2;2;2;2;1;1;0;0;0;0;0;0;0;0;0;0;0;1;2;2;2;2;2;2;2;2;2;1;1;1;1;1;1;1;1]%nat.
Definition srnd : list Z := [3; 5; 6; 1; 2].

Example sprogs_mixed : mixed_progs sprogs.
Proof.
  intros p o Hp Ho. unfold sprogs in Hp. in_cases Hp; in_cases Ho; unfold mixed_op; simpl; auto.
Qed.

Notation MW := (striped wadd false 8).
Notation sc0 := (init apc (ainit srnd) tt sprogs).
Notation slog := (steps_of MW sc0 ssched).

(** landing steps: +5, -1, -7 on base (CAS), then -3 as the initial value of cell 1, attached
    (published with the first table) at position 24, while the Sum is in flight *)
Example s_landings :
  filter (fun k => match landing a_commit slog k with Some _ => true | None => false end) (seq 0 30) = [3; 10; 14; 24]%nat /\
  map (amount a_commit slog) [3; 10; 14; 24]%nat = [5; -1; -7; -3] /\
  landing a_commit slog 24 = Some (LCell 1, -3).
Proof. vm_compute. auto. Qed.

(** the Sum of thread 1: invoked at 15, reads base = -3 at 16, returns -6 at 29 *)
Example s_sum_invoked : invoked_at slog 15 1 Sum [].
Proof.
  exists (cfg_at MW sc0 ssched 15), (mk_thread apc tt [Sum]). vm_conj.
Qed.

Example s_sum_returns : returns_at MW slog 29 1 Sum [] (RZ (-6)).
Proof.
  exists (cfg_at MW sc0 ssched 29), (Thread [] tt (Some (Sum, S4 None (-3) (0, 2)%nat 1 1)) false),
         (cfg_at MW sc0 ssched 30), [ERet 1%nat Sum (RZ (-6))].
  vm_conj. left. reflexivity.
Qed.

Example s_sum_K : wrap64 (asum a_commit slog [3; 10; 14; 24]%nat) = -6.
Proof. vm_compute. reflexivity. Qed.

(** the negative update Add (-3) of thread 0: invoked at 4, lands at 24, returns at 25 *)
Example s_add_neg_invoked : invoked_at slog 4 0 (Add (-3)) [].
Proof.
  exists (cfg_at MW sc0 ssched 4), (mk_thread apc tt [Add (-3)]). vm_conj.
Qed.

Example s_add_neg_returns : returns_at MW slog 25 0 (Add (-3)) [] RU.
Proof.
  exists (cfg_at MW sc0 ssched 25), (nth 0 (c_thr (cfg_at MW sc0 ssched 25)) (mk_thread apc tt [])),
         (cfg_at MW sc0 ssched 26), [ERet 0%nat (Add (-3)) RU].
  vm_conj. left. reflexivity.
Qed.

Example s_theorem_applies :
  exists K : list nat,
    NoDup K /\
    (forall k, In k K -> (k < 29)%nat /\ landing a_commit slog k <> None) /\
    (forall k, (k < 15)%nat -> landing a_commit slog k <> None -> In k K) /\
    -6 = wrap64 (asum a_commit slog K).
Proof.
  apply (C09set_jdk_sum_is_set_of_whole_updates false 8 srnd sprogs ssched sprogs_mixed 15 29 1 [] (-6)
           s_sum_invoked s_sum_returns ltac:(lia)).
Qed.

Example s_update_theorem_applies :
  exists k loc,
    (4 <= k <= 25)%nat /\ step_of slog k 0 /\ landing a_commit slog k = Some (loc, -3) /\
    forall k', (4 <= k' <= 25)%nat -> step_of slog k' 0 -> landing a_commit slog k' <> None -> k' = k.
Proof.
  apply (C09set_jdk_update_lands_once false 8 srnd sprogs ssched sprogs_mixed 4 25 0 (Add (-3)) [] RU eq_refl
           s_add_neg_invoked s_add_neg_returns ltac:(lia)).
Qed.

(** the same schedule on the float adder (exact addition; the new cell is created with 0 and then set) *)
Notation MF := (striped Z.add true 8).
Notation flog := (steps_of MF sc0 ssched).

Example f_sum_invoked : invoked_at flog 15 1 Sum [].
Proof.
  exists (cfg_at MF sc0 ssched 15), (mk_thread apc tt [Sum]). vm_conj.
Qed.

Example f_sum_returns : returns_at MF flog 30 1 Sum [] (RZ (-6)).
Proof.
  exists (cfg_at MF sc0 ssched 30), (nth 1 (c_thr (cfg_at MF sc0 ssched 30)) (mk_thread apc tt [])),
         (cfg_at MF sc0 ssched 31), [ERet 1%nat Sum (RZ (-6))].
  vm_conj. left. reflexivity.
Qed.

Example f_landings :
  filter (fun k => match landing a_commit flog k with Some _ => true | None => false end) (seq 0 31) = [3; 10; 14; 25]%nat /\
  asum a_commit flog [3; 10; 14; 25]%nat = -6.
Proof. vm_compute. auto. Qed.

Example f_theorem_applies :
  exists K : list nat,
    NoDup K /\
    (forall k, In k K -> (k < 30)%nat /\ landing a_commit flog k <> None) /\
    (forall k, (k < 15)%nat -> landing a_commit flog k <> None -> In k K) /\
    -6 = asum a_commit flog K.
Proof.
  apply (C09set_jdk_f64_sum_is_set_of_whole_updates true 8 srnd sprogs ssched sprogs_mixed 15 30 1 [] (-6)
           f_sum_invoked f_sum_returns ltac:(lia)).
Qed.
