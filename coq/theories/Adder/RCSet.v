(** RandomCellAdder: the exact "set of whole updates" form of C09, for updates
    of any sign and totals of any size (wrap-around arithmetic).

    Per-cell histories: the value of cell [i] before log position [p] is the
    wrapped sum of the amounts of the landing steps [k < p] on cell [i]
    ([rc_hist_inv]).  The scan of a Sum reads cell [i] exactly once, at some
    position [p_i] between its invocation and its return, so what it returns is
    the wrapped sum of the amounts of K = U_i { k < p_i | k lands on cell i }. *)
From Coq Require Import List Arith Bool ZArith Lia.
From Garr Require Import Conc.Conc Pure.F64 Breaker.ConcBase Adder.StripedModel Adder.SimpleModel
     Adder.AdderSpec Adder.SimpleRC Adder.SetDefs Adder.SetBase.
Import ListNotations.
Local Open Scope Z_scope.

Lemma wrap64_add_wrap_l a b : wrap64 (wrap64 a + b) = wrap64 (a + b).
Proof. apply wrap64_wrap64_add. Qed.

Lemma wrap64_add_wrap_r a b : wrap64 (a + wrap64 b) = wrap64 (a + b).
Proof. rewrite Z.add_comm, wrap64_wrap64_add. f_equal. lia. Qed.

Lemma wrap64_zero : wrap64 0 = 0.
Proof. reflexivity. Qed.

Lemma nth_repeat_zero i n : nth i (repeat 0 n) 0 = 0.
Proof. revert i; induction n as [|n IH]; intros [|i]; simpl; auto. Qed.

(** ** shape of the reachable configurations of mixed programs *)
Definition rc_pc_ok (n : nat) (th : rthread) : Prop :=
  t_dead th = false /\
  (forall o, In o (t_prog th) -> mixed_op o) /\
  match t_cur th with
  | None => True
  | Some (o, RAdd x i) => is_update o = true /\ x = delta o /\ (i < n)%nat
  | Some (o, RSumL _ i) => o = Sum /\ (i < n)%nat
  | _ => False
  end.

Definition RCI (n : nat) (c : rccfg) : Prop :=
  length (rc_cells (c_sh c)) = n /\
  forall t th, nth_error (c_thr c) t = Some th -> rc_pc_ok n th.

Lemma rstep_start_not_done (tsx : unit) ox s rx (tsx' : unit) s' :
  m_step rc_adder (m_start rc_adder tsx ox) s <> Done rx tsx' s'.
Proof.
  change (rstep (RInv ox) s <> Done rx tsx' s').
  destruct ox; cbn [rstep]; try destruct (rc_take s); discriminate.
Qed.

(** what a step does: either it is the fetch-and-add of an update call (and
    returns), or it leaves the cells alone *)
Lemma rc_step_cases n (c : rccfg) t c' e :
  (0 < n)%nat -> RCI n c -> step_thread rc_adder c t = Some (c', e) ->
  RCI n c' /\
  ((exists th o x i, nth_error (c_thr c) t = Some th /\ t_cur th = Some (o, RAdd x i) /\
       is_update o = true /\ x = delta o /\ (i < n)%nat /\ rc_commit c t = Some (i, x) /\
       rc_cells (c_sh c') = upd (rc_cells (c_sh c)) i (wadd (nth i (rc_cells (c_sh c)) 0) x))
   \/ (rc_commit c t = None /\ rc_cells (c_sh c') = rc_cells (c_sh c))).
Proof.
  intros Hn [Hlen Hthr] Hs.
  destruct (step_thread_inv _ _ _ _ _ Hs) as (th & o & l & pr & Hnth & Hd & Hc & Haft & _).
  destruct (Hthr _ _ Hnth) as (_ & Hprog & Hcur).
  assert (Hupd : forall s' th', length (rc_cells s') = n -> rc_pc_ok n th' ->
            RCI n (Config s' (upd (c_thr c) t th'))).
  { intros s' th' Hl Hok. split; [exact Hl|]. intros t' th0 H0. cbn [c_thr] in H0.
    rewrite nth_error_upd, Hnth in H0. destruct (Nat.eqb t t'); [injection H0 as <-; exact Hok|].
    apply (Hthr _ _ H0). }
  assert (Hcm : rc_commit c t = match t_cur th with Some (_, RAdd x i) => Some (i, x) | _ => None end).
  { unfold rc_commit. rewrite Hnth. reflexivity. }
  change (m_step rc_adder) with rstep in Haft.
  destruct Hc as [[Hc ->]|(Hc & Hp & ->)]; rewrite Hc in Hcur, Hcm.
  - destruct l as [o'|x i|sum i| | | |]; try contradiction.
    + (* RAdd *)
      destruct Hcur as (Hu & Hx & Hi). cbn [rstep after_step] in Haft. injection Haft as <-.
      split.
      * apply Hupd; [cbn [rc_set rc_cells]; rewrite upd_length; exact Hlen|].
        split; [reflexivity|]. split; [exact Hprog|exact I].
      * left. exists th, o, x, i. repeat split; auto.
    + (* RSumL *)
      destruct Hcur as (Ho & Hi). cbn [rstep] in Haft. rewrite Hlen in Haft.
      destruct (Nat.ltb_spec (S i) n) as [Hlt|Hge]; cbn [after_step] in Haft; injection Haft as <-.
      * split; [|right; auto]. apply Hupd; [exact Hlen|]. split; [reflexivity|]. split; [exact Hprog|].
        cbn [t_cur]. auto.
      * split; [|right; auto]. apply Hupd; [exact Hlen|]. split; [reflexivity|]. split; [exact Hprog|exact I].
  - (* invocation *)
    assert (Hpr : forall o', In o' pr -> mixed_op o').
    { intros o' Ho'. apply Hprog. rewrite Hp. right. exact Ho'. }
    change (m_start rc_adder (t_ts th) o) with (RInv o) in Haft.
    destruct (Hprog o) as [Hu|Hu]; [rewrite Hp; left; reflexivity| |].
    + destruct (rstep_inv o (c_sh c) Hu) as (r & s' & Et & Ecells & Est). rewrite Est in Haft.
      cbn [after_step] in Haft. injection Haft as <-. cbn [c_sh]. split; [|right; auto].
      apply Hupd; [rewrite Ecells; exact Hlen|]. split; [reflexivity|]. split; [exact Hpr|].
      cbn [t_cur]. split; [exact Hu|]. split; [reflexivity|]. rewrite Hlen. apply idx_lt. exact Hn.
    + subst o. cbn [rstep after_step] in Haft. injection Haft as <-. cbn [c_sh]. split; [|right; auto].
      apply Hupd; [exact Hlen|]. split; [reflexivity|]. split; [exact Hpr|]. cbn [t_cur]. auto.
Qed.

Lemma RCI_init n rnd progs : mixed_progs progs -> RCI n (init rpc (rinit n rnd) tt progs).
Proof.
  intros Hm. split; [apply repeat_length|]. intros t th H. cbn [init c_thr] in H.
  apply nth_error_In in H. apply in_map_iff in H. destruct H as (p & <- & Hp).
  split; [reflexivity|]. split; [|exact I]. intros o Ho. apply (Hm p o Hp Ho).
Qed.

Lemma RCI_final n rnd progs sched : (0 < n)%nat -> mixed_progs progs ->
  RCI n (final rc_adder (init rpc (rinit n rnd) tt progs) sched).
Proof.
  intros Hn Hm. apply invariant_run; [apply RCI_init; exact Hm|].
  intros c t c' e HI Hs. apply (rc_step_cases n c t c' e Hn HI Hs).
Qed.

Section RCSet.
Variable n : nat.
Hypothesis n_pos : (0 < n)%nat.
Variable rnd : list Z.
Variable progs : list (list aop).
Hypothesis progs_mixed : mixed_progs progs.
Variable sched : list nat.

Notation c0 := (init rpc (rinit n rnd) tt progs).
Notation log := (steps_of rc_adder c0 sched).
Notation cat := (cfg_at rc_adder c0 sched).
Notation lnd := (landing rc_commit log).
Notation amt := (amount rc_commit log).
Notation hst := (hist Nat.eqb rc_commit log).
Notation sm := (asum rc_commit log).

Lemma RCI_log p cp tp : nth_error log p = Some (cp, tp) -> RCI n cp.
Proof. intros H. destruct (log_reach _ _ _ _ _ _ H) as [s1 ->]. apply RCI_final; assumption. Qed.

Lemma RCI_at p : RCI n (cat p).
Proof. destruct (cfg_at_reach rc_adder c0 sched p) as [s1 ->]. apply RCI_final; assumption. Qed.

(** what the step at a log position does (the observable meaning of "landing") *)
Lemma rc_log_step p cp tp :
  nth_error log p = Some (cp, tp) ->
  (exists th o x i, nth_error (c_thr cp) tp = Some th /\ t_cur th = Some (o, RAdd x i) /\
       is_update o = true /\ x = delta o /\ (i < n)%nat /\ lnd p = Some (i, x) /\
       rc_cells (c_sh (cat (S p))) = upd (rc_cells (c_sh cp)) i (wadd (nth i (rc_cells (c_sh cp)) 0) x))
  \/ (lnd p = None /\ rc_cells (c_sh (cat (S p))) = rc_cells (c_sh cp)).
Proof.
  intros H. destruct (cfg_at_step rc_adder c0 sched p cp tp H) as [_ [e Hs]].
  unfold landing. rewrite H.
  destruct (rc_step_cases n cp tp _ e n_pos (RCI_log _ _ _ H) Hs) as [_ Hc]. exact Hc.
Qed.

Lemma lnd_lt k i x : lnd k = Some (i, x) -> (i < n)%nat.
Proof.
  intros H. destruct (nth_error log k) as [[ck tk]|] eqn:E.
  - destruct (rc_log_step k ck tk E) as [(th & o & x' & i' & _ & _ & _ & _ & Hi & Hl & _)|[Hl _]];
      rewrite Hl in H; [injection H as <- <-; exact Hi|discriminate].
  - unfold landing in H. rewrite E in H. discriminate.
Qed.

(** ** per-cell histories *)
Lemma rc_hist_inv p : (p <= length log)%nat ->
  forall i, nth i (rc_cells (c_sh (cat p))) 0 = wrap64 (sm (hst i p)).
Proof.
  intros Hp.
  apply (log_ind rc_adder c0 sched
           (fun p c => forall i, nth i (rc_cells (c_sh c)) 0 = wrap64 (sm (hst i p))) 0%nat); [| |lia|exact Hp].
  - intros i. rewrite cfg_at_0. cbn [init c_sh rinit rc_cells]. rewrite nth_repeat_zero. reflexivity.
  - intros q cq tq cq' e _ Hq IH Hs i.
    destruct (cfg_at_step rc_adder c0 sched q cq tq Hq) as [_ [e' Hs']].
    rewrite Hs in Hs'. injection Hs' as -> _.
    rewrite (asum_hist_S Nat.eqb rc_commit log).
    destruct (rc_log_step q cq tq Hq) as [(th & o & x & i' & _ & _ & _ & _ & Hi & Hl & Hcells)|[Hl Hcells]];
      rewrite Hcells.
    + unfold lands_on. rewrite Hl. rewrite nth_upd.
      destruct (Nat.eqb_spec i' i) as [->|Hne].
      * rewrite Nat.eqb_refl. destruct (Nat.ltb_spec i (length (rc_cells (c_sh cq)))) as [_|Hge].
        -- rewrite (amount_landing rc_commit log q i x Hl). rewrite IH. unfold wadd. apply wrap64_add_wrap_l.
        -- destruct (RCI_log _ _ _ Hq) as [Hlen _]. lia.
      * destruct (Nat.eqb_spec i i'); [congruence|]. rewrite Z.add_0_r. apply IH.
    + unfold lands_on. rewrite Hl, Z.add_0_r. apply IH.
Qed.

(** ** inside an update call: the thread waits at its fetch-and-add, nothing has landed yet *)
Definition rc_phase (a t : nat) (o : aop) (p : nat) (l : rpc) : Prop :=
  exists i, l = RAdd (delta o) i /\
    forall k, (a <= k < p)%nat -> step_of log k t -> lnd k = None.

Lemma rc_call_phase a t o pr :
  is_update o = true -> invoked_at log a t o pr ->
  forall p th o' l, (a < p)%nat -> (p <= length log)%nat ->
    nth_error (c_thr (cat p)) t = Some th -> t_prog th = pr -> t_cur th = Some (o', l) ->
    o' = o /\ rc_phase a t o p l.
Proof.
  intros Hu (ca & tha & Ha & Htha & Hca & Hpa) p th o' l Hp Hpl Hth Hprog Hcur.
  set (J := fun (p : nat) (l : rpc) (_ : rccfg) => rc_phase a t o p l).
  assert (HJ := call_invariant rc_adder c0 sched t o pr J a ca tha Ha Htha Hca Hpa).
  destruct (HJ) with (p := p) (th := th) as [_ HJp]; try lia; [| | |exact Hth|].
  - (* invocation *)
    intros l' s' Es. change (rstep (RInv o) (c_sh ca) = Next l' s') in Es.
    destruct (rstep_inv o (c_sh ca) Hu) as (r0 & s0 & _ & _ & Est). rewrite Est in Es. injection Es as <- <-.
    eexists. split; [reflexivity|]. intros k Hk _. assert (k = a) by lia. subst k.
    unfold landing. rewrite Ha. unfold rc_commit. rewrite Htha, Hca. reflexivity.
  - (* own steps: none, the fetch-and-add returns *)
    intros q cq thq lq l' s' cq' e _ _ _ _ _ (i & -> & _) Es. discriminate Es.
  - (* steps of the others *)
    intros q cq tq lq cq' e Hq Hnq Hne (i & -> & Hno) _. exists i. split; [reflexivity|].
    intros k Hk Hst. destruct (Nat.eq_dec k q) as [->|Hnk]; [|apply Hno; [lia|exact Hst]].
    destruct Hst as [c1 Hc1]. rewrite Hnq in Hc1. congruence.
  - apply (HJp Hprog o' l Hcur).
Qed.

(** ** Theorem: every returned update has exactly one landing step *)
Theorem rc_update_lands_once a b t o pr r :
  is_update o = true ->
  invoked_at log a t o pr -> returns_at rc_adder log b t o pr r -> (a < b)%nat ->
  exists cell,
    step_of log b t /\ lnd b = Some (cell, delta o) /\
    forall k', (a <= k' <= b)%nat -> step_of log k' t -> lnd k' <> None -> k' = b.
Proof.
  intros Hu Hinv (cb & thb & cb' & eb & Hb & Hthb & Hpb & Hsb & Hret) Hlt.
  assert (Hblen : (b < length log)%nat) by (apply nth_error_Some; congruence).
  destruct (cfg_at_step rc_adder c0 sched b cb t Hb) as [Ecb _].
  destruct (returns_cur rc_adder cb t cb' eb o r thb rstep_start_not_done Hsb Hret Hthb)
    as (l & ts' & s' & Hcur & _).
  destruct (rc_call_phase a t o pr Hu Hinv b thb o l Hlt ltac:(lia) ltac:(rewrite Ecb; exact Hthb) Hpb Hcur)
    as (_ & i & -> & Hno).
  exists i. split; [exists cb; exact Hb|]. split.
  - unfold landing. rewrite Hb. unfold rc_commit. rewrite Hthb, Hcur. reflexivity.
  - intros k' Hk' Hst Hl. destruct (Nat.eq_dec k' b) as [E|E]; [exact E|].
    exfalso. apply Hl. apply Hno; [lia|exact Hst].
Qed.

(** ... and no call, returned or not, ever has two: once a step of the call has landed, no
    later step of the same call (the thread still has the same remaining program) lands *)
Theorem rc_update_lands_at_most_once a t o pr k1 k2 c2 th2 :
  is_update o = true -> invoked_at log a t o pr ->
  (a <= k1 < k2)%nat -> step_of log k1 t -> lnd k1 <> None ->
  nth_error log k2 = Some (c2, t) -> nth_error (c_thr c2) t = Some th2 -> t_prog th2 = pr ->
  lnd k2 = None.
Proof.
  intros Hu Hinv Hk Hst Hl1 H2 Hth2 Hp2.
  destruct (lnd k2) as [[i x]|] eqn:El; [|reflexivity]. exfalso.
  assert (H2len : (k2 < length log)%nat) by (apply nth_error_Some; congruence).
  destruct (cfg_at_step rc_adder c0 sched k2 c2 t H2) as [Ec2 _].
  unfold landing in El. rewrite H2 in El. unfold rc_commit in El. rewrite Hth2 in El.
  destruct (t_cur th2) as [[o' l]|] eqn:Hcur; [|discriminate].
  destruct (rc_call_phase a t o pr Hu Hinv k2 th2 o' l ltac:(lia) ltac:(lia) ltac:(rewrite Ec2; exact Hth2) Hp2 Hcur)
    as (_ & j & _ & Hno).
  apply Hl1. apply Hno; [lia|exact Hst].
Qed.

(** the landing step belongs to an update call of exactly that amount, and it is the only
    kind of step that changes a cell *)
Theorem rc_landing_effect k c t :
  nth_error log k = Some (c, t) ->
  match lnd k with
  | Some (i, x) =>
      (i < n)%nat /\
      rc_cells (c_sh (cat (S k))) = upd (rc_cells (c_sh c)) i (wadd (nth i (rc_cells (c_sh c)) 0) x) /\
      exists th o l, nth_error (c_thr c) t = Some th /\ t_cur th = Some (o, l) /\
                     is_update o = true /\ delta o = x
  | None => rc_cells (c_sh (cat (S k))) = rc_cells (c_sh c)
  end.
Proof.
  intros H.
  destruct (rc_log_step k c t H) as [(th & o & x & i & Hn & Hc & Hu & Hx & Hi & Hl & Hcells)|[Hl Hcells]];
    rewrite Hl; [|exact Hcells].
  split; [exact Hi|]. split; [exact Hcells|]. exists th, o, (RAdd x i). auto.
Qed.

(** no step of a Sum call is a landing step *)
Corollary rc_sum_steps_change_nothing k c t th :
  nth_error log k = Some (c, t) -> nth_error (c_thr c) t = Some th ->
  (t_cur th = None /\ (exists pr, t_prog th = Sum :: pr) \/ exists l, t_cur th = Some (Sum, l)) ->
  lnd k = None /\ rc_cells (c_sh (cat (S k))) = rc_cells (c_sh c).
Proof.
  intros H Hn Hs. pose proof (rc_landing_effect k c t H) as He.
  destruct (lnd k) as [[i x]|] eqn:El; [|auto].
  exfalso. destruct He as (_ & _ & th' & o & l & Hn' & Hc & Hu & _).
  rewrite Hn in Hn'. injection Hn' as <-.
  destruct Hs as [[Hc' _]|[l' Hc']]; rewrite Hc in Hc'; [discriminate|].
  injection Hc' as -> _. discriminate.
Qed.

(** ** Theorem: a Sum returns the total of a set of whole updates *)
Theorem rc_sum_is_set_of_whole_updates i j t pr r :
  invoked_at log i t Sum pr -> returns_at rc_adder log j t Sum pr (RZ r) -> (i < j)%nat ->
  exists K : list nat,
    NoDup K /\
    (forall k, In k K -> (k < j)%nat /\ lnd k <> None) /\
    (forall k, (k < i)%nat -> lnd k <> None -> In k K) /\
    r = wrap64 (sm K).
Proof.
  intros (ci & thi & Hi & Hthi & Hci & Hpi) (cj & thj & cj' & ej & Hj & Hthj & Hpj & Hsj & Hret) Hlt.
  set (J := fun (p : nat) (l : rpc) (_ : rccfg) =>
              exists sum idx, l = RSumL sum idx /\
                exists K, NoDup K /\
                  (forall k, In k K -> (k < p)%nat /\ exists cl x, lnd k = Some (cl, x) /\ (cl < idx)%nat) /\
                  (forall k cl x, (k < i)%nat -> lnd k = Some (cl, x) -> (cl < idx)%nat -> In k K) /\
                  sum = wrap64 (sm K)).
  assert (Hjlen : (j < length log)%nat) by (apply nth_error_Some; congruence).
  destruct (cfg_at_step rc_adder c0 sched j cj t Hj) as [Ecj _].
  assert (HJ := call_invariant rc_adder c0 sched t Sum pr J i ci thi Hi Hthi Hci Hpi).
  destruct (HJ) with (p := j) (th := thj) as [_ HJj]; try lia; [| | |rewrite Ecj; exact Hthj|].
  - (* invocation *)
    intros l' s' Es. change (rstep (RInv Sum) (c_sh ci) = Next l' s') in Es. cbn [rstep] in Es.
    injection Es as <- <-. exists 0, 0%nat. split; [reflexivity|]. exists []. split; [constructor|].
    split; [intros k []|]. split; [intros; lia|reflexivity].
  - (* the scan reads one more cell *)
    intros p cp th l l' s' cp' e Hp Hnp Hth Hprog Hcur (sum & idx & -> & K & Hnd & HK1 & HK2 & Hsum) Es _.
    change (rstep (RSumL sum idx) (c_sh cp) = Next l' s') in Es. cbn [rstep] in Es.
    destruct (S idx <? length (rc_cells (c_sh cp)))%nat; [|discriminate]. injection Es as <- <-.
    assert (Hplen : (p <= length log)%nat).
    { assert (p < length log)%nat by (apply nth_error_Some; congruence). lia. }
    destruct (cfg_at_step rc_adder c0 sched p cp t Hnp) as [Ecp _].
    pose proof (rc_hist_inv p Hplen idx) as Hv. rewrite Ecp in Hv.
    exists (wadd sum (rc_get (c_sh cp) idx)), (S idx). split; [reflexivity|].
    exists (K ++ hst idx p). split; [|split; [|split]].
    + apply NoDup_app_disj; [exact Hnd|apply hist_NoDup|].
      intros k Hk Hk'. destruct (HK1 k Hk) as (_ & cl & x & Hl & Hcl).
      apply hist_In in Hk'. destruct Hk' as [_ Hk']. unfold lands_on in Hk'. rewrite Hl in Hk'.
      apply Nat.eqb_eq in Hk'. lia.
    + intros k Hk. apply in_app_or in Hk. destruct Hk as [Hk|Hk].
      * destruct (HK1 k Hk) as (Hkp & cl & x & Hl & Hcl). split; [lia|]. exists cl, x. split; [exact Hl|lia].
      * apply hist_In in Hk. destruct Hk as [Hkp Hk].
        apply (lands_on_iff Nat.eqb Nat.eqb_eq) in Hk. destruct Hk as [x Hl].
        split; [lia|]. exists idx, x. split; [exact Hl|lia].
    + intros k cl x Hk Hl Hcl. apply in_or_app.
      destruct (Nat.eq_dec cl idx) as [->|Hne].
      * right. apply hist_In. split; [lia|]. apply (lands_on_iff Nat.eqb Nat.eqb_eq). eauto.
      * left. apply (HK2 k cl x Hk Hl). lia.
    + rewrite (asum_app rc_commit log). unfold wadd, rc_get. rewrite Hv, Hsum.
      rewrite wrap64_add_wrap_l, wrap64_add_wrap_r. reflexivity.
  - (* steps of the others *)
    intros p cp tp l cp' e Hp Hnp Hne (sum & idx & -> & K & Hnd & HK1 & HK2 & Hsum) _.
    exists sum, idx. split; [reflexivity|]. exists K. split; [exact Hnd|]. split; [|split; assumption].
    intros k Hk. destruct (HK1 k Hk) as [Hkp Hr]. split; [lia|exact Hr].
  - (* the returning step reads the last cell *)
    destruct (returns_cur rc_adder cj t cj' ej Sum (RZ r) thj rstep_start_not_done Hsj Hret Hthj)
      as (l & ts' & s' & Hcur & Es & _).
    rewrite Ecj in HJj. destruct (HJj Hpj Sum l Hcur) as (_ & sum & idx & -> & K & Hnd & HK1 & HK2 & Hsum).
    change (rstep (RSumL sum idx) (c_sh cj) = Done (RZ r) ts' s') in Es. cbn [rstep] in Es.
    destruct (RCI_log _ _ _ Hj) as [Hlen Hthr].
    destruct (Hthr _ _ Hthj) as (_ & _ & Hpc). rewrite Hcur in Hpc. destruct Hpc as [_ Hidx].
    rewrite Hlen in Es. destruct (Nat.ltb_spec (S idx) n) as [Hl|Hge]; [discriminate|].
    injection Es as Er _. assert (En : n = S idx) by lia.
    pose proof (rc_hist_inv j ltac:(lia) idx) as Hv. rewrite Ecj in Hv.
    exists (K ++ hst idx j). split; [|split; [|split]].
    + apply NoDup_app_disj; [exact Hnd|apply hist_NoDup|].
      intros k Hk Hk'. destruct (HK1 k Hk) as (_ & cl & x & Hl & Hcl).
      apply hist_In in Hk'. destruct Hk' as [_ Hk']. unfold lands_on in Hk'. rewrite Hl in Hk'.
      apply Nat.eqb_eq in Hk'. lia.
    + intros k Hk. apply in_app_or in Hk. destruct Hk as [Hk|Hk].
      * destruct (HK1 k Hk) as (Hkp & cl & x & Hl & _). split; [exact Hkp|congruence].
      * apply hist_In in Hk. destruct Hk as [Hkp Hk].
        apply (lands_on_iff Nat.eqb Nat.eqb_eq) in Hk. destruct Hk as [x Hl]. split; [exact Hkp|congruence].
    + intros k Hk Hl. destruct (lnd k) as [[cl x]|] eqn:El; [|congruence].
      apply in_or_app. pose proof (lnd_lt k cl x El) as Hcl.
      destruct (Nat.eq_dec cl idx) as [->|Hne].
      * right. apply hist_In. split; [lia|]. apply (lands_on_iff Nat.eqb Nat.eqb_eq). eauto.
      * left. apply (HK2 k cl x Hk El). lia.
    + rewrite <- Er. rewrite (asum_app rc_commit log). unfold wadd, rc_get. rewrite Hv, Hsum.
      rewrite wrap64_add_wrap_l, wrap64_add_wrap_r. reflexivity.
Qed.

End RCSet.

Print Assumptions rc_update_lands_once.
Print Assumptions rc_update_lands_at_most_once.
Print Assumptions rc_landing_effect.
Print Assumptions rc_sum_is_set_of_whole_updates.
