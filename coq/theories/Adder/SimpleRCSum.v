(** RandomCellAdder: what a Sum running concurrently with non-negative updates
    returns (C09 for the random-cell adder).  As long as the total stays below
    2^63 nothing wraps; every cell only grows and the scan reads every cell
    exactly once, so the result lies between the sum of the cells when the Sum
    was invoked and the sum of the cells when it returns, which never exceeds
    the total of all updates. *)
From Coq Require Import List Arith Bool ZArith Lia.
From Garr Require Import Conc.Conc Pure.F64 Breaker.ConcBase
     Adder.StripedModel Adder.SimpleModel Adder.AdderSpec Adder.SimpleRC.
Import ListNotations.
Local Open Scope Z_scope.

(** programs of non-negative updates and Sums (the same as [StripedRead.reader_progs]) *)
Definition rc_reader_op (o : aop) : Prop := (is_update o = true \/ o = Sum) /\ 0 <= delta o.
Definition rc_reader_progs (progs : list (list aop)) : Prop :=
  forall p o, In p progs -> In o p -> rc_reader_op o.

Lemma wrap64_small z : 0 <= z < 2 ^ 63 -> wrap64 z = z.
Proof. intros H. unfold wrap64. rewrite Z.mod_small by lia. lia. Qed.

Lemma nth_error_upd_at {A} (l : list A) i x : (i < length l)%nat -> nth_error (upd l i x) i = Some x.
Proof.
  intros H. rewrite nth_error_upd, Nat.eqb_refl.
  destruct (nth_error l i) eqn:E; [reflexivity|]. apply nth_error_None in E. lia.
Qed.

(** ** prefix sums and pointwise order *)

Lemma zsum_firstn_S (l : list Z) i : zsum (firstn (S i) l) = zsum (firstn i l) + nth i l 0.
Proof.
  revert i; induction l as [|a l IH]; intros i.
  - destruct i; reflexivity.
  - destruct i as [|i]; [simpl; lia|].
    change (firstn (S (S i)) (a :: l)) with (a :: firstn (S i) l).
    change (firstn (S i) (a :: l)) with (a :: firstn i l).
    change (zsum (a :: firstn (S i) l)) with (a + zsum (firstn (S i) l)).
    change (zsum (a :: firstn i l)) with (a + zsum (firstn i l)).
    change (nth (S i) (a :: l) 0) with (nth i l 0). rewrite IH. lia.
Qed.

Lemma zsum_firstn_all (l : list Z) n : (length l <= n)%nat -> zsum (firstn n l) = zsum l.
Proof. intros H. rewrite firstn_all2 by exact H. reflexivity. Qed.

Definition le_cells (a b : list Z) : Prop := forall i, nth i a 0 <= nth i b 0.

Lemma le_cells_refl a : le_cells a a.
Proof. intros i. lia. Qed.

Lemma le_cells_trans a b c : le_cells a b -> le_cells b c -> le_cells a c.
Proof. intros H1 H2 i. specialize (H1 i). specialize (H2 i). lia. Qed.

Lemma le_cells_firstn a b i : le_cells a b -> zsum (firstn i a) <= zsum (firstn i b).
Proof.
  intros H. induction i as [|i IH]; [simpl; lia|]. rewrite !zsum_firstn_S. specialize (H i). lia.
Qed.

Lemma le_cells_upd (l : list Z) i v : nth i l 0 <= v -> le_cells l (upd l i v).
Proof.
  intros H j. rewrite nth_upd. destruct (Nat.eqb_spec i j) as [<-|_]; [|lia].
  destruct (Nat.ltb_spec i (length l)) as [_|Hge]; [exact H|]. rewrite nth_overflow by exact Hge. lia.
Qed.

Lemma zsum_firstn_nn (l : list Z) i : (forall j, 0 <= nth j l 0) -> 0 <= zsum (firstn i l).
Proof. intros H. induction i as [|i IH]; [simpl; lia|]. rewrite zsum_firstn_S. specialize (H i). lia. Qed.

Lemma zsum_nn (l : list Z) : (forall j, 0 <= nth j l 0) -> 0 <= zsum l.
Proof. intros H. rewrite <- (zsum_firstn_all l (length l)) by lia. apply zsum_firstn_nn. exact H. Qed.

Lemma zsum_firstn_le (l : list Z) i : (forall j, 0 <= nth j l 0) -> zsum (firstn i l) <= zsum l.
Proof.
  intros H. rewrite <- (firstn_skipn i l) at 2. rewrite zsum_app.
  assert (0 <= zsum (skipn i l)); [|lia].
  apply zsum_nn. intros j. destruct (Nat.ltb_spec j (length (skipn i l))) as [Hlt|Hge].
  - assert (Hin : In (nth j (skipn i l) 0) l).
    { rewrite <- (firstn_skipn i l) at 2. apply in_or_app. right. apply nth_In. exact Hlt. }
    apply In_nth with (d := 0) in Hin. destruct Hin as (k & _ & <-). apply H.
  - rewrite nth_overflow by exact Hge. lia.
Qed.

Lemma cell_le_zsum (l : list Z) i : (forall j, 0 <= nth j l 0) -> nth i l 0 <= zsum l.
Proof.
  intros H. pose proof (zsum_firstn_le l (S i) H) as H1. rewrite zsum_firstn_S in H1.
  pose proof (zsum_firstn_nn l i H). lia.
Qed.

Lemma le_cells_zsum a b : length a = length b -> le_cells a b -> zsum a <= zsum b.
Proof.
  intros Hl H. rewrite <- (zsum_firstn_all a (length a)) by lia.
  rewrite <- (zsum_firstn_all b (length a)) by lia. apply le_cells_firstn. exact H.
Qed.

(** ** the invariant of mixed programs *)

Definition rs_tok (n : nat) (cells : list Z) (th : rthread) : Prop :=
  t_dead th = false /\
  (forall o, In o (t_prog th) -> rc_reader_op o) /\
  match t_cur th with
  | None => True
  | Some (_, RAdd x i) => (i < n)%nat /\ 0 <= x
  | Some (o, RSumL sum i) => o = Sum /\ (i < n)%nat /\ 0 <= sum <= zsum (firstn i cells)
  | _ => False
  end.

Record SI (n : nat) (T : Z) (c : rcfg) : Prop := {
  si_len : length (rc_cells (c_sh c)) = n;
  si_nn : forall i, 0 <= nth i (rc_cells (c_sh c)) 0;
  si_thr : forall t th, nth_error (c_thr c) t = Some th -> rs_tok n (rc_cells (c_sh c)) th;
  si_sum : zsum (rc_cells (c_sh c)) + pending (c_thr c) = T
}.

Arguments si_len {n T c}. Arguments si_nn {n T c}. Arguments si_thr {n T c}. Arguments si_sum {n T c}.

Lemma zsum_delta_nn p : (forall o, In o p -> rc_reader_op o) -> 0 <= zsum (map delta p).
Proof.
  induction p as [|o p IH]; intros H; simpl; [lia|].
  destruct (H o (or_introl eq_refl)) as [_ Ho].
  assert (0 <= zsum (map delta p)) by (apply IH; intros o' Ho'; apply H; right; exact Ho'). lia.
Qed.

Lemma tok_pending_nn n cells th : rs_tok n cells th -> 0 <= thr_pending th.
Proof.
  intros (_ & Hp & Hc). unfold thr_pending. pose proof (zsum_delta_nn _ Hp) as H0.
  destruct (t_cur th) as [[o l]|]; [|lia].
  destruct l; try contradiction; [destruct Hc; lia|lia].
Qed.

Lemma pending_nn (l : list rthread) : (forall th, In th l -> 0 <= thr_pending th) -> 0 <= pending l.
Proof.
  unfold pending. induction l as [|th l IH]; intros H; simpl; [lia|].
  pose proof (H th (or_introl eq_refl)).
  assert (0 <= zsum (map thr_pending l)) by (apply IH; intros; apply H; right; auto).
  lia.
Qed.

Lemma pending_ge (l : list rthread) t th :
  (forall th', In th' l -> 0 <= thr_pending th') -> nth_error l t = Some th -> thr_pending th <= pending l.
Proof.
  intros Hnn Hn. apply nth_error_split in Hn. destruct Hn as (l1 & l2 & -> & _).
  assert (H1 : 0 <= pending l1) by (apply pending_nn; intros; apply Hnn; apply in_or_app; auto).
  assert (H2 : 0 <= pending l2) by (apply pending_nn; intros; apply Hnn; apply in_or_app; right; right; auto).
  unfold pending in *. rewrite map_app, zsum_app. simpl. lia.
Qed.

Lemma SI_pending_nn n T c : SI n T c -> forall th, In th (c_thr c) -> 0 <= thr_pending th.
Proof.
  intros HI th Hin. apply In_nth_error in Hin. destruct Hin as [t Ht].
  eapply tok_pending_nn. apply (si_thr HI _ _ Ht).
Qed.

Lemma SI_le_total n T c : SI n T c -> zsum (rc_cells (c_sh c)) <= T.
Proof.
  intros HI. pose proof (si_sum HI). pose proof (pending_nn _ (SI_pending_nn _ _ _ HI)). lia.
Qed.

(** no addition of a reachable step wraps *)
Lemma SI_add_nowrap n T c t th o x i :
  T < 2 ^ 63 -> SI n T c -> nth_error (c_thr c) t = Some th -> t_cur th = Some (o, RAdd x i) ->
  wadd (rc_get (c_sh c) i) x = nth i (rc_cells (c_sh c)) 0 + x /\ 0 <= x.
Proof.
  intros HT HI Hn Hc. pose proof (si_thr HI _ _ Hn) as (_ & Hp & Hk). rewrite Hc in Hk. destruct Hk as [Hi Hx].
  split; [|exact Hx]. unfold wadd, rc_get. apply wrap64_small.
  pose proof (si_nn HI i). pose proof (cell_le_zsum _ i (si_nn HI)).
  pose proof (pending_ge _ _ _ (SI_pending_nn _ _ _ HI) Hn) as Hge.
  assert (x <= thr_pending th).
  { unfold thr_pending. rewrite Hc. pose proof (zsum_delta_nn _ Hp). lia. }
  pose proof (si_sum HI). lia.
Qed.

Lemma SI_sum_nowrap n T c t th o sum i :
  T < 2 ^ 63 -> SI n T c -> nth_error (c_thr c) t = Some th -> t_cur th = Some (o, RSumL sum i) ->
  wadd sum (rc_get (c_sh c) i) = sum + nth i (rc_cells (c_sh c)) 0 /\
  0 <= sum + nth i (rc_cells (c_sh c)) 0 <= zsum (firstn (S i) (rc_cells (c_sh c))).
Proof.
  intros HT HI Hn Hc. pose proof (si_thr HI _ _ Hn) as (_ & Hp & Hk). rewrite Hc in Hk.
  destruct Hk as (_ & Hi & Hs).
  pose proof (si_nn HI i). rewrite zsum_firstn_S.
  split; [|lia]. unfold wadd, rc_get. apply wrap64_small.
  pose proof (zsum_firstn_le _ (S i) (si_nn HI)) as H1. rewrite zsum_firstn_S in H1.
  pose proof (SI_le_total _ _ _ HI). lia.
Qed.

Lemma rs_tok_le n cells cells' th : le_cells cells cells' -> rs_tok n cells th -> rs_tok n cells' th.
Proof.
  intros Hle (Hd & Hp & Hc). split; [exact Hd|]. split; [exact Hp|].
  destruct (t_cur th) as [[o l]|]; [|exact I]. destruct l; try contradiction; [exact Hc|].
  destruct Hc as (Ho & Hi & Hs). pose proof (le_cells_firstn _ _ i Hle). repeat split; auto; lia.
Qed.

Lemma SI_update n T c t th th' sh' :
  SI n T c -> nth_error (c_thr c) t = Some th ->
  length (rc_cells sh') = n -> (forall i, 0 <= nth i (rc_cells sh') 0) ->
  le_cells (rc_cells (c_sh c)) (rc_cells sh') ->
  rs_tok n (rc_cells sh') th' ->
  zsum (rc_cells sh') + thr_pending th' = zsum (rc_cells (c_sh c)) + thr_pending th ->
  SI n T (Config sh' (upd (c_thr c) t th')).
Proof.
  intros HI Hn Hlen Hnn Hle Htok Hsum. constructor; simpl.
  - exact Hlen.
  - exact Hnn.
  - intros t' th0 H0. rewrite nth_error_upd, Hn in H0.
    destruct (Nat.eqb t t'); [injection H0 as <-; exact Htok|].
    eapply rs_tok_le; [exact Hle|]. eapply (si_thr HI); eauto.
  - rewrite (pending_upd _ _ _ th' Hn). pose proof (si_sum HI). lia.
Qed.

Lemma SI_step n T c t c' e : (0 < n)%nat -> T < 2 ^ 63 ->
  SI n T c -> step_thread rc_adder c t = Some (c', e) ->
  SI n T c' /\ le_cells (rc_cells (c_sh c)) (rc_cells (c_sh c')).
Proof.
  intros Hn HT HI Hs. unfold step_thread in Hs.
  destruct (nth_error (c_thr c) t) as [th|] eqn:Hnth; [|discriminate].
  pose proof (si_thr HI _ _ Hnth) as (Hdead & Hprog & Hcur).
  pose proof (si_len HI) as Hlen.
  unfold view in Hs. rewrite Hdead in Hs.
  destruct (t_cur th) as [[o l]|] eqn:Ec.
  - destruct l as [o'|x i|sum i| | | |]; try contradiction.
    + (* RAdd *)
      destruct (SI_add_nowrap n T c t th o x i HT HI Hnth Ec) as [Ew Hx].
      destruct Hcur as [Hi _].
      change (m_step rc_adder) with rstep in Hs. cbn [rstep] in Hs. rewrite Ew in Hs.
      injection Hs as <- _. cbn [c_sh rc_cells rc_set].
      assert (Hle : le_cells (rc_cells (c_sh c)) (upd (rc_cells (c_sh c)) i (nth i (rc_cells (c_sh c)) 0 + x)))
        by (apply le_cells_upd; lia).
      split; [|exact Hle].
      eapply SI_update; [exact HI|exact Hnth| | |exact Hle| |]; cbn [rc_cells rc_set].
      * rewrite upd_length. exact Hlen.
      * intros j. pose proof (Hle j). pose proof (si_nn HI j). lia.
      * unfold rs_tok; simpl. auto.
      * rewrite zsum_upd by (rewrite Hlen; exact Hi). unfold thr_pending; simpl. rewrite Ec. lia.
    + (* RSumL *)
      destruct (SI_sum_nowrap n T c t th o sum i HT HI Hnth Ec) as [Ew Hb].
      destruct Hcur as (-> & Hi & Hsum).
      change (m_step rc_adder) with rstep in Hs. cbn [rstep] in Hs. rewrite Ew, Hlen in Hs.
      destruct (Nat.ltb_spec (S i) n) as [Hlt|Hge]; injection Hs as <- _; cbn [c_sh];
        (split; [|apply le_cells_refl]).
      * eapply SI_update; [exact HI|exact Hnth|exact Hlen|apply (si_nn HI)|apply le_cells_refl| |].
        -- unfold rs_tok; cbn [t_dead t_prog t_cur]. split; [reflexivity|]. split; [exact Hprog|].
           split; [reflexivity|]. split; [exact Hlt|exact Hb].
        -- unfold thr_pending; simpl. rewrite Ec. lia.
      * eapply SI_update; [exact HI|exact Hnth|exact Hlen|apply (si_nn HI)|apply le_cells_refl| |].
        -- unfold rs_tok; cbn [t_dead t_prog t_cur]. auto.
        -- unfold thr_pending; simpl. rewrite Ec. lia.
  - destruct (t_prog th) as [|o rest] eqn:Ep; [discriminate|].
    destruct (Hprog o (or_introl eq_refl)) as [[Hu|Hu] Hd0].
    + (* invocation of an update *)
      destruct (rstep_inv o (c_sh c) Hu) as (r & s' & Et & Ecells & Est).
      change (m_step rc_adder) with rstep in Hs. change (m_start rc_adder (t_ts th) o) with (RInv o) in Hs.
      rewrite Est in Hs. injection Hs as <- _. cbn [c_sh]. rewrite Ecells.
      split; [|apply le_cells_refl].
      eapply SI_update; [exact HI|exact Hnth|rewrite Ecells; exact Hlen|rewrite Ecells; apply (si_nn HI)
                        |rewrite Ecells; apply le_cells_refl| |]; rewrite ?Ecells.
      * unfold rs_tok; simpl. split; [reflexivity|]. split; [intros o' Ho'; apply Hprog; right; unfold rest_prog in Ho'; rewrite Ep in Ho'; exact Ho'|].
        split; [|exact Hd0]. rewrite Hlen. apply idx_lt. exact Hn.
      * unfold thr_pending; simpl. rewrite Ec, Ep. simpl. lia.
    + (* invocation of a Sum *)
      subst o. change (m_step rc_adder) with rstep in Hs.
      change (m_start rc_adder (t_ts th) Sum) with (RInv Sum) in Hs. cbn [rstep] in Hs.
      injection Hs as <- _. cbn [c_sh]. split; [|apply le_cells_refl].
      eapply SI_update; [exact HI|exact Hnth|exact Hlen|apply (si_nn HI)|apply le_cells_refl| |].
      * unfold rs_tok; cbn [t_dead t_prog t_cur]. split; [reflexivity|].
        split; [intros o' Ho'; apply Hprog; right; unfold rest_prog in Ho'; rewrite Ep in Ho'; exact Ho'|].
        split; [reflexivity|]. split; [exact Hn|]. simpl. lia.
      * unfold thr_pending; simpl. rewrite Ec, Ep. simpl. lia.
Qed.

Lemma nth_repeat0 i n : nth i (repeat 0 n) 0 = 0.
Proof. revert i; induction n as [|n IH]; intros [|i]; simpl; auto. Qed.

Lemma SI_init n rnd progs : rc_reader_progs progs ->
  SI n (total progs) (init rpc (rinit n rnd) tt progs).
Proof.
  intros Hrp. constructor; simpl.
  - apply repeat_length.
  - intros i. rewrite nth_repeat0. lia.
  - intros t th H. apply nth_error_In in H. apply in_map_iff in H.
    destruct H as [p [<- Hp]]. unfold rs_tok; simpl. split; [reflexivity|]. split; [|exact I].
    intros o Ho. apply (Hrp p o Hp Ho).
  - rewrite zsum_repeat0, total_pending. lia.
Qed.

Lemma SI_final n T c sched : (0 < n)%nat -> T < 2 ^ 63 -> SI n T c -> SI n T (final rc_adder c sched).
Proof.
  intros Hn HT H. apply invariant_run; [exact H|]. intros c0 t c' e H0 Hs.
  apply (SI_step n T c0 t c' e Hn HT H0 Hs).
Qed.

(** the cells never decrease along a run *)
Lemma SI_run_le n T c sched : (0 < n)%nat -> T < 2 ^ 63 -> SI n T c ->
  le_cells (rc_cells (c_sh c)) (rc_cells (c_sh (final rc_adder c sched))).
Proof.
  intros Hn HT. revert c. induction sched as [|t sched IH]; intros c HI; [apply le_cells_refl|].
  rewrite final_cons. unfold step_cfg. destruct (step_thread rc_adder c t) as [[c' e]|] eqn:Es; [|apply IH; exact HI].
  destruct (SI_step n T c t c' e Hn HT HI Es) as [HI' Hle]. eapply le_cells_trans; [exact Hle|apply IH; exact HI'].
Qed.

(** ** the reader *)

Definition RR (cells0 : list Z) (t : nat) (pr : list aop) (c : rcfg) : Prop :=
  le_cells cells0 (rc_cells (c_sh c)) /\
  forall th, nth_error (c_thr c) t = Some th ->
    (length (t_prog th) <= length pr)%nat /\
    (t_prog th = pr -> forall o l, t_cur th = Some (o, l) ->
       match l with RSumL sum i => zsum (firstn i cells0) <= sum | _ => False end).

Lemma RR_step n T cells0 t pr c t' c' e : (0 < n)%nat -> T < 2 ^ 63 ->
  SI n T c -> RR cells0 t pr c -> step_thread rc_adder c t' = Some (c', e) -> RR cells0 t pr c'.
Proof.
  intros Hn HT HI [Hle Hth] Hs.
  destruct (SI_step n T c t' c' e Hn HT HI Hs) as [HI' Hle'].
  split; [eapply le_cells_trans; eauto|].
  intros th' Hn'.
  assert (Ec' : c' = step_cfg rc_adder c t') by (unfold step_cfg; rewrite Hs; reflexivity).
  destruct (Nat.eq_dec t' t) as [->|Hne].
  - (* the reader itself *)
    unfold step_thread in Hs.
    destruct (nth_error (c_thr c) t) as [th|] eqn:Hnth; [|discriminate].
    destruct (Hth th eq_refl) as [Hlen Hrd].
    assert (Hlt : (t < length (c_thr c))%nat) by (apply nth_error_Some; congruence).
    unfold view in Hs. destruct (t_dead th); [discriminate|].
    destruct (t_cur th) as [[o l]|] eqn:Ec.
    + cbv beta iota in Hs. unfold rest_prog in Hs.
      destruct (m_step rc_adder l (c_sh c)) as [l1 s1|r ts1 s1| |] eqn:Est; try discriminate;
        injection Hs as <- _; simpl in Hn'; rewrite nth_error_upd_at in Hn' by exact Hlt;
        injection Hn' as <-; simpl; (split; [exact Hlen|]); intros E o0 l0 E0; try discriminate.
      injection E0 as <- <-. specialize (Hrd E o l eq_refl).
      destruct l as [o'|x i|sum i| | | |]; try contradiction.
      destruct (SI_sum_nowrap n T c t th o sum i HT HI Hnth Ec) as [Ew _].
      change (m_step rc_adder) with rstep in Est. cbn [rstep] in Est. rewrite Ew in Est.
      destruct (S i <? length (rc_cells (c_sh c)))%nat; [|discriminate]. injection Est as <- _.
      rewrite zsum_firstn_S. specialize (Hle i). lia.
    + destruct (t_prog th) as [|o rest] eqn:Ep; [discriminate|].
      cbv beta iota in Hs. unfold rest_prog in Hs. rewrite Ep in Hs. simpl tl in Hs.
      assert (Hl2 : (length rest < length pr)%nat) by (simpl in Hlen; lia).
      destruct (m_step rc_adder (m_start rc_adder (t_ts th) o) (c_sh c)) as [l1 s1|r ts1 s1| |]; try discriminate;
        injection Hs as <- _; simpl in Hn'; rewrite nth_error_upd_at in Hn' by exact Hlt;
        injection Hn' as <-; simpl; (split; [lia|]); intros E; subst rest; lia.
  - (* another thread *)
    rewrite Ec' in Hn'. rewrite step_cfg_other in Hn' by auto.
    apply (Hth th' Hn').
Qed.

Lemma SIRR_final n T cells0 t pr c sched : (0 < n)%nat -> T < 2 ^ 63 ->
  SI n T c /\ RR cells0 t pr c -> SI n T (final rc_adder c sched) /\ RR cells0 t pr (final rc_adder c sched).
Proof.
  intros Hn HT H. apply invariant_run with (P := fun c => SI n T c /\ RR cells0 t pr c); [exact H|].
  intros c0 t' c' e [H1 H2] Hs. split.
  - apply (SI_step n T c0 t' c' e Hn HT H1 Hs).
  - eapply RR_step; eauto.
Qed.

(** the Sum invoked from [ci] by thread [t] and returning [r] into [cj'] *)
Theorem rc_sum_bounds_core n rnd progs s1 t thi pr ci' ei s3 thj cj' ej r :
  (0 < n)%nat -> rc_reader_progs progs -> total progs < 2 ^ 63 ->
  let c0 := init rpc (rinit n rnd) tt progs in
  let ci := final rc_adder c0 s1 in
  nth_error (c_thr ci) t = Some thi -> t_cur thi = None -> t_prog thi = Sum :: pr ->
  step_thread rc_adder ci t = Some (ci', ei) ->
  let cj := final rc_adder ci' s3 in
  nth_error (c_thr cj) t = Some thj -> t_prog thj = pr ->
  step_thread rc_adder cj t = Some (cj', ej) -> In (ERet t Sum (RZ r)) ej ->
  zsum (rc_cells (c_sh ci)) <= r <= zsum (rc_cells (c_sh cj')) /\
  zsum (rc_cells (c_sh cj')) <= total progs.
Proof.
  intros Hn Hrp HT c0 ci Hni Hci Hpi Hsi cj Hnj Hpj Hsj Hret.
  set (T := total progs) in *.
  assert (HIi : SI n T ci) by (apply SI_final; auto; apply SI_init; exact Hrp).
  set (cells0 := rc_cells (c_sh ci)).
  destruct (SI_step n T ci t ci' ei Hn HT HIi Hsi) as [HIi' _].
  (* after the invocation *)
  assert (HRi' : RR cells0 t pr ci').
  { unfold step_thread in Hsi. rewrite Hni in Hsi. unfold view in Hsi.
    destruct (t_dead thi); [discriminate|]. rewrite Hci, Hpi in Hsi.
    change (m_step rc_adder (m_start rc_adder (t_ts thi) Sum) (c_sh ci)) with (rstep (RInv Sum) (c_sh ci)) in Hsi.
    cbn [rstep] in Hsi. injection Hsi as <- _. split; [apply le_cells_refl|].
    intros th' Hn'. simpl in Hn'. rewrite nth_error_upd_at in Hn' by (apply nth_error_Some; congruence).
    injection Hn' as <-. unfold rest_prog. rewrite Hpi. simpl. split; [lia|].
    intros _ o l E. injection E as <- <-. simpl. lia. }
  destruct (SIRR_final n T cells0 t pr ci' s3 Hn HT (conj HIi' HRi')) as [HIj [Hlej Hthj]].
  fold cj in HIj, Hlej, Hthj.
  destruct (Hthj thj Hnj) as [_ Hrd]. specialize (Hrd Hpj).
  pose proof (si_thr HIj _ _ Hnj) as (Hdj & _ & Hcj).
  pose proof (si_len HIi) as Hleni. pose proof (si_len HIj) as Hlenj.
  (* the returning step *)
  unfold step_thread in Hsj. rewrite Hnj in Hsj. unfold view in Hsj. rewrite Hdj in Hsj.
  destruct (t_cur thj) as [[o l]|] eqn:Ec.
  - specialize (Hrd o l eq_refl). destruct l as [o'|x i|sum i| | | |]; try contradiction.
    destruct (SI_sum_nowrap n T cj t thj o sum i HT HIj Hnj Ec) as [Ew Hb].
    destruct Hcj as (-> & Hi & Hs).
    cbv beta iota in Hsj. change (m_step rc_adder) with rstep in Hsj. cbn [rstep] in Hsj.
    rewrite Ew, Hlenj in Hsj.
    destruct (Nat.ltb_spec (S i) n) as [Hlt|Hge]; injection Hsj as <- <-; simpl in Hret.
    + destruct Hret as [].
    + destruct Hret as [E|[]]. injection E as <-. cbn [c_sh].
      assert (Ei : S i = n) by lia.
      pose proof (SI_le_total _ _ _ HIj) as Htot.
      rewrite zsum_firstn_all in Hb by lia.
      assert (Hlow : zsum cells0 <= sum + nth i (rc_cells (c_sh cj)) 0).
      { rewrite <- (zsum_firstn_all cells0 (S i)) by (unfold cells0; lia).
        rewrite zsum_firstn_S. specialize (Hlej i). lia. }
      lia.
  - destruct (t_prog thj) as [|o rest]; [discriminate|].
    cbv beta iota in Hsj.
    destruct (m_step rc_adder (m_start rc_adder (t_ts thj) o) (c_sh cj)) as [l1 s1'|r1 ts1 s1'| |] eqn:Est;
      try discriminate; injection Hsj as <- <-; simpl in Hret.
    + destruct Hret as [E|[]]. discriminate.
    + exfalso. change (m_step rc_adder (m_start rc_adder (t_ts thj) o) (c_sh cj)) with (rstep (RInv o) (c_sh cj)) in Est.
      destruct o; cbn [rstep] in Est; try discriminate; destruct (rc_take (c_sh cj)); discriminate.
    + destruct Hret as [E|[E|[]]]; discriminate.
Qed.

(** the same in terms of positions in the log of steps *)
Theorem rc_sum_bounds_log n rnd progs sched i j t ci cj thi thj pr cj' ej r :
  (0 < n)%nat -> rc_reader_progs progs -> total progs < 2 ^ 63 ->
  let log := steps_of rc_adder (init rpc (rinit n rnd) tt progs) sched in
  nth_error log i = Some (ci, t) -> nth_error log j = Some (cj, t) -> (i < j)%nat ->
  nth_error (c_thr ci) t = Some thi -> t_cur thi = None -> t_prog thi = Sum :: pr ->
  nth_error (c_thr cj) t = Some thj -> t_prog thj = pr ->
  step_thread rc_adder cj t = Some (cj', ej) -> In (ERet t Sum (RZ r)) ej ->
  zsum (rc_cells (c_sh ci)) <= r <= zsum (rc_cells (c_sh cj')) /\
  zsum (rc_cells (c_sh cj')) <= total progs.
Proof.
  intros Hn Hrp HT log Hi Hj Hlt Hni Hci Hpi Hnj Hpj Hsj Hret.
  destruct (steps_of_later rc_adder _ _ _ _ _ _ _ _ Hi Hj Hlt) as (s1 & ci' & e & s3 & E1 & Hsi & E2).
  subst ci cj.
  eapply (rc_sum_bounds_core n rnd progs s1 t thi pr ci' e s3 thj cj' ej r); eauto.
Qed.

(** in such runs [cells_sum] (the wrap-around sum a solo Sum returns) is the plain sum *)
Lemma rc_cells_sum_exact n rnd progs sched :
  (0 < n)%nat -> rc_reader_progs progs -> total progs < 2 ^ 63 ->
  let c := final rc_adder (init rpc (rinit n rnd) tt progs) sched in
  cells_sum (rc_cells (c_sh c)) = zsum (rc_cells (c_sh c)) /\ 0 <= zsum (rc_cells (c_sh c)) <= total progs.
Proof.
  intros Hn Hrp HT c.
  assert (HI : SI n (total progs) c) by (apply SI_final; auto; apply SI_init; exact Hrp).
  pose proof (SI_le_total _ _ _ HI) as H1.
  pose proof (zsum_nn _ (si_nn HI)) as H0.
  split; [|lia]. rewrite cells_sum_zsum. apply wrap64_small. lia.
Qed.

(** Sums that follow each other in real time never decrease *)
Theorem rc_sums_monotone n rnd progs sched
        i1 j1 t1 ci1 cj1 thi1 thj1 pr1 cj1' ej1 r1
        i2 j2 t2 ci2 cj2 thi2 thj2 pr2 cj2' ej2 r2 :
  (0 < n)%nat -> rc_reader_progs progs -> total progs < 2 ^ 63 ->
  let log := steps_of rc_adder (init rpc (rinit n rnd) tt progs) sched in
  nth_error log i1 = Some (ci1, t1) -> nth_error log j1 = Some (cj1, t1) -> (i1 < j1)%nat ->
  nth_error (c_thr ci1) t1 = Some thi1 -> t_cur thi1 = None -> t_prog thi1 = Sum :: pr1 ->
  nth_error (c_thr cj1) t1 = Some thj1 -> t_prog thj1 = pr1 ->
  step_thread rc_adder cj1 t1 = Some (cj1', ej1) -> In (ERet t1 Sum (RZ r1)) ej1 ->
  nth_error log i2 = Some (ci2, t2) -> nth_error log j2 = Some (cj2, t2) -> (i2 < j2)%nat ->
  nth_error (c_thr ci2) t2 = Some thi2 -> t_cur thi2 = None -> t_prog thi2 = Sum :: pr2 ->
  nth_error (c_thr cj2) t2 = Some thj2 -> t_prog thj2 = pr2 ->
  step_thread rc_adder cj2 t2 = Some (cj2', ej2) -> In (ERet t2 Sum (RZ r2)) ej2 ->
  (j1 < i2)%nat ->
  r1 <= r2 /\ r2 <= total progs.
Proof.
  intros Hn Hrp HT log Hi1 Hj1 Hlt1 Hni1 Hci1 Hpi1 Hnj1 Hpj1 Hsj1 Hret1
         Hi2 Hj2 Hlt2 Hni2 Hci2 Hpi2 Hnj2 Hpj2 Hsj2 Hret2 Hord.
  destruct (rc_sum_bounds_log n rnd progs sched i1 j1 t1 ci1 cj1 thi1 thj1 pr1 cj1' ej1 r1 Hn Hrp HT
              Hi1 Hj1 Hlt1 Hni1 Hci1 Hpi1 Hnj1 Hpj1 Hsj1 Hret1) as [[_ Hu1] _].
  destruct (rc_sum_bounds_log n rnd progs sched i2 j2 t2 ci2 cj2 thi2 thj2 pr2 cj2' ej2 r2 Hn Hrp HT
              Hi2 Hj2 Hlt2 Hni2 Hci2 Hpi2 Hnj2 Hpj2 Hsj2 Hret2) as [[Hl2 Hu2] Ht2].
  destruct (steps_of_later rc_adder _ _ _ _ _ _ _ _ Hj1 Hi2 Hord) as (s1 & c1' & e1 & s3 & E1 & Hs1 & E2).
  rewrite Hsj1 in Hs1. injection Hs1 as <- <-.
  assert (HI1 : SI n (total progs) cj1).
  { rewrite E1. apply SI_final; auto. apply SI_init. exact Hrp. }
  destruct (SI_step n (total progs) cj1 t1 cj1' ej1 Hn HT HI1 Hsj1) as [HI1' _].
  pose proof (SI_run_le n (total progs) cj1' s3 Hn HT HI1') as Hle. rewrite <- E2 in Hle.
  assert (HI2 : SI n (total progs) ci2) by (rewrite E2; apply SI_final; auto).
  assert (zsum (rc_cells (c_sh cj1')) <= zsum (rc_cells (c_sh ci2))).
  { apply le_cells_zsum; [|exact Hle]. rewrite (si_len HI1'), (si_len HI2). reflexivity. }
  lia.
Qed.

Print Assumptions rc_sum_bounds_core.
Print Assumptions rc_sum_bounds_log.
Print Assumptions rc_sums_monotone.
