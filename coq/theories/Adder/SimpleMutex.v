(** Mutex adder (adder/mutexAdder.go): the whole API is linearizable as a
    single number, for every client program and every interleaving -
    including those separating a writer's plain read from its plain write. *)
From Coq Require Import List Arith Bool ZArith Lia.
From Garr Require Import Conc.Conc Conc.Lin Pure.F64 Queue.MutexModel
     Adder.StripedModel Adder.SimpleModel Adder.AdderSpec.
Import ListNotations.

Lemma aret_eqb_refl r : aret_eqb r r = true.
Proof. destruct r; simpl; auto using Z.eqb_refl. Qed.

Definition xlp (o : aop) (l : xpc) (s : xshared) : bool :=
  match l with
  | XRead o' => negb (x_writer o')      (* Sum linearizes at its read *)
  | XWrite _ _ => true                  (* every writer at its write *)
  | _ => false
  end.

Definition xin_w (l : xpc) : bool :=
  match l with
  | XRead o => x_writer o
  | XWrite _ _ => true
  | XUnlock true _ => true
  | _ => false
  end.

Definition xcur_in_w (th : thread unit xpc aop) : bool :=
  match t_cur th with Some (_, l) => xin_w l | None => false end.

Notation xcfg := (config xshared unit xpc aop).
Notation xg := (gstate aret Z).

Definition xtok (th : thread unit xpc aop) (sh : xshared) (pend : option aret) : Prop :=
  t_dead th = false /\
  match t_cur th with
  | None => pend = None
  | Some (o, XInv o') => o = o' /\ pend = None
  | Some (o, XLock o') => o = o' /\ pend = None
  | Some (o, XRead o') => o = o' /\ pend = None
  | Some (o, XWrite o' snap) =>
      o = o' /\ x_writer o = true /\ snap = x_val sh /\ pend = None
  | Some (o, XUnlock w r) => pend = Some r
  end.

Record XI (c : xcfg) (g : xg) : Prop := {
  xi_abs : g_abs g = x_val (c_sh c);
  xi_len : length (g_pend g) = length (c_thr c);
  xi_thr : forall t th, nth_error (c_thr c) t = Some th -> xtok th (c_sh c) (pend_of g t);
  xi_uniq : forall t1 t2 th1 th2,
      nth_error (c_thr c) t1 = Some th1 -> nth_error (c_thr c) t2 = Some th2 ->
      xcur_in_w th1 = true -> xcur_in_w th2 = true -> t1 = t2;
  xi_free : rw_writer (x_lock (c_sh c)) = false ->
             forall t th, nth_error (c_thr c) t = Some th -> xcur_in_w th = false
}.

Arguments xi_abs {c g}. Arguments xi_len {c g}. Arguments xi_thr {c g}.
Arguments xi_uniq {c g}. Arguments xi_free {c g}.

Lemma nth_error_lt' {A} (l : list A) t x : nth_error l t = Some x -> t < length l.
Proof. intros H. apply nth_error_Some. congruence. Qed.

Lemma XI_init progs :
  XI (init xpc xinit tt progs) (ginit aret 0%Z (length progs)).
Proof.
  constructor; simpl.
  - reflexivity.
  - rewrite repeat_length, map_length. reflexivity.
  - intros t th H. apply nth_error_In in H. apply in_map_iff in H.
    destruct H as [p [<- _]]. unfold xtok, pend_of; simpl. split; [reflexivity|].
    destruct (Nat.ltb_spec t (length progs)).
    + rewrite nth_repeat. reflexivity.
    + rewrite nth_overflow; [reflexivity|]. rewrite repeat_length. assumption.
  - intros t1 t2 th1 th2 H1 _ Hw _. apply nth_error_In in H1. apply in_map_iff in H1.
    destruct H1 as [p [<- _]]. discriminate.
  - intros _ t th H. apply nth_error_In in H. apply in_map_iff in H.
    destruct H as [p [<- _]]. reflexivity.
Qed.

Lemma xtok_frame th sh sh' p :
  xtok th sh p ->
  (x_val sh' = x_val sh \/ xcur_in_w th = false) ->
  xtok th sh' p.
Proof.
  unfold xtok, xcur_in_w. intros [Hd H] Hfr. split; [exact Hd|].
  destruct (t_cur th) as [[o l]|]; [|exact H].
  destruct l; try exact H.
  destruct H as (? & ? & ? & ?). destruct Hfr as [E|E]; [|discriminate E].
  rewrite E. repeat split; assumption.
Qed.

Lemma XI_update c g t th th' sh' g' :
  XI c g -> nth_error (c_thr c) t = Some th ->
  length (g_pend g') = length (g_pend g) ->
  (forall t', t' <> t -> pend_of g' t' = pend_of g t') ->
  g_abs g' = x_val sh' ->
  xtok th' sh' (pend_of g' t) ->
  (x_val sh' = x_val (c_sh c) \/ xcur_in_w th = true) ->
  (xcur_in_w th' = true -> xcur_in_w th = true \/ rw_writer (x_lock (c_sh c)) = false) ->
  (rw_writer (x_lock sh') = false ->
     xcur_in_w th' = false /\ (rw_writer (x_lock (c_sh c)) = false \/ xcur_in_w th = true)) ->
  XI (Config sh' (upd (c_thr c) t th')) g'.
Proof.
  intros HI Hn Hlen Hoth Habs Htok Hitems Hin Hfree.
  assert (Hnth : forall t', nth_error (upd (c_thr c) t th') t' =
                            if Nat.eqb t t' then Some th' else nth_error (c_thr c) t').
  { intros t'. rewrite nth_error_upd, Hn. reflexivity. }
  constructor; simpl.
  - exact Habs.
  - rewrite Hlen, upd_length. apply (xi_len HI).
  - intros t' th0 H0. rewrite Hnth in H0.
    destruct (Nat.eqb_spec t t') as [<-|Hne].
    + injection H0 as <-. exact Htok.
    + rewrite Hoth by congruence.
      apply xtok_frame with (sh := c_sh c); [apply (xi_thr HI); exact H0|].
      destruct Hitems as [E|E]; [left; exact E|right].
      destruct (xcur_in_w th0) eqn:E0; [|reflexivity].
      exfalso. apply Hne. eapply (xi_uniq HI); eauto.
  - intros t1 t2 th1 th2 H1 H2 W1 W2. rewrite Hnth in H1, H2.
    destruct (Nat.eqb_spec t t1) as [<-|N1]; destruct (Nat.eqb_spec t t2) as [<-|N2].
    + reflexivity.
    + injection H1 as <-. destruct (Hin W1) as [W|F].
      * eapply (xi_uniq HI); eauto.
      * rewrite (xi_free HI F _ _ H2) in W2. discriminate.
    + injection H2 as <-. destruct (Hin W2) as [W|F].
      * eapply (xi_uniq HI); eauto.
      * rewrite (xi_free HI F _ _ H1) in W1. discriminate.
    + eapply (xi_uniq HI); eauto.
  - intros F t' th0 H0. rewrite Hnth in H0. destruct (Hfree F) as [F1 F2].
    destruct (Nat.eqb_spec t t') as [<-|Hne].
    + injection H0 as <-. exact F1.
    + destruct F2 as [F2|W].
      * eapply (xi_free HI); eauto.
      * destruct (xcur_in_w th0) eqn:E0; [|reflexivity].
        exfalso. apply Hne. eapply (xi_uniq HI); eauto.
Qed.

Ltac xnorm :=
  repeat first
    [ rewrite do_ret_length | rewrite do_lp_length | rewrite abs_do_lp | rewrite ok_do_lp
    | rewrite pend_do_ret_same by (rewrite ?do_lp_length; assumption)
    | rewrite pend_do_lp_same by assumption
    | rewrite pend_do_ret_other by assumption | rewrite pend_do_lp_other by assumption ].

Lemma XI_step c g t :
  XI c g -> g_ok g = true ->
  XI (step_cfg mutex_adder c t) (gstep mutex_adder aret_eqb (counter_spec wadd) xlp c g t) /\
  g_ok (gstep mutex_adder aret_eqb (counter_spec wadd) xlp c g t) = true.
Proof.
  intros HI Hok.
  destruct (nth_error (c_thr c) t) as [th|] eqn:Hn.
  2:{ unfold step_cfg, step_thread, gstep. rewrite Hn. split; assumption. }
  destruct (xi_thr HI _ _ Hn) as [Hdead Htok].
  assert (Hltp : t < length (g_pend g)). { rewrite (xi_len HI). eapply nth_error_lt'; eauto. }
  pose proof (xi_abs HI) as Habs.
  unfold step_cfg, step_thread, gstep. rewrite Hn. unfold view. rewrite Hdead.
  destruct (t_cur th) as [[o l]|] eqn:Hcur.
  2:{ destruct (t_prog th) as [|o rest] eqn:Hprog.
      - split; assumption.
      - assert (W0 : xcur_in_w th = false) by (unfold xcur_in_w; rewrite Hcur; reflexivity).
        simpl. split; [|exact Hok].
        eapply XI_update with (c := c) (th := th);
           [ exact HI | exact Hn | reflexivity | reflexivity | exact Habs
           | unfold xtok; simpl; auto
           | left; reflexivity
           | unfold xcur_in_w; simpl; discriminate
           | unfold xcur_in_w; simpl; intros F; split; [reflexivity|left; exact F] ].
  }
  assert (Wfree : rw_writer (x_lock (c_sh c)) = false -> xcur_in_w th = false)
    by (intros F; eapply (xi_free HI); eauto).
  unfold xcur_in_w in Wfree; rewrite Hcur in Wfree; simpl in Wfree.
  destruct l as [o'|o'|o'|o' snap|w r]; simpl in Htok.
  - (* XInv stored *)
    destruct Htok as [-> Hp].
    simpl. split; [|exact Hok].
    eapply XI_update with (c := c) (th := th);
       [ exact HI | exact Hn | reflexivity | reflexivity | exact Habs
       | unfold xtok; simpl; auto
       | left; reflexivity
       | unfold xcur_in_w; simpl; discriminate
       | unfold xcur_in_w; simpl; intros F; split; [reflexivity|left; exact F] ].
  - (* XLock *)
    destruct Htok as (-> & Hp).
    assert (Hblk : XI match @None (xcfg * list (event aop aret)) with Some (c', _) => c' | None => c end g /\ g_ok g = true)
      by (split; assumption).
    destruct (x_lock (c_sh c)) as [wr rd] eqn:Hlk.
    assert (Hacq : forall th' lk', wr = false -> rw_writer lk' = x_writer o' ->
              th' = {| t_prog := rest_prog th false; t_ts := t_ts th; t_cur := Some (o', XRead o'); t_dead := false |} ->
              XI {| c_sh := XS lk' (x_val (c_sh c)); c_thr := upd (c_thr c) t th' |} g /\ g_ok g = true).
    { intros th' lk' Hwr Hlk' ->. split; [|exact Hok].
      eapply XI_update with (c := c) (th := th);
        [ exact HI | exact Hn | reflexivity | reflexivity | exact Habs
        | unfold xtok; simpl; auto
        | left; reflexivity
        | intros _; right; rewrite Hlk; exact Hwr
        | simpl; unfold xcur_in_w; simpl; intros F; split; [congruence|left; rewrite Hlk; exact Hwr] ]. }
    destruct o'; simpl; rewrite Hlk; simpl;
      destruct wr; simpl; try exact Hblk;
      try (destruct (Nat.eqb rd 0); simpl; try exact Hblk);
      (eapply Hacq; [reflexivity|reflexivity|reflexivity]).
  - (* XRead *)
    destruct Htok as (-> & Hp).
    destruct o'; simpl in *.
    4:{ (* Sum: linearizes here *)
      split; [| xnorm; rewrite Hok, Hp; reflexivity].
      eapply XI_update with (c := c) (th := th);
        [ exact HI | exact Hn | xnorm; reflexivity | intros; xnorm; reflexivity
        | xnorm; simpl; destruct c as [[lk it] thr]; exact Habs
        | unfold xtok; simpl; xnorm; simpl; rewrite Habs; repeat split; auto
        | left; destruct c as [[lk it] thr]; reflexivity
        | unfold xcur_in_w; simpl; discriminate
        | destruct c as [[lk it] thr]; simpl; unfold xcur_in_w; simpl; intros F; split; [reflexivity|left; exact F] ]. }
    all: (split; [|exact Hok];
      eapply XI_update with (c := c) (th := th);
        [ exact HI | exact Hn | reflexivity | reflexivity | destruct c as [[lk it] thr]; exact Habs
        | unfold xtok; simpl; destruct c as [[lk it] thr]; simpl; repeat split; auto
        | left; destruct c as [[lk it] thr]; reflexivity
        | intros _; left; unfold xcur_in_w; rewrite Hcur; reflexivity
        | destruct c as [[lk it] thr]; simpl in *; intros F; specialize (Wfree F); discriminate ]).
  - (* XWrite: the writers' linearization point *)
    destruct Htok as (-> & Hw & -> & Hp).
    assert (Win : xcur_in_w th = true) by (unfold xcur_in_w; rewrite Hcur; reflexivity).
    destruct o'; simpl in Hw; try discriminate; simpl in *;
      (split; [| xnorm; rewrite Hok, Hp; reflexivity];
      eapply XI_update with (c := c) (th := th);
        [ exact HI | exact Hn | xnorm; reflexivity | intros; xnorm; reflexivity
        | xnorm; simpl; rewrite ?Habs; reflexivity
        | unfold xtok; simpl; xnorm; simpl; rewrite ?Habs; repeat split; auto
        | right; exact Win
        | intros _; left; exact Win
        | simpl; intros F; specialize (Wfree F); discriminate ]).
  - (* XUnlock: the return *)
    destruct w; simpl.
    + split; [| xnorm; rewrite Hok, Htok, aret_eqb_refl; reflexivity].
      eapply XI_update with (c := c) (th := th);
        [ exact HI | exact Hn | xnorm; reflexivity | intros; xnorm; reflexivity
        | simpl; exact Habs
        | unfold xtok; simpl; xnorm; auto
        | left; reflexivity
        | unfold xcur_in_w; simpl; discriminate
        | simpl; intros _; split; [reflexivity|right; unfold xcur_in_w; rewrite Hcur; reflexivity] ].
    + split; [| xnorm; rewrite Hok, Htok, aret_eqb_refl; reflexivity].
      eapply XI_update with (c := c) (th := th);
        [ exact HI | exact Hn | xnorm; reflexivity | intros; xnorm; reflexivity
        | simpl; exact Habs
        | unfold xtok; simpl; xnorm; auto
        | left; reflexivity
        | unfold xcur_in_w; simpl; discriminate
        | simpl; intros F; split; [reflexivity|left; exact F] ].
Qed.

Theorem mutex_adder_linearizable : forall (progs : list (list aop)) (sched : list nat),
  lin_ok mutex_adder aret_eqb (counter_spec wadd) xlp xinit tt 0%Z progs sched = true.
Proof.
  intros progs sched. unfold lin_ok.
  apply (lin_by_invariant mutex_adder aret_eqb (counter_spec wadd) xlp XI).
  - apply XI_init.
  - reflexivity.
  - intros c g t HI Hok. apply XI_step; assumption.
Qed.

Print Assumptions mutex_adder_linearizable.
