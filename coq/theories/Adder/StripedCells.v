(** Preservation: steps that change cells (CAS on an attached cell, writes to
    and allocation of private cells). *)
From Coq Require Import List Arith Bool ZArith Lia Permutation.
From Garr Require Import Conc.Conc Pure.F64 Adder.StripedModel Adder.AdderSpec Adder.StripedLib
  Adder.StripedInv Adder.StripedUpdate Adder.StripedSteps.
Import ListNotations.
Local Open Scope Z_scope.

Section Cells.
Variable nrm : Z -> Z.
Hypothesis nrm_add : forall a b, nrm (nrm a + b) = nrm (a + b).
Variable T : Z.

Notation Inv := (Inv nrm T).
Notation Glob := (Glob nrm).

Lemma set_cell_fields s c v :
  a_base (set_cell s c v) = a_base s /\ a_busy (set_cell s c v) = a_busy s /\
  a_table (set_cell s c v) = a_table s /\ a_arrays (set_cell s c v) = a_arrays s /\
  length (a_cells (set_cell s c v)) = length (a_cells s).
Proof. destruct c; simpl; repeat split; auto. apply upd_length. Qed.

Lemma Glob_set_cell s c v : Glob s -> Glob (set_cell s c v).
Proof.
  intros G. destruct (set_cell_fields s c v) as (Eb & Ebu & Et & Ea & El).
  eapply Glob_heq; eauto; try lia.
  - rewrite Ebu. apply (gl_busy G).
  - rewrite Eb. apply (gl_base G).
Qed.

Lemma att_nonempty_table s c : In c (att s) -> a_table s <> None.
Proof. unfold att. destruct (a_table s); [discriminate|contradiction]. Qed.

Lemma effected_locked l : effected l = true -> locked l = true.
Proof. destruct l; simpl; try discriminate. auto. Qed.

(** a successful CAS on an attached cell; the call returns *)
Lemma Inv_cell_cas (c : acfg) t th o l cv v ts :
  Inv c -> nth_error (c_thr c) t = Some th ->
  t_cur th = Some (o, l) -> locked l = false ->
  In cv (att (c_sh c)) -> get_cell (c_sh c) cv = Some v ->
  Inv (Config (set_cell (c_sh c) cv (nrm (v + delta o)))
              (upd (c_thr c) t (Thread (t_prog th) ts None false))).
Proof.
  intros HI Hn Hcur Hl Hin Hg.
  pose proof (iv_glob HI) as G.
  destruct (set_cell_fields (c_sh c) cv (nrm (v + delta o))) as (Eb & Ebu & Et & Ea & El).
  pose proof (att_heq _ _ Et Ea) as Eatt.
  destruct (iv_thr HI _ _ Hn) as (Hd & Hp & _).
  assert (Hlth : lockedth th = false) by (unfold lockedth; rewrite Hcur; exact Hl).
  eapply Inv_update with (th := th); [exact nrm_add | exact HI | exact Hn | ..].
  - apply Glob_set_cell. exact G.
  - repeat split; auto.
  - intros t' th0 Hne H0. destruct (t_cur th0) as [[o0 l0]|] eqn:E0; [|exact I].
    apply frame_set_cell.
    + intros Hc. assert (Hr : In cv (ownedth th0)) by (unfold ownedth; rewrite E0; exact Hc).
      destruct (iv_own HI _ _ _ H0 Hr) as (_ & Hna & _). contradiction.
    + intros _ Hnone. apply (att_nonempty_table _ _ Hin). exact Hnone.
  - simpl. discriminate.
  - rewrite Ebu. auto.
  - simpl. discriminate.
  - simpl. contradiction.
  - intros t' th0 r _ H0 Hr. rewrite Eatt. apply (iv_own HI _ _ _ H0 Hr).
  - rewrite Eatt, Eb.
    rewrite cellsum_set_cell_in; [| apply (gl_nodup G) | exact Hin | eapply get_cell_valid; eauto].
    unfold cellval. rewrite Hg.
    unfold pend_th. rewrite Hcur. simpl t_prog. simpl t_cur.
    destruct (effected l) eqn:Ee; [apply effected_locked in Ee; congruence|].
    replace (a_base (c_sh c) + (cellsum (c_sh c) (att (c_sh c)) - v + nrm (v + delta o)) +
             (zsum (map delta (t_prog th)) + 0))
      with (nrm (v + delta o) + (a_base (c_sh c) + cellsum (c_sh c) (att (c_sh c)) - v +
             zsum (map delta (t_prog th)))) by ring.
    rewrite nrm_add. f_equal. ring.
Qed.

(** a write to the thread's own private cell *)
Lemma Inv_cell_priv (c : acfg) t th th' r v :
  Inv c -> nth_error (c_thr c) t = Some th ->
  In r (ownedth th) ->
  (lockedth th = true \/ a_table (c_sh c) <> None) ->
  thr_ok th' (set_cell (c_sh c) r v) ->
  lockedth th' = lockedth th ->
  incl (ownedth th') (ownedth th) ->
  pend_th th' = pend_th th ->
  Inv (Config (set_cell (c_sh c) r v) (upd (c_thr c) t th')).
Proof.
  intros HI Hn Hr Hlt Hok Hl Hown Hp.
  pose proof (iv_glob HI) as G.
  destruct (set_cell_fields (c_sh c) r v) as (Eb & Ebu & Et & Ea & El).
  pose proof (att_heq _ _ Et Ea) as Eatt.
  destruct (iv_own HI _ _ _ Hn Hr) as (Hv & Hna & Hdis).
  eapply Inv_update with (th := th); [exact nrm_add | exact HI | exact Hn | ..].
  - apply Glob_set_cell. exact G.
  - exact Hok.
  - intros t' th0 Hne H0. destruct (t_cur th0) as [[o0 l0]|] eqn:E0; [|exact I].
    apply frame_set_cell.
    + intros Hc. apply (Hdis t' th0 Hne H0). unfold ownedth. rewrite E0. exact Hc.
    + intros Hl0 Hnone. destruct Hlt as [Hlt|Hlt]; [|contradiction].
      assert (lockedth th0 = false) by (apply (others_unlocked nrm T c t th t' th0 HI Hn Hlt Hne H0)).
      unfold lockedth in H. rewrite E0 in H. congruence.
  - rewrite Hl, Ebu. intros H. eapply (iv_lock HI); eauto.
  - rewrite Ebu. auto.
  - rewrite Hl. auto.
  - intros r' Hr'. apply Hown in Hr'. destruct (iv_own HI _ _ _ Hn Hr') as (Hv' & Hna' & _).
    rewrite Eatt. split; [|split]; auto. destruct Hv'. split; [assumption|lia].
  - intros t' th0 r' _ H0 Hr'. rewrite Eatt. apply (iv_own HI _ _ _ H0 Hr').
  - rewrite Eatt, Eb, Hp. rewrite cellsum_set_cell_notin by exact Hna. reflexivity.
Qed.

Lemma cellsum_cells_app s s' v l :
  a_cells s' = a_cells s ++ [v] ->
  (forall c, In c l -> (c <= length (a_cells s))%nat) ->
  cellsum s' l = cellsum s l.
Proof.
  intros Ec H. unfold cellsum. apply zsum_map_ext_in. intros a Ha.
  unfold cellval, get_cell. rewrite Ec. destruct a; [reflexivity|].
  rewrite nth_error_app1; [reflexivity|]. specialize (H _ Ha). lia.
Qed.

(** allocation of a private cell *)
Lemma Inv_new_cell (c : acfg) t th th' s' v :
  Inv c -> nth_error (c_thr c) t = Some th ->
  a_base s' = a_base (c_sh c) -> a_busy s' = a_busy (c_sh c) ->
  a_table s' = a_table (c_sh c) -> a_arrays s' = a_arrays (c_sh c) ->
  a_cells s' = a_cells (c_sh c) ++ [v] ->
  thr_ok th' s' ->
  lockedth th' = lockedth th ->
  (forall r, In r (ownedth th') -> r = S (length (a_cells (c_sh c)))) ->
  pend_th th' = pend_th th ->
  Inv (Config s' (upd (c_thr c) t th')).
Proof.
  intros HI Hn Eb Ebu Et Ea Ec Hok Hl Hown Hp.
  pose proof (iv_glob HI) as G.
  pose proof (att_heq _ _ Et Ea) as Eatt.
  assert (Elen : length (a_cells s') = S (length (a_cells (c_sh c)))).
  { rewrite Ec, app_length. simpl. lia. }
  eapply Inv_update with (th := th); [exact nrm_add | exact HI | exact Hn | ..].
  - eapply Glob_heq; eauto; try lia.
    + rewrite Ebu. apply (gl_busy G).
    + rewrite Eb. apply (gl_base G).
  - exact Hok.
  - intros t' th0 Hne H0. destruct (t_cur th0) as [[o0 l0]|] eqn:E0; [|exact I].
    eapply frame_cells_app; eauto.
    intros r Hr. assert (Hr' : In r (ownedth th0)) by (unfold ownedth; rewrite E0; exact Hr).
    destruct (iv_own HI _ _ _ H0 Hr') as ([_ Hle] & _). exact Hle.
  - rewrite Hl, Ebu. intros H. eapply (iv_lock HI); eauto.
  - rewrite Ebu. auto.
  - rewrite Hl. auto.
  - intros r Hr. apply Hown in Hr. subst r. rewrite Eatt. split; [|split].
    + split; [discriminate|lia].
    + intros Hin. pose proof (gl_valid G _ Hin). lia.
    + right. lia.
  - intros t' th0 r' _ H0 Hr'. rewrite Eatt. apply (iv_own HI _ _ _ H0 Hr').
  - rewrite Eatt, Eb, Hp. rewrite (cellsum_cells_app _ _ _ _ Ec); [reflexivity|apply (gl_valid G)].
Qed.

End Cells.
