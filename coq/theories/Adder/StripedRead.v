(** C09: what a Sum running concurrently with non-negative updates returns
    (exact arithmetic): at least everything applied when it was invoked, at
    most everything applied when it returns. *)
From Coq Require Import List Arith Bool ZArith Lia Permutation.
From Garr Require Import Conc.Conc Pure.F64 Adder.StripedModel Adder.AdderSpec Adder.StripedLib
  Adder.StripedInv Adder.StripedPres Adder.StripedProofs Adder.StripedLocal Adder.StripedPhase
  Adder.StripedStrip Adder.StripedMono.
Import ListNotations.
Local Open Scope Z_scope.

(** ** sums over lists and over positions *)

Lemma zsum_incl_le {A} (f : A -> Z) (l1 l2 : list A) :
  NoDup l1 -> incl l1 l2 -> (forall c, In c l2 -> 0 <= f c) -> zsum (map f l1) <= zsum (map f l2).
Proof.
  revert l2; induction l1 as [|a l1 IH]; intros l2 Hnd Hi Hf.
  - simpl. clear Hi. induction l2 as [|b l2 IH2]; simpl; [lia|].
    pose proof (Hf b (or_introl eq_refl)). assert (0 <= zsum (map f l2)) by (apply IH2; intros; apply Hf; right; auto). lia.
  - inversion Hnd as [|x l Hna Hnd']; subst.
    assert (Ha : In a l2) by (apply Hi; left; reflexivity).
    apply in_split in Ha. destruct Ha as (l21 & l22 & ->).
    assert (Hi' : incl l1 (l21 ++ l22)).
    { intros c Hc. assert (Hc2 : In c (l21 ++ a :: l22)) by (apply Hi; right; exact Hc).
      apply in_app_iff in Hc2. apply in_app_iff. destruct Hc2 as [H|[H|H]]; auto. subst. contradiction. }
    assert (Hf' : forall c, In c (l21 ++ l22) -> 0 <= f c).
    { intros c Hc. apply Hf. apply in_app_iff in Hc. apply in_app_iff. simpl. tauto. }
    specialize (IH (l21 ++ l22) Hnd' Hi' Hf').
    rewrite !map_app, !zsum_app in *. simpl. lia.
Qed.

Lemma zsum_filter_nz (f : nat -> Z) l : f O = 0 -> zsum (map f (filter nz l)) = zsum (map f l).
Proof.
  intros H0. induction l as [|a l IH]; simpl; [reflexivity|].
  destruct a; simpl; [rewrite H0; lia|rewrite IH; reflexivity].
Qed.

Lemma nodup_pos (l : list nat) p q c :
  NoDup (filter nz l) -> nth_error l p = Some c -> nth_error l q = Some c -> c <> O -> p = q.
Proof.
  revert p q; induction l as [|a l IH]; intros p q Hnd Hp Hq Hc.
  - destruct p; discriminate.
  - assert (Hin : forall k, nth_error l k = Some c -> In c (filter nz l)).
    { intros k Hk. apply in_filter_nz. split; [eapply nth_error_In; eauto|exact Hc]. }
    assert (Hnd' : NoDup (filter nz l)).
    { simpl in Hnd. destruct (nz a); [inversion Hnd; assumption|exact Hnd]. }
    destruct p as [|p], q as [|q]; simpl in *; auto.
    + injection Hp as ->. apply nz_true in Hc. rewrite Hc in Hnd. inversion Hnd as [|x y Hna _]; subst.
      exfalso. apply Hna. eapply Hin; eauto.
    + injection Hq as ->. apply nz_true in Hc. rewrite Hc in Hnd. inversion Hnd as [|x y Hna _]; subst.
      exfalso. apply Hna. eapply Hin; eauto.
Qed.

Definition posl (arr : list nat) (n : nat) : list nat := map (fun p => nth p arr O) (seq 0 n).

Definition psum (f : nat -> Z) (arr : list nat) (n : nat) : Z := zsum (map f (posl arr n)).

Lemma posl_S arr n : posl arr (S n) = posl arr n ++ [nth n arr O].
Proof. unfold posl. rewrite seq_S, map_app. reflexivity. Qed.

Lemma psum_0 f arr : psum f arr 0 = 0.
Proof. reflexivity. Qed.

Lemma psum_S f arr n : psum f arr (S n) = psum f arr n + f (nth n arr O).
Proof. unfold psum. rewrite posl_S, map_app, zsum_app. simpl. lia. Qed.

Lemma psum_le f g arr arr' n :
  (forall p, (p < n)%nat -> f (nth p arr O) <= g (nth p arr' O)) -> psum f arr n <= psum g arr' n.
Proof.
  induction n as [|n IH]; intros H; [rewrite !psum_0; lia|].
  rewrite !psum_S. specialize (H n ltac:(lia)) as Hn. assert (psum f arr n <= psum g arr' n) by (apply IH; intros; apply H; lia).
  lia.
Qed.

Lemma in_posl arr n c : In c (posl arr n) -> c <> O -> exists p, (p < n)%nat /\ nth_error arr p = Some c.
Proof.
  unfold posl. intros H Hc. apply in_map_iff in H. destruct H as (p & E & Hp). apply in_seq in Hp.
  exists p. split; [lia|]. destruct (nth_error arr p) as [x|] eqn:Ex.
  - rewrite (nth_nth_error _ _ O _ Ex) in E. congruence.
  - apply nth_error_None in Ex. rewrite nth_overflow in E by exact Ex. congruence.
Qed.

Lemma posl_in arr n p c : (p < n)%nat -> nth_error arr p = Some c -> In c (posl arr n).
Proof.
  intros Hp E. unfold posl. apply in_map_iff. exists p. split; [apply nth_nth_error; exact E|].
  apply in_seq. lia.
Qed.

Lemma NoDup_snoc {A} (l : list A) x : NoDup l -> ~ In x l -> NoDup (l ++ [x]).
Proof.
  intros H Hx. apply (Permutation_NoDup (l := x :: l)); [|constructor; assumption].
  apply Permutation_cons_append.
Qed.

Lemma posl_nodup arr n : NoDup (filter nz arr) -> NoDup (filter nz (posl arr n)).
Proof.
  intros Hnd. induction n as [|n IH]; [constructor|].
  rewrite posl_S, filter_app. simpl. destruct (nz (nth n arr O)) eqn:Ez; [|rewrite app_nil_r; exact IH].
  apply NoDup_snoc; [exact IH|]. apply nz_true in Ez. intros Hin. apply in_filter_nz in Hin. destruct Hin as [Hin _].
  destruct (in_posl _ _ _ Hin Ez) as (p & Hp & Ep).
  assert (En : nth_error arr n = Some (nth n arr O)).
  { destruct (nth_error arr n) as [x|] eqn:Ex; [rewrite (nth_nth_error _ _ O _ Ex); reflexivity|].
    apply nth_error_None in Ex. rewrite nth_overflow in Ez by exact Ex. congruence. }
  pose proof (nodup_pos _ _ _ _ Hnd Ep En Ez). lia.
Qed.

(** ** the reader's knowledge *)

Definition applied (s : ashared) : Z := a_base s + cellsum s (att s).

(** weight of a cell for the lower bound: its value when the Sum was invoked, if it was attached then *)
Definition w (s0 : ashared) (c : nat) : Z :=
  if in_dec Nat.eq_dec c (att s0) then cellval s0 c else 0.

Definition GM (s0 s : ashared) : Prop :=
  a_base s0 <= a_base s /\ forall c, In c (att s0) -> In c (att s) /\ cellval s0 c <= cellval s c.

Definition RT (s0 s : ashared) (tab : nat * nat) : Prop :=
  forall c, In c (att s0) -> exists p, (p < snd tab)%nat /\ nth_error (arr_of s (fst tab)) p = Some c.

Definition bnd (s0 s : ashared) (sum : Z) (tab : nat * nat) (i : nat) : Prop :=
  a_table s <> None /\ RT s0 s tab /\ (i < snd tab)%nat /\
  a_base s0 + psum (w s0) (arr_of s (fst tab)) i <= sum <= a_base s + psum (cellval s) (arr_of s (fst tab)) i.

Definition rdr (s0 : ashared) (l : apc) (s : ashared) : Prop :=
  match l with
  | S1 None => True
  | S2 None sum => a_base s0 <= sum <= a_base s
  | S3 None sum tab i => bnd s0 s sum tab i
  | S4 None sum tab i c => bnd s0 s sum tab i /\ nth_error (arr_of s (fst tab)) i = Some c /\ c <> O
  | _ => False
  end.

Lemma cellval_nn s c : NN s -> 0 <= cellval s c.
Proof.
  intros Hn. unfold cellval. destruct (get_cell s c) as [v|] eqn:E; [|lia]. eapply nn_get_cell; eauto.
Qed.

Lemma att_nz s c : In c (att s) -> c <> O.
Proof. unfold att. destruct (a_table s); [|contradiction]. intros H. apply in_filter_nz in H. tauto. Qed.

Lemma w_0 s0 : w s0 O = 0.
Proof. unfold w. destruct (in_dec Nat.eq_dec O (att s0)); reflexivity. Qed.

Lemma w_nn s0 c : NN s0 -> 0 <= w s0 c.
Proof. intros H. unfold w. destruct (in_dec Nat.eq_dec c (att s0)); [apply cellval_nn; exact H|lia]. Qed.

Lemma w_in s0 c : In c (att s0) -> w s0 c = cellval s0 c.
Proof. intros H. unfold w. destruct (in_dec Nat.eq_dec c (att s0)); [reflexivity|contradiction]. Qed.

Lemma w_notin s0 c : ~ In c (att s0) -> w s0 c = 0.
Proof. intros H. unfold w. destruct (in_dec Nat.eq_dec c (att s0)); [contradiction|reflexivity]. Qed.

Lemma att_get_cell s c : Glob idn s -> In c (att s) -> get_cell s c = Some (cellval s c).
Proof.
  intros G H. assert (Hv : valid_cell s c) by (split; [eapply att_nz; eauto|apply (gl_valid G _ H)]).
  destruct (valid_get_cell _ _ Hv) as [v E]. unfold cellval. rewrite E. reflexivity.
Qed.

Lemma LE_cellval s s' c : Glob idn s -> LE s s' -> In c (att s) -> cellval s c <= cellval s' c.
Proof.
  intros G (_ & L2 & _) H. destruct (L2 c _ H (att_get_cell _ _ G H)) as (v' & E & Hle).
  unfold cellval at 2. rewrite E. exact Hle.
Qed.

Lemma GM_refl s : GM s s.
Proof. split; [lia|]. intros c H. split; [exact H|lia]. Qed.

Lemma GM_LE s0 s s' : GM s0 s -> Glob idn s -> LE s s' -> GM s0 s'.
Proof.
  intros [H1 H2] G HLE. pose proof HLE as (L1 & _ & _ & L4 & _). split; [lia|].
  intros c Hc. destruct (H2 c Hc) as [Hin Hle]. split; [apply L4; exact Hin|].
  pose proof (LE_cellval _ _ _ G HLE Hin). lia.
Qed.

(** the reader's knowledge survives the steps of the other threads *)
Lemma rdr_LE s0 l s s' :
  rdr s0 l s -> Glob idn s -> LE s s' -> NN s' -> ND s' -> rdr s0 l s'.
Proof.
  intros Hr G HLE Hn' Hd'. pose proof HLE as (L1 & L2 & L3 & L4 & L5).
  assert (Hb : forall sum tab i, bnd s0 s sum tab i -> bnd s0 s' sum tab i).
  { intros sum tab i (Hnn & Hrt & Hi & Hlo & Hhi).
    assert (Hrt' : RT s0 s' tab).
    { intros c Hc. destruct (Hrt c Hc) as (p & Hp & E). exists p. split; [exact Hp|].
      apply L3; [exact E|]. eapply att_nz; eauto. }
    split; [auto|]. split; [exact Hrt'|]. split; [exact Hi|].
    set (arr := arr_of s (fst tab)) in *. set (arr' := arr_of s' (fst tab)) in *.
    assert (Hpos : forall p, nth p arr O <> O -> nth p arr' O = nth p arr O).
    { intros p Hp. destruct (nth_error arr p) as [x|] eqn:Ex.
      - rewrite (nth_nth_error _ _ O _ Ex) in *. apply nth_nth_error. apply L3; assumption.
      - apply nth_error_None in Ex. rewrite nth_overflow in Hp by exact Ex. congruence. }
    split.
    - (* lower bound: new entries of the array were not attached at the invocation *)
      assert (Hle : psum (w s0) arr' i <= psum (w s0) arr i).
      { apply psum_le. intros p Hp. destruct (Nat.eq_dec (nth p arr O) O) as [E0|E0].
        - rewrite E0, w_0. destruct (in_dec Nat.eq_dec (nth p arr' O) (att s0)) as [Hin|Hnin];
            [|rewrite (w_notin _ _ Hnin); lia].
          exfalso. destruct (Hrt' _ Hin) as (q & Hq & Eq). destruct (Hrt _ Hin) as (q0 & Hq0 & Eq0).
          pose proof (att_nz _ _ Hin) as Hnz.
          assert (Ep : nth_error arr' p = Some (nth p arr' O)).
          { destruct (nth_error arr' p) as [x|] eqn:Ex; [rewrite (nth_nth_error _ _ O _ Ex); reflexivity|].
            apply nth_error_None in Ex. rewrite nth_overflow in Hnz by exact Ex. congruence. }
          assert (Eq0' : nth_error arr' q0 = Some (nth p arr' O)) by (apply L3; assumption).
          pose proof (nodup_pos _ _ _ _ (Hd' (fst tab)) Ep Eq0' Hnz) as Epq. subst q0.
          apply nth_nth_error with (d := O) in Eq0. fold arr in Eq0. congruence.
        - rewrite (Hpos p E0). lia. }
      lia.
    - assert (Hle : psum (cellval s) arr i <= psum (cellval s') arr' i).
      { apply psum_le. intros p Hp. destruct (Nat.eq_dec (nth p arr O) O) as [E0|E0].
        - rewrite E0. unfold cellval at 1. simpl. apply cellval_nn. exact Hn'.
        - rewrite (Hpos p E0). apply (LE_cellval _ _ _ G HLE).
          apply (gl_slots G Hnn (fst tab)); [|exact E0]. fold arr.
          destruct (nth_In_or_zero arr p) as [E|E]; [contradiction|exact E]. }
      lia. }
  destruct l; simpl in *; try contradiction; destruct k; try contradiction.
  - exact I.
  - lia.
  - apply Hb. exact Hr.
  - destruct Hr as (Hbd & Hc & Hnz). split; [apply Hb; exact Hbd|]. split; [|exact Hnz].
    apply L3; assumption.
Qed.

Lemma cellsum_nn s l : NN s -> 0 <= cellsum s l.
Proof.
  intros Hn. unfold cellsum. induction l as [|a l IH]; simpl; [lia|]. pose proof (cellval_nn s a Hn). lia.
Qed.

(** at the end of the scan the bounds are the applied amounts *)
Lemma fin_bounds s0 s tab n :
  Glob idn s0 -> NN s0 -> Glob idn s -> NN s -> ND s ->
  a_table s <> None -> RT s0 s tab -> (snd tab <= n)%nat ->
  applied s0 <= a_base s0 + psum (w s0) (arr_of s (fst tab)) n /\
  a_base s + psum (cellval s) (arr_of s (fst tab)) n <= applied s.
Proof.
  intros G0 N0 G Hn Hd Hnn Hrt Hle. set (arr := arr_of s (fst tab)). unfold applied, psum. split.
  - assert (E : cellsum s0 (att s0) = zsum (map (w s0) (att s0))).
    { unfold cellsum. apply zsum_map_ext_in. intros c Hc. symmetry. apply w_in. exact Hc. }
    rewrite E.
    assert (zsum (map (w s0) (att s0)) <= zsum (map (w s0) (posl arr n))); [|lia].
    apply zsum_incl_le.
    + apply (gl_nodup G0).
    + intros c Hc. destruct (Hrt c Hc) as (p & Hp & Ep). eapply posl_in; [|exact Ep]. lia.
    + intros c _. apply w_nn. exact N0.
  - rewrite <- (zsum_filter_nz (cellval s) (posl arr n)) by reflexivity.
    assert (zsum (map (cellval s) (filter nz (posl arr n))) <= cellsum s (att s)); [|lia].
    unfold cellsum. apply zsum_incl_le.
    + apply posl_nodup. apply Hd.
    + intros c Hc. apply in_filter_nz in Hc. destruct Hc as [Hc Hnz].
      destruct (in_posl _ _ _ Hc Hnz) as (p & _ & Ep). apply nth_error_In in Ep.
      apply (gl_slots G Hnn (fst tab)); assumption.
    + intros c _. apply cellval_nn. exact Hn.
Qed.

Lemma empty_bounds s0 s sum :
  NN s -> GM s0 s -> att s = [] -> a_base s0 <= sum <= a_base s -> applied s0 <= sum <= applied s.
Proof.
  intros Hn [_ Hg] Ea Hb. unfold applied. rewrite Ea.
  assert (E0 : att s0 = []).
  { destruct (att s0) as [|c l] eqn:E; [reflexivity|]. destruct (Hg c (or_introl eq_refl)) as [Hin _].
    rewrite Ea in Hin. contradiction. }
  rewrite E0. unfold cellsum. simpl. lia.
Qed.

Section Reader.
Variable f64 : bool.
Variable maxcells : Z.
Notation step := (astep Z.add f64 maxcells).
Notation MZ := (striped Z.add f64 maxcells).

(** the reader's own steps *)
Lemma rdr_own s0 l s :
  sumpc l -> rdr s0 l s -> GM s0 s ->
  Glob idn s0 -> NN s0 -> Glob idn s -> NN s -> ND s ->
  match step l s with
  | Next l' _ => rdr s0 l' s
  | Done r _ _ => exists z, r = RZ z /\ applied s0 <= z <= applied s
  | _ => True
  end.
Proof.
  intros Hpc Hr Hgm G0 N0 G Hn Hd.
  assert (Hnext : forall sum tab i,
            bnd s0 s sum tab (S i) \/ ((S i <? snd tab)%nat = false /\
              a_table s <> None /\ RT s0 s tab /\
              a_base s0 + psum (w s0) (arr_of s (fst tab)) (S i) <= sum <=
              a_base s + psum (cellval s) (arr_of s (fst tab)) (S i)) ->
            match (if (S i <? snd tab)%nat then goto (S3 None sum tab (S i)) s else fin (RZ sum) s) with
            | Next l' _ => rdr s0 l' s
            | Done r _ _ => exists z, r = RZ z /\ applied s0 <= z <= applied s
            | _ => True
            end).
  { intros sum tab i [Hb|(Hlt & Hnn & Hrt & Hb)].
    - destruct Hb as (H1 & H2 & H3 & H4). destruct (Nat.ltb_spec (S i) (snd tab)); [|lia].
      simpl. repeat split; auto; lia.
    - rewrite Hlt. simpl. exists sum. split; [reflexivity|]. apply Nat.ltb_ge in Hlt.
      destruct (fin_bounds s0 s tab (S i) G0 N0 G Hn Hd Hnn Hrt Hlt). lia. }
  destruct l; simpl in Hpc; try contradiction; destruct k; try contradiction; clear Hpc; simpl in Hr; cbn [astep].
  - (* S1 *) simpl. destruct Hgm as [H1 _]. lia.
  - (* S2 *)
    destruct (a_table s) as [tab|] eqn:Ht.
    + destruct (Nat.eqb_spec (snd tab) 0) as [E0|E0].
      * simpl. exists sum. split; [reflexivity|]. apply empty_bounds; auto.
        unfold att. rewrite Ht. apply filter_nz_all_zero. intros c Hc.
        apply In_nth with (d := O) in Hc. destruct Hc as (p & _ & <-). apply (gl_tail G _ Ht). lia.
      * simpl. split; [congruence|]. split; [|split; [lia|rewrite !psum_0; lia]].
        intros c Hc. destruct (proj2 Hgm c Hc) as [Hin _]. unfold att in Hin. rewrite Ht in Hin.
        apply in_filter_nz in Hin. destruct Hin as [Hin Hnz].
        apply In_nth_error in Hin. destruct Hin as [p Ep]. exists p. split; [|exact Ep].
        destruct (Nat.ltb_spec p (snd tab)) as [Hlt|Hge]; [exact Hlt|].
        pose proof (gl_tail G _ Ht p Hge) as Ez. rewrite (nth_nth_error _ _ O _ Ep) in Ez. congruence.
    + simpl. exists sum. split; [reflexivity|]. apply empty_bounds; auto. unfold att. rewrite Ht. reflexivity.
  - (* S3 *)
    destruct Hr as (Hnn & Hrt & Hi & Hb).
    destruct (get_slot s (fst tab) i) as [[|c]|] eqn:Es; [| |exact I].
    + apply get_slot_arr in Es. destruct Es as [_ Es].
      apply Hnext. unfold bnd. rewrite !psum_S, (nth_nth_error _ _ O _ Es), w_0.
      change (cellval s O) with 0.
      destruct (Nat.ltb_spec (S i) (snd tab)).
      * left. repeat split; auto; lia.
      * right. repeat split; auto; lia.
    + simpl. apply get_slot_arr in Es. destruct Es as [_ Es]. repeat split; auto; try lia.
  - (* S4 *)
    destruct Hr as ((Hnn & Hrt & Hi & Hb) & Hc & Hnz).
    destruct (get_cell s c) as [v|] eqn:Eg; [|exact I].
    assert (Ev : cellval s c = v) by (unfold cellval; rewrite Eg; reflexivity).
    assert (Hw : w s0 c <= v).
    { destruct (in_dec Nat.eq_dec c (att s0)) as [Hin|Hnin].
      - rewrite (w_in _ _ Hin). destruct (proj2 Hgm c Hin) as [_ Hle]. lia.
      - rewrite (w_notin _ _ Hnin). rewrite <- Ev. apply cellval_nn. exact Hn. }
    apply Hnext. unfold bnd. rewrite !psum_S, (nth_nth_error _ _ O _ Hc), Ev.
    destruct (Nat.ltb_spec (S i) (snd tab)).
    * left. repeat split; auto; lia.
    * right. repeat split; auto; lia.
Qed.

(** ** along a run *)

Variable T : Z.

Definition RI (s0 : ashared) (t : nat) (pr : list aop) (c : acfg) : Prop :=
  GM s0 (c_sh c) /\
  forall th, nth_error (c_thr c) t = Some th ->
    (length (t_prog th) <= length pr)%nat /\
    (t_prog th = pr -> forall o l, t_cur th = Some (o, l) -> o = Sum /\ rdr s0 l (c_sh c)).

Definition P2 (s0 : ashared) (t : nat) (pr : list aop) (c : acfg) : Prop :=
  has_dead c \/ (MI T c /\ RI s0 t pr c).

Lemma MI_glob (c : acfg) : MI T c -> Glob idn (c_sh c) /\ NN (c_sh c) /\ ND (c_sh c).
Proof. intros (_ & _ & HI & Hn & Hd). split; [apply (iv_glob HI)|auto]. Qed.

Lemma P2_step s0 t pr (c : acfg) t' c' e :
  Glob idn s0 -> NN s0 ->
  P2 s0 t pr c -> step_thread MZ c t' = Some (c', e) -> P2 s0 t pr c'.
Proof.
  intros G0 N0 [Hdead|[HM [Hgm Hth]]] H.
  - left. eapply has_dead_step; eauto.
  - destruct (MI_step f64 maxcells T c t' c' e HM H) as [Hdead|[HM' HLE]]; [left; exact Hdead|].
    right. split; [exact HM'|].
    destruct (MI_glob c HM) as (G & Hn & Hd). destruct (MI_glob c' HM') as (G' & Hn' & Hd').
    split; [eapply GM_LE; eauto|].
    intros th' Hn'th.
    assert (Hc' : c' = step_cfg MZ c t') by (unfold step_cfg; rewrite H; reflexivity).
    destruct (Nat.eq_dec t' t) as [->|Hne].
    + (* the reader itself *)
      destruct (step_after Z.add f64 maxcells _ _ _ _ H) as (th & Hnth & Hdd & Ha).
      destruct (Hth th Hnth) as [Hlen Hrd].
      destruct HM as (Hok & _). destruct (Hok _ _ Hnth) as [_ Hcur].
      destruct (t_cur th) as [[o l]|] eqn:Ec.
      * unfold after in Ha.
        assert (Hcase : t_prog th = pr -> o = Sum /\ rdr s0 l (c_sh c) /\ sumpc l).
        { intros E. destruct (Hrd E o l eq_refl) as [-> Hr]. destruct (Hcur Sum l eq_refl) as [_ Hs]. auto. }
        destruct (step l (c_sh c)) as [l' s'|r ts' s'| |] eqn:Es; try discriminate; injection Ha as <-;
          simpl in Hn'th; rewrite nth_error_upd_same in Hn'th by (apply nth_error_Some; congruence);
          injection Hn'th as <-; simpl; (split; [exact Hlen|]); intros E o0 l0 E0; try discriminate.
        injection E0 as <- <-. destruct (Hcase E) as (-> & Hr & Hs). split; [reflexivity|].
        pose proof (rdr_own s0 l (c_sh c) Hs Hr Hgm G0 N0 G Hn Hd) as Hown.
        pose proof (step_sumpc Z.add f64 maxcells l (c_sh c) Hs) as Hsp.
        rewrite Es in Hown, Hsp. destruct Hsp as [_ ->]. exact Hown.
      * destruct Ha as (o & prr & Hp & Ha). unfold after in Ha.
        assert (Hlt : (length prr < length pr)%nat) by (rewrite Hp in Hlen; simpl in Hlen; lia).
        destruct (step (AInv o) (c_sh c)) as [l' s'|r ts' s'| |]; try discriminate; injection Ha as <-;
          simpl in Hn'th; rewrite nth_error_upd_same in Hn'th by (apply nth_error_Some; congruence);
          injection Hn'th as <-; simpl; (split; [lia|]); intros E; subst prr; lia.
    + (* another thread *)
      rewrite Hc' in Hn'th. rewrite step_cfg_other in Hn'th by auto.
      destruct (Hth th' Hn'th) as [Hlen Hrd]. split; [exact Hlen|].
      intros E o l Ec. destruct (Hrd E o l Ec) as [-> Hr]. split; [reflexivity|].
      eapply rdr_LE; eauto.
Qed.

Lemma has_dead_final (c : acfg) sched : has_dead c -> has_dead (final MZ c sched).
Proof.
  intros H. apply invariant_run; [exact H|]. intros c1 t c' e H1 Hs. eapply has_dead_step; eauto.
Qed.

Lemma P2_final s0 t pr (c : acfg) sched :
  Glob idn s0 -> NN s0 -> P2 s0 t pr c -> P2 s0 t pr (final MZ c sched).
Proof.
  intros G0 N0 H. apply invariant_run; [exact H|]. intros c1 t' c' e H1 Hs. eapply P2_step; eauto.
Qed.

Lemma MI_final (c : acfg) sched :
  (has_dead c \/ MI T c) -> (has_dead (final MZ c sched) \/ MI T (final MZ c sched)).
Proof.
  intros H. apply invariant_run; [exact H|]. intros c1 t c' e [H1|H1] Hs.
  - left. eapply has_dead_step; eauto.
  - destruct (MI_step f64 maxcells T c1 t c' e H1 Hs) as [Hd|[HM _]]; auto.
Qed.

(** a returning step *)
Lemma step_ret (c : acfg) t c' e o r :
  step_thread MZ c t = Some (c', e) -> In (ERet t o r) e ->
  exists th l s', nth_error (c_thr c) t = Some th /\ t_cur th = Some (o, l) /\
                  step l (c_sh c) = Done r tt s' /\ c_sh c' = s'.
Proof.
  unfold step_thread. destruct (nth_error (c_thr c) t) as [th|] eqn:Hn; [|discriminate].
  unfold view. destruct (t_dead th); [discriminate|].
  destruct (t_cur th) as [[o0 l]|] eqn:Ec.
  - change (m_step MZ l (c_sh c)) with (step l (c_sh c)).
    destruct (step l (c_sh c)) as [l' s'|r0 ts' s'| |] eqn:Es; intros E; try discriminate;
      injection E as <- <-; simpl; intros Hin; try contradiction.
    + destruct Hin as [Hin|[]]. injection Hin as <- <-. destruct ts'. exists th, l, s'. auto.
    + destruct Hin as [Hin|[]]. discriminate.
  - destruct (t_prog th) as [|o0 pr]; [discriminate|].
    change (m_step MZ (m_start MZ (t_ts th) o0) (c_sh c)) with (step (AInv o0) (c_sh c)).
    assert (Hnx : exists l', step (AInv o0) (c_sh c) = Next l' (c_sh c)) by (destruct o0; eexists; reflexivity).
    destruct Hnx as [l' ->]. intros E. injection E as <- <-. simpl. intros [Hin|[]]. discriminate.
Qed.

End Reader.

(** ** the initial configuration of mixed programs *)

Definition reader_progs (progs : list (list aop)) : Prop :=
  forall p o, In p progs -> In o p -> rop o /\ nnop o.

Lemma zsum_delta_filter p :
  (forall o, In o p -> rop o) -> zsum (map delta (filter is_update p)) = zsum (map delta p).
Proof.
  induction p as [|o p IH]; intros H; simpl; [reflexivity|].
  assert (IH' : zsum (map delta (filter is_update p)) = zsum (map delta p))
    by (apply IH; intros o' Ho'; apply H; right; exact Ho').
  destruct (H o (or_introl eq_refl)) as [Hu|Hu].
  - rewrite Hu. simpl. rewrite IH'. reflexivity.
  - subst o. simpl. rewrite IH'. reflexivity.
Qed.

Lemma total_filter progs :
  (forall p o, In p progs -> In o p -> rop o) -> total (map (filter is_update) progs) = total progs.
Proof.
  intros H. rewrite !total_zsum. induction progs as [|p ps IH]; simpl; [reflexivity|].
  rewrite !map_app, !zsum_app. rewrite zsum_delta_filter by (intros o Ho; apply (H p o); [left; reflexivity|exact Ho]).
  rewrite IH; [reflexivity|]. intros p' o Hp' Ho. apply (H p' o); [right; exact Hp'|exact Ho].
Qed.

Lemma MI_init rnd progs :
  reader_progs progs -> MI (total progs) (init apc (ainit rnd) tt progs).
Proof.
  intros Hrp.
  assert (Hth : forall t th, nth_error (map (mk_thread apc tt) progs) t = Some th ->
                exists p, In p progs /\ th = mk_thread apc tt p).
  { intros t th H. apply nth_error_In in H. apply in_map_iff in H. destruct H as (p & <- & Hp). eauto. }
  split; [|split; [|split; [|split]]].
  - intros t th H. destruct (Hth _ _ H) as (p & Hp & ->). split; simpl.
    + intros o Ho. apply (Hrp p o Hp Ho).
    + intros; discriminate.
  - intros t th H. destruct (Hth _ _ H) as (p & Hp & ->). split; simpl.
    + intros o Ho. apply (Hrp p o Hp Ho).
    + intros; discriminate.
  - assert (Es : strip (init apc (ainit rnd) tt progs) = init apc (ainit rnd) tt (map (filter is_update) progs)).
    { unfold strip, init. simpl. rewrite !map_map. reflexivity. }
    rewrite Es. rewrite <- (total_filter progs) by (intros p o Hp Ho; apply (Hrp p o Hp Ho)).
    apply (Inv_init idn eq_refl).
    intros p o Hp Ho. apply in_map_iff in Hp. destruct Hp as (p0 & <- & _).
    apply filter_In in Ho. tauto.
  - split; simpl; [lia|]. intros i v E. destruct i; discriminate.
  - intros a. unfold arr_of. simpl. destruct a; constructor.
Qed.


Definition no_dead (c : acfg) : Prop := forall th, In th (c_thr c) -> t_dead th = false.

Lemma no_dead_not (c : acfg) : no_dead c -> has_dead c -> False.
Proof. intros H (th & Hin & Hd). rewrite (H th Hin) in Hd. discriminate. Qed.

(** ** the applied amount only grows and never exceeds the total *)

Lemma zsum_map_le {A} (f g : A -> Z) l : (forall c, In c l -> f c <= g c) -> zsum (map f l) <= zsum (map g l).
Proof.
  induction l as [|a l IH]; intros H; simpl; [lia|].
  pose proof (H a (or_introl eq_refl)). assert (zsum (map f l) <= zsum (map g l)) by (apply IH; intros; apply H; right; auto).
  lia.
Qed.

Lemma applied_LE s s' : Glob idn s -> Glob idn s' -> NN s' -> LE s s' -> applied s <= applied s'.
Proof.
  intros G G' Hn' HLE. pose proof HLE as (L1 & _ & _ & L4 & _). unfold applied.
  assert (H1 : cellsum s (att s) <= cellsum s' (att s)).
  { unfold cellsum. apply zsum_map_le. intros c Hc. apply (LE_cellval _ _ _ G HLE Hc). }
  assert (H2 : cellsum s' (att s) <= cellsum s' (att s')).
  { unfold cellsum. apply zsum_incl_le; [apply (gl_nodup G)|exact L4|]. intros c _. apply cellval_nn. exact Hn'. }
  lia.
Qed.

Section Applied.
Variable f64 : bool.
Variable maxcells : Z.
Notation MZ := (striped Z.add f64 maxcells).
Variable T : Z.

Lemma applied_run (c : acfg) sched :
  MI T c -> no_dead (final MZ c sched) -> applied (c_sh c) <= applied (c_sh (final MZ c sched)).
Proof.
  intros HM Hnd.
  assert (H : has_dead (final MZ c sched) \/
              (MI T (final MZ c sched) /\ applied (c_sh c) <= applied (c_sh (final MZ c sched)))).
  { apply invariant_run.
    - right. split; [exact HM|lia].
    - intros c1 t c' e [Hd|[HM1 Hle]] Hs.
      + left. eapply has_dead_step; eauto.
      + destruct (MI_step f64 maxcells T c1 t c' e HM1 Hs) as [Hd|[HM' HLE]]; [left; exact Hd|].
        right. split; [exact HM'|].
        destruct (MI_glob T c1 HM1) as (G1 & _). destruct (MI_glob T c' HM') as (G' & N' & _).
        pose proof (applied_LE _ _ G1 G' N' HLE). lia. }
  destruct H as [Hd|[_ H]]; [exfalso; eapply no_dead_not; eauto|exact H].
Qed.

Lemma pend_strip_nn (th : athread) :
  (forall o, In o (t_prog th) -> nnop o) -> (forall o l, t_cur th = Some (o, l) -> nnop o) ->
  0 <= pend_th (strip_th th).
Proof.
  intros Hp Hc. unfold pend_th, strip_th. simpl.
  assert (H1 : 0 <= zsum (map delta (filter is_update (t_prog th)))).
  { induction (t_prog th) as [|o p IH]; simpl; [lia|].
    assert (0 <= zsum (map delta (filter is_update p))) by (apply IH; intros; apply Hp; right; auto).
    pose proof (Hp o (or_introl eq_refl)) as Ho. unfold nnop in Ho.
    destruct (is_update o); simpl; lia. }
  destruct (t_cur th) as [[o l]|] eqn:E; simpl; [|lia].
  pose proof (Hc o l eq_refl) as Ho. unfold nnop in Ho.
  destruct (is_update o); simpl; [destruct (effected l); lia|lia].
Qed.

Lemma applied_le_total (c : acfg) : MI T c -> applied (c_sh c) <= T.
Proof.
  intros (_ & Hnn & HI & _). pose proof (iv_sum HI) as Hs. unfold idn in Hs. simpl in Hs.
  assert (Hp : 0 <= pending (map strip_th (c_thr c))).
  { unfold pending. rewrite map_map.
    assert (H : forall thr, (forall th, In th thr -> 0 <= pend_th (strip_th th)) ->
                0 <= zsum (map (fun x => pend_th (strip_th x)) thr)).
    { induction thr as [|th thr IH]; intros H; simpl; [lia|].
      pose proof (H th (or_introl eq_refl)). assert (0 <= zsum (map (fun x => pend_th (strip_th x)) thr)) by (apply IH; intros; apply H; right; auto).
      lia. }
    apply H. intros th Hin. apply In_nth_error in Hin. destruct Hin as [t Ht].
    destruct (Hnn _ _ Ht). apply pend_strip_nn; assumption. }
  unfold applied. lia.
Qed.

End Applied.

Section Bounds.
Variable f64 : bool.
Variable maxcells : Z.
Notation step := (astep Z.add f64 maxcells).
Notation MZ := (striped Z.add f64 maxcells).

(** (2a), exact arithmetic: the Sum invoked from [ci] by thread [t] and returning [r] into [cj'] *)
Theorem sum_bounds_core rnd progs s1 t thi pr ci' ei s3 thj cj' ej r :
  reader_progs progs ->
  let c0 := init apc (ainit rnd) tt progs in
  let ci := final MZ c0 s1 in
  nth_error (c_thr ci) t = Some thi -> t_cur thi = None -> t_prog thi = Sum :: pr ->
  step_thread MZ ci t = Some (ci', ei) ->
  let cj := final MZ ci' s3 in
  nth_error (c_thr cj) t = Some thj -> t_prog thj = pr ->
  step_thread MZ cj t = Some (cj', ej) -> In (ERet t Sum (RZ r)) ej ->
  no_dead cj' ->
  applied (c_sh ci) <= r <= applied (c_sh cj') /\ applied (c_sh cj') <= total progs.
Proof.
  intros Hrp c0 ci Hni Hci Hpi Hsi cj Hnj Hpj Hsj Hret Hnd.
  set (T := total progs).
  assert (Hndj : ~ has_dead cj).
  { intros Hd. apply (no_dead_not _ Hnd). eapply has_dead_step; eauto. }
  assert (Hndi' : ~ has_dead ci').
  { intros Hd. apply Hndj. apply has_dead_final. exact Hd. }
  assert (Hndi : ~ has_dead ci).
  { intros Hd. apply Hndi'. eapply has_dead_step; eauto. }
  assert (HMi : MI T ci).
  { destruct (MI_final f64 maxcells T c0 s1 (or_intror (MI_init rnd progs Hrp))) as [Hd|HM]; [contradiction|exact HM]. }
  destruct (MI_glob T ci HMi) as (G0 & N0 & D0).
  set (s0 := c_sh ci) in *.
  (* after the invocation *)
  destruct (step_after Z.add f64 maxcells _ _ _ _ Hsi) as (th & Hnth & Hdd & Ha).
  rewrite Hni in Hnth. injection Hnth as <-. rewrite Hci, Hpi in Ha.
  destruct Ha as (o & prr & Ep & Ha). injection Ep as <- <-. unfold after in Ha. simpl in Ha. injection Ha as Eci'.
  assert (HP2 : P2 T s0 t pr ci').
  { destruct (MI_step f64 maxcells T ci t ci' ei HMi Hsi) as [Hd|[HM' _]]; [contradiction|].
    right. split; [exact HM'|]. rewrite <- Eci'. split; [apply GM_refl|].
    intros th' Hn'. simpl in Hn'. rewrite nth_error_upd_same in Hn' by (apply nth_error_Some; congruence).
    injection Hn' as <-. simpl. split; [lia|]. intros _ o l E. injection E as <- <-. split; [reflexivity|exact I]. }
  destruct (P2_final f64 maxcells T s0 t pr ci' s3 G0 N0 HP2) as [Hd|[HMj [Hgm Hth]]]; [contradiction|].
  fold cj in HMj, Hgm, Hth.
  destruct (step_ret f64 maxcells cj t cj' ej Sum (RZ r) Hsj Hret) as (th & l & s' & Hn & Hc & Hs & Esh).
  rewrite Hnj in Hn. injection Hn as <-.
  destruct (Hth thj Hnj) as [_ Hrd]. destruct (Hrd Hpj Sum l Hc) as [_ Hr].
  destruct HMj as (Hok & HMj'). destruct (Hok _ _ Hnj) as [_ Hcur]. destruct (Hcur Sum l Hc) as [_ Hsp].
  specialize (Hsp eq_refl).
  assert (HMj : MI T cj) by (split; assumption).
  destruct (MI_glob T cj HMj) as (G & Hn & Hd).
  pose proof (rdr_own f64 maxcells s0 l (c_sh cj) Hsp Hr Hgm G0 N0 G Hn Hd) as Hown.
  pose proof (step_sumpc Z.add f64 maxcells l (c_sh cj) Hsp) as Hss.
  rewrite Hs in Hown, Hss. destruct Hown as (z & Ez & Hb). injection Ez as <-.
  destruct Hss as [-> _]. rewrite Esh. split; [exact Hb|]. apply (applied_le_total T cj HMj).
Qed.

End Bounds.
