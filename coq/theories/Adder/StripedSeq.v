(** C16, sequential half: one thread running any operations from a good
    quiescent state behaves like a single number. *)
From Coq Require Import List Arith Bool ZArith Lia.
From Garr Require Import Conc.Conc Pure.F64 Adder.StripedModel Adder.AdderSpec Adder.StripedLib
  Adder.StripedInv Adder.StripedUpdate Adder.StripedSteps Adder.StripedPres Adder.StripedProofs
  Adder.StripedErase Adder.StripedLocal Adder.StripedPhase.
Import ListNotations.
Local Open Scope Z_scope.

Section Seq.
Variable nrm : Z -> Z.
Hypothesis nrm_add : forall a b, nrm (nrm a + b) = nrm (a + b).
Hypothesis nrm_0 : nrm 0 = 0.
Variable vadd : Z -> Z -> Z.
Hypothesis vadd_def : forall a b, vadd a b = nrm (a + b).
Variable f64 : bool.
Variable maxcells : Z.
Notation M := (striped vadd f64 maxcells).
Notation step := (astep vadd f64 maxcells).
Notation Glob := (Glob nrm).

(** a call running alone: from pc [l] in state [s] it returns [r] in state [s'] *)
Inductive runs : apc -> ashared -> aret -> ashared -> Prop :=
| runs_done l s r s' : step l s = Done r tt s' -> runs l s r s'
| runs_next l s l1 s1 r s' : step l s = Next l1 s1 -> runs l1 s1 r s' -> runs l s r s'.

Definition tabpos (s : ashared) : Prop := forall tab, a_table s = Some tab -> (0 < snd tab)%nat.

(** ** paths of an update running alone *)

Lemma att_valid s c : Glob s -> In c (att s) -> exists v, get_cell s c = Some v.
Proof.
  intros G H. apply valid_get_cell. split.
  - unfold att in H. destruct (a_table s); [|contradiction]. apply in_filter_nz in H. tauto.
  - apply (gl_valid G _ H).
Qed.

Lemma slot_att s tab i c :
  Glob s -> a_table s = Some tab -> get_slot s (fst tab) i = Some (S c) -> In (S c) (att s).
Proof.
  intros G Ht Hs. apply get_slot_arr in Hs. destruct Hs as [_ Hs]. apply nth_error_In in Hs.
  apply (gl_slots G) with (a := fst tab); [congruence|exact Hs|discriminate].
Qed.

Lemma slot_defined s tab i :
  Glob s -> a_table s = Some tab -> (i < snd tab)%nat -> exists c, get_slot s (fst tab) i = Some c.
Proof.
  intros G Ht Hi. destruct (gl_tab G _ Ht) as [H1 H2]. unfold get_slot.
  rewrite (arr_of_nth_error _ _ H1).
  destruct (nth_error (arr_of s (fst tab)) i) eqn:E; [eauto|]. apply nth_error_None in E. lia.
Qed.

Lemma run_cell_cas s x p c v :
  get_cell s c = Some v -> runs (AddCellCas x p c v) s RU (set_cell s c (vadd v x)).
Proof. intros Hg. apply runs_done. simpl. rewrite Hg, Z.eqb_refl. reflexivity. Qed.

Lemma run_cell_load s x p c :
  Glob s -> In c (att s) -> exists s', runs (AddCellLoad x p c) s RU s'.
Proof.
  intros G Hin. destruct (att_valid _ _ G Hin) as [v Hg]. eexists.
  eapply runs_next; [simpl; rewrite Hg; reflexivity|]. apply run_cell_cas. exact Hg.
Qed.

Lemma run_L10 s st tab c :
  Glob s -> In c (att s) -> exists s', runs (L10 st tab c) s RU s'.
Proof.
  intros G Hin. destruct (att_valid _ _ G Hin) as [v Hg]. eexists.
  eapply runs_next; [simpl; rewrite Hg; reflexivity|].
  apply runs_done. simpl. rewrite Hg, Z.eqb_refl. reflexivity.
Qed.

(** the attach path *)
Lemma run_L3 s st tab :
  a_busy s = 0 -> a_table s = Some tab -> (nmask tab <? 0) = false ->
  get_slot s (fst tab) (slot_of (r_index st) tab) = Some O ->
  exists s', runs (L3 st tab) s RU s'.
Proof.
  intros Hb Ht Hm Hs.
  assert (Hchain : forall s1 r,
            a_busy s1 = 0 -> a_table s1 = Some tab -> a_arrays s1 = a_arrays s ->
            exists s', runs (L4 st r) s1 RU s').
  { intros s1 r Hb1 Ht1 Ha1. eexists.
    eapply runs_next; [simpl; rewrite Hb1; reflexivity|].
    eapply runs_next; [simpl; rewrite Hb1; reflexivity|].
    eapply runs_next; [simpl; rewrite Ht1, Hm; reflexivity|].
    eapply runs_next.
    { simpl. unfold get_slot in *. simpl. rewrite Ha1, Hs. reflexivity. }
    eapply runs_next; [reflexivity|].
    apply runs_done. reflexivity. }
  destruct f64 eqn:Ef.
  - destruct (Hchain (set_cell (snd (new_cell s 0)) (S (length (a_cells s))) (r_x st)) (S (length (a_cells s))))
      as [s' Hr]; [exact Hb|exact Ht|reflexivity|].
    exists s'.
    assert (E : step (L3 st tab) s = Next (L3f st (S (length (a_cells s)))) (snd (new_cell s 0)))
      by (simpl; rewrite Hb, Ef; reflexivity).
    eapply runs_next; [exact E|].
    eapply runs_next; [reflexivity|]. exact Hr.
  - destruct (Hchain (snd (new_cell s (r_x st))) (S (length (a_cells s)))) as [s' Hr];
      [exact Hb|exact Ht|reflexivity|].
    exists s'.
    assert (E : step (L3 st tab) s = Next (L4 st (S (length (a_cells s)))) (snd (new_cell s (r_x st))))
      by (simpl; rewrite Hb, Ef; reflexivity).
    eapply runs_next; [exact E|]. exact Hr.
Qed.

Lemma Glob_shape s s1 :
  Glob s -> a_table s1 = a_table s -> a_arrays s1 = a_arrays s -> a_busy s1 = a_busy s ->
  a_base s1 = a_base s -> a_cells s1 = a_cells s -> Glob s1.
Proof.
  intros G Et Ea Ebu Eb Ec. eapply Glob_heq; eauto.
  - rewrite Ec. lia.
  - rewrite Ebu. apply (gl_busy G).
  - rewrite Eb. apply (gl_base G).
  - rewrite Ebu. auto.
Qed.

Lemma nmask_pos tab : (0 < snd tab)%nat -> (nmask tab <? 0) = false.
Proof. intros H. apply Z.ltb_ge. unfold nmask. lia. Qed.

Lemma enter_acc_unc x i s :
  exists st s1, enter_acc x i true s = Next (L1 st) s1 /\ r_unc st = true /\
    a_table s1 = a_table s /\ a_arrays s1 = a_arrays s /\ a_busy s1 = a_busy s /\
    a_base s1 = a_base s /\ a_cells s1 = a_cells s.
Proof.
  unfold enter_acc. destruct (i =? 0).
  - pose proof (take_rnd_shape s) as H. destruct (take_rnd s) as [r s1]. simpl in H.
    eexists _, s1. split; [reflexivity|]. simpl. tauto.
  - eexists _, s. split; [reflexivity|]. simpl. tauto.
Qed.

Lemma run_L1 s st tab :
  Glob s -> a_busy s = 0 -> a_table s = Some tab -> (0 < snd tab)%nat -> r_unc st = true ->
  exists s', runs (L1 st) s RU s'.
Proof.
  intros G Hb Ht Hpos Hu. pose proof (nmask_pos _ Hpos) as Hm.
  destruct (slot_defined s tab (slot_of (r_index st) tab) G Ht (slot_of_lt _ _ Hm)) as [c Hs].
  destruct c as [|c].
  - destruct (run_L3 s st tab Hb Ht Hm Hs) as [s' Hr]. exists s'.
    eapply runs_next; [simpl; rewrite Ht, Hm; reflexivity|].
    eapply runs_next; [simpl; rewrite Hs; reflexivity|]. exact Hr.
  - destruct (run_L10 s (with_index st (Z.land (r_index st) (nmask tab))) tab (S c) G
                (slot_att _ _ _ _ G Ht Hs)) as [s' Hr]. exists s'.
    eapply runs_next; [simpl; rewrite Ht, Hm; reflexivity|].
    eapply runs_next; [simpl; rewrite Hs, Hu; reflexivity|]. exact Hr.
Qed.

Lemma run_AddSlot s x tab probe :
  Glob s -> a_busy s = 0 -> a_table s = Some tab -> (0 < snd tab)%nat ->
  (Z.to_nat probe < snd tab)%nat ->
  exists s', runs (AddSlot x tab probe) s RU s'.
Proof.
  intros G Hb Ht Hpos Hp.
  destruct (slot_defined s tab (Z.to_nat probe) G Ht Hp) as [c Hs].
  destruct c as [|c].
  - destruct (enter_acc_unc x probe s) as (st & s1 & Ee & Hu & E1 & E2 & E3 & E4 & E5).
    assert (G1 : Glob s1) by (eapply Glob_shape; eauto).
    destruct (run_L1 s1 st tab G1) as [s' Hr]; try congruence. exists s'.
    eapply runs_next; [simpl; rewrite Hs; exact Ee|]. exact Hr.
  - destruct (run_cell_load s x probe (S c) G (slot_att _ _ _ _ G Ht Hs)) as [s' Hr]. exists s'.
    eapply runs_next; [simpl; rewrite Hs; reflexivity|]. exact Hr.
Qed.

Lemma run_AddLoadTab s x :
  Glob s -> a_busy s = 0 -> tabpos s -> exists s', runs (AddLoadTab x) s RU s'.
Proof.
  intros G Hb Hpos. destruct (a_table s) as [tab|] eqn:Ht.
  - pose proof (Hpos tab Ht) as Hp. pose proof (nmask_pos _ Hp) as Hm.
    pose proof (take_rnd_shape s) as Hsh. destruct (take_rnd s) as [r s1] eqn:Er. simpl in Hsh.
    destruct Hsh as (E1 & E2 & E3 & E4 & E5).
    assert (G1 : Glob s1) by (eapply Glob_shape; eauto).
    destruct (run_AddSlot s1 x tab (Z.land r (nmask tab)) G1) as [s' Hr]; try congruence.
    { apply Z.ltb_ge in Hm. pose proof (land_le_r r (nmask tab) Hm). unfold nmask in *. lia. }
    exists s'. eapply runs_next; [|exact Hr]. simpl. rewrite Ht, Hm, Er. reflexivity.
  - eexists.
    eapply runs_next; [simpl; rewrite Ht; reflexivity|].
    eapply runs_next; [reflexivity|].
    apply runs_done. simpl. rewrite Z.eqb_refl. reflexivity.
Qed.

Lemma run_update s o :
  Glob s -> a_busy s = 0 -> tabpos s -> is_update o = true -> exists s', runs (AInv o) s RU s'.
Proof.
  intros G Hb Hpos Hu.
  assert (H : forall x, step (AInv o) s = Next (AddLoadTab x) s -> exists s', runs (AInv o) s RU s').
  { intros x E. destruct (run_AddLoadTab s x G Hb Hpos) as [s' Hr].
    exists s'. eapply runs_next; [exact E|exact Hr]. }
  destruct o; try discriminate; eapply H; reflexivity.
Qed.

(** ** from [runs] to schedules *)

Lemma run_one (c : acfg) : run M c [0%nat] = (step_cfg M c 0, step_evs M c 0 ++ []).
Proof. reflexivity. Qed.

Lemma run_cons (c : acfg) t sched :
  run M c (t :: sched) =
  (fst (run M (step_cfg M c t) sched), step_evs M c t ++ snd (run M (step_cfg M c t) sched)).
Proof. cbn [run]. destruct (run M (step_cfg M c t) sched). reflexivity. Qed.

Lemma step_cur_next s rest o l l1 s1 :
  step l s = Next l1 s1 ->
  step_thread M (Config s [Thread rest tt (Some (o, l)) false]) 0 =
  Some (Config s1 [Thread rest tt (Some (o, l1)) false], []).
Proof.
  intros E. unfold step_thread. simpl.
  change (astep vadd f64 maxcells l s) with (step l s). rewrite E. reflexivity.
Qed.

Lemma step_cur_done s rest o l r s1 :
  step l s = Done r tt s1 ->
  step_thread M (Config s [Thread rest tt (Some (o, l)) false]) 0 =
  Some (Config s1 [Thread rest tt None false], [ERet 0%nat o r]).
Proof.
  intros E. unfold step_thread. simpl.
  change (astep vadd f64 maxcells l s) with (step l s). rewrite E. reflexivity.
Qed.

Lemma runs_run_cur l s r s' :
  runs l s r s' -> forall o rest, exists n,
  run M (Config s [Thread rest tt (Some (o, l)) false]) (repeat 0%nat n) =
  (Config s' [Thread rest tt None false], [ERet 0%nat o r]).
Proof.
  induction 1 as [l s r s' E|l s l1 s1 r s' E _ IH]; intros o rest.
  - exists 1%nat. simpl repeat. rewrite run_cons. unfold step_cfg, step_evs.
    rewrite (step_cur_done _ rest o _ _ _ E). reflexivity.
  - destruct (IH o rest) as [n Hn]. exists (S n). simpl repeat. rewrite run_cons.
    unfold step_cfg, step_evs. rewrite (step_cur_next _ rest o _ _ _ E). rewrite Hn. reflexivity.
Qed.

Lemma runs_run_fresh o s r s' :
  runs (AInv o) s r s' -> forall rest, exists n,
  run M (Config s [Thread (o :: rest) tt None false]) (repeat 0%nat n) =
  (Config s' [Thread rest tt None false], [EInv 0%nat o; ERet 0%nat o r]).
Proof.
  intros H rest. inversion H as [l s0 r0 s0' E|l s0 l1 s1 r0 s0' E Hr]; subst.
  - exfalso. destruct o; discriminate.
  - destruct (runs_run_cur _ _ _ _ Hr o rest) as [n Hn]. exists (S n). simpl repeat. rewrite run_cons.
    assert (Es : step_thread M (Config s [Thread (o :: rest) tt None false]) 0 =
                 Some (Config s1 [Thread rest tt (Some (o, l1)) false], [EInv 0%nat o])).
    { unfold step_thread. cbn [c_thr nth_error]. unfold view. cbn [t_dead t_cur t_prog t_ts c_sh].
      change (m_step M (m_start M tt o) s) with (step (AInv o) s).
      rewrite E. reflexivity. }
    unfold step_cfg, step_evs. rewrite Es, Hn. reflexivity.
Qed.

(** ** transfer along [erase] *)

Lemma runs_transfer k l e r e' :
  runs l e r e' -> forall s, e = erase k s -> sinv k s -> rinv k l ->
  exists s', runs l s r s' /\ erase k s' = e' /\ sinv k s'.
Proof.
  induction 1 as [l e r e' E|l e l1 e1 r e' E _ IH]; intros s -> Hs Hl.
  - rewrite (astep_erase vadd f64 maxcells k l s (rinv_ge _ _ Hl) (sinv_ge _ _ Hs)) in E.
    pose proof (astep_rinv vadd f64 maxcells k l s Hl Hs) as Hst.
    destruct (step l s) as [l2 s2|r2 ts2 s2| |] eqn:Es; try discriminate.
    destruct ts2. simpl in E. injection E as E1 E2. subst r2 e'. exists s2. split; [|auto]. apply runs_done. exact Es.
  - rewrite (astep_erase vadd f64 maxcells k l s (rinv_ge _ _ Hl) (sinv_ge _ _ Hs)) in E.
    pose proof (astep_rinv vadd f64 maxcells k l s Hl Hs) as Hst.
    destruct (step l s) as [l2 s2|r2 ts2 s2| |] eqn:Es; try discriminate.
    simpl in E. injection E as <- <-. destruct Hst as [Hl2 Hs2].
    destruct (IH s2 eq_refl Hs2 Hl2) as (s' & Hr & He & Hs').
    exists s'. split; [|auto]. eapply runs_next; eauto.
Qed.

Lemma era_max k k' arrs : era k' (era k arrs) = era (Nat.max k k') arrs.
Proof.
  revert k k'; induction arrs as [|a r IH]; intros k k'.
  - destruct k, k'; reflexivity.
  - destruct k as [|k], k' as [|k']; simpl; try reflexivity.
    rewrite repeat_length, IH. reflexivity.
Qed.

Lemma sinv_erase k k' s : sinv k' (erase k s) <-> sinv k' s.
Proof. unfold sinv. simpl. rewrite era_length. tauto. Qed.

Lemma Good_of_erase k s : sinv k s -> Good nrm (erase k s) -> Good nrm s.
Proof.
  intros Hs (k' & Hs' & G). apply sinv_erase in Hs'.
  exists (Nat.max k k'). split.
  - destruct Hs as [H1 H2], Hs' as [H1' H2']. split; [lia|].
    intros tab E. destruct (H2 tab E), (H2' tab E). split; lia.
  - unfold erase in *. simpl in G. rewrite era_max in G. exact G.
Qed.

(** ** Sum and the Sum half of SumAndReset, alone *)

Definition after_sum (k : option Z) (sum : Z) (r : aret) (s s' : ashared) : Prop :=
  match k with
  | None => r = RZ sum /\ s' = s
  | Some _ => runs (T1 0 (RZ sum)) s r s'
  end.

Lemma finish_runs k sum r s s' l :
  step l s = match k with None => fin (RZ sum) s | Some _ => goto (T1 0 (RZ sum)) s end ->
  after_sum k sum r s s' -> runs l s r s'.
Proof.
  unfold after_sum. destruct k; intros E H.
  - eapply runs_next; [exact E|exact H].
  - destruct H as [-> ->]. apply runs_done. exact E.
Qed.

Lemma sum_loop k s tab r s' :
  Glob s -> a_table s = Some tab ->
  forall n i sum, n = (snd tab - i)%nat -> (i < snd tab)%nat ->
  after_sum k (fold_left vadd (map (cellval s) (filter nz (skipn i (arr_of s (fst tab))))) sum) r s s' ->
  runs (S3 k sum tab i) s r s'.
Proof.
  intros G Ht. destruct (gl_tab G _ Ht) as [Hft Hlen].
  set (arr := arr_of s (fst tab)) in *.
  assert (Hslot : forall i, (i < snd tab)%nat -> get_slot s (fst tab) i = Some (nth i arr O)).
  { intros i Hi. unfold get_slot. rewrite (arr_of_nth_error _ _ Hft). fold arr.
    apply nth_error_nth'. lia. }
  assert (Hend : forall i, (snd tab <= i)%nat -> filter nz (skipn i arr) = []).
  { intros i Hi. apply filter_nz_all_zero. intros cc Hc.
    destruct (in_skipn_nth _ _ _ Hc) as (j & Hj & <- & _). apply (gl_tail G _ Ht). lia. }
  induction n as [|n IH]; intros i sum Hn Hi; [lia|].
  rewrite (skipn_nth_cons arr i) by lia.
  destruct (nth i arr O) as [|cc] eqn:Ec.
  - change (filter nz (O :: skipn (S i) arr)) with (filter nz (skipn (S i) arr)).
    destruct (Nat.ltb_spec (S i) (snd tab)) as [Hlt|Hge]; intros Hafter.
    + eapply runs_next;
        [simpl; rewrite (Hslot i Hi), Ec; destruct (Nat.ltb_spec (S i) (snd tab)); [reflexivity|lia]|].
      apply IH; [lia|lia|exact Hafter].
    + rewrite (Hend (S i) Hge) in Hafter. simpl in Hafter. eapply finish_runs; [|exact Hafter].
      simpl. rewrite (Hslot i Hi), Ec. destruct (Nat.ltb_spec (S i) (snd tab)); [lia|reflexivity].
  - assert (Hin : In (S cc) (att s)).
    { unfold att. rewrite Ht. fold arr. apply in_filter_nz. split; [|discriminate].
      rewrite <- Ec. apply nth_In. lia. }
    destruct (att_valid _ _ G Hin) as [v Hg].
    assert (Ecv : cellval s (S cc) = v) by (unfold cellval; rewrite Hg; reflexivity).
    simpl in Hg.
    change (filter nz (S cc :: skipn (S i) arr)) with (S cc :: filter nz (skipn (S i) arr)).
    cbn [map fold_left]. rewrite Ecv. intros Hafter.
    eapply runs_next; [simpl; rewrite (Hslot i Hi), Ec; reflexivity|].
    destruct (Nat.ltb_spec (S i) (snd tab)) as [Hlt|Hge].
    + eapply runs_next;
        [simpl; rewrite Hg; destruct (Nat.ltb_spec (S i) (snd tab)); [reflexivity|lia]|].
      apply IH; [lia|lia|exact Hafter].
    + rewrite (Hend (S i) Hge) in Hafter. simpl in Hafter. eapply finish_runs; [|exact Hafter].
      simpl. rewrite Hg. destruct (Nat.ltb_spec (S i) (snd tab)); [lia|reflexivity].
Qed.

Lemma sum_phase k s r s' :
  Glob s -> after_sum k (value nrm s) r s s' -> runs (S1 k) s r s'.
Proof.
  intros G Hafter. unfold value in Hafter.
  eapply runs_next; [reflexivity|].
  pose proof (gl_base G) as Hb.
  destruct (a_table s) as [tab|] eqn:Ht.
  - destruct (Nat.eqb_spec (snd tab) 0) as [E0|E0].
    + assert (Ea : att s = []).
      { unfold att. rewrite Ht. apply filter_nz_all_zero. intros cc Hc.
        apply In_nth with (d := O) in Hc. destruct Hc as (i & _ & <-). apply (gl_tail G _ Ht). lia. }
      rewrite Ea in Hafter. unfold cellsum in Hafter. simpl in Hafter. rewrite Z.add_0_r, Hb in Hafter.
      eapply finish_runs; [|exact Hafter].
      simpl. rewrite Ht. destruct (Nat.eqb_spec (snd tab) 0); [reflexivity|contradiction].
    + eapply runs_next.
      * simpl. rewrite Ht. destruct (Nat.eqb_spec (snd tab) 0); [contradiction|reflexivity].
      * apply (sum_loop k s tab r s' G Ht (snd tab - 0) 0 (a_base s) eq_refl); [lia|].
        simpl skipn. rewrite (fold_vadd nrm nrm_add vadd vadd_def _ _ Hb).
        unfold cellsum, att in Hafter. rewrite Ht in Hafter. exact Hafter.
  - assert (Ea : att s = []) by (unfold att; rewrite Ht; reflexivity).
    rewrite Ea in Hafter. unfold cellsum in Hafter. simpl in Hafter. rewrite Z.add_0_r, Hb in Hafter.
    eapply finish_runs; [|exact Hafter]. simpl. rewrite Ht. reflexivity.
Qed.

(** ** Store / Reset alone: base := v, a fresh table of zero cells *)

Lemma upd_app_last {A} (l : list A) x y : upd (l ++ [x]) (length l) y = l ++ [y].
Proof. induction l as [|a l IH]; simpl; [reflexivity|]. rewrite IH. reflexivity. Qed.

Lemma upd_app_at {A} (l1 l2 : list A) y : upd (l1 ++ l2) (length l1) y = l1 ++ upd l2 0 y.
Proof. induction l1 as [|a l IH]; simpl; [reflexivity|]. rewrite IH. reflexivity. Qed.

Lemma upd_app_at' {A} (l1 l2 : list A) i y : i = length l1 -> upd (l1 ++ l2) i y = l1 ++ upd l2 0 y.
Proof. intros ->. apply upd_app_at. Qed.

Lemma repeat_snoc {A} (x : A) n : repeat x n ++ [x] = repeat x (S n).
Proof. induction n as [|n IH]; simpl; [reflexivity|]. rewrite IH. reflexivity. Qed.

Lemma nth_error_app_last {A} (l : list A) x : nth_error (l ++ [x]) (length l) = Some x.
Proof. rewrite nth_error_app2 by lia. rewrite Nat.sub_diag. reflexivity. Qed.

Lemma filter_nz_seq a n : filter nz (seq (S a) n) = seq (S a) n.
Proof. revert a; induction n as [|n IH]; intros a; simpl; [reflexivity|]. rewrite IH. reflexivity. Qed.

Lemma era_full_zero (A : list (list nat)) a c : In c (nth a (era (length A) A) []) -> c = O.
Proof.
  revert a; induction A as [|x r IH]; intros a H.
  - destruct a; contradiction.
  - simpl in H. destruct a as [|a].
    + apply repeat_spec in H. exact H.
    + apply (IH a H).
Qed.

Lemma zsum_map_zero {A} (f : A -> Z) l : (forall a, In a l -> f a = 0) -> zsum (map f l) = 0.
Proof.
  induction l as [|a l IH]; intros H; simpl; [reflexivity|].
  rewrite (H a) by (left; reflexivity). rewrite IH; [reflexivity|]. intros b Hb. apply H. right; exact Hb.
Qed.

Section TLoop.
Variable e : ashared.
Variable v : Z.
Variable len : nat.
Let A := a_arrays e.
Let C := a_cells e.
Let arr := length A.
Let n0 := length C.

Definition St (i : nat) : ashared :=
  AS v (a_busy e) (a_table e) (A ++ [seq (S n0) i ++ repeat O (len - i)]) (C ++ repeat 0 i) (a_rnd e).

Lemma T3_step i ret :
  (i < len)%nat ->
  step (T3 arr len i ret) (St i) =
  Next (if (S i <? len)%nat then T3 arr len (S i) ret else T4 arr len ret) (St (S i)).
Proof.
  intros Hi. cbn [astep]. unfold new_cell. cbn [a_cells St a_base a_busy a_table a_arrays a_rnd].
  unfold set_slot. cbn [a_arrays a_base a_busy a_table a_cells a_rnd].
  unfold arr. rewrite nth_error_app_last, upd_app_last.
  assert (E1 : upd (seq (S n0) i ++ repeat O (len - i)) i (S (length (C ++ repeat 0 i))) =
               seq (S n0) (S i) ++ repeat O (len - S i)).
  { rewrite upd_app_at' by (rewrite seq_length; reflexivity).
    rewrite app_length, repeat_length. fold n0.
    replace (len - i)%nat with (S (len - S i)) by lia. simpl upd.
    rewrite seq_S. rewrite <- app_assoc. simpl. reflexivity. }
  assert (E2 : (C ++ repeat 0 i) ++ [0] = C ++ repeat 0 (S i)).
  { rewrite <- app_assoc, repeat_snoc. reflexivity. }
  rewrite E1, E2. unfold St. fold arr. destruct (S i <? len)%nat; reflexivity.
Qed.

Lemma T3_loop ret :
  forall n i, n = (len - i)%nat -> (i < len)%nat ->
  runs (T3 arr len i ret) (St i) ret (set_table (St len) (Some (arr, len))).
Proof.
  induction n as [|n IH]; intros i Hn Hi; [lia|].
  eapply runs_next; [apply T3_step; exact Hi|].
  destruct (Nat.ltb_spec (S i) len) as [Hlt|Hge].
  - apply IH; lia.
  - assert (E : S i = len) by lia. rewrite E. apply runs_done. reflexivity.
Qed.

End TLoop.

Lemma run_T e v ret :
  Glob e -> tabpos e -> nrm v = v ->
  exists e', runs (T1 v ret) e ret e' /\ Good nrm e' /\ a_busy e' = a_busy e /\ value nrm e' = v.
Proof.
  intros G Hpos Hv.
  destruct (a_table e) as [tab|] eqn:Ht.
  - (* a table: replaced by fresh zero cells *)
    pose proof (Hpos tab Ht) as Hlen.
    set (len := snd tab). set (A := a_arrays e). set (C := a_cells e).
    set (e' := set_table (St e v len len) (Some (length A, len))).
    exists e'.
    assert (Hrun : runs (T1 v ret) e ret e').
    { eapply runs_next; [reflexivity|].
      eapply runs_next.
      { cbn [astep]. cbn [a_table set_base]. rewrite Ht. unfold new_array.
        cbn [a_arrays a_base a_busy a_table a_cells a_rnd set_base snd].
        fold len. destruct (Nat.eqb_spec len 0); [lia|]. reflexivity. }
      replace (AS v (a_busy e) (a_table e) (a_arrays e ++ [repeat O len]) (a_cells e) (a_rnd e))
        with (St e v len 0).
      2:{ unfold St. simpl. rewrite Nat.sub_0_r, app_nil_r. reflexivity. }
      apply (T3_loop e v len ret (len - 0) 0 eq_refl). exact Hlen. }
    split; [exact Hrun|].
    assert (EX : seq (S (length C)) len ++ repeat O (len - len) = seq (S (length C)) len).
    { rewrite Nat.sub_diag. apply app_nil_r. }
    assert (Earr : a_arrays e' = A ++ [seq (S (length C)) len]).
    { unfold e', St. simpl. fold A C. rewrite EX. reflexivity. }
    assert (Ecells : a_cells e' = C ++ repeat 0 len) by reflexivity.
    assert (Etab : a_table e' = Some (length A, len)) by reflexivity.
    assert (Haro : arr_of e' (length A) = seq (S (length C)) len).
    { unfold arr_of. rewrite Earr. rewrite app_nth2 by lia. rewrite Nat.sub_diag. reflexivity. }
    assert (Eatt : att e' = seq (S (length C)) len).
    { unfold att. rewrite Etab. simpl fst. rewrite Haro. apply filter_nz_seq. }
    assert (Hcell0 : forall c, In c (seq (S (length C)) len) -> cellval e' c = 0).
    { intros c Hc. apply in_seq in Hc. unfold cellval, get_cell. destruct c as [|j]; [lia|].
      rewrite Ecells. rewrite nth_error_app2 by lia.
      rewrite (nth_error_nth' (repeat 0 len) (j - length C) 0) by (rewrite repeat_length; lia).
      rewrite nth_repeat. reflexivity. }
    split; [|split].
    + exists (length A). split.
      * split; [rewrite Earr, app_length; simpl; lia|]. rewrite Etab. intros tb E. injection E as <-. simpl. lia.
      * assert (Earo' : forall a, arr_of (erase (length A) e') a =
                  if Nat.eqb a (length A) then seq (S (length C)) len else nth a (era (length A) A) []).
        { intros a. unfold arr_of. simpl a_arrays. fold A C. rewrite EX.
          rewrite era_app by lia. rewrite arr_of_app, era_length. reflexivity. }
        assert (Eatt' : att (erase (length A) e') = seq (S (length C)) len).
        { unfold att. change (a_table (erase (length A) e')) with (Some (length A, len)). cbn [fst].
          rewrite Earo', Nat.eqb_refl. apply filter_nz_seq. }
        constructor; rewrite ?Eatt'.
        -- apply (gl_busy G).
        -- exact Hv.
        -- intros tb E. simpl in E. injection E as <-. split; simpl.
           ++ fold A C. rewrite EX, era_length, app_length. simpl. lia.
           ++ rewrite Earo', Nat.eqb_refl, seq_length. lia.
        -- intros tb E. simpl in E. injection E as <-. simpl fst. simpl snd.
           rewrite Earo', Nat.eqb_refl. intros i Hi. apply nth_overflow. rewrite seq_length. exact Hi.
        -- intros _ a c. rewrite Earo'. destruct (Nat.eqb_spec a (length A)).
           ++ intros Hin _. exact Hin.
           ++ intros Hin Hc. apply era_full_zero in Hin. contradiction.
        -- simpl. discriminate.
        -- apply seq_NoDup.
        -- intros c Hc. apply in_seq in Hc. simpl. fold C. rewrite app_length, repeat_length. lia.
    + reflexivity.
    + unfold value. rewrite Eatt. unfold cellsum. rewrite (zsum_map_zero _ _ Hcell0).
      simpl a_base. rewrite Z.add_0_r. exact Hv.
  - (* no table: only the base changes *)
    exists (set_base e v).
    assert (Ea : att (set_base e v) = []) by (unfold att; simpl; rewrite Ht; reflexivity).
    split; [|split; [|split]].
    + eapply runs_next; [reflexivity|]. apply runs_done. simpl. rewrite Ht. reflexivity.
    + apply Glob_Good.
      * eapply Glob_heq; eauto; simpl; try lia. apply (gl_busy G).
      * simpl. rewrite Ht. discriminate.
    + reflexivity.
    + unfold value. rewrite Ea. unfold cellsum. simpl. rewrite Z.add_0_r. exact Hv.
Qed.

(** ** one operation alone *)

Definition op_ok (o : aop) : Prop := match o with Store v => nrm v = v | _ => True end.

Lemma op_glob e o :
  Glob e -> a_busy e = 0 -> tabpos e -> op_ok o ->
  exists e' r, runs (AInv o) e r e' /\ Good nrm e' /\ a_busy e' = 0 /\
               counter_spec vadd (value nrm e) o = (value nrm e', r).
Proof.
  intros G Hb Hpos Hok.
  assert (Hupd : is_update o = true -> exists e' r, runs (AInv o) e r e' /\ Good nrm e' /\ a_busy e' = 0 /\
               (vadd (value nrm e) (delta o), RU) = (value nrm e', r)).
  { intros Hu. destruct (run_update e o G Hb Hpos Hu) as [e' Hr]. exists e', RU.
    destruct (runs_run_fresh _ _ _ _ Hr []) as [n Hn].
    assert (Hup : updates_only [[o]]).
    { intros p o' [<-|[]] [<-|[]]. exact Hu. }
    pose proof (striped_update_phase nrm nrm_add vadd vadd_def f64 maxcells e [[o]] (repeat 0%nat n)
                  (Glob_Good nrm e G Hpos) Hb Hup) as Hph.
    assert (Ef : final M (init apc e tt [[o]]) (repeat 0%nat n) = (Config e' [Thread [] tt None false] : acfg)).
    { unfold final. change (init apc e tt [[o]]) with (Config e [Thread [o] tt None false] : acfg).
      rewrite Hn. reflexivity. }
    cbv zeta in Hph. rewrite Ef in Hph.
    destruct Hph as (Hg & Hb' & Hv).
    { intros th [<-|[]]. auto. }
    split; [exact Hr|]. split; [exact Hg|]. split; [exact Hb'|].
    simpl in Hv. rewrite Hv, vadd_def. unfold total. simpl. rewrite Z.add_0_r. reflexivity. }
  destruct o.
  - apply Hupd. reflexivity.
  - apply Hupd. reflexivity.
  - apply Hupd. reflexivity.
  - (* Sum *)
    exists e, (RZ (value nrm e)). split; [|split; [apply Glob_Good; assumption|split; [exact Hb|reflexivity]]].
    eapply runs_next; [reflexivity|]. apply sum_phase; [exact G|]. simpl. auto.
  - (* Reset *)
    destruct (run_T e 0 RU G Hpos nrm_0) as (e' & Hr & Hg & Hb' & Hv).
    exists e', RU. split; [eapply runs_next; [reflexivity|exact Hr]|].
    split; [exact Hg|]. split; [congruence|]. simpl. rewrite Hv. reflexivity.
  - (* SumAndReset *)
    destruct (run_T e 0 (RZ (value nrm e)) G Hpos nrm_0) as (e' & Hr & Hg & Hb' & Hv).
    exists e', (RZ (value nrm e)). split.
    { eapply runs_next; [reflexivity|]. apply sum_phase; [exact G|]. exact Hr. }
    split; [exact Hg|]. split; [congruence|]. simpl. rewrite Hv. reflexivity.
  - (* Store *)
    destruct (run_T e v RU G Hpos Hok) as (e' & Hr & Hg & Hb' & Hv).
    exists e', RU. split; [eapply runs_next; [reflexivity|exact Hr]|].
    split; [exact Hg|]. split; [congruence|]. simpl. rewrite Hv. reflexivity.
Qed.

Lemma op_good s o :
  Good nrm s -> a_busy s = 0 -> op_ok o ->
  exists s' r, runs (AInv o) s r s' /\ Good nrm s' /\ a_busy s' = 0 /\
               counter_spec vadd (value nrm s) o = (value nrm s', r).
Proof.
  intros (k & Hs & G) Hb Hok.
  assert (Hpos : tabpos (erase k s)).
  { intros tab E. simpl in E. apply (proj2 Hs tab E). }
  destruct (op_glob (erase k s) o G Hb Hpos Hok) as (e' & r & Hr & Hg & Hb' & Hspec).
  destruct (runs_transfer k _ _ _ _ Hr s eq_refl Hs I) as (s' & Hr' & He & Hs').
  exists s', r. split; [exact Hr'|]. subst e'. split; [|split].
  - apply (Good_of_erase k s' Hs' Hg).
  - exact Hb'.
  - rewrite (value_erase nrm k s Hs), (value_erase nrm k s' Hs') in Hspec. exact Hspec.
Qed.

(** ** any list of operations from one goroutine *)

Definition rets (e : list (event aop aret)) : list aret :=
  flat_map (fun x => match x with ERet _ _ r => [r] | _ => [] end) e.

Fixpoint spec_run (v : Z) (ops : list aop) : Z * list aret :=
  match ops with
  | [] => (v, [])
  | o :: r =>
      let '(v1, x) := counter_spec vadd v o in
      let '(v2, xs) := spec_run v1 r in (v2, x :: xs)
  end.

Lemma run_app (c : acfg) s1 s2 :
  run M c (s1 ++ s2) =
  (fst (run M (fst (run M c s1)) s2), snd (run M c s1) ++ snd (run M (fst (run M c s1)) s2)).
Proof.
  revert c; induction s1 as [|t s1 IH]; intros c.
  - simpl. destruct (run M c s2). reflexivity.
  - change ((t :: s1) ++ s2) with (t :: (s1 ++ s2)). rewrite (run_cons c t (s1 ++ s2)), (run_cons c t s1), IH.
    cbn [fst snd]. rewrite app_assoc. reflexivity.
Qed.

Lemma run_idle s m :
  run M (Config s [Thread (@nil aop) tt None false]) (repeat 0%nat m) =
  (Config s [Thread (@nil aop) tt None false], []).
Proof. induction m as [|m IH]; [reflexivity|]. simpl repeat. rewrite run_cons. unfold step_cfg, step_evs. simpl. rewrite IH. reflexivity. Qed.

Lemma rets_app e1 e2 : rets (e1 ++ e2) = rets e1 ++ rets e2.
Proof. unfold rets. apply flat_map_app. Qed.

Theorem striped_sequential_number : forall ops s,
  Good nrm s -> a_busy s = 0 -> Forall op_ok ops ->
  exists n, forall m, (n <= m)%nat ->
    let '(c, e) := run M (Config s [mk_thread apc tt ops]) (repeat 0%nat m) in
    rets e = snd (spec_run (value nrm s) ops) /\
    Good nrm (c_sh c) /\ a_busy (c_sh c) = 0 /\
    value nrm (c_sh c) = fst (spec_run (value nrm s) ops).
Proof.
  induction ops as [|o ops IH]; intros s Hg Hb Hok.
  - exists 0%nat. intros m _. unfold mk_thread. rewrite run_idle. simpl. auto.
  - inversion Hok as [|o' ops' Ho Hops]; subst.
    destruct (op_good s o Hg Hb Ho) as (s1 & r & Hr & Hg1 & Hb1 & Hspec).
    destruct (runs_run_fresh _ _ _ _ Hr ops) as [n1 Hn1].
    destruct (IH s1 Hg1 Hb1 Hops) as [n2 Hn2].
    exists (n1 + n2)%nat. intros m Hm.
    replace m with (n1 + (m - n1))%nat by lia. rewrite repeat_app, run_app.
    unfold mk_thread in *. rewrite Hn1. simpl fst. simpl snd.
    specialize (Hn2 (m - n1)%nat ltac:(lia)).
    destruct (run M (Config s1 [Thread ops tt None false]) (repeat 0%nat (m - n1))) as [c e].
    simpl fst. simpl snd. destruct Hn2 as (H1 & H2 & H3 & H4).
    cbn [spec_run]. rewrite Hspec. destruct (spec_run (value nrm s1) ops) as [v2 xs].
    simpl in *. rewrite H1. auto.
Qed.

(** ** C16: any alternation of single-goroutine phases (all operations) and
    concurrent update phases that have finished *)

Lemma run_length (c : acfg) sched : length (c_thr (fst (run M c sched))) = length (c_thr c).
Proof.
  revert c; induction sched as [|t sched IH]; intros c; [reflexivity|].
  rewrite run_cons. cbn [fst]. rewrite IH. apply step_cfg_length.
Qed.

Lemma seq_done s ops m c e :
  Good nrm s -> a_busy s = 0 -> Forall op_ok ops ->
  run M (Config s [mk_thread apc tt ops]) (repeat 0%nat m) = (c, e) -> all_done c ->
  rets e = snd (spec_run (value nrm s) ops) /\
  Good nrm (c_sh c) /\ a_busy (c_sh c) = 0 /\
  value nrm (c_sh c) = fst (spec_run (value nrm s) ops).
Proof.
  intros Hg Hb Hok Hrun Hdone.
  destruct (striped_sequential_number ops s Hg Hb Hok) as [n Hn].
  specialize (Hn (m + n)%nat ltac:(lia)). rewrite repeat_app, run_app, Hrun in Hn. cbn [fst snd] in Hn.
  assert (Ec : c = Config (c_sh c) [Thread [] tt None false]).
  { pose proof (run_length (Config s [mk_thread apc tt ops]) (repeat 0%nat m)) as Hl.
    rewrite Hrun in Hl. simpl in Hl. destruct c as [sh thr]. simpl in *.
    destruct thr as [|th [|th' thr]]; try discriminate.
    destruct (Hdone th (or_introl eq_refl)) as (H1 & H2 & H3).
    destruct th as [p [] cur d]. simpl in *. subst. reflexivity. }
  rewrite Ec, run_idle in Hn. cbn [fst snd c_sh] in Hn. rewrite app_nil_r in Hn. exact Hn.
Qed.

Inductive reach16 : ashared -> Z -> Prop :=
| r16_init rnd : reach16 (ainit rnd) 0
| r16_seq s v ops m c e :
    reach16 s v -> Forall op_ok ops ->
    run M (Config s [mk_thread apc tt ops]) (repeat 0%nat m) = (c, e) -> all_done c ->
    reach16 (c_sh c) (fst (spec_run v ops))
| r16_conc s v progs sched :
    reach16 s v -> updates_only progs ->
    all_done (final M (init apc s tt progs) sched) ->
    reach16 (c_sh (final M (init apc s tt progs) sched)) (vadd v (total progs)).

Theorem striped_C16_state s v :
  reach16 s v -> Good nrm s /\ a_busy s = 0 /\ value nrm s = v.
Proof.
  induction 1 as [rnd|s v ops m c e _ IH Hok Hrun Hdone|s v progs sched _ IH Hup Hdone].
  - split; [|split; [reflexivity|]].
    + apply Glob_Good; [|discriminate].
      apply (iv_glob (Inv_init nrm nrm_0 rnd [] ltac:(intros p o [])) ).
    + unfold value, att, cellsum. simpl. exact nrm_0.
  - destruct IH as (Hg & Hb & <-).
    destruct (seq_done s ops m c e Hg Hb Hok Hrun Hdone) as (_ & H2 & H3 & H4). auto.
  - destruct IH as (Hg & Hb & <-).
    destruct (striped_update_phase nrm nrm_add vadd vadd_def f64 maxcells s progs sched Hg Hb Hup Hdone)
      as (H1 & H2 & H3).
    split; [exact H1|]. split; [exact H2|]. rewrite H3, vadd_def. reflexivity.
Qed.

(** in every single-goroutine phase the results are those of the plain number *)
Theorem striped_C16 s v ops m c e :
  reach16 s v -> Forall op_ok ops ->
  run M (Config s [mk_thread apc tt ops]) (repeat 0%nat m) = (c, e) -> all_done c ->
  rets e = snd (spec_run v ops).
Proof.
  intros Hr Hok Hrun Hdone. destruct (striped_C16_state s v Hr) as (Hg & Hb & <-).
  apply (seq_done s ops m c e Hg Hb Hok Hrun Hdone).
Qed.

End Seq.
