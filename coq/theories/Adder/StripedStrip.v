(** Programs that mix updates with concurrent [Sum]s.

    A [Sum] never writes: erasing the Sum calls from a configuration ([strip])
    gives a configuration of update-only programs that makes the same steps on
    the same shared states, so the update-only invariant [Inv] holds of
    [strip c] for every reachable [c]. *)
From Coq Require Import List Arith Bool ZArith Lia.
From Garr Require Import Conc.Conc Pure.F64 Adder.StripedModel Adder.AdderSpec Adder.StripedLib
  Adder.StripedInv Adder.StripedPres Adder.StripedProofs Adder.StripedLocal Adder.StripedPhase.
Import ListNotations.
Local Open Scope Z_scope.

Definition rop (o : aop) : Prop := is_update o = true \/ o = Sum.

Definition sumpc (l : apc) : Prop :=
  match l with
  | S1 None | S2 None _ | S3 None _ _ _ | S4 None _ _ _ _ => True
  | _ => False
  end.

Definition strip_cur (cur : option (aop * apc)) : option (aop * apc) :=
  match cur with
  | Some (o, l) => if is_update o then Some (o, l) else None
  | None => None
  end.

Definition strip_th (th : athread) : athread :=
  Thread (filter is_update (t_prog th)) (t_ts th) (strip_cur (t_cur th)) (t_dead th).

Definition strip (c : acfg) : acfg := Config (c_sh c) (map strip_th (c_thr c)).

Definition prog_ok (c : acfg) : Prop :=
  forall t th, nth_error (c_thr c) t = Some th ->
    (forall o, In o (t_prog th) -> rop o) /\
    (forall o l, t_cur th = Some (o, l) -> rop o /\ (o = Sum -> sumpc l)).

Lemma map_upd {A B} (f : A -> B) l i x : map f (upd l i x) = upd (map f l) i (f x).
Proof. revert i; induction l as [|a l IH]; intros [|i]; simpl; auto. rewrite IH. reflexivity. Qed.

Lemma upd_same_id {A} (l : list A) i x : nth_error l i = Some x -> upd l i x = l.
Proof. revert i; induction l as [|a l IH]; intros [|i] H; simpl in *; try discriminate; [congruence|]. rewrite IH; auto. Qed.

Lemma strip_th_upd p ts o l d :
  is_update o = true -> strip_th (Thread p ts (Some (o, l)) d) = Thread (filter is_update p) ts (Some (o, l)) d.
Proof. intros H. unfold strip_th. simpl. rewrite H. reflexivity. Qed.

Section Strip.
Variable vadd : Z -> Z -> Z.
Variable f64 : bool.
Variable maxcells : Z.
Notation step := (astep vadd f64 maxcells).
Notation M := (striped vadd f64 maxcells).

Lemma step_sumpc l s :
  sumpc l ->
  match step l s with
  | Next l' s' => sumpc l' /\ s' = s
  | Done r _ s' => s' = s /\ exists z, r = RZ z
  | Fault => True
  | Blocked => False
  end.
Proof.
  intros H. destruct l; simpl in H; try contradiction; destruct k; try contradiction; clear H; cbn [astep].
  - split; [exact I|reflexivity].
  - destruct (a_table s) as [tab|]; [destruct (snd tab =? 0)%nat|]; cbn [goto fin sumpc]; eauto.
  - destruct (get_slot s (fst tab) i) as [[|c]|]; [| |exact I]; try (destruct (S i <? snd tab)%nat);
      cbn [goto fin sumpc]; eauto.
  - destruct (get_cell s c); [|exact I]. destruct (S i <? snd tab)%nat; cbn [goto fin sumpc]; eauto.
Qed.

(** a step of a mixed configuration is a step of the stripped one, or a stutter *)
Lemma strip_step (c : acfg) t c' e :
  prog_ok c -> step_thread M c t = Some (c', e) ->
  prog_ok c' /\
  (has_dead c' \/
   (strip c' = strip c /\ c_sh c' = c_sh c) \/
   (exists e', step_thread M (strip c) t = Some (strip c', e'))).
Proof.
  intros Hok H.
  destruct (step_after vadd f64 maxcells _ _ _ _ H) as (th & Hn & Hd & Ha).
  destruct (Hok _ _ Hn) as [Hprog Hcur].
  assert (Hn' : nth_error (c_thr (strip c)) t = Some (strip_th th)).
  { simpl. rewrite nth_error_map, Hn. reflexivity. }
  assert (Hok_upd : forall s' th', (forall o, In o (t_prog th') -> rop o) ->
            (forall o l, t_cur th' = Some (o, l) -> rop o /\ (o = Sum -> sumpc l)) ->
            prog_ok (Config s' (upd (c_thr c) t th'))).
  { intros s' th' H1 H2 t' th0 H0. simpl in H0. apply nth_upd_cases in H0.
    destruct H0 as [[-> ->]|[_ H0]]; [auto|]. apply (Hok _ _ H0). }
  destruct (t_cur th) as [[o l]|] eqn:Ec.
  - destruct (Hcur o l eq_refl) as [Hro Hsum].
    destruct (is_update o) eqn:Hu.
    + (* an update call: the same step *)
      unfold after in Ha.
      assert (Hst : step_thread M (strip c) t =
                    match step l (c_sh c) with
                    | Next l' s' => Some (Config s' (upd (map strip_th (c_thr c)) t
                                      (Thread (filter is_update (t_prog th)) (t_ts th) (Some (o, l')) false)), [])
                    | Done r ts' s' => Some (Config s' (upd (map strip_th (c_thr c)) t
                                      (Thread (filter is_update (t_prog th)) ts' None false)), [] ++ [ERet t o r])
                    | Blocked => None
                    | Fault => Some (Config (c_sh c) (upd (map strip_th (c_thr c)) t
                                      (Thread (filter is_update (t_prog th)) (t_ts th) None true)), [] ++ [EFault t o])
                    end).
      { unfold step_thread. rewrite Hn'. unfold view. cbn [strip_th t_dead t_cur t_prog t_ts].
        rewrite Hd, Ec. cbn [strip_cur]. rewrite Hu. cbv beta iota. unfold rest_prog. cbn [t_prog t_ts strip c_sh].
        change (m_step M l (c_sh c)) with (step l (c_sh c)).
        destruct (step l (c_sh c)); reflexivity. }
      destruct (step l (c_sh c)) as [l' s'|r ts' s'| |]; try discriminate; injection Ha as <-.
      * split.
        { apply Hok_upd; simpl; [exact Hprog|]. intros o0 l0 E. injection E as <- <-. split; [exact Hro|].
          intros ->. discriminate. }
        right; right. eexists. rewrite Hst. unfold strip. cbn [c_sh c_thr]. rewrite map_upd.
        rewrite (strip_th_upd _ _ _ _ _ Hu). reflexivity.
      * split.
        { apply Hok_upd; simpl; [exact Hprog|]. intros; discriminate. }
        right; right. eexists. rewrite Hst. unfold strip. simpl. rewrite map_upd. reflexivity.
      * split.
        { apply Hok_upd; simpl; [exact Hprog|]. intros; discriminate. }
        left. eapply has_dead_upd. exact Hn.
    + (* a Sum call: shared state untouched *)
      destruct Hro as [Hro|Hro]; [congruence|subst o]. specialize (Hsum eq_refl).
      pose proof (step_sumpc l (c_sh c) Hsum) as Hs. unfold after in Ha.
      destruct (step l (c_sh c)) as [l' s'|r ts' s'| |]; try contradiction; injection Ha as <-.
      * destruct Hs as [Hl' ->]. split.
        { apply Hok_upd; simpl; [exact Hprog|]. intros o0 l0 E. injection E as <- <-. split; [right; reflexivity|auto]. }
        right; left. split; [|reflexivity]. unfold strip. simpl. rewrite map_upd.
        f_equal. apply upd_same_id. rewrite nth_error_map, Hn. cbn [option_map]. f_equal. unfold strip_th. cbn [t_prog t_ts t_cur t_dead].
        rewrite ?Ec, ?Hp, ?Hd. cbn [strip_cur is_update filter]. reflexivity.
      * destruct Hs as [-> _]. split.
        { apply Hok_upd; simpl; [exact Hprog|]. intros; discriminate. }
        right; left. split; [|reflexivity]. unfold strip. simpl. rewrite map_upd.
        f_equal. apply upd_same_id. destruct ts'. destruct (t_ts th) eqn:Ets.
        rewrite nth_error_map, Hn. cbn [option_map]. f_equal. unfold strip_th. cbn [t_prog t_ts t_cur t_dead].
        rewrite ?Ec, ?Hp, ?Hd, ?Ets. cbn [strip_cur is_update filter]. reflexivity.
      * split.
        { apply Hok_upd; simpl; [exact Hprog|]. intros; discriminate. }
        left. eapply has_dead_upd. exact Hn.
  - destruct Ha as (o & pr & Hp & Ha).
    assert (Hro : rop o) by (apply Hprog; rewrite Hp; left; reflexivity).
    assert (Hpr : forall o', In o' pr -> rop o') by (intros o' Ho'; apply Hprog; rewrite Hp; right; exact Ho').
    destruct (is_update o) eqn:Hu.
    + (* invocation of an update *)
      assert (Hnext : exists x, step (AInv o) (c_sh c) = Next (AddLoadTab x) (c_sh c)).
      { destruct o; try discriminate; eexists; reflexivity. }
      destruct Hnext as [x Hx]. unfold after in Ha. rewrite Hx in Ha. injection Ha as <-.
      split.
      { apply Hok_upd; simpl; [exact Hpr|]. intros o0 l0 E. injection E as <- <-. split; [exact Hro|].
        intros ->. discriminate. }
      right; right. eexists. unfold step_thread. rewrite Hn'. unfold view. cbn [strip_th t_dead t_cur t_prog t_ts].
      rewrite Hd, Ec, Hp. cbn [strip_cur filter]. rewrite Hu. cbv beta iota. unfold rest_prog. cbn [t_prog t_ts strip c_sh strip_th].
      rewrite Hp. cbn [filter]. rewrite Hu. cbn [tl].
      change (m_step M (m_start M (t_ts th) o) (c_sh c)) with (step (AInv o) (c_sh c)). rewrite Hx.
      unfold strip. cbn [c_sh c_thr]. rewrite map_upd. rewrite (strip_th_upd _ _ _ _ _ Hu). reflexivity.
    + (* invocation of a Sum *)
      destruct Hro as [Hro|Hro]; [congruence|subst o]. unfold after in Ha. simpl in Ha. injection Ha as <-.
      split.
      { apply Hok_upd; simpl; [exact Hpr|]. intros o0 l0 E. injection E as <- <-. split; [right; reflexivity|].
        intros _. exact I. }
      right; left. split; [|reflexivity]. unfold strip. simpl. rewrite map_upd.
      f_equal. apply upd_same_id. rewrite nth_error_map, Hn. cbn [option_map]. f_equal. unfold strip_th. cbn [t_prog t_ts t_cur t_dead].
        rewrite ?Ec, ?Hp, ?Hd. cbn [strip_cur is_update filter]. reflexivity.
Qed.

End Strip.
