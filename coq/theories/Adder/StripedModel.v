(** Hand-written step machine for adder/striped64.go + adder/jdkAdder.go and,
    through the [f64] flag, adder/stripedF64.go + adder/jdkF64Adder.go.

    One model step = one sync/atomic (or atomic.Value) access in program
    order + the private code up to the next one; the [copy(rs, as)] of the
    growth path reads shared slots plainly and is a step of its own, marked
    silent.  Heap: [a_arrays] are the backing arrays of the [cells] slices
    (a slot holds 0 = empty or c+1 = cell c), [a_table] is the published
    slice header (array id, len; cap = length of the array), [a_cells] the
    cell values.  Objects are allocated in the shared lists when created and
    stay private until their id is stored into a published location.
    [getRandomInt()] reads the stream [a_rnd] (quantified over in theorems,
    supplied by the fastrand stub in the correspondence runs).

    Values are integers with the addition [vadd] as a parameter: [wadd]
    (int64 wrap-around) for JDKAdder; plain [Z.add] for JDKF64Adder, which is
    exact for the integer-valued floats below 2^53 the float scenarios use
    (the property speaks about exactly representable partial sums only). *)
From Coq Require Import List Arith Bool ZArith.
From Garr Require Import Conc.Conc Pure.F64.
Import ListNotations.
Local Open Scope Z_scope.

Definition wadd (a b : Z) : Z := wrap64 (a + b).

Record ashared := AS {
  a_base : Z;
  a_busy : Z;
  a_table : option (nat * nat);
  a_arrays : list (list nat);
  a_cells : list Z;
  a_rnd : list Z
}.

Inductive aop := Add (x : Z) | Inc | Dec | Sum | Reset | SumAndReset | Store (v : Z).
Inductive aret := RU | RZ (z : Z).

(* registers of accumulate that live across accesses *)
Record acc := Acc { r_x : Z; r_index : Z; r_unc : bool; r_collide : bool }.

Inductive apc :=
| AInv (o : aop)
| AddLoadTab (x : Z)
| AddLoadBase (x : Z)
| AddCasBase (x b : Z)
| AddSlot (x : Z) (tab : nat * nat) (probe : Z)
| AddCellLoad (x probe : Z) (c : nat)
| AddCellCas (x probe : Z) (c : nat) (v : Z)
| L1 (st : acc)
| L2 (st : acc) (tab : nat * nat)
| L3 (st : acc) (tab : nat * nat)
| L3f (st : acc) (r : nat)
| L4 (st : acc) (r : nat)
| L5 (st : acc) (r : nat)
| L6 (st : acc) (r : nat)
| L7 (st : acc) (r : nat) (rs : nat * nat) (j : nat)
| L8 (st : acc) (r : nat) (rs : nat * nat) (j : nat)
| L9 (st : acc) (fin : bool)
| L10 (st : acc) (tab : nat * nat) (c : nat)
| L11 (st : acc) (tab : nat * nat) (c : nat) (v : Z)
| L12 (st : acc) (tab : nat * nat)
| L13 (st : acc) (tab : nat * nat)
| L14 (st : acc) (tab : nat * nat)
| L15 (st : acc) (tab : nat * nat)
| Lcopy (st : acc) (tab : nat * nat) (arr : nat)
| L16 (st : acc) (newtab : nat * nat)
| L17 (st : acc)
| C1 (st : acc)
| C2 (st : acc)
| C3 (st : acc)
| C4 (st : acc)
| C4f (st : acc) (arr r : nat)
| C5 (st : acc) (arr r : nat)
| C6 (st : acc) (arr : nat)
| B1 (st : acc)
| B2 (st : acc) (v : Z)
| S1 (k : option Z)                               (* k = Some _ : inside SumAndReset *)
| S2 (k : option Z) (sum : Z)
| S3 (k : option Z) (sum : Z) (tab : nat * nat) (i : nat)
| S4 (k : option Z) (sum : Z) (tab : nat * nat) (i : nat) (c : nat)
| T1 (v : Z) (ret : aret)
| T2 (ret : aret)
| T3 (arr len i : nat) (ret : aret)
| T4 (arr len : nat) (ret : aret).

Section Striped.
Variable vadd : Z -> Z -> Z.
Variable f64 : bool.
Variable maxcells : Z.

Definition aout := outcome ashared unit apc aret.

Definition limit31 : Z := 2147483647.

Definition take_rnd (s : ashared) : Z * ashared :=
  match a_rnd s with
  | [] => (0, s)
  | r :: rest => (Z.land r limit31, AS (a_base s) (a_busy s) (a_table s) (a_arrays s) (a_cells s) rest)
  end.

Definition xorshift (i : Z) : Z :=
  let i1 := Z.lxor i (wrap64 (Z.shiftl i 13)) in
  let i2 := Z.lxor i1 (Z.shiftr i1 17) in
  Z.lxor i2 (wrap64 (Z.shiftl i2 5)).

Definition get_slot (s : ashared) (arr i : nat) : option nat :=
  match nth_error (a_arrays s) arr with
  | Some a => nth_error a i
  | None => None
  end.

Definition set_slot (s : ashared) (arr i : nat) (c : nat) : ashared :=
  match nth_error (a_arrays s) arr with
  | Some a => AS (a_base s) (a_busy s) (a_table s) (upd (a_arrays s) arr (upd a i c)) (a_cells s) (a_rnd s)
  | None => s
  end.

Definition get_cell (s : ashared) (c : nat) : option Z :=
  match c with O => None | S i => nth_error (a_cells s) i end.

Definition set_cell (s : ashared) (c : nat) (v : Z) : ashared :=
  match c with
  | O => s
  | S i => AS (a_base s) (a_busy s) (a_table s) (a_arrays s) (upd (a_cells s) i v) (a_rnd s)
  end.

Definition set_base (s : ashared) (v : Z) : ashared :=
  AS v (a_busy s) (a_table s) (a_arrays s) (a_cells s) (a_rnd s).
Definition set_busy (s : ashared) (v : Z) : ashared :=
  AS (a_base s) v (a_table s) (a_arrays s) (a_cells s) (a_rnd s).
Definition set_table (s : ashared) (t : option (nat * nat)) : ashared :=
  AS (a_base s) (a_busy s) t (a_arrays s) (a_cells s) (a_rnd s).

(* allocation: returns the new id *)
Definition new_cell (s : ashared) (v : Z) : nat * ashared :=
  (S (length (a_cells s)),
   AS (a_base s) (a_busy s) (a_table s) (a_arrays s) (a_cells s ++ [v]) (a_rnd s)).
Definition new_array (s : ashared) (cap : nat) : nat * ashared :=
  (length (a_arrays s),
   AS (a_base s) (a_busy s) (a_table s) (a_arrays s ++ [repeat O cap]) (a_cells s) (a_rnd s)).

Definition cap_of (s : ashared) (arr : nat) : nat :=
  match nth_error (a_arrays s) arr with Some a => length a | None => O end.

Definition goto (p : apc) (s : ashared) : aout := Next p s.
Definition fin (r : aret) (s : ashared) : aout := Done r tt s.

Definition nmask (tab : nat * nat) : Z := Z.of_nat (snd tab) - 1.
Definition slot_of (index : Z) (tab : nat * nat) : nat := Z.to_nat (Z.land index (nmask tab)).

(* accumulate(index, x, nil, wasUncontended) *)
Definition enter_acc (x index : Z) (unc : bool) (s : ashared) : aout :=
  if index =? 0 then
    let '(r, s') := take_rnd s in goto (L1 (Acc x r true false)) s'
  else goto (L1 (Acc x index unc false)) s.

Definition rehash (st : acc) (s : ashared) : aout :=
  goto (L1 (Acc (r_x st) (xorshift (r_index st)) (r_unc st) (r_collide st))) s.

Definition with_collide (st : acc) (b : bool) : acc := Acc (r_x st) (r_index st) (r_unc st) b.
Definition with_unc (st : acc) (b : bool) : acc := Acc (r_x st) (r_index st) b (r_collide st).
Definition with_index (st : acc) (i : Z) : acc := Acc (r_x st) i (r_unc st) (r_collide st).

Definition astep (l : apc) (s : ashared) : aout :=
  match l with
  | AInv (Add x) => goto (AddLoadTab x) s
  | AInv Inc => goto (AddLoadTab 1) s
  | AInv Dec => goto (AddLoadTab (-1)) s
  | AInv Sum => goto (S1 None) s
  | AInv Reset => goto (T1 0 RU) s
  | AInv SumAndReset => goto (S1 (Some 0)) s
  | AInv (Store v) => goto (T1 v RU) s
  (* ---- Add *)
  | AddLoadTab x =>
      match a_table s with
      | None => goto (AddLoadBase x) s
      | Some tab =>
          if (nmask tab <? 0) then let '(r, s') := take_rnd s in enter_acc x r true s'
          else let '(r, s') := take_rnd s in goto (AddSlot x tab (Z.land r (nmask tab))) s'
      end
  | AddLoadBase x => goto (AddCasBase x (a_base s)) s
  | AddCasBase x b =>
      if a_base s =? b then fin RU (set_base s (vadd b x))
      else let '(r, s') := take_rnd s in enter_acc x r true s'
  | AddSlot x tab probe =>
      match get_slot s (fst tab) (Z.to_nat probe) with
      | None => Fault
      | Some O => enter_acc x probe true s
      | Some c => goto (AddCellLoad x probe c) s
      end
  | AddCellLoad x probe c =>
      match get_cell s c with
      | None => Fault
      | Some v => goto (AddCellCas x probe c v) s
      end
  | AddCellCas x probe c v =>
      match get_cell s c with
      | None => Fault
      | Some cur =>
          if cur =? v then fin RU (set_cell s c (vadd v x))
          else enter_acc x probe false s
      end
  (* ---- accumulate: main loop *)
  | L1 st =>
      match a_table s with
      | None => goto (C1 st) s
      | Some tab => if nmask tab <? 0 then goto (L1 st) s else goto (L2 st tab) s
      end
  | L2 st tab =>
      match get_slot s (fst tab) (slot_of (r_index st) tab) with
      | None => Fault
      | Some O => goto (L3 st tab) s
      | Some c =>
          if negb (r_unc st) then rehash (with_unc st true) s
          else goto (L10 (with_index st (Z.land (r_index st) (nmask tab))) tab c) s
      end
  | L3 st tab =>
      if a_busy s =? 0 then
        let '(r, s') := new_cell s (if f64 then 0 else r_x st) in
        if f64 then goto (L3f st r) s' else goto (L4 st r) s'
      else rehash (with_collide st false) s
  | L3f st r => goto (L4 st r) (set_cell s r (r_x st))
  | L4 st r =>
      if a_busy s =? 0 then goto (L5 st r) s else rehash (with_collide st false) s
  | L5 st r =>
      if a_busy s =? 0 then goto (L6 st r) (set_busy s 1) else rehash (with_collide st false) s
  | L6 st r =>
      match a_table s with
      | None => Fault                                 (* nil.(cells): type assertion panics *)
      | Some rs =>
          if nmask rs <? 0 then goto (L9 st false) s
          else goto (L7 st r rs (slot_of (r_index st) rs)) s
      end
  | L7 st r rs j =>
      match get_slot s (fst rs) j with
      | None => Fault
      | Some O => goto (L8 st r rs j) s
      | Some _ => goto (L9 st false) s
      end
  | L8 st r rs j => goto (L9 st true) (set_slot s (fst rs) j r)
  | L9 st done => if done then fin RU (set_busy s 0) else goto (L1 st) (set_busy s 0)
  | L10 st tab c =>
      match get_cell s c with
      | None => Fault
      | Some v => goto (L11 st tab c v) s
      end
  | L11 st tab c v =>
      match get_cell s c with
      | None => Fault
      | Some cur =>
          if cur =? v then fin RU (set_cell s c (vadd v (r_x st)))
          else if nmask tab >=? maxcells then rehash (with_collide st false) s
          else goto (L12 st tab) s
      end
  | L12 st tab =>
      match a_table s with
      | None => Fault
      | Some cur =>
          if negb (Nat.eqb (fst cur) (fst tab)) then rehash (with_collide st false) s
          else if negb (r_collide st) then rehash (with_collide st true) s
          else goto (L13 st tab) s
      end
  | L13 st tab => if a_busy s =? 0 then goto (L14 st tab) s else rehash st s
  | L14 st tab => if a_busy s =? 0 then goto (L15 st tab) (set_busy s 1) else rehash st s
  | L15 st tab =>
      match a_table s with
      | None => Fault
      | Some rs =>
          if Nat.eqb (fst rs) (fst tab) then
            let n := cap_of s (fst tab) in
            if Nat.ltb (snd tab) n then goto (L16 st (fst rs, n)) s
            else
              let '(arr, s') := new_array s (n * 4) in
              goto (Lcopy st tab arr) s'
          else goto (L17 st) s
      end
  | Lcopy st tab arr =>
      match nth_error (a_arrays s) (fst tab), nth_error (a_arrays s) arr with
      | Some old, Some new =>
          let copied := firstn (snd tab) old ++ skipn (snd tab) new in
          goto (L16 st (arr, (snd tab * 2)%nat))
               (AS (a_base s) (a_busy s) (a_table s) (upd (a_arrays s) arr copied) (a_cells s) (a_rnd s))
      | _, _ => Fault
      end
  | L16 st newtab => goto (L17 st) (set_table s (Some newtab))
  | L17 st => goto (L1 (with_collide st false)) (set_busy s 0)
  (* ---- accumulate: no table yet *)
  | C1 st => if a_busy s =? 0 then goto (C2 st) s else goto (B1 st) s
  | C2 st => match a_table s with None => goto (C3 st) s | Some _ => goto (B1 st) s end
  | C3 st => if a_busy s =? 0 then goto (C4 st) (set_busy s 1) else goto (B1 st) s
  | C4 st =>
      match a_table s with
      | None =>
          let '(arr, s1) := new_array s 4 in
          let '(r, s2) := new_cell s1 (if f64 then 0 else r_x st) in
          if f64 then goto (C4f st arr r) s2 else goto (C5 st arr r) s2
      | Some _ => goto (L9 st false) s
      end
  | C4f st arr r => goto (C5 st arr r) (set_cell s r (r_x st))
  | C5 st arr r => goto (C6 st arr) (set_slot s arr (Z.to_nat (Z.land (r_index st) 1)) r)
  | C6 st arr => goto (L9 st true) (set_table s (Some (arr, 2%nat)))
  | B1 st => goto (B2 st (a_base s)) s
  | B2 st v =>
      if a_base s =? v then fin RU (set_base s (vadd v (r_x st))) else goto (L1 st) s
  (* ---- Sum (and the Sum half of SumAndReset) *)
  | S1 k => goto (S2 k (a_base s)) s
  | S2 k sum =>
      let finish sum := match k with None => fin (RZ sum) s | Some _ => goto (T1 0 (RZ sum)) s end in
      match a_table s with
      | None => finish sum
      | Some tab => if Nat.eqb (snd tab) 0 then finish sum else goto (S3 k sum tab 0%nat) s
      end
  | S3 k sum tab i =>
      let next sum :=
        if Nat.ltb (S i) (snd tab) then goto (S3 k sum tab (S i)) s
        else match k with None => fin (RZ sum) s | Some _ => goto (T1 0 (RZ sum)) s end in
      match get_slot s (fst tab) i with
      | None => Fault
      | Some O => next sum
      | Some c => goto (S4 k sum tab i c) s
      end
  | S4 k sum tab i c =>
      match get_cell s c with
      | None => Fault
      | Some v =>
          let sum' := vadd sum v in
          if Nat.ltb (S i) (snd tab) then goto (S3 k sum' tab (S i)) s
          else match k with None => fin (RZ sum') s | Some _ => goto (T1 0 (RZ sum')) s end
      end
  (* ---- Store / Reset *)
  | T1 v ret => goto (T2 ret) (set_base s v)
  | T2 ret =>
      match a_table s with
      | None => fin ret s
      | Some tab =>
          let '(arr, s') := new_array s (snd tab) in
          if Nat.eqb (snd tab) 0 then goto (T4 arr (snd tab) ret) s'
          else goto (T3 arr (snd tab) 0%nat ret) s'
      end
  | T3 arr len i ret =>
      let '(c, s1) := new_cell s 0 in
      let s2 := set_slot s1 arr i c in
      if Nat.ltb (S i) len then goto (T3 arr len (S i) ret) s2 else goto (T4 arr len ret) s2
  | T4 arr len ret => fin ret (set_table s (Some (arr, len)))
  end.

Definition asilent (l : apc) : bool := match l with Lcopy _ _ _ => true | _ => false end.

Definition striped : machine ashared unit apc aop aret :=
  Machine (fun _ o => AInv o) astep asilent.

End Striped.

Definition ainit (rnd : list Z) : ashared := AS 0 0 None [] [] rnd.

Definition jdk_adder (maxcells : Z) := striped wadd false maxcells.
Definition jdk_f64_adder (maxcells : Z) := striped Z.add true maxcells.
