(** Generic "one goroutine alone behaves like a plain number" argument for the
    simple adders (machines over [aop]/[aret] with thread state [unit]).

    [runs l s r s']: a call at pc [l] running alone from shared state [s]
    returns [r] in state [s'].  If every operation invoked alone from a state
    satisfying [P] runs to completion in a state satisfying [P] again and
    changes the abstract value [val] as [counter_spec] does, then any list of
    operations executed by one thread produces exactly the results of
    [spec_run] (the same [StripedSeq.spec_run] / [StripedSeq.rets] as for the
    striped adder). *)
From Coq Require Import List Arith Bool ZArith Lia.
From Garr Require Import Conc.Conc Adder.StripedModel Adder.AdderSpec Adder.StripedSeq.
Import ListNotations.
Local Open Scope Z_scope.

Notation spec_run := StripedSeq.spec_run.
Notation rets := StripedSeq.rets.

Lemma rets_app' (e1 e2 : list (event aop aret)) : rets (e1 ++ e2) = rets e1 ++ rets e2.
Proof. unfold StripedSeq.rets. apply flat_map_app. Qed.

Section SeqLib.
Variables shared local : Type.
Variable M : machine shared unit local aop aret.
Notation cfg := (config shared unit local aop).

Inductive runs : local -> shared -> aret -> shared -> Prop :=
| runs_done l s r s' : m_step M l s = Done r tt s' -> runs l s r s'
| runs_next l s l1 s1 r s' : m_step M l s = Next l1 s1 -> runs l1 s1 r s' -> runs l s r s'.

Lemma run_cons (c : cfg) t sched :
  run M c (t :: sched) =
  (fst (run M (step_cfg M c t) sched), step_evs M c t ++ snd (run M (step_cfg M c t) sched)).
Proof. cbn [run]. destruct (run M (step_cfg M c t) sched). reflexivity. Qed.

Lemma run_app (c : cfg) s1 s2 :
  run M c (s1 ++ s2) =
  (fst (run M (fst (run M c s1)) s2), snd (run M c s1) ++ snd (run M (fst (run M c s1)) s2)).
Proof.
  revert c; induction s1 as [|t s1 IH]; intros c.
  - simpl. destruct (run M c s2). reflexivity.
  - change ((t :: s1) ++ s2) with (t :: (s1 ++ s2)).
    rewrite (run_cons c t (s1 ++ s2)), (run_cons c t s1), IH.
    cbn [fst snd]. rewrite app_assoc. reflexivity.
Qed.

Lemma run_idle s m :
  run M (Config s [Thread (@nil aop) tt (@None (aop * local)) false]) (repeat 0%nat m) =
  (Config s [Thread (@nil aop) tt None false], []).
Proof.
  induction m as [|m IH]; [reflexivity|]. simpl repeat. rewrite run_cons.
  unfold step_cfg, step_evs. simpl. rewrite IH. reflexivity.
Qed.

Lemma run_length (c : cfg) sched : length (c_thr (fst (run M c sched))) = length (c_thr c).
Proof.
  revert c; induction sched as [|t sched IH]; intros c; [reflexivity|].
  rewrite run_cons. cbn [fst]. rewrite IH. apply step_cfg_length.
Qed.

Lemma step_cur_next s rest o l l1 s1 :
  m_step M l s = Next l1 s1 ->
  step_thread M (Config s [Thread rest tt (Some (o, l)) false]) 0 =
  Some (Config s1 [Thread rest tt (Some (o, l1)) false], []).
Proof. intros E. unfold step_thread. simpl. rewrite E. reflexivity. Qed.

Lemma step_cur_done s rest o l r s1 :
  m_step M l s = Done r tt s1 ->
  step_thread M (Config s [Thread rest tt (Some (o, l)) false]) 0 =
  Some (Config s1 [Thread rest tt None false], [ERet 0%nat o r]).
Proof. intros E. unfold step_thread. simpl. rewrite E. reflexivity. Qed.

Lemma runs_run_cur l s r s' :
  runs l s r s' -> forall o rest, exists n,
  run M (Config s [Thread rest tt (Some (o, l)) false]) (repeat 0%nat n) =
  (Config s' [Thread rest tt None false], [ERet 0%nat o r]).
Proof.
  induction 1 as [l s r s' E|l s l1 s1 r s' E _ IH]; intros o rest.
  - exists 1%nat. simpl repeat. rewrite run_cons. unfold step_cfg, step_evs.
    rewrite (step_cur_done _ rest o _ _ _ E). reflexivity.
  - destruct (IH o rest) as [n Hn]. exists (S n). simpl repeat. rewrite run_cons.
    unfold step_cfg, step_evs. rewrite (step_cur_next _ rest o _ _ _ E). rewrite Hn. reflexivity.
Qed.

Lemma runs_run_fresh o s r s' :
  runs (m_start M tt o) s r s' -> forall rest, exists n,
  run M (Config s [Thread (o :: rest) tt None false]) (repeat 0%nat n) =
  (Config s' [Thread rest tt None false], [EInv 0%nat o; ERet 0%nat o r]).
Proof.
  intros H rest. inversion H as [l s0 r0 s0' E|l s0 l1 s1 r0 s0' E Hr]; subst.
  - exists 1%nat. simpl repeat. rewrite run_cons.
    assert (Es : step_thread M (Config s [Thread (o :: rest) tt None false]) 0 =
                 Some (Config s' [Thread rest tt None false], [EInv 0%nat o; ERet 0%nat o r])).
    { unfold step_thread. cbn [c_thr nth_error]. unfold view. cbn [t_dead t_cur t_prog t_ts c_sh].
      rewrite E. reflexivity. }
    unfold step_cfg, step_evs. rewrite Es. reflexivity.
  - destruct (runs_run_cur _ _ _ _ Hr o rest) as [n Hn]. exists (S n). simpl repeat. rewrite run_cons.
    assert (Es : step_thread M (Config s [Thread (o :: rest) tt None false]) 0 =
                 Some (Config s1 [Thread rest tt (Some (o, l1)) false], [EInv 0%nat o])).
    { unfold step_thread. cbn [c_thr nth_error]. unfold view. cbn [t_dead t_cur t_prog t_ts c_sh].
      rewrite E. reflexivity. }
    unfold step_cfg, step_evs. rewrite Es, Hn. reflexivity.
Qed.

(** ** any list of operations from one goroutine *)
Variable vadd : Z -> Z -> Z.
Variable P : shared -> Prop.
Variable val : shared -> Z.
Variable ok : aop -> Prop.
Hypothesis op_alone : forall s o, P s -> ok o ->
  exists s' r, runs (m_start M tt o) s r s' /\ P s' /\
               counter_spec vadd (val s) o = (val s', r).

Theorem sequential_number_gen : forall ops s,
  P s -> Forall ok ops ->
  exists n, forall m, (n <= m)%nat ->
    let '(c, e) := run M (Config s [mk_thread local tt ops]) (repeat 0%nat m) in
    rets e = snd (spec_run vadd (val s) ops) /\
    P (c_sh c) /\
    val (c_sh c) = fst (spec_run vadd (val s) ops).
Proof.
  induction ops as [|o ops IH]; intros s Hp Hok.
  - exists 0%nat. intros m _. unfold mk_thread. rewrite run_idle. simpl. auto.
  - inversion Hok as [|o' ops' Ho Hops]; subst.
    destruct (op_alone s o Hp Ho) as (s1 & r & Hr & Hp1 & Hspec).
    destruct (runs_run_fresh _ _ _ _ Hr ops) as [n1 Hn1].
    destruct (IH s1 Hp1 Hops) as [n2 Hn2].
    exists (n1 + n2)%nat. intros m Hm.
    replace m with (n1 + (m - n1))%nat by lia. rewrite repeat_app, run_app.
    unfold mk_thread in *. rewrite Hn1. simpl fst. simpl snd.
    specialize (Hn2 (m - n1)%nat ltac:(lia)).
    destruct (run M (Config s1 [Thread ops tt None false]) (repeat 0%nat (m - n1))) as [c e].
    simpl fst. simpl snd. destruct Hn2 as (H1 & H2 & H3).
    cbn [StripedSeq.spec_run]. rewrite Hspec. destruct (spec_run vadd (val s1) ops) as [v2 xs].
    simpl in *. rewrite H1. auto.
Qed.

Lemma seq_done_gen s ops m c e :
  P s -> Forall ok ops ->
  run M (Config s [mk_thread local tt ops]) (repeat 0%nat m) = (c, e) -> all_done c ->
  rets e = snd (spec_run vadd (val s) ops) /\
  P (c_sh c) /\
  val (c_sh c) = fst (spec_run vadd (val s) ops).
Proof.
  intros Hp Hok Hrun Hdone.
  destruct (sequential_number_gen ops s Hp Hok) as [n Hn].
  specialize (Hn (m + n)%nat ltac:(lia)). rewrite repeat_app, run_app, Hrun in Hn. cbn [fst snd] in Hn.
  assert (Ec : c = Config (c_sh c) [Thread [] tt None false]).
  { pose proof (run_length (Config s [mk_thread local tt ops]) (repeat 0%nat m)) as Hl.
    rewrite Hrun in Hl. simpl in Hl. destruct c as [sh thr]. simpl in *.
    destruct thr as [|th [|th' thr]]; try discriminate.
    destruct (Hdone th (or_introl eq_refl)) as (H1 & H2 & H3).
    destruct th as [p [] cur d]. simpl in *. subst. reflexivity. }
  rewrite Ec, run_idle in Hn. cbn [fst snd c_sh] in Hn. rewrite app_nil_r in Hn. exact Hn.
Qed.

End SeqLib.

Arguments runs {shared local}.
Arguments runs_done {shared local}.
Arguments runs_next {shared local}.
Arguments sequential_number_gen {shared local}.
Arguments seq_done_gen {shared local}.
