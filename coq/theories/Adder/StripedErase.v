(** Forgetting dead arrays.

    [Store]/[Reset]/[SumAndReset] replace the table by a fresh array and leave
    the old arrays (with their old cell ids) behind; no thread that starts later
    can reach them.  [erase k s] zeroes the arrays with an id below [k]; a thread
    whose array registers are all [>= k] behaves identically on [s] and on
    [erase k s], so every result about states satisfying [Glob] transfers to
    states whose erasure satisfies [Glob]. *)
From Coq Require Import List Arith Bool ZArith Lia.
From Garr Require Import Conc.Conc Pure.F64 Adder.StripedModel Adder.AdderSpec Adder.StripedLib
  Adder.StripedInv.
Import ListNotations.
Local Open Scope Z_scope.

Fixpoint era (k : nat) (arrs : list (list nat)) : list (list nat) :=
  match k, arrs with
  | S k', a :: r => repeat O (length a) :: era k' r
  | _, _ => arrs
  end.

Definition erase (k : nat) (s : ashared) : ashared :=
  AS (a_base s) (a_busy s) (a_table s) (era k (a_arrays s)) (a_cells s) (a_rnd s).

Lemma era_0 arrs : era 0 arrs = arrs.
Proof. destruct arrs; reflexivity. Qed.

Lemma era_length k arrs : length (era k arrs) = length arrs.
Proof. revert arrs; induction k as [|k IH]; intros [|a r]; simpl; auto. Qed.

Lemma era_nth_error_ge k arrs a : (k <= a)%nat -> nth_error (era k arrs) a = nth_error arrs a.
Proof.
  revert arrs a; induction k as [|k IH]; intros [|x r] a H; simpl; auto.
  destruct a; [lia|]. simpl. apply IH. lia.
Qed.

Lemma era_nth_error_lt k arrs a x :
  (a < k)%nat -> nth_error arrs a = Some x -> nth_error (era k arrs) a = Some (repeat O (length x)).
Proof.
  revert arrs a; induction k as [|k IH]; intros [|y r] a H E; simpl; try lia; try (destruct a; discriminate).
  destruct a; simpl in *.
  - injection E as ->. reflexivity.
  - apply IH; [lia|exact E].
Qed.

Lemma era_nth_error_length k arrs a :
  option_map (@length nat) (nth_error (era k arrs) a) = option_map (@length nat) (nth_error arrs a).
Proof.
  destruct (Nat.ltb_spec a k).
  - destruct (nth_error arrs a) as [x|] eqn:E.
    + rewrite (era_nth_error_lt _ _ _ _ H E). simpl. rewrite repeat_length. reflexivity.
    + assert (nth_error (era k arrs) a = None).
      { apply nth_error_None. rewrite era_length. apply nth_error_None. exact E. }
      rewrite H0. reflexivity.
  - rewrite era_nth_error_ge by lia. reflexivity.
Qed.

Lemma era_app k arrs x : (k <= length arrs)%nat -> era k (arrs ++ [x]) = era k arrs ++ [x].
Proof.
  revert arrs; induction k as [|k IH]; intros arrs H.
  - rewrite !era_0. reflexivity.
  - destruct arrs as [|a r]; simpl in *; [lia|]. rewrite IH by lia. reflexivity.
Qed.

Lemma era_upd k arrs a x : (k <= a)%nat -> era k (upd arrs a x) = upd (era k arrs) a x.
Proof.
  revert arrs a; induction k as [|k IH]; intros arrs a H.
  - rewrite !era_0. reflexivity.
  - destruct arrs as [|y r]; simpl; [reflexivity|]. destruct a; [lia|]. simpl.
    rewrite IH by lia. reflexivity.
Qed.

Lemma era_era k k' arrs : (k <= k')%nat -> era k' (era k arrs) = era k' arrs.
Proof.
  revert k arrs; induction k' as [|k' IH]; intros k arrs H.
  - assert (k = 0%nat) by lia. subst. rewrite !era_0. reflexivity.
  - destruct k as [|k]; [rewrite era_0; reflexivity|].
    destruct arrs as [|a r]; simpl; [reflexivity|]. rewrite repeat_length, IH by lia. reflexivity.
Qed.

(** ** the operations of the model commute with [erase] *)

Definition omap (f : ashared -> ashared) (o : outcome ashared unit apc aret) : outcome ashared unit apc aret :=
  match o with
  | Next l s => Next l (f s)
  | Done r ts s => Done r ts (f s)
  | Blocked => Blocked
  | Fault => Fault
  end.

Lemma E_take_rnd k s : take_rnd (erase k s) = (fst (take_rnd s), erase k (snd (take_rnd s))).
Proof. unfold take_rnd. simpl. destruct (a_rnd s); reflexivity. Qed.

Lemma E_get_slot k s a i : (k <= a)%nat -> get_slot (erase k s) a i = get_slot s a i.
Proof. intros H. unfold get_slot. simpl. rewrite era_nth_error_ge by exact H. reflexivity. Qed.

Lemma E_set_slot k s a i c : (k <= a)%nat -> set_slot (erase k s) a i c = erase k (set_slot s a i c).
Proof.
  intros H. unfold set_slot. simpl. rewrite era_nth_error_ge by exact H.
  destruct (nth_error (a_arrays s) a); [|reflexivity]. unfold erase. simpl. rewrite era_upd by exact H. reflexivity.
Qed.

Lemma E_get_cell k s c : get_cell (erase k s) c = get_cell s c.
Proof. destruct c; reflexivity. Qed.

Lemma E_set_cell k s c v : set_cell (erase k s) c v = erase k (set_cell s c v).
Proof. destruct c; reflexivity. Qed.

Lemma E_new_array k s n :
  (k <= length (a_arrays s))%nat ->
  new_array (erase k s) n = (fst (new_array s n), erase k (snd (new_array s n))).
Proof.
  intros H. unfold new_array, erase. simpl. rewrite era_length, era_app by exact H. reflexivity.
Qed.

Lemma E_cap_of k s a : cap_of (erase k s) a = cap_of s a.
Proof.
  unfold cap_of. simpl. pose proof (era_nth_error_length k (a_arrays s) a) as H.
  destruct (nth_error (era k (a_arrays s)) a), (nth_error (a_arrays s) a); simpl in H; congruence.
Qed.

Lemma E_enter_acc k x i u s : enter_acc x i u (erase k s) = omap (erase k) (enter_acc x i u s).
Proof.
  unfold enter_acc. destruct (i =? 0); [|reflexivity].
  rewrite E_take_rnd. destruct (take_rnd s). reflexivity.
Qed.

(** array ids held in registers *)
Definition regs_ge (k : nat) (l : apc) : Prop :=
  match l with
  | AddSlot _ tab _ | L2 _ tab | L3 _ tab | L10 _ tab _ | L11 _ tab _ _
  | L12 _ tab | L13 _ tab | L14 _ tab | L15 _ tab | L7 _ _ tab _ | L8 _ _ tab _ | L16 _ tab
  | S3 _ _ tab _ | S4 _ _ tab _ _ => (k <= fst tab)%nat
  | Lcopy _ tab arr => (k <= fst tab)%nat /\ (k <= arr)%nat
  | C4f _ arr _ | C5 _ arr _ | C6 _ arr | T3 arr _ _ _ | T4 arr _ _ => (k <= arr)%nat
  | _ => True
  end.

Definition st_ge (k : nat) (s : ashared) : Prop :=
  (k <= length (a_arrays s))%nat /\ forall tab, a_table s = Some tab -> (k <= fst tab)%nat.

Lemma st_ge_erase k s : st_ge k s -> st_ge k (erase k s).
Proof. intros [H1 H2]. split; simpl; [rewrite era_length; exact H1|exact H2]. Qed.

Section Sim.
Variable vadd : Z -> Z -> Z.
Variable f64 : bool.
Variable maxcells : Z.
Notation step := (astep vadd f64 maxcells).
Notation M := (striped vadd f64 maxcells).

Ltac brk :=
  repeat match goal with
  | |- context [take_rnd (erase ?k ?s)] => rewrite (E_take_rnd k s)
  | |- context [take_rnd ?s] => destruct (take_rnd s)
  | |- context [enter_acc ?x ?i ?u (erase ?k ?s)] => rewrite (E_enter_acc k x i u s)
  | |- context [match a_table ?s with _ => _ end] => destruct (a_table s) eqn:?
  | |- context [if ?b then _ else _] => destruct b eqn:?
  | |- context [match get_slot ?s ?a ?i with _ => _ end] => destruct (get_slot s a i) as [[|?]|] eqn:?
  | |- context [match get_cell ?s ?c with _ => _ end] => destruct (get_cell s c) eqn:?
  | |- context [match enter_acc ?x ?i ?u ?s with _ => _ end] => destruct (enter_acc x i u s)
  end; cbn [fst snd omap goto fin].

Lemma astep_erase k l s :
  regs_ge k l -> st_ge k s -> step l (erase k s) = omap (erase k) (step l s).
Proof.
  intros Hr [Hk Ht].
  destruct l; cbn [regs_ge] in Hr; cbn [astep];
    rewrite ?E_get_cell, ?E_cap_of, ?E_get_slot, ?E_set_slot, ?E_set_cell by (try apply Hr; auto);
    change (a_table (erase k s)) with (a_table s);
    change (a_busy (erase k s)) with (a_busy s);
    change (a_base (erase k s)) with (a_base s);
    try reflexivity.
  all: try (brk; try reflexivity; fail).
  all: try (destruct o; reflexivity).
  - (* L15 *)
    destruct (a_table s) as [rs|] eqn:Et; [|reflexivity].
    destruct (fst rs =? fst tab)%nat; [|reflexivity].
    destruct (snd tab <? cap_of s (fst tab))%nat; [reflexivity|].
    rewrite E_new_array by exact Hk. reflexivity.
  - (* Lcopy *)
    destruct Hr as [H1 H2]. simpl a_arrays. rewrite !era_nth_error_ge by assumption.
    destruct (nth_error (a_arrays s) (fst tab)); [|reflexivity].
    destruct (nth_error (a_arrays s) arr); [|reflexivity].
    unfold goto, omap, erase. simpl. rewrite era_upd by exact H2. reflexivity.
  - (* C4 *)
    destruct (a_table s); [reflexivity|]. rewrite E_new_array by exact Hk. simpl.
    destruct f64; reflexivity.
  - (* T2 *)
    destruct (a_table s) as [tb|]; [|reflexivity]. rewrite E_new_array by exact Hk. simpl.
    destruct (snd tb =? 0)%nat; reflexivity.
  - (* T3 *)
    simpl. change (AS (a_base s) (a_busy s) (a_table s) (era k (a_arrays s)) (a_cells s ++ [0]) (a_rnd s))
      with (erase k (snd (new_cell s 0))).
    rewrite E_set_slot by exact Hr. simpl. destruct (S i <? len)%nat; reflexivity.
Qed.
End Sim.
