(** Atomic adders (adder/atomicAdder.go, adder/atomicF64Adder.go): without
    SumAndReset (a load followed by a store) every call takes effect at its
    single atomic access - the successful CAS for the float variant. *)
From Coq Require Import List Arith Bool ZArith Lia.
From Garr Require Import Conc.Conc Conc.Lin Pure.F64
     Adder.StripedModel Adder.SimpleModel Adder.AdderSpec Adder.SimpleMutex.
Import ListNotations.

Definition no_sar (progs : list (list aop)) : Prop :=
  forall p o, In p progs -> In o p -> o <> SumAndReset.

Definition tlp (o : aop) (l : tpc) (s : Z) : bool :=
  match l with
  | TAdd _ => true | TSum => true | TStore _ _ => true
  | TCas _ old => Z.eqb s old           (* the successful CAS of the float variant *)
  | _ => false
  end.

Section AtomicProofs.
Variable vadd : Z -> Z -> Z.
Variable f64 : bool.

Notation M := (atomic_machine vadd f64).
Notation tcfg := (config Z unit tpc aop).
Notation tg := (gstate aret Z).

Definition upd_of (o : aop) (x : Z) : Prop := is_update o = true /\ delta o = x.

Lemma upd_of_spec o x a : upd_of o x -> counter_spec vadd a o = (vadd a x, RU).
Proof. intros [Hu <-]. destruct o; try discriminate; reflexivity. Qed.

Definition ttok (th : thread unit tpc aop) (pend : option aret) : Prop :=
  t_dead th = false /\
  (forall o, In o (t_prog th) -> o <> SumAndReset) /\
  match t_cur th with
  | None => pend = None
  | Some (o, TInv o') => o = o' /\ o <> SumAndReset /\ pend = None
  | Some (o, TAdd x) => upd_of o x /\ pend = None
  | Some (o, TLoad x) => upd_of o x /\ pend = None
  | Some (o, TCas x old) => upd_of o x /\ pend = None
  | Some (o, TSum) => o = Sum /\ pend = None
  | Some (o, TSRLoad) => False
  | Some (o, TStore v ret) =>
      ret = RU /\ ((o = Reset /\ v = 0%Z) \/ o = Store v) /\ pend = None
  end.

Record TI (c : tcfg) (g : tg) : Prop := {
  ti_abs : g_abs g = c_sh c;
  ti_len : length (g_pend g) = length (c_thr c);
  ti_thr : forall t th, nth_error (c_thr c) t = Some th -> ttok th (pend_of g t)
}.

Arguments ti_abs {c g}. Arguments ti_len {c g}. Arguments ti_thr {c g}.

Lemma TI_init progs : no_sar progs ->
  TI (init tpc 0%Z tt progs) (ginit aret 0%Z (length progs)).
Proof.
  intros Hns. constructor; simpl.
  - reflexivity.
  - rewrite repeat_length, map_length. reflexivity.
  - intros t th H. apply nth_error_In in H. apply in_map_iff in H.
    destruct H as [p [<- Hp]]. unfold ttok, pend_of; simpl. split; [reflexivity|].
    split; [intros o Ho; eapply Hns; eauto|].
    destruct (Nat.ltb_spec t (length progs)).
    + rewrite nth_repeat. reflexivity.
    + rewrite nth_overflow; [reflexivity|]. rewrite repeat_length. assumption.
Qed.

Lemma TI_update c g t th th' sh' g' :
  TI c g -> nth_error (c_thr c) t = Some th ->
  length (g_pend g') = length (g_pend g) ->
  (forall t', t' <> t -> pend_of g' t' = pend_of g t') ->
  g_abs g' = sh' ->
  ttok th' (pend_of g' t) ->
  TI (Config sh' (upd (c_thr c) t th')) g'.
Proof.
  intros HI Hn Hlen Hoth Habs Htok.
  assert (Hnth : forall t', nth_error (upd (c_thr c) t th') t' =
                            if Nat.eqb t t' then Some th' else nth_error (c_thr c) t').
  { intros t'. rewrite nth_error_upd, Hn. reflexivity. }
  constructor; simpl.
  - exact Habs.
  - rewrite Hlen, upd_length. apply (ti_len HI).
  - intros t' th0 H0. rewrite Hnth in H0.
    destruct (Nat.eqb_spec t t') as [<-|Hne].
    + injection H0 as <-. exact Htok.
    + rewrite Hoth by congruence. apply (ti_thr HI); exact H0.
Qed.

Ltac tnorm :=
  repeat first
    [ rewrite do_ret_length | rewrite do_lp_length | rewrite abs_do_lp | rewrite ok_do_lp
    | rewrite pend_do_ret_same by (rewrite ?do_lp_length; assumption)
    | rewrite pend_do_lp_same by assumption
    | rewrite pend_do_ret_other by assumption | rewrite pend_do_lp_other by assumption ].

Lemma TI_step c g t :
  TI c g -> g_ok g = true ->
  TI (step_cfg M c t) (gstep M aret_eqb (counter_spec vadd) tlp c g t) /\
  g_ok (gstep M aret_eqb (counter_spec vadd) tlp c g t) = true.
Proof.
  intros HI Hok.
  destruct (nth_error (c_thr c) t) as [th|] eqn:Hn.
  2:{ unfold step_cfg, step_thread, gstep. rewrite Hn. split; assumption. }
  destruct (ti_thr HI _ _ Hn) as (Hdead & Hprog & Htok).
  assert (Hltp : t < length (g_pend g)). { rewrite (ti_len HI). eapply nth_error_lt'; eauto. }
  pose proof (ti_abs HI) as Habs.
  unfold step_cfg, step_thread, gstep. rewrite Hn. unfold view. rewrite Hdead.
  destruct (t_cur th) as [[o l]|] eqn:Hcur.
  2:{ destruct (t_prog th) as [|o rest] eqn:Hprg.
      - split; assumption.
      - assert (Ho : o <> SumAndReset) by (apply Hprog; left; reflexivity).
        assert (Hrest : forall o', In o' rest -> o' <> SumAndReset)
          by (intros o' Ho'; apply Hprog; right; exact Ho').
        destruct o; try congruence; simpl; destruct f64; simpl; (split; [|exact Hok]);
          (eapply TI_update with (c := c) (th := th);
           [ exact HI | exact Hn | reflexivity | reflexivity | exact Habs
           | unfold ttok, upd_of; simpl; rewrite ?Hprg; simpl; auto 10 ]).
  }
  destruct l as [o'|x|x|x old| | |v ret]; simpl in Htok.
  - (* TInv stored *)
    destruct Htok as (-> & Ho & Hp).
    destruct o'; try congruence; simpl; destruct f64; simpl; (split; [|exact Hok]);
      (eapply TI_update with (c := c) (th := th);
       [ exact HI | exact Hn | reflexivity | reflexivity | exact Habs
       | unfold ttok, upd_of; simpl; auto 10 ]).
  - (* TAdd *)
    destruct Htok as (Hu & Hp). simpl.
    split; [| tnorm; rewrite Hok, Hp; simpl; tnorm; rewrite (upd_of_spec _ _ _ Hu); reflexivity].
    eapply TI_update with (c := c) (th := th);
      [ exact HI | exact Hn | tnorm; reflexivity | intros; tnorm; reflexivity
      | simpl; tnorm; rewrite (upd_of_spec _ _ _ Hu), Habs; reflexivity
      | unfold ttok; simpl; tnorm; auto ].
  - (* TLoad *)
    destruct Htok as (Hu & Hp). simpl. split; [|exact Hok].
    eapply TI_update with (c := c) (th := th);
       [ exact HI | exact Hn | reflexivity | reflexivity | exact Habs
       | unfold ttok; simpl; auto 10 ].
  - (* TCas *)
    destruct Htok as (Hu & Hp). simpl.
    destruct (Z.eqb_spec (c_sh c) old) as [E|E]; simpl.
    + split; [| tnorm; rewrite Hok, Hp; simpl; tnorm; rewrite (upd_of_spec _ _ _ Hu); reflexivity].
      eapply TI_update with (c := c) (th := th);
        [ exact HI | exact Hn | tnorm; reflexivity | intros; tnorm; reflexivity
        | simpl; tnorm; rewrite (upd_of_spec _ _ _ Hu), Habs, E; reflexivity
        | unfold ttok; simpl; tnorm; auto ].
    + split; [|exact Hok].
      eapply TI_update with (c := c) (th := th);
       [ exact HI | exact Hn | reflexivity | reflexivity | exact Habs
       | unfold ttok; simpl; auto 10 ].
  - (* TSum *)
    destruct Htok as (-> & Hp). simpl.
    split; [| tnorm; rewrite Hok, Hp; simpl; tnorm; simpl; rewrite Habs, Z.eqb_refl; reflexivity].
    eapply TI_update with (c := c) (th := th);
      [ exact HI | exact Hn | tnorm; reflexivity | intros; tnorm; reflexivity
      | simpl; tnorm; simpl; exact Habs
      | unfold ttok; simpl; tnorm; auto ].
  - contradiction.
  - (* TStore *)
    destruct Htok as (-> & Hs & Hp). simpl.
    assert (Hsp : counter_spec vadd (g_abs g) o = (v, RU)).
    { destruct Hs as [[-> ->]| ->]; reflexivity. }
    split; [| tnorm; rewrite Hok, Hp; simpl; tnorm; rewrite Hsp; reflexivity].
    eapply TI_update with (c := c) (th := th);
      [ exact HI | exact Hn | tnorm; reflexivity | intros; tnorm; reflexivity
      | simpl; tnorm; rewrite Hsp; reflexivity
      | unfold ttok; simpl; tnorm; auto ].
Qed.

Theorem atomic_linearizable_gen progs sched : no_sar progs ->
  lin_ok M aret_eqb (counter_spec vadd) tlp 0%Z tt 0%Z progs sched = true.
Proof.
  intros Hns. unfold lin_ok.
  apply (lin_by_invariant M aret_eqb (counter_spec vadd) tlp TI).
  - apply TI_init; exact Hns.
  - reflexivity.
  - intros c g t HI Hok. apply TI_step; assumption.
Qed.

End AtomicProofs.

Theorem atomic_adder_linearizable : forall progs sched, no_sar progs ->
  lin_ok atomic_adder aret_eqb (counter_spec wadd) tlp 0%Z tt 0%Z progs sched = true.
Proof. intros progs sched H. apply atomic_linearizable_gen; exact H. Qed.

Print Assumptions atomic_adder_linearizable.

Theorem atomic_f64_adder_linearizable : forall progs sched, no_sar progs ->
  lin_ok atomic_f64_adder aret_eqb (counter_spec Z.add) tlp 0%Z tt 0%Z progs sched = true.
Proof. intros progs sched H. apply atomic_linearizable_gen; exact H. Qed.

Print Assumptions atomic_f64_adder_linearizable.
