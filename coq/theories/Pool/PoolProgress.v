(** Safety of the worker pool, part 14 (stretch goal D): no deadlock while an
    accepted task is waiting for its result.

    In every reachable configuration of a STARTED pool (state word >= 1) with
    at least one fixed worker and enough goroutine slots, if an accepted task
    has not got its result yet and no executor is waiting at a closed gate,
    then some thread of the configuration can take a step.  (The hypothesis on
    the gates cannot be weakened to the gate of the awaited task alone: see
    [PoolSafeExamples.closed_gate_deadlock].) *)
From Coq Require Import List Arith Bool ZArith Lia.
From Garr Require Import Conc.Conc Pure.F64 Queue.MutexModel Pool.PoolModel Pool.PoolBase Pool.PoolInv1 Pool.PoolTok
  Pool.PoolStop Pool.PoolStopMain Pool.PoolWg Pool.PoolCap Pool.PoolMain Pool.PoolStopDone Pool.PoolAcct Pool.PoolHist
  Pool.PoolAfterStop Pool.PoolSelect Pool.PoolTimers Pool.PoolLive.
Import ListNotations.

Section NotBlocked.
Variable nw : nat.
Variable lim : Z.
Variable nc : nat.

Lemma futlen_of_holder s ps x : Inv2 s ps -> 1 <= H0 x ps + H1 x ps -> futlen s x = 0.
Proof. intros HI2 H. pose proof (t_tok _ _ HI2 x) as Ht. unfold tokens in Ht. lia. Qed.

Lemma future_send_ok s ps x r :
  Inv2 s ps -> 1 <= H0 x ps + H1 x ps -> future_send s x r <> Some None.
Proof.
  intros HI2 H. pose proof (futlen_of_holder _ _ _ HI2 H) as Hf. unfold futlen in Hf. unfold future_send.
  destruct (get_task s x) as [t|]; [|discriminate]. rewrite Hf. simpl. discriminate.
Qed.

(* a running worker goroutine can always take a step, provided a receive from the queue would
   not block (the queue is closed or non-empty) unless the worker holds a task, and its executor
   is not waiting at a closed gate *)
Lemma worker_not_blocked s ps i pr l :
  Inv1 nc s ps -> Inv2 s ps -> InvT s ps ->
  nth_error ps i = Some (pr, Some l) -> worker_pc l = true ->
  (tokw l = None -> queue_recv_ready s = true) ->
  (forall tm y t, l = EGate tm y -> get_task s y = Some t -> gate_open s (tk_gate t) = true) ->
  pstep nw lim l s <> Blocked.
Proof.
  intros HI1 HI2 HIT Hn Hw Hq Hg.
  assert (G0 : forall x, h0 x (pr, Some l) <= H0 x ps) by (intros x; eapply H0_ge; eauto).
  assert (G1 : forall x, h1 x (pr, Some l) <= H1 x ps) by (intros x; eapply H1_ge; eauto).
  pose proof (cntp_ge is_xdrt _ _ _ Hn) as Gx. rewrite (u_nd _ _ HIT) in Gx.
  unfold h0, h1, pcf in *. simpl in G0, G1, Gx.
  destruct l; try discriminate Hw; simpl in Hq |- *.
  - rewrite (Hq eq_refl). destruct (p_queue s); discriminate.
  - destruct (p_wg s); discriminate.
  - destruct (get_task s id); [|discriminate]. destruct (tk_gate t); discriminate.
  - destruct (get_task s id) as [t|] eqn:Eg; [|discriminate]. rewrite (Hg tm id t eq_refl Eg). discriminate.
  - discriminate.
  - specialize (G1 id). simpl in G1. rewrite eqn_refl in G1.
    pose proof (future_send_ok s ps id (TVal id) HI2 ltac:(lia)) as Hf.
    destruct (future_send s id (TVal id)) as [[s1|]|]; try discriminate; [|congruence].
    unfold after_task. destruct tm; discriminate.
  - discriminate.
  - unfold timer_get. destruct tm; [discriminate|]. destruct (nth_error (p_timers s) tm) as [x|]; [|discriminate].
    rewrite take_choice_eq. rewrite (Hq eq_refl).
    destruct (pick_ready (ready_cases [true; tm_fired x]) (hd 0 (p_choices s))) as [k|] eqn:Ep.
    + destruct k; [destruct (p_queue s); discriminate|discriminate].
    + exfalso. revert Ep. apply pick_ready_nonempty. destruct (tm_fired x); discriminate.
  - unfold timer_get. destruct tm; [discriminate|]. destruct (nth_error (p_timers s) tm) as [x|]; [|discriminate].
    destruct (tm_armed x || tm_fired x); destruct got; discriminate.
  - simpl in Gx. lia.
  - unfold timer_get. destruct tm; [discriminate|]. destruct (nth_error (p_timers s) tm); discriminate.
  - discriminate.
  - destruct (p_wg s); discriminate.
Qed.

Lemma slot_not_blocked s k r :
  nth_error (p_spawned s) k = Some r -> queue_recv_ready s = true -> pstep nw lim (PInv (Slot k)) s <> Blocked.
Proof.
  intros Hk Hq. simpl. rewrite Hk, Hq. destruct r; [destruct (p_queue s)|]; discriminate.
Qed.

(* a thread holding the read lock can always take a step once the pool context is cancelled *)
Lemma reader_not_blocked s ps i pr l :
  Inv2 s ps -> nth_error ps i = Some (pr, Some l) -> is_reader l = true -> p_poolctx s = true ->
  pstep nw lim l s <> Blocked.
Proof.
  intros HI2 Hn Hr Hctx.
  assert (G0 : forall x, h0 x (pr, Some l) <= H0 x ps) by (intros x; eapply H0_ge; eauto).
  unfold h0 in G0. simpl in G0.
  destruct l; try discriminate Hr; simpl.
  - specialize (G0 id). simpl in G0. rewrite eqn_refl in G0.
    pose proof (future_send_ok s ps id TCanceled HI2 ltac:(lia)) as Hf.
    destruct (future_send s id TCanceled) as [[s1|]|]; try discriminate; congruence.
  - rewrite take_choice_eq. destruct (queue_send_ready s); [destruct (p_qclosed s)|]; discriminate.
  - destruct (wrap32 (p_expanded s + 1) <=? lim)%Z; discriminate.
  - discriminate.
  - discriminate.
  - unfold submit_select. destruct (get_task s id) as [t|]; [|discriminate]. rewrite take_choice_eq.
    unfold submit_conds. rewrite Hctx.
    destruct (pick_ready (ready_cases [true; ctx_done s (tk_ctx t); queue_send_ready s]) (hd 0 (p_choices s))) as [k|] eqn:Ep.
    + destruct k as [|[|k]]; try discriminate. destruct (p_qclosed s); discriminate.
    + exfalso. revert Ep. apply pick_ready_nonempty. destruct (ctx_done s (tk_ctx t)), (queue_send_ready s); discriminate.
  - unfold submit_select. destruct (get_task s id) as [t|]; [|discriminate]. rewrite take_choice_eq.
    destruct (pick_ready (ready_cases (submit_conds s t)) (hd 0 (p_choices s))) as [[|[|k]]|]; try discriminate.
    destruct (p_qclosed s); discriminate.
  - destruct (get_task s id); [|discriminate].
    specialize (G0 id). simpl in G0. rewrite eqn_refl in G0.
    pose proof (future_send_ok s ps id TCanceled HI2 ltac:(lia)) as Hf.
    destruct (future_send s id TCanceled) as [[s1|]|]; try discriminate; congruence.
  - discriminate.
  - destruct (p_state s =? 0); discriminate.
  - discriminate.
  - discriminate.
Qed.

End NotBlocked.

Lemma sum_lt_exists {A} (g : A -> nat) (l : list A) :
  (forall a, g a <= 1) -> sumi (fun _ a => g a) 0 l < length l -> exists k a, nth_error l k = Some a /\ g a = 0.
Proof.
  intros Hg. induction l as [|b l IH]; simpl; intros H; [lia|].
  rewrite (sumi_noindex g 1) in H. destruct (g b) eqn:Eb.
  - exists 0, b. auto.
  - specialize (Hg b). destruct IH as (k & a & Hk & Ha); [lia|]. exists (S k), a. auto.
Qed.

Lemma nth_error_firstn_lt' {A} (l : list A) L k : k < L -> nth_error (firstn L l) k = nth_error l k.
Proof.
  revert l k. induction L as [|L IH]; intros l k Hk; [lia|].
  destruct l as [|a l]; [destruct k; reflexivity|]. destruct k as [|k]; [reflexivity|]. simpl. apply IH. lia.
Qed.

Lemma nth_error_firstn_skipn {A} (l : list A) n L k a :
  nth_error (firstn L (skipn n l)) k = Some a -> k < L /\ nth_error l (n + k) = Some a.
Proof.
  intros H. assert (Hk : k < L).
  { pose proof (nth_error_lt _ _ _ H) as Hl. rewrite firstn_length in Hl. lia. }
  split; [exact Hk|]. rewrite <- nth_error_skipn'. rewrite <- H. symmetry. apply nth_error_firstn_lt'. exact Hk.
Qed.

Section Progress.
Variable nw : nat.
Variable lim : Z.
Variables (autostart : bool) (choices : list nat) (clients : list (list pop)) (nslots : nat).
Hypothesis Hok : clients_ok clients.
Hypothesis Hnw : 1 <= nw.
Hypothesis Hslots : nw + cntdo (concat clients) <= nslots.
Notation M := (pool nw lim).
Notation nc := (length clients).
Notation ndo := (cntdo (concat clients)).
Notation cfg0 := (pool_cfg nw autostart choices clients nslots).

(* thread j can take a step *)
Definition enabled (c : pconfig) (j : nat) : Prop := step_thread M c j <> None.
(* no executor is waiting at a closed gate *)
Definition gates_ok (c : pconfig) : Prop :=
  forall j tm y t, at_pc c j (EGate tm y) -> get_task (c_sh c) y = Some t -> gate_open (c_sh c) (tk_gate t) = true.

Lemma enabled_abs (c : pconfig) j a l pr :
  alive c -> nth_error (aths c) j = Some a -> a_view a = Some (l, pr) -> pstep nw lim l (c_sh c) <> Blocked ->
  enabled c j.
Proof.
  intros Hal Hn Hv Hnb. unfold aths in Hn. rewrite nth_error_map in Hn.
  destruct (nth_error (c_thr c) j) as [th|] eqn:Eth; [|discriminate]. simpl in Hn. injection Hn as <-.
  assert (Hd : t_dead th = false).
  { unfold alive in Hal. rewrite Forall_forall in Hal. apply Hal. eapply nth_error_In; eauto. }
  unfold enabled, step_thread. rewrite Eth. unfold view. rewrite Hd.
  unfold abs_th, a_view in Hv. simpl in Hv.
  destruct (t_cur th) as [[o l']|].
  - injection Hv as <- <-. change (m_step M l' (c_sh c)) with (pstep nw lim l' (c_sh c)).
    destruct (pstep nw lim l' (c_sh c)); try discriminate. congruence.
  - destruct (t_prog th) as [|o rest]; [discriminate|]. injection Hv as <- <-.
    change (m_step M (m_start M (t_ts th) o) (c_sh c)) with (pstep nw lim (PInv o) (c_sh c)).
    destruct (pstep nw lim (PInv o) (c_sh c)); try discriminate. congruence.
Qed.

Variable sched : list nat.
Let c := final M cfg0 sched.
Let tr := trace M cfg0 sched.
Let s := c_sh c.
Let ps := aths c.

Lemma ps_length : length ps = nc + nslots.
Proof. unfold ps, aths. rewrite map_length. apply (thr_length nw lim autostart choices clients nslots sched). Qed.

(** (D) [await_not_deadlocked] *)
Theorem accepted_undelivered_some_thread_enabled x :
  1 <= p_state s -> gates_ok c -> accepted x tr -> results c tr x = [] ->
  exists j, enabled c j.
Proof.
  intros Hst Hgates Hacc Hres.
  pose proof (Hist_reach nw lim autostart choices clients nslots Hok sched) as HH. fold c tr in HH.
  pose proof (Hist_I1 _ _ _ HH) as HI1. pose proof (Hist_I2 _ _ _ HH) as HI2. pose proof (Hist_IS _ _ _ HH) as HIS.
  fold s ps in HI1, HI2, HIS.
  destruct (InvD_reach nw lim autostart choices clients nslots sched Hok) as [(_ & HI3 & HIT & HIF) Hal].
  fold c in HI3, HIT, HIF, Hal. fold s ps in HI3, HIT, HIF.
  pose proof (spawned_fits nw lim autostart choices clients nslots sched Hok Hslots) as HL. fold c s in HL.
  pose proof ps_length as Hlen.
  destruct (accepted_accounting nw clients c tr HH x Hacc) as [Hsum Hhas]. fold s ps in Hsum, Hhas. rewrite Hres in Hsum.
  simpl in Hsum.
  assert (Hen_abs : forall j a l pr, nth_error ps j = Some a -> a_view a = Some (l, pr) ->
             pstep nw lim l s <> Blocked -> enabled c j).
  { intros j a l pr Hj Hv Hnb. eapply enabled_abs; eauto. }
  (* gates, abstractly *)
  assert (Hg : forall i pr l, nth_error ps i = Some (pr, Some l) ->
             forall tm y t, l = EGate tm y -> get_task s y = Some t -> gate_open s (tk_gate t) = true).
  { intros i pr l Hi tm y t -> Hy. eapply Hgates; [eapply abs_at_pc; exact Hi|exact Hy]. }
  (* a running worker is enabled when a receive would not block *)
  assert (Hworker : forall i pr l, nth_error ps i = Some (pr, Some l) -> worker_pc l = true ->
             (tokw l = None -> queue_recv_ready s = true) -> enabled c i).
  { intros i pr l Hi Hw Hq. eapply Hen_abs; [exact Hi|reflexivity|].
    eapply (worker_not_blocked nw lim nc); eauto. }
  (* a goroutine that has been spawned but has not taken its first step is enabled *)
  assert (Hslot : forall k r, nth_error (p_spawned s) k = Some r -> nth_error ps (nc + k) = Some ([Slot k], None) ->
             queue_recv_ready s = true -> enabled c (nc + k)).
  { intros k r Hk Hi Hq. eapply Hen_abs; [exact Hi|reflexivity|]. eapply slot_not_blocked; eauto. }
  (* slot threads *)
  assert (Hslotwf : forall k a, nth_error ps (nc + k) = Some a ->
             (exists l, a = ([], Some l) /\ worker_pc l = true) \/ a = ([Slot k], None) \/ a = ([], None)).
  { intros k [pr cur] Hi. pose proof (i_wf _ _ _ HI1 _ _ Hi) as Hwf. unfold wf in Hwf. simpl in Hwf.
    assert (Hltb : (nc + k <? nc) = false) by (apply Nat.ltb_ge; lia). rewrite Hltb in Hwf.
    replace (nc + k - nc) with k in Hwf by lia.
    destruct cur as [l|].
    - left. destruct Hwf as (_ & Hw & -> & _). eauto.
    - right. destruct Hwf as [->|[-> _]]; auto. }
  assert (Hcase : 1 <= Hdr x ps \/ 1 <= Hwk x ps \/ 1 <= cnt (p_queue s) x) by lia.
  destruct Hcase as [Hd|[Hw|Hq]].
  - (* Stop's drain holds x *)
    apply Hdr_pos in Hd. destruct Hd as (i & pr & Hi). exists i.
    eapply Hen_abs; [exact Hi|reflexivity|]. simpl.
    pose proof (H0_ge x _ _ _ Hi) as G0. unfold h0 in G0. simpl in G0. rewrite eqn_refl in G0.
    pose proof (future_send_ok s ps x TCanceled HI2 ltac:(lia)) as Hf.
    destruct (future_send s x TCanceled) as [[s1|]|]; try discriminate; congruence.
  - (* a worker holds x *)
    apply Hwk_pos in Hw. destruct Hw as (i & pr & l & Hi & Hl). exists i.
    apply (Hworker i pr l Hi); [destruct l; try discriminate Hl; reflexivity|intros Hx; congruence].
  - (* x is in the queue *)
    assert (Hqne : queue_recv_ready s = true).
    { unfold queue_recv_ready. destruct (p_queue s); [simpl in Hq; lia|]. simpl. apply orb_true_r. }
    assert (Hq0 : p_queue s <> []) by (intros E; rewrite E in Hq; simpl in Hq; lia).
    destruct (Nat.eq_dec (p_state s) 2) as [E2|N2].
    + (* Stop is in progress *)
      pose proof (i_one _ _ _ HI1) as Ione.
      destruct (Nat.eq_dec (nstop ps) 0) as [Ens|Nns].
      { exfalso. destruct (s_done _ _ HIS E2 Ens) as [_ Hqe]. contradiction. }
      assert (Hns : nstop ps = 1) by lia. clear Nns.
      pose proof Hns as Hns'. rewrite nstop_is_stop in Hns'.
      assert (Hp : 1 <= cntp is_stop ps) by lia. apply cntp_pos in Hp. destruct Hp as (i & pr & l & Hi & Hl).
      pose proof (cntp_ge is_pre _ _ _ Hi) as Gpre. pose proof (cntp_ge is_cl _ _ _ Hi) as Gcl.
      pose proof (cntp_ge is_ul _ _ _ Hi) as Gul. pose proof (cntp_ge is_wt _ _ _ Hi) as Gwt.
      pose proof (cntp_ge is_dr _ _ _ Hi) as Gdr. pose proof (cntp_ge is_xcancel _ _ _ Hi) as Gxc.
      unfold pcf in Gpre, Gcl, Gul, Gwt, Gdr, Gxc. simpl in Gpre, Gcl, Gul, Gwt, Gdr, Gxc. unfold nstop in Hns, Ione.
      assert (Hen : pstep nw lim l s <> Blocked -> exists j, enabled c j).
      { intros Hnb. exists i. eapply Hen_abs; [exact Hi|reflexivity|exact Hnb]. }
      destruct l; try discriminate Hl; simpl in *.
      * apply Hen. discriminate.
      * (* XLock *)
        pose proof (i_wr _ _ _ HI1) as Iwr.
        destruct (rw_writer (p_lock s)); [lia|]. simpl.
        destruct (Nat.eqb_spec (rw_readers (p_lock s)) 0) as [Er|Nr]; [apply Hen; simpl; discriminate|].
        pose proof (i_rd _ _ _ HI1) as Ird.
        assert (Hp : 1 <= cntp is_reader ps) by lia. apply cntp_pos in Hp. destruct Hp as (j & prj & lj & Hj & Hlj).
        exists j. eapply Hen_abs; [exact Hj|reflexivity|].
        eapply reader_not_blocked; [exact HI2|exact Hj|exact Hlj|].
        apply (s_ctx _ _ HIS E2). pose proof (cntp_upd is_xcancel ps i _ (pr, Some XLock) Hi) as Ex.
        pose proof (xcancel_le_pre ps) as Hle.
        destruct (cntp is_xcancel ps) eqn:Ec; [reflexivity|exfalso].
        assert (Hp : 1 <= cntp is_xcancel ps) by lia. apply cntp_pos in Hp. destruct Hp as (i2 & pr2 & l2 & Hi2 & Hl2).
        destruct l2; try discriminate Hl2.
        destruct (Nat.eq_dec i2 i) as [->|Hne]; [congruence|].
        pose proof (sumi_ge2 (fun _ a => pcf is_pre a) 0 ps i2 i _ _ Hi2 Hi Hne) as H2.
        change (sumi (fun _ a => pcf is_pre a) 0 ps) with (cntp is_pre ps) in H2. unfold pcf in H2. simpl in H2. lia.
      * apply Hen. destruct (p_qclosed s); discriminate.
      * apply Hen. discriminate.
      * (* XWait *)
        destruct (Nat.eqb_spec (p_wg s) 0) as [Ew|Nw]; [apply Hen; discriminate|].
        pose proof (i_qc _ _ _ HI1) as Iqc.
        assert (Hqc : p_qclosed s = true) by (destruct (p_qclosed s); [reflexivity|lia]).
        pose proof (i_wg _ _ _ HI1) as Iwg.
        destruct (Nat.eq_dec (slotc nc running ps) 0) as [Er|Nr].
        -- (* some spawned goroutine has not started *)
           pose proof (slotc_range nc started s ps (i_wf _ _ _ HI1) (fun a => le_n _)) as Hrange.
           set (L := length (p_spawned s)) in *. set (l2 := firstn L (skipn nc ps)) in *.
           assert (Hl2 : length l2 = L) by (unfold l2; rewrite firstn_length, skipn_length; lia).
           destruct (sum_lt_exists started l2) as (k & a & Hk & Ha).
           { intros a. destruct (started_01 a); lia. }
           { lia. }
           apply nth_error_firstn_skipn in Hk. destruct Hk as [HkL Hk].
           destruct (Hslotwf k a Hk) as [(l & -> & _)|[-> | ->]]; try discriminate Ha.
           destruct (nth_error (p_spawned s) k) as [r|] eqn:Ek; [|apply nth_error_None in Ek; fold L in Ek; lia].
           exists (nc + k). eapply Hslot; eauto.
        -- (* some goroutine is running *)
           assert (Hp : 1 <= sumi (slotf nc running) 0 ps) by (unfold slotc in Nr; lia).
           apply sumi_pos in Hp. destruct Hp as (j & [prj curj] & Hj & Hr). simpl in Hr. unfold slotf, running in Hr. simpl in Hr.
           destruct (Nat.leb_spec nc j) as [Hle|]; [|lia]. destruct curj as [lj|]; [|lia].
           replace j with (nc + (j - nc)) in Hj by lia.
           destruct (Hslotwf _ _ Hj) as [(l & Ea & Hw)|[Ea|Ea]]; try discriminate Ea. injection Ea as -> ->.
           exists (nc + (j - nc)). eapply Hworker; eauto.
      * apply Hen. pose proof (i_qc _ _ _ HI1) as Iqc.
        assert (Hqc : p_qclosed s = true) by (destruct (p_qclosed s); [reflexivity|lia]).
        unfold queue_recv_ready. rewrite Hqc. simpl. destruct (p_queue s); discriminate.
      * apply Hen.
        pose proof (H0_ge id _ _ _ Hi) as G0. unfold h0 in G0. simpl in G0. rewrite eqn_refl in G0.
        pose proof (future_send_ok s ps id TCanceled HI2 ltac:(lia)) as Hf.
        destruct (future_send s id TCanceled) as [[s1|]|]; try discriminate; congruence.
    + (* the pool is started and not stopped: a fixed worker is there *)
      pose proof (i_st _ _ _ HI1) as [Hle2 Hst2]. destruct (Hst2 N2) as [_ Hcf].
      pose proof (i_cf _ _ _ HI1) as Icf. rewrite Hcf in Icf. destruct Icf as [_ Hqc].
      assert (E1 : p_state s = 1) by lia.
      destruct (Nat.eq_dec (cntp is_stwg ps) 0) as [Esw|Nsw].
      * pose proof (f_rw _ _ _ _ HIF E1 Esw) as Hrw. unfold nRW in Hrw.
        destruct (filter is_rw (p_spawned s)) as [|r rest] eqn:Ef; [simpl in Hrw; lia|].
        assert (Hin : In r (filter is_rw (p_spawned s))) by (rewrite Ef; left; reflexivity).
        apply filter_In in Hin. destruct Hin as [Hin Hr]. destruct r; [|discriminate Hr].
        apply In_nth_error in Hin. destruct Hin as [k Hk].
        pose proof (nth_error_lt _ _ _ Hk) as HkL.
        destruct (nth_error ps (nc + k)) as [a|] eqn:Ea; [|apply nth_error_None in Ea; lia].
        exists (nc + k).
        destruct (Hslotwf k a Ea) as [(l & -> & Hw)|[-> | ->]].
        -- eapply Hworker; eauto.
        -- eapply Hslot; eauto.
        -- exfalso. pose proof (f_ok _ _ _ _ HIF _ _ Ea) as Hf. unfold fw_ok in Hf. simpl in Hf.
           replace (nc + k - nc) with k in Hf by lia. rewrite Hf in Hqc; [discriminate|lia|reflexivity|exact Hk].
      * assert (Hp : 1 <= cntp is_stwg ps) by lia. apply cntp_pos in Hp. destruct Hp as (j & prj & lj & Hj & Hlj).
        exists j. eapply Hen_abs; [exact Hj|reflexivity|]. destruct lj; try discriminate Hlj. discriminate.
Qed.

(** the same, read from the blocked client: thread [i] waits for the result of the accepted task x,
    nobody has received it before *)
Corollary await_not_deadlocked i x :
  1 <= p_state s -> gates_ok c -> accepted x tr ->
  at_pc c i (RRecv x) -> pstep nw lim (RRecv x) s = Blocked -> recvd x tr = [] ->
  exists j, enabled c j.
Proof.
  intros Hst Hg Ha Hat Hb Hr. apply (accepted_undelivered_some_thread_enabled x Hst Hg Ha).
  unfold results. fold s. rewrite Hr, app_nil_r. simpl in Hb.
  destruct (get_task s x) as [t|]; [|reflexivity]. destruct (tk_future t); [reflexivity|discriminate].
Qed.

End Progress.

Print Assumptions accepted_undelivered_some_thread_enabled.
Print Assumptions await_not_deadlocked.
