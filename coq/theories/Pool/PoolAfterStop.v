(** Safety of the worker pool, part 8: what holds once Stop has RETURNED
    (C08, C12), and where an accepted task is (no stranding, safety form).

    "Stop has returned" must be read as "the Stop call that won the state CAS
    has returned" ([stop_done]): a second Stop call racing with the first one
    returns at once, while the first one is still closing / draining (see
    [PoolSafeExamples.second_stop_returns_early]).  Links to the trace:
    [stop_done_from_trace] (some Stop call has returned and no thread is
    inside a Stop call) and [stop_done_single_stop] (the client programs
    contain at most one Stop). *)
From Coq Require Import List Arith Bool ZArith Lia.
From Garr Require Import Conc.Conc Pure.F64 Queue.MutexModel Pool.PoolModel Pool.PoolBase Pool.PoolInv1 Pool.PoolTok
  Pool.PoolStop Pool.PoolStopMain Pool.PoolWg Pool.PoolCap Pool.PoolMain Pool.PoolStopDone Pool.PoolAcct Pool.PoolHist.
Import ListNotations.

(** the effective Stop call has returned: the state word is 2 and no thread is between the CAS
    and the end of the drain loop *)
Definition stop_done (c : pconfig) : Prop :=
  p_state (c_sh c) = 2 /\ forall i l, at_pc c i l -> is_stop l = false.

Lemma abs_at_pc (c : pconfig) i pr l : nth_error (aths c) i = Some (pr, Some l) -> at_pc c i l.
Proof.
  unfold aths. rewrite nth_error_map. destruct (nth_error (c_thr c) i) as [th|] eqn:Eth; [|discriminate].
  simpl. unfold abs_th. destruct (t_cur th) as [[o l']|] eqn:Ec; [|discriminate].
  intros H. injection H as _ ->. exists th, o. auto.
Qed.

Lemma cntp_zero_iff (c : pconfig) p : cntp p (aths c) = 0 <-> forall i l, at_pc c i l -> p l = false.
Proof.
  split.
  - intros H i l Ha. destruct (at_pc_abs _ _ _ Ha) as [pr Hn]. eapply cntp_zero; eauto.
  - intros H. destruct (cntp p (aths c)) eqn:E; [reflexivity|exfalso].
    assert (Hp : 1 <= cntp p (aths c)) by lia. apply cntp_pos in Hp. destruct Hp as (t & pr & l & Hn & Hl).
    rewrite (H t l (abs_at_pc _ _ _ _ Hn)) in Hl. discriminate.
Qed.

Lemma nstop_is_stop ps : nstop ps = cntp is_stop ps.
Proof.
  unfold nstop, cntp. rewrite <- !sumi_plus. apply sumi_ext. intros i a _. unfold pcf.
  destruct (snd a) as [l|]; [|reflexivity]. destruct l; reflexivity.
Qed.

Lemma stop_done_iff c : stop_done c <-> stop_done_abs (c_sh c) (aths c).
Proof.
  unfold stop_done, stop_done_abs. rewrite nstop_is_stop, cntp_zero_iff. tauto.
Qed.

(** ** Quiescence *)
Section Quiet.
Variable nw : nat.
Variable nc : nat.
Variable ndo : nat.

Lemma quiet_no_worker s ps :
  Inv1 nc s ps -> Inv3 nw ndo s ps -> InvS s ps -> stop_done_abs s ps ->
  forall i pr l, nth_error ps i = Some (pr, Some l) -> worker_pc l = false /\ is_stop l = false.
Proof.
  intros HI1 HI3 HS Hsd i pr l Hi.
  destruct (stop_done_drained _ _ _ HI1 HS Hsd) as (_ & _ & _ & _ & Hdr & _).
  destruct (drained_quiescent nc nw ndo s ps HI1 HI3 Hdr) as (_ & Hrun & _).
  split.
  - destruct (worker_pc l) eqn:Ew; [exfalso|reflexivity].
    pose proof (i_wf _ _ _ HI1 _ _ Hi) as Hwf. unfold wf in Hwf. simpl in Hwf.
    destruct (Nat.ltb_spec i nc) as [Hlt|Hge].
    + destruct Hwf as (_ & Hc & _). unfold client_pc in Hc. rewrite Ew in Hc. destruct l; discriminate.
    + pose proof (sumi_zero (slotf nc running) 0 ps i _ Hrun Hi) as Hz. unfold slotf in Hz. simpl in Hz.
      apply Nat.leb_le in Hge. rewrite Hge in Hz. discriminate.
  - destruct Hsd as [_ Hns]. rewrite nstop_is_stop in Hns. eapply cntp_zero; eauto.
Qed.

Lemma quiet_no_holder s ps x :
  Inv1 nc s ps -> Inv3 nw ndo s ps -> InvS s ps -> stop_done_abs s ps ->
  H1 x ps = 0 /\ Hwk x ps = 0 /\ Hdr x ps = 0.
Proof.
  intros HI1 HI3 HS Hsd. pose proof (quiet_no_worker s ps HI1 HI3 HS Hsd) as Hq.
  assert (G : forall (h : nat -> ath -> nat), (forall pr l, 1 <= h x (pr, Some l) -> worker_pc l = true \/ is_stop l = true) ->
              (forall pr, h x (pr, None) = 0) -> sumi (fun _ a => h x a) 0 ps = 0).
  { intros h Hh Hn. apply sumi_all_zero. intros i [pr [l|]] Hi; simpl; [|apply Hn].
    destruct (h x (pr, Some l)) eqn:E; [reflexivity|exfalso].
    destruct (Hq _ _ _ Hi) as [Q1 Q2]. destruct (Hh pr l); [lia|congruence|congruence]. }
  split; [|split].
  - apply (G h1); [|reflexivity]. intros pr l. unfold h1. simpl. destruct l; simpl; try lia; auto.
  - apply (G hwk); [|reflexivity]. intros pr l. unfold hwk. simpl. destruct l; simpl; try lia; auto.
  - apply (G hdr); [|reflexivity]. intros pr l. unfold hdr. simpl. destruct l; simpl; try lia; auto.
Qed.

End Quiet.

Section Main.
Variable nw : nat.
Variable lim : Z.
Variables (autostart : bool) (choices : list nat) (clients : list (list pop)) (nslots : nat).
Hypothesis Hok : clients_ok clients.
Notation M := (pool nw lim).
Notation nc := (length clients).
Notation ndo := (cntdo (concat clients)).
Notation cfg0 := (pool_cfg nw autostart choices clients nslots).

(** results of task x: still in its result channel, or already received (in the trace) *)
Definition results (c : pconfig) (tr : list pevent) (x : nat) : list tres :=
  match get_task (c_sh c) x with Some t => tk_future t | None => [] end ++ recvd x tr.

Section At.
Variables (c : pconfig) (tr : list pevent).
Hypothesis HH : Hist nw nc ndo c tr.
Let s := c_sh c.
Let ps := aths c.

Let HI1 : Inv1 nc s ps. Proof. exact (Hist_I1 _ _ _ HH). Qed.
Let HI2 : Inv2 s ps. Proof. exact (Hist_I2 _ _ _ HH). Qed.
Let HIS : InvS s ps. Proof. exact (Hist_IS _ _ _ HH). Qed.
Let HI3 : Inv3 nw ndo s ps. Proof. destruct HH as [[(_ & _ & H3 & _) _] _ _ _ _ _ _]. exact H3. Qed.

Lemma futlen_results x : length (results c tr x) = futlen s x + length (recvd x tr).
Proof. unfold results, futlen. fold s. rewrite app_length. destruct (get_task s x); reflexivity. Qed.

(** every task ever gets at most one result, and it is the right one: the executor's own value
    after exactly one execution, or a cancellation without any execution *)
Lemma results_ok x :
  length (results c tr x) <= 1 /\
  forall r, In r (results c tr x) -> exists t, get_task s x = Some t /\ res_ok x (tk_execs t) r /\ tk_execs t <= 1.
Proof.
  split.
  - rewrite futlen_results. pose proof (h_one _ _ _ _ _ HH x) as H. unfold Dx, tokens in H. fold s ps in H. lia.
  - intros r Hin. unfold results in Hin. fold s in Hin. apply in_app_or in Hin. destruct Hin as [Hin|Hin].
    + destruct (get_task s x) as [t|] eqn:Eg; [|contradiction]. exists t. split; [reflexivity|].
      destruct (t_ex _ _ HI2 x t Eg) as (T1 & _ & _ & T4). rewrite Forall_forall in T4. auto.
    + destruct (h_res _ _ _ _ _ HH x r Hin) as (n & Hn & Hr). unfold exq in Hn. fold s in Hn.
      destruct (get_task s x) as [t|] eqn:Eg; [|discriminate]. injection Hn as <-. exists t.
      destruct (t_ex _ _ HI2 x t Eg) as (T1 & _). auto.
Qed.

(** (C) an accepted task is in exactly one place: the queue, a worker, Stop's drain, or it has its result *)
Lemma accepted_accounting x :
  accepted x tr ->
  cnt (p_queue s) x + Hwk x ps + Hdr x ps + length (results c tr x) = 1 /\ has_task s x.
Proof.
  intros Ha.
  pose proof (h_acc _ _ _ _ _ HH x (or_intror Ha)) as HD.
  pose proof (h_ret _ _ _ _ _ HH x (or_intror (accepted_returned _ _ Ha))) as Hz.
  unfold Dx, tokens in HD. fold s ps in HD, Hz. pose proof (H_split x ps) as Hs. rewrite futlen_results.
  split; [lia|].
  unfold has_task. intros Hnone.
  assert (Hf : futlen s x = 0) by (unfold futlen; rewrite Hnone; reflexivity).
  destruct (recvd x tr) as [|v rest] eqn:Er.
  - simpl in HD.
    assert (Hcase : 1 <= cnt (p_queue s) x \/ 1 <= Hwk x ps \/ 1 <= Hdr x ps) by lia.
    destruct Hcase as [Hq|[Hw|Hd]].
    + apply cnt_In in Hq. pose proof (i_q _ _ _ HI1) as Iq. rewrite Forall_forall in Iq. apply (Iq _ Hq). exact Hnone.
    + apply Hwk_pos in Hw. destruct Hw as (i & pr & l & Hi & Hl).
      pose proof (i_wf _ _ _ HI1 _ _ Hi) as Hwf. unfold wf in Hwf. simpl in Hwf. destruct Hwf as [Hpc _].
      destruct l; simpl in Hl; try discriminate Hl; try (destruct got; try discriminate Hl); injection Hl as ->;
        simpl in Hpc; destr_hyps; unfold has_task in *; congruence.
    + apply Hdr_pos in Hd. destruct Hd as (i & pr & Hi).
      pose proof (i_wf _ _ _ HI1 _ _ Hi) as Hwf. unfold wf in Hwf. simpl in Hwf. destruct Hwf as [Hpc _].
      simpl in Hpc. unfold has_task in Hpc. congruence.
  - destruct (h_res _ _ _ _ _ HH x v) as (n & Hn & _); [rewrite Er; left; reflexivity|].
    unfold exq in Hn. fold s in Hn. rewrite Hnone in Hn. discriminate.
Qed.

(** (A) once the effective Stop has returned *)
Lemma after_stop_state :
  stop_done c ->
  p_queue s = [] /\ p_qclosed s = true /\ p_closedflag s = true /\ p_poolctx s = true /\ p_wg s = 0 /\
  (forall k, k < length (p_spawned s) ->
     exists th, nth_error (c_thr c) (nc + k) = Some th /\ t_prog th = [] /\ t_cur th = None) /\
  (forall x, In x (p_timers s) -> tm_armed x = false /\ tm_fired x = false) /\
  (forall i l, at_pc c i l -> worker_pc l = false /\ is_stop l = false) /\
  (forall x, H1 x ps = 0 /\ Hwk x ps = 0 /\ Hdr x ps = 0).
Proof.
  intros Hsd. apply stop_done_iff in Hsd. fold s ps in Hsd.
  destruct (stop_done_drained _ _ _ HI1 HIS Hsd) as (Hq & Hqe & Hctx & Hcf & Hdr & _).
  destruct (drained_quiescent nc nw ndo s ps HI1 HI3 Hdr) as (Hwg & _ & Hfin & Htm).
  split; [exact Hqe|]. split; [exact Hq|]. split; [exact Hcf|]. split; [exact Hctx|]. split; [exact Hwg|].
  split; [|split; [|split]].
  - intros k Hk. apply abs_finished. apply Hfin. exact Hk.
  - intros x Hx. apply In_nth_error in Hx. destruct Hx as [j Hj]. eapply Htm; eauto.
  - intros i l Ha. destruct (at_pc_abs _ _ _ Ha) as [pr Hn]. apply (quiet_no_worker nw nc ndo s ps HI1 HI3 HIS Hsd i pr l Hn).
  - intros x. apply (quiet_no_holder nw nc ndo s ps x HI1 HI3 HIS Hsd).
Qed.

Lemma after_stop_accepted x :
  stop_done c -> accepted x tr ->
  exists t r, get_task s x = Some t /\ results c tr x = [r] /\ res_ok x (tk_execs t) r /\ tk_execs t <= 1.
Proof.
  intros Hsd Ha. destruct (after_stop_state Hsd) as (Hqe & _ & _ & _ & _ & _ & _ & _ & Hno).
  destruct (Hno x) as (_ & Hw & Hd). destruct (accepted_accounting x Ha) as [Hacc _].
  rewrite Hqe, Hw, Hd in Hacc. simpl in Hacc.
  destruct (results c tr x) as [|r [|r' rest]] eqn:Er; simpl in Hacc; try lia.
  destruct (results_ok x) as [_ Hr]. rewrite Er in Hr. destruct (Hr r (or_introl eq_refl)) as (t & Hg & Hres & Hle).
  exists t, r. auto.
Qed.

(** links between "Stop has returned" in the trace and [stop_done] *)
Lemma stop_done_from_trace_at :
  stop_returned tr ->
  (forall i th o l, nth_error (c_thr c) i = Some th -> t_cur th = Some (o, l) -> o <> Stop) ->
  stop_done c.
Proof.
  intros Hr Hno. split; [apply (h_stop _ _ _ _ _ HH Hr)|].
  intros i l (th & o & Hi & Hc). pose proof (h_opc _ _ _ _ _ HH _ _ _ _ Hi Hc) as Ho.
  destruct (is_stop l) eqn:El; [exfalso|reflexivity].
  apply (Hno _ _ _ _ Hi Hc). destruct l; try discriminate El; exact Ho.
Qed.

End At.

(** ** The theorems, for every reachable configuration *)
Variable sched : list nat.
Let c := final M cfg0 sched.
Let tr := trace M cfg0 sched.
Let s := c_sh c.

(** (A) [stop_returned_no_work_left] *)
Theorem stop_returned_no_work_left :
  stop_done c ->
  (* the queue is closed and empty, the pool context cancelled *)
  p_queue s = [] /\ p_qclosed s = true /\ p_closedflag s = true /\ p_poolctx s = true /\ p_wg s = 0 /\
  (* every goroutine ever started has finished *)
  (forall k, k < length (p_spawned s) ->
     exists th, nth_error (c_thr c) (nc + k) = Some th /\ t_prog th = [] /\ t_cur th = None) /\
  (forall x, In x (p_timers s) -> tm_armed x = false /\ tm_fired x = false) /\
  (* no thread is at a worker pc or inside the effective Stop; no worker, no drain holds a task token *)
  (forall i l, at_pc c i l -> worker_pc l = false /\ is_stop l = false) /\
  (forall x, H1 x (aths c) = 0 /\ Hwk x (aths c) = 0 /\ Hdr x (aths c) = 0) /\
  (* every accepted task has had exactly one result delivered: its own value after exactly one
     execution, or the cancellation result without any execution *)
  (forall x, accepted x tr ->
     exists t r, get_task s x = Some t /\ results c tr x = [r] /\ res_ok x (tk_execs t) r /\ tk_execs t <= 1).
Proof.
  intros Hsd. pose proof (Hist_reach nw lim autostart choices clients nslots Hok sched) as HH. fold c tr in HH.
  destruct (after_stop_state c tr HH Hsd) as (A1 & A2 & A3 & A4 & A5 & A6 & A7 & A8 & A9).
  repeat (split; [assumption|]). intros x Ha. apply (after_stop_accepted c tr HH x Hsd Ha).
Qed.

(** in every reachable configuration: at most one result per task, and the right one *)
Theorem one_result_per_task x :
  length (results c tr x) <= 1 /\
  forall r, In r (results c tr x) -> exists t, get_task s x = Some t /\ res_ok x (tk_execs t) r /\ tk_execs t <= 1.
Proof.
  pose proof (Hist_reach nw lim autostart choices clients nslots Hok sched) as HH. fold c tr in HH.
  apply (results_ok c tr HH).
Qed.

(** "some Stop call has returned and no thread is inside a Stop call" implies [stop_done] *)
Theorem stop_done_from_trace :
  stop_returned tr ->
  (forall i th o l, nth_error (c_thr c) i = Some th -> t_cur th = Some (o, l) -> o <> Stop) ->
  stop_done c.
Proof.
  pose proof (Hist_reach nw lim autostart choices clients nslots Hok sched) as HH. fold c tr in HH.
  apply (stop_done_from_trace_at c tr HH).
Qed.

(** (C) [accepted_task_has_owner]: an accepted task whose result has not been delivered has its
    token in exactly one of: the queue, a live worker goroutine, Stop's drain *)
Theorem accepted_task_has_owner x :
  accepted x tr ->
  has_task s x /\
  cnt (p_queue s) x + Hwk x (aths c) + Hdr x (aths c) + length (results c tr x) = 1 /\
  (1 <= cnt (p_queue s) x <-> In x (p_queue s)) /\
  (1 <= Hwk x (aths c) <->
     exists i th o l, nc <= i /\ i - nc < length (p_spawned s) /\ nth_error (c_thr c) i = Some th /\
       t_cur th = Some (o, l) /\ worker_pc l = true /\ tokw l = Some x) /\
  (1 <= Hdr x (aths c) <-> exists i, at_pc c i (XDrainSend x)).
Proof.
  intros Ha. pose proof (Hist_reach nw lim autostart choices clients nslots Hok sched) as HH. fold c tr in HH.
  destruct (accepted_accounting c tr HH x Ha) as [Hacc Hhas]. fold s in Hacc, Hhas.
  split; [exact Hhas|]. split; [exact Hacc|]. split; [symmetry; apply cnt_In|]. split.
  - split.
    + intros Hw. apply Hwk_pos in Hw. destruct Hw as (i & pr & l & Hi & Hl).
      pose proof (i_wf _ _ _ (Hist_I1 _ _ _ HH) _ _ Hi) as Hwf. unfold wf in Hwf. simpl in Hwf.
      assert (Hwp : worker_pc l = true) by (destruct l; try discriminate Hl; reflexivity).
      destruct (abs_at_pc _ _ _ _ Hi) as (th & o & Hn & Hc).
      destruct (Nat.ltb_spec i nc) as [Hlt|Hge].
      * destruct Hwf as (_ & Hcp & _). unfold client_pc in Hcp. rewrite Hwp in Hcp. destruct l; discriminate.
      * destruct Hwf as (_ & _ & _ & Hsp). exists i, th, o, l. fold s in Hsp. auto 10.
    + intros (i & th & o & l & _ & _ & Hn & Hc & _ & Hl).
      pose proof (Hwk_ge x _ _ _ (aths_nth _ _ _ Hn)) as Hg. unfold hwk, abs_th in Hg. rewrite Hc in Hg. simpl in Hg.
      rewrite Hl in Hg. simpl in Hg. rewrite eqn_refl in Hg. exact Hg.
  - split.
    + intros Hd. apply Hdr_pos in Hd. destruct Hd as (i & pr & Hi). exists i. eapply abs_at_pc; eauto.
    + intros (i & Hat). destruct (at_pc_abs _ _ _ Hat) as [pr Hn].
      pose proof (Hdr_ge x _ _ _ Hn) as Hg. unfold hdr in Hg. simpl in Hg. rewrite eqn_refl in Hg. exact Hg.
Qed.

End Main.

Print Assumptions stop_returned_no_work_left.
Print Assumptions accepted_task_has_owner.
Print Assumptions one_result_per_task.
Print Assumptions stop_done_from_trace.
