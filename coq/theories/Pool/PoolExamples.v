(** Concrete runs of the pool model: a refinement of one of the conjectured
    invariants, checked by computation. *)
From Coq Require Import List Arith Bool ZArith Lia.
From Garr Require Import Conc.Conc Pure.F64 Queue.MutexModel Pool.PoolModel Pool.PoolBase.
Import ListNotations.

(* no fixed worker, expansion limit 1: the first Do fills the queue, the second one starts an
   expanded worker, which takes task 1 in its select and is about to stop its timer *)
Definition ex_cfg := pool_cfg 0 true [] [[Do 1 0 0]; [Do 2 0 0]] 1.
Definition ex_sched := [0;0;0; 1;1;1;1;1; 2;2].

(** "an armed timer belongs to an expanded worker waiting in XSelect" is too strong: between the
    select and timer.Stop() the timer is still armed and its owner is at XStopTimer.  The proved
    statement is [PoolStopMain.armed_timer_owned]: the owner is at XSelect or XStopTimer. *)
Example armed_timer_owner_at_stoptimer :
  let c := final (pool 0 1) ex_cfg ex_sched in
  p_timers (c_sh c) = [Timer true false] /\
  map (fun th => match t_cur th with Some (_, l) => Some l | None => None end) (c_thr c) =
    [Some (SubRUnlock KDo); Some (SubPush 2); Some (XStopTimer 1 (Some 1))].
Proof. vm_compute. split; reflexivity. Qed.

(** p.expanded is an int32.  With 2^31 - 1 submitters between their failed increment and the
    compensating decrement (SubSubExp) the next increment wraps to -2^31 and passes the limit check:
    this is why [PoolCap.parallelism_capped] assumes limit + (number of client threads) < 2^31.
    (One step from a hand-built state; such a state needs 2^31 client threads to be reached.) *)
Example expanded_wraps :
  let s := upd_expanded (pinit0 []) (2 ^ 31 - 1)%Z in
  pstep 0 1 (SubAddExp 7) s = Next (SubWgAdd 7) (upd_expanded s (- 2 ^ 31)%Z).
Proof. vm_compute. reflexivity. Qed.
