(** Safety of the worker pool, part 3: Stop leaves no goroutine behind (C08).
    Bounds on the goroutines started, timers, the drain phase. *)
From Coq Require Import List Arith Bool ZArith Lia.
From Garr Require Import Conc.Conc Pure.F64 Queue.MutexModel Pool.PoolModel Pool.PoolBase Pool.PoolInv1.
Import ListNotations.

Definition is_rw (r : role) : bool := match r with RWorker => true | RExpanded => false end.
Definition is_re (r : role) : bool := match r with RWorker => false | RExpanded => true end.
Definition nRW (s : pshared) : nat := length (filter is_rw (p_spawned s)).
Definition nRE (s : pshared) : nat := length (filter is_re (p_spawned s)).

Definition is_doexec (o : pop) : bool := match o with Do _ _ _ | Execute _ _ => true | _ => false end.
Definition cntdo (pr : list pop) : nat := length (filter is_doexec pr).
(* a blocking submission that may still start an expanded worker *)
Definition is_pot (l : ppc) : bool :=
  match l with SubRLock false _ | SubTrySel _ | SubAddExp _ | SubWgAdd _ => true | _ => false end.
Definition pot (a : ath) : nat := cntdo (fst a) + pcf is_pot a.
Definition npot (ps : list ath) : nat := sumi (fun _ a => pot a) 0 ps.

(* the owner of timer tm while the timer may be armed or hold an expiry *)
Definition at_sel (tm : nat) (l : ppc) : bool :=
  match l with XSelect tm' | XStopTimer tm' _ => Nat.eqb tm' tm | _ => false end.

(* Stop has closed the queue and passed wg.Wait() (it is draining or has returned) *)
Definition drained (s : pshared) (ps : list ath) : Prop :=
  p_qclosed s = true /\ cntp is_ul ps + cntp is_wt ps = 0.

Record Inv3 (nw ndo : nat) (s : pshared) (ps : list ath) : Prop := {
  k_st0 : p_state s = 0 -> nRW s = 0 /\ cntp is_stwg ps = 0;
  k_rw : (cntp is_stwg ps = 0 /\ nRW s <= nw) \/ (cntp is_stwg ps = 1 /\ nRW s = 0);
  k_re : nRE s + npot ps <= ndo;
  k_tm : forall j x, nth_error (p_timers s) j = Some x ->
           (tm_armed x || tm_fired x = true -> 1 <= cntp (at_sel (S j)) ps) /\ tm_armed x && tm_fired x = false;
  k_dr : if p_qclosed s then cntp is_ul ps + cntp is_wt ps = 0 -> p_wg s = 0 else True
}.

Arguments npot : simpl never.

Lemma npot_upd ps t a a' : nth_error ps t = Some a -> npot (upd ps t a') + pot a = npot ps + pot a'.
Proof. intros H. apply (sumi_upd (fun _ a => pot a) 0 ps t a a' H). Qed.

Lemma filter_length_app {A} (f : A -> bool) l1 l2 : length (filter f (l1 ++ l2)) = length (filter f l1) + length (filter f l2).
Proof. rewrite filter_app, app_length. reflexivity. Qed.

Lemma filter_rw_repeat n : length (filter is_rw (repeat RWorker n)) = n.
Proof. induction n; simpl; auto. Qed.
Lemma filter_re_repeat n : length (filter is_re (repeat RWorker n)) = 0.
Proof. induction n; simpl; auto. Qed.

Lemma rw_re_length l : length (filter is_rw l) + length (filter is_re l) = length l.
Proof. induction l as [|[|] l IH]; simpl; lia. Qed.

(* the i-th armed timer is armed *)
Lemma nth_armed_spec l i p pos :
  nth_armed l i p = Some pos -> p <= pos /\ exists x, nth_error l (pos - p) = Some x /\ tm_armed x = true.
Proof.
  revert i p. induction l as [|x l IH]; intros i p H; simpl in H; [discriminate|].
  destruct (tm_armed x) eqn:Ea.
  - destruct i as [|i].
    + injection H as <-. split; [lia|]. rewrite Nat.sub_diag. exists x. auto.
    + destruct (IH _ _ H) as (H1 & y & H2 & H3). split; [lia|]. exists y. split; [|exact H3].
      replace (pos - p) with (S (pos - S p)) by lia. exact H2.
  - destruct (IH _ _ H) as (H1 & y & H2 & H3). split; [lia|]. exists y. split; [|exact H3].
    replace (pos - p) with (S (pos - S p)) by lia. exact H2.
Qed.

Section Inv3.
Variable nw : nat.
Variable lim : Z.
Variable nc : nat.
Variable ndo : nat.

Lemma stored_not_inv3 s ps t prog l0 :
  Inv1 nc s ps -> nth_error ps t = Some (prog, Some l0) -> forall o, l0 <> PInv o.
Proof.
  intros HI Hn o ->. pose proof (i_wf _ _ _ HI _ _ Hn) as Hwf. unfold wf in Hwf. simpl in Hwf.
  destruct (t <? nc); destr_hyps; discriminate.
Qed.

Lemma nth_error_snoc {A} (l : list A) a j x :
  nth_error (l ++ [a]) j = Some x -> nth_error l j = Some x \/ (j = length l /\ x = a).
Proof.
  intros H. destruct (Nat.lt_ge_cases j (length l)) as [Hl|Hl].
  - rewrite nth_error_app1 in H by assumption. auto.
  - rewrite nth_error_app2 in H by assumption.
    destruct (j - length l) as [|k] eqn:E; simpl in H.
    + right. split; [lia|congruence].
    + destruct k; discriminate.
Qed.

Ltac tm_fin Ktm x :=
  repeat match goal with
  | H : context [Nat.eqb ?a ?b] |- _ => destruct (Nat.eqb_spec a b); [subst|]
  end;
  repeat match goal with E : nth_error (p_timers _) _ = Some _ |- _ => rewrite E in * end;
  repeat match goal with H : Some _ = Some x |- _ => injection H as <- end;
  try match goal with H : nth_error (p_timers _) ?n = Some x |- _ =>
    let K1 := fresh "K1" in let K2 := fresh "K2" in pose proof (Ktm n x H) as [K1 K2] end;
  simpl in *;
  repeat match goal with E : tm_fired _ = _ |- _ => rewrite E in * end;
  repeat match goal with E : tm_armed _ = _ |- _ => rewrite E in * end;
  rewrite ?orb_true_r, ?orb_false_r, ?andb_true_r, ?andb_false_r in *;
  (split; [intros; try discriminate; try lia; try (exfalso; congruence);
           repeat match goal with K : ?A -> _ |- _ => let HA := fresh in assert (HA : A) by (auto; congruence); specialize (K HA) end; try lia
          | first [assumption | reflexivity | congruence | idtac]]).

Ltac tm_field Hn Ktm :=
  let j := fresh "j" in let x := fresh "x" in let Hj := fresh "Hj" in let Ej := fresh "Ej" in
  intros j x Hj;
  match goal with |- context [upd ?ps ?t ?a'] =>
    pose proof (cntp_upd (at_sel (S j)) ps t _ a' Hn) as Ej end;
  unfold pcf in Ej; simpl in Ej;
  repeat match goal with E : nth_error (p_timers _) ?n = Some ?t0 |- _ =>
    lazymatch goal with K : tm_armed t0 && tm_fired t0 = false |- _ => fail | _ => idtac end;
    let K1 := fresh "K1" in let K2 := fresh "K2" in pose proof (Ktm n t0 E) as [K1 K2] end;
  try match goal with E : pick_ready _ _ = Some _ |- _ =>
        apply pick_ready_cond in E; simpl in E;
        repeat (match type of E with context [match ?n with _ => _ end] => destruct n; simpl in E end); try discriminate E end;
  try match goal with E : nth_armed _ _ _ = Some _ |- _ =>
        let x0 := fresh "x0" in let A1 := fresh "A1" in let A2 := fresh "A2" in let K1 := fresh "K1" in let K2 := fresh "K2" in
        apply nth_armed_spec in E; destruct E as (_ & x0 & A1 & A2); rewrite Nat.sub_0_r in A1;
        pose proof (Ktm _ x0 A1) as [K1 K2] end;
  lazymatch type of Hj with
  | nth_error (_ ++ [_]) _ = _ => apply nth_error_snoc in Hj; destruct Hj as [Hj|[-> ->]]; tm_fin Ktm x
  | nth_error (upd _ _ _) _ = _ => rewrite nth_error_upd in Hj; tm_fin Ktm x
  | _ => tm_fin Ktm x
  end.

Ltac pose_counts3 Hn :=
  match goal with |- Inv3 _ _ _ (upd ?ps ?t ?a') =>
      pose proof (cntp_upd is_stwg ps t _ a' Hn) as Esw;
      pose proof (cntp_upd is_open ps t _ a' Hn) as Eop;
      pose proof (cntp_upd is_ul ps t _ a' Hn) as Eul;
      pose proof (cntp_upd is_wt ps t _ a' Hn) as Ewt;
      pose proof (cntp_upd is_cl ps t _ a' Hn) as Ecl;
      pose proof (npot_upd ps t _ a' Hn) as Ept;
      pose proof (cntp_ge is_open ps t _ Hn) as Gop;
      pose proof (cntp_ge is_cl ps t _ Hn) as Gcl;
      unfold pot, cntdo, pcf in Esw, Eop, Eul, Ewt, Ecl, Ept, Gop, Gcl;
      simpl in Esw, Eop, Eul, Ewt, Ecl, Ept, Gop, Gcl
  end.

Lemma Inv3_next s ps t a l pr cur s' :
  Inv1 nc s ps -> Inv3 nw ndo s ps -> nth_error ps t = Some a -> a_view a = Some (l, pr) ->
  astep nw lim l s = RNext cur s' -> Inv3 nw ndo s' (upd ps t (pr, cur)).
Proof.
  intros HI1 HI3 Hn Hv H.
  destruct HI1 as [Ird Iwr Ione Ist Icf Iqc Iwg Iwf Iq].
  destruct HI3 as [Kst Krw Kre Ktm Kdr].
  destruct a as [prog [l0|]]; unfold a_view in Hv; simpl in Hv.
  - injection Hv as <- <-.
    pose proof (stored_not_inv3 _ _ _ _ _ (Build_Inv1 _ _ _ Ird Iwr Ione Ist Icf Iqc Iwg Iwf Iq) Hn) as Hnp.
    destruct l0; try (exfalso; eapply Hnp; reflexivity).
    all: step_cases H.
    all: pose_counts3 Hn.
    all: bool_clean; norm_bools; eqb_clean.
    all: constructor; unfold drained, nRW, nRE in *; simpl.
    all: rewrite ?filter_length_app, ?filter_rw_repeat, ?filter_re_repeat; simpl.
    all: lazymatch goal with
         | |- forall j x, nth_error _ j = Some x -> _ => tm_field Hn Ktm
         | |- _ => first [lia | solve [clear Iwr; goal_ifs; hyp_ifs; destr_hyps; try discriminate; intros; try lia; auto] | idtac]
         end.
  - destruct prog as [|o pr0]; [discriminate|]. injection Hv as <- <-.
    destruct o.
    all: step_cases H.
    all: pose_counts3 Hn.
    all: bool_clean; norm_bools; eqb_clean.
    all: constructor; unfold drained, nRW, nRE in *; simpl.
    all: rewrite ?filter_length_app, ?filter_rw_repeat, ?filter_re_repeat; simpl.
    all: lazymatch goal with
         | |- forall j x, nth_error _ j = Some x -> _ => tm_field Hn Ktm
         | |- _ => first [lia | solve [clear Iwr; goal_ifs; hyp_ifs; destr_hyps; try discriminate; intros; try lia; auto] | idtac]
         end.
Qed.

End Inv3.

(** ** The initial configuration *)
Lemma npot_ps0 clients nslots : npot (ps0 clients nslots) = cntdo (concat clients).
Proof.
  unfold npot, ps0, progs0. rewrite sumi_map, sumi_app.
  assert (E2 : forall n l, sumi (fun (_ : nat) (a : list pop) => pot (a, None)) n (map (fun k => [Slot k]) l) = 0).
  { intros n l. apply sumi_all_zero. intros i a Hi. rewrite nth_error_map in Hi.
    destruct (nth_error l i); [|discriminate]. injection Hi as <-. reflexivity. }
  rewrite E2, Nat.add_0_r. generalize 0.
  induction clients as [|p cl IH]; intros n; simpl; [reflexivity|].
  rewrite IH. unfold cntdo. rewrite filter_app, app_length. unfold pot, cntdo, pcf; simpl. lia.
Qed.

Lemma Inv3_init nw autostart choices clients nslots :
  Inv3 nw (cntdo (concat clients)) (pinit nw autostart choices) (ps0 clients nslots).
Proof.
  unfold pinit. destruct autostart; constructor; unfold drained, nRW, nRE; simpl;
    rewrite ?cntp_ps0, ?npot_ps0, ?filter_rw_repeat, ?filter_re_repeat; try lia; try discriminate; auto.
  - intros [|j] x; discriminate.
  - intros [|j] x; discriminate.
Qed.

Definition Inv13 (nw nc ndo : nat) (s : pshared) (ps : list ath) : Prop := Inv1 nc s ps /\ Inv3 nw ndo s ps.

Section Reach3.
Variable nw : nat.
Variable lim : Z.

Lemma Inv13_step nc ndo s ps t a l pr :
  Inv13 nw nc ndo s ps -> nth_error ps t = Some a -> a_view a = Some (l, pr) ->
  match astep nw lim l s with
  | RNext cur s' => Inv13 nw nc ndo s' (upd ps t (pr, cur))
  | RBlocked => True
  | RFault => False
  end.
Proof.
  intros [H1 H2] Hn Hv. pose proof (Inv1_step nw lim nc s ps t a l pr H1 Hn Hv) as Hs.
  destruct (astep nw lim l s) as [cur s'| |] eqn:E; auto.
  split; [exact Hs|]. eapply Inv3_next; eauto.
Qed.

Lemma Inv13_reach autostart choices clients nslots sched :
  clients_ok clients ->
  let c := final (pool nw lim) (pool_cfg nw autostart choices clients nslots) sched in
  Inv13 nw (length clients) (cntdo (concat clients)) (c_sh c) (aths c) /\ alive c.
Proof.
  intros Hc. apply (abs_invariant_from nw lim (Inv13 nw (length clients) (cntdo (concat clients)))).
  - intros s ps t a l pr. apply Inv13_step.
  - unfold pool_cfg. rewrite aths_init. split; [apply Inv1_init; exact Hc|apply Inv3_init].
  - apply alive_init.
Qed.

End Reach3.
