(** Own-step bounds of a call, generic part (any [machine]).

    The log [steps_of M c0 sched] lists every step actually taken as
    (configuration before the step, thread that stepped): a blocked thread
    does not appear in it.  [own_steps L t a b] = number of log positions in
    [a, b] taken by thread [t].

    [call_rank]: let [rk : shared -> local -> option nat] be a "rank" of the
    program counters of operation [o] ([None]: not a pc of [o]) and [Inv] a
    predicate that holds of every configuration of the log, such that
    - the invocation step leads to a pc of rank >= 1,
    - every non-returning own step from a pc of rank n leads to a pc of
      rank >= n + 1,
    - a step of ANOTHER thread does not lower the rank of the pc the call
      stands at (trivial when the rank does not depend on the shared state),
    - every rank is < K.
    Then a call of [o] invoked at position [a] by thread [t] that has not
    returned up to position [b] has taken at most [rk s l <= K - 1] own steps,
    [l] the pc it stands at and [s] the shared state after position [b]
    ([call_at_pc]); hence at most [K] own steps up to and including its return
    or fault ([call_bound]), and once it has taken more than [K] it HAS
    returned ([call_returns]). *)
From Coq Require Import List Arith Bool Lia.
From Garr Require Import Conc.Conc.
From Garr Require Breaker.ConcBase Breaker.ConcHist Breaker.ConcWaitFreeMain.
Import ListNotations.

Notation steps_of := ConcBase.steps_of.
Notation stepper := ConcHist.stepper.
Notation own_steps := ConcWaitFreeMain.own_steps.
Notation steps_by := ConcWaitFreeMain.steps_by.

Section Gen.
Context {sh ts lo op ret : Type}.
Variable M : machine sh ts lo op ret.
Notation config := (config sh ts lo op).

(* the value thread [t] returns with the step it takes from [c] (None: that step does not return) *)
Definition ret_of (c : config) (t : nat) : option ret :=
  match stepper M c t with
  | Some (_, l, _) => match m_step M l (c_sh c) with Done r _ _ => Some r | _ => None end
  | None => None
  end.

(* thread [t] of [c] is disabled: it has a step to take and that step is blocked *)
Definition blocked_in (c : config) (t : nat) : Prop :=
  exists o l fresh, stepper M c t = Some (o, l, fresh) /\ m_step M l (c_sh c) = Blocked.

Lemma step_thread_dead c t th : nth_error (c_thr c) t = Some th -> t_dead th = true -> step_thread M c t = None.
Proof. intros Hn Hd. unfold step_thread, view. rewrite Hn, Hd. reflexivity. Qed.

Section Log.
Variables (c0 : config) (sched : list nat).
Notation L := (steps_of M c0 sched).

(* the call of [o] that thread [t] invokes at position [a] *)
Definition invoked_at (a t : nat) (o : op) : Prop :=
  exists ca l, nth_error L a = Some (ca, t) /\ stepper M ca t = Some (o, l, true).

(* thread [t] does not return at any of its positions in [a, b] *)
Definition no_return (t a b : nat) : Prop :=
  forall k ck, a <= k <= b -> nth_error L k = Some (ck, t) -> ret_of ck t = None.

Variable o : op.
(* the rank may depend on the shared state; [Inv] is what is known of every configuration of the log *)
Variable rk : sh -> lo -> option nat.
Variable K : nat.
Variable Inv : config -> Prop.
Hypothesis HL : forall k ck tk, nth_error L k = Some (ck, tk) -> Inv ck.
Hypothesis HK : 1 <= K.
Hypothesis Hinv : forall u s l' s', m_step M (m_start M u o) s = Next l' s' -> exists n, rk s' l' = Some n /\ 1 <= n.
Hypothesis Hstep : forall c t th l n l' s',
  Inv c -> nth_error (c_thr c) t = Some th -> t_dead th = false -> t_cur th = Some (o, l) ->
  rk (c_sh c) l = Some n -> m_step M l (c_sh c) = Next l' s' -> exists n', rk s' l' = Some n' /\ n + 1 <= n'.
Hypothesis Hother : forall c u c' e t th l n,
  Inv c -> step_thread M c u = Some (c', e) -> u <> t ->
  nth_error (c_thr c) t = Some th -> t_dead th = false -> t_cur th = Some (o, l) ->
  rk (c_sh c) l = Some n -> exists n', rk (c_sh c') l = Some n' /\ n <= n'.
Hypothesis Hbound : forall s l n, rk s l = Some n -> n + 1 <= K.

(* where the call stands in [c'] when it has taken [own] steps: at a pc whose rank bounds [own],
   or it has faulted *)
Definition call_state (c' : config) (t own : nat) : Prop :=
  exists th, nth_error (c_thr c') t = Some th /\
    ((exists l n, t_dead th = false /\ t_cur th = Some (o, l) /\ rk (c_sh c') l = Some n /\ own <= n) \/
     (t_dead th = true /\ t_cur th = None /\ own <= K)).

Lemma call_rank : forall d a b t,
  b = a + d -> invoked_at a t o -> no_return t a b ->
  forall cb tb, nth_error L b = Some (cb, tb) ->
  call_state (step_cfg M cb tb) t (own_steps L t a b).
Proof.
  induction d as [|d IH]; intros a b t Hb (ca & l0 & Ha & Hst) Hnr cb tb Hcb.
  - rewrite Nat.add_0_r in Hb. subst b. rewrite Ha in Hcb. injection Hcb as <- <-.
    rewrite (ConcWaitFreeMain.own_steps_one _ _ _ _ Ha).
    destruct (ConcHist.steps_of_enabled _ _ _ _ _ _ Ha) as (c' & e & Hs).
    rewrite (ConcBase.step_cfg_some _ _ _ _ _ Hs).
    pose proof (Hnr a ca ltac:(lia) Ha) as Hret. unfold ret_of in Hret. rewrite Hst in Hret.
    destruct (ConcHist.stepper_inv _ _ _ _ _ _ Hst) as (th & Hn & Hd & Hcur & Hl0).
    destruct (ConcHist.stepper_step _ _ _ _ _ Hs) as (th1 & o1 & l1 & fr1 & Hn1 & _ & Hst1 & Hcase).
    rewrite Hst in Hst1. injection Hst1 as <- <- <-. rewrite Hn in Hn1. injection Hn1 as <-.
    unfold call_state.
    destruct Hcase as [(l' & s' & Hm & ->)|[(r & u & s' & Hm & ->)|(Hm & ->)]]; cbn [c_thr c_sh].
    + eexists. rewrite nth_error_upd, Nat.eqb_refl, Hn. split; [reflexivity|]. left.
      rewrite Hl0 in Hm. destruct (Hinv _ _ _ _ Hm) as (n & Hr & Hn1).
      exists l', n. cbn [t_dead t_cur]. auto.
    + rewrite Hm in Hret. discriminate.
    + eexists. rewrite nth_error_upd, Nat.eqb_refl, Hn. split; [reflexivity|]. right. cbn [t_dead t_cur]. auto.
  - assert (Hb0 : exists cb0 tb0, nth_error L (a + d) = Some (cb0, tb0)).
    { destruct (nth_error L (a + d)) as [[cb0 tb0]|] eqn:E; [eauto|exfalso].
      apply nth_error_None in E.
      assert (b < length L) by (apply nth_error_Some; congruence). lia. }
    destruct Hb0 as (cb0 & tb0 & Hcb0).
    assert (Hnr0 : no_return t a (a + d)).
    { intros k ck Hk Hn. apply (Hnr k ck); [lia|exact Hn]. }
    destruct (IH a (a + d) t eq_refl (ex_intro _ ca (ex_intro _ l0 (conj Ha Hst))) Hnr0 cb0 tb0 Hcb0)
      as (th & Hth & Hcase).
    assert (Hbs : b = S (a + d)) by lia. rewrite Hbs in Hcb.
    pose proof (ConcHist.steps_of_succ _ _ _ _ _ _ _ _ Hcb0 Hcb) as Ecb. rewrite <- Ecb in Hth, Hcase.
    rewrite Hbs. rewrite (ConcWaitFreeMain.own_steps_S _ t a (a + d) cb tb ltac:(lia) Hcb).
    destruct (ConcHist.steps_of_enabled _ _ _ _ _ _ Hcb) as (c' & e & Hs).
    destruct (Nat.eqb_spec tb t) as [->|Hne].
    + destruct Hcase as [(l & n & Hd & Hcur & Hr & Hown)|(Hd & Hcn & Hown)].
      * assert (Hstp : stepper M cb t = Some (o, l, false)) by (eapply ConcHist.stepper_stored; eauto).
        pose proof (Hnr b cb ltac:(lia) ltac:(rewrite Hbs; exact Hcb)) as Hret.
        unfold ret_of in Hret. rewrite Hstp in Hret.
        rewrite (ConcBase.step_cfg_some _ _ _ _ _ Hs).
        destruct (ConcHist.stepper_step _ _ _ _ _ Hs) as (th1 & o1 & l1 & fr1 & Hn1 & _ & Hst1 & Hcase).
        rewrite Hstp in Hst1. injection Hst1 as <- <- <-. rewrite Hth in Hn1. injection Hn1 as <-.
        unfold call_state.
        destruct Hcase as [(l' & s' & Hm & ->)|[(r & u & s' & Hm & ->)|(Hm & ->)]]; cbn [c_thr c_sh].
        -- eexists. rewrite nth_error_upd, Nat.eqb_refl, Hth. split; [reflexivity|]. left.
           destruct (Hstep _ _ _ _ _ _ _ (HL _ _ _ Hcb) Hth Hd Hcur Hr Hm) as (n' & Hr' & Hn').
           exists l', n'. cbn [t_dead t_cur]. repeat split; auto. lia.
        -- rewrite Hm in Hret. discriminate.
        -- eexists. rewrite nth_error_upd, Nat.eqb_refl, Hth. split; [reflexivity|]. right. cbn [t_dead t_cur].
           split; [reflexivity|]. split; [reflexivity|]. pose proof (Hbound _ _ _ Hr). lia.
      * rewrite (step_thread_dead _ _ _ Hth Hd) in Hs. discriminate.
    + exists th. split; [rewrite step_cfg_other by congruence; exact Hth|].
      rewrite Nat.add_0_r. destruct Hcase as [(l & n & Hd & Hcur & Hr & Hown)|Hdead]; [left|right; exact Hdead].
      rewrite (ConcBase.step_cfg_some _ _ _ _ _ Hs).
      destruct (Hother _ _ _ _ _ _ _ _ (HL _ _ _ Hcb) Hs Hne Hth Hd Hcur Hr) as (n' & Hr' & Hn').
      exists l, n'. repeat split; auto. lia.
Qed.

(* a call that has not returned: the pc it stands at bounds the own steps it has taken so far *)
Corollary call_at_pc : forall a b t,
  a <= b -> invoked_at a t o -> no_return t a b ->
  forall cb tb, nth_error L b = Some (cb, tb) ->
  forall th o' l, nth_error (c_thr (step_cfg M cb tb)) t = Some th -> t_cur th = Some (o', l) ->
  o' = o /\ exists n, rk (c_sh (step_cfg M cb tb)) l = Some n /\ own_steps L t a b <= n.
Proof.
  intros a b t Hab Hinv' Hnr cb tb Hcb th o' l Hth Hcur.
  destruct (call_rank (b - a) a b t ltac:(lia) Hinv' Hnr cb tb Hcb) as (th1 & Hth1 & Hcase).
  rewrite Hth in Hth1. injection Hth1 as <-.
  destruct Hcase as [(l1 & n & _ & Hcur1 & Hr & Hown)|(_ & Hcn & _)]; [|congruence].
  rewrite Hcur in Hcur1. injection Hcur1 as -> ->. split; [reflexivity|]. eauto.
Qed.

(** every call of [o] takes at most [K] own steps up to any position before which it has not returned *)
Theorem call_bound : forall a b t,
  invoked_at a t o -> a <= b -> b < length L ->
  (forall k ck, a <= k < b -> nth_error L k = Some (ck, t) -> ret_of ck t = None) ->
  own_steps L t a b <= K.
Proof.
  intros a b t Hinv' Hab Hlen Hnr.
  destruct (Nat.eq_dec a b) as [<-|Hne].
  - destruct Hinv' as (ca & l0 & Ha & _). rewrite (ConcWaitFreeMain.own_steps_one _ _ _ _ Ha). exact HK.
  - destruct b as [|b0]; [lia|].
    assert (Hb0 : exists cb0 tb0, nth_error L b0 = Some (cb0, tb0)).
    { destruct (nth_error L b0) as [[cb0 tb0]|] eqn:E; [eauto|]. apply nth_error_None in E. lia. }
    destruct Hb0 as (cb0 & tb0 & Hcb0).
    assert (Hb : exists cb tb, nth_error L (S b0) = Some (cb, tb)).
    { destruct (nth_error L (S b0)) as [[cb tb]|] eqn:E; [eauto|]. apply nth_error_None in E. lia. }
    destruct Hb as (cb & tb & Hcb).
    assert (Hnr0 : no_return t a b0) by (intros k ck Hk Hn; apply (Hnr k ck); [lia|exact Hn]).
    destruct (call_rank (b0 - a) a b0 t ltac:(lia) Hinv' Hnr0 cb0 tb0 Hcb0) as (th & Hth & Hcase).
    rewrite (ConcWaitFreeMain.own_steps_S _ t a b0 cb tb ltac:(lia) Hcb).
    destruct Hcase as [(l & n & Hd & Hcur & Hr & Hown)|(Hd & _ & Hown)].
    + pose proof (Hbound _ _ _ Hr). destruct (Nat.eqb tb t); lia.
    + destruct (Nat.eqb_spec tb t) as [->|Hneq]; [|lia].
      rewrite <- (ConcHist.steps_of_succ _ _ _ _ _ _ _ _ Hcb0 Hcb) in Hth.
      destruct (ConcHist.steps_of_enabled _ _ _ _ _ _ Hcb) as (c' & e & Hs).
      rewrite (step_thread_dead _ _ _ Hth Hd) in Hs. discriminate.
Qed.

(* ... for a call that returns at [b] *)
Corollary returned_call_bound : forall a b t cb r,
  invoked_at a t o -> a <= b -> nth_error L b = Some (cb, t) -> ret_of cb t = Some r ->
  (forall k ck, a <= k < b -> nth_error L k = Some (ck, t) -> ret_of ck t = None) ->
  own_steps L t a b <= K.
Proof.
  intros a b t cb r Hinv' Hab Hb _ Hnr. apply call_bound; auto. apply nth_error_Some. congruence.
Qed.

(* ... and for a call that has not returned by the end of the log *)
Corollary pending_call_bound : forall a t,
  invoked_at a t o ->
  (forall k ck, a <= k -> nth_error L k = Some (ck, t) -> ret_of ck t = None) ->
  own_steps L t a (length L - 1) <= K.
Proof.
  intros a t Hinv' Hnr.
  assert (a < length L) by (destruct Hinv' as (ca & l0 & Ha & _); apply nth_error_Some; congruence).
  apply call_bound; auto; try lia.
  intros k ck Hk. apply Hnr. lia.
Qed.

Lemma return_dec t a : forall b,
  (exists k ck r, a <= k < b /\ nth_error L k = Some (ck, t) /\ ret_of ck t = Some r) \/
  (forall k ck, a <= k < b -> nth_error L k = Some (ck, t) -> ret_of ck t = None).
Proof.
  induction b as [|b [(k & ck & r & Hk & Hn & Hr)|IH]].
  - right. intros k ck Hk. lia.
  - left. exists k, ck, r. split; [lia|]. split; assumption.
  - destruct (nth_error L b) as [[cb tb]|] eqn:Eb.
    + destruct (Nat.eq_dec tb t) as [->|Hne].
      * destruct (ret_of cb t) as [r|] eqn:Er.
        -- destruct (Nat.le_gt_cases a b) as [Hab|Hab].
           ++ left. exists b, cb, r. split; [lia|]. split; assumption.
           ++ right. intros k ck Hk. lia.
        -- right. intros k ck Hk Hn. destruct (Nat.eq_dec k b) as [->|Hkb].
           ++ rewrite Eb in Hn. injection Hn as <-. exact Er.
           ++ apply (IH k ck); [lia|exact Hn].
      * right. intros k ck Hk Hn. destruct (Nat.eq_dec k b) as [->|Hkb].
        -- rewrite Eb in Hn. injection Hn as _ E. congruence.
        -- apply (IH k ck); [lia|exact Hn].
    + right. intros k ck Hk Hn. destruct (Nat.eq_dec k b) as [->|Hkb].
      * rewrite Eb in Hn. discriminate.
      * apply (IH k ck); [lia|exact Hn].
Qed.

(* positively: once thread [t] has taken more than [K] steps since the invocation, the call HAS returned *)
Theorem call_returns : forall a b t,
  invoked_at a t o -> a <= b -> b < length L -> K < own_steps L t a b ->
  exists k ck r, a <= k < b /\ nth_error L k = Some (ck, t) /\ ret_of ck t = Some r.
Proof.
  intros a b t Hinv' Hab Hlen Hgt.
  destruct (return_dec t a b) as [H|H]; [exact H|exfalso].
  pose proof (call_bound a b t Hinv' Hab Hlen H). lia.
Qed.

End Log.
End Gen.
