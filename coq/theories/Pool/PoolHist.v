(** Safety of the worker pool, part 7: invariants that speak about the TRACE.

    [hist_invariant]: a predicate on (configuration, trace so far) preserved by
    every step holds after every schedule.  [step_good]: what one step of the
    concrete machine does, in a configuration satisfying the state invariants
    ([Good]).  [Hist]: the link between the events of the trace (a submission
    returned / returned "accepted", a result was received, a Stop call
    returned) and the token accounting of the state. *)
From Coq Require Import List Arith Bool ZArith Lia.
From Garr Require Import Conc.Conc Pure.F64 Queue.MutexModel Pool.PoolModel Pool.PoolBase Pool.PoolInv1 Pool.PoolTok
  Pool.PoolStop Pool.PoolStopMain Pool.PoolStopDone Pool.PoolAcct.
Import ListNotations.

Notation pevent := (event pop pret).

(** ** What the trace says *)
Definition recvd (x : nat) (tr : list pevent) : list tres := flat_map (rcv_ev x) tr.
Definition acc_ret (r : pret) : bool := match r with PU | PB true => true | _ => false end.
(* the submission of task x has returned / has returned "accepted" (Do, Execute: returned; TryDo, TryExecute: returned true) *)
Definition returned (x : nat) (tr : list pevent) : Prop :=
  exists i o r, In (ERet i o r) tr /\ sub_id o = Some x.
Definition accepted (x : nat) (tr : list pevent) : Prop :=
  exists i o r, In (ERet i o r) tr /\ sub_id o = Some x /\ acc_ret r = true.
Definition stop_returned (tr : list pevent) : Prop := exists i r, In (ERet i Stop r) tr.

Lemma recvd_app x tr1 tr2 : recvd x (tr1 ++ tr2) = recvd x tr1 ++ recvd x tr2.
Proof. unfold recvd. apply flat_map_app. Qed.

Lemma accepted_returned x tr : accepted x tr -> returned x tr.
Proof. intros (i & o & r & H1 & H2 & _). exists i, o, r. auto. Qed.

(* thread i is about to release the read lock at the end of the submission of x *)
Definition at_unlock (c : pconfig) (x : nat) (k : subk) : Prop :=
  exists i th o, nth_error (c_thr c) i = Some th /\ t_cur th = Some (o, SubRUnlock k) /\ sub_id o = Some x.

Definition evs_of (t : nat) (o : pop) (out : pout) : list pevent :=
  match out with Done r _ _ => [ERet t o r] | _ => [] end.

Section Hist.
Variable nw : nat.
Variable lim : Z.
Notation M := (pool nw lim).

Lemma trace_app (c : pconfig) s1 s2 : trace M c (s1 ++ s2) = trace M c s1 ++ trace M (final M c s1) s2.
Proof.
  revert c; induction s1 as [|t s1 IH]; intros c; simpl.
  - reflexivity.
  - rewrite !trace_cons, final_cons, IH, app_assoc. reflexivity.
Qed.

(** invariants over (configuration, trace) *)
Lemma hist_invariant (P : pconfig -> list pevent -> Prop) :
  (forall c tr t c' e, P c tr -> step_thread M c t = Some (c', e) -> P c' (tr ++ e)) ->
  forall sched c tr, P c tr -> P (final M c sched) (tr ++ trace M c sched).
Proof.
  intros Hstep sched. induction sched as [|t sched IH]; intros c tr H.
  - change (final M c []) with c. change (trace M c []) with (@nil pevent). rewrite app_nil_r. exact H.
  - rewrite final_cons, trace_cons. unfold step_cfg, step_evs.
    destruct (step_thread M c t) as [[c' e]|] eqn:E.
    + rewrite app_assoc. apply IH. eapply Hstep; eauto.
    + simpl. apply IH. exact H.
Qed.

Variable nc : nat.
Variable ndo : nat.

Definition Good (c : pconfig) : Prop := Inv13S nw nc ndo (c_sh c) (aths c) /\ alive c.

(** one step of the concrete machine from a good configuration *)
Record sdata (c : pconfig) (t : nat) (c' : pconfig) (e : list pevent)
    (th : pthread) (o : pop) (l : ppc) (pr : list pop) (out : pout) (fresh : bool) (th' : pthread) : Prop := {
  sd_n : nth_error (c_thr c) t = Some th;
  sd_a : nth_error (aths c) t = Some (abs_th th);
  sd_v : a_view (abs_th th) = Some (l, pr);
  sd_np : forall o', snd (abs_th th) <> Some (PInv o');
  sd_cur : if fresh then t_cur th = None /\ t_prog th = o :: pr /\ l = PInv o
           else t_cur th = Some (o, l) /\ pr = t_prog th;
  sd_e : e = (if fresh then [EInv t o] else []) ++ evs_of t o out;
  sd_out : pstep nw lim l (c_sh c) = out;
  sd_ok : out_ok out = true;
  sd_sh : c_sh c' = out_sh (c_sh c) out;
  sd_thr : c_thr c' = upd (c_thr c) t th';
  sd_prog' : t_prog th' = pr;
  sd_cur' : t_cur th' = match out_cur out with Some l' => Some (o, l') | None => None end;
  sd_aths : aths c' = upd (aths c) t (pr, out_cur out);
  sd_good : Good c'
}.

Lemma step_good c t c' e :
  Good c -> step_thread M c t = Some (c', e) ->
  exists th o l pr out fresh th', sdata c t c' e th o l pr out fresh th'.
Proof.
  intros [HI Hal] Hs.
  unfold step_thread in Hs. destruct (nth_error (c_thr c) t) as [th|] eqn:Hn; [|discriminate].
  assert (Hd : t_dead th = false).
  { unfold alive in Hal. rewrite Forall_forall in Hal. apply Hal. eapply nth_error_In; eauto. }
  pose proof (aths_nth _ _ _ Hn) as Hna.
  assert (Hnp : forall o', snd (abs_th th) <> Some (PInv o')).
  { intros o' Hx. destruct HI as (HI1 & _). destruct (abs_th th) as [prog cur] eqn:Ea. simpl in Hx. subst cur.
    eapply (stored_not_inv nc); eauto. }
  assert (Hgood : forall l pr out, a_view (abs_th th) = Some (l, pr) -> pstep nw lim l (c_sh c) = out ->
            (out_ok out = true -> Inv13S nw nc ndo (out_sh (c_sh c) out) (upd (aths c) t (pr, out_cur out))) /\ out <> Fault).
  { intros l pr out Hv Ho. pose proof (Inv13S_step nw lim nc ndo _ _ _ _ _ _ HI Hna Hv) as Hst.
    unfold astep in Hst. rewrite Ho in Hst. destruct out; simpl; split; auto; try discriminate; try (intros; discriminate). }
  unfold view in Hs. rewrite Hd in Hs.
  destruct (t_cur th) as [[o l]|] eqn:Hcur.
  - simpl in Hs. change (m_step M l (c_sh c)) with (pstep nw lim l (c_sh c)) in Hs.
    assert (Hv : a_view (abs_th th) = Some (l, t_prog th)).
    { unfold abs_th, a_view. rewrite Hcur. reflexivity. }
    destruct (Hgood _ _ _ Hv eq_refl) as [Hg Hnf].
    destruct (pstep nw lim l (c_sh c)) as [l' s'|r u s'| |] eqn:Ep; try discriminate; [| |congruence].
    + injection Hs as <- <-.
      exists th, o, l, (t_prog th), (Next l' s'), false, (Thread (t_prog th) (t_ts th) (Some (o, l')) false).
      constructor; simpl; auto.
      * unfold aths. simpl. rewrite map_upd. reflexivity.
      * split; [unfold aths; simpl; rewrite map_upd; apply Hg; reflexivity|]. unfold alive. simpl. apply Forall_upd; auto.
    + injection Hs as <- <-.
      exists th, o, l, (t_prog th), (Done r u s'), false, (Thread (t_prog th) u None false).
      constructor; simpl; auto.
      * unfold aths. simpl. rewrite map_upd. reflexivity.
      * split; [unfold aths; simpl; rewrite map_upd; apply Hg; reflexivity|]. unfold alive. simpl. apply Forall_upd; auto.
  - destruct (t_prog th) as [|o rest] eqn:Hprog; [discriminate|].
    change (m_start M (t_ts th) o) with (PInv o) in Hs. simpl rest_prog in Hs. rewrite Hprog in Hs. simpl tl in Hs.
    change (m_step M (PInv o) (c_sh c)) with (pstep nw lim (PInv o) (c_sh c)) in Hs.
    assert (Hv : a_view (abs_th th) = Some (PInv o, rest)).
    { unfold abs_th, a_view. rewrite Hcur, Hprog. reflexivity. }
    destruct (Hgood _ _ _ Hv eq_refl) as [Hg Hnf].
    destruct (pstep nw lim (PInv o) (c_sh c)) as [l' s'|r u s'| |] eqn:Ep; try discriminate; [| |congruence].
    + injection Hs as <- <-.
      exists th, o, (PInv o), rest, (Next l' s'), true, (Thread rest (t_ts th) (Some (o, l')) false).
      constructor; simpl; auto.
      * unfold aths. simpl. rewrite map_upd. reflexivity.
      * split; [unfold aths; simpl; rewrite map_upd; apply Hg; reflexivity|]. unfold alive. simpl. apply Forall_upd; auto.
    + injection Hs as <- <-.
      exists th, o, (PInv o), rest, (Done r u s'), true, (Thread rest u None false).
      constructor; simpl; auto.
      * unfold aths. simpl. rewrite map_upd. reflexivity.
      * split; [unfold aths; simpl; rewrite map_upd; apply Hg; reflexivity|]. unfold alive. simpl. apply Forall_upd; auto.
Qed.

End Hist.

Section HistInv.
Variable nw : nat.
Variable lim : Z.
Variable nc : nat.
Variable ndo : nat.
Notation M := (pool nw lim).

(* tokens of task x in the state + results already received *)
Definition Dx (c : pconfig) (tr : list pevent) (x : nat) : nat :=
  tokens (c_sh c) (aths c) x + length (recvd x tr).

Record Hist (c : pconfig) (tr : list pevent) : Prop := {
  h_good : Good nw nc ndo c;
  h_opc : forall i th o l, nth_error (c_thr c) i = Some th -> t_cur th = Some (o, l) -> opc_ok o l;
  h_one : forall x, Dx c tr x <= 1;
  h_ret : forall x, (exists k, at_unlock c x k) \/ returned x tr -> Hsub x (aths c) = 0;
  h_acc : forall x, (exists k, k <> KTry false /\ at_unlock c x k) \/ accepted x tr -> Dx c tr x = 1;
  h_res : forall x v, In v (recvd x tr) -> exists n, exq (c_sh c) x = Some n /\ res_ok x n v;
  h_stop : stop_returned tr -> p_state (c_sh c) = 2
}.

Generalizable All Variables.

Lemma Hist_I1 `(HH : Hist c tr) : Inv1 nc (c_sh c) (aths c). Proof. destruct HH as [[(H1 & _) _] _ _ _ _ _ _]. exact H1. Qed.
Lemma Hist_I2 `(HH : Hist c tr) : Inv2 (c_sh c) (aths c). Proof. destruct HH as [[(_ & H2 & _) _] _ _ _ _ _ _]. exact H2. Qed.
Lemma Hist_IS `(HH : Hist c tr) : InvS (c_sh c) (aths c). Proof. destruct HH as [[(_ & _ & _ & H4) _] _ _ _ _ _ _]. exact H4. Qed.

Lemma sd_opc `(HH : Hist c tr) `(SD : sdata nw lim nc ndo c t c' e th o l pr out fresh th') : opc_ok o l.
Proof.
  pose proof (sd_cur _ _ _ _ _ _ _ _ _ _ _ _ _ _ _ SD) as Hc. destruct fresh.
  - destruct Hc as (_ & _ & ->). reflexivity.
  - destruct Hc as [Hc _]. eapply (h_opc _ _ HH); [apply (sd_n _ _ _ _ _ _ _ _ _ _ _ _ _ _ _ SD)|exact Hc].
Qed.

Lemma sd_notfresh_pc `(HH : Hist c tr) `(SD : sdata nw lim nc ndo c t c' e th o l pr out fresh th') : (forall o', l <> PInv o') -> fresh = false.
Proof.
  intros Hl. pose proof (sd_cur _ _ _ _ _ _ _ _ _ _ _ _ _ _ _ SD) as Hc. destruct fresh; [|reflexivity].
  destruct Hc as (_ & _ & ->). exfalso. eapply Hl. reflexivity.
Qed.

Lemma sd_abs_notfresh `(HH : Hist c tr) `(SD : sdata nw lim nc ndo c t c' e th o l pr out fresh th') : fresh = false -> abs_th th = (pr, Some l).
Proof.
  intros ->. pose proof (sd_cur _ _ _ _ _ _ _ _ _ _ _ _ _ _ _ SD) as [Hc ->]. unfold abs_th. rewrite Hc. reflexivity.
Qed.

Lemma sd_abs_fresh `(HH : Hist c tr) `(SD : sdata nw lim nc ndo c t c' e th o l pr out fresh th') : fresh = true -> abs_th th = (o :: pr, None) /\ l = PInv o.
Proof.
  intros ->. pose proof (sd_cur _ _ _ _ _ _ _ _ _ _ _ _ _ _ _ SD) as (Hc & Hp & ->). unfold abs_th. rewrite Hc, Hp. auto.
Qed.

Lemma sd_nth `(HH : Hist c tr) `(SD : sdata nw lim nc ndo c t c' e th o l pr out fresh th') i : nth_error (c_thr c') i = if Nat.eqb t i then Some th' else nth_error (c_thr c) i.
Proof.
  rewrite (sd_thr _ _ _ _ _ _ _ _ _ _ _ _ _ _ _ SD), nth_error_upd, (sd_n _ _ _ _ _ _ _ _ _ _ _ _ _ _ _ SD). reflexivity.
Qed.

Lemma sd_recvd_e `(HH : Hist c tr) `(SD : sdata nw lim nc ndo c t c' e th o l pr out fresh th') x : length (recvd x e) = match out with Done _ _ _ => lossf l out x | _ => 0 end.
Proof.
  rewrite (sd_e _ _ _ _ _ _ _ _ _ _ _ _ _ _ _ SD), recvd_app, app_length.
  assert (E1 : recvd x (if fresh then [EInv t o] else []) = []) by (destruct fresh; reflexivity).
  rewrite E1. simpl. destruct out as [l' s'|r u s'| |] eqn:Eo; simpl; try reflexivity.
  rewrite app_nil_r. apply (lossf_done nw lim t o l (c_sh c) r u s' x (sd_opc HH SD)).
  apply (sd_out _ _ _ _ _ _ _ _ _ _ _ _ _ _ _ SD).
Qed.

(* exact accounting: tokens + received results change only when a TryDo gives up *)
Lemma sd_D `(HH : Hist c tr) `(SD : sdata nw lim nc ndo c t c' e th o l pr out fresh th') x : Dx c' (tr ++ e) x + match out with Next _ _ => lossf l out x | _ => 0 end = Dx c tr x.
Proof.
  unfold Dx. rewrite (sd_sh _ _ _ _ _ _ _ _ _ _ _ _ _ _ _ SD), (sd_aths _ _ _ _ _ _ _ _ _ _ _ _ _ _ _ SD), recvd_app, app_length, (sd_recvd_e HH SD).
  pose proof (tokens_step nw lim nc _ _ _ _ _ _ _ x (Hist_I1 HH) (Hist_I2 HH) (sd_a _ _ _ _ _ _ _ _ _ _ _ _ _ _ _ SD) (sd_v _ _ _ _ _ _ _ _ _ _ _ _ _ _ _ SD)
                (sd_out _ _ _ _ _ _ _ _ _ _ _ _ _ _ _ SD) (sd_ok _ _ _ _ _ _ _ _ _ _ _ _ _ _ _ SD)) as Ht.
  pose proof (sd_ok _ _ _ _ _ _ _ _ _ _ _ _ _ _ _ SD) as Hok.
  destruct out; try discriminate Hok; lia.
Qed.

Lemma sd_Hsub `(HH : Hist c tr) `(SD : sdata nw lim nc ndo c t c' e th o l pr out fresh th') x : Hsub x (aths c') + hsub x (abs_th th) = Hsub x (aths c) + hsub x (pr, out_cur out).
Proof. rewrite (sd_aths _ _ _ _ _ _ _ _ _ _ _ _ _ _ _ SD). apply Hsub_upd. apply (sd_a _ _ _ _ _ _ _ _ _ _ _ _ _ _ _ SD). Qed.

Lemma sd_Hsub_le `(HH : Hist c tr) `(SD : sdata nw lim nc ndo c t c' e th o l pr out fresh th') x : Hsub x (aths c') <= Hsub x (aths c).
Proof.
  pose proof ((sd_Hsub HH SD) x) as E.
  pose proof (hsub_step nw lim (c_sh c) (abs_th th) l pr out x (sd_np _ _ _ _ _ _ _ _ _ _ _ _ _ _ _ SD) (sd_v _ _ _ _ _ _ _ _ _ _ _ _ _ _ _ SD)
                (sd_out _ _ _ _ _ _ _ _ _ _ _ _ _ _ _ SD) (sd_ok _ _ _ _ _ _ _ _ _ _ _ _ _ _ _ SD)). lia.
Qed.

Lemma sd_ret_event `(HH : Hist c tr) `(SD : sdata nw lim nc ndo c t c' e th o l pr out fresh th') i o' r : In (ERet i o' r) e -> i = t /\ o' = o /\ exists u s', out = Done r u s'.
Proof.
  rewrite (sd_e _ _ _ _ _ _ _ _ _ _ _ _ _ _ _ SD). intros Hin. apply in_app_or in Hin. destruct Hin as [Hin|Hin].
  - destruct fresh; simpl in Hin; [destruct Hin as [Hin|[]]; discriminate|contradiction].
  - destruct out as [l' s'|r0 u s'| |]; simpl in Hin; try contradiction.
    destruct Hin as [Hin|[]]. injection Hin as <- <- <-. eauto.
Qed.

Lemma Hsub_le_one `(HH : Hist c tr) `(SD : sdata nw lim nc ndo c t c' e th o l pr out fresh th') x : Hsub x (aths c) <= 1.
Proof.
  pose proof (Hsub_le_H0 x (aths c)). pose proof (t_tok _ _ (Hist_I2 HH) x) as Ht. unfold tokens in Ht. lia.
Qed.

Lemma hsub_tokens `(HH : Hist c tr) `(SD : sdata nw lim nc ndo c t c' e th o l pr out fresh th') x : 1 <= hsub x (abs_th th) -> tokens (c_sh c) (aths c) x = 1 /\ recvd x tr = [] /\ Hsub x (aths c) = 1.
Proof.
  intros H. pose proof (Hsub_ge x _ _ _ (sd_a _ _ _ _ _ _ _ _ _ _ _ _ _ _ _ SD)) as Hg.
  pose proof (Hsub_le_H0 x (aths c)) as Hle. pose proof (h_one _ _ HH x) as H1. unfold Dx in H1.
  pose proof (t_tok _ _ (Hist_I2 HH) x) as Ht. unfold tokens in *.
  split; [lia|]. split; [|lia]. destruct (recvd x tr); [reflexivity|simpl in H1; lia].
Qed.

(* the thread that steps now sits at the unlock step of the submission of x *)
Lemma sd_new_unlock `(HH : Hist c tr) `(SD : sdata nw lim nc ndo c t c' e th o l pr out fresh th') x k :
  t_cur th' = Some (o, SubRUnlock k) -> sub_id o = Some x ->
  fresh = false /\ toks l = Some x /\ Hsub x (aths c') = 0 /\ Dx c tr x = 1 /\ out_cur out = Some (SubRUnlock k).
Proof.
  intros Hc Hs. rewrite (sd_cur' _ _ _ _ _ _ _ _ _ _ _ _ _ _ _ SD) in Hc.
  destruct (out_cur out) as [l'|] eqn:Eo; [|discriminate]. injection Hc as ->.
  destruct out as [l' s'| | |] eqn:Eout; try discriminate Eo. injection Eo as ->.
  pose proof (enter_unlock nw lim o l (c_sh c) k s' x (sd_opc HH SD) (sd_out _ _ _ _ _ _ _ _ _ _ _ _ _ _ _ SD) Hs) as Htk.
  assert (Hf : fresh = false).
  { apply (sd_notfresh_pc HH SD). intros o' ->. discriminate Htk. }
  pose proof ((sd_abs_notfresh HH SD) Hf) as Ea.
  assert (Hh : hsub x (abs_th th) = cnt (subids pr) x + 1).
  { rewrite Ea. unfold hsub. simpl. rewrite Htk. simpl. rewrite eqn_refl. reflexivity. }
  destruct ((hsub_tokens HH SD) x) as (T1 & T2 & T3); [lia|].
  pose proof ((sd_Hsub HH SD) x) as E. rewrite Hh in E. unfold hsub in E at 1. simpl in E.
  split; [exact Hf|]. split; [exact Htk|]. split; [lia|]. split; [|reflexivity].
  unfold Dx. rewrite T1, T2. reflexivity.
Qed.

Lemma at_unlock_step `(HH : Hist c tr) `(SD : sdata nw lim nc ndo c t c' e th o l pr out fresh th') x k :
  at_unlock c' x k -> at_unlock c x k \/ (t_cur th' = Some (o, SubRUnlock k) /\ sub_id o = Some x).
Proof.
  intros (i & thi & oi & Hi & Hc & Hs). rewrite (sd_nth HH SD) in Hi. destruct (Nat.eqb_spec t i) as [<-|Hne].
  - injection Hi as <-. right. rewrite Hc. pose proof (sd_cur' _ _ _ _ _ _ _ _ _ _ _ _ _ _ _ SD) as Hc'. rewrite Hc in Hc'.
    destruct (out_cur out); [|discriminate]. injection Hc' as -> _. auto.
  - left. exists i, thi, oi. auto.
Qed.

(* a submission of x returns now: the thread was at its unlock step *)
Lemma sd_sub_returns `(HH : Hist c tr) `(SD : sdata nw lim nc ndo c t c' e th o l pr out fresh th') i o' r x :
  In (ERet i o' r) e -> sub_id o' = Some x -> exists k, at_unlock c x k /\ r = kret k.
Proof.
  intros Hin Hs. destruct ((sd_ret_event HH SD) _ _ _ Hin) as (-> & -> & u & s' & Eo).
  pose proof (sd_out _ _ _ _ _ _ _ _ _ _ _ _ _ _ _ SD) as Hp. rewrite Eo in Hp.
  destruct (sub_done nw lim o l (c_sh c) r u s' x (sd_opc HH SD) Hp Hs) as (k & El & Er).
  exists k. split; [|exact Er].
  assert (Hf : fresh = false) by (apply (sd_notfresh_pc HH SD); intros o' ->; discriminate El).
  pose proof (sd_cur _ _ _ _ _ _ _ _ _ _ _ _ _ _ _ SD) as Hc. rewrite Hf in Hc. destruct Hc as [Hc _].
  exists t, th, o. split; [apply (sd_n _ _ _ _ _ _ _ _ _ _ _ _ _ _ _ SD)|]. split; [rewrite Hc, El; reflexivity|exact Hs].
Qed.

Lemma Hist_step `(HH : Hist c tr) `(SD : sdata nw lim nc ndo c t c' e th o l pr out fresh th') : Hist c' (tr ++ e).
Proof.
  pose proof (sd_ok _ _ _ _ _ _ _ _ _ _ _ _ _ _ _ SD) as Hok.
  constructor.
  - apply (sd_good _ _ _ _ _ _ _ _ _ _ _ _ _ _ _ SD).
  - intros i thi oi li Hi Hc. rewrite (sd_nth HH SD) in Hi. destruct (Nat.eqb_spec t i) as [<-|Hne].
    + injection Hi as <-. rewrite (sd_cur' _ _ _ _ _ _ _ _ _ _ _ _ _ _ _ SD) in Hc.
      destruct out as [l' s'| | |] eqn:Eo; try discriminate Hc. simpl in Hc. injection Hc as <- <-.
      eapply opc_step; [apply (sd_opc HH SD)|apply (sd_out _ _ _ _ _ _ _ _ _ _ _ _ _ _ _ SD)].
    + eapply (h_opc _ _ HH); eauto.
  - intros x. pose proof ((sd_D HH SD) x). pose proof (h_one _ _ HH x). lia.
  - intros x [[k Hu]|Hr].
    + destruct ((at_unlock_step HH SD) _ _ Hu) as [Hu'|[Hc Hs]].
      * pose proof (h_ret _ _ HH x (or_introl (ex_intro _ k Hu'))). pose proof ((sd_Hsub_le HH SD) x). lia.
      * destruct ((sd_new_unlock HH SD) _ _ Hc Hs) as (_ & _ & Hz & _). exact Hz.
    + destruct Hr as (i & o' & r & Hin & Hs). apply in_app_or in Hin.
      assert (Hz : Hsub x (aths c) = 0); [|pose proof ((sd_Hsub_le HH SD) x); lia].
      destruct Hin as [Hin|Hin].
      * apply (h_ret _ _ HH). right. exists i, o', r. auto.
      * destruct ((sd_sub_returns HH SD) _ _ _ _ Hin Hs) as (k & Hu & _). apply (h_ret _ _ HH). left. eauto.
  - intros x Hp.
    (* either the premise already held, or the stepping thread enters its unlock step now *)
    assert (Hcase : ((exists k, k <> KTry false /\ at_unlock c x k) \/ accepted x tr) \/
                    (exists k, k <> KTry false /\ t_cur th' = Some (o, SubRUnlock k) /\ sub_id o = Some x)).
    { destruct Hp as [(k & Hk & Hu)|(i & o' & r & Hin & Hs & Ha)].
      - destruct ((at_unlock_step HH SD) _ _ Hu) as [Hu'|[Hc Hs]]; [left; left; eauto|right; eauto].
      - apply in_app_or in Hin. destruct Hin as [Hin|Hin].
        + left. right. exists i, o', r. auto.
        + destruct ((sd_sub_returns HH SD) _ _ _ _ Hin Hs) as (k & Hu & ->). left. left. exists k. split; [|exact Hu].
          intros ->. discriminate Ha. }
    destruct Hcase as [Hold|(k & Hk & Hc & Hs)].
    + pose proof (h_acc _ _ HH x Hold) as HD.
      assert (Hz : Hsub x (aths c) = 0).
      { apply (h_ret _ _ HH). destruct Hold as [(k & _ & Hu)|Ha]; [left; eauto|right; apply accepted_returned; exact Ha]. }
      pose proof ((sd_D HH SD) x) as E.
      assert (Hl : match out with Next _ _ => lossf l out x | _ => 0 end = 0); [|lia].
      destruct out as [l' s'| | |]; try reflexivity.
      destruct (lossf l (Next l' s') x) eqn:El; [reflexivity|exfalso].
      assert (Hl : l = SubTryDoSel x).
      { destruct l; simpl in El; try discriminate El. destruct l'; try discriminate El. destruct k; try discriminate El.
        destruct added; try discriminate El. unfold eqn in El. destruct (Nat.eqb_spec id x); [congruence|discriminate]. }
      assert (Hf : fresh = false) by (apply (sd_notfresh_pc HH SD); intros o' Ho'; rewrite Hl in Ho'; discriminate Ho').
      pose proof ((sd_abs_notfresh HH SD) Hf) as Ea.
      pose proof (Hsub_ge x _ _ _ (sd_a _ _ _ _ _ _ _ _ _ _ _ _ _ _ _ SD)) as Hg. rewrite Ea, Hl in Hg.
      unfold hsub in Hg. simpl in Hg. rewrite eqn_refl in Hg. lia.
    + destruct ((sd_new_unlock HH SD) _ _ Hc Hs) as (_ & _ & _ & HD & Eo).
      pose proof ((sd_D HH SD) x) as E.
      assert (Hl : match out with Next _ _ => lossf l out x | _ => 0 end = 0); [|lia].
      destruct out as [l' s'| | |]; try reflexivity. simpl in Eo. injection Eo as ->.
      destruct l; simpl; try reflexivity. destruct k as [|[|]]; try reflexivity. congruence.
  - intros x v Hin. rewrite recvd_app in Hin. apply in_app_or in Hin. destruct Hin as [Hin|Hin].
    + destruct (h_res _ _ HH x v Hin) as (n & Hn & Hr). exists n. split; [|exact Hr].
      rewrite (sd_sh _ _ _ _ _ _ _ _ _ _ _ _ _ _ _ SD), <- Hn.
      apply (exq_step nw lim (c_sh c) l out x (sd_out _ _ _ _ _ _ _ _ _ _ _ _ _ _ _ SD) Hok).
      destruct (exq_changer l x) eqn:Ec; [reflexivity|exfalso].
      assert (Hh : 1 <= h0 x (abs_th th)).
      { destruct fresh eqn:Ef.
        - destruct ((sd_abs_fresh HH SD) eq_refl) as [Ea El]. rewrite Ea. rewrite El in Ec. simpl in Ec.
          unfold h0. simpl. unfold subids. simpl. destruct (sub_id o) as [y|]; simpl in Ec; [|discriminate].
          simpl. rewrite ?cnt_app. simpl. unfold eqn in *. destruct (Nat.eqb y x); [lia|discriminate].
        - rewrite ((sd_abs_notfresh HH SD) eq_refl). unfold h0. simpl.
          destruct l; simpl in Ec; try discriminate Ec.
          + exfalso. eapply (sd_np _ _ _ _ _ _ _ _ _ _ _ _ _ _ _ SD). rewrite ((sd_abs_notfresh HH SD) eq_refl). reflexivity.
          + simpl. unfold eqn in *. destruct (Nat.eqb id x); [lia|discriminate]. }
      pose proof (H0_ge x _ _ _ (sd_a _ _ _ _ _ _ _ _ _ _ _ _ _ _ _ SD)) as Hg.
      pose proof (h_one _ _ HH x) as H1. unfold Dx, tokens in H1.
      destruct (recvd x tr); [contradiction|simpl in H1; lia].
    + assert (Hex : exists r u s', out = Done r u s' /\ In v (rcv_ev x (ERet t o r))).
      { rewrite (sd_e _ _ _ _ _ _ _ _ _ _ _ _ _ _ _ SD), recvd_app in Hin. apply in_app_or in Hin. destruct Hin as [Hin|Hin].
        - destruct fresh; simpl in Hin; contradiction.
        - destruct out as [l' s'|r u s'| |]; simpl in Hin; try contradiction. rewrite app_nil_r in Hin. eauto. }
      destruct Hex as (r & u & s' & Eo & Hv).
      pose proof (sd_out _ _ _ _ _ _ _ _ _ _ _ _ _ _ _ SD) as Hp. rewrite Eo in Hp.
      destruct (rcv_value nw lim t o l (c_sh c) r u s' x v (sd_opc HH SD) Hp Hv) as (tk & rest & Hg & Hf & Hq).
      exists (tk_execs tk). rewrite (sd_sh _ _ _ _ _ _ _ _ _ _ _ _ _ _ _ SD), Eo. simpl. split; [exact Hq|].
      destruct (t_ex _ _ (Hist_I2 HH) x tk Hg) as (_ & _ & _ & Hall). rewrite Hf in Hall. apply Forall_inv in Hall. exact Hall.
  - intros (i & r & Hin).
    pose proof (sd_good _ _ _ _ _ _ _ _ _ _ _ _ _ _ _ SD) as [(HI1' & _) _].
    pose proof (proj1 (i_st _ _ _ HI1')) as Hle2.
    apply in_app_or in Hin. destruct Hin as [Hin|Hin].
    + assert (H2 : p_state (c_sh c) = 2) by (apply (h_stop _ _ HH); exists i, r; exact Hin).
      assert (Hmono : p_state (c_sh c) <= p_state (c_sh c')); [|lia].
      rewrite (sd_sh _ _ _ _ _ _ _ _ _ _ _ _ _ _ _ SD).
      pose proof (astep_of_out nw lim _ _ _ (sd_out _ _ _ _ _ _ _ _ _ _ _ _ _ _ _ SD) Hok) as Ha.
      clear - Ha. revert Ha. generalize (out_cur out) (out_sh (c_sh c) out). intros cur s' H.
      destruct l; try (match goal with o' : pop |- _ => destruct o' end); step_cases H; eqb_clean; simpl; lia.
    + destruct ((sd_ret_event HH SD) _ _ _ Hin) as (-> & Eo' & u & s' & Eo). 
      pose proof (sd_opc HH SD) as Hopc. rewrite <- Eo' in Hopc.
      pose proof (sd_out _ _ _ _ _ _ _ _ _ _ _ _ _ _ _ SD) as Hp. rewrite Eo in Hp.
      assert (Hf : fresh = false).
      { apply (sd_notfresh_pc HH SD). intros o' El. rewrite El in Hopc, Hp. simpl in Hopc. subst o'. discriminate Hp. }
      pose proof ((sd_abs_notfresh HH SD) Hf) as Ea. pose proof (sd_a _ _ _ _ _ _ _ _ _ _ _ _ _ _ _ SD) as Hn. rewrite Ea in Hn.
      rewrite (sd_sh _ _ _ _ _ _ _ _ _ _ _ _ _ _ _ SD), Eo. simpl.
      destruct (Stop_done_state nw lim l (c_sh c) r u s' Hopc Hp) as [(El & Hne & ->)|(El & ->)].
      * pose proof (cntp_ge is_c1b _ _ _ Hn) as Hg. rewrite El in Hg. unfold pcf in Hg. simpl in Hg.
        pose proof (s_c1b _ _ (Hist_IS HH) Hg). pose proof (proj1 (i_st _ _ _ (Hist_I1 HH))). lia.
      * pose proof (cntp_ge is_dr _ _ _ Hn) as Hg. rewrite El in Hg. unfold pcf in Hg. simpl in Hg.
        pose proof (i_st _ _ _ (Hist_I1 HH)) as [_ Hst]. destruct (Nat.eq_dec (p_state (c_sh c)) 2) as [E2|N2]; [exact E2|].
        destruct (Hst N2) as [Hz _]. unfold nstop in Hz. lia.
Qed.


Lemma Hist_preserved c tr t c' e : Hist c tr -> step_thread M c t = Some (c', e) -> Hist c' (tr ++ e).
Proof.
  intros HH Hs. destruct (step_good nw lim nc ndo c t c' e (h_good _ _ HH) Hs) as (th & o & l & pr & out & fresh & th' & SD).
  eapply (Hist_step HH SD).
Qed.

End HistInv.

(** ** Every reachable configuration, with the trace that led to it *)
Section HistReach.
Variable nw : nat.
Variable lim : Z.
Variables (autostart : bool) (choices : list nat) (clients : list (list pop)) (nslots : nat).
Hypothesis Hok : clients_ok clients.
Notation M := (pool nw lim).
Notation nc := (length clients).
Notation ndo := (cntdo (concat clients)).
Notation cfg0 := (pool_cfg nw autostart choices clients nslots).

Lemma init_cur_none i th : nth_error (c_thr cfg0) i = Some th -> t_cur th = None.
Proof.
  unfold pool_cfg, init. simpl. rewrite nth_error_map.
  destruct (nth_error _ i); [|discriminate]. simpl. intros H. injection H as <-. reflexivity.
Qed.

Lemma Hist_init : Hist nw nc ndo cfg0 [].
Proof.
  assert (HG : Good nw nc ndo cfg0).
  { split; [|apply alive_init]. unfold pool_cfg. rewrite aths_init. apply Inv13S_init. exact Hok. }
  constructor.
  - exact HG.
  - intros i th o l Hi Hc. rewrite (init_cur_none _ _ Hi) in Hc. discriminate.
  - intros x. unfold Dx, recvd. cbn [flat_map length]. destruct HG as [(_ & H2 & _) _]. pose proof (t_tok _ _ H2 x). lia.
  - intros x [[k (i & th & o & Hi & Hc & _)]|(i & o & r & [] & _)]. rewrite (init_cur_none _ _ Hi) in Hc. discriminate.
  - intros x [(k & _ & (i & th & o & Hi & Hc & _))|(i & o & r & [] & _)]. rewrite (init_cur_none _ _ Hi) in Hc. discriminate.
  - intros x v [].
  - intros (i & r & []).
Qed.

Theorem Hist_reach sched : Hist nw nc ndo (final M cfg0 sched) (trace M cfg0 sched).
Proof.
  apply (hist_invariant nw lim (Hist nw nc ndo)) with (tr := []).
  - intros c tr t c' e. apply Hist_preserved.
  - exact Hist_init.
Qed.

(* the same from any configuration satisfying the invariant *)
Lemma Hist_run c tr sched : Hist nw nc ndo c tr -> Hist nw nc ndo (final M c sched) (tr ++ trace M c sched).
Proof.
  apply (hist_invariant nw lim (Hist nw nc ndo)). intros c1 tr1 t c' e. apply Hist_preserved.
Qed.

End HistReach.
