(** Worker pool (C17): every client call takes a bounded number of OWN steps. *)
From Coq Require Import List Arith Bool ZArith Lia.
From Garr Require Import Conc.Conc Pure.F64 Queue.MutexModel Pool.PoolModel Pool.PoolBase Pool.PoolInv1 Pool.PoolTok
  Pool.PoolStop Pool.PoolStopMain Pool.PoolMain Pool.PoolAfterStop Pool.PoolSelect Pool.PoolProgress Pool.PoolStepsGen.
From Garr Require Breaker.ConcBase Breaker.ConcHist Breaker.ConcWaitFreeMain.
Import ListNotations.

Section Rank.
Variable nw : nat.
Variable lim : Z.
Notation M := (pool nw lim).

(* own steps a Do / Execute has taken when it stands at its blocking select *)
Definition push_rank : nat := if (lim =? 0)%Z then 2 else 5.

(* [crank o l = Some n]: l is a pc of a call of o, reached after at most n own steps *)
Definition crank (o : pop) (l : ppc) : option nat :=
  match o with
  | TryDo _ _ _ | TryExecute _ _ =>
      match l with
      | SubRLock true _ => Some 1
      | SubClosedFut true _ | SubTryDoSel _ => Some 2
      | SubFut (KTry _) _ _ => Some 3
      | SubRUnlock (KTry _) => Some 4
      | _ => None
      end
  | Do _ _ _ | Execute _ _ =>
      match l with
      | SubRLock false _ => Some 1
      | SubClosedFut false _ => Some 2
      | SubTrySel _ => if (lim =? 0)%Z then None else Some 2
      | SubAddExp _ => if (lim =? 0)%Z then None else Some 3
      | SubWgAdd _ | SubSubExp _ => if (lim =? 0)%Z then None else Some 4
      | SubPush _ => Some push_rank
      | SubFut KDo _ _ => Some (push_rank + 1)
      | SubRUnlock KDo => Some (push_rank + 2)
      | _ => None
      end
  | Start =>
      match l with
      | StRLock => Some 1 | StCas => Some 2 | StWgAdd => Some 3 | StRUnlock => Some 4
      | _ => None
      end
  | Cancel _ => match l with CCancel _ => Some 1 | _ => None end
  | OpenGate _ => match l with GOpen _ => Some 1 | _ => None end
  | Fire _ => match l with FFire _ => Some 1 | _ => None end
  | Await _ => match l with RRecv _ | RNoTask => Some 1 | _ => None end
  | PollRes _ => match l with RPoll _ | RNoTask => Some 1 | _ => None end
  | AwaitBegun _ => match l with HBegun _ => Some 1 | _ => None end
  | AwaitArmed _ => match l with HArmed _ => Some 1 | _ => None end
  | AwaitTask _ => match l with HTask _ => Some 1 | _ => None end
  | AwaitExpanded _ => match l with HExpanded _ => Some 1 | _ => None end
  | Stop | Slot _ => None
  end.

Definition is_try (o : pop) : bool := match o with TryDo _ _ _ | TryExecute _ _ => true | _ => false end.
Definition is_do (o : pop) : bool := match o with Do _ _ _ | Execute _ _ => true | _ => false end.
(* the operations whose pcs form no loop: everything a client can call except Stop *)
Definition loop_free (o : pop) : bool := match o with Stop | Slot _ => false | _ => true end.

(* the bound: own steps up to and including the return *)
Definition cbound (o : pop) : nat :=
  match o with
  | TryDo _ _ _ | TryExecute _ _ => 5
  | Do _ _ _ | Execute _ _ => push_rank + 3
  | Start => 5
  | Stop | Slot _ => 0
  | _ => 2
  end.

Lemma crank_inv o s l' s' :
  loop_free o = true -> pstep nw lim (PInv o) s = Next l' s' -> exists n, crank o l' = Some n /\ 1 <= n.
Proof.
  intros Hlf H.
  assert (Ha : astep nw lim (PInv o) s = RNext (Some l') s') by (unfold astep; rewrite H; reflexivity). clear H.
  destruct o; try discriminate Hlf; step_cases Ha; simpl; eauto.
Qed.

Lemma crank_step o l n s l' s' :
  crank o l = Some n -> pstep nw lim l s = Next l' s' -> exists n', crank o l' = Some n' /\ n + 1 <= n'.
Proof.
  intros Hr H.
  assert (Ha : astep nw lim l s = RNext (Some l') s') by (unfold astep; rewrite H; reflexivity). clear H.
  unfold crank, push_rank in *.
  destruct (lim =? 0)%Z eqn:El.
  all: destruct o; try discriminate Hr.
  all: destruct l; try discriminate Hr.
  all: try (match type of Hr with context [match ?x with _ => _ end] => destruct x; try discriminate Hr end).
  all: injection Hr as <-.
  all: step_cases Ha.
  all: try discriminate El.
  all: eexists; split; [reflexivity|lia].
Qed.

Lemma crank_bound o l n : crank o l = Some n -> n + 1 <= cbound o.
Proof.
  unfold crank, cbound, push_rank. intros Hr.
  destruct (lim =? 0)%Z; destruct o; try discriminate Hr; destruct l; try discriminate Hr;
    try (match type of Hr with context [match ?x with _ => _ end] => destruct x; try discriminate Hr end);
    injection Hr as <-; lia.
Qed.

End Rank.

Notation plog := (list (pconfig * nat)).

(** ** (A), (C), (D-Start): the loop-free operations.  From ANY configuration, under ANY schedule. *)
Section Bound.
Variable nw : nat.
Variable lim : Z.
Notation M := (pool nw lim).
Variables (c0 : pconfig) (sched : list nat).
Notation L := (steps_of M c0 sched).

Lemma cbound_pos o : loop_free o = true -> 1 <= cbound lim o.
Proof. unfold cbound, push_rank. destruct o; try discriminate; intros _; try lia. Qed.

(* a call of a loop-free operation that has not returned stands at one of its pcs, whose rank
   bounds the own steps taken so far *)
Theorem client_call_at_pc a b t o :
  loop_free o = true -> a <= b -> invoked_at M c0 sched a t o -> no_return M c0 sched t a b ->
  forall cb tb, nth_error L b = Some (cb, tb) ->
  forall th o' l, nth_error (c_thr (step_cfg M cb tb)) t = Some th -> t_cur th = Some (o', l) ->
  o' = o /\ exists n, crank lim o l = Some n /\ own_steps L t a b <= n /\ n + 1 <= cbound lim o.
Proof.
  intros Hlf Hab Hinv Hnr cb tb Hcb th o' l Hth Hcur.
  destruct (call_at_pc M c0 sched o (fun _ => crank lim o) (cbound lim o) (fun _ => True)) with (a := a) (b := b) (t := t) (cb := cb) (tb := tb) (th := th) (o' := o') (l := l)
    as (Eo & n & Hr & Hown); auto.
  - apply cbound_pos; exact Hlf.
  - intros u s l' s'. apply crank_inv. exact Hlf.
  - intros c t1 th1 l1 n l' s' _ _ _ _. apply crank_step.
  - intros c u c' e t1 th1 l1 n _ _ _ _ _ _ Hr. exists n. auto.
  - intros s l1 n. apply crank_bound.
  - split; [exact Eo|]. exists n. split; [exact Hr|]. split; [exact Hown|]. eapply crank_bound; eauto.
Qed.

(* every call of a loop-free operation takes at most [cbound] own steps, return included *)
Theorem client_call_bound a b t o :
  loop_free o = true -> invoked_at M c0 sched a t o -> a <= b -> b < length L ->
  (forall k ck, a <= k < b -> nth_error L k = Some (ck, t) -> ret_of M ck t = None) ->
  own_steps L t a b <= cbound lim o.
Proof.
  intros Hlf Hinv Hab Hlen Hnr.
  apply (call_bound M c0 sched o (fun _ => crank lim o) (cbound lim o) (fun _ => True)); auto.
  - apply cbound_pos; exact Hlf.
  - intros u s l' s'. apply crank_inv. exact Hlf.
  - intros c t1 th1 l1 n l' s' _ _ _ _. apply crank_step.
  - intros c u c' e t1 th1 l1 n _ _ _ _ _ _ Hr. exists n. auto.
  - intros s l1 n. apply crank_bound.
Qed.

(* positively: once the thread has taken more than [cbound] steps since the invocation, the call has returned *)
Theorem client_call_returns a b t o :
  loop_free o = true -> invoked_at M c0 sched a t o -> a <= b -> b < length L ->
  cbound lim o < own_steps L t a b ->
  exists k ck r, a <= k < b /\ nth_error L k = Some (ck, t) /\ ret_of M ck t = Some r.
Proof.
  intros Hlf Hinv Hab Hlen Hgt.
  apply (call_returns M c0 sched o (fun _ => crank lim o) (cbound lim o) (fun _ => True)); auto.
  - apply cbound_pos; exact Hlf.
  - intros u s l' s'. apply crank_inv. exact Hlf.
  - intros c t1 th1 l1 n l' s' _ _ _ _. apply crank_step.
  - intros c u c' e t1 th1 l1 n _ _ _ _ _ _ Hr. exists n. auto.
  - intros s l1 n. apply crank_bound.
Qed.

(** (A) TryDo / TryExecute: at most 5 own steps (invocation, RLock, select, delivery of a context
    error, RUnlock) - returned or not *)
Theorem trydo_own_step_bound a b t o :
  is_try o = true -> invoked_at M c0 sched a t o -> a <= b -> b < length L ->
  (forall k ck, a <= k < b -> nth_error L k = Some (ck, t) -> ret_of M ck t = None) ->
  own_steps L t a b <= 5.
Proof.
  intros Ht Hinv Hab Hlen Hnr.
  assert (Hlf : loop_free o = true) by (destruct o; try discriminate; reflexivity).
  pose proof (client_call_bound a b t o Hlf Hinv Hab Hlen Hnr) as H.
  destruct o; try discriminate; exact H.
Qed.

Corollary trydo_returns a b t o :
  is_try o = true -> invoked_at M c0 sched a t o -> a <= b -> b < length L ->
  5 < own_steps L t a b ->
  exists k ck r, a <= k < b /\ nth_error L k = Some (ck, t) /\ ret_of M ck t = Some r.
Proof.
  intros Ht Hinv Hab Hlen Hgt. apply (client_call_returns a b t o); auto.
  - destruct o; try discriminate; reflexivity.
  - destruct o; try discriminate; exact Hgt.
Qed.

(** (C) Do / Execute: at most [push_rank + 3] own steps in all: 8 with expansion (invocation, RLock,
    non-blocking select, AddInt32, wg.Add+go or AddInt32(-1), blocking select, delivery of a context
    error, RUnlock), 5 without (limit = 0).  Waiting costs no own step. *)
Theorem do_own_step_bound a b t o :
  is_do o = true -> invoked_at M c0 sched a t o -> a <= b -> b < length L ->
  (forall k ck, a <= k < b -> nth_error L k = Some (ck, t) -> ret_of M ck t = None) ->
  own_steps L t a b <= push_rank lim + 3 /\ push_rank lim + 3 <= 8.
Proof.
  intros Ht Hinv Hab Hlen Hnr.
  assert (Hlf : loop_free o = true) by (destruct o; try discriminate; reflexivity).
  pose proof (client_call_bound a b t o Hlf Hinv Hab Hlen Hnr) as H.
  split; [destruct o; try discriminate; exact H|]. unfold push_rank. destruct (lim =? 0)%Z; lia.
Qed.

(* a Do / Execute standing at its blocking select has taken at most [push_rank] own steps
   (5 with expansion, 2 without), however long it has been waiting there *)
Theorem do_at_push_steps a b t o :
  is_do o = true -> a <= b -> invoked_at M c0 sched a t o -> no_return M c0 sched t a b ->
  forall cb tb, nth_error L b = Some (cb, tb) ->
  forall id, at_pc (step_cfg M cb tb) t (SubPush id) ->
  own_steps L t a b <= push_rank lim /\ push_rank lim <= 5.
Proof.
  intros Ht Hab Hinv Hnr cb tb Hcb id (th & o' & Hth & Hcur).
  assert (Hlf : loop_free o = true) by (destruct o; try discriminate; reflexivity).
  destruct (client_call_at_pc a b t o Hlf Hab Hinv Hnr cb tb Hcb th o' _ Hth Hcur) as (-> & n & Hr & Hown & _).
  split; [|unfold push_rank; destruct (lim =? 0)%Z; lia].
  destruct o; try discriminate Ht; simpl in Hr; injection Hr as <-; exact Hown.
Qed.

(** (D) Start: at most 5 own steps (invocation, RLock, CAS, wg.Add + go of the fixed workers -
    ONE step of the model -, RUnlock) *)
Theorem start_own_step_bound a b t :
  invoked_at M c0 sched a t Start -> a <= b -> b < length L ->
  (forall k ck, a <= k < b -> nth_error L k = Some (ck, t) -> ret_of M ck t = None) ->
  own_steps L t a b <= 5.
Proof. intros Hinv Hab Hlen Hnr. exact (client_call_bound a b t Start eq_refl Hinv Hab Hlen Hnr). Qed.

End Bound.

(** ** The pcs of a call belong to its operation *)
Definition stop_pc (l : ppc) : bool :=
  match l with
  | XCas1 | XCas0 | XCas1b | XCancel | XLock | XClose | XUnlock | XWait | XDrainRecv | XDrainSend _ => true
  | _ => false
  end.

Definition kind_ok (lim : Z) (o : pop) (l : ppc) : Prop :=
  match o with
  | Stop => stop_pc l = true
  | Slot _ => True
  | _ => crank lim o l <> None
  end.

Definition Kind (lim : Z) (c : pconfig) : Prop :=
  forall i th o l, nth_error (c_thr c) i = Some th -> t_cur th = Some (o, l) -> kind_ok lim o l.

(* the pcs of a TryDo / TryExecute call: its RLock, or one of the never-blocking [try_pc] *)
Lemma try_kind lim o l : is_try o = true -> kind_ok lim o l -> try_pc l = true \/ exists id, l = SubRLock true id.
Proof.
  intros Ht Hk.
  destruct o; try discriminate Ht; unfold kind_ok in Hk; destruct l; simpl in Hk; try congruence;
    try (match goal with b : bool |- _ => destruct b end); try (match goal with k : subk |- _ => destruct k end);
    simpl in Hk |- *; try congruence; eauto.
Qed.

(* the pcs of a submission other than its RLock and the blocking select never block *)
Definition sub_mid_pc (l : ppc) : bool :=
  match l with
  | SubClosedFut _ _ | SubTrySel _ | SubAddExp _ | SubWgAdd _ | SubSubExp _ | SubTryDoSel _ | SubFut _ _ _ | SubRUnlock _ => true
  | _ => false
  end.

Lemma do_kind lim o l : is_do o = true -> kind_ok lim o l ->
  sub_mid_pc l = true \/ (exists id, l = SubRLock false id) \/ (exists id, l = SubPush id).
Proof.
  intros Ht Hk.
  destruct o; try discriminate Ht; unfold kind_ok in Hk; destruct l; simpl in Hk; try congruence;
    try (match goal with b : bool |- _ => destruct b end); simpl in Hk |- *; try congruence; eauto.
Qed.

Section KindInv.
Variable nw : nat.
Variable lim : Z.
Notation M := (pool nw lim).

Lemma kind_inv o s l' s' : pstep nw lim (PInv o) s = Next l' s' -> kind_ok lim o l'.
Proof.
  intros H. destruct (loop_free o) eqn:Hlf.
  - destruct (crank_inv nw lim o s l' s' Hlf H) as (n & Hr & _).
    destruct o; try discriminate Hlf; unfold kind_ok; rewrite Hr; discriminate.
  - destruct o; try discriminate Hlf; [|exact I].
    simpl in H. injection H as <- _. reflexivity.
Qed.

Lemma stop_pc_step l s l' s' : stop_pc l = true -> pstep nw lim l s = Next l' s' -> stop_pc l' = true.
Proof.
  intros Hl H.
  assert (Ha : astep nw lim l s = RNext (Some l') s') by (unfold astep; rewrite H; reflexivity). clear H.
  destruct l; try discriminate Hl; step_cases Ha; reflexivity.
Qed.

Lemma kind_step o l s l' s' : kind_ok lim o l -> pstep nw lim l s = Next l' s' -> kind_ok lim o l'.
Proof.
  intros Hk H.
  assert (G : forall o0, crank lim o0 l <> None -> crank lim o0 l' <> None).
  { intros o0 Hr. destruct (crank lim o0 l) as [n|] eqn:E; [|congruence].
    destruct (crank_step nw lim o0 l n s l' s' E H) as (n' & -> & _). discriminate. }
  destruct o; unfold kind_ok in *; try (apply G; exact Hk); [eapply stop_pc_step; eauto|exact I].
Qed.

Lemma Kind_step c t c' e : Kind lim c -> step_thread M c t = Some (c', e) -> Kind lim c'.
Proof.
  intros HK Hs.
  destruct (ConcHist.stepper_step _ _ _ _ _ Hs) as (th & o & l & fresh & Hn & Hv & _ & Hcase).
  assert (Hkl : forall l' s', pstep nw lim l (c_sh c) = Next l' s' -> kind_ok lim o l').
  { intros l' s' Hm. unfold view in Hv. destruct (t_dead th); [discriminate|].
    destruct (t_cur th) as [[o1 l1]|] eqn:Ec.
    - injection Hv as <- <- <-. eapply kind_step; [eapply HK; eauto|exact Hm].
    - destruct (t_prog th) as [|o1 r]; [discriminate|]. injection Hv as <- <- <-.
      eapply kind_inv. exact Hm. }
  intros i thi oi li Hi Hci.
  destruct Hcase as [(l' & s' & Hm & ->)|[(r & u & s' & Hm & ->)|(Hm & ->)]]; cbn [c_thr] in Hi;
    rewrite nth_error_upd in Hi; destruct (Nat.eqb_spec t i) as [<-|Hne]; try (eapply HK; eauto; fail);
    rewrite Hn in Hi; injection Hi as <-; cbn [t_cur] in Hci; try discriminate Hci.
  injection Hci as <- <-. eapply Hkl. exact Hm.
Qed.

Lemma Kind_init s0 progs : Kind lim (init ppc s0 tt progs).
Proof.
  intros i th o l Hi Hc. unfold init in Hi. cbn [c_thr] in Hi. rewrite nth_error_map in Hi.
  destruct (nth_error progs i); [|discriminate]. injection Hi as <-. discriminate Hc.
Qed.

Lemma Kind_reach s0 progs sched : Kind lim (final M (init ppc s0 tt progs) sched).
Proof. apply (invariant_run M (Kind lim)); [apply Kind_init|]. intros c t c' e. apply Kind_step. Qed.

End KindInv.

(** ** (B) a TryDo / TryExecute waits only for Stop's two-step critical section *)
Section Section2.
Variable nw : nat.
Variable lim : Z.
Variable nc : nat.
Notation M := (pool nw lim).

(* once p.closed is set and the write lock released, the write lock is never taken again *)
Lemma lock_free_step s ps t a l pr cur s' :
  Inv1 nc s ps -> p_closedflag s = true -> rw_writer (p_lock s) = false ->
  nth_error ps t = Some a -> a_view a = Some (l, pr) ->
  astep nw lim l s = RNext cur s' -> p_closedflag s' = true /\ rw_writer (p_lock s') = false.
Proof.
  intros HI Hcf Hw Hn Hv H.
  pose proof (cntp_ge is_pre _ _ _ Hn) as Gpre.
  pose proof (i_cf _ _ _ HI) as Icf. rewrite Hcf in Icf. destruct Icf as [Ipre _].
  destruct a as [prog [l0|]]; unfold a_view in Hv; simpl in Hv.
  - injection Hv as <- <-.
    destruct l0; step_cases H; unfold pcf in Gpre; simpl in Gpre; try lia; simpl; auto.
  - destruct prog as [|o pr0]; [discriminate|]. injection Hv as <- <-.
    destruct o; step_cases H; simpl; auto.
Qed.

(* where the Stop thread [j] is after [n] own steps from the entry of the section *)
Definition sect (j : nat) (s : pshared) (ps : list ath) (n : nat) : Prop :=
  ((exists pr, nth_error ps j = Some (pr, Some XClose)) /\ n = 0) \/
  ((exists pr, nth_error ps j = Some (pr, Some XUnlock)) /\ n <= 1) \/
  (p_closedflag s = true /\ rw_writer (p_lock s) = false).

Lemma sect_step j s ps t a l pr cur s' n :
  Inv1 nc s ps -> sect j s ps n -> nth_error ps t = Some a -> a_view a = Some (l, pr) ->
  astep nw lim l s = RNext cur s' ->
  sect j s' (upd ps t (pr, cur)) (n + (if Nat.eqb t j then 1 else 0)).
Proof.
  intros HI Hs Hn Hv H.
  destruct Hs as [[[pj Hj] ->]|[[[pj Hj] Hle]|[Hcf Hw]]].
  - destruct (Nat.eqb_spec t j) as [->|Hne].
    + rewrite Hj in Hn. injection Hn as <-. unfold a_view in Hv. simpl in Hv. injection Hv as <- <-.
      step_cases H. right; left. split; [|lia]. exists pj. rewrite nth_error_upd, Nat.eqb_refl, Hj. reflexivity.
    + left. split; [|lia]. exists pj. rewrite nth_error_upd. destruct (Nat.eqb_spec t j); [congruence|exact Hj].
  - destruct (Nat.eqb_spec t j) as [->|Hne].
    + rewrite Hj in Hn. injection Hn as <-. unfold a_view in Hv. simpl in Hv. injection Hv as <- <-.
      pose proof (cntp_ge is_ul _ _ _ Hj) as Gul. unfold pcf in Gul. simpl in Gul.
      pose proof (i_cf _ _ _ HI) as Icf.
      step_cases H. right; right. simpl. split; [|reflexivity].
      destruct (p_closedflag s); [reflexivity|lia].
    + right; left. split; [|lia]. exists pj. rewrite nth_error_upd. destruct (Nat.eqb_spec t j); [congruence|exact Hj].
  - right; right. eapply lock_free_step; eauto.
Qed.

Lemma steps_by_cons (c : pconfig) t (lg : plog) j :
  steps_by ((c, t) :: lg) j = (if Nat.eqb t j then 1 else 0) + steps_by lg j.
Proof. unfold ConcWaitFreeMain.steps_by. cbn [filter snd]. destruct (Nat.eqb t j); reflexivity. Qed.

Lemma sect_run j : forall sched' c n,
  Inv1 nc (c_sh c) (aths c) -> sect j (c_sh c) (aths c) n ->
  let c' := final M c sched' in
  Inv1 nc (c_sh c') (aths c') /\ sect j (c_sh c') (aths c') (n + steps_by (steps_of M c sched') j).
Proof.
  induction sched' as [|t r IH]; intros c n HI Hs.
  - simpl. rewrite Nat.add_0_r. auto.
  - cbn zeta. rewrite final_cons. cbn [ConcBase.steps_of]. unfold step_cfg.
    destruct (step_thread M c t) as [[c' e]|] eqn:E; [|apply IH; assumption].
    destruct (step_abs _ _ _ _ _ _ E) as (th & l & pr & Hn & Hd & Hv & Hm).
    pose proof (aths_nth _ _ _ Hn) as Hna.
    pose proof (Inv1_step nw lim nc _ _ _ _ _ _ HI Hna Hv) as HI'.
    destruct (astep nw lim l (c_sh c)) as [cur s'| |] eqn:Ea; try contradiction.
    destruct Hm as (Hs' & Hps & _).
    pose proof (sect_step j _ _ _ _ _ _ _ _ n HI Hs Hna Hv Ea) as Hs2.
    rewrite <- Hs', <- Hps in HI', Hs2.
    rewrite steps_by_cons, Nat.add_assoc. apply IH; assumption.
Qed.

End Section2.

Section WaitMain.
Variable nw : nat.
Variable lim : Z.
Variables (autostart : bool) (choices : list nat) (clients : list (list pop)) (nslots : nat).
Hypothesis Hok : clients_ok clients.
Notation M := (pool nw lim).
Notation nc := (length clients).
Notation cfg0 := (pool_cfg nw autostart choices clients nslots).

Lemma reach_app sched sched' : final M (final M cfg0 sched) sched' = final M cfg0 (sched ++ sched').
Proof. rewrite final_app. reflexivity. Qed.

(* a thread standing at a pc whose step is not blocked is enabled *)
Lemma at_pc_enabled sched j l :
  let c := final M cfg0 sched in
  at_pc c j l -> pstep nw lim l (c_sh c) <> Blocked -> step_thread M c j <> None.
Proof.
  intros c (th & o & Hn & Hc) Hnb.
  destruct (Inv1_reach nw lim autostart choices clients nslots sched Hok) as [_ Hal]. fold c in Hal.
  assert (Hd : t_dead th = false).
  { unfold alive in Hal. rewrite Forall_forall in Hal. apply Hal. eapply nth_error_In; eauto. }
  unfold step_thread, view. rewrite Hn, Hd, Hc. change (m_step M l (c_sh c)) with (pstep nw lim l (c_sh c)).
  destruct (pstep nw lim l (c_sh c)); try discriminate. congruence.
Qed.

(* the free lock is not refused *)
Lemma rlock_free s try id : rw_writer (p_lock s) = false -> pstep nw lim (SubRLock try id) s <> Blocked.
Proof.
  intros Hw. simpl. unfold rlock. rewrite Hw.
  destruct (p_closedflag s); [discriminate|]. destruct try; [discriminate|]. destruct (lim =? 0)%Z; discriminate.
Qed.

(** Stop's critical section: the thread inside it is enabled, and however the schedule continues,
    after [n] steps of its own it is at XClose (n = 0), at XUnlock (n <= 1) - enabled in both
    cases - or the section is over: p.closed is set and the write lock is free, for good. *)
Theorem stop_section_two_steps sched j :
  let c := final M cfg0 sched in
  at_pc c j XClose \/ at_pc c j XUnlock ->
  forall sched', let c' := final M c sched' in let n := steps_by (steps_of M c sched') j in
    (at_pc c' j XClose /\ n = 0 /\ step_thread M c' j <> None) \/
    (at_pc c' j XUnlock /\ n <= 1 /\ step_thread M c' j <> None) \/
    (p_closedflag (c_sh c') = true /\ rw_writer (p_lock (c_sh c')) = false).
Proof.
  intros c Hj sched' c' n.
  destruct (Inv1_reach nw lim autostart choices clients nslots sched Hok) as [HI1 _]. fold c in HI1.
  assert (Hs0 : sect j (c_sh c) (aths c) 0).
  { destruct Hj as [Hj|Hj]; destruct (at_pc_abs _ _ _ Hj) as [pr Hn]; [left|right; left]; split; eauto. }
  destruct (sect_run nw lim nc j sched' c 0 HI1 Hs0) as [_ Hs]. fold c' in Hs. cbn [plus] in Hs. fold n in Hs.
  assert (Ec : c' = final M cfg0 (sched ++ sched')) by (apply reach_app).
  destruct Hs as [[[pj Hp] Hn0]|[[[pj Hp] Hn1]|Hfree]].
  - left. apply abs_at_pc in Hp. split; [exact Hp|]. split; [exact Hn0|].
    rewrite Ec in Hp |- *. apply (at_pc_enabled _ _ _ Hp). simpl. destruct (p_qclosed _); discriminate.
  - right; left. apply abs_at_pc in Hp. split; [exact Hp|]. split; [exact Hn1|].
    rewrite Ec in Hp |- *. apply (at_pc_enabled _ _ _ Hp). discriminate.
  - right; right. exact Hfree.
Qed.

(* a refused RLock: some OTHER thread is inside Stop's critical section, it is enabled, and once it
   has taken two steps of its own the lock is free for good *)
Definition waits_for_stop_section (c : pconfig) (i : nat) : Prop :=
  exists j, j <> i /\ (at_pc c j XClose \/ at_pc c j XUnlock) /\ step_thread M c j <> None /\
    forall sched', let c' := final M c sched' in
      2 <= steps_by (steps_of M c sched') j ->
      rw_writer (p_lock (c_sh c')) = false /\ forall try id, pstep nw lim (SubRLock try id) (c_sh c') <> Blocked.

Lemma rlock_wait sched i try id :
  let c := final M cfg0 sched in
  at_pc c i (SubRLock try id) -> pstep nw lim (SubRLock try id) (c_sh c) = Blocked -> waits_for_stop_section c i.
Proof.
  intros c Hat Hb.
  destruct (rlock_blocked_only_by_stop nw lim autostart choices clients nslots sched Hok i try id Hat Hb) as [j Hj].
  fold c in Hj. exists j.
  split.
  { intros ->. destruct Hat as (th1 & o1 & Hn1 & Hc1).
    destruct Hj as [(th2 & o2 & Hn2 & Hc2)|(th2 & o2 & Hn2 & Hc2)]; rewrite Hn1 in Hn2; injection Hn2 as <-; congruence. }
  split; [exact Hj|].
  pose proof (stop_section_two_steps sched j Hj) as H2. fold c in H2.
  split.
  { destruct Hj as [Hj|Hj].
    - apply (at_pc_enabled _ _ _ Hj). simpl. destruct (p_qclosed _); discriminate.
    - apply (at_pc_enabled _ _ _ Hj). discriminate. }
  intros sched' c' Hge. specialize (H2 sched'). fold c' in H2. cbn zeta in H2.
  destruct H2 as [(_ & H0 & _)|[(_ & H1 & _)|[_ Hw]]]; try lia.
  split; [exact Hw|]. intros try0 id0. apply rlock_free. exact Hw.
Qed.

Lemma Kind_cfg sched : Kind lim (final M cfg0 sched).
Proof.
  exact (Kind_reach nw lim (pinit nw autostart choices) (clients ++ map (fun k => [Slot k]) (seq 0 nslots)) sched).
Qed.

(** (B) A TryDo / TryExecute caller whose next step is disabled stands at its RLock, and some OTHER
    thread is inside Stop's critical section (XClose or XUnlock); that thread is enabled, stays
    enabled until it has left the section ([stop_section_two_steps]), and once it has taken two
    steps of its own - whatever the other threads do in between - the write lock is free and is
    never taken again, so the RLock is not refused any more.  The wait is bounded by two steps of
    ONE other thread; it does not depend on any task's execution time nor on any other submitter. *)
Theorem trydo_waits_only_for_stop_section sched i o l fresh :
  let c := final M cfg0 sched in
  stepper M c i = Some (o, l, fresh) -> is_try o = true -> pstep nw lim l (c_sh c) = Blocked ->
  fresh = false /\ (exists id, l = SubRLock true id) /\ waits_for_stop_section c i.
Proof.
  intros c Hst Htry Hb.
  pose proof (Kind_cfg sched) as HK. fold c in HK.
  destruct (ConcHist.stepper_inv _ _ _ _ _ _ Hst) as (th & Hn & Hd & Hcur).
  destruct fresh.
  { exfalso. destruct Hcur as [_ ->]. change (m_start M (t_ts th) o) with (PInv o) in Hb.
    destruct o; try discriminate Htry; discriminate Hb. }
  split; [reflexivity|].
  pose proof (HK i th o l Hn Hcur) as Hk.
  assert (Hat : at_pc c i l) by (exists th, o; auto).
  assert (Hl : exists id, l = SubRLock true id).
  { destruct (try_kind lim o l Htry Hk) as [Etp|Hl]; [exfalso|exact Hl].
    exact (try_never_blocks nw lim autostart choices clients nslots sched Hok i l Hat Etp Hb). }
  split; [exact Hl|]. destruct Hl as [id ->].
  exact (rlock_wait sched i true id Hat Hb).
Qed.

Lemma sub_mid_not_blocked s ps i pr l :
  Inv2 s ps -> nth_error ps i = Some (pr, Some l) -> sub_mid_pc l = true -> pstep nw lim l s <> Blocked.
Proof.
  intros HI2 Hn Hr.
  assert (G0 : forall x, h0 x (pr, Some l) <= H0 x ps) by (intros x; eapply H0_ge; eauto).
  unfold h0 in G0. simpl in G0.
  destruct l; try discriminate Hr; simpl.
  - specialize (G0 id). simpl in G0. rewrite eqn_refl in G0.
    pose proof (future_send_ok s ps id TCanceled HI2 ltac:(lia)) as Hf.
    destruct (future_send s id TCanceled) as [[s1|]|]; try discriminate; congruence.
  - rewrite take_choice_eq. destruct (queue_send_ready s); [destruct (p_qclosed s)|]; discriminate.
  - destruct (wrap32 (p_expanded s + 1) <=? lim)%Z; discriminate.
  - discriminate.
  - discriminate.
  - unfold submit_select. destruct (get_task s id) as [t|]; [|discriminate]. rewrite take_choice_eq.
    destruct (pick_ready (ready_cases (submit_conds s t)) (hd 0 (p_choices s))) as [[|[|k]]|]; try discriminate.
    destruct (p_qclosed s); discriminate.
  - destruct (get_task s id); [|discriminate].
    specialize (G0 id). simpl in G0. rewrite eqn_refl in G0.
    pose proof (future_send_ok s ps id TCanceled HI2 ltac:(lia)) as Hf.
    destruct (future_send s id TCanceled) as [[s1|]|]; try discriminate; congruence.
  - discriminate.
Qed.

(* the same at a position of the log of any execution: the configuration there is reachable *)
Corollary trydo_waits_only_for_stop_section_log sched k ck tk i o l fresh :
  nth_error (steps_of M cfg0 sched) k = Some (ck, tk) ->
  stepper M ck i = Some (o, l, fresh) -> is_try o = true -> pstep nw lim l (c_sh ck) = Blocked ->
  fresh = false /\ (exists id, l = SubRLock true id) /\ waits_for_stop_section ck i.
Proof.
  intros Hk. destruct (ConcBase.steps_of_reach _ _ _ _ _ _ Hk) as [s1 ->].
  apply trydo_waits_only_for_stop_section.
Qed.

(** (C) A Do / Execute caller whose next step is disabled stands
    - at its RLock, waiting for Stop's two-step critical section (as a TryDo), or
    - at its blocking select ([SubPush]), and then the queue slot is taken and neither the pool's
      context nor the task's is done.
    Nowhere else: every other step of the call is enabled whenever the thread is scheduled. *)
Theorem do_waits_only_at_rlock_or_push sched i o l fresh :
  let c := final M cfg0 sched in
  stepper M c i = Some (o, l, fresh) -> is_do o = true -> pstep nw lim l (c_sh c) = Blocked ->
  fresh = false /\
  (((exists id, l = SubRLock false id) /\ waits_for_stop_section c i) \/
   (exists id t, l = SubPush id /\ get_task (c_sh c) id = Some t /\
      p_poolctx (c_sh c) = false /\ ctx_done (c_sh c) (tk_ctx t) = false /\ length (p_queue (c_sh c)) = 1)).
Proof.
  intros c Hst Hdo Hb.
  pose proof (Kind_cfg sched) as HK. fold c in HK.
  destruct (Inv12_reach nw lim autostart choices clients nslots sched Hok) as [[_ HI2] _]. fold c in HI2.
  destruct (ConcHist.stepper_inv _ _ _ _ _ _ Hst) as (th & Hn & Hd & Hcur).
  destruct fresh.
  { exfalso. destruct Hcur as [_ ->]. change (m_start M (t_ts th) o) with (PInv o) in Hb.
    destruct o; try discriminate Hdo; discriminate Hb. }
  split; [reflexivity|].
  pose proof (HK i th o l Hn Hcur) as Hk.
  assert (Hat : at_pc c i l) by (exists th, o; auto).
  destruct (do_kind lim o l Hdo Hk) as [Hmid|[[id ->]|[id ->]]].
  - exfalso. destruct (at_pc_abs _ _ _ Hat) as [pr Hna].
    exact (sub_mid_not_blocked _ _ _ _ _ HI2 Hna Hmid Hb).
  - left. split; [eauto|]. exact (rlock_wait sched i false id Hat Hb).
  - right.
    destruct (do_select_enabled_when_cancelled nw lim autostart choices clients nslots Hok sched i id Hat)
      as (t & Hg & _ & _ & Hiff & _).
    fold c in Hg, Hiff. destruct (proj1 Hiff Hb) as (H1 & H2 & H3).
    exists id, t. auto.
Qed.

End WaitMain.
