(** Option.normalize of worker-pool/pool.go: the pool machine [pool nw lim] is
    parameterised by the NORMALISED options; this is the map from what the
    caller passes.  [ncpu] = runtime.NumCPU() (>= 1). *)
From Coq Require Import ZArith Lia.
Local Open Scope Z_scope.

Definition norm_workers (ncpu w : Z) : Z := if w <=? 0 then ncpu else w.
Definition norm_limit (l : Z) : Z := if l <? 0 then 0 else l.

Lemma norm_workers_pos ncpu w : 1 <= ncpu -> 1 <= norm_workers ncpu w.
Proof. unfold norm_workers; destruct (Z.leb_spec w 0); lia. Qed.
Lemma norm_workers_id ncpu w : 1 <= w -> norm_workers ncpu w = w.
Proof. unfold norm_workers; destruct (Z.leb_spec w 0); lia. Qed.
Lemma norm_limit_nonneg l : 0 <= norm_limit l.
Proof. unfold norm_limit; destruct (Z.ltb_spec l 0); lia. Qed.
Lemma norm_limit_id l : 0 <= l -> norm_limit l = l.
Proof. unfold norm_limit; destruct (Z.ltb_spec l 0); lia. Qed.
