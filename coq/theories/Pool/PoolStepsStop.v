(** Worker pool: own-step bound of Stop (the one client operation with a loop).

    [srank s l]: upper bound on the own steps a Stop call has taken when it
    stands at [l] in shared state [s]; in the drain loop it depends on the
    length of the queue (<= 1, and it cannot grow any more: p.closed is set).
    Stop takes at most 12 = 10 + 2 * 1 own steps: invocation, up to three CAS,
    cancel, Lock, close, Unlock, wg.Wait, a final receive from the closed
    queue, plus (receive, send of the context error) for the at most ONE task
    it drains.  It waits (no own step) only at Lock and at wg.Wait. *)
From Coq Require Import List Arith Bool ZArith Lia.
From Garr Require Import Conc.Conc Pure.F64 Queue.MutexModel Pool.PoolModel Pool.PoolBase Pool.PoolInv1 Pool.PoolTok
  Pool.PoolStop Pool.PoolStopMain Pool.PoolMain Pool.PoolAfterStop Pool.PoolProgress Pool.PoolStepsGen Pool.PoolSteps.
From Garr Require Breaker.ConcBase Breaker.ConcHist Breaker.ConcWaitFreeMain.
Import ListNotations.

Local Arguments Nat.sub : simpl never.
Local Arguments Nat.mul : simpl never.

(* a - 2 * (length of the queue) *)
Definition qrank (a : nat) (s : pshared) : nat := a - 2 * length (p_queue s).

Definition srank (s : pshared) (l : ppc) : option nat :=
  match l with
  | XCas1 => Some 1 | XCas0 => Some 2 | XCas1b => Some 3 | XCancel => Some 4 | XLock => Some 5
  | XClose => Some 6 | XUnlock => Some 7 | XWait => Some 8
  | XDrainRecv => Some (qrank 11 s)
  | XDrainSend _ => Some (qrank 10 s)
  | _ => None
  end.

Section StopRank.
Variable nw : nat.
Variable lim : Z.
Variable nc : nat.
Notation M := (pool nw lim).

Lemma srank_bound s l n : srank s l = Some n -> n + 1 <= 12.
Proof. destruct l; try discriminate; intros [= <-]; unfold qrank; lia. Qed.

(* an own step: the rank goes up *)
Lemma srank_step s l n l' s' :
  length (p_queue s) <= 1 -> srank s l = Some n -> pstep nw lim l s = Next l' s' ->
  exists n', srank s' l' = Some n' /\ n + 1 <= n'.
Proof.
  intros Hq Hr H.
  assert (Ha : astep nw lim l s = RNext (Some l') s') by (unfold astep; rewrite H; reflexivity). clear H.
  destruct l; try discriminate Hr; injection Hr as <-; step_cases Ha; unfold srank;
    (eexists; split; [reflexivity|]); unfold qrank; simpl;
    repeat match goal with E : p_queue _ = _ |- _ => rewrite E in * end; simpl in *; lia.
Qed.

(* a step of another thread while Stop is in its call: the rank does not go down *)
Lemma srank_other s ps t pt l n u a lu pru cur s' :
  Inv1 nc s ps -> nth_error ps t = Some (pt, Some l) -> srank s l = Some n ->
  nth_error ps u = Some a -> a_view a = Some (lu, pru) -> astep nw lim lu s = RNext cur s' ->
  exists n', srank s' l = Some n' /\ n <= n'.
Proof.
  intros HI Ht Hr Hu Hv Ha.
  assert (Hq : is_dr l = true -> length (p_queue s') <= length (p_queue s)).
  { intros Hdr. pose proof (cntp_ge is_dr _ _ _ Ht) as Gdr. unfold pcf in Gdr. simpl in Gdr. rewrite Hdr in Gdr.
    pose proof (i_cf _ _ _ HI) as Icf.
    assert (Hcf : p_closedflag s = true) by (destruct (p_closedflag s); [reflexivity|lia]).
    destruct (closed_step nw lim nc s ps u a lu pru cur s' HI Hcf Hu Hv Ha) as (_ & _ & [pre Hpre] & _).
    rewrite Hpre, app_length. lia. }
  destruct l; try discriminate Hr; injection Hr as <-; unfold srank;
    (eexists; split; [reflexivity|]); try lia;
    specialize (Hq eq_refl); unfold qrank; lia.
Qed.

End StopRank.

Section StopMain.
Variable nw : nat.
Variable lim : Z.
Variables (autostart : bool) (choices : list nat) (clients : list (list pop)) (nslots : nat).
Hypothesis Hok : clients_ok clients.
Notation M := (pool nw lim).
Notation nc := (length clients).
Notation cfg0 := (pool_cfg nw autostart choices clients nslots).

Section Log.
Variable sched : list nat.
Notation L := (steps_of M cfg0 sched).

Definition SInv (c : pconfig) : Prop := Inv12 nc (c_sh c) (aths c).

Lemma log_SInv k ck tk : nth_error L k = Some (ck, tk) -> SInv ck.
Proof.
  intros H. destruct (ConcBase.steps_of_reach _ _ _ _ _ _ H) as [s1 ->].
  destruct (Inv12_reach nw lim autostart choices clients nslots s1 Hok) as [HI _]. exact HI.
Qed.

Lemma stop_Hinv : forall (u : unit) s l' s', m_step M (m_start M u Stop) s = Next l' s' -> exists n, srank s' l' = Some n /\ 1 <= n.
Proof. intros u s l' s' H. simpl in H. injection H as <- <-. exists 1. split; [reflexivity|lia]. Qed.

Lemma stop_Hstep : forall (c : pconfig) t (th : pthread) l n l' s',
  SInv c -> nth_error (c_thr c) t = Some th -> t_dead th = false -> t_cur th = Some (Stop, l) ->
  srank (c_sh c) l = Some n -> m_step M l (c_sh c) = Next l' s' -> exists n', srank s' l' = Some n' /\ n + 1 <= n'.
Proof.
  intros c t th l n l' s' [_ HI2] _ _ _ Hr Hm. exact (srank_step nw lim _ _ _ _ _ (t_qlen _ _ HI2) Hr Hm).
Qed.

Lemma stop_Hother : forall (c : pconfig) u c' e t (th : pthread) l n,
  SInv c -> step_thread M c u = Some (c', e) -> u <> t ->
  nth_error (c_thr c) t = Some th -> t_dead th = false -> t_cur th = Some (Stop, l) ->
  srank (c_sh c) l = Some n -> exists n', srank (c_sh c') l = Some n' /\ n <= n'.
Proof.
  intros c u c' e t th l n [HI1 _] Hs _ Hth _ Hcur Hr.
  destruct (step_abs _ _ _ _ _ _ Hs) as (thu & lu & pru & Hnu & _ & Hvu & Hm).
  pose proof (aths_nth _ _ _ Hnu) as Hnau.
  pose proof (Inv1_step nw lim nc _ _ _ _ _ _ HI1 Hnau Hvu) as HI'.
  destruct (astep nw lim lu (c_sh c)) as [cur s'| |] eqn:Ea; try contradiction.
  destruct Hm as (-> & _ & _).
  pose proof (aths_nth _ _ _ Hth) as Hnat. unfold abs_th in Hnat. rewrite Hcur in Hnat.
  exact (srank_other nw lim nc _ _ _ _ _ _ _ _ _ _ _ _ HI1 Hnat Hr Hnau Hvu Ea).
Qed.

(** (D) Stop takes at most 12 own steps, returned or not *)
Theorem stop_own_step_bound a b t :
  invoked_at M cfg0 sched a t Stop -> a <= b -> b < length L ->
  (forall k ck, a <= k < b -> nth_error L k = Some (ck, t) -> ret_of M ck t = None) ->
  own_steps L t a b <= 12.
Proof.
  intros Hinv Hab Hlen Hnr.
  apply (call_bound M cfg0 sched Stop srank 12 SInv log_SInv ltac:(lia) stop_Hinv stop_Hstep stop_Hother); auto.
  intros s l n. apply srank_bound.
Qed.

(* the pc a pending Stop call stands at bounds the own steps taken so far: 5 at Lock, 8 at wg.Wait,
   9 / 11 at the receive of the drain loop (queue non-empty / empty), 10 at its send *)
Theorem stop_call_at_pc a b t :
  a <= b -> invoked_at M cfg0 sched a t Stop -> no_return M cfg0 sched t a b ->
  forall cb tb, nth_error L b = Some (cb, tb) ->
  forall l, at_pc (step_cfg M cb tb) t l ->
  exists n, srank (c_sh (step_cfg M cb tb)) l = Some n /\ own_steps L t a b <= n /\ n <= 11.
Proof.
  intros Hab Hinv Hnr cb tb Hcb l (th & o' & Hth & Hcur).
  destruct (call_at_pc M cfg0 sched Stop srank 12 SInv log_SInv ltac:(lia) stop_Hinv stop_Hstep stop_Hother
              (fun s l n => srank_bound s l n) a b t Hab Hinv Hnr cb tb Hcb th o' l Hth Hcur) as (_ & n & Hr & Hown).
  exists n. split; [exact Hr|]. split; [exact Hown|]. pose proof (srank_bound _ _ _ Hr). lia.
Qed.

Theorem stop_returns a b t :
  invoked_at M cfg0 sched a t Stop -> a <= b -> b < length L -> 12 < own_steps L t a b ->
  exists k ck r, a <= k < b /\ nth_error L k = Some (ck, t) /\ ret_of M ck t = Some r.
Proof.
  intros Hinv Hab Hlen Hgt.
  apply (call_returns M cfg0 sched Stop srank 12 SInv log_SInv ltac:(lia) stop_Hinv stop_Hstep stop_Hother); auto.
  intros s l n. apply srank_bound.
Qed.

End Log.

(** Stop waits only at Lock and at wg.Wait: a Stop caller whose next step is disabled stands at
    XLock (readers still inside) or at XWait (workers still running). *)
Theorem stop_waits_only_at_lock_or_wait sched i l fresh :
  let c := final M cfg0 sched in
  stepper M c i = Some (Stop, l, fresh) -> pstep nw lim l (c_sh c) = Blocked ->
  fresh = false /\
  ((l = XLock /\ (rw_writer (p_lock (c_sh c)) = true \/ rw_readers (p_lock (c_sh c)) <> 0)) \/
   (l = XWait /\ p_wg (c_sh c) <> 0)).
Proof.
  intros c Hst Hb.
  pose proof (Kind_cfg nw lim autostart choices clients nslots sched) as HK. fold c in HK.
  destruct (Inv12_reach nw lim autostart choices clients nslots sched Hok) as [[HI1 HI2] _]. fold c in HI1, HI2.
  destruct (ConcHist.stepper_inv _ _ _ _ _ _ Hst) as (th & Hn & Hd & Hcur).
  destruct fresh.
  { exfalso. destruct Hcur as [_ ->]. discriminate Hb. }
  split; [reflexivity|].
  pose proof (HK i th Stop l Hn Hcur) as Hk. unfold kind_ok in Hk.
  assert (Hat : at_pc c i l) by (exists th, Stop; auto).
  destruct (at_pc_abs _ _ _ Hat) as [pr Hna].
  destruct l; try discriminate Hk; simpl in Hb.
  - destruct (p_state (c_sh c) =? 1); discriminate.
  - destruct (p_state (c_sh c) =? 0); discriminate.
  - destruct (p_state (c_sh c) =? 1); discriminate.
  - discriminate.
  - left. split; [reflexivity|].
    destruct (rw_writer (p_lock (c_sh c))); [left; reflexivity|right]. simpl in Hb.
    destruct (Nat.eqb_spec (rw_readers (p_lock (c_sh c))) 0) as [E|E]; [discriminate|exact E].
  - destruct (p_qclosed (c_sh c)); discriminate.
  - discriminate.
  - right. split; [reflexivity|]. destruct (Nat.eqb_spec (p_wg (c_sh c)) 0) as [E|E]; [discriminate|exact E].
  - exfalso. pose proof (cntp_ge is_dr _ _ _ Hna) as G. unfold pcf in G. simpl in G.
    pose proof (i_qc _ _ _ HI1) as Iqc. unfold queue_recv_ready in Hb.
    destruct (p_qclosed (c_sh c)); [|lia]. simpl in Hb. destruct (p_queue (c_sh c)); discriminate.
  - exfalso. pose proof (H0_at _ _ _ id Hat eq_refl) as Hh.
    pose proof (future_send_ok _ _ id TCanceled HI2 ltac:(lia)) as Hf.
    destruct (future_send (c_sh c) id TCanceled) as [[s1|]|]; try discriminate; congruence.
Qed.

End StopMain.
