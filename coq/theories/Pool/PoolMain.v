(** Safety of the worker pool: the invariants behind "never panics" (C12) read
    on concrete configurations, and an index of the main theorems. *)
From Coq Require Import List Arith Bool ZArith Lia.
From Garr Require Import Conc.Conc Pure.F64 Queue.MutexModel Pool.PoolModel Pool.PoolBase Pool.PoolInv1 Pool.PoolTok
  Pool.PoolStop Pool.PoolStopMain Pool.PoolWg Pool.PoolCap.
Import ListNotations.

(* number of threads that are in the middle of a call, at a pc satisfying p *)
Definition nthreads (c : pconfig) (p : ppc -> bool) : nat :=
  length (filter (fun th => match t_cur th with Some (_, l) => p l | None => false end) (c_thr c)).

Lemma cntp_concrete c p : cntp p (aths c) = nthreads c p.
Proof.
  unfold cntp, aths, nthreads. rewrite sumi_map. induction (c_thr c) as [|th l IH]; [reflexivity|].
  simpl. rewrite sumi_noindex, IH. unfold pcf, abs_th. simpl.
  destruct (t_cur th) as [[o pc]|]; [destruct (p pc)|]; reflexivity.
Qed.

Definition is_wr (l : ppc) : bool := match l with XClose | XUnlock => true | _ => false end.
Definition is_stop (l : ppc) : bool :=
  match l with XCancel | XLock | XClose | XUnlock | XWait | XDrainRecv | XDrainSend _ => true | _ => false end.
Definition past_close (l : ppc) : bool :=
  match l with XUnlock | XWait | XDrainRecv | XDrainSend _ => true | _ => false end.

Lemma cntp_or p q r ps : (forall l, r l = p l || q l) -> (forall l, p l && q l = false) -> cntp r ps = cntp p ps + cntp q ps.
Proof.
  intros Hr Hd. unfold cntp. rewrite <- sumi_plus. apply sumi_ext. intros i a _. unfold pcf.
  destruct (snd a) as [l|]; [|reflexivity]. rewrite Hr. specialize (Hd l). destruct (p l), (q l); try reflexivity; discriminate.
Qed.

Section Main1.
Variable nw : nat.
Variable lim : Z.
Variables (autostart : bool) (choices : list nat) (clients : list (list pop)) (nslots : nat) (sched : list nat).
Hypothesis Hok : clients_ok clients.
Notation M := (pool nw lim).

Let c := final M (pool_cfg nw autostart choices clients nslots) sched.
Let s := c_sh c.

(** lock discipline and the Stop protocol *)
Theorem lock_and_stop_discipline :
  rw_readers (p_lock s) = nthreads c is_reader /\
  (rw_writer (p_lock s) = true -> nthreads c is_wr = 1 /\ rw_readers (p_lock s) = 0) /\
  (rw_writer (p_lock s) = false -> nthreads c is_wr = 0) /\
  p_state s <= 2 /\ nthreads c is_stop <= 1 /\
  (p_state s <> 2 -> nthreads c is_stop = 0 /\ p_closedflag s = false) /\
  (p_closedflag s = true -> nthreads c is_pre = 0 /\ nthreads c is_open = 0) /\
  (p_closedflag s = false -> nthreads c is_wr + nthreads c is_wt + nthreads c is_dr = 0 /\ p_qclosed s = false) /\
  (p_qclosed s = true -> p_closedflag s = true /\ nthreads c is_cl = 0) /\
  (p_qclosed s = false -> nthreads c past_close = 0).
Proof.
  destruct (Inv1_reach nw lim autostart choices clients nslots sched Hok) as [[Ird Iwr Ione Ist Icf Iqc _ _ _] _].
  fold c in Ird, Iwr, Ione, Ist, Icf, Iqc. fold s in Ird, Iwr, Ione, Ist, Icf, Iqc. unfold nstop in *.
  assert (Ewr : cntp is_wr (aths c) = cntp is_cl (aths c) + cntp is_ul (aths c)).
  { apply cntp_or; intros []; reflexivity. }
  assert (Epc : cntp past_close (aths c) = cntp is_ul (aths c) + (cntp is_wt (aths c) + cntp is_dr (aths c))).
  { rewrite <- (cntp_or is_wt is_dr (fun l => is_wt l || is_dr l)) by (intros []; reflexivity).
    apply cntp_or; intros []; reflexivity. }
  assert (Est : cntp is_stop (aths c) = cntp is_pre (aths c) + (cntp is_cl (aths c) + cntp past_close (aths c))).
  { rewrite <- (cntp_or is_cl past_close (fun l => is_cl l || past_close l)) by (intros []; reflexivity).
    apply cntp_or; intros []; reflexivity. }
  rewrite <- !cntp_concrete.
  destruct (rw_writer (p_lock s)), (p_closedflag s) eqn:Ecf, (p_qclosed s) eqn:Eqc; destr_hyps;
    repeat split; intros; try discriminate; try lia; try congruence;
    try (match goal with H : ?A -> _ |- _ => let HA := fresh in assert (HA : A) by lia; specialize (H HA); destr_hyps; try discriminate; try lia end).
Qed.

Lemma astep_state_mono l s0 cur s1 : astep nw lim l s0 = RNext cur s1 -> p_state s0 <= p_state s1.
Proof.
  intros H. destruct l; try (match goal with o : pop |- _ => destruct o end); step_cases H; eqb_clean; simpl; lia.
Qed.

(** the pool state only moves forward: 0 (new) -> 1 (started) -> 2 (stopped) *)
Theorem state_monotone sched' : p_state s <= p_state (c_sh (final M c sched')) <= 2.
Proof.
  destruct (Inv1_reach nw lim autostart choices clients nslots sched Hok) as [HI1 _]. fold c in HI1.
  destruct (run_rel nw lim (Inv1 (length clients)) (fun s1 s2 => p_state s1 <= p_state s2)) with (sched := sched') (c0 := c) as [R1 R2].
  - intros; lia.
  - intros; lia.
  - intros s0 ps t a l pr H1 Hn Hv. pose proof (Inv1_step nw lim _ s0 ps t a l pr H1 Hn Hv) as Hs.
    destruct (astep nw lim l s0) as [cur s'| |] eqn:E; auto. split; [exact Hs|eapply astep_state_mono; eauto].
  - exact HI1.
  - split; [exact R1|]. apply (i_st _ _ _ R2).
Qed.

End Main1.

Print Assumptions lock_and_stop_discipline.
Print Assumptions state_monotone.

(** Index of the main theorems (all for every nworkers, limit, autostart, oracle, client programs
    with [clients_ok], number of slots and schedule):
    - T1 (C12)  [PoolInv1.pool_never_panics]
    - T2 (C04, C17)  [PoolTok.pool_exactly_once]
    - T3 (C17)  [PoolTok.try_never_blocks], [PoolTok.rlock_blocked_only_by_stop], [PoolTok.stop_unlock_never_blocks]
    - T4 (C08)  [PoolStopMain.stop_leaves_no_goroutine], [PoolStopMain.draining_is_drained],
                [PoolStopMain.spawned_bounded], [PoolStopMain.armed_timer_owned], [PoolWg.wg_counts_live]
    - T5 (C11)  [PoolCap.parallelism_capped], [PoolCap.parallelism_capped_threads], [PoolCap.expanded_accounting] *)
Check pool_never_panics.
Check pool_exactly_once.
Check try_never_blocks.
Check rlock_blocked_only_by_stop.
Check stop_unlock_never_blocks.
Check stop_leaves_no_goroutine.
Check draining_is_drained.
Check spawned_bounded.
Check armed_timer_owned.
Check wg_counts_live.
Check parallelism_capped.
Check parallelism_capped_threads.
Check expanded_accounting.
