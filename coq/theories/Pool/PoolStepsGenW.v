(** Own-step accounting of a call with WEIGHTS (any [machine]).

    As [PoolStepsGen], but every step taken from pc [l] counts [w l : Z]
    (weights may be negative), so that relations between two counts - "own
    steps <= c1 + c2 * (steps of a given kind)" - are instances:
    [wsteps w L t a b] = sum of the weights of the positions in [a, b] taken
    by thread [t]. *)
From Coq Require Import List Arith Bool ZArith Lia.
From Garr Require Import Conc.Conc Pool.PoolStepsGen.
From Garr Require Breaker.ConcBase Breaker.ConcHist Breaker.ConcWaitFreeMain.
Import ListNotations.
Local Open Scope Z_scope.

Section GenW.
Context {sh ts lo op ret : Type}.
Variable M : machine sh ts lo op ret.
Notation config := (config sh ts lo op).

Section Weights.
Variable w : lo -> Z.

(* the weight of a log entry: that of the pc the thread steps from *)
Definition wt (e : config * nat) : Z :=
  match stepper M (fst e) (snd e) with Some (_, l, _) => w l | None => 0 end.

Definition zsum (l : list Z) : Z := fold_right Z.add 0 l.

Definition wsteps (L : list (config * nat)) (t a b : nat) : Z :=
  zsum (map (fun e => if Nat.eqb (snd e) t then wt e else 0) (firstn (S b - a) (skipn a L))).

Lemma zsum_app l1 l2 : zsum (l1 ++ l2) = zsum l1 + zsum l2.
Proof. induction l1 as [|x l1 IH]; simpl; [reflexivity|]. rewrite IH. lia. Qed.

Lemma wsteps_one (L : list (config * nat)) t a c :
  nth_error L a = Some (c, t) -> wsteps L t a a = wt (c, t).
Proof.
  intros H. unfold wsteps. replace (S a - a)%nat with 1%nat by lia.
  destruct (skipn a L) as [|x r] eqn:E.
  - pose proof (ConcBase.nth_error_skipn L a 0) as H0. rewrite E, Nat.add_0_r, H in H0. discriminate.
  - pose proof (ConcBase.nth_error_skipn L a 0) as H0. rewrite E, Nat.add_0_r, H in H0. simpl in H0.
    injection H0 as ->. simpl. rewrite Nat.eqb_refl. lia.
Qed.

Lemma wsteps_S (L : list (config * nat)) t a b c u :
  (a <= b)%nat -> nth_error L (S b) = Some (c, u) ->
  wsteps L t a (S b) = wsteps L t a b + (if Nat.eqb u t then wt (c, u) else 0).
Proof.
  intros Hab H. unfold wsteps. replace (S (S b) - a)%nat with (S (S b - a)) by lia.
  rewrite (ConcWaitFreeMain.firstn_S_nth _ _ (c, u)).
  - rewrite map_app, zsum_app. simpl. lia.
  - rewrite ConcBase.nth_error_skipn. replace (a + (S b - a))%nat with (S b) by lia. exact H.
Qed.

Section Log.
Variables (c0 : config) (sched : list nat).
Notation L := (steps_of M c0 sched).

Variable o : op.
Variable rk : sh -> lo -> option Z.
Variable K : Z.
Variable Inv : config -> Prop.
Hypothesis HL : forall k ck tk, nth_error L k = Some (ck, tk) -> Inv ck.
Hypothesis HK : forall u, w (m_start M u o) <= K.
Hypothesis Hinv : forall u s l' s', m_step M (m_start M u o) s = Next l' s' ->
  exists n, rk s' l' = Some n /\ w (m_start M u o) <= n.
Hypothesis Hstep : forall c t th l n l' s',
  Inv c -> nth_error (c_thr c) t = Some th -> t_dead th = false -> t_cur th = Some (o, l) ->
  rk (c_sh c) l = Some n -> m_step M l (c_sh c) = Next l' s' -> exists n', rk s' l' = Some n' /\ n + w l <= n'.
Hypothesis Hother : forall c u c' e t th l n,
  Inv c -> step_thread M c u = Some (c', e) -> u <> t ->
  nth_error (c_thr c) t = Some th -> t_dead th = false -> t_cur th = Some (o, l) ->
  rk (c_sh c) l = Some n -> exists n', rk (c_sh c') l = Some n' /\ n <= n'.
Hypothesis Hbound : forall s l n, rk s l = Some n -> n + w l <= K.
Hypothesis Hbound0 : forall s l n, rk s l = Some n -> n <= K.

Definition wcall_state (c' : config) (t : nat) (own : Z) : Prop :=
  exists th, nth_error (c_thr c') t = Some th /\
    ((exists l n, t_dead th = false /\ t_cur th = Some (o, l) /\ rk (c_sh c') l = Some n /\ own <= n) \/
     (t_dead th = true /\ t_cur th = None /\ own <= K)).

Lemma wcall_rank : forall d a b t,
  b = (a + d)%nat -> invoked_at M c0 sched a t o -> no_return M c0 sched t a b ->
  forall cb tb, nth_error L b = Some (cb, tb) ->
  wcall_state (step_cfg M cb tb) t (wsteps L t a b).
Proof.
  induction d as [|d IH]; intros a b t Hb (ca & l0 & Ha & Hst) Hnr cb tb Hcb.
  - rewrite Nat.add_0_r in Hb. subst b. rewrite Ha in Hcb. injection Hcb as <- <-.
    rewrite (wsteps_one _ _ _ _ Ha).
    assert (Hw : wt (ca, t) = w l0) by (unfold wt; cbn [fst snd]; rewrite Hst; reflexivity). rewrite Hw.
    destruct (ConcHist.steps_of_enabled _ _ _ _ _ _ Ha) as (c' & e & Hs).
    rewrite (ConcBase.step_cfg_some _ _ _ _ _ Hs).
    pose proof (Hnr a ca ltac:(lia) Ha) as Hret. unfold ret_of in Hret. rewrite Hst in Hret.
    destruct (ConcHist.stepper_inv _ _ _ _ _ _ Hst) as (th & Hn & Hd & Hcur & Hl0).
    destruct (ConcHist.stepper_step _ _ _ _ _ Hs) as (th1 & o1 & l1 & fr1 & Hn1 & _ & Hst1 & Hcase).
    rewrite Hst in Hst1. injection Hst1 as <- <- <-. rewrite Hn in Hn1. injection Hn1 as <-.
    unfold wcall_state.
    destruct Hcase as [(l' & s' & Hm & ->)|[(r & u & s' & Hm & ->)|(Hm & ->)]]; cbn [c_thr c_sh].
    + eexists. rewrite nth_error_upd, Nat.eqb_refl, Hn. split; [reflexivity|]. left.
      rewrite Hl0 in Hm |- *. destruct (Hinv _ _ _ _ Hm) as (n & Hr & Hn1).
      exists l', n. cbn [t_dead t_cur]. auto.
    + rewrite Hm in Hret. discriminate.
    + eexists. rewrite nth_error_upd, Nat.eqb_refl, Hn. split; [reflexivity|]. right. cbn [t_dead t_cur].
      rewrite Hl0. auto.
  - assert (Hb0 : exists cb0 tb0, nth_error L (a + d) = Some (cb0, tb0)).
    { destruct (nth_error L (a + d)) as [[cb0 tb0]|] eqn:E; [eauto|exfalso].
      apply nth_error_None in E.
      assert (b < length L)%nat by (apply nth_error_Some; congruence). lia. }
    destruct Hb0 as (cb0 & tb0 & Hcb0).
    assert (Hnr0 : no_return M c0 sched t a (a + d)).
    { intros k ck Hk Hn. apply (Hnr k ck); [lia|exact Hn]. }
    destruct (IH a (a + d)%nat t eq_refl (ex_intro _ ca (ex_intro _ l0 (conj Ha Hst))) Hnr0 cb0 tb0 Hcb0)
      as (th & Hth & Hcase).
    assert (Hbs : b = S (a + d)) by lia. rewrite Hbs in Hcb.
    pose proof (ConcHist.steps_of_succ _ _ _ _ _ _ _ _ Hcb0 Hcb) as Ecb. rewrite <- Ecb in Hth, Hcase.
    rewrite Hbs. rewrite (wsteps_S _ t a (a + d)%nat cb tb ltac:(lia) Hcb).
    destruct (ConcHist.steps_of_enabled _ _ _ _ _ _ Hcb) as (c' & e & Hs).
    destruct (Nat.eqb_spec tb t) as [->|Hne].
    + destruct Hcase as [(l & n & Hd & Hcur & Hr & Hown)|(Hd & Hcn & Hown)].
      * assert (Hstp : stepper M cb t = Some (o, l, false)) by (eapply ConcHist.stepper_stored; eauto).
        assert (Hw : wt (cb, t) = w l) by (unfold wt; cbn [fst snd]; rewrite Hstp; reflexivity). rewrite Hw.
        pose proof (Hnr b cb ltac:(lia) ltac:(rewrite Hbs; exact Hcb)) as Hret.
        unfold ret_of in Hret. rewrite Hstp in Hret.
        rewrite (ConcBase.step_cfg_some _ _ _ _ _ Hs).
        destruct (ConcHist.stepper_step _ _ _ _ _ Hs) as (th1 & o1 & l1 & fr1 & Hn1 & _ & Hst1 & Hcase).
        rewrite Hstp in Hst1. injection Hst1 as <- <- <-. rewrite Hth in Hn1. injection Hn1 as <-.
        unfold wcall_state.
        destruct Hcase as [(l' & s' & Hm & ->)|[(r & u & s' & Hm & ->)|(Hm & ->)]]; cbn [c_thr c_sh].
        -- eexists. rewrite nth_error_upd, Nat.eqb_refl, Hth. split; [reflexivity|]. left.
           destruct (Hstep _ _ _ _ _ _ _ (HL _ _ _ Hcb) Hth Hd Hcur Hr Hm) as (n' & Hr' & Hn').
           exists l', n'. cbn [t_dead t_cur]. repeat split; auto. lia.
        -- rewrite Hm in Hret. discriminate.
        -- eexists. rewrite nth_error_upd, Nat.eqb_refl, Hth. split; [reflexivity|]. right. cbn [t_dead t_cur].
           split; [reflexivity|]. split; [reflexivity|]. pose proof (Hbound _ _ _ Hr). lia.
      * rewrite (step_thread_dead _ _ _ _ Hth Hd) in Hs. discriminate.
    + exists th. split; [rewrite step_cfg_other by congruence; exact Hth|].
      rewrite Z.add_0_r. destruct Hcase as [(l & n & Hd & Hcur & Hr & Hown)|Hdead]; [left|right; exact Hdead].
      rewrite (ConcBase.step_cfg_some _ _ _ _ _ Hs).
      destruct (Hother _ _ _ _ _ _ _ _ (HL _ _ _ Hcb) Hs Hne Hth Hd Hcur Hr) as (n' & Hr' & Hn').
      exists l, n'. repeat split; auto. lia.
Qed.

(** the weighted count of a call is at most [K] up to any position before which it has not returned *)
Theorem wcall_bound : forall a b t,
  invoked_at M c0 sched a t o -> (a <= b)%nat -> (b < length L)%nat ->
  (forall k ck, (a <= k < b)%nat -> nth_error L k = Some (ck, t) -> ret_of M ck t = None) ->
  wsteps L t a b <= K.
Proof.
  intros a b t Hinv' Hab Hlen Hnr.
  destruct (Nat.eq_dec a b) as [<-|Hne].
  - destruct Hinv' as (ca & l0 & Ha & Hst). rewrite (wsteps_one _ _ _ _ Ha).
    unfold wt. cbn [fst snd]. rewrite Hst.
    destruct (ConcHist.stepper_inv _ _ _ _ _ _ Hst) as (th & _ & _ & _ & ->). apply HK.
  - destruct b as [|b0]; [lia|].
    assert (Hb0 : exists cb0 tb0, nth_error L b0 = Some (cb0, tb0)).
    { destruct (nth_error L b0) as [[cb0 tb0]|] eqn:E; [eauto|]. apply nth_error_None in E. lia. }
    destruct Hb0 as (cb0 & tb0 & Hcb0).
    assert (Hb : exists cb tb, nth_error L (S b0) = Some (cb, tb)).
    { destruct (nth_error L (S b0)) as [[cb tb]|] eqn:E; [eauto|]. apply nth_error_None in E. lia. }
    destruct Hb as (cb & tb & Hcb).
    assert (Hnr0 : no_return M c0 sched t a b0) by (intros k ck Hk Hn; apply (Hnr k ck); [lia|exact Hn]).
    destruct (wcall_rank (b0 - a) a b0 t ltac:(lia) Hinv' Hnr0 cb0 tb0 Hcb0) as (th & Hth & Hcase).
    rewrite (wsteps_S _ t a b0 cb tb ltac:(lia) Hcb).
    rewrite <- (ConcHist.steps_of_succ _ _ _ _ _ _ _ _ Hcb0 Hcb) in Hth, Hcase.
    destruct Hcase as [(l & n & Hd & Hcur & Hr & Hown)|(Hd & _ & Hown)].
    + pose proof (Hbound _ _ _ Hr). pose proof (Hbound0 _ _ _ Hr). destruct (Nat.eqb_spec tb t) as [->|Hneq]; [|lia].
      assert (Hstp : stepper M cb t = Some (o, l, false)) by (eapply ConcHist.stepper_stored; eauto).
      unfold wt. cbn [fst snd]. rewrite Hstp. lia.
    + destruct (Nat.eqb_spec tb t) as [->|Hneq]; [|lia].
      destruct (ConcHist.steps_of_enabled _ _ _ _ _ _ Hcb) as (c' & e & Hs).
      rewrite (step_thread_dead _ _ _ _ Hth Hd) in Hs. discriminate.
Qed.

End Log.
End Weights.

(** ** combining counts *)
Lemma wsteps_ext (w1 w2 : lo -> Z) L t a b :
  (forall l, w1 l = w2 l) -> wsteps w1 L t a b = wsteps w2 L t a b.
Proof.
  intros H. unfold wsteps. f_equal. apply map_ext. intros e. unfold wt.
  destruct (stepper M (fst e) (snd e)) as [[[o l] f]|]; [rewrite H|]; reflexivity.
Qed.

Lemma wsteps_lin (w1 w2 : lo -> Z) (k1 k2 : Z) L t a b :
  wsteps (fun l => k1 * w1 l + k2 * w2 l) L t a b = k1 * wsteps w1 L t a b + k2 * wsteps w2 L t a b.
Proof.
  unfold wsteps. induction (firstn (S b - a) (skipn a L)) as [|e r IH]; simpl; [lia|].
  rewrite IH. unfold wt. destruct (Nat.eqb (snd e) t); [|lia].
  destruct (stepper M (fst e) (snd e)) as [[[o l] f]|]; lia.
Qed.

(* weight 1 everywhere: the number of own steps *)
Lemma wsteps_own L t a b :
  (forall k ck, nth_error L k = Some (ck, t) -> stepper M ck t <> None) ->
  wsteps (fun _ => 1) L t a b = Z.of_nat (own_steps L t a b).
Proof.
  intros Hen. unfold wsteps, ConcWaitFreeMain.own_steps.
  assert (G : forall e, In e (firstn (S b - a) (skipn a L)) -> snd e = t -> stepper M (fst e) (snd e) <> None).
  { intros [ce te] Hin Hte. simpl in Hte. subst te. simpl.
    assert (Hin2 : In (ce, t) L).
    { rewrite <- (firstn_skipn a L). apply in_or_app. right.
      rewrite <- (firstn_skipn (S b - a) (skipn a L)). apply in_or_app. left. exact Hin. }
    apply In_nth_error in Hin2. destruct Hin2 as [k Hk]. eapply Hen; eauto. }
  induction (firstn (S b - a) (skipn a L)) as [|e r IH]; [reflexivity|].
  cbn [map zsum fold_right filter]. fold (zsum (map (fun e0 => if Nat.eqb (snd e0) t then wt (fun _ => 1) e0 else 0) r)).
  rewrite IH by (intros e' He'; apply G; right; exact He').
  destruct (Nat.eqb_spec (snd e) t) as [E|E]; [|lia].
  cbn [length]. unfold wt. specialize (G e (or_introl eq_refl) E).
  destruct (stepper M (fst e) (snd e)) as [[[o l] f]|]; [lia|congruence].
Qed.

(* a 0/1 weight: the number of own steps taken from the pcs it selects *)
Definition kind_steps (p : lo -> bool) (L : list (config * nat)) (t a b : nat) : nat :=
  length (filter (fun e => Nat.eqb (snd e) t &&
                           match stepper M (fst e) (snd e) with Some (_, l, _) => p l | None => false end)
                 (firstn (S b - a) (skipn a L))).

Lemma wsteps_kind (p : lo -> bool) L t a b :
  wsteps (fun l => if p l then 1 else 0) L t a b = Z.of_nat (kind_steps p L t a b).
Proof.
  unfold wsteps, kind_steps.
  induction (firstn (S b - a) (skipn a L)) as [|e r IH]; [reflexivity|].
  cbn [map zsum fold_right filter]. fold (zsum (map (fun e0 => if Nat.eqb (snd e0) t then wt (fun l => if p l then 1 else 0) e0 else 0) r)).
  rewrite IH. unfold wt. destruct (Nat.eqb (snd e) t); simpl; [|lia].
  destruct (stepper M (fst e) (snd e)) as [[[o l] f]|]; [destruct (p l)|]; cbn [length]; lia.
Qed.

End GenW.
