(** Safety of the worker pool, part 3 (end): the wait group counts exactly the
    started goroutines that have not finished. *)
From Coq Require Import List Arith Bool ZArith Lia.
From Garr Require Import Conc.Conc Pure.F64 Queue.MutexModel Pool.PoolModel Pool.PoolBase Pool.PoolInv1 Pool.PoolTok Pool.PoolStop Pool.PoolStopMain.
Import ListNotations.

Lemma nth_error_skipn' {A} (l : list A) n k : nth_error (skipn n l) k = nth_error l (n + k).
Proof.
  revert l; induction n as [|n IH]; intros l; simpl; [reflexivity|].
  destruct l; simpl; [destruct k; reflexivity|apply IH].
Qed.

Lemma sumi_noindex {A} (g : A -> nat) n l : sumi (fun _ a => g a) n l = sumi (fun _ a => g a) 0 l.
Proof.
  revert n. induction l as [|a l IH]; intros n; simpl; [reflexivity|]. rewrite (IH (S n)), (IH 1). reflexivity.
Qed.

Section Range.
Variable nc : nat.

(* a count over the slot threads that only sees started threads is a count over the first L slots *)
Lemma slotc_range g s ps :
  (forall i a, nth_error ps i = Some a -> wf nc s i a) ->
  (forall a, g a <= started a) ->
  slotc nc g ps = sumi (fun _ a => g a) 0 (firstn (length (p_spawned s)) (skipn nc ps)).
Proof.
  intros Hwf Hg. set (L := length (p_spawned s)). unfold slotc.
  rewrite <- (firstn_skipn nc ps) at 1. rewrite sumi_app.
  assert (E1 : sumi (slotf nc g) 0 (firstn nc ps) = 0).
  { apply sumi_all_zero. intros i a Hi. simpl. unfold slotf.
    assert (i < nc). { apply nth_error_lt in Hi. rewrite firstn_length in Hi. lia. }
    destruct (Nat.leb_spec nc i); [lia|reflexivity]. }
  rewrite E1. simpl.
  destruct (Nat.le_gt_cases (length ps) nc) as [Hshort|Hlong].
  - rewrite (skipn_all2 ps) by exact Hshort. rewrite firstn_nil. reflexivity.
  - assert (El : length (firstn nc ps) = nc) by (rewrite firstn_length; lia). rewrite El.
    set (rest := skipn nc ps).
    rewrite <- (firstn_skipn L rest) at 1. rewrite sumi_app.
    assert (E3 : sumi (slotf nc g) (nc + length (firstn L rest)) (skipn L rest) = 0).
    { apply sumi_all_zero. intros i a Hi.
      assert (Hlen : length (firstn L rest) = L).
      { rewrite firstn_length. destruct (Nat.le_gt_cases L (length rest)); [lia|].
        rewrite skipn_all2 in Hi by lia. destruct i; discriminate. }
      rewrite Hlen. unfold rest in Hi. rewrite !nth_error_skipn' in Hi.
      specialize (Hwf _ _ Hi). unfold slotf. destruct (Nat.leb_spec nc (nc + L + i)); [|reflexivity].
      specialize (Hg a). unfold wf in Hwf.
      assert (Hltb : (nc + (L + i) <? nc) = false) by (apply Nat.ltb_ge; lia). rewrite Hltb in Hwf.
      unfold started in Hg. destruct (snd a) as [l|].
      - destruct Hwf as (_ & _ & _ & Hf). fold L in Hf. lia.
      - destruct Hwf as [Hf|[_ Hf]]; [rewrite Hf in Hg; lia|fold L in Hf; lia]. }
    rewrite E3, Nat.add_0_r.
    rewrite <- (sumi_noindex g nc). apply sumi_ext. intros i a _. unfold slotf.
    destruct (Nat.leb_spec nc (nc + i)); [reflexivity|lia].
Qed.

End Range.

Definition unfinished (th : pthread) : bool :=
  match t_prog th, t_cur th with [], None => false | _, _ => true end.

Lemma unfinished_abs th : (if unfinished th then 1 else 0) + finished (abs_th th) = 1.
Proof.
  unfold unfinished, finished, abs_th. simpl. destruct (t_cur th) as [[o l]|]; destruct (t_prog th); reflexivity.
Qed.

Section Main5.
Variable nw : nat.
Variable lim : Z.
Variables (autostart : bool) (choices : list nat) (clients : list (list pop)) (nslots : nat) (sched : list nat).
Hypothesis Hok : clients_ok clients.
Hypothesis Hslots : nw + cntdo (concat clients) <= nslots.
Notation M := (pool nw lim).
Notation nc := (length clients).

Let c := final M (pool_cfg nw autostart choices clients nslots) sched.
Let s := c_sh c.

Lemma final_length (c0 : pconfig) sch : length (c_thr (final M c0 sch)) = length (c_thr c0).
Proof.
  revert c0. induction sch as [|t sch IH]; intros c0; [reflexivity|].
  rewrite final_cons, IH. apply step_cfg_length.
Qed.

Lemma thr_length : length (c_thr c) = nc + nslots.
Proof.
  unfold c. rewrite final_length. unfold pool_cfg, init. simpl.
  rewrite map_length, app_length, map_length, seq_length. reflexivity.
Qed.

(** the wait group counts the started goroutines (the first [length p_spawned] slot threads) that
    have not finished *)
Theorem wg_counts_live :
  p_wg s = length (filter unfinished (firstn (length (p_spawned s)) (skipn nc (c_thr c)))).
Proof.
  destruct (Inv13_reach nw lim autostart choices clients nslots sched Hok) as [[HI1 HI3] _].
  fold c in HI1, HI3. fold s in HI1, HI3.
  pose proof (spawned_fits nw lim autostart choices clients nslots sched Hok Hslots) as HL. fold c s in HL.
  pose proof (i_wg _ _ _ HI1) as Iwg.
  rewrite (slotc_range nc started s (aths c) (i_wf _ _ _ HI1)) in Iwg by (intros; lia).
  rewrite (slotc_range nc running s (aths c) (i_wf _ _ _ HI1)) in Iwg
    by (intros a; unfold running, started; destruct (snd a); lia).
  set (L := length (p_spawned s)) in *.
  unfold aths in Iwg. rewrite skipn_map, firstn_map in Iwg. rewrite !sumi_map in Iwg.
  set (l2 := firstn L (skipn nc (c_thr c))) in *.
  assert (Hl2 : length l2 = L).
  { unfold l2. rewrite firstn_length, skipn_length, thr_length. lia. }
  assert (G : forall l : list pthread,
    length (filter unfinished l) + sumi (fun _ th => started (abs_th th)) 0 l =
    length l + sumi (fun _ th => running (abs_th th)) 0 l).
  { induction l as [|th l IH]; [reflexivity|]. simpl.
    rewrite (sumi_noindex (fun th => started (abs_th th)) 1), (sumi_noindex (fun th => running (abs_th th)) 1).
    pose proof (unfinished_abs th) as Hu.
    assert (Hs : started (abs_th th) = running (abs_th th) + finished (abs_th th)).
    { unfold started, running, finished. destruct (snd (abs_th th)); [reflexivity|]. destruct (fst (abs_th th)); reflexivity. }
    destruct (unfinished th); simpl; lia. }
  specialize (G l2). lia.
Qed.

End Main5.

Print Assumptions wg_counts_live.
