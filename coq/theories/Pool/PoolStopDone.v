(** Safety of the worker pool, part 5: the Stop protocol seen from its end.
    Once the Stop call that won the state CAS has returned ([stop_done]: the
    state word is 2 and no thread is between the CAS and the end of the drain
    loop) the queue is closed AND EMPTY and the pool context is cancelled. *)
From Coq Require Import List Arith Bool ZArith Lia.
From Garr Require Import Conc.Conc Pure.F64 Queue.MutexModel Pool.PoolModel Pool.PoolBase Pool.PoolInv1 Pool.PoolTok
  Pool.PoolStop Pool.PoolStopMain.
Import ListNotations.

Definition is_xcancel (l : ppc) : bool := match l with XCancel => true | _ => false end.
Definition is_c1b (l : ppc) : bool := match l with XCas1b => true | _ => false end.

Record InvS (s : pshared) (ps : list ath) : Prop := {
  s_done : p_state s = 2 -> nstop ps = 0 -> p_qclosed s = true /\ p_queue s = [];
  s_ctx : p_state s = 2 -> cntp is_xcancel ps = 0 -> p_poolctx s = true;
  s_c1b : 1 <= cntp is_c1b ps -> 1 <= p_state s
}.

Section InvS.
Variable nw : nat.
Variable lim : Z.
Variable nc : nat.

Ltac pose_countsS Hn :=
  match goal with |- InvS _ (upd ?ps ?t ?a') =>
      pose proof (cntp_upd is_open ps t _ a' Hn) as Eop;
      pose proof (cntp_upd is_pre ps t _ a' Hn) as Epre;
      pose proof (cntp_upd is_cl ps t _ a' Hn) as Ecl;
      pose proof (cntp_upd is_ul ps t _ a' Hn) as Eul;
      pose proof (cntp_upd is_wt ps t _ a' Hn) as Ewt;
      pose proof (cntp_upd is_dr ps t _ a' Hn) as Edr;
      pose proof (cntp_upd is_xcancel ps t _ a' Hn) as Exc;
      pose proof (cntp_upd is_c1b ps t _ a' Hn) as Ecb;
      pose proof (cntp_ge is_open ps t _ Hn) as Gop;
      pose proof (cntp_ge is_dr ps t _ Hn) as Gdr;
      pose proof (cntp_ge is_c1b ps t _ Hn) as Gcb;
      unfold pcf in Eop, Epre, Ecl, Eul, Ewt, Edr, Exc, Ecb, Gop, Gdr, Gcb;
      simpl in Eop, Epre, Ecl, Eul, Ewt, Edr, Exc, Ecb, Gop, Gdr, Gcb
  end.

Ltac invS_solve Iwr :=
  unfold nstop; simpl; intros;
  try solve [clear Iwr; hyp_ifs; destr_hyps; try discriminate; try lia;
             repeat match goal with K : ?A -> _ |- _ => let HA := fresh in assert (HA : A) by lia; specialize (K HA) end;
             destr_hyps; repeat match goal with E : p_queue _ = _ |- _ => rewrite E in * end;
             try (split; [first [assumption|reflexivity]|]); try congruence; try lia; auto].

Lemma xcancel_le_pre ps : cntp is_xcancel ps <= cntp is_pre ps.
Proof. apply cntp_le. intros []; simpl; congruence. Qed.

Lemma InvS_next s ps t a l pr cur s' :
  Inv1 nc s ps -> InvS s ps -> nth_error ps t = Some a -> a_view a = Some (l, pr) ->
  astep nw lim l s = RNext cur s' -> InvS s' (upd ps t (pr, cur)).
Proof.
  intros HI1 HIS Hn Hv H.
  pose proof (xcancel_le_pre ps) as Hxp.
  assert (Hnp : forall prog l0, nth_error ps t = Some (prog, Some l0) -> forall o, l0 <> PInv o).
  { intros prog l0 Hn0. eapply stored_not_inv3; eauto. }
  destruct HI1 as [Ird Iwr Ione Ist Icf Iqc Iwg Iwf Iq].
  destruct HIS as [Sdone Sctx Scb].
  unfold nstop in *.
  destruct a as [prog [l0|]]; unfold a_view in Hv; simpl in Hv.
  - injection Hv as <- <-.
    specialize (Hnp _ _ Hn).
    destruct l0; try (exfalso; eapply Hnp; reflexivity).
    all: step_cases H.
    all: pose_countsS Hn.
    all: bool_clean; norm_bools; eqb_clean.
    all: constructor; simpl.
    all: invS_solve Iwr.
  - destruct prog as [|o pr0]; [discriminate|]. injection Hv as <- <-.
    destruct o.
    all: step_cases H.
    all: pose_countsS Hn.
    all: bool_clean; norm_bools; eqb_clean.
    all: constructor; simpl.
    all: invS_solve Iwr.
Qed.

End InvS.

Lemma InvS_init nw autostart choices clients nslots :
  InvS (pinit nw autostart choices) (ps0 clients nslots).
Proof.
  unfold pinit. destruct autostart; constructor; simpl; rewrite ?cntp_ps0; intros; try discriminate; try lia.
Qed.

Definition Inv13S (nw nc ndo : nat) (s : pshared) (ps : list ath) : Prop :=
  Inv1 nc s ps /\ Inv2 s ps /\ Inv3 nw ndo s ps /\ InvS s ps.

Section ReachS.
Variable nw : nat.
Variable lim : Z.

Lemma Inv13S_step nc ndo s ps t a l pr :
  Inv13S nw nc ndo s ps -> nth_error ps t = Some a -> a_view a = Some (l, pr) ->
  match astep nw lim l s with
  | RNext cur s' => Inv13S nw nc ndo s' (upd ps t (pr, cur))
  | RBlocked => True
  | RFault => False
  end.
Proof.
  intros (H1 & H2 & H3 & HS) Hn Hv. pose proof (Inv1_step nw lim nc s ps t a l pr H1 Hn Hv) as Hs.
  destruct (astep nw lim l s) as [cur s'| |] eqn:E; auto.
  split; [exact Hs|]. split; [eapply Inv2_next; eauto|]. split; [eapply Inv3_next; eauto|eapply InvS_next; eauto].
Qed.

Lemma Inv13S_init autostart choices clients nslots :
  clients_ok clients ->
  Inv13S nw (length clients) (cntdo (concat clients)) (pinit nw autostart choices) (ps0 clients nslots).
Proof.
  intros Hc. split; [apply Inv1_init; exact Hc|]. split; [apply Inv2_init; exact Hc|].
  split; [apply Inv3_init|apply InvS_init].
Qed.

Lemma Inv13S_reach autostart choices clients nslots sched :
  clients_ok clients ->
  let c := final (pool nw lim) (pool_cfg nw autostart choices clients nslots) sched in
  Inv13S nw (length clients) (cntdo (concat clients)) (c_sh c) (aths c) /\ alive c.
Proof.
  intros Hc. apply (abs_invariant_from nw lim (Inv13S nw (length clients) (cntdo (concat clients)))).
  - intros s ps t a l pr. apply Inv13S_step.
  - unfold pool_cfg. rewrite aths_init. apply Inv13S_init. exact Hc.
  - apply alive_init.
Qed.

End ReachS.

(** ** What holds once the effective Stop has returned *)
Definition stop_done_abs (s : pshared) (ps : list ath) : Prop := p_state s = 2 /\ nstop ps = 0.

Lemma stop_done_drained nc s ps :
  Inv1 nc s ps -> InvS s ps -> stop_done_abs s ps ->
  p_qclosed s = true /\ p_queue s = [] /\ p_poolctx s = true /\ p_closedflag s = true /\ drained s ps /\
  rw_writer (p_lock s) = false /\ cntp is_open ps = 0.
Proof.
  intros HI1 HS [Hst Hns]. destruct (s_done _ _ HS Hst Hns) as [Hq Hqe].
  pose proof (xcancel_le_pre ps) as Hxp. unfold nstop in Hns.
  assert (Hcf : p_closedflag s = true).
  { pose proof (i_cf _ _ _ HI1) as Icf. destruct (p_closedflag s); [reflexivity|]. destruct Icf; congruence. }
  split; [exact Hq|]. split; [exact Hqe|]. split; [apply (s_ctx _ _ HS Hst); lia|]. split; [exact Hcf|].
  split; [split; [exact Hq|lia]|].
  split.
  - pose proof (i_wr _ _ _ HI1) as Iwr. destruct (rw_writer (p_lock s)); [lia|reflexivity].
  - pose proof (i_cf _ _ _ HI1) as Icf. rewrite Hcf in Icf. tauto.
Qed.

Lemma stop_done_step nw lim nc s ps t a l pr cur s' :
  Inv1 nc s ps -> stop_done_abs s ps -> nth_error ps t = Some a -> a_view a = Some (l, pr) ->
  astep nw lim l s = RNext cur s' -> stop_done_abs s' (upd ps t (pr, cur)).
Proof.
  intros HI1 [Hst Hns] Hn Hv H.
  assert (Hnp : forall prog l0, nth_error ps t = Some (prog, Some l0) -> forall o, l0 <> PInv o).
  { intros prog l0 Hn0. eapply stored_not_inv3; eauto. }
  unfold stop_done_abs, nstop in *.
  pose proof (cntp_upd is_pre ps t _ (pr, cur) Hn) as Epre.
  pose proof (cntp_upd is_cl ps t _ (pr, cur) Hn) as Ecl.
  pose proof (cntp_upd is_ul ps t _ (pr, cur) Hn) as Eul.
  pose proof (cntp_upd is_wt ps t _ (pr, cur) Hn) as Ewt.
  pose proof (cntp_upd is_dr ps t _ (pr, cur) Hn) as Edr.
  pose proof (cntp_ge is_pre ps t _ Hn) as Gpre.
  pose proof (cntp_ge is_cl ps t _ Hn) as Gcl.
  pose proof (cntp_ge is_ul ps t _ Hn) as Gul.
  pose proof (cntp_ge is_wt ps t _ Hn) as Gwt.
  pose proof (cntp_ge is_dr ps t _ Hn) as Gdr.
  destruct a as [prog [l0|]]; unfold a_view in Hv; simpl in Hv.
  - injection Hv as <- <-. specialize (Hnp _ _ Hn).
    destruct l0; try (exfalso; eapply Hnp; reflexivity).
    all: step_cases H; unfold pcf in *; simpl in *; eqb_clean; try lia.
  - destruct prog as [|o pr0]; [discriminate|]. injection Hv as <- <-.
    destruct o; step_cases H; unfold pcf in *; simpl in *; eqb_clean; try lia.
Qed.
