(** Safety of the worker pool, part 6: EXACT token accounting.

    [PoolTok] proves [tokens <= 1].  Here: a step changes the number of tokens
    of a task only in two ways - a result is received from the result channel
    (RRecv / RPoll returning a value), or a TryDo gives up at its select's
    default branch; where a token is: with the submitting client ([hsub]),
    with a worker goroutine ([hwk]), with Stop's drain ([hdr]); the client
    part never increases; the execution counter changes only at the
    invocation (reset to 0) and at the executor's begin step. *)
From Coq Require Import List Arith Bool ZArith Lia.
From Garr Require Import Conc.Conc Pure.F64 Queue.MutexModel Pool.PoolModel Pool.PoolBase Pool.PoolInv1 Pool.PoolTok.
Import ListNotations.

(** ** Who holds a token *)
Definition toks (l : ppc) : option nat :=
  match l with
  | SubRLock _ id | SubClosedFut _ id | SubTrySel id | SubAddExp id | SubWgAdd id | SubSubExp id | SubPush id
  | SubTryDoSel id | SubFut _ id _ => Some id
  | _ => None
  end.
Definition tokw (l : ppc) : option nat :=
  match l with
  | EBegin _ id | XStopTimer _ (Some id) | XDrainTimer _ (Some id) | EGate _ id | EEnd _ id | EFut _ id => Some id
  | _ => None
  end.
Definition tokd (l : ppc) : option nat := match l with XDrainSend id => Some id | _ => None end.

Definition hsub (x : nat) (a : ath) : nat :=
  cnt (subids (fst a)) x + match snd a with Some l => oeq (toks l) x | None => 0 end.
Definition hwk (x : nat) (a : ath) : nat := match snd a with Some l => oeq (tokw l) x | None => 0 end.
Definition hdr (x : nat) (a : ath) : nat := match snd a with Some l => oeq (tokd l) x | None => 0 end.

Definition Hsub (x : nat) (ps : list ath) : nat := sumi (fun _ a => hsub x a) 0 ps.
Definition Hwk (x : nat) (ps : list ath) : nat := sumi (fun _ a => hwk x a) 0 ps.
Definition Hdr (x : nat) (ps : list ath) : nat := sumi (fun _ a => hdr x a) 0 ps.

Arguments Hsub : simpl never.
Arguments Hwk : simpl never.
Arguments Hdr : simpl never.

Lemma h_split x a : h0 x a + h1 x a = hsub x a + hwk x a + hdr x a.
Proof.
  unfold h0, h1, hsub, hwk, hdr. destruct (snd a) as [l|]; [|lia].
  destruct l; simpl; try lia; destruct got; simpl; lia.
Qed.

Lemma H_split x ps : H0 x ps + H1 x ps = Hsub x ps + Hwk x ps + Hdr x ps.
Proof.
  unfold H0, H1, Hsub, Hwk, Hdr. rewrite <- !sumi_plus. apply sumi_ext. intros i a _. apply h_split.
Qed.

Lemma Hsub_upd x ps t a a' : nth_error ps t = Some a -> Hsub x (upd ps t a') + hsub x a = Hsub x ps + hsub x a'.
Proof. intros H. apply (sumi_upd (fun _ a => hsub x a) 0 ps t a a' H). Qed.
Lemma Hsub_ge x ps t a : nth_error ps t = Some a -> hsub x a <= Hsub x ps.
Proof. intros H. apply (sumi_ge (fun _ a => hsub x a) 0 ps t a H). Qed.
Lemma Hwk_ge x ps t a : nth_error ps t = Some a -> hwk x a <= Hwk x ps.
Proof. intros H. apply (sumi_ge (fun _ a => hwk x a) 0 ps t a H). Qed.
Lemma Hdr_ge x ps t a : nth_error ps t = Some a -> hdr x a <= Hdr x ps.
Proof. intros H. apply (sumi_ge (fun _ a => hdr x a) 0 ps t a H). Qed.

Lemma Hsub_le_H0 x ps : Hsub x ps <= H0 x ps.
Proof.
  unfold Hsub, H0. apply sumi_le. intros i a _. simpl. unfold hsub, h0.
  destruct (snd a) as [l|]; [|lia]. destruct l; simpl; lia.
Qed.

Lemma Hwk_pos x ps : 1 <= Hwk x ps -> exists i pr l, nth_error ps i = Some (pr, Some l) /\ tokw l = Some x.
Proof.
  intros H. apply sumi_pos in H. destruct H as (i & [pr cur] & Hi & Hp). unfold hwk in Hp. simpl in Hp.
  destruct cur as [l|]; [|lia]. exists i, pr, l. split; [exact Hi|].
  destruct (tokw l) as [y|]; simpl in Hp; [|lia]. unfold eqn in Hp. destruct (Nat.eqb_spec y x); [congruence|lia].
Qed.

Lemma Hdr_pos x ps : 1 <= Hdr x ps -> exists i pr, nth_error ps i = Some (pr, Some (XDrainSend x)).
Proof.
  intros H. apply sumi_pos in H. destruct H as (i & [pr cur] & Hi & Hp). unfold hdr in Hp. simpl in Hp.
  destruct cur as [l|]; [|lia]. exists i, pr.
  destruct l; simpl in Hp; try lia. unfold eqn in Hp. destruct (Nat.eqb_spec id x); [subst; exact Hi|lia].
Qed.

(** ** The execution counter *)
Definition exq (s : pshared) (x : nat) : option nat :=
  match get_task s x with Some t => Some (tk_execs t) | None => None end.

(* the steps that may change it *)
Definition exq_changer (l : ppc) (x : nat) : nat :=
  match l with
  | PInv o => oeq (sub_id o) x
  | EBegin _ id => eqn id x
  | _ => 0
  end.

(** ** Tokens that leave the system *)
Definition lossf (l : ppc) (out : pout) (x : nat) : nat :=
  match l, out with
  | SubTryDoSel id, Next (SubRUnlock (KTry false)) _ => eqn id x
  | RRecv id, Done (PRes _) _ _ => eqn id x
  | RPoll id, Done (PRes _) _ _ => eqn id x
  | _, _ => 0
  end.

Definition out_cur (out : pout) : option ppc := match out with Next l' _ => Some l' | _ => None end.
Definition out_sh (s : pshared) (out : pout) : pshared :=
  match out with Next _ s' => s' | Done _ _ s' => s' | _ => s end.
Definition out_ok (out : pout) : bool := match out with Next _ _ | Done _ _ _ => true | _ => false end.

Ltac unfold_pstep H :=
  unfold pstep in H;
  unfold submit_select, future_send, rlock, runlock, after_sub, after_task, goto, fin, new_task, timer_get, timer_set in H;
  rewrite ?take_choice_eq in H; cbv beta iota zeta in H.

(* H : pstep nw lim l s = out, with [out] a variable *)
Ltac pstep_cases H :=
  unfold_pstep H; repeat break1 H; subst.

Section Acct.
Variable nw : nat.
Variable lim : Z.
Variable nc : nat.

Lemma astep_out l s :
  astep nw lim l s = match pstep nw lim l s with
                     | Next l' s' => RNext (Some l') s' | Done _ _ s' => RNext None s'
                     | Blocked => RBlocked | Fault => RFault end.
Proof. reflexivity. Qed.

Lemma astep_of_out l s out :
  pstep nw lim l s = out -> out_ok out = true -> astep nw lim l s = RNext (out_cur out) (out_sh s out).
Proof. intros H Hok. unfold astep. rewrite H. destruct out; try discriminate Hok; reflexivity. Qed.

Ltac tok_setup x Hn :=
  let E0 := fresh "E0" in let E1 := fresh "E1" in let G0 := fresh "G0" in let G1 := fresh "G1" in
  match goal with |- context [upd ?ps ?t ?a'] =>
    pose proof (H0_upd x ps t _ a' Hn) as E0; pose proof (H1_upd x ps t _ a' Hn) as E1;
    pose proof (H0_ge x ps t _ Hn) as G0; pose proof (H1_ge x ps t _ Hn) as G1 end;
  unfold h0, h1 in E0, E1, G0, G1; simpl in E0, E1, G0, G1.

Ltac split_id x :=
  repeat match goal with
  | |- context [Nat.eqb ?a x] => destruct (Nat.eqb_spec a x); [subst a|]
  | H : context [Nat.eqb ?a x] |- _ => destruct (Nat.eqb_spec a x); [subst a|]
  end;
  repeat match goal with
  | H : ?a <> x |- _ => rewrite (eqn_neq a x H) in *
  end;
  rewrite ?eqn_refl in *.

Ltac split_eqb x :=
  repeat match goal with
  | |- context [Nat.eqb ?a x] => destruct (Nat.eqb_spec a x); [subst a|]
  | H : context [Nat.eqb ?a x] |- _ => destruct (Nat.eqb_spec a x); [subst a|]
  end.

Ltac fut_nil :=
  repeat match goal with
  | H : context [length (tk_future ?t)] |- _ =>
      let E := fresh "Ef" in destruct (tk_future t) eqn:E; simpl in *; try lia
  end.

Ltac rew_queue := repeat match goal with E : p_queue _ = _ |- _ => rewrite E in * end.
Ltac rew_fut := repeat match goal with E : tk_future _ = _ |- _ => rewrite E in * end.
Ltac rew_tasks := repeat match goal with E : get_task _ _ = _ |- _ => rewrite E in * end.

(** exact accounting *)
Lemma tokens_step s ps t a l pr out x :
  Inv1 nc s ps -> Inv2 s ps -> nth_error ps t = Some a -> a_view a = Some (l, pr) ->
  pstep nw lim l s = out -> out_ok out = true ->
  tokens (out_sh s out) (upd ps t (pr, out_cur out)) x + lossf l out x = tokens s ps x.
Proof.
  intros HI1 HI2 Hn Hv H Hok.
  destruct HI2 as [Ttok Tex Tql].
  destruct a as [prog [l0|]]; unfold a_view in Hv; simpl in Hv.
  - injection Hv as <- <-. pose proof (stored_not_inv _ _ _ _ _ _ HI1 Hn) as Hnp.
    destruct l0; try (exfalso; eapply Hnp; reflexivity).
    all: pstep_cases H; try discriminate Hok; cbn [out_sh out_cur lossf].
    all: bool_clean; eqb_clean.
    all: tok_setup x Hn; specialize (Ttok x); unfold tokens, futlen in *; simpl; autorewrite with pool;
      split_id x; simpl in *; rew_tasks; rew_queue; rew_fut; simpl in *;
      rewrite ?cnt_app, ?app_length in *; simpl in *; rewrite ?eqn_refl in *;
      try lia.
    all: try solve [fut_nil].
  - destruct prog as [|o pr0]; [discriminate|]. injection Hv as <- <-.
    destruct o.
    all: pstep_cases H; try discriminate Hok; cbn [out_sh out_cur lossf].
    all: bool_clean; eqb_clean.
    all: tok_setup x Hn; specialize (Ttok x); unfold tokens, futlen in *; simpl; autorewrite with pool;
      split_id x; simpl in *; rew_tasks; rew_queue; rew_fut; simpl in *;
      rewrite ?cnt_app, ?app_length in *; simpl in *; rewrite ?eqn_refl in *;
      try lia.
    all: try solve [fut_nil].
Qed.

(** the client part of the token count never increases *)
Lemma hsub_step s a l pr out x :
  (forall o, snd a <> Some (PInv o)) ->
  a_view a = Some (l, pr) -> pstep nw lim l s = out -> out_ok out = true ->
  hsub x (pr, out_cur out) <= hsub x a.
Proof.
  intros Hnp Hv H Hok.
  destruct a as [prog [l0|]]; unfold a_view in Hv; simpl in Hv.
  - injection Hv as <- <-. unfold hsub. simpl.
    destruct l0; try (exfalso; eapply Hnp; reflexivity).
    all: pstep_cases H; try discriminate Hok; simpl; try lia.
  - destruct prog as [|o pr0]; [discriminate|]. injection Hv as <- <-. unfold hsub. simpl.
    destruct o.
    all: pstep_cases H; try discriminate Hok; simpl; rewrite ?cnt_app; simpl; try lia.
Qed.

(** the execution counter of x changes only at the invocation of x's submission and at x's begin step *)
Lemma exq_step s l out x :
  pstep nw lim l s = out -> out_ok out = true -> exq_changer l x = 0 -> exq (out_sh s out) x = exq s x.
Proof.
  intros H Hok Hc. unfold exq.
  destruct l; try (match goal with o : pop |- _ => destruct o end).
  all: pstep_cases H; try discriminate Hok; cbn [out_sh]; autorewrite with pool; try reflexivity.
  all: simpl in Hc; unfold eqn in *.
  all: split_eqb x; try discriminate Hc; try reflexivity.
  all: rew_tasks; try reflexivity.
Qed.

Lemma exq_invoke s o out x :
  pstep nw lim (PInv o) s = out -> out_ok out = true -> sub_id o = Some x -> exq (out_sh s out) x = Some 0.
Proof.
  intros H Hok Hs. unfold exq.
  destruct o; try discriminate Hs; injection Hs as ->.
  all: pstep_cases H; cbn [out_sh]; autorewrite with pool; rewrite Nat.eqb_refl; reflexivity.
Qed.

End Acct.

(** ** Operations and program counters *)
Definition opc_ok (o : pop) (l : ppc) : Prop :=
  match l with
  | PInv o' => o' = o
  | SubRLock _ id | SubClosedFut _ id | SubTrySel id | SubAddExp id | SubWgAdd id | SubSubExp id | SubPush id
  | SubTryDoSel id | SubFut _ id _ => sub_id o = Some id
  | SubRUnlock _ => sub_id o <> None
  | RRecv id => o = Await id
  | RPoll id => o = PollRes id
  | XCas1 | XCas0 | XCas1b | XCancel | XLock | XClose | XUnlock | XWait | XDrainRecv | XDrainSend _ => o = Stop
  | _ => sub_id o = None /\ o <> Stop
  end.

Definition kret (k : subk) : pret := match k with KDo => PU | KTry b => PB b end.

(* results received from the result channel of task x, as recorded by the trace *)
Definition rcv_ev (x : nat) (e : event pop pret) : list tres :=
  match e with
  | ERet _ (Await y) (PRes v) | ERet _ (PollRes y) (PRes v) => if Nat.eqb y x then [v] else []
  | _ => []
  end.

Section Opc.
Variable nw : nat.
Variable lim : Z.

Ltac destruct_pc l :=
  destruct l; try (match goal with o' : pop |- _ => destruct o' end).

Lemma opc_step o l s l' s' : opc_ok o l -> pstep nw lim l s = Next l' s' -> opc_ok o l'.
Proof.
  intros Ho H. revert o Ho. destruct_pc l; intros o Ho.
  all: pstep_cases H; try discriminate H; injection H as <- <-; simpl in *; subst; simpl; auto; try (split; [reflexivity|discriminate]); try tauto; try congruence.
Qed.

(* a submission call returns only from its unlock step *)
Lemma sub_done o l s r u s' x :
  opc_ok o l -> pstep nw lim l s = Done r u s' -> sub_id o = Some x -> exists k, l = SubRUnlock k /\ r = kret k.
Proof.
  intros Ho H Hs. revert o Ho Hs. destruct_pc l; intros o Ho Hs.
  all: pstep_cases H; try discriminate H; simpl in Ho; subst; try discriminate Hs; try (destruct Ho; congruence).
  all: injection H as <- _ _; eauto.
Qed.

(* the unlock step is entered from a pc that holds the task *)
Lemma enter_unlock o l s k s' x :
  opc_ok o l -> pstep nw lim l s = Next (SubRUnlock k) s' -> sub_id o = Some x -> toks l = Some x.
Proof.
  intros Ho H Hs. revert o Ho Hs. destruct_pc l; intros o Ho Hs.
  all: pstep_cases H; try discriminate H; simpl in Ho; simpl; congruence.
Qed.

Lemma Stop_done_state l s r u s' :
  opc_ok Stop l -> pstep nw lim l s = Done r u s' -> (l = XCas1b /\ p_state s <> 1 /\ s' = s) \/ (l = XDrainRecv /\ s' = s).
Proof.
  intros Ho H. destruct_pc l.
  all: pstep_cases H; try discriminate H; simpl in Ho; try discriminate Ho; try (destruct Ho; congruence).
  all: injection H as _ _ <-; eqb_clean; auto.
Qed.

(* receiving *)
Lemma lossf_done t o l s r u s' x :
  opc_ok o l -> pstep nw lim l s = Done r u s' -> length (rcv_ev x (ERet t o r)) = lossf l (Done r u s') x.
Proof.
  intros Ho H. revert o Ho. destruct_pc l; intros o Ho.
  all: pstep_cases H; try discriminate H; injection H as <- <- <-; simpl in Ho; subst; simpl; try reflexivity.
  all: try (destruct o; try reflexivity; destruct k; try reflexivity; destruct added; reflexivity).
  all: try (destruct o; reflexivity).
  all: unfold eqn; try (destruct (Nat.eqb id x); reflexivity).
  all: try (destruct o; try reflexivity; destruct Ho; congruence).
Qed.

Lemma rcv_value t o l s r u s' x v :
  opc_ok o l -> pstep nw lim l s = Done r u s' -> In v (rcv_ev x (ERet t o r)) ->
  exists tk rest, get_task s x = Some tk /\ tk_future tk = v :: rest /\ exq s' x = Some (tk_execs tk).
Proof.
  intros Ho H Hin.
  destruct r as [| | v0 | |]; try (simpl in Hin; destruct o; contradiction).
  revert o Ho Hin. destruct_pc l; intros o Ho Hin.
  all: pstep_cases H; try discriminate H; injection H as E1 E2 E3; try discriminate E1.
  all: simpl in Ho; subst o; simpl in Hin; destruct (Nat.eqb_spec id x) as [->|Hne]; try contradiction.
  all: destruct Hin as [<-|[]]; subst.
  all: match goal with E : get_task _ _ = Some ?tk, F : tk_future ?tk = _ |- _ =>
         exists tk; eexists; split; [exact E|split; [exact F|]] end.
  all: unfold exq; autorewrite with pool; rewrite Nat.eqb_refl; reflexivity.
Qed.

End Opc.
