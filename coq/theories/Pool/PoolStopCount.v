(** Safety of the worker pool, part 9: when the client programs contain at
    most one Stop call, "a Stop call has returned" (an event of the trace)
    implies [stop_done]: the call that returned is the effective one. *)
From Coq Require Import List Arith Bool ZArith Lia.
From Garr Require Import Conc.Conc Pure.F64 Queue.MutexModel Pool.PoolModel Pool.PoolBase Pool.PoolInv1 Pool.PoolTok
  Pool.PoolStop Pool.PoolStopMain Pool.PoolWg Pool.PoolCap Pool.PoolMain Pool.PoolStopDone Pool.PoolAcct Pool.PoolHist
  Pool.PoolAfterStop.
Import ListNotations.

Definition is_Stop (o : pop) : bool := match o with Stop => true | _ => false end.
Definition cstop (pr : list pop) : nat := length (filter is_Stop pr).
Definition bnat (b : bool) : nat := if b then 1 else 0.
(* Stop calls thread th still has to make or is making *)
Definition stopw (th : pthread) : nat :=
  cstop (t_prog th) + match t_cur th with Some (o, _) => bnat (is_Stop o) | None => 0 end.
Definition nStop (c : pconfig) : nat := sumi (fun _ th => stopw th) 0 (c_thr c).
Definition ret_Stop (e : pevent) : bool := match e with ERet _ Stop _ => true | _ => false end.
Definition nretStop (tr : list pevent) : nat := length (filter ret_Stop tr).

Lemma nretStop_app tr1 tr2 : nretStop (tr1 ++ tr2) = nretStop tr1 + nretStop tr2.
Proof. unfold nretStop. rewrite filter_app, app_length. reflexivity. Qed.

Lemma stop_returned_pos tr : stop_returned tr -> 1 <= nretStop tr.
Proof.
  intros (i & r & Hin). unfold nretStop.
  assert (Hf : In (ERet i Stop r) (filter ret_Stop tr)) by (apply filter_In; split; [exact Hin|reflexivity]).
  destruct (filter ret_Stop tr); [contradiction|simpl; lia].
Qed.

Section Count.
Variable nw : nat.
Variable lim : Z.
Variable nc : nat.
Variable ndo : nat.
Notation M := (pool nw lim).

Generalizable All Variables.

Lemma nStop_step `(SD : sdata nw lim nc ndo c t c' e th o l pr out fresh th') :
  nStop c' + nretStop e = nStop c.
Proof.
  unfold nStop. rewrite (sd_thr _ _ _ _ _ _ _ _ _ _ _ _ _ _ _ SD).
  pose proof (sumi_upd (fun (_ : nat) th => stopw th) 0 (c_thr c) t th th' (sd_n _ _ _ _ _ _ _ _ _ _ _ _ _ _ _ SD)) as E.
  simpl in E.
  assert (Hw : stopw th' + nretStop e = stopw th); [|lia].
  unfold stopw. rewrite (sd_prog' _ _ _ _ _ _ _ _ _ _ _ _ _ _ _ SD), (sd_cur' _ _ _ _ _ _ _ _ _ _ _ _ _ _ _ SD),
    (sd_e _ _ _ _ _ _ _ _ _ _ _ _ _ _ _ SD), nretStop_app.
  pose proof (sd_cur _ _ _ _ _ _ _ _ _ _ _ _ _ _ _ SD) as Hc.
  pose proof (sd_ok _ _ _ _ _ _ _ _ _ _ _ _ _ _ _ SD) as Hok.
  destruct fresh.
  - destruct Hc as (Hc & Hp & _). rewrite Hc, Hp. unfold cstop. simpl filter.
    destruct out as [l' s'|r u s'| |]; try discriminate Hok; unfold nretStop; simpl; destruct o; simpl; lia.
  - destruct Hc as (Hc & ->). rewrite Hc.
    destruct out as [l' s'|r u s'| |]; try discriminate Hok; unfold nretStop; simpl; destruct o; simpl; lia.
Qed.

Lemma count_preserved N c tr t c' e :
  Hist nw nc ndo c tr /\ nStop c + nretStop tr = N -> step_thread M c t = Some (c', e) ->
  Hist nw nc ndo c' (tr ++ e) /\ nStop c' + nretStop (tr ++ e) = N.
Proof.
  intros [HH Hn] Hs.
  destruct (step_good nw lim nc ndo c t c' e (h_good _ _ _ _ _ HH) Hs) as (th & o & l & pr & out & fresh & th' & SD).
  split; [apply (Hist_step _ _ _ _ HH SD)|]. rewrite nretStop_app. pose proof (nStop_step SD). lia.
Qed.

End Count.

Lemma sum_stopw_clients n (cl : list (list pop)) :
  sumi (fun (_ : nat) (p : list pop) => stopw (mk_thread ppc tt p)) n cl = cstop (concat cl).
Proof.
  revert n. induction cl as [|p cl IH]; intros n; simpl; [reflexivity|].
  rewrite IH. unfold cstop. rewrite filter_app, app_length. unfold stopw, cstop. simpl. lia.
Qed.

Section Main.
Variable nw : nat.
Variable lim : Z.
Variables (autostart : bool) (choices : list nat) (clients : list (list pop)) (nslots : nat).
Hypothesis Hok : clients_ok clients.
Notation M := (pool nw lim).
Notation nc := (length clients).
Notation ndo := (cntdo (concat clients)).
Notation cfg0 := (pool_cfg nw autostart choices clients nslots).

Lemma nStop_init : nStop cfg0 = cstop (concat clients).
Proof.
  unfold nStop, pool_cfg, init. simpl. rewrite sumi_map, sumi_app.
  assert (E2 : forall n l, sumi (fun (_ : nat) (p : list pop) => stopw (mk_thread ppc tt p)) n (map (fun k => [Slot k]) l) = 0).
  { intros n l. apply sumi_all_zero. intros i a Hi. rewrite nth_error_map in Hi.
    destruct (nth_error l i); [|discriminate]. injection Hi as <-. reflexivity. }
  rewrite E2, Nat.add_0_r. apply sum_stopw_clients.
Qed.

Variable sched : list nat.
Let c := final M cfg0 sched.
Let tr := trace M cfg0 sched.

(** Stop calls still to be made or in progress + Stop calls that have returned = Stop calls in the programs *)
Theorem stop_calls_counted : nStop c + nretStop tr = cstop (concat clients).
Proof.
  pose proof (hist_invariant nw lim (fun c tr => Hist nw nc ndo c tr /\ nStop c + nretStop tr = cstop (concat clients))) as H.
  destruct (H (count_preserved nw lim nc ndo _) sched cfg0 []) as [_ Hn].
  - split; [apply Hist_init; exact Hok|]. rewrite nStop_init. unfold nretStop. simpl. lia.
  - exact Hn.
Qed.

(** with at most one Stop call in the client programs, "Stop has returned" is [stop_done] *)
Theorem stop_done_single_stop :
  cstop (concat clients) <= 1 -> stop_returned tr -> stop_done c.
Proof.
  intros H1 Hr. apply (stop_done_from_trace nw lim autostart choices clients nslots Hok sched); [exact Hr|].
  intros i th o l Hi Hc ->.
  pose proof stop_calls_counted as Hn. pose proof (stop_returned_pos _ Hr) as Hp. fold tr in Hp.
  assert (Hz : nStop c = 0) by lia.
  pose proof (sumi_zero (fun (_ : nat) th => stopw th) 0 (c_thr c) i th Hz Hi) as Hw. simpl in Hw.
  unfold stopw in Hw. rewrite Hc in Hw. simpl in Hw. lia.
Qed.

(** (A) in trace form, for client programs with at most one Stop call: as soon as the trace shows
    that Stop has returned, the queue is empty, nobody holds a task, and every task whose
    submission returned "accepted" has exactly one result *)
Theorem single_stop_returned_no_work_left :
  cstop (concat clients) <= 1 -> stop_returned tr ->
  p_queue (c_sh c) = [] /\
  (forall x, H1 x (aths c) = 0 /\ Hwk x (aths c) = 0 /\ Hdr x (aths c) = 0) /\
  (forall x, accepted x tr ->
     exists t r, get_task (c_sh c) x = Some t /\ results c tr x = [r] /\ res_ok x (tk_execs t) r /\ tk_execs t <= 1).
Proof.
  intros H1 Hr. pose proof (stop_done_single_stop H1 Hr) as Hsd.
  destruct (stop_returned_no_work_left nw lim autostart choices clients nslots Hok sched Hsd)
    as (A1 & _ & _ & _ & _ & _ & _ & _ & A9 & A10).
  split; [exact A1|]. split; [exact A9|exact A10].
Qed.

End Main.

Print Assumptions stop_done_single_stop.
Print Assumptions single_stop_returned_no_work_left.
