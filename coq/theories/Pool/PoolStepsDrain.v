(** Worker pool, Stop: own steps <= 10 + 2 * (tasks drained), and at most ONE task is drained.

    [drains L t a b] = number of positions in [a, b] at which thread [t] executes the send
    [t.future <- ctx.Err()] of Stop's drain loop ([XDrainSend]): the number of tasks it has drained.
    - [stop_steps_vs_drains] (any configuration, any schedule, no invariant): a Stop call has
      taken at most 10 + 2 * drains own steps;
    - [stop_drains_at_most_one] (reachable configurations): drains <= 1. *)
From Coq Require Import List Arith Bool ZArith Lia.
From Garr Require Import Conc.Conc Pure.F64 Queue.MutexModel Pool.PoolModel Pool.PoolBase Pool.PoolInv1 Pool.PoolTok
  Pool.PoolStop Pool.PoolStopMain Pool.PoolMain Pool.PoolStepsGen Pool.PoolStepsGenW Pool.PoolSteps Pool.PoolStepsStop.
From Garr Require Breaker.ConcBase Breaker.ConcHist Breaker.ConcWaitFreeMain.
Import ListNotations.

Definition is_dsend (l : ppc) : bool := match l with XDrainSend _ => true | _ => false end.

Section Drain.
Variable nw : nat.
Variable lim : Z.
Notation M := (pool nw lim).

Definition drains (L : plog) (t a b : nat) : nat := kind_steps M is_dsend L t a b.

Local Open Scope Z_scope.

(* weight: +1 per own step, -2 per drained task *)
Definition wdr (l : ppc) : Z := 1 * 1 + (-2) * (if is_dsend l then 1 else 0).

Definition zrank (l : ppc) : option Z :=
  match l with
  | XCas1 => Some 1 | XCas0 => Some 2 | XCas1b => Some 3 | XCancel => Some 4 | XLock => Some 5
  | XClose => Some 6 | XUnlock => Some 7 | XWait => Some 8 | XDrainRecv => Some 9 | XDrainSend _ => Some 10
  | _ => None
  end.

Lemma zrank_step l n s l' s' :
  zrank l = Some n -> pstep nw lim l s = Next l' s' -> exists n', zrank l' = Some n' /\ n + wdr l <= n'.
Proof.
  intros Hr H.
  assert (Ha : astep nw lim l s = RNext (Some l') s') by (unfold astep; rewrite H; reflexivity). clear H.
  destruct l; try discriminate Hr; injection Hr as <-; step_cases Ha; unfold zrank, wdr, is_dsend;
    (eexists; split; [reflexivity|lia]).
Qed.

Lemma zrank_bound l n : zrank l = Some n -> n + wdr l <= 10 /\ n <= 10.
Proof. destruct l; try discriminate; intros [= <-]; unfold wdr, is_dsend; lia. Qed.

Lemma log_stepper (c0 : pconfig) sched k ck t :
  nth_error (steps_of M c0 sched) k = Some (ck, t) -> stepper M ck t <> None.
Proof.
  intros H. destruct (ConcHist.steps_of_enabled _ _ _ _ _ _ H) as (c' & e & Hs).
  destruct (ConcHist.stepper_step _ _ _ _ _ Hs) as (th & o & l & fr & _ & _ & -> & _). discriminate.
Qed.

(** from ANY configuration: own steps of a Stop call <= 10 + 2 * (tasks it has drained) *)
Theorem stop_steps_vs_drains (c0 : pconfig) sched a b t :
  let L := steps_of M c0 sched in
  invoked_at M c0 sched a t Stop -> (a <= b)%nat -> (b < length L)%nat ->
  (forall k ck, (a <= k < b)%nat -> nth_error L k = Some (ck, t) -> ret_of M ck t = None) ->
  (own_steps L t a b <= 10 + 2 * drains L t a b)%nat.
Proof.
  intros L Hinv Hab Hlen Hnr.
  assert (H : wsteps M wdr L t a b <= 10).
  { apply (wcall_bound M wdr c0 sched Stop (fun _ => zrank) 10 (fun _ => True)); auto.
    - intros u. unfold wdr. simpl. lia.
    - intros u s l' s' Hm. simpl in Hm. injection Hm as <- _. exists 1. split; [reflexivity|]. unfold wdr. simpl. lia.
    - intros c t1 th l n l' s' _ _ _ _. apply zrank_step.
    - intros c u c' e t1 th l n _ _ _ _ _ _ Hr. exists n. split; [exact Hr|lia].
    - intros s l n Hr. apply (zrank_bound l n Hr).
    - intros s l n Hr. apply (zrank_bound l n Hr). }
  unfold wdr in H. rewrite (wsteps_lin M (fun _ => 1) (fun l => if is_dsend l then 1 else 0) 1 (-2)) in H.
  rewrite wsteps_own in H by (intros k ck; apply log_stepper).
  rewrite wsteps_kind in H. fold (drains L t a b) in H. lia.
Qed.

End Drain.

(** ** at most one task is drained *)
Section DrainOne.
Variable nw : nat.
Variable lim : Z.
Variables (autostart : bool) (choices : list nat) (clients : list (list pop)) (nslots : nat).
Hypothesis Hok : clients_ok clients.
Notation M := (pool nw lim).
Notation nc := (length clients).
Notation cfg0 := (pool_cfg nw autostart choices clients nslots).

Local Open Scope Z_scope.

Definition wds (l : ppc) : Z := if is_dsend l then 1 else 0.

Definition recv_rank (s : pshared) : Z := 1 - Z.of_nat (length (p_queue s)).

(* bound on the tasks drained so far; at the send the queue is empty *)
Definition drank (s : pshared) (l : ppc) : option Z :=
  match l with
  | XCas1 | XCas0 | XCas1b | XCancel | XLock | XClose | XUnlock | XWait => Some 0
  | XDrainRecv => Some (recv_rank s)
  | XDrainSend _ => if Nat.eqb (length (p_queue s)) 0 then Some 0 else None
  | _ => None
  end.

Lemma drank_step s l n l' s' :
  (length (p_queue s) <= 1)%nat -> drank s l = Some n -> pstep nw lim l s = Next l' s' ->
  exists n', drank s' l' = Some n' /\ n + wds l <= n'.
Proof.
  intros Hq Hr H.
  assert (Ha : astep nw lim l s = RNext (Some l') s') by (unfold astep; rewrite H; reflexivity). clear H.
  destruct l; try discriminate Hr; unfold drank in Hr;
    try (destruct (Nat.eqb_spec (length (p_queue s)) 0) as [E0|E0]; [|discriminate Hr]);
    injection Hr as <-; step_cases Ha; unfold drank, wds, is_dsend, recv_rank;
    cbn [p_queue upd_queue set_task upd_tasks upd_state upd_poolctx upd_lock upd_closedflag upd_qclosed];
    repeat match goal with E : p_queue _ = _ |- _ => rewrite E in * end; cbn [length] in *;
    try (match goal with |- context [Nat.eqb ?x 0] => destruct (Nat.eqb_spec x 0); [|exfalso; lia] end);
    (eexists; split; [reflexivity|lia]).
Qed.

Lemma drank_other s ps t pt l n u a lu pru cur s' :
  Inv1 nc s ps -> nth_error ps t = Some (pt, Some l) -> drank s l = Some n ->
  nth_error ps u = Some a -> a_view a = Some (lu, pru) -> astep nw lim lu s = RNext cur s' ->
  exists n', drank s' l = Some n' /\ n <= n'.
Proof.
  intros HI Ht Hr Hu Hv Ha.
  assert (Hq : is_dr l = true -> (length (p_queue s') <= length (p_queue s))%nat).
  { intros Hdr. pose proof (cntp_ge is_dr _ _ _ Ht) as Gdr. unfold pcf in Gdr. simpl in Gdr. rewrite Hdr in Gdr.
    pose proof (i_cf _ _ _ HI) as Icf.
    assert (Hcf : p_closedflag s = true) by (destruct (p_closedflag s); [reflexivity|lia]).
    destruct (closed_step nw lim nc s ps u a lu pru cur s' HI Hcf Hu Hv Ha) as (_ & _ & [pre Hpre] & _).
    rewrite Hpre, app_length. lia. }
  destruct l; try discriminate Hr; unfold drank in Hr |- *;
    try (destruct (Nat.eqb_spec (length (p_queue s)) 0) as [E0|E0]; [|discriminate Hr]);
    injection Hr as <-;
    try (eexists; split; [reflexivity|lia]);
    specialize (Hq eq_refl).
  - eexists; split; [reflexivity|unfold recv_rank; lia].
  - destruct (Nat.eqb_spec (length (p_queue s')) 0); [|exfalso; lia]. eexists; split; [reflexivity|lia].
Qed.

Lemma drank_bound s l n : drank s l = Some n -> n + wds l <= 1 /\ n <= 1.
Proof.
  destruct l; try discriminate; unfold drank, wds, is_dsend;
    try (destruct (Nat.eqb (length (p_queue s)) 0); [|discriminate]); intros [= <-]; unfold recv_rank; lia.
Qed.

Theorem stop_drains_at_most_one sched a b t :
  let L := steps_of M cfg0 sched in
  invoked_at M cfg0 sched a t Stop -> (a <= b)%nat -> (b < length L)%nat ->
  (forall k ck, (a <= k < b)%nat -> nth_error L k = Some (ck, t) -> ret_of M ck t = None) ->
  (drains nw lim L t a b <= 1)%nat.
Proof.
  intros L Hinv Hab Hlen Hnr.
  assert (H : wsteps M wds L t a b <= 1).
  { apply (wcall_bound M wds cfg0 sched Stop drank 1 (SInv clients)
             (log_SInv nw lim autostart choices clients nslots Hok sched)); auto.
    - intros u. unfold wds. simpl. lia.
    - intros u s l' s' Hm. simpl in Hm. injection Hm as <- _. exists 0. split; [reflexivity|]. unfold wds. simpl. lia.
    - intros c t1 th l n l' s' [_ HI2] _ _ _ Hr Hm. exact (drank_step _ _ _ _ _ (t_qlen _ _ HI2) Hr Hm).
    - intros c u c' e t1 th l n [HI1 _] Hs _ Hth _ Hcur Hr.
      destruct (step_abs _ _ _ _ _ _ Hs) as (thu & lu & pru & Hnu & _ & Hvu & Hm).
      pose proof (aths_nth _ _ _ Hnu) as Hnau.
      pose proof (Inv1_step nw lim nc _ _ _ _ _ _ HI1 Hnau Hvu) as HI'.
      destruct (astep nw lim lu (c_sh c)) as [cur s'| |] eqn:Ea; try contradiction.
      destruct Hm as (-> & _ & _).
      pose proof (aths_nth _ _ _ Hth) as Hnat. unfold abs_th in Hnat. rewrite Hcur in Hnat.
      exact (drank_other _ _ _ _ _ _ _ _ _ _ _ _ HI1 Hnat Hr Hnau Hvu Ea).
    - intros s l n Hr. apply (drank_bound s l n Hr).
    - intros s l n Hr. apply (drank_bound s l n Hr). }
  unfold wds in H. rewrite wsteps_kind in H. unfold drains. lia.
Qed.

(** (D) Stop: own steps <= 10 + 2 * (tasks drained), tasks drained <= 1 *)
Corollary stop_own_steps_drains sched a b t :
  let L := steps_of M cfg0 sched in
  invoked_at M cfg0 sched a t Stop -> (a <= b)%nat -> (b < length L)%nat ->
  (forall k ck, (a <= k < b)%nat -> nth_error L k = Some (ck, t) -> ret_of M ck t = None) ->
  (own_steps L t a b <= 10 + 2 * drains nw lim L t a b /\ drains nw lim L t a b <= 1)%nat.
Proof.
  intros L Hinv Hab Hlen Hnr. split.
  - apply stop_steps_vs_drains; assumption.
  - apply stop_drains_at_most_one; assumption.
Qed.

(** (D) [start_stop_own_step_bounds]: Start takes at most 5 own steps (the model executes wg.Add(n)
    and the n [go] statements as ONE step: there is a single shared access), Stop at most
    10 + 2 * (tasks it drains) <= 12. *)
Theorem start_stop_own_step_bounds sched a b t o :
  let L := steps_of M cfg0 sched in
  invoked_at M cfg0 sched a t o -> (a <= b)%nat -> (b < length L)%nat ->
  (forall k ck, (a <= k < b)%nat -> nth_error L k = Some (ck, t) -> ret_of M ck t = None) ->
  (o = Start -> own_steps L t a b <= 5)%nat /\
  (o = Stop -> own_steps L t a b <= 10 + 2 * drains nw lim L t a b /\ drains nw lim L t a b <= 1 /\
               own_steps L t a b <= 12)%nat.
Proof.
  intros L Hinv Hab Hlen Hnr. split; intros ->.
  - exact (start_own_step_bound nw lim cfg0 sched a b t Hinv Hab Hlen Hnr).
  - destruct (stop_own_steps_drains sched a b t Hinv Hab Hlen Hnr) as [H1 H2]. fold L in H1, H2.
    split; [exact H1|]. split; [exact H2|]. lia.
Qed.

End DrainOne.
