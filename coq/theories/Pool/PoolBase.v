(** Safety of the worker-pool step machine: common ground.

    - the setting: [client_op], [sub_id], [clients_ok], [pool_cfg];
    - an abstraction of configurations to (shared state, list of abstract
      threads), an abstract thread being (operations still to invoke, program
      counter of the call in progress); every invariant is a predicate
      [pshared -> list ath -> Prop] and every preservation proof is a statement
      about ONE [astep];
    - a counting library [sumi] (sums over the thread list, the summand may
      depend on the thread index), occurrence counting [cnt];
    - facts about tasks, [set_nth], the select oracle. *)
From Coq Require Import List Arith Bool ZArith Lia.
From Garr Require Import Conc.Conc Pure.F64 Queue.MutexModel Pool.PoolModel.
Import ListNotations.

(** ** The setting *)
Definition client_op (o : pop) : bool := match o with Slot _ => false | _ => true end.
Definition sub_id (o : pop) : option nat :=
  match o with Do id _ _ | TryDo id _ _ | Execute id _ | TryExecute id _ => Some id | _ => None end.
Definition clients_ok (clients : list (list pop)) : Prop :=
  (forall p o, In p clients -> In o p -> client_op o = true) /\
  NoDup (flat_map (fun o => match sub_id o with Some id => [id] | None => [] end) (concat clients)).   (* every task is submitted once *)
Definition pool_cfg nworkers autostart choices (clients : list (list pop)) (nslots : nat) :=
  init ppc (pinit nworkers autostart choices) tt (clients ++ map (fun k => [Slot k]) (seq 0 nslots)).

Notation pthread := (thread unit ppc pop).
Notation pconfig := (config pshared unit ppc pop).

Arguments wrap32 : simpl never.

(** ** Generic list facts *)
Lemma map_upd {A B} (f : A -> B) l i x : map f (upd l i x) = upd (map f l) i (f x).
Proof. revert i; induction l as [|a l IH]; intros [|i]; simpl; auto. rewrite IH. reflexivity. Qed.

Lemma Forall_upd {A} (P : A -> Prop) l i x : Forall P l -> P x -> Forall P (upd l i x).
Proof.
  intros H Hx. revert i; induction H as [|a l Ha Hl IH]; intros [|i]; simpl; auto.
Qed.

Lemma Forall_nth_error {A} (P : A -> Prop) l i x : Forall P l -> nth_error l i = Some x -> P x.
Proof. intros H Hn. rewrite Forall_forall in H. apply H. eapply nth_error_In; eauto. Qed.

Lemma nth_error_lt {A} (l : list A) t x : nth_error l t = Some x -> t < length l.
Proof. intros H. apply nth_error_Some. congruence. Qed.

Lemma upd_same {A} (l : list A) i x : nth_error l i = Some x -> upd l i x = l.
Proof.
  revert i; induction l as [|a l IH]; intros [|i] H; simpl in *; try discriminate.
  - congruence.
  - rewrite IH by assumption. reflexivity.
Qed.

(** ** Abstraction *)
Definition ath := (list pop * option ppc)%type.

Definition abs_th (th : pthread) : ath :=
  (t_prog th, match t_cur th with Some (_, l) => Some l | None => None end).

Definition aths (c : pconfig) : list ath := map abs_th (c_thr c).

(* the pc the thread steps from and the operations left once it has stepped *)
Definition a_view (a : ath) : option (ppc * list pop) :=
  match snd a with
  | Some l => Some (l, fst a)
  | None => match fst a with o :: pr => Some (PInv o, pr) | [] => None end
  end.

Inductive ares := RNext (cur : option ppc) (s : pshared) | RBlocked | RFault.

Definition alive (c : pconfig) : Prop := Forall (fun th => t_dead th = false) (c_thr c).

Section Abs.
Variable nw : nat.
Variable lim : Z.

Definition astep (l : ppc) (s : pshared) : ares :=
  match pstep nw lim l s with
  | Next l' s' => RNext (Some l') s'
  | Done _ _ s' => RNext None s'
  | Blocked => RBlocked
  | Fault => RFault
  end.

Notation M := (pool nw lim).

Lemma step_abs c t c' e :
  step_thread M c t = Some (c', e) ->
  exists th l pr, nth_error (c_thr c) t = Some th /\ t_dead th = false /\
    a_view (abs_th th) = Some (l, pr) /\
    match astep l (c_sh c) with
    | RNext cur s' => c_sh c' = s' /\ aths c' = upd (aths c) t (pr, cur) /\ (alive c -> alive c')
    | RBlocked => False
    | RFault => True
    end.
Proof.
  unfold step_thread. destruct (nth_error (c_thr c) t) as [th|] eqn:Hn; [|discriminate].
  unfold view. destruct (t_dead th) eqn:Hd; [discriminate|].
  destruct (t_cur th) as [[o l]|] eqn:Hcur.
  - simpl. intros H. exists th, l, (t_prog th). split; [reflexivity|]. split; [exact Hd|].
    split; [unfold abs_th; rewrite Hcur; reflexivity|].
    unfold astep. change (m_step M l (c_sh c)) with (pstep nw lim l (c_sh c)) in H.
    destruct (pstep nw lim l (c_sh c)) as [l' s'|r u s'| |]; cbv iota in H; try discriminate; [| |exact I];
      injection H as Hc He; subst c'; simpl; (split; [reflexivity|]);
      (split; [unfold aths; simpl; rewrite map_upd; reflexivity|]);
      intros Ha; apply Forall_upd; auto.
  - destruct (t_prog th) as [|o rest] eqn:Hprog; [discriminate|].
    change (m_start M (t_ts th) o) with (PInv o).
    simpl rest_prog. rewrite Hprog. intros H. exists th, (PInv o), rest. split; [reflexivity|]. split; [exact Hd|].
    split; [unfold abs_th; rewrite Hcur, Hprog; reflexivity|].
    unfold astep. change (m_step M (PInv o) (c_sh c)) with (pstep nw lim (PInv o) (c_sh c)) in H.
    destruct (pstep nw lim (PInv o) (c_sh c)) as [l' s'|r u s'| |]; cbv iota in H; try discriminate; [| |exact I];
      injection H as Hc He; subst c'; simpl; (split; [reflexivity|]);
      (split; [unfold aths; simpl; rewrite map_upd; reflexivity|]);
      intros Ha; apply Forall_upd; auto.
Qed.

(* an abstract invariant preserved by abstract steps, and excluding faults, holds in every
   configuration reachable from a configuration where it holds; no thread ever dies *)
Lemma abs_invariant_from (I : pshared -> list ath -> Prop) :
  (forall s ps t a l pr, I s ps -> nth_error ps t = Some a -> a_view a = Some (l, pr) ->
     match astep l s with
     | RNext cur s' => I s' (upd ps t (pr, cur))
     | RBlocked => True
     | RFault => False
     end) ->
  forall c0, I (c_sh c0) (aths c0) -> alive c0 ->
  forall sched, let c := final M c0 sched in I (c_sh c) (aths c) /\ alive c.
Proof.
  intros Hstep c0 H0 Ha0 sched.
  apply (invariant_run M (fun c => I (c_sh c) (aths c) /\ alive c)).
  - split; assumption.
  - intros c t c' e [HI Ha] Hs.
    destruct (step_abs _ _ _ _ Hs) as (th & l & pr & Hn & Hd & Hv & Hm).
    assert (Hn' : nth_error (aths c) t = Some (abs_th th)).
    { unfold aths. rewrite nth_error_map, Hn. reflexivity. }
    specialize (Hstep _ _ _ _ _ _ HI Hn' Hv).
    destruct (astep l (c_sh c)) as [cur s'| |]; try contradiction.
    destruct Hm as (Hs' & Hps & Hal). rewrite Hs', Hps. split; [exact Hstep|auto].
Qed.

Lemma aths_init s0 progs : aths (init ppc s0 tt progs) = map (fun p => (p, None)) progs.
Proof. unfold aths, init; simpl. rewrite map_map. reflexivity. Qed.

Lemma alive_init s0 progs : alive (init ppc s0 tt progs).
Proof. unfold alive, init; simpl. apply Forall_forall. intros th H. apply in_map_iff in H. destruct H as [p [<- _]]. reflexivity. Qed.

End Abs.

(** ** Sums over the thread list *)
Fixpoint sumi {A} (f : nat -> A -> nat) (n : nat) (l : list A) : nat :=
  match l with
  | [] => 0
  | a :: r => f n a + sumi f (S n) r
  end.

Section Sumi.
Context {A : Type}.
Implicit Types (f g : nat -> A -> nat) (l : list A).

Lemma sumi_upd f n l i a a' :
  nth_error l i = Some a -> sumi f n (upd l i a') + f (n + i) a = sumi f n l + f (n + i) a'.
Proof.
  revert n i; induction l as [|b l IH]; intros n i H.
  - destruct i; discriminate.
  - destruct i as [|i]; simpl in *.
    + injection H as ->. rewrite Nat.add_0_r. lia.
    + specialize (IH (S n) _ H). rewrite Nat.add_succ_comm in IH. lia.
Qed.

Lemma sumi_ge f n l i a : nth_error l i = Some a -> f (n + i) a <= sumi f n l.
Proof.
  revert n i; induction l as [|b l IH]; intros n i H.
  - destruct i; discriminate.
  - destruct i as [|i]; simpl in *.
    + injection H as ->. rewrite Nat.add_0_r. lia.
    + specialize (IH (S n) _ H). rewrite Nat.add_succ_comm in IH. lia.
Qed.

Lemma sumi_ge2 f n l i j a b :
  nth_error l i = Some a -> nth_error l j = Some b -> i <> j ->
  f (n + i) a + f (n + j) b <= sumi f n l.
Proof.
  revert n i j; induction l as [|c l IH]; intros n i j Hi Hj Hne.
  - destruct i; discriminate.
  - destruct i as [|i], j as [|j]; simpl in *; try congruence.
    + injection Hi as ->. pose proof (sumi_ge f (S n) _ _ _ Hj) as H. rewrite Nat.add_succ_comm in H.
      rewrite Nat.add_0_r. lia.
    + injection Hj as ->. pose proof (sumi_ge f (S n) _ _ _ Hi) as H. rewrite Nat.add_succ_comm in H.
      rewrite Nat.add_0_r. lia.
    + assert (Hij : i <> j) by congruence. specialize (IH (S n) _ _ Hi Hj Hij).
      rewrite !Nat.add_succ_comm in IH. lia.
Qed.

Lemma sumi_le f g n l :
  (forall i a, nth_error l i = Some a -> f (n + i) a <= g (n + i) a) -> sumi f n l <= sumi g n l.
Proof.
  revert n; induction l as [|b l IH]; intros n H; simpl; [lia|].
  pose proof (H 0 b eq_refl) as H0. rewrite Nat.add_0_r in H0.
  assert (sumi f (S n) l <= sumi g (S n) l).
  { apply IH. intros i a Hi. specialize (H (S i) a Hi). rewrite Nat.add_succ_comm. exact H. }
  lia.
Qed.

Lemma sumi_ext f g n l :
  (forall i a, nth_error l i = Some a -> f (n + i) a = g (n + i) a) -> sumi f n l = sumi g n l.
Proof.
  intros H. apply Nat.le_antisymm; apply sumi_le; intros i a Hi; rewrite (H i a Hi); lia.
Qed.

Lemma sumi_plus f g n l : sumi (fun i a => f i a + g i a) n l = sumi f n l + sumi g n l.
Proof. revert n; induction l as [|b l IH]; intros n; simpl; [reflexivity|]. rewrite IH. lia. Qed.

Lemma sumi_pos f n l : 1 <= sumi f n l -> exists i a, nth_error l i = Some a /\ 1 <= f (n + i) a.
Proof.
  revert n; induction l as [|b l IH]; intros n H; simpl in *; [lia|].
  destruct (Nat.le_gt_cases 1 (f n b)) as [Hb|Hb].
  - exists 0, b. rewrite Nat.add_0_r. auto.
  - destruct (IH (S n)) as (i & a & Hi & Ha); [lia|]. exists (S i), a. rewrite <- Nat.add_succ_comm. auto.
Qed.

Lemma sumi_zero f n l i a : sumi f n l = 0 -> nth_error l i = Some a -> f (n + i) a = 0.
Proof. intros H Hi. pose proof (sumi_ge f n _ _ _ Hi). lia. Qed.

Lemma sumi_app f n l1 l2 : sumi f n (l1 ++ l2) = sumi f n l1 + sumi f (n + length l1) l2.
Proof.
  revert n; induction l1 as [|b l IH]; intros n; simpl.
  - rewrite Nat.add_0_r. reflexivity.
  - rewrite IH. rewrite <- Nat.add_succ_comm. lia.
Qed.

Lemma sumi_all_zero f n l : (forall i a, nth_error l i = Some a -> f (n + i) a = 0) -> sumi f n l = 0.
Proof.
  revert n; induction l as [|b l IH]; intros n H; simpl; [reflexivity|].
  pose proof (H 0 b eq_refl) as H0. rewrite Nat.add_0_r in H0. rewrite H0, IH; [reflexivity|].
  intros i a Hi. rewrite Nat.add_succ_comm. apply (H (S i) a Hi).
Qed.

Lemma sumi_le_length f n l : (forall i a, f i a <= 1) -> sumi f n l <= length l.
Proof.
  intros H. revert n; induction l as [|b l IH]; intros n; simpl; [lia|]. specialize (IH (S n)). specialize (H n b). lia.
Qed.

Lemma sumi_eq_length f n l i a :
  (forall i a, f i a <= 1) -> sumi f n l = length l -> nth_error l i = Some a -> f (n + i) a = 1.
Proof.
  intros H. revert n i; induction l as [|b l IH]; intros n i Hs Hi.
  - destruct i; discriminate.
  - simpl in Hs. pose proof (sumi_le_length f (S n) l H). pose proof (H n b).
    destruct i as [|i]; simpl in Hi.
    + injection Hi as <-. rewrite Nat.add_0_r. lia.
    + rewrite <- Nat.add_succ_comm. apply IH; [lia|exact Hi].
Qed.
End Sumi.

Lemma sumi_map {A B} (f : nat -> B -> nat) (h : A -> B) n l : sumi f n (map h l) = sumi (fun i a => f i (h a)) n l.
Proof. revert n; induction l as [|b l IH]; intros n; simpl; [reflexivity|]. rewrite IH. reflexivity. Qed.

(* a summand that is 1 only at indices lo + k where the k-th element of [sp] satisfies [g] *)
Lemma sumi_bound {A B} (f : nat -> A -> nat) (g : B -> bool) (sp : list B) lo l n :
  (forall i a, nth_error l i = Some a -> 1 <= f (n + i) a ->
     f (n + i) a = 1 /\ lo <= n + i /\ exists b, nth_error sp (n + i - lo) = Some b /\ g b = true) ->
  sumi f n l <= length (filter g (skipn (n - lo) sp)).
Proof.
  revert n; induction l as [|a l IH]; intros n H; simpl; [lia|].
  assert (IH' : sumi f (S n) l <= length (filter g (skipn (S n - lo) sp))).
  { apply IH. intros i b Hi Hb. pose proof (H (S i) b Hi) as H'. rewrite <- Nat.add_succ_comm in H'. exact (H' Hb). }
  assert (Hmono : forall k, length (filter g (skipn (S k) sp)) <= length (filter g (skipn k sp))).
  { clear. intros k. revert sp; induction k as [|k IHk]; intros sp.
    - destruct sp as [|b sp]; simpl; [lia|]. destruct (g b); simpl; lia.
    - destruct sp as [|b sp]; [simpl; lia|]. apply (IHk sp). }
  destruct (Nat.le_gt_cases 1 (f n a)) as [Hfa|Hfa].
  - specialize (H 0 a eq_refl). rewrite Nat.add_0_r in H. destruct (H Hfa) as (H1 & H2 & b & H3 & H4).
    replace (S n - lo) with (S (n - lo)) in IH' by lia.
    assert (E : skipn (n - lo) sp = b :: skipn (S (n - lo)) sp).
    { clear - H3. revert H3. generalize (n - lo). intros k. revert sp. induction k as [|k IHk]; intros [|c sp] H; simpl in *; try discriminate.
      - congruence.
      - apply (IHk sp H). }
    rewrite E. cbn [filter]. rewrite H4. cbn [length]. lia.
  - destruct (Nat.le_gt_cases lo n) as [Hl|Hl].
    + replace (S n - lo) with (S (n - lo)) in IH' by lia. specialize (Hmono (n - lo)). lia.
    + replace (S n - lo) with 0 in IH' by lia. replace (n - lo) with 0 by lia. lia.
Qed.

(** ** Counting occurrences *)
Definition eqn (a b : nat) : nat := if Nat.eqb a b then 1 else 0.

Fixpoint cnt (l : list nat) (x : nat) : nat :=
  match l with
  | [] => 0
  | a :: r => eqn a x + cnt r x
  end.

Lemma cnt_app l1 l2 x : cnt (l1 ++ l2) x = cnt l1 x + cnt l2 x.
Proof. induction l1 as [|a l IH]; simpl; [reflexivity|]. rewrite IH. lia. Qed.

Lemma cnt_In l x : In x l <-> 1 <= cnt l x.
Proof.
  induction l as [|a l IH]; simpl; [split; [tauto|lia]|]. unfold eqn.
  destruct (Nat.eqb_spec a x) as [->|Hne]; split; intros H; try lia; auto.
  - destruct H as [H|H]; [congruence|]. apply IH in H. lia.
  - right. apply IH. lia.
Qed.

Lemma cnt_NoDup l : (forall x, cnt l x <= 1) -> NoDup l.
Proof.
  induction l as [|a l IH]; intros H; constructor.
  - intros Hin. apply cnt_In in Hin. specialize (H a). simpl in H. unfold eqn in H. rewrite Nat.eqb_refl in H. lia.
  - apply IH. intros x. specialize (H x). simpl in H. lia.
Qed.

Lemma NoDup_cnt l x : NoDup l -> cnt l x <= 1.
Proof.
  induction 1 as [|a l Hn Hd IH]; simpl; [lia|]. unfold eqn.
  destruct (Nat.eqb_spec a x) as [->|Hne]; [|lia].
  assert (cnt l x = 0); [|lia]. destruct (cnt l x) eqn:E; [reflexivity|].
  exfalso. apply Hn. apply cnt_In. lia.
Qed.

Arguments eqn : simpl never.

Ltac eqn_lia :=
  unfold eqn in *;
  repeat match goal with
  | |- context [Nat.eqb ?a ?b] => destruct (Nat.eqb_spec a b)
  | H : context [Nat.eqb ?a ?b] |- _ => destruct (Nat.eqb_spec a b)
  end; try lia.

(** ** Tasks *)
Lemma nth_error_set_nth_eq {A} (l : list A) i d x : nth_error (set_nth l i d x) i = Some x.
Proof. revert l; induction i as [|i IH]; intros [|a l]; simpl; auto. Qed.

Lemma nth_error_set_nth_neq {A} (l : list A) i j d x :
  i <> j ->
  nth_error (set_nth l i d x) j =
  match nth_error l j with Some y => Some y | None => if Nat.ltb j i then Some d else None end.
Proof.
  revert l j; induction i as [|i IH]; intros l j Hne.
  - destruct j as [|j]; [congruence|]. destruct l as [|a l]; simpl.
    + destruct j; reflexivity.
    + destruct (nth_error l j); reflexivity.
  - destruct j as [|j].
    + destruct l; reflexivity.
    + destruct l as [|a l]; simpl.
      * rewrite IH by congruence. destruct j; reflexivity.
      * rewrite IH by congruence. reflexivity.
Qed.

Lemma get_task_set_same s id t : get_task (set_task s id t) id = Some t.
Proof. unfold get_task, set_task; simpl. rewrite nth_error_set_nth_eq. reflexivity. Qed.

Lemma get_task_set_other s id t id' : id <> id' -> get_task (set_task s id t) id' = get_task s id'.
Proof.
  intros H. unfold get_task, set_task; simpl. rewrite nth_error_set_nth_neq by assumption.
  destruct (nth_error (p_tasks s) id'); [reflexivity|]. destruct (id' <? id); reflexivity.
Qed.

Lemma get_task_set s id t id' :
  get_task (set_task s id t) id' = if Nat.eqb id id' then Some t else get_task s id'.
Proof.
  destruct (Nat.eqb_spec id id') as [->|H]; [apply get_task_set_same|apply get_task_set_other; exact H].
Qed.

Lemma get_task_tasks s s' id : p_tasks s' = p_tasks s -> get_task s' id = get_task s id.
Proof. unfold get_task. intros ->. reflexivity. Qed.

Definition has_task (s : pshared) (id : nat) : Prop := get_task s id <> None.

Lemma take_choice_eq s : take_choice s = (hd 0 (p_choices s), upd_choices s (tl (p_choices s))).
Proof. destruct s as [a b c d e f g h i j k l m n]. destruct n; reflexivity. Qed.

(** ** The select oracle picks a ready case *)
Lemma ready_cases_In conds k : In k (ready_cases conds) -> nth k conds false = true.
Proof.
  unfold ready_cases.
  assert (G : forall n, In k (map fst (filter snd (combine (seq n (length conds)) conds))) ->
                        n <= k /\ nth (k - n) conds false = true).
  { induction conds as [|b conds IH]; intros n H; simpl in H; [contradiction|].
    destruct b; simpl in H.
    - destruct H as [H|H].
      + subst. rewrite Nat.sub_diag. simpl. auto.
      + destruct (IH _ H) as [H1 H2]. split; [lia|]. replace (k - n) with (S (k - S n)) by lia. exact H2.
    - destruct (IH _ H) as [H1 H2]. split; [lia|]. replace (k - n) with (S (k - S n)) by lia. exact H2. }
  intros H. destruct (G 0 H) as [_ H2]. rewrite Nat.sub_0_r in H2. exact H2.
Qed.

Lemma pick_ready_In ready k c : pick_ready ready k = Some c -> In c ready.
Proof.
  unfold pick_ready. destruct ready as [|r0 ready]; [discriminate|]. apply nth_error_In.
Qed.

Lemma pick_ready_cond conds ch k : pick_ready (ready_cases conds) ch = Some k -> nth k conds false = true.
Proof. intros H. apply ready_cases_In. eapply pick_ready_In; eauto. Qed.

Lemma pick_ready_none conds ch : pick_ready (ready_cases conds) ch = None -> forall k, nth k conds false = false.
Proof.
  unfold pick_ready. intros H k.
  destruct (ready_cases conds) as [|r0 ready] eqn:E.
  - destruct (nth k conds false) eqn:Ek; [|reflexivity].
    exfalso. assert (Hin : In k (ready_cases conds)); [|rewrite E in Hin; exact Hin].
    unfold ready_cases.
    assert (G : forall n, nth k conds false = true -> In (n + k) (map fst (filter snd (combine (seq n (length conds)) conds)))).
    { clear. revert k. induction conds as [|b conds IH]; intros k n Hk; [destruct k; discriminate|].
      destruct k as [|k]; simpl in *.
      - subst b. simpl. left. lia.
      - specialize (IH k (S n) Hk). rewrite <- Nat.add_succ_comm. destruct b; simpl; auto. }
    apply (G 0 Ek).
  - exfalso. assert (Hlt : ch mod length (r0 :: ready) < length (r0 :: ready)) by (apply Nat.mod_upper_bound; simpl; lia).
    apply nth_error_None in H. lia.
Qed.

(** ** Tactics *)
Ltac find_inner x k :=
  lazymatch x with
  | context [match ?y with _ => _ end] => find_inner y k
  | _ => k x
  end.
Ltac break1 H :=
  match type of H with
  | context [match ?x with _ => _ end] => find_inner x ltac:(fun y => destruct y eqn:?; cbv beta iota in H)
  end.
Ltac eqb_clean :=
  repeat match goal with
  | H : Nat.eqb _ _ = true |- _ => apply Nat.eqb_eq in H
  | H : Nat.eqb _ _ = false |- _ => apply Nat.eqb_neq in H
  | H : Nat.ltb _ _ = true |- _ => apply Nat.ltb_lt in H
  | H : Nat.ltb _ _ = false |- _ => apply Nat.ltb_ge in H
  | H : Nat.leb _ _ = true |- _ => apply Nat.leb_le in H
  | H : Nat.leb _ _ = false |- _ => apply Nat.leb_gt in H
  | H : Z.eqb _ _ = true |- _ => apply Z.eqb_eq in H
  | H : Z.eqb _ _ = false |- _ => apply Z.eqb_neq in H
  | H : Z.ltb _ _ = true |- _ => apply Z.ltb_lt in H
  | H : Z.ltb _ _ = false |- _ => apply Z.ltb_ge in H
  | H : Z.leb _ _ = true |- _ => apply Z.leb_le in H
  | H : Z.leb _ _ = false |- _ => apply Z.leb_gt in H
  end.
Ltac destr_hyps :=
  repeat match goal with
  | H : _ /\ _ |- _ => destruct H
  | H : exists _, _ |- _ => destruct H
  end.

Ltac norm_bools :=
  repeat match goal with
  | E : ?b = true |- _ => progress (rewrite E in * )
  | E : ?b = false |- _ => progress (rewrite E in * )
  end.

Ltac goal_ifs :=
  repeat match goal with |- context [if ?b then _ else _] => destruct b eqn:? in * end.

Ltac hyp_ifs :=
  repeat match goal with H : context [if ?b then _ else _] |- _ => destruct b eqn:? in * end.

Ltac bool_clean :=
  repeat match goal with
  | H : _ || _ = false |- _ => apply orb_false_iff in H; destruct H
  | H : _ && _ = true |- _ => apply andb_true_iff in H; destruct H
  | H : negb _ = false |- _ => apply negb_false_iff in H
  | H : negb _ = true |- _ => apply negb_true_iff in H
  end.

Ltac ar :=
  goal_ifs; destr_hyps; repeat split; intros;
  first [ lia | assumption | congruence
        | repeat match goal with H : ?A -> _ |- _ => let HA := fresh in assert (HA : A) by lia; specialize (H HA) end;
          destr_hyps; first [lia | congruence | assumption | exfalso; lia] ].
