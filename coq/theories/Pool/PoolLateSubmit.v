(** Safety of the worker pool, part 10: a submission that starts after the
    effective Stop has returned is refused (closed flag): it is never queued,
    never executed, and gets exactly one cancellation result (C08, C12). *)
From Coq Require Import List Arith Bool ZArith Lia.
From Garr Require Import Conc.Conc Pure.F64 Queue.MutexModel Pool.PoolModel Pool.PoolBase Pool.PoolInv1 Pool.PoolTok
  Pool.PoolStop Pool.PoolStopMain Pool.PoolWg Pool.PoolCap Pool.PoolMain Pool.PoolStopDone Pool.PoolAcct Pool.PoolHist
  Pool.PoolAfterStop.
Import ListNotations.

(* the pcs of a submission that finds the pool closed *)
Definition closed_pc (l : ppc) : bool :=
  match l with
  | SubRLock _ _ | SubClosedFut _ _ | SubRUnlock KDo | SubRUnlock (KTry false) => true
  | _ => false
  end.

Lemma closed_pc_step nw lim o l s l' s' x :
  opc_ok o l -> sub_id o = Some x -> closed_pc l = true \/ l = PInv o -> p_closedflag s = true ->
  pstep nw lim l s = Next l' s' -> closed_pc l' = true.
Proof.
  intros Ho Hs Hc Hcf H. destruct Hc as [Hc| ->].
  - destruct l; try discriminate Hc.
    + simpl in H. unfold rlock in H. destruct (rw_writer (p_lock s)); [discriminate|]. rewrite Hcf in H.
      unfold goto in H. injection H as <- _. reflexivity.
    + simpl in H. unfold future_send, after_sub, goto in H.
      destruct (get_task s id); [|discriminate]. destruct (length (tk_future t) <? 1); [|discriminate].
      injection H as <- _. destruct try; reflexivity.
    + simpl in H. unfold fin in H. discriminate.
  - destruct o; try discriminate Hs; simpl in H; unfold goto in H; injection H as <- _; reflexivity.
Qed.

Section Late.
Variable nw : nat.
Variable lim : Z.
Variable nc : nat.
Variable ndo : nat.
Notation M := (pool nw lim).

Record After (x : nat) (c : pconfig) (tr : list pevent) : Prop := {
  a_hist : Hist nw nc ndo c tr;
  a_done : stop_done_abs (c_sh c) (aths c);
  a_D : Dx c tr x = 1;
  a_ex : exq (c_sh c) x = None \/ exq (c_sh c) x = Some 0;
  a_pc : forall i th o l, nth_error (c_thr c) i = Some th -> t_cur th = Some (o, l) -> sub_id o = Some x -> closed_pc l = true;
  a_ret : forall i o r, In (ERet i o r) tr -> sub_id o = Some x -> r = PU \/ r = PB false
}.

Generalizable All Variables.

Lemma After_step x `(HA : After x c tr) `(SD : sdata nw lim nc ndo c t c' e th o l pr out fresh th') :
  After x c' (tr ++ e).
Proof.
  destruct HA as [HH Hsd HD Hex Hpc Hret].
  pose proof (Hist_I1 _ _ _ HH) as HI1. pose proof (Hist_IS _ _ _ HH) as HIS.
  assert (HI3 : Inv3 nw ndo (c_sh c) (aths c)) by (destruct HH as [[(_ & _ & H3 & _) _] _ _ _ _ _ _]; exact H3).
  destruct (stop_done_drained _ _ _ HI1 HIS Hsd) as (_ & _ & _ & Hcf & _ & _ & Hop).
  pose proof (sd_ok _ _ _ _ _ _ _ _ _ _ _ _ _ _ _ SD) as Hok.
  pose proof (sd_out _ _ _ _ _ _ _ _ _ _ _ _ _ _ _ SD) as Hp.
  pose proof (sd_a _ _ _ _ _ _ _ _ _ _ _ _ _ _ _ SD) as Hn.
  constructor.
  - apply (Hist_step _ _ _ _ HH SD).
  - rewrite (sd_sh _ _ _ _ _ _ _ _ _ _ _ _ _ _ _ SD), (sd_aths _ _ _ _ _ _ _ _ _ _ _ _ _ _ _ SD).
    eapply (stop_done_step nw lim nc); [exact HI1|exact Hsd|exact Hn|apply (sd_v _ _ _ _ _ _ _ _ _ _ _ _ _ _ _ SD)|].
    apply astep_of_out; assumption.
  - pose proof (sd_D _ _ _ _ HH SD x) as E.
    assert (Hl : match out with Next _ _ => lossf l out x | _ => 0 end = 0); [|lia].
    destruct out as [l' s'| | |]; try reflexivity.
    destruct (lossf l (Next l' s') x) eqn:El; [reflexivity|exfalso].
    assert (Hl : l = SubTryDoSel x).
    { destruct l; simpl in El; try discriminate El. destruct l'; try discriminate El. destruct k; try discriminate El.
      destruct added; try discriminate El. unfold eqn in El. destruct (Nat.eqb_spec id x); [congruence|discriminate]. }
    assert (Hf : fresh = false) by (apply (sd_notfresh_pc _ _ _ _ HH SD); intros o' Ho'; rewrite Hl in Ho'; discriminate Ho').
    rewrite (sd_abs_notfresh _ _ _ _ HH SD Hf), Hl in Hn.
    pose proof (cntp_ge is_open _ _ _ Hn) as Hg. unfold pcf in Hg. simpl in Hg. lia.
  - rewrite (sd_sh _ _ _ _ _ _ _ _ _ _ _ _ _ _ _ SD).
    destruct (exq_changer l x) eqn:Ec.
    + rewrite (exq_step nw lim (c_sh c) l out x Hp Hok Ec). exact Hex.
    + destruct fresh eqn:Ef.
      * destruct (sd_abs_fresh _ _ _ _ HH SD eq_refl) as [_ El]. rewrite El in Ec, Hp. simpl in Ec.
        destruct (sub_id o) as [y|] eqn:Es; simpl in Ec; [|discriminate].
        unfold eqn in Ec. destruct (Nat.eqb_spec y x) as [->|]; [|discriminate].
        right. eapply exq_invoke; eauto.
      * exfalso. rewrite (sd_abs_notfresh _ _ _ _ HH SD eq_refl) in Hn.
        destruct (quiet_no_worker nw nc ndo _ _ HI1 HI3 HIS Hsd _ _ _ Hn) as [Hw _].
        destruct l; simpl in Ec; try discriminate Ec; try discriminate Hw.
        eapply (sd_np _ _ _ _ _ _ _ _ _ _ _ _ _ _ _ SD). rewrite (sd_abs_notfresh _ _ _ _ HH SD eq_refl). reflexivity.
  - intros i thi oi li Hi Hc Hs. rewrite (sd_nth _ _ _ _ HH SD) in Hi. destruct (Nat.eqb_spec t i) as [<-|Hne].
    + injection Hi as <-. rewrite (sd_cur' _ _ _ _ _ _ _ _ _ _ _ _ _ _ _ SD) in Hc.
      destruct out as [l' s'| | |]; try discriminate Hc. simpl in Hc. injection Hc as <- <-.
      eapply (closed_pc_step nw lim o l (c_sh c) l' s' x); [apply (sd_opc _ _ _ _ HH SD)|exact Hs| |exact Hcf|exact Hp].
      pose proof (sd_cur _ _ _ _ _ _ _ _ _ _ _ _ _ _ _ SD) as Hcur. destruct fresh.
      * right. tauto.
      * left. destruct Hcur as [Hcur _]. eapply Hpc; [apply (sd_n _ _ _ _ _ _ _ _ _ _ _ _ _ _ _ SD)|exact Hcur|exact Hs].
    + eapply Hpc; eauto.
  - intros i o' r Hin Hs. apply in_app_or in Hin. destruct Hin as [Hin|Hin]; [eapply Hret; eauto|].
    destruct (sd_sub_returns _ _ _ _ HH SD _ _ _ _ Hin Hs) as (k & (j & thj & oj & Hj & Hcj & Hsj) & ->).
    pose proof (Hpc _ _ _ _ Hj Hcj Hsj) as Hk. destruct k as [|[|]]; try discriminate Hk; auto.
Qed.

Lemma After_preserved x c tr t c' e : After x c tr -> step_thread M c t = Some (c', e) -> After x c' (tr ++ e).
Proof.
  intros HA Hs.
  destruct (step_good nw lim nc ndo c t c' e (h_good _ _ _ _ _ (a_hist _ _ _ HA)) Hs) as (th & o & l & pr & out & fresh & th' & SD).
  apply (After_step x HA SD).
Qed.

(* the starting point: the effective Stop has returned and the submission of x has not been invoked yet *)
Lemma After_start x c tr j th o :
  Hist nw nc ndo c tr -> stop_done c ->
  nth_error (c_thr c) j = Some th -> In o (t_prog th) -> sub_id o = Some x ->
  After x c tr.
Proof.
  intros HH Hsd Hj Hin Hs. apply stop_done_iff in Hsd.
  pose proof (Hist_I2 _ _ _ HH) as HI2.
  pose proof (aths_nth _ _ _ Hj) as Hja.
  assert (Hpend : 1 <= cnt (subids (t_prog th)) x).
  { apply cnt_In. unfold subids. apply in_flat_map. exists o. split; [exact Hin|]. rewrite Hs. left. reflexivity. }
  assert (Hhj : cnt (subids (t_prog th)) x <= hsub x (abs_th th)) by (unfold hsub, abs_th; simpl; lia).
  pose proof (Hsub_ge x _ _ _ Hja) as Hg.
  pose proof (Hsub_le_H0 x (aths c)) as Hle.
  pose proof (t_tok _ _ HI2 x) as Ht. pose proof (h_one _ _ _ _ _ HH x) as H1. unfold Dx in H1. unfold tokens in Ht, H1.
  assert (Hsub1 : Hsub x (aths c) = 1) by lia.
  constructor; auto.
  - unfold Dx, tokens. lia.
  - unfold exq. destruct (get_task (c_sh c) x) as [tk|] eqn:Eg; [|left; reflexivity]. right.
    destruct (t_ex _ _ HI2 x tk Eg) as (_ & T2 & _). rewrite T2; [reflexivity|lia].
  - intros i thi oi li Hi Hc Hsi. exfalso.
    pose proof (h_opc _ _ _ _ _ HH _ _ _ _ Hi Hc) as Ho.
    pose proof (aths_nth _ _ _ Hi) as Hia.
    assert (Hcase : toks li = Some x \/ exists k, li = SubRUnlock k).
    { destruct li; simpl in Ho; try (left; simpl; congruence); try (right; eauto; fail);
        try (destruct Ho; congruence); try (subst oi; discriminate Hsi).
      exfalso. pose proof (Hist_I1 _ _ _ HH) as HI1. eapply (stored_not_inv nc); [exact HI1| |reflexivity].
      unfold abs_th in Hia. rewrite Hc in Hia. exact Hia. }
    destruct Hcase as [Htk|[k ->]].
    + assert (Hhi : hsub x (abs_th thi) = cnt (subids (t_prog thi)) x + 1).
      { unfold hsub, abs_th. rewrite Hc. simpl. rewrite Htk. simpl. rewrite eqn_refl. reflexivity. }
      destruct (Nat.eq_dec i j) as [->|Hne].
      * rewrite Hj in Hi. injection Hi as <-. lia.
      * pose proof (sumi_ge2 (fun _ a => hsub x a) 0 (aths c) i j _ _ Hia Hja Hne) as H2. simpl in H2.
        unfold Hsub in Hsub1. lia.
    + assert (Hz : Hsub x (aths c) = 0); [|lia].
      apply (h_ret _ _ _ _ _ HH). left. exists k, i, thi, oi. auto.
  - intros i o' r Hin' Hs'. exfalso.
    assert (Hz : Hsub x (aths c) = 0); [|lia].
    apply (h_ret _ _ _ _ _ HH). right. exists i, o', r. auto.
Qed.

End Late.

Section Main.
Variable nw : nat.
Variable lim : Z.
Variables (autostart : bool) (choices : list nat) (clients : list (list pop)) (nslots : nat).
Hypothesis Hok : clients_ok clients.
Notation M := (pool nw lim).
Notation nc := (length clients).
Notation ndo := (cntdo (concat clients)).
Notation cfg0 := (pool_cfg nw autostart choices clients nslots).

Variables sched1 sched2 : list nat.
Let c1 := final M cfg0 sched1.
Let tr1 := trace M cfg0 sched1.
Let c2 := final M c1 sched2.
Let tr := tr1 ++ trace M c1 sched2.

Lemma two_phase : c2 = final M cfg0 (sched1 ++ sched2) /\ tr = trace M cfg0 (sched1 ++ sched2).
Proof. unfold c2, tr, c1, tr1. rewrite final_app, trace_app. auto. Qed.

(** [submission_after_stop_refused]: in [c1] the effective Stop has returned and thread [j] still has
    the submission [o] of task [x] in its program; then in every later configuration [c2]:
    Stop is still done, x is not in the queue and no worker or drain holds it, x has never been
    executed; the call never returns "true" (TryDo); and once the call has returned, x has exactly
    one result, the cancellation result. *)
Theorem submission_after_stop_refused j th o x :
  stop_done c1 -> nth_error (c_thr c1) j = Some th -> In o (t_prog th) -> sub_id o = Some x ->
  stop_done c2 /\
  p_queue (c_sh c2) = [] /\ Hwk x (aths c2) = 0 /\ Hdr x (aths c2) = 0 /\ H1 x (aths c2) = 0 /\
  (forall t, get_task (c_sh c2) x = Some t -> tk_execs t = 0) /\
  (forall i o' r, In (ERet i o' r) tr -> sub_id o' = Some x -> r = PU \/ r = PB false) /\
  (returned x tr ->
     exists t, get_task (c_sh c2) x = Some t /\ results c2 tr x = [TCanceled] /\ tk_execs t = 0).
Proof.
  intros Hsd Hj Hin Hs.
  pose proof (Hist_reach nw lim autostart choices clients nslots Hok sched1) as HH1. fold c1 tr1 in HH1.
  pose proof (After_start nw nc ndo x c1 tr1 j th o HH1 Hsd Hj Hin Hs) as HA1.
  assert (HA2 : After nw nc ndo x c2 tr).
  { unfold c2, tr. apply (hist_invariant nw lim (After nw nc ndo x)); [|exact HA1].
    intros c tr0 t c' e. apply After_preserved. }
  destruct HA2 as [HH Hsd2 HD Hex Hpc Hret].
  assert (Hsd2' : stop_done c2) by (apply stop_done_iff; exact Hsd2).
  destruct (after_stop_state nw clients c2 tr HH Hsd2') as (Hqe & _ & _ & _ & _ & _ & _ & _ & Hno).
  destruct (Hno x) as (Hh1 & Hw & Hd).
  assert (Hexec : forall t, get_task (c_sh c2) x = Some t -> tk_execs t = 0).
  { intros t Hg. unfold exq in Hex. rewrite Hg in Hex. destruct Hex as [Hex|Hex]; [discriminate|congruence]. }
  split; [exact Hsd2'|]. split; [exact Hqe|]. split; [exact Hw|]. split; [exact Hd|]. split; [exact Hh1|].
  split; [exact Hexec|]. split; [exact Hret|].
  intros Hr.
  pose proof (h_ret _ _ _ _ _ HH x (or_intror Hr)) as Hz.
  pose proof (H_split x (aths c2)) as Hsp.
  pose proof (futlen_results c2 tr x) as Hfl.
  unfold Dx, tokens in HD. rewrite Hqe in HD. simpl in HD.
  destruct (results_ok nw clients c2 tr HH x) as [_ Hrok].
  destruct (results c2 tr x) as [|r [|r' rest]] eqn:Er; simpl in Hfl; try lia.
  destruct (Hrok r (or_introl eq_refl)) as (t & Hg & Hres & _).
  exists t. split; [exact Hg|]. pose proof (Hexec t Hg) as H0. split; [|exact H0].
  destruct r as [i|]; [|reflexivity]. simpl in Hres. lia.
Qed.

End Main.

Print Assumptions submission_after_stop_refused.

(** [stop_done] is stable: once the effective Stop has returned it has returned for ever *)
Section Stable.
Variable nw : nat.
Variable lim : Z.
Variables (autostart : bool) (choices : list nat) (clients : list (list pop)) (nslots : nat).
Hypothesis Hok : clients_ok clients.
Notation M := (pool nw lim).
Notation cfg0 := (pool_cfg nw autostart choices clients nslots).

Theorem stop_done_stable sched1 sched2 :
  stop_done (final M cfg0 sched1) -> stop_done (final M (final M cfg0 sched1) sched2).
Proof.
  intros Hsd.
  pose proof (Hist_reach nw lim autostart choices clients nslots Hok sched1) as HH1.
  set (nc := length clients) in *. set (ndo := cntdo (concat clients)) in *.
  assert (Hstep : forall c tr t c' e, Hist nw nc ndo c tr /\ stop_done_abs (c_sh c) (aths c) ->
            step_thread M c t = Some (c', e) -> Hist nw nc ndo c' (tr ++ e) /\ stop_done_abs (c_sh c') (aths c')).
  { intros c tr t c' e [HH Hs] Hst.
    destruct (step_good nw lim nc ndo c t c' e (h_good _ _ _ _ _ HH) Hst) as (th & o & l & pr & out & fresh & th' & SD).
    split; [apply (Hist_step _ _ _ _ HH SD)|].
    rewrite (sd_sh _ _ _ _ _ _ _ _ _ _ _ _ _ _ _ SD), (sd_aths _ _ _ _ _ _ _ _ _ _ _ _ _ _ _ SD).
    eapply (stop_done_step nw lim nc); [exact (Hist_I1 _ _ _ HH)|exact Hs|apply (sd_a _ _ _ _ _ _ _ _ _ _ _ _ _ _ _ SD)|apply (sd_v _ _ _ _ _ _ _ _ _ _ _ _ _ _ _ SD)|].
    apply astep_of_out; [apply (sd_out _ _ _ _ _ _ _ _ _ _ _ _ _ _ _ SD)|apply (sd_ok _ _ _ _ _ _ _ _ _ _ _ _ _ _ _ SD)]. }
  destruct (hist_invariant nw lim _ Hstep sched2 (final M cfg0 sched1) (trace M cfg0 sched1)) as [_ H2].
  - split; [exact HH1|apply stop_done_iff; exact Hsd].
  - apply stop_done_iff. exact H2.
Qed.

End Stable.

Print Assumptions stop_done_stable.
