(** Safety of the worker pool, part 4: parallelism is capped (C11). *)
From Coq Require Import List Arith Bool ZArith Lia.
From Garr Require Import Conc.Conc Pure.F64 Queue.MutexModel Pool.PoolModel Pool.PoolBase Pool.PoolInv1 Pool.PoolTok Pool.PoolStop.
Import ListNotations.

(* pcs of a fixed worker / of an expanded worker *)
Definition fixpc (l : ppc) : bool :=
  match l with
  | WRecv | WDone | EBegin 0 _ | EGate 0 _ | EEnd 0 _ | EFut 0 _ => true
  | _ => false
  end.
Definition exppc (l : ppc) : bool :=
  match l with
  | XNewTimer | XSelect _ | XStopTimer _ _ | XDrainTimer _ _ | XReset _ | XExitDec | XExitDone
  | EBegin (S _) _ | EGate (S _) _ | EEnd (S _) _ | EFut (S _) _ => true
  | _ => false
  end.
Definition is_xdone (l : ppc) : bool := match l with XExitDone => true | _ => false end.
(* an expanded worker that has not yet decremented p.expanded *)
Definition is_predec (l : ppc) : bool := exppc l && negb (is_xdone l).
Definition is_wgadd (l : ppc) : bool := match l with SubWgAdd _ => true | _ => false end.
Definition is_subsub (l : ppc) : bool := match l with SubSubExp _ => true | _ => false end.
Definition is_aess (l : ppc) : bool := match l with SubAddExp _ | SubSubExp _ => true | _ => false end.
Definition is_exec (l : ppc) : bool := match l with EGate _ _ | EEnd _ _ => true | _ => false end.

Definition roleE (s : pshared) (k : nat) : nat :=
  match nth_error (p_spawned s) k with Some RExpanded => 1 | _ => 0 end.

Definition role_ok (nc : nat) (s : pshared) (i : nat) (a : ath) : Prop :=
  match snd a with
  | Some l => (fixpc l = true -> nth_error (p_spawned s) (i - nc) = Some RWorker) /\
              (exppc l = true -> nth_error (p_spawned s) (i - nc) = Some RExpanded)
  | None => True
  end.

(* expanded workers that have decremented p.expanded (at XExitDone, or finished) *)
Definition fD (nc : nat) (s : pshared) (i : nat) (a : ath) : nat :=
  if nc <=? i then
    match snd a with
    | Some l => if is_xdone l then 1 else 0
    | None => match fst a with [] => roleE s (i - nc) | _ => 0 end
    end
  else 0.
Definition nD (nc : nat) (s : pshared) (ps : list ath) : nat := sumi (fD nc s) 0 ps.

Record Inv4 (nc : nat) (lim : Z) (s : pshared) (ps : list ath) : Prop := {
  r_role : forall i a, nth_error ps i = Some a -> role_ok nc s i a;
  r_e1 : (p_expanded s + Z.of_nat (nD nc s ps) = Z.of_nat (nRE s + cntp is_wgadd ps + cntp is_subsub ps))%Z;
  r_e2 : (Z.of_nat (nRE s + cntp is_wgadd ps) <= lim + Z.of_nat (nD nc s ps))%Z
}.

Lemma wrap32_small z : (- 2 ^ 31 <= z < 2 ^ 31)%Z -> wrap32 z = z.
Proof.
  intros H. unfold wrap32. rewrite Z.mod_small; lia.
Qed.

Section Inv4.
Variable nw : nat.
Variable lim : Z.
Variable nc : nat.
Hypothesis Hlim0 : (0 <= lim)%Z.
Hypothesis Hlim : (lim + Z.of_nat nc < 2 ^ 31)%Z.

Lemma role_ok_mono s s' i a : sle s s' -> role_ok nc s i a -> role_ok nc s' i a.
Proof.
  intros (_ & _ & l & E). unfold role_ok. destruct (snd a) as [pc|]; [|auto].
  intros [H1 H2]. rewrite E. split; intros H.
  - specialize (H1 H). rewrite nth_error_app1; [exact H1|]. eapply nth_error_lt; eauto.
  - specialize (H2 H). rewrite nth_error_app1; [exact H2|]. eapply nth_error_lt; eauto.
Qed.

Lemma nD_sle s s' ps :
  sle s s' -> (forall i a, nth_error ps i = Some a -> wf nc s i a) -> nD nc s' ps = nD nc s ps.
Proof.
  intros (_ & _ & l & E) Hwf. unfold nD. apply sumi_ext. intros i a Hi. simpl. unfold fD.
  destruct (Nat.leb_spec nc i) as [Hle|Hgt]; [|reflexivity].
  destruct (snd a) eqn:Es; [reflexivity|]. destruct (fst a) eqn:Ef; [|reflexivity].
  specialize (Hwf i a Hi). unfold wf in Hwf. rewrite Es, Ef in Hwf.
  assert (Hltb : (i <? nc) = false) by (apply Nat.ltb_ge; exact Hle). rewrite Hltb in Hwf.
  destruct Hwf as [Hf|[_ Hf]]; [discriminate|].
  unfold roleE. rewrite E. rewrite nth_error_app1 by exact Hf. reflexivity.
Qed.

Lemma nD_upd s ps t a a' : nth_error ps t = Some a -> nD nc s (upd ps t a') + fD nc s t a = nD nc s ps + fD nc s t a'.
Proof. intros H. apply (sumi_upd (fD nc s) 0 ps t a a' H). Qed.

(* client threads at SubAddExp / SubSubExp *)
Lemma aess_bound s ps : (forall i a, nth_error ps i = Some a -> wf nc s i a) -> cntp is_aess ps <= nc.
Proof.
  intros Hwf. unfold cntp.
  pose proof (sumi_bound (fun (_ : nat) a => pcf is_aess a) (fun b : bool => b) (repeat true nc) 0 ps 0) as H.
  simpl in H.
  assert (E : length (filter (fun b : bool => b) (repeat true nc)) = nc) by (clear; induction nc; simpl; auto).
  rewrite E in H. apply H. clear H E. intros i a Hi H1. specialize (Hwf i a Hi). unfold wf, pcf in *.
  destruct (snd a) as [l|]; [|lia]. destruct (is_aess l) eqn:El; [|lia].
  split; [reflexivity|]. split; [lia|]. exists true. split; [|reflexivity]. rewrite Nat.sub_0_r.
  destruct (Nat.ltb_spec i nc) as [Hlt|Hge].
  - apply nth_error_repeat. exact Hlt.
  - exfalso. destruct Hwf as (_ & Hw & _). destruct l; discriminate.
Qed.

(* running or dead expanded workers are distinct spawned RExpanded goroutines *)
Lemma expanded_bound s ps :
  (forall i a, nth_error ps i = Some a -> wf nc s i a) ->
  (forall i a, nth_error ps i = Some a -> role_ok nc s i a) ->
  cntp is_predec ps + nD nc s ps <= nRE s.
Proof.
  intros Hwf Hro. unfold cntp, nD, nRE. rewrite <- sumi_plus.
  pose proof (sumi_bound (fun i a => pcf is_predec a + fD nc s i a) is_re (p_spawned s) nc ps 0) as H.
  simpl in H. apply H. clear H. intros i a Hi H1.
  specialize (Hwf i a Hi). specialize (Hro i a Hi). unfold wf, role_ok, pcf, fD, is_predec in *.
  destruct (snd a) as [l|] eqn:Es.
  - destruct (Nat.ltb_spec i nc) as [Hlt|Hge].
    + exfalso. destruct Hwf as (_ & Hc & _). assert (Hl : (nc <=? i) = false) by (apply Nat.leb_gt; exact Hlt).
      rewrite Hl in H1. destruct l; simpl in *; try discriminate; try lia; destruct tm; simpl in *; try discriminate; lia.
    + assert (Hl : (nc <=? i) = true) by (apply Nat.leb_le; exact Hge). rewrite Hl in *.
      assert (He : exppc l = true).
      { destruct (exppc l) eqn:E; [reflexivity|]. simpl in H1. destruct l; simpl in *; try lia; discriminate. }
      split; [|split; [exact Hge|exists RExpanded; split; [apply Hro; exact He|reflexivity]]].
      rewrite He. simpl. destruct (is_xdone l); simpl; lia.
  - destruct (Nat.leb_spec nc i) as [Hle|Hgt]; [|simpl in H1; lia].
    destruct (fst a); [|simpl in H1; lia]. simpl in *. unfold roleE in *.
    destruct (nth_error (p_spawned s) (i - nc)) as [[|]|] eqn:E; try lia.
    split; [reflexivity|]. split; [exact Hle|]. exists RExpanded. auto.
Qed.

Definition is_addexp (l : ppc) : bool := match l with SubAddExp _ => true | _ => false end.

Lemma aess_split ps : cntp is_aess ps = cntp is_addexp ps + cntp is_subsub ps.
Proof.
  unfold cntp. rewrite <- sumi_plus. apply sumi_ext. intros i a _. unfold pcf.
  destruct (snd a) as [l|]; [|reflexivity]. destruct l; reflexivity.
Qed.

Ltac role_cur Hfix Hexp :=
  unfold role_ok; simpl;
  split; (let Hx := fresh "Hx" in intros Hx; try discriminate Hx;
          rewrite ?nth_error_app1 by (eapply nth_error_lt; first [apply Hfix | apply Hexp | eassumption]; reflexivity);
          first [apply Hfix; reflexivity | apply Hexp; reflexivity | assumption | eassumption]).

Ltac inv4_fields t Hn Hsle Rro Hfix Hexp :=
  constructor; unfold nRE in *; simpl;
  lazymatch goal with
  | |- forall i a, nth_error _ i = Some a -> _ =>
      let ii := fresh "ii" in let aa := fresh "aa" in let Hi := fresh "Hi" in let Hne := fresh "Hne" in
      intros ii aa Hi; rewrite nth_error_upd in Hi; destruct (Nat.eqb_spec t ii) as [<-|Hne];
      [rewrite Hn in Hi; injection Hi as <-; first [exact I | role_cur Hfix Hexp]
      |eapply role_ok_mono; [exact Hsle|apply Rro; exact Hi]]
  | |- _ => rewrite ?filter_length_app, ?filter_re_repeat; simpl; rewrite ?wrap32_small by lia; try lia
  end.

Lemma Inv4_next s ps t a l pr cur s' :
  Inv1 nc s ps -> Inv4 nc lim s ps -> nth_error ps t = Some a -> a_view a = Some (l, pr) ->
  astep nw lim l s = RNext cur s' -> Inv4 nc lim s' (upd ps t (pr, cur)).
Proof.
  intros HI1 HI4 Hn Hv H.
  pose proof (astep_sle _ _ _ _ _ _ H) as Hsle.
  pose proof (i_wf _ _ _ HI1 _ _ Hn) as Hwf.
  pose proof (aess_bound _ _ (i_wf _ _ _ HI1)) as Hae. rewrite aess_split in Hae.
  destruct HI4 as [Rro Re1 Re2].
  pose proof (expanded_bound _ _ (i_wf _ _ _ HI1) Rro) as Heb.
  pose proof (nD_sle _ _ _ Hsle (i_wf _ _ _ HI1)) as HD.
  pose proof (Rro _ _ Hn) as Hro.
  assert (Hk : (nc <=? t) = negb (t <? nc)).
  { destruct (Nat.leb_spec nc t), (Nat.ltb_spec t nc); simpl; try reflexivity; lia. }
  destruct a as [prog [l0|]]; unfold a_view in Hv; simpl in Hv.
  - injection Hv as <- <-. unfold wf in Hwf; simpl in Hwf. unfold role_ok in Hro; simpl in Hro.
    destruct Hro as [Hfix Hexp].
    destruct l0.
    all: match type of Hn with
         | context [EBegin ?tm _] => destruct tm | context [EGate ?tm _] => destruct tm
         | context [EEnd ?tm _] => destruct tm | context [EFut ?tm _] => destruct tm | _ => idtac end.
    all: step_cases H.
    all: match goal with |- Inv4 _ _ ?s' (upd ?ps ?t ?a') =>
      pose proof (nD_upd s' ps t _ a' Hn) as ED;
      pose proof (cntp_upd is_wgadd ps t _ a' Hn) as Ewg;
      pose proof (cntp_upd is_subsub ps t _ a' Hn) as Ess;
      pose proof (cntp_ge is_addexp ps t _ Hn) as Gae;
      pose proof (cntp_ge is_subsub ps t _ Hn) as Gss
    end.
    all: unfold pcf, fD in ED, Ewg, Ess, Gae, Gss; simpl in ED, Ewg, Ess, Gae, Gss, Hfix, Hexp.
    all: rewrite Hk in *; destruct (t <? nc) eqn:Et; simpl in Hwf, ED; destr_hyps; try discriminate; subst.
    all: try specialize (Hfix eq_refl); try specialize (Hexp eq_refl).
    all: unfold roleE in ED; simpl in ED; 
      try (match type of Hfix with nth_error _ _ = _ => rewrite Hfix in ED end);
      try (match type of Hexp with nth_error _ _ = _ => rewrite Hexp in ED end); try rewrite HD in ED.
    all: eqb_clean; rewrite ?wrap32_small in * by lia.
    all: inv4_fields t Hn Hsle Rro Hfix Hexp.
  - destruct prog as [|o pr0]; [discriminate|]. injection Hv as <- <-. unfold wf in Hwf; simpl in Hwf.
    assert (Hfix : True) by exact I. assert (Hexp : True) by exact I.
    destruct o.
    all: step_cases H.
    all: match goal with |- Inv4 _ _ ?s' (upd ?ps ?t ?a') =>
      pose proof (nD_upd s' ps t _ a' Hn) as ED;
      pose proof (cntp_upd is_wgadd ps t _ a' Hn) as Ewg;
      pose proof (cntp_upd is_subsub ps t _ a' Hn) as Ess
    end.
    all: unfold pcf, fD in ED, Ewg, Ess; simpl in ED, Ewg, Ess.
    all: rewrite Hk in *; destruct (t <? nc) eqn:Et; simpl in Hwf, ED.
    all: try (apply Forall_cons_iff in Hwf; destruct Hwf as [Hc Hwf]; simpl in Hc; try discriminate Hc).
    all: try (match type of Hwf with _ \/ _ => destruct Hwf as [Hwf|[Hwf ?]]; [|discriminate Hwf]; try discriminate Hwf; injection Hwf as -> -> end).
    all: try rewrite HD in ED.
    all: inv4_fields t Hn Hsle Rro Hfix Hexp.
Qed.

Definition exec0 (l : ppc) : bool := match l with EGate 0 _ | EEnd 0 _ => true | _ => false end.
Definition execE (l : ppc) : bool := match l with EGate (S _) _ | EEnd (S _) _ => true | _ => false end.

Lemma exec_split ps : cntp is_exec ps = cntp exec0 ps + cntp execE ps.
Proof.
  unfold cntp. rewrite <- sumi_plus. apply sumi_ext. intros i a _. unfold pcf.
  destruct (snd a) as [l|]; [|reflexivity]. destruct l; try reflexivity; destruct tm; reflexivity.
Qed.

(* executing fixed workers are distinct spawned RWorker goroutines *)
Lemma fixed_bound s ps :
  (forall i a, nth_error ps i = Some a -> wf nc s i a) ->
  (forall i a, nth_error ps i = Some a -> role_ok nc s i a) ->
  cntp exec0 ps <= nRW s.
Proof.
  intros Hwf Hro. unfold cntp, nRW.
  pose proof (sumi_bound (fun (_ : nat) a => pcf exec0 a) is_rw (p_spawned s) nc ps 0) as H.
  simpl in H. apply H. clear H. intros i a Hi H1.
  specialize (Hwf i a Hi). specialize (Hro i a Hi). unfold wf, role_ok, pcf in *.
  destruct (snd a) as [l|] eqn:Es; [|lia]. destruct (exec0 l) eqn:El; [|lia].
  assert (Hf : fixpc l = true) by (destruct l; try discriminate El; destruct tm; try discriminate El; reflexivity).
  assert (Hw : worker_pc l = true) by (destruct l; try discriminate El; reflexivity).
  split; [reflexivity|]. destruct (Nat.ltb_spec i nc) as [Hlt|Hge].
  - exfalso. destruct Hwf as (_ & Hc & _). unfold client_pc in Hc. rewrite Hw in Hc. destruct l; discriminate.
  - split; [exact Hge|]. exists RWorker. split; [apply Hro; exact Hf|reflexivity].
Qed.

Lemma cap_from_inv nwk ndo s ps :
  Inv1 nc s ps -> Inv3 nwk ndo s ps -> Inv4 nc lim s ps -> cntp is_exec ps <= nwk + Z.to_nat lim.
Proof.
  intros HI1 HI3 [Rro Re1 Re2].
  pose proof (fixed_bound _ _ (i_wf _ _ _ HI1) Rro) as Hf.
  pose proof (expanded_bound _ _ (i_wf _ _ _ HI1) Rro) as He.
  pose proof (k_rw _ _ _ _ HI3) as Krw.
  assert (Hle : cntp execE ps <= cntp is_predec ps).
  { apply cntp_le. intros l Hl. destruct l; try discriminate Hl; destruct tm; try discriminate Hl; reflexivity. }
  rewrite exec_split. lia.
Qed.

End Inv4.

Lemma nD_ps0 clients nslots s : nD (length clients) s (ps0 clients nslots) = 0.
Proof.
  unfold nD. apply sumi_all_zero. intros i a Hi. apply ps0_nth in Hi. simpl. unfold fD.
  destruct Hi as [(Hlt & q & _ & ->)|(Hge & _ & ->)].
  - destruct (Nat.leb_spec (length clients) i); [lia|reflexivity].
  - destruct (length clients <=? i); reflexivity.
Qed.

Lemma Inv4_init nw lim autostart choices clients nslots :
  (0 <= lim)%Z -> Inv4 (length clients) lim (pinit nw autostart choices) (ps0 clients nslots).
Proof.
  intros Hl. constructor.
  - intros i a Hi. apply ps0_nth in Hi. destruct Hi as [(_ & q & _ & ->)|(_ & _ & ->)]; exact I.
  - rewrite nD_ps0, !cntp_ps0. unfold nRE, pinit. destruct autostart; simpl; rewrite ?filter_re_repeat; reflexivity.
  - rewrite nD_ps0, !cntp_ps0. unfold nRE, pinit. destruct autostart; simpl; rewrite ?filter_re_repeat; simpl; lia.
Qed.

Definition Inv134 (nw : nat) (lim : Z) (nc ndo : nat) (s : pshared) (ps : list ath) : Prop :=
  Inv1 nc s ps /\ Inv3 nw ndo s ps /\ Inv4 nc lim s ps.

Section Main4.
Variable nw : nat.
Variable lim : Z.
Variables (autostart : bool) (choices : list nat) (clients : list (list pop)) (nslots : nat) (sched : list nat).
Hypothesis Hok : clients_ok clients.
Hypothesis Hlim0 : (0 <= lim)%Z.
(* p.expanded is an int32: the counter must not wrap (each client thread can overshoot the limit by one) *)
Hypothesis Hlim : (lim + Z.of_nat (length clients) < 2 ^ 31)%Z.
Notation M := (pool nw lim).
Notation nc := (length clients).
Notation ndo := (cntdo (concat clients)).

Lemma Inv134_step s ps t a l pr :
  Inv134 nw lim nc ndo s ps -> nth_error ps t = Some a -> a_view a = Some (l, pr) ->
  match astep nw lim l s with
  | RNext cur s' => Inv134 nw lim nc ndo s' (upd ps t (pr, cur))
  | RBlocked => True
  | RFault => False
  end.
Proof.
  intros (H1 & H3 & H4) Hn Hv. pose proof (Inv1_step nw lim nc s ps t a l pr H1 Hn Hv) as Hs.
  destruct (astep nw lim l s) as [cur s'| |] eqn:E; auto.
  split; [exact Hs|]. split; [eapply Inv3_next; eauto|eapply Inv4_next; eauto].
Qed.

Lemma Inv134_reach :
  let c := final M (pool_cfg nw autostart choices clients nslots) sched in
  Inv134 nw lim nc ndo (c_sh c) (aths c) /\ alive c.
Proof.
  apply (abs_invariant_from nw lim (Inv134 nw lim nc ndo)).
  - intros s ps t a l pr. apply Inv134_step.
  - unfold pool_cfg. rewrite aths_init. split; [apply Inv1_init; exact Hok|]. split; [apply Inv3_init|apply Inv4_init; exact Hlim0].
  - apply alive_init.
Qed.

Let c := final M (pool_cfg nw autostart choices clients nslots) sched.
Let s := c_sh c.

(** T5 (C11): at most nworkers + limit tasks are inside an executor at any time *)
Theorem parallelism_capped : cntp is_exec (aths c) <= nw + Z.to_nat lim.
Proof.
  destruct Inv134_reach as [(H1 & H3 & H4) _]. eapply cap_from_inv; eauto.
Qed.

(* the same on concrete configurations: any duplicate-free list of threads that are inside an executor *)
Theorem parallelism_capped_threads (ids : list nat) :
  NoDup ids -> (forall i, In i ids -> exists l, at_pc c i l /\ is_exec l = true) ->
  length ids <= nw + Z.to_nat lim.
Proof.
  intros Hnd Hex. eapply Nat.le_trans; [|apply parallelism_capped].
  unfold cntp.
  assert (Hex' : forall i, In i ids -> exists l pr, nth_error (aths c) i = Some (pr, Some l) /\ is_exec l = true).
  { intros i Hi. destruct (Hex i Hi) as (l & Ha & Hl). destruct (at_pc_abs _ _ _ Ha) as [pr Hn]. eauto. }
  clear Hex. revert Hex'. generalize (aths c). intros ps Hex.
  assert (G : forall ids n (ps : list ath), NoDup ids ->
     (forall i, In i ids -> n <= i /\ exists l pr, nth_error ps (i - n) = Some (pr, Some l) /\ is_exec l = true) ->
     length ids <= sumi (fun _ a => pcf is_exec a) n ps).
  { clear. intros ids n ps. revert ids n. induction ps as [|a ps IH]; intros ids n Hnd H.
    - destruct ids as [|i ids]; [simpl; lia|]. destruct (H i (or_introl eq_refl)) as (_ & l & pr & Hn & _).
      destruct (i - n); discriminate.
    - simpl.
      assert (Hrm : length (remove Nat.eq_dec n ids) <= sumi (fun _ a => pcf is_exec a) (S n) ps).
      { apply IH.
        - clear - Hnd. induction Hnd as [|x l Hx Hl IHl]; simpl; [constructor|].
          destruct (Nat.eq_dec n x); [exact IHl|]. constructor; [|exact IHl].
          intros Hin. apply in_remove in Hin. tauto.
        - intros i Hi. apply in_remove in Hi. destruct Hi as [Hi Hne]. destruct (H i Hi) as (Hle & l & pr & Hn & Hl).
          split; [lia|]. exists l, pr. split; [|exact Hl]. replace (i - n) with (S (i - S n)) in Hn by lia. exact Hn. }
      destruct (in_dec Nat.eq_dec n ids) as [Hin|Hnin].
      + assert (Hlen : length ids = S (length (remove Nat.eq_dec n ids))).
        { clear - Hnd Hin. induction Hnd as [|x l Hx Hl IHl]; [contradiction|]. simpl.
          destruct (Nat.eq_dec n x) as [->|Hne].
          - rewrite notin_remove by exact Hx. reflexivity.
          - simpl. destruct Hin as [Hin|Hin]; [congruence|]. rewrite IHl by exact Hin. reflexivity. }
        destruct (H n Hin) as (_ & l & pr & Hn & Hl). rewrite Nat.sub_diag in Hn. simpl in Hn. injection Hn as ->.
        unfold pcf at 1. simpl. rewrite Hl. lia.
      + rewrite notin_remove in Hrm by exact Hnin. lia. }
  apply G; [exact Hnd|]. intros i Hi. split; [lia|]. rewrite Nat.sub_0_r.
  destruct (Hex i Hi) as (l & pr & Hn & Hl). eauto.
Qed.

(** the accounting behind it *)
Theorem rworkers_bounded : nRW s <= nw.
Proof. destruct Inv134_reach as [(_ & H3 & _) _]. pose proof (k_rw _ _ _ _ H3). fold c s in H. lia. Qed.

Theorem expanded_accounting :
  (p_expanded s = Z.of_nat (nRE s + cntp is_wgadd (aths c) + cntp is_subsub (aths c)) - Z.of_nat (nD nc s (aths c)))%Z /\
  (Z.of_nat (nRE s + cntp is_wgadd (aths c)) - Z.of_nat (nD nc s (aths c)) <= lim)%Z /\
  nD nc s (aths c) <= nRE s.
Proof.
  destruct Inv134_reach as [(H1 & _ & [Rro Re1 Re2]) _]. fold c s in H1, Rro, Re1, Re2.
  pose proof (expanded_bound lim nc Hlim _ _ (i_wf _ _ _ H1) Rro). repeat split; lia.
Qed.

(* worker pcs (in particular the executor pcs) only occur in goroutine slots *)
Theorem worker_pcs_in_slots i l : at_pc c i l -> worker_pc l = true -> nc <= i.
Proof.
  intros Ha Hw. destruct Inv134_reach as [(H1 & _) _]. fold c s in H1.
  destruct (at_pc_abs _ _ _ Ha) as [pr Hn]. pose proof (i_wf _ _ _ H1 _ _ Hn) as Hwf. unfold wf in Hwf. simpl in Hwf.
  destruct (Nat.ltb_spec i nc) as [Hlt|Hge]; [|exact Hge].
  destruct Hwf as (_ & Hc & _). unfold client_pc in Hc. rewrite Hw in Hc. destruct l; discriminate.
Qed.

End Main4.

Print Assumptions parallelism_capped.
Print Assumptions parallelism_capped_threads.
Print Assumptions expanded_accounting.
