(** Safety of the worker pool, part 13: fixed workers stay until the queue is
    closed.  A goroutine started as a fixed worker runs the fixed-worker code,
    reaches wg.Done() only after it has seen the queue closed and empty, so as
    long as the queue is open none of the [nw] fixed workers has finished; in
    state 1 (started), once Start has passed its [go] loop, exactly [nw] fixed
    workers have been started. *)
From Coq Require Import List Arith Bool ZArith Lia.
From Garr Require Import Conc.Conc Pure.F64 Queue.MutexModel Pool.PoolModel Pool.PoolBase Pool.PoolInv1 Pool.PoolTok
  Pool.PoolStop Pool.PoolCap Pool.PoolTimers.
Import ListNotations.

Definition fw_ok (nc : nat) (s : pshared) (i : nat) (a : ath) : Prop :=
  nc <= i ->
  match snd a with
  | Some l => (exppc l = true -> nth_error (p_spawned s) (i - nc) = Some RExpanded) /\
              (l = WDone -> p_qclosed s = true)
  | None => fst a = [] -> nth_error (p_spawned s) (i - nc) = Some RWorker -> p_qclosed s = true
  end.

Record InvF (nw nc : nat) (s : pshared) (ps : list ath) : Prop := {
  f_ok : forall i a, nth_error ps i = Some a -> fw_ok nc s i a;
  f_rw : p_state s = 1 -> cntp is_stwg ps = 0 -> nRW s = nw
}.

Section InvF.
Variable nw : nat.
Variable lim : Z.
Variable nc : nat.
Variable ndo : nat.

Lemma qclosed_mono l s cur s' : astep nw lim l s = RNext cur s' -> p_qclosed s = true -> p_qclosed s' = true.
Proof.
  intros H Hq. destruct l; try (match goal with o : pop |- _ => destruct o end); step_cases H; simpl; auto; congruence.
Qed.

Lemma fw_ok_mono s s' i a :
  sle s s' -> (p_qclosed s = true -> p_qclosed s' = true) -> wf nc s i a -> fw_ok nc s i a -> fw_ok nc s' i a.
Proof.
  intros (_ & _ & l & E) Hq Hwf Hf Hle. specialize (Hf Hle). unfold wf in Hwf.
  assert (Hltb : (i <? nc) = false) by (apply Nat.ltb_ge; exact Hle). rewrite Hltb in Hwf.
  destruct (snd a) as [pc|].
  - destruct Hf as [F1 F2]. split; [|auto]. intros Hx. specialize (F1 Hx). rewrite E.
    rewrite nth_error_app1; [exact F1|]. eapply nth_error_lt; eauto.
  - intros Hnil Hr. destruct Hwf as [Hw|[_ Hlt]]; [rewrite Hw in Hnil; discriminate|].
    rewrite E, nth_error_app1 in Hr by exact Hlt. auto.
Qed.

Lemma InvF_next s ps t a l pr cur s' :
  Inv1 nc s ps -> Inv3 nw ndo s ps -> InvF nw nc s ps -> nth_error ps t = Some a -> a_view a = Some (l, pr) ->
  astep nw lim l s = RNext cur s' -> InvF nw nc s' (upd ps t (pr, cur)).
Proof.
  intros HI1 HI3 HIF Hn Hv H.
  pose proof (astep_sle _ _ _ _ _ _ H) as Hsle.
  pose proof (qclosed_mono _ _ _ _ H) as Hqm.
  pose proof (i_wf _ _ _ HI1 _ _ Hn) as Hwf.
  pose proof (k_rw _ _ _ _ HI3) as Krw.
  assert (Hnp : forall prog l0, nth_error ps t = Some (prog, Some l0) -> forall o, l0 <> PInv o).
  { intros prog l0 Hn0. eapply stored_not_inv3; eauto. }
  destruct HIF as [Fok Frw].
  pose proof (Fok _ _ Hn) as Ft.
  pose proof (cntp_upd is_stwg ps t _ (pr, cur) Hn) as Esw.
  pose proof (cntp_ge is_stwg ps t _ Hn) as Gsw.
  assert (Hothers : forall i a0, nth_error (upd ps t (pr, cur)) i = Some a0 -> i <> t -> fw_ok nc s' i a0).
  { intros i a0 Hi Hne. rewrite nth_error_upd in Hi. destruct (Nat.eqb_spec t i) as [->|_]; [congruence|].
    eapply fw_ok_mono; [exact Hsle|exact Hqm|apply (i_wf _ _ _ HI1); exact Hi|apply Fok; exact Hi]. }
  assert (Hmine : fw_ok nc s' t (pr, cur) -> forall i a0, nth_error (upd ps t (pr, cur)) i = Some a0 -> fw_ok nc s' i a0).
  { intros Hm i a0 Hi. destruct (Nat.eq_dec i t) as [->|Hne]; [|apply Hothers; assumption].
    rewrite nth_error_upd, Nat.eqb_refl, Hn in Hi. injection Hi as <-. exact Hm. }
  unfold fw_ok in Ft. unfold wf in Hwf.
  destruct a as [prog [l0|]]; unfold a_view in Hv; simpl in Hv.
  - injection Hv as <- <-. specialize (Hnp _ _ Hn). simpl in Ft, Hwf.
    destruct l0; try (exfalso; eapply Hnp; reflexivity).
    all: step_cases H.
    all: unfold pcf in Esw, Gsw; simpl in Esw, Gsw.
    all: constructor; [apply Hmine; unfold fw_ok; simpl; intros Hle; specialize (Ft Hle);
                        assert (Hltb : (t <? nc) = false) by (apply Nat.ltb_ge; exact Hle); rewrite Hltb in Hwf
                      | unfold nRW in *; simpl; rewrite ?filter_length_app, ?filter_rw_repeat; simpl; intros; eqb_clean; try lia].
    all: destruct Hwf as (Hpc & Hwp & Hprog & Hsp); try discriminate Hwp; simpl in Hpc.
    all: try (split; [let Hx := fresh "Hx" in intros Hx; try discriminate Hx; rewrite ?nth_error_app1 by assumption; try (apply Ft; reflexivity)
                     |let Hx := fresh "Hx" in intros Hx; try discriminate Hx]).
    all: try (intros _ Hr; first [apply Ft; reflexivity | destruct Ft as [Fe _]; rewrite (Fe eq_refl) in Hr; discriminate]).
    all: try (match goal with E : p_queue _ = [] |- _ => unfold queue_recv_ready in *; rewrite E in *; simpl in *;
                destruct (p_qclosed s); [reflexivity|discriminate] end).
    all: try (destruct Ft as [Fe _]; apply Fe; destruct tm; simpl in *; try discriminate; try lia; reflexivity).
  - destruct prog as [|o pr0]; [discriminate|]. injection Hv as <- <-. simpl in Ft, Hwf.
    destruct o.
    all: step_cases H.
    all: unfold pcf in Esw, Gsw; simpl in Esw, Gsw.
    all: constructor; [apply Hmine; unfold fw_ok; simpl; intros Hle; specialize (Ft Hle);
                        assert (Hltb : (t <? nc) = false) by (apply Nat.ltb_ge; exact Hle); rewrite Hltb in Hwf
                      | unfold nRW in *; simpl; rewrite ?filter_length_app, ?filter_rw_repeat; simpl; intros; eqb_clean; try lia].
    all: destruct Hwf as [Hw|[Hw _]]; try discriminate Hw; injection Hw as -> ->.
    all: split; [let Hx := fresh "Hx" in intros Hx; try discriminate Hx; try assumption
                |let Hx := fresh "Hx" in intros Hx; try discriminate Hx].
    all: try (match goal with E : p_queue _ = [] |- _ => unfold queue_recv_ready in *; rewrite E in *; simpl in *;
                destruct (p_qclosed s); [reflexivity|discriminate] end).
Qed.

End InvF.

(** ** Initial configuration and reachability *)
Lemma InvT_init nw autostart choices clients nslots :
  InvT (pinit nw autostart choices) (ps0 clients nslots).
Proof.
  constructor.
  - intros j. rewrite cntp_ps0. lia.
  - intros j x Hj. rewrite cntp_ps0. lia.
  - apply cntp_ps0.
Qed.

Lemma InvF_init nw autostart choices clients nslots :
  InvF nw (length clients) (pinit nw autostart choices) (ps0 clients nslots).
Proof.
  constructor.
  - intros i a Hi Hle. apply ps0_nth in Hi. destruct Hi as [(Hlt & _)|(_ & _ & ->)]; [lia|]. simpl. discriminate.
  - unfold pinit, nRW. destruct autostart; simpl; rewrite ?filter_rw_repeat; intros; try discriminate; reflexivity.
Qed.

Definition InvD (nw nc ndo : nat) (s : pshared) (ps : list ath) : Prop :=
  Inv1 nc s ps /\ Inv3 nw ndo s ps /\ InvT s ps /\ InvF nw nc s ps.

Section ReachD.
Variable nw : nat.
Variable lim : Z.

Lemma InvD_step nc ndo s ps t a l pr :
  InvD nw nc ndo s ps -> nth_error ps t = Some a -> a_view a = Some (l, pr) ->
  match astep nw lim l s with
  | RNext cur s' => InvD nw nc ndo s' (upd ps t (pr, cur))
  | RBlocked => True
  | RFault => False
  end.
Proof.
  intros (H1 & H3 & HT & HF) Hn Hv. pose proof (Inv1_step nw lim nc s ps t a l pr H1 Hn Hv) as Hs.
  destruct (astep nw lim l s) as [cur s'| |] eqn:E; auto.
  split; [exact Hs|]. split; [eapply Inv3_next; eauto|]. split; [eapply InvT_next; eauto|eapply InvF_next; eauto].
Qed.

Lemma InvD_reach autostart choices clients nslots sched :
  clients_ok clients ->
  let c := final (pool nw lim) (pool_cfg nw autostart choices clients nslots) sched in
  InvD nw (length clients) (cntdo (concat clients)) (c_sh c) (aths c) /\ alive c.
Proof.
  intros Hc. apply (abs_invariant_from nw lim (InvD nw (length clients) (cntdo (concat clients)))).
  - intros s ps t a l pr. apply InvD_step.
  - unfold pool_cfg. rewrite aths_init. split; [apply Inv1_init; exact Hc|]. split; [apply Inv3_init|].
    split; [apply InvT_init|apply InvF_init].
  - apply alive_init.
Qed.

End ReachD.
