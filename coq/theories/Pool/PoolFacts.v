(** Small corollaries used by the property files. *)
From Coq Require Import List Arith Bool ZArith.
From Garr Require Import Conc.Conc Pool.PoolModel Pool.PoolBase Pool.PoolInv1 Pool.PoolTok Pool.PoolStop Pool.PoolStopMain
  Pool.PoolWg Pool.PoolCap Pool.PoolMain Pool.PoolStopDone Pool.PoolAcct Pool.PoolHist Pool.PoolAfterStop Pool.PoolStopCount
  Pool.PoolLateSubmit Pool.PoolSelect Pool.PoolTimers Pool.PoolLive Pool.PoolProgress.
Import ListNotations.

Lemma timer_drain_never_reached : forall nw lim autostart choices clients nslots sched,
  clients_ok clients ->
  let c := final (pool nw lim) (pool_cfg nw autostart choices clients nslots) sched in
  forall i tm got, ~ at_pc c i (XDrainTimer tm got).
Proof.
  intros nw lim autostart choices clients nslots sched Hok c i tm got Ha.
  destruct (InvD_reach nw lim autostart choices clients nslots sched Hok) as [(_ & _ & HT & _) _].
  destruct (at_pc_abs _ _ _ Ha) as [pr Hn]. pose proof (cntp_ge is_xdrt _ _ _ Hn) as Hg.
  fold c in HT. rewrite (u_nd _ _ HT) in Hg. unfold pcf in Hg. simpl in Hg. inversion Hg.
Qed.
