(** Concrete runs (vm_compute): the own-step constants of [PoolSteps] / [PoolStepsStop] are attained,
    and the waiting situations of (B), (C), (D) occur. *)
From Coq Require Import List Arith Bool ZArith Lia.
From Garr Require Import Conc.Conc Pure.F64 Queue.MutexModel Pool.PoolModel Pool.PoolBase Pool.PoolInv1 Pool.PoolTok
  Pool.PoolStepsGen Pool.PoolStepsGenW Pool.PoolSteps Pool.PoolStepsStop Pool.PoolStepsDrain.
From Garr Require Breaker.ConcBase Breaker.ConcHist Breaker.ConcWaitFreeMain.
Import ListNotations.

Definition pcs (c : pconfig) : list (option ppc) :=
  map (fun th => match t_cur th with Some (_, l) => Some l | None => None end) (c_thr c).

(** ** (A) TryDo takes 5 own steps when its context is already cancelled.
    Thread 0 cancels user context 1 (2 steps), then calls TryDo on a task bound to that context:
    invocation, RLock, select (takes the ctx.Done() case), delivery of the context error, RUnlock. *)
Definition exA_cfg := pool_cfg 1 true [] [[Cancel 1; TryDo 1 1 0]] 1.
Definition exA_sched := [0;0; 0;0;0;0;0].

Example exA_trace :
  trace (pool 1 0) exA_cfg exA_sched =
  [EInv 0 (Cancel 1); ERet 0 (Cancel 1) PU; EInv 0 (TryDo 1 1 0); ERet 0 (TryDo 1 1 0) (PB false)].
Proof. vm_compute. reflexivity. Qed.

Example exA_invoked : invoked_at (pool 1 0) exA_cfg exA_sched 2 0 (TryDo 1 1 0).
Proof. eexists. eexists. split; vm_compute; reflexivity. Qed.

Example trydo_bound_attained :
  let L := steps_of (pool 1 0) exA_cfg exA_sched in
  own_steps L 0 2 6 = 5 /\
  match nth_error L 6 with Some (c6, t) => t = 0 /\ ret_of (pool 1 0) c6 0 = Some (PB false) | None => False end /\
  map (fun e => match stepper (pool 1 0) (fst e) (snd e) with Some (_, l, _) => Some l | None => None end) L =
    [Some (PInv (Cancel 1)); Some (CCancel 1);
     Some (PInv (TryDo 1 1 0)); Some (SubRLock true 1); Some (SubTryDoSel 1); Some (SubFut (KTry false) 1 false);
     Some (SubRUnlock (KTry false))].
Proof. vm_compute. split; [reflexivity|]. split; [|reflexivity]. split; reflexivity. Qed.

(* the hypotheses of [trydo_own_step_bound] hold of this call (positions 2..6 of the log), so the
   theorem applies to it and its bound is tight *)
Example exA_no_return_before_6 : forall k ck,
  2 <= k < 6 -> nth_error (steps_of (pool 1 0) exA_cfg exA_sched) k = Some (ck, 0) -> ret_of (pool 1 0) ck 0 = None.
Proof.
  intros k ck Hk H.
  do 6 (destruct k as [|k]; [try lia; vm_compute in H; injection H as <-; vm_compute; reflexivity|]). lia.
Qed.

Example exA_theorem_applies : own_steps (steps_of (pool 1 0) exA_cfg exA_sched) 0 2 6 <= 5.
Proof.
  apply (trydo_own_step_bound 1 0 exA_cfg exA_sched 2 6 0 (TryDo 1 1 0) eq_refl exA_invoked).
  - lia.
  - vm_compute. lia.
  - exact exA_no_return_before_6.
Qed.

(* the ordinary cases take 4: handed over ... *)
Example trydo_accepted_4_steps :
  let L := steps_of (pool 1 0) (pool_cfg 1 true [] [[TryDo 1 0 0]] 1) [0;0;0;0] in
  own_steps L 0 0 3 = 4 /\
  trace (pool 1 0) (pool_cfg 1 true [] [[TryDo 1 0 0]] 1) [0;0;0;0] = [EInv 0 (TryDo 1 0 0); ERet 0 (TryDo 1 0 0) (PB true)].
Proof. vm_compute. split; reflexivity. Qed.

(* ... or refused because the slot is taken (no worker is scheduled, the first task stays queued) *)
Example trydo_refused_4_steps :
  let cfg := pool_cfg 1 true [] [[TryDo 1 0 0]; [TryDo 2 0 0]] 1 in
  let L := steps_of (pool 1 0) cfg [0;0;0;0; 1;1;1;1] in
  own_steps L 1 4 7 = 4 /\
  trace (pool 1 0) cfg [0;0;0;0; 1;1;1;1] =
    [EInv 0 (TryDo 1 0 0); ERet 0 (TryDo 1 0 0) (PB true); EInv 1 (TryDo 2 0 0); ERet 1 (TryDo 2 0 0) (PB false)].
Proof. vm_compute. split; reflexivity. Qed.

(** ** (B) TryDo refused the read lock while Stop is inside its critical section.
    Thread 0 has invoked TryDo; thread 1 (Stop) has taken the write lock and stands at XClose.
    Thread 0 is disabled; two steps of thread 1 later it is enabled again and returns false after
    4 own steps in all (invocation, RLock, refusal on the closed pool, RUnlock). *)
Definition exB_cfg := pool_cfg 1 true [] [[TryDo 1 0 0]; [Stop]] 1.
Definition exB_pre := [0; 1;1;1;1].

Example exB_blocked :
  let c := final (pool 1 0) exB_cfg exB_pre in
  pcs c = [Some (SubRLock true 1); Some XClose; None] /\
  step_thread (pool 1 0) c 0 = None /\ blocked_in (pool 1 0) c 0 /\
  step_thread (pool 1 0) c 1 <> None.
Proof.
  split; [vm_compute; reflexivity|]. split; [vm_compute; reflexivity|]. split; [|vm_compute; discriminate].
  exists (TryDo 1 0 0), (SubRLock true 1), false. split; vm_compute; reflexivity.
Qed.

(* scheduling the blocked thread is a no-op: it does not appear in the log *)
Example exB_refused_attempts_are_not_steps :
  steps_by (steps_of (pool 1 0) exB_cfg (exB_pre ++ [0;0;0])) 0 = 1.
Proof. vm_compute. reflexivity. Qed.

Example exB_released_after_two_steps :
  let c := final (pool 1 0) exB_cfg (exB_pre ++ [0;0; 1;1]) in
  pcs c = [Some (SubRLock true 1); Some XWait; None] /\
  rw_writer (p_lock (c_sh c)) = false /\ step_thread (pool 1 0) c 0 <> None.
Proof. vm_compute. split; [reflexivity|]. split; [reflexivity|discriminate]. Qed.

Example exB_returns_false :
  let sched := exB_pre ++ [1;1; 0;0;0] in
  let L := steps_of (pool 1 0) exB_cfg sched in
  steps_by L 0 = 4 /\
  In (ERet 0 (TryDo 1 0 0) (PB false)) (trace (pool 1 0) exB_cfg sched).
Proof. vm_compute. split; [reflexivity|]. auto 10. Qed.

(** ** (C) Do with expansion takes 8 own steps: the slot is taken, an expanded worker is granted and
    started, and the blocking select takes the ctx.Done() case of the already cancelled context. *)
Definition exC_cfg := pool_cfg 1 true [] [[Do 1 0 0]; [Cancel 1; Do 2 1 0]] 2.
Definition exC_sched := [0;0;0;0; 1;1; 1;1;1;1;1;1;1;1].

Example do_bound_attained :
  let L := steps_of (pool 1 1) exC_cfg exC_sched in
  push_rank 1 + 3 = 8 /\ own_steps L 1 6 13 = 8 /\
  map (fun e => match stepper (pool 1 1) (fst e) (snd e) with Some (_, l, _) => Some l | None => None end) (skipn 6 L) =
    [Some (PInv (Do 2 1 0)); Some (SubRLock false 2); Some (SubTrySel 2); Some (SubAddExp 2); Some (SubWgAdd 2);
     Some (SubPush 2); Some (SubFut KDo 2 false); Some (SubRUnlock KDo)] /\
  In (ERet 1 (Do 2 1 0) PU) (trace (pool 1 1) exC_cfg exC_sched).
Proof. vm_compute. split; [reflexivity|]. split; [reflexivity|]. split; [reflexivity|]. auto 10. Qed.

(* without expansion (limit 0): 5 own steps *)
Example do_bound_attained_no_expansion :
  let cfg := pool_cfg 1 true [] [[Cancel 1; Do 2 1 0]] 1 in
  let L := steps_of (pool 1 0) cfg [0;0; 0;0;0;0;0] in
  push_rank 0 + 3 = 5 /\ own_steps L 0 2 6 = 5 /\
  In (ERet 0 (Do 2 1 0) PU) (trace (pool 1 0) cfg [0;0; 0;0;0;0;0]).
Proof. vm_compute. split; [reflexivity|]. split; [reflexivity|]. auto 10. Qed.

(* a Do that finds room in its first select returns after 4 own steps *)
Example do_room_4_steps :
  let cfg := pool_cfg 1 true [] [[Do 1 0 0]] 1 in
  own_steps (steps_of (pool 1 1) cfg [0;0;0;0]) 0 0 3 = 4 /\
  trace (pool 1 1) cfg [0;0;0;0] = [EInv 0 (Do 1 0 0); ERet 0 (Do 1 0 0) PU].
Proof. vm_compute. split; reflexivity. Qed.

(* a Do waiting at its blocking select has taken 5 own steps (2 without expansion), and scheduling
   it again adds none *)
Example do_blocked_at_push :
  let cfg := pool_cfg 1 true [] [[Do 1 0 0]; [Do 2 0 0]; [Do 3 0 0]] 2 in
  let sched := [0;0;0;0; 1;1;1;1;1; 1;1;1] in
  let c := final (pool 1 1) cfg sched in
  pcs c = [None; Some (SubPush 2); None; None; None] /\ push_rank 1 = 5 /\
  blocked_in (pool 1 1) c 1 /\ steps_by (steps_of (pool 1 1) cfg sched) 1 = 5.
Proof.
  split; [vm_compute; reflexivity|]. split; [vm_compute; reflexivity|]. split; [|vm_compute; reflexivity].
  exists (Do 2 0 0), (SubPush 2), false. split; vm_compute; reflexivity.
Qed.

Example do_blocked_at_push_no_expansion :
  let cfg := pool_cfg 1 true [] [[Do 1 0 0]; [Do 2 0 0]] 1 in
  let sched := [0;0;0;0; 1;1; 1;1;1] in
  let c := final (pool 1 0) cfg sched in
  pcs c = [None; Some (SubPush 2); None] /\ push_rank 0 = 2 /\
  blocked_in (pool 1 0) c 1 /\ steps_by (steps_of (pool 1 0) cfg sched) 1 = 2.
Proof.
  split; [vm_compute; reflexivity|]. split; [vm_compute; reflexivity|]. split; [|vm_compute; reflexivity].
  exists (Do 2 0 0), (SubPush 2), false. split; vm_compute; reflexivity.
Qed.

(** ** (D) Start: 5 own steps *)
Example start_bound_attained :
  let cfg := pool_cfg 3 false [] [[Start]] 3 in
  own_steps (steps_of (pool 3 0) cfg [0;0;0;0;0]) 0 0 4 = 5 /\
  trace (pool 3 0) cfg [0;0;0;0;0] = [EInv 0 Start; ERet 0 Start PU] /\
  p_spawned (c_sh (final (pool 3 0) cfg [0;0;0;0;0])) = [RWorker; RWorker; RWorker].
Proof. vm_compute. split; [reflexivity|]. split; reflexivity. Qed.

(** ** (D) Stop: 11 own steps on a pool that was never started and holds one queued task
    (first CAS fails, second succeeds; one task drained) ... *)
Definition exD_cfg := pool_cfg 1 false [] [[Do 1 0 0]; [Stop]] 1.
Definition exD_sched := [0;0;0;0; 1;1;1;1;1;1;1;1;1;1;1].

Example stop_11_steps :
  let L := steps_of (pool 1 0) exD_cfg exD_sched in
  own_steps L 1 4 14 = 11 /\
  map (fun e => match stepper (pool 1 0) (fst e) (snd e) with Some (_, l, _) => Some l | None => None end) (skipn 4 L) =
    [Some (PInv Stop); Some XCas1; Some XCas0; Some XCancel; Some XLock; Some XClose; Some XUnlock; Some XWait;
     Some XDrainRecv; Some (XDrainSend 1); Some XDrainRecv] /\
  In (ERet 1 Stop PU) (trace (pool 1 0) exD_cfg exD_sched).
Proof. vm_compute. split; [reflexivity|]. split; [reflexivity|]. auto 10. Qed.

(** ... and 12, the bound, when moreover a Start slips in between the first two CAS so that all
    three are executed.  (This needs a pool with no fixed worker: a started worker would have
    taken the queued task, or seen the closed empty queue, before wg.Wait lets Stop through.) *)
Definition exD2_cfg := pool_cfg 0 false [] [[Do 1 0 0]; [Stop]; [Start]] 0.
Definition exD2_sched := [0;0;0;0; 1;1; 2;2;2;2;2; 1;1;1;1;1;1;1;1;1;1].

Example stop_bound_attained :
  let L := steps_of (pool 0 0) exD2_cfg exD2_sched in
  own_steps L 1 4 20 = 12 /\ steps_by L 1 = 12 /\ drains 0 0 L 1 4 20 = 1 /\
  map (fun e => match stepper (pool 0 0) (fst e) (snd e) with Some (_, l, _) => Some l | None => None end)
      (filter (fun e => Nat.eqb (snd e) 1) L) =
    [Some (PInv Stop); Some XCas1; Some XCas0; Some XCas1b; Some XCancel; Some XLock; Some XClose; Some XUnlock;
     Some XWait; Some XDrainRecv; Some (XDrainSend 1); Some XDrainRecv] /\
  In (ERet 1 Stop PU) (trace (pool 0 0) exD2_cfg exD2_sched) /\
  get_task (c_sh (final (pool 0 0) exD2_cfg exD2_sched)) 1 = Some (Task 0 0 [TCanceled] 0).
Proof. vm_compute. split; [reflexivity|]. split; [reflexivity|]. split; [reflexivity|]. split; [reflexivity|]. split; [auto 10|reflexivity]. Qed.

(* Stop waiting at wg.Wait while a worker executes a gated task: disabled, 6 own steps so far (its first
   CAS succeeded; at most 8 when all three CAS are executed), however often it is scheduled *)
Example stop_blocked_at_wait :
  let cfg := pool_cfg 1 true [] [[Do 1 0 1]; [Stop]] 1 in
  let sched := [0;0;0;0; 2;2; 1;1;1;1;1;1;1; 1;1] in
  let c := final (pool 1 0) cfg sched in
  pcs c = [None; Some XWait; Some (EGate 0 1)] /\
  blocked_in (pool 1 0) c 1 /\ steps_by (steps_of (pool 1 0) cfg sched) 1 = 6.
Proof.
  split; [vm_compute; reflexivity|]. split; [|vm_compute; reflexivity].
  exists Stop, XWait, false. split; vm_compute; reflexivity.
Qed.
