(** Worker pool, C11 "reaches its cap" / "expansion is temporary": the safety
    cores, part 1 - what ONE step does, in every reachable configuration.

    (A) [addexp_step], [wgadd_step], [subsub_step]: the reserve-then-spawn
        protocol of Do / Execute: the value observed by AddInt32 decides;
        observed <= limit: wg.Add(1) and a new expanded goroutine, before the
        task is pushed; observed > limit: decrement, nothing started.
    (B) [cap_not_undershot]: the value observed is exactly
        1 + live_or_reserved + (submitters between AddInt32 and their undo);
        so an expansion is refused below the cap only because of such a
        transient over-reservation.
    (C) [exit_dec_step], [exit_done_step], [exit_entry]: an expanded worker
        leaving its loop decrements once, then wg.Done(), then is finished;
        it enters the exit path only by the timer branch with a fired timer
        or after having seen the queue closed.
    (D) [idle_expanded_worker_can_expire]. *)
From Coq Require Import List Arith Bool ZArith Lia.
From Garr Require Import Conc.Conc Pure.F64 Queue.MutexModel Pool.PoolModel Pool.PoolBase Pool.PoolInv1 Pool.PoolTok
  Pool.PoolStop Pool.PoolStopMain Pool.PoolWg Pool.PoolCap Pool.PoolMain Pool.PoolStopDone Pool.PoolAcct Pool.PoolHist
  Pool.PoolAfterStop Pool.PoolSelect Pool.PoolTimers Pool.PoolLive Pool.PoolProgress.
Import ListNotations.

(** ** Concrete steps *)
Definition pc_of (c : pconfig) (i : nat) : option ppc :=
  match nth_error (c_thr c) i with
  | Some th => match t_cur th with Some (_, l) => Some l | None => None end
  | None => None
  end.

Lemma at_pc_pc_of c i l : at_pc c i l <-> pc_of c i = Some l.
Proof.
  unfold at_pc, pc_of. split.
  - intros (th & o & Hn & Hc). rewrite Hn, Hc. reflexivity.
  - destruct (nth_error (c_thr c) i) as [th|]; [|discriminate]. destruct (t_cur th) as [[o l']|] eqn:E; [|discriminate].
    intros H. injection H as ->. eauto.
Qed.

(* thread i has finished: nothing in progress, nothing left to call *)
Definition finished_thr (c : pconfig) (i : nat) : Prop :=
  exists th, nth_error (c_thr c) i = Some th /\ t_cur th = None /\ t_prog th = [].
(* thread i is a goroutine that has been started by nobody yet or has not taken its first step *)
Definition unstarted_slot (c : pconfig) (i k : nat) : Prop :=
  exists th, nth_error (c_thr c) i = Some th /\ t_cur th = None /\ t_prog th = [Slot k] /\ t_dead th = false.

Lemma pick_ready_two ch : pick_ready [0; 1] ch = Some (ch mod 2).
Proof.
  unfold pick_ready. cbn [length]. pose proof (Nat.mod_upper_bound ch 2 ltac:(lia)) as H.
  destruct (ch mod 2) as [|[|k]]; [reflexivity|reflexivity|lia].
Qed.
Lemma pick_ready_one a ch : pick_ready [a] ch = Some a.
Proof. unfold pick_ready. cbn [length]. rewrite Nat.mod_1_r. reflexivity. Qed.

Section Step.
Variable nw : nat.
Variable lim : Z.
Notation M := (pool nw lim).

(* the step of a thread that is in the middle of a call *)
Lemma step_at c i th o l :
  nth_error (c_thr c) i = Some th -> t_dead th = false -> t_cur th = Some (o, l) ->
  step_thread M c i =
    match pstep nw lim l (c_sh c) with
    | Next l' s' => Some (Config s' (upd (c_thr c) i (Thread (t_prog th) (t_ts th) (Some (o, l')) false)), [])
    | Done r ts' s' => Some (Config s' (upd (c_thr c) i (Thread (t_prog th) ts' None false)), [ERet i o r])
    | Blocked => None
    | Fault => Some (Config (c_sh c) (upd (c_thr c) i (Thread (t_prog th) (t_ts th) None true)), [EFault i o])
    end.
Proof.
  intros Hn Hd Hc. unfold step_thread. rewrite Hn. unfold view. rewrite Hd, Hc. simpl.
  change (m_step M l (c_sh c)) with (pstep nw lim l (c_sh c)).
  destruct (pstep nw lim l (c_sh c)); reflexivity.
Qed.

Lemma step_at_next c i th o l l' s' :
  nth_error (c_thr c) i = Some th -> t_dead th = false -> t_cur th = Some (o, l) ->
  pstep nw lim l (c_sh c) = Next l' s' ->
  step_thread M c i <> None /\
  c_sh (step_cfg M c i) = s' /\ at_pc (step_cfg M c i) i l' /\
  nth_error (c_thr (step_cfg M c i)) i = Some (Thread (t_prog th) (t_ts th) (Some (o, l')) false).
Proof.
  intros Hn Hd Hc Hp. pose proof (step_at c i th o l Hn Hd Hc) as Hs. rewrite Hp in Hs.
  unfold step_cfg. rewrite Hs. simpl. split; [discriminate|]. split; [reflexivity|].
  assert (E : nth_error (upd (c_thr c) i (Thread (t_prog th) (t_ts th) (Some (o, l')) false)) i =
              Some (Thread (t_prog th) (t_ts th) (Some (o, l')) false)).
  { rewrite nth_error_upd, Nat.eqb_refl, Hn. reflexivity. }
  split; [|exact E]. eexists _, o. split; [exact E|reflexivity].
Qed.

Lemma step_at_done c i th o l r u s' :
  nth_error (c_thr c) i = Some th -> t_dead th = false -> t_cur th = Some (o, l) ->
  pstep nw lim l (c_sh c) = Done r u s' ->
  step_thread M c i <> None /\
  c_sh (step_cfg M c i) = s' /\
  nth_error (c_thr (step_cfg M c i)) i = Some (Thread (t_prog th) u None false).
Proof.
  intros Hn Hd Hc Hp. pose proof (step_at c i th o l Hn Hd Hc) as Hs. rewrite Hp in Hs.
  unfold step_cfg. rewrite Hs. simpl. split; [discriminate|]. split; [reflexivity|].
  rewrite nth_error_upd, Nat.eqb_refl, Hn. reflexivity.
Qed.

Lemma step_blocked c i th o l :
  nth_error (c_thr c) i = Some th -> t_dead th = false -> t_cur th = Some (o, l) ->
  pstep nw lim l (c_sh c) = Blocked -> step_thread M c i = None.
Proof.
  intros Hn Hd Hc Hp. rewrite (step_at c i th o l Hn Hd Hc), Hp. reflexivity.
Qed.

Lemma next_exitdec l s0 s' :
  pstep nw lim l s0 = Next XExitDec s' ->
  match l with XSelect _ | XStopTimer _ None | XDrainTimer _ None => True | _ => False end.
Proof.
  intros H. destruct l; try (match goal with o : pop |- _ => destruct o end);
    unfold_pstep H; repeat break1 H; try discriminate H; exact I.
Qed.

(* the first step of a goroutine slot *)
Lemma step_slot c i th k :
  nth_error (c_thr c) i = Some th -> t_dead th = false -> t_cur th = None -> t_prog th = [Slot k] ->
  step_thread M c i =
    match pstep nw lim (PInv (Slot k)) (c_sh c) with
    | Next l' s' => Some (Config s' (upd (c_thr c) i (Thread [] (t_ts th) (Some (Slot k, l')) false)), [EInv i (Slot k)])
    | Done r ts' s' => Some (Config s' (upd (c_thr c) i (Thread [] ts' None false)), [EInv i (Slot k); ERet i (Slot k) r])
    | Blocked => None
    | Fault => Some (Config (c_sh c) (upd (c_thr c) i (Thread [] (t_ts th) None true)), [EInv i (Slot k); EFault i (Slot k)])
    end.
Proof.
  intros Hn Hd Hc Hp. unfold step_thread. rewrite Hn. unfold view. rewrite Hd, Hc, Hp. simpl.
  unfold rest_prog. rewrite Hp. simpl.
  change (m_step M (PInv (Slot k)) (c_sh c)) with (pstep nw lim (PInv (Slot k)) (c_sh c)).
  destruct (pstep nw lim (PInv (Slot k)) (c_sh c)); reflexivity.
Qed.

End Step.

(** ** The accounting terms *)
(* live or reserved expanded workers: started ([nRE]) or reserved by a submitter that is about to
   start one (at [SubWgAdd]), minus those that have decremented the counter on their way out ([nD]) *)
Definition live_or_reserved (nc : nat) (s : pshared) (ps : list ath) : Z :=
  (Z.of_nat (nRE s + cntp is_wgadd ps) - Z.of_nat (nD nc s ps))%Z.
(* submitters that have incremented the counter past the limit and have not yet undone it *)
Definition over_reserved (ps : list ath) : nat := cntp is_subsub ps.

(** ** One more invariant: a worker that received "closed" from the queue has seen it closed *)
Definition saw_closed (l : ppc) : bool :=
  match l with XStopTimer _ None | XDrainTimer _ None => true | _ => false end.

Definition InvX (s : pshared) (ps : list ath) : Prop :=
  1 <= cntp saw_closed ps -> p_qclosed s = true.

Section InvX.
Variable nw : nat.
Variable lim : Z.
Variable nc : nat.

Lemma InvX_next s ps t a l pr cur s' :
  Inv1 nc s ps -> InvX s ps -> nth_error ps t = Some a -> a_view a = Some (l, pr) ->
  astep nw lim l s = RNext cur s' -> InvX s' (upd ps t (pr, cur)).
Proof.
  intros HI1 HX Hn Hv H.
  pose proof (qclosed_mono _ _ _ _ _ _ H) as Hqm.
  assert (Hnp : forall prog l0, nth_error ps t = Some (prog, Some l0) -> forall o, l0 <> PInv o).
  { intros prog l0 Hn0. eapply stored_not_inv3; eauto. }
  pose proof (cntp_upd saw_closed ps t _ (pr, cur) Hn) as Ex.
  pose proof (cntp_ge saw_closed ps t _ Hn) as Gx.
  unfold InvX in *.
  destruct a as [prog [l0|]]; unfold a_view in Hv; simpl in Hv.
  - injection Hv as <- <-. specialize (Hnp _ _ Hn).
    destruct l0; try (exfalso; eapply Hnp; reflexivity).
    all: step_cases H.
    all: unfold pcf in Ex, Gx; simpl in Ex, Gx.
    all: intros Hc.
    all: try (apply Hqm; apply HX; lia).
    all: try (simpl; apply HX; lia).
    all: try (match goal with E : p_queue _ = [] |- _ => unfold queue_recv_ready in *; rewrite E in *; simpl in * end).
    all: try (match goal with E : pick_ready _ _ = Some _ |- _ => apply pick_ready_cond in E; simpl in E end).
    all: try (destruct (p_qclosed s); simpl in *; try reflexivity; try discriminate; apply HX; lia).
  - destruct prog as [|o pr0]; [discriminate|]. injection Hv as <- <-.
    destruct o.
    all: step_cases H.
    all: unfold pcf in Ex, Gx; simpl in Ex, Gx.
    all: intros Hc.
    all: try (apply Hqm; apply HX; lia).
    all: try (simpl; apply HX; lia).
Qed.

End InvX.

Lemma InvX_init nw autostart choices clients nslots : InvX (pinit nw autostart choices) (ps0 clients nslots).
Proof. unfold InvX. rewrite cntp_ps0. lia. Qed.

(** ** Every invariant at once *)
Record InvE (nw : nat) (lim : Z) (nc ndo : nat) (s : pshared) (ps : list ath) : Prop := {
  e_1 : Inv1 nc s ps;
  e_2 : Inv2 s ps;
  e_3 : Inv3 nw ndo s ps;
  e_4 : Inv4 nc lim s ps;
  e_T : InvT s ps;
  e_F : InvF nw nc s ps;
  e_X : InvX s ps
}.

Section ReachE.
Variable nw : nat.
Variable lim : Z.
Variable nc : nat.
Variable ndo : nat.
Hypothesis Hlim0 : (0 <= lim)%Z.
Hypothesis Hlim : (lim + Z.of_nat nc < 2 ^ 31)%Z.

Lemma InvE_step s ps t a l pr :
  InvE nw lim nc ndo s ps -> nth_error ps t = Some a -> a_view a = Some (l, pr) ->
  match astep nw lim l s with
  | RNext cur s' => InvE nw lim nc ndo s' (upd ps t (pr, cur))
  | RBlocked => True
  | RFault => False
  end.
Proof.
  intros [H1 H2 H3 H4 HT HF HX] Hn Hv.
  pose proof (Inv1_step nw lim nc s ps t a l pr H1 Hn Hv) as Hs.
  destruct (astep nw lim l s) as [cur s'| |] eqn:E; auto.
  constructor.
  - exact Hs.
  - eapply Inv2_next; eauto.
  - eapply Inv3_next; eauto.
  - eapply Inv4_next; eauto.
  - eapply InvT_next; eauto.
  - eapply InvF_next; eauto.
  - eapply InvX_next; eauto.
Qed.

End ReachE.

Section Main.
Variable nw : nat.
Variable lim : Z.
Variables (autostart : bool) (choices : list nat) (clients : list (list pop)) (nslots : nat).
Hypothesis Hok : clients_ok clients.
Hypothesis Hlim0 : (0 <= lim)%Z.
Hypothesis Hlim : (lim + Z.of_nat (length clients) < 2 ^ 31)%Z.
Notation M := (pool nw lim).
Notation nc := (length clients).
Notation ndo := (cntdo (concat clients)).
Hypothesis Hslots : nw + ndo <= nslots.
Notation cfg0 := (pool_cfg nw autostart choices clients nslots).

Lemma InvE_init : InvE nw lim nc ndo (pinit nw autostart choices) (ps0 clients nslots).
Proof.
  constructor.
  - apply Inv1_init; exact Hok.
  - apply Inv2_init; exact Hok.
  - apply Inv3_init.
  - apply Inv4_init; exact Hlim0.
  - apply InvT_init.
  - apply InvF_init.
  - apply InvX_init.
Qed.

Lemma InvE_reach sched :
  let c := final M cfg0 sched in InvE nw lim nc ndo (c_sh c) (aths c) /\ alive c.
Proof.
  apply (abs_invariant_from nw lim (InvE nw lim nc ndo)).
  - intros s ps t a l pr. apply InvE_step; assumption.
  - unfold pool_cfg. rewrite aths_init. apply InvE_init.
  - apply alive_init.
Qed.

(* from any configuration satisfying the invariants *)
Lemma InvE_run c sched :
  InvE nw lim nc ndo (c_sh c) (aths c) -> alive c ->
  let c' := final M c sched in InvE nw lim nc ndo (c_sh c') (aths c') /\ alive c'.
Proof.
  intros HI Hal. apply (abs_invariant_from nw lim (InvE nw lim nc ndo)); auto.
  intros s ps t a l pr. apply InvE_step; assumption.
Qed.


(** ** One-step theorems, in a configuration satisfying the invariants *)
Definition GoodE (c : pconfig) : Prop :=
  InvE nw lim nc ndo (c_sh c) (aths c) /\ alive c /\ length (c_thr c) = nc + nslots.

Lemma GoodE_reach sched : GoodE (final M cfg0 sched).
Proof.
  destruct (InvE_reach sched) as [HI Hal]. split; [exact HI|]. split; [exact Hal|].
  apply (thr_length nw lim autostart choices clients nslots sched).
Qed.

Lemma GoodE_run c sched : GoodE c -> GoodE (final M c sched).
Proof.
  intros (HI & Hal & Hlen). destruct (InvE_run c sched HI Hal) as [HI' Hal'].
  split; [exact HI'|]. split; [exact Hal'|]. rewrite final_length. exact Hlen.
Qed.

Lemma GoodE_step c i : GoodE c -> GoodE (step_cfg M c i).
Proof. intros HG. apply (GoodE_run c [i] HG). Qed.

Section At.
Variable c : pconfig.
Hypothesis HG : GoodE c.
Let s := c_sh c.
Let ps := aths c.

Lemma at_pc_thread i l :
  at_pc c i l -> exists th o, nth_error (c_thr c) i = Some th /\ t_dead th = false /\ t_cur th = Some (o, l) /\
                              nth_error ps i = Some (t_prog th, Some l).
Proof.
  intros (th & o & Hn & Hc). exists th, o. split; [exact Hn|]. split.
  - destruct HG as (_ & Hal & _). unfold alive in Hal. rewrite Forall_forall in Hal. apply Hal. eapply nth_error_In; eauto.
  - split; [exact Hc|]. unfold ps. rewrite (aths_nth _ _ _ Hn). unfold abs_th. rewrite Hc. reflexivity.
Qed.

(* the counter is the accounting sum, and does not wrap *)
Lemma expanded_value :
  p_expanded s = (live_or_reserved nc s ps + Z.of_nat (over_reserved ps))%Z /\
  (live_or_reserved nc s ps <= lim)%Z /\ (0 <= live_or_reserved nc s ps)%Z /\
  cntp is_addexp ps + over_reserved ps <= nc.
Proof.
  destruct HG as ([H1 _ _ [Rro Re1 Re2] _ _ _] & _ & _). fold s ps in H1, Rro, Re1, Re2.
  pose proof (expanded_bound lim nc Hlim _ _ (i_wf _ _ _ H1) Rro) as Hb.
  pose proof (aess_bound nc _ _ (i_wf _ _ _ H1)) as Hae. rewrite aess_split in Hae.
  unfold live_or_reserved, over_reserved. repeat split; lia.
Qed.

(** (A), first step: [atomic.AddInt32(&p.expanded, 1) <= limit] *)
Theorem addexp_step i id :
  at_pc c i (SubAddExp id) ->
  let v := (p_expanded s + 1)%Z in                (* the value AddInt32 returns *)
  let c' := step_cfg M c i in
  v = (live_or_reserved nc s ps + Z.of_nat (over_reserved ps) + 1)%Z /\
  step_thread M c i <> None /\
  c_sh c' = upd_expanded s v /\
  ((v <= lim)%Z -> at_pc c' i (SubWgAdd id)) /\
  ((lim < v)%Z -> at_pc c' i (SubSubExp id)).
Proof.
  intros Ha v c'. destruct (at_pc_thread _ _ Ha) as (th & o & Hn & Hd & Hc & Hna).
  destruct expanded_value as (Ev & Hle & Hge & Hcnt).
  pose proof (cntp_ge is_addexp _ _ _ Hna) as Gae. unfold pcf in Gae. simpl in Gae.
  assert (Hw : wrap32 (p_expanded s + 1) = v).
  { unfold v. apply wrap32_small. lia. }
  split; [unfold v; lia|].
  destruct (Z.leb_spec v lim) as [Hv|Hv].
  - assert (Hp : pstep nw lim (SubAddExp id) (c_sh c) = Next (SubWgAdd id) (upd_expanded s v)).
    { simpl. fold s. rewrite Hw. apply Z.leb_le in Hv. rewrite Hv. reflexivity. }
    destruct (step_at_next nw lim c i th o _ _ _ Hn Hd Hc Hp) as (S1 & S2 & S3 & _).
    split; [exact S1|]. split; [exact S2|]. split; [intros _; exact S3|intros Hx; lia].
  - assert (Hp : pstep nw lim (SubAddExp id) (c_sh c) = Next (SubSubExp id) (upd_expanded s v)).
    { simpl. fold s. rewrite Hw. apply Z.leb_gt in Hv. rewrite Hv. reflexivity. }
    destruct (step_at_next nw lim c i th o _ _ _ Hn Hd Hc Hp) as (S1 & S2 & S3 & _).
    split; [exact S1|]. split; [exact S2|]. split; [intros Hx; lia|intros _; exact S3].
Qed.


(* a submitter holds its task: not queued, not executed, no result yet *)
Lemma submitter_holds i l id :
  at_pc c i l -> toks l = Some id ->
  cnt (p_queue s) id = 0 /\ exists t, get_task s id = Some t /\ tk_execs t = 0 /\ tk_future t = [].
Proof.
  intros Ha Ht. destruct (at_pc_thread _ _ Ha) as (th & o & Hn & Hd & Hc & Hna).
  destruct HG as ([H1 H2 _ _ _ _ _] & _ & _). fold s ps in H1, H2.
  assert (Ht0 : tok0 l = Some id) by (destruct l; simpl in Ht |- *; congruence).
  pose proof (H0_ge id _ _ _ Hna) as Hg. unfold h0 in Hg. simpl in Hg. rewrite Ht0 in Hg. simpl in Hg. rewrite eqn_refl in Hg.
  pose proof (t_tok _ _ H2 id) as Htok. unfold tokens, futlen in Htok.
  split; [lia|].
  pose proof (i_wf _ _ _ H1 _ _ Hna) as Hwf. unfold wf in Hwf. simpl in Hwf. destruct Hwf as [Hpc _].
  assert (Hh : has_task s id) by (destruct l; simpl in Ht; try discriminate Ht; injection Ht as <-; exact Hpc).
  unfold has_task in Hh. destruct (get_task s id) as [t|] eqn:Eg; [|congruence]. exists t. split; [reflexivity|].
  destruct (t_ex _ _ H2 id t Eg) as (_ & T2 & _). split; [apply T2; lia|].
  destruct (tk_future t); [reflexivity|simpl in Htok; lia].
Qed.

(* the threads of the clients are not goroutine slots *)
Lemma client_pc_index i l : at_pc c i l -> client_pc l = true -> i < nc.
Proof.
  intros Ha Hcp. destruct (at_pc_thread _ _ Ha) as (th & o & Hn & Hd & Hc & Hna).
  destruct HG as ([H1 _ _ _ _ _ _] & _ & _). fold s ps in H1.
  pose proof (i_wf _ _ _ H1 _ _ Hna) as Hwf. unfold wf in Hwf. simpl in Hwf.
  destruct (Nat.ltb_spec i nc) as [Hlt|Hge]; [exact Hlt|].
  destruct Hwf as (_ & Hw & _). unfold client_pc in Hcp. rewrite Hw in Hcp. destruct l; discriminate.
Qed.

(* the goroutine slot the next [go] statement will start *)
Lemma next_slot_unstarted :
  1 <= npot ps -> let k := length (p_spawned s) in k < nslots /\ unstarted_slot c (nc + k) k.
Proof.
  intros Hpot k.
  destruct HG as ([H1 _ H3 _ _ _ _] & Hal & Hlen). fold s ps in H1, H3.
  pose proof (k_re _ _ _ _ H3) as Kre. pose proof (k_rw _ _ _ _ H3) as Krw.
  pose proof (rw_re_length (p_spawned s)) as Hrr. fold (nRW s) (nRE s) in Hrr.
  assert (Hk : k < nslots) by (unfold k; lia).
  split; [exact Hk|].
  destruct (nth_error (c_thr c) (nc + k)) as [th|] eqn:Eth; [|apply nth_error_None in Eth; lia].
  exists th. split; [exact Eth|].
  pose proof (aths_nth _ _ _ Eth) as Hna. fold ps in Hna.
  pose proof (i_wf _ _ _ H1 _ _ Hna) as Hwf. unfold wf, abs_th in Hwf. simpl in Hwf.
  assert (Hltb : (nc + k <? nc) = false) by (apply Nat.ltb_ge; lia). rewrite Hltb in Hwf.
  replace (nc + k - nc) with k in Hwf by lia.
  assert (Hd : t_dead th = false).
  { unfold alive in Hal. rewrite Forall_forall in Hal. apply Hal. eapply nth_error_In; eauto. }
  destruct (t_cur th) as [[o l]|].
  - exfalso. destruct Hwf as (_ & _ & _ & Hlt). unfold k in Hlt. lia.
  - destruct Hwf as [Hw|[_ Hlt]]; [auto|exfalso; unfold k in Hlt; lia].
Qed.

(** (A), granted: [p.wg.Add(1); go p.expandedWorker()] - one step of the model *)
Theorem wgadd_step i id :
  at_pc c i (SubWgAdd id) ->
  let c' := step_cfg M c i in
  let k := length (p_spawned s) in
  step_thread M c i <> None /\
  at_pc c' i (SubPush id) /\
  c_sh c' = upd_spawned (upd_wg s (S (p_wg s))) (p_spawned s ++ [RExpanded]) /\
  (* the new goroutine: slot k, started, expanded role, a thread that has not run yet and can run *)
  nth_error (p_spawned (c_sh c')) k = Some RExpanded /\
  unstarted_slot c' (nc + k) k /\
  step_thread M c' (nc + k) <> None /\
  (* its first step creates its idle timer, armed, and enters the select *)
  (let c'' := step_cfg M c' (nc + k) in
   at_pc c'' (nc + k) (XSelect (S (length (p_timers s)))) /\
   p_timers (c_sh c'') = p_timers s ++ [Timer true false]) /\
  (* all this BEFORE the task is pushed: it is still with the submitter *)
  cnt (p_queue (c_sh c')) id = 0.
Proof.
  intros Ha c' k. destruct (at_pc_thread _ _ Ha) as (th & o & Hn & Hd & Hc & Hna).
  pose proof (client_pc_index _ _ Ha eq_refl) as Hi.
  destruct (submitter_holds _ _ id Ha eq_refl) as (Hq & _).
  assert (Hpot : 1 <= npot ps).
  { pose proof (sumi_ge (fun _ a => pot a) 0 ps i _ Hna) as Hg. fold (npot ps) in Hg.
    assert (Hp1 : 1 <= pot (t_prog th, Some (SubWgAdd id))) by (unfold pot, pcf; simpl; lia). lia. }
  destruct (next_slot_unstarted Hpot) as (Hk & th2 & Hn2 & Hc2 & Hp2 & Hd2). fold k in Hk, Hn2, Hp2.
  set (s' := upd_spawned (upd_wg s (S (p_wg s))) (p_spawned s ++ [RExpanded])).
  assert (Hp : pstep nw lim (SubWgAdd id) (c_sh c) = Next (SubPush id) s') by reflexivity.
  destruct (step_at_next nw lim c i th o _ _ _ Hn Hd Hc Hp) as (S1 & S2 & S3 & _). fold c' in S2, S3.
  assert (Hne : nc + k <> i) by lia.
  assert (Hn2' : nth_error (c_thr c') (nc + k) = Some th2).
  { unfold c'. rewrite step_cfg_other by exact Hne. exact Hn2. }
  assert (Hsp : nth_error (p_spawned (c_sh c')) k = Some RExpanded).
  { rewrite S2. unfold s'. simpl. rewrite nth_error_app2 by (unfold k; lia). unfold k. rewrite Nat.sub_diag. reflexivity. }
  split; [exact S1|]. split; [exact S3|]. split; [exact S2|]. split; [exact Hsp|].
  split; [exists th2; auto|].
  pose proof (step_slot nw lim c' (nc + k) th2 k Hn2' Hd2 Hc2 Hp2) as Hst.
  assert (Hps : pstep nw lim (PInv (Slot k)) (c_sh c') =
                Next (XSelect (S (length (p_timers s)))) (upd_timers (c_sh c') (p_timers s ++ [Timer true false]))).
  { simpl. rewrite Hsp. rewrite S2. reflexivity. }
  rewrite Hps in Hst.
  split; [rewrite Hst; discriminate|]. split.
  - unfold step_cfg. rewrite Hst. simpl. split; [|reflexivity].
    apply at_pc_pc_of. unfold pc_of. simpl. rewrite nth_error_upd, Nat.eqb_refl, Hn2'. reflexivity.
  - rewrite S2. exact Hq.
Qed.

(** (A), refused: [atomic.AddInt32(&p.expanded, -1)] - nothing is started *)
Theorem subsub_step i id :
  at_pc c i (SubSubExp id) ->
  let c' := step_cfg M c i in
  step_thread M c i <> None /\
  at_pc c' i (SubPush id) /\
  c_sh c' = upd_expanded s (p_expanded s - 1) /\          (* so p_spawned, p_wg, the queue ... are unchanged *)
  (forall j, j <> i -> nth_error (c_thr c') j = nth_error (c_thr c) j) /\
  live_or_reserved nc (c_sh c') (aths c') = live_or_reserved nc s ps /\
  over_reserved (aths c') + 1 = over_reserved ps.
Proof.
  intros Ha c'. destruct (at_pc_thread _ _ Ha) as (th & o & Hn & Hd & Hc & Hna).
  destruct expanded_value as (Ev & Hle & Hge & Hcnt).
  pose proof (cntp_ge is_subsub _ _ _ Hna) as Gss. unfold pcf in Gss. simpl in Gss. fold (over_reserved ps) in Gss.
  assert (Hw : wrap32 (p_expanded s - 1) = (p_expanded s - 1)%Z) by (apply wrap32_small; lia).
  assert (Hp : pstep nw lim (SubSubExp id) (c_sh c) = Next (SubPush id) (upd_expanded s (p_expanded s - 1))).
  { simpl. fold s. rewrite Hw. reflexivity. }
  destruct (step_at_next nw lim c i th o _ _ _ Hn Hd Hc Hp) as (S1 & S2 & S3 & S4). fold c' in S2, S3, S4.
  split; [exact S1|]. split; [exact S3|]. split; [exact S2|].
  split; [intros j Hj; apply step_cfg_other; exact Hj|].
  pose proof (GoodE_step c i HG) as HG'. fold c' in HG'.
  destruct HG' as ([_ _ _ [_ Re1' _] _ _ _] & _ & _).
  destruct HG as ([_ _ _ [_ Re1 _] _ _ _] & _ & _). fold s ps in Re1.
  assert (Eaths : aths c' = upd ps i (t_prog th, Some (SubPush id))).
  { unfold c', step_cfg. rewrite (step_at nw lim c i th o _ Hn Hd Hc), Hp. unfold aths. simpl. rewrite map_upd. reflexivity. }
  pose proof (cntp_upd is_subsub ps i _ (t_prog th, Some (SubPush id)) Hna) as Ess.
  pose proof (cntp_upd is_wgadd ps i _ (t_prog th, Some (SubPush id)) Hna) as Ewg.
  pose proof (nD_upd nc s ps i _ (t_prog th, Some (SubPush id)) Hna) as ED.
  unfold pcf, fD in Ess, Ewg, ED. simpl in Ess, Ewg, ED.
  assert (Hl : (nc <=? i) = false) by (apply Nat.leb_gt; eapply client_pc_index; [exact Ha|reflexivity]).
  rewrite Hl in ED.
  assert (EnD : nD nc (c_sh c') (aths c') = nD nc s (aths c')).
  { rewrite S2. unfold nD. apply sumi_ext. intros j a _. reflexivity. }
  unfold live_or_reserved, over_reserved. rewrite Eaths in *. rewrite EnD.
  assert (EnRE : nRE (c_sh c') = nRE s) by (rewrite S2; reflexivity). rewrite EnRE.
  split; lia.
Qed.


(** the first select of Do / Execute: [select { case p.taskQueue <- t: default: }] *)
Theorem trysel_step i id :
  at_pc c i (SubTrySel id) ->
  let c' := step_cfg M c i in
  step_thread M c i <> None /\
  p_qclosed s = false /\
  (queue_send_ready s = false ->                     (* queue full: the default branch *)
     at_pc c' i (SubAddExp id) /\ c_sh c' = upd_choices s (tl (p_choices s))) /\
  (queue_send_ready s = true ->
     at_pc c' i (SubRUnlock KDo) /\ p_queue (c_sh c') = p_queue s ++ [id]).
Proof.
  intros Ha c'. destruct (at_pc_thread _ _ Ha) as (th & o & Hn & Hd & Hc & Hna).
  destruct HG as ([H1 _ _ _ _ _ _] & _ & _). fold s ps in H1.
  pose proof (cntp_ge is_open _ _ _ Hna) as Hop. unfold pcf in Hop. simpl in Hop.
  pose proof (i_cf _ _ _ H1) as Icf.
  assert (Hcf : p_closedflag s = false) by (destruct (p_closedflag s); [lia|reflexivity]).
  rewrite Hcf in Icf. destruct Icf as [_ Hqc].
  destruct (queue_send_ready s) eqn:Eq.
  - assert (Hp : pstep nw lim (SubTrySel id) (c_sh c) =
                 Next (SubRUnlock KDo) (upd_queue (upd_choices s (tl (p_choices s))) (p_queue s ++ [id]))).
    { simpl. rewrite take_choice_eq. fold s. rewrite Eq, Hqc. reflexivity. }
    destruct (step_at_next nw lim c i th o _ _ _ Hn Hd Hc Hp) as (S1 & S2 & S3 & _). fold c' in S2, S3.
    split; [exact S1|]. split; [exact Hqc|]. split; [discriminate|]. intros _. split; [exact S3|]. rewrite S2. reflexivity.
  - assert (Hp : pstep nw lim (SubTrySel id) (c_sh c) = Next (SubAddExp id) (upd_choices s (tl (p_choices s)))).
    { simpl. rewrite take_choice_eq. fold s. rewrite Eq. reflexivity. }
    destruct (step_at_next nw lim c i th o _ _ _ Hn Hd Hc Hp) as (S1 & S2 & S3 & _). fold c' in S2, S3.
    split; [exact S1|]. split; [exact Hqc|]. split; [auto|discriminate].
Qed.

End At.

(** (B) the pool never refuses to expand while it has room.  At the AddInt32 step the value observed
    is exactly 1 + live_or_reserved + over_reserved.  Hence: with room ([live_or_reserved < limit])
    and no submitter between its AddInt32 and its undo the expansion is granted; and an expansion
    refused while there is room is refused because at least [limit - live_or_reserved] submitters
    are transiently over-reserving (each of them is about to decrement: [subsub_step]). *)
Theorem cap_not_undershot c i id :
  GoodE c -> at_pc c i (SubAddExp id) ->
  let s := c_sh c in let ps := aths c in
  let v := (p_expanded s + 1)%Z in
  v = (live_or_reserved nc s ps + Z.of_nat (over_reserved ps) + 1)%Z /\
  ((live_or_reserved nc s ps < lim)%Z -> over_reserved ps = 0 ->
     (v <= lim)%Z /\ at_pc (step_cfg M c i) i (SubWgAdd id)) /\
  ((lim < v)%Z -> at_pc (step_cfg M c i) i (SubSubExp id) /\
                  (lim - live_or_reserved nc s ps <= Z.of_nat (over_reserved ps))%Z).
Proof.
  intros HG Ha s ps v. destruct (addexp_step c HG i id Ha) as (Ev & _ & _ & Hle & Hgt).
  fold s ps v in Ev, Hle, Hgt. split; [exact Ev|]. split.
  - intros Hroom Hov. assert (Hv : (v <= lim)%Z) by lia. auto.
  - intros Hv. split; [auto|lia].
Qed.

(* the same seen from the select: queue full, room, nobody between AddInt32 and undo, and the submitter
   runs its next two steps: it is granted *)
Theorem cap_not_undershot_select c i id :
  GoodE c -> at_pc c i (SubTrySel id) ->
  let s := c_sh c in let ps := aths c in
  queue_send_ready s = false ->
  (live_or_reserved nc s ps < lim)%Z -> over_reserved ps = 0 ->
  let c2 := final M c [i; i] in
  at_pc c2 i (SubWgAdd id) /\ p_expanded (c_sh c2) = (live_or_reserved nc s ps + 1)%Z.
Proof.
  intros HG Ha s ps Hfull Hroom Hov c2.
  destruct (trysel_step c HG i id Ha) as (_ & _ & Hdef & _). destruct (Hdef Hfull) as [Ha1 Hs1].
  pose proof (GoodE_step c i HG) as HG1.
  destruct (addexp_step _ HG1 i id Ha1) as (_ & _ & Hs2 & Hle & _).
  destruct (expanded_value c HG) as (Ev & _). fold s ps in Ev.
  assert (E1 : p_expanded (c_sh (step_cfg M c i)) = p_expanded s) by (rewrite Hs1; reflexivity).
  unfold c2. rewrite !final_cons, final_nil. split.
  - apply Hle. rewrite E1. lia.
  - rewrite Hs2. simpl. rewrite E1. lia.
Qed.

(** ** (C) leaving the loop of an expanded worker *)
Section Exit.
Variable c : pconfig.
Hypothesis HG : GoodE c.
Let s := c_sh c.
Let ps := aths c.

Lemma worker_pc_index i l : at_pc c i l -> worker_pc l = true -> nc <= i.
Proof.
  intros Ha Hw. destruct (at_pc_thread c HG _ _ Ha) as (th & o & Hn & Hd & Hc & Hna).
  destruct HG as ([H1 _ _ _ _ _ _] & _ & _). fold s ps in H1.
  pose proof (i_wf _ _ _ H1 _ _ Hna) as Hwf. unfold wf in Hwf. simpl in Hwf.
  destruct (Nat.ltb_spec i nc) as [Hlt|Hge]; [|exact Hge].
  destruct Hwf as (_ & Hc' & _). unfold client_pc in Hc'. rewrite Hw in Hc'. destruct l; discriminate.
Qed.

Lemma aths_step_next i th o l l' s' :
  nth_error (c_thr c) i = Some th -> t_dead th = false -> t_cur th = Some (o, l) ->
  pstep nw lim l (c_sh c) = Next l' s' -> aths (step_cfg M c i) = upd ps i (t_prog th, Some l').
Proof.
  intros Hn Hd Hc Hp. unfold step_cfg. rewrite (step_at nw lim c i th o _ Hn Hd Hc), Hp. unfold aths. simpl.
  rewrite map_upd. reflexivity.
Qed.

Lemma aths_step_done i th o l r u s' :
  nth_error (c_thr c) i = Some th -> t_dead th = false -> t_cur th = Some (o, l) ->
  pstep nw lim l (c_sh c) = Done r u s' -> aths (step_cfg M c i) = upd ps i (t_prog th, None).
Proof.
  intros Hn Hd Hc Hp. unfold step_cfg. rewrite (step_at nw lim c i th o _ Hn Hd Hc), Hp. unfold aths. simpl.
  rewrite map_upd. reflexivity.
Qed.

(** [atomic.AddInt32(&p.expanded, -1)] of the deferred function *)
Theorem exit_dec_step i :
  at_pc c i XExitDec ->
  let c' := step_cfg M c i in
  step_thread M c i <> None /\
  at_pc c' i XExitDone /\
  c_sh c' = upd_expanded s (p_expanded s - 1) /\         (* exactly one decrement, no wrap; wg untouched *)
  nD nc (c_sh c') (aths c') = nD nc s ps + 1 /\
  live_or_reserved nc (c_sh c') (aths c') = (live_or_reserved nc s ps - 1)%Z /\
  over_reserved (aths c') = over_reserved ps.
Proof.
  intros Ha c'. destruct (at_pc_thread c HG _ _ Ha) as (th & o & Hn & Hd & Hc & Hna). fold ps in Hna.
  pose proof (worker_pc_index _ _ Ha eq_refl) as Hi.
  destruct (expanded_value c HG) as (Ev & Hle & Hge & Hcnt). fold s ps in Ev, Hle, Hge, Hcnt.
  destruct HG as ([H1 _ _ [Rro Re1 Re2] _ _ _] & _ & _). fold s ps in H1, Rro, Re1, Re2.
  pose proof (expanded_bound lim nc Hlim _ _ (i_wf _ _ _ H1) Rro) as Hb.
  pose proof (cntp_ge is_predec _ _ _ Hna) as Gpd. unfold pcf in Gpd. simpl in Gpd.
  assert (Hw : wrap32 (p_expanded s - 1) = (p_expanded s - 1)%Z).
  { apply wrap32_small. unfold live_or_reserved in *. lia. }
  assert (Hp : pstep nw lim XExitDec (c_sh c) = Next XExitDone (upd_expanded s (p_expanded s - 1))).
  { simpl. fold s. rewrite Hw. reflexivity. }
  destruct (step_at_next nw lim c i th o _ _ _ Hn Hd Hc Hp) as (S1 & S2 & S3 & _). fold c' in S2, S3.
  pose proof (aths_step_next i th o _ _ _ Hn Hd Hc Hp) as Eaths. fold c' in Eaths.
  split; [exact S1|]. split; [exact S3|]. split; [exact S2|].
  pose proof (cntp_upd is_subsub ps i _ (t_prog th, Some XExitDone) Hna) as Ess.
  pose proof (cntp_upd is_wgadd ps i _ (t_prog th, Some XExitDone) Hna) as Ewg.
  pose proof (nD_upd nc s ps i _ (t_prog th, Some XExitDone) Hna) as ED.
  unfold pcf, fD in Ess, Ewg, ED. simpl in Ess, Ewg, ED.
  assert (Hl : (nc <=? i) = true) by (apply Nat.leb_le; exact Hi). rewrite Hl in ED.
  assert (EnD : nD nc (c_sh c') (aths c') = nD nc s (aths c')).
  { rewrite S2. unfold nD. apply sumi_ext. intros j a _. reflexivity. }
  assert (EnRE : nRE (c_sh c') = nRE s) by (rewrite S2; reflexivity).
  unfold live_or_reserved, over_reserved. rewrite EnD, EnRE, Eaths. repeat split; lia.
Qed.

(** [p.wg.Done()] of the deferred function: the goroutine is finished *)
Theorem exit_done_step i :
  at_pc c i XExitDone ->
  let c' := step_cfg M c i in
  step_thread M c i <> None /\
  finished_thr c' i /\
  (exists n, p_wg s = S n /\ c_sh c' = upd_wg s n) /\   (* exactly one wg.Done(); the counter untouched *)
  nD nc (c_sh c') (aths c') = nD nc s ps /\
  live_or_reserved nc (c_sh c') (aths c') = live_or_reserved nc s ps /\
  over_reserved (aths c') = over_reserved ps.
Proof.
  intros Ha c'. destruct (at_pc_thread c HG _ _ Ha) as (th & o & Hn & Hd & Hc & Hna). fold ps in Hna.
  pose proof (worker_pc_index _ _ Ha eq_refl) as Hi.
  destruct HG as ([H1 _ _ [Rro Re1 Re2] _ _ _] & _ & _). fold s ps in H1, Rro, Re1, Re2.
  pose proof (i_wg _ _ _ H1) as Iwg. pose proof (started_bound _ _ _ (i_wf _ _ _ H1)) as Hsb.
  pose proof (slotc_ge nc running _ _ _ Hna) as Grn. unfold slotf in Grn.
  assert (Hl : (nc <=? i) = true) by (apply Nat.leb_le; exact Hi). rewrite Hl in Grn.
  change (running (t_prog th, Some XExitDone)) with 1 in Grn.
  destruct (p_wg s) as [|n] eqn:Ewg0; [lia|].
  assert (Hp : pstep nw lim XExitDone (c_sh c) = Done PU tt (upd_wg s n)).
  { simpl. fold s. rewrite Ewg0. reflexivity. }
  destruct (step_at_done nw lim c i th o _ _ _ _ Hn Hd Hc Hp) as (S1 & S2 & S3). fold c' in S2, S3.
  pose proof (aths_step_done i th o _ _ _ _ Hn Hd Hc Hp) as Eaths. fold c' in Eaths.
  pose proof (i_wf _ _ _ H1 _ _ Hna) as Hwf. unfold wf in Hwf. simpl in Hwf.
  assert (Hltb : (i <? nc) = false) by (apply Nat.ltb_ge; exact Hi). rewrite Hltb in Hwf.
  destruct Hwf as (_ & _ & Hprog & Hsp).
  split; [exact S1|]. split; [exists (Thread (t_prog th) tt None false); auto|].
  split; [exists n; auto|].
  pose proof (Rro _ _ Hna) as Hro. unfold role_ok in Hro. simpl in Hro. destruct Hro as [_ Hexp]. specialize (Hexp eq_refl).
  pose proof (cntp_upd is_subsub ps i _ (t_prog th, None) Hna) as Ess.
  pose proof (cntp_upd is_wgadd ps i _ (t_prog th, None) Hna) as Ewg.
  pose proof (nD_upd nc s ps i _ (t_prog th, None) Hna) as ED.
  unfold pcf, fD in Ess, Ewg, ED. simpl in Ess, Ewg, ED. rewrite Hl, Hprog in ED. unfold roleE in ED. rewrite Hexp in ED.
  assert (EnD : nD nc (c_sh c') (aths c') = nD nc s (aths c')).
  { rewrite S2. unfold nD. apply sumi_ext. intros j a _. reflexivity. }
  assert (EnRE : nRE (c_sh c') = nRE s) by (rewrite S2; reflexivity).
  unfold live_or_reserved, over_reserved. rewrite EnD, EnRE, Eaths. rewrite Hprog in *. repeat split; lia.
Qed.

(* a thread that is at pc l and, after its step, at pc l' *)
Lemma at_pc_step_inv i l l' :
  at_pc c i l -> at_pc (step_cfg M c i) i l' ->
  (exists s', pstep nw lim l s = Next l' s') \/ (pstep nw lim l s = Blocked /\ l' = l).
Proof.
  intros Ha Ha'. destruct (at_pc_thread c HG _ _ Ha) as (th & o & Hn & Hd & Hc & Hna).
  apply at_pc_pc_of in Ha'. unfold pc_of, step_cfg in Ha'. rewrite (step_at nw lim c i th o l Hn Hd Hc) in Ha'.
  fold s in Ha'. destruct (pstep nw lim l s) as [l1 s1|r u s1| |] eqn:Ep; simpl in Ha'.
  - rewrite nth_error_upd, Nat.eqb_refl, Hn in Ha'. simpl in Ha'. injection Ha' as <-. left. eauto.
  - rewrite nth_error_upd, Nat.eqb_refl, Hn in Ha'. discriminate.
  - rewrite Hn, Hc in Ha'. injection Ha' as <-. right. auto.
  - rewrite nth_error_upd, Nat.eqb_refl, Hn in Ha'. discriminate.
Qed.

(* the select of an expanded worker, case by case *)
Lemma xselect_pstep j x :
  nth_error (p_timers s) j = Some x ->
  let ch := hd 0 (p_choices s) in
  let s1 := upd_choices s (tl (p_choices s)) in
  let recv := match p_queue s with
              | id :: r => Next (XStopTimer (S j) (Some id)) (upd_queue s1 r)
              | [] => Next (XStopTimer (S j) None) s1
              end in
  let expire := Next XExitDec (timer_set s1 (S j) (Timer (tm_armed x) false)) in
  pstep nw lim (XSelect (S j)) s =
    match queue_recv_ready s, tm_fired x with
    | false, false => Blocked
    | true, false => recv
    | false, true => expire
    | true, true => if Nat.eqb (ch mod 2) 0 then recv else expire
    end.
Proof.
  intros Hj ch s1 recv expire. remember (ch mod 2) as m eqn:Em.
  simpl. unfold timer_get. rewrite Hj, take_choice_eq. fold ch s1.
  destruct (queue_recv_ready s), (tm_fired x); unfold ready_cases; cbn [length seq combine filter snd map fst].
  - rewrite pick_ready_two, <- Em. pose proof (Nat.mod_upper_bound ch 2 ltac:(lia)) as Hm. rewrite <- Em in Hm.
    destruct m as [|[|k]]; [reflexivity|reflexivity|lia].
  - rewrite pick_ready_one. reflexivity.
  - rewrite pick_ready_one. reflexivity.
  - reflexivity.
Qed.

(* the timer of a worker waiting in its select *)
Lemma xselect_timer i tm :
  at_pc c i (XSelect tm) ->
  exists j x, tm = S j /\ nth_error (p_timers s) j = Some x /\
              tm_armed x || tm_fired x = true /\ tm_armed x && tm_fired x = false.
Proof.
  intros Ha. destruct (at_pc_thread c HG _ _ Ha) as (th & o & Hn & Hd & Hc & Hna). fold ps in Hna.
  destruct HG as ([H1 _ H3 _ HT _ _] & _ & _). fold s ps in H1, H3, HT.
  pose proof (i_wf _ _ _ H1 _ _ Hna) as Hwf. unfold wf in Hwf. simpl in Hwf. destruct Hwf as [Hpc _].
  destruct tm as [|j]; [lia|]. exists j.
  destruct (nth_error (p_timers s) j) as [x|] eqn:Ej; [|apply nth_error_None in Ej; lia].
  exists x. split; [reflexivity|]. split; [reflexivity|].
  pose proof (cntp_ge (at_sel (S j)) _ _ _ Hna) as Gs. unfold pcf in Gs. simpl in Gs. rewrite Nat.eqb_refl in Gs.
  split; [apply (u_sel _ _ HT j x Ej Gs)|apply (k_tm _ _ _ _ H3 j x Ej)].
Qed.

(** how the exit path is entered: by the timer branch of the select, the timer having fired, or after
    the receive branch has reported the queue closed; either way the worker's timer is left stopped
    and owned by nobody *)
Theorem exit_entry i l :
  at_pc c i l -> at_pc (step_cfg M c i) i XExitDec ->
  exists j x, nth_error (p_timers s) j = Some x /\
    ((l = XSelect (S j) /\ tm_fired x = true /\ tm_armed x = false) \/
     (l = XStopTimer (S j) None /\ p_qclosed s = true)) /\
    nth_error (p_timers (c_sh (step_cfg M c i))) j = Some (Timer false false) /\
    cntp (owns (S j)) (aths (step_cfg M c i)) = 0.
Proof.
  intros Ha Ha'. destruct (at_pc_thread c HG _ _ Ha) as (th & o & Hn & Hd & Hc & Hna). fold ps in Hna.
  destruct (at_pc_step_inv _ _ _ Ha Ha') as [[s' Hp]|[Hp Hl]]; [|subst l; simpl in Hp; discriminate Hp].
  destruct (step_at_next nw lim c i th o _ _ _ Hn Hd Hc Hp) as (_ & S2 & _ & _).
  pose proof (aths_step_next i th o _ _ _ Hn Hd Hc Hp) as Eaths. rewrite S2, Eaths.
  assert (Hown : forall j, owns (S j) l = true -> cntp (owns (S j)) (upd ps i (t_prog th, Some XExitDec)) = 0).
  { intros j Ho. destruct HG as ([_ _ _ _ HT _ _] & _ & _). fold s ps in HT.
    pose proof (u_one _ _ HT j) as U1. pose proof (cntp_upd (owns (S j)) ps i _ (t_prog th, Some XExitDec) Hna) as E.
    unfold pcf in E. simpl in E. rewrite Ho in E. lia. }
  pose proof (next_exitdec nw lim _ _ _ Hp) as Hl.
  destruct l; try contradiction; try (destruct got; [contradiction|]).
  - (* XSelect *)
    destruct (xselect_timer _ _ Ha) as (j & x & -> & Hj & Hor & Hand).
    rewrite (xselect_pstep j x Hj) in Hp. exists j, x. split; [exact Hj|].
    assert (Hf : tm_fired x = true).
    { destruct (queue_recv_ready s), (tm_fired x); try reflexivity; try discriminate Hp; destruct (p_queue s); discriminate Hp. }
    rewrite Hf in Hand. rewrite andb_true_r in Hand.
    split; [left; auto|]. split; [|apply Hown; simpl; apply Nat.eqb_refl].
    rewrite Hf, Hand in Hp.
    assert (Es' : s' = timer_set (upd_choices s (tl (p_choices s))) (S j) (Timer false false)).
    { destruct (queue_recv_ready s); [destruct (hd 0 (p_choices s) mod 2 =? 0); [destruct (p_queue s); discriminate Hp|]|];
        injection Hp as <-; reflexivity. }
    rewrite Es'. simpl. rewrite nth_error_upd, Nat.eqb_refl, Hj. reflexivity.
  - (* XStopTimer *)
    destruct HG as ([H1 _ _ _ HT _ HX] & _ & _). fold s ps in H1, HT, HX.
    pose proof (i_wf _ _ _ H1 _ _ Hna) as Hwf. unfold wf in Hwf. simpl in Hwf. destruct Hwf as [[Hpc _] _].
    destruct tm as [|j]; [lia|]. exists j.
    destruct (nth_error (p_timers s) j) as [x|] eqn:Ej; [|apply nth_error_None in Ej; lia].
    exists x. split; [reflexivity|].
    pose proof (cntp_ge (at_sel (S j)) _ _ _ Hna) as Gs. unfold pcf in Gs. simpl in Gs. rewrite Nat.eqb_refl in Gs.
    pose proof (u_sel _ _ HT j x Ej Gs) as Hor.
    simpl in Hp. unfold timer_get in Hp. rewrite Ej, Hor in Hp.
    injection Hp as <-.
    pose proof (cntp_ge saw_closed _ _ _ Hna) as Gx. unfold pcf in Gx. simpl in Gx.
    split; [right; split; [reflexivity|apply HX; exact Gx]|].
    split; [simpl; rewrite nth_error_upd, Nat.eqb_refl, Ej; reflexivity|apply Hown; simpl; apply Nat.eqb_refl].
  - (* XDrainTimer: never reached *)
    exfalso. destruct HG as ([_ _ _ _ HT _ _] & _ & _). fold s ps in HT.
    pose proof (cntp_ge is_xdrt _ _ _ Hna) as Gx. rewrite (u_nd _ _ HT) in Gx. unfold pcf in Gx. simpl in Gx. lia.
Qed.

(** (D) an idle expanded worker whose timer has fired can always expire *)
Theorem idle_expanded_worker_can_expire i tm :
  at_pc c i (XSelect tm) ->
  exists j x, tm = S j /\ nth_error (p_timers s) j = Some x /\
    (tm_fired x = true ->
       step_thread M c i <> None /\                                       (* the select is not blocked *)
       (* the timer branch is ready: it is taken whenever the oracle picks it ... *)
       ((hd 0 (p_choices s)) mod 2 = 1 -> at_pc (step_cfg M c i) i XExitDec) /\
       (* ... and it is the only ready branch when the queue is empty and open *)
       (p_queue s = [] -> p_qclosed s = false -> at_pc (step_cfg M c i) i XExitDec)) /\
    (* never spontaneously: without an expiry the timer branch is not taken *)
    (tm_fired x = false -> ~ at_pc (step_cfg M c i) i XExitDec).
Proof.
  intros Ha. destruct (at_pc_thread c HG _ _ Ha) as (th & o & Hn & Hd & Hc & Hna). fold ps in Hna.
  destruct (xselect_timer _ _ Ha) as (j & x & -> & Hj & Hor & Hand).
  exists j, x. split; [reflexivity|]. split; [exact Hj|].
  pose proof (xselect_pstep j x Hj) as Hp. cbv zeta in Hp.
  split.
  - intros Hf. rewrite Hf in Hp.
    assert (Hexp : forall s', pstep nw lim (XSelect (S j)) s = Next XExitDec s' -> at_pc (step_cfg M c i) i XExitDec).
    { intros s' Hp'. destruct (step_at_next nw lim c i th o _ _ _ Hn Hd Hc Hp') as (_ & _ & S3 & _). exact S3. }
    split; [|split].
    + rewrite (step_at nw lim c i th o _ Hn Hd Hc). fold s. rewrite Hp.
      destruct (queue_recv_ready s); [destruct (hd 0 (p_choices s) mod 2 =? 0); [destruct (p_queue s)|]|]; discriminate.
    + intros Hodd. rewrite Hodd in Hp. cbn [Nat.eqb] in Hp. destruct (queue_recv_ready s); eapply Hexp; exact Hp.
    + intros Hq Hqc. assert (Hqr : queue_recv_ready s = false) by (unfold queue_recv_ready; rewrite Hq, Hqc; reflexivity).
      rewrite Hqr in Hp. eapply Hexp; exact Hp.
  - intros Hf Ha'. rewrite Hf in Hp.
    destruct (at_pc_step_inv _ _ _ Ha Ha') as [[s' Hp']|[_ Hx]]; [|discriminate Hx].
    rewrite Hp in Hp'. destruct (queue_recv_ready s); [destruct (p_queue s)|]; discriminate Hp'.
Qed.

End Exit.
End Main.

Print Assumptions addexp_step.
Print Assumptions wgadd_step.
Print Assumptions subsub_step.
Print Assumptions trysel_step.
Print Assumptions cap_not_undershot.
Print Assumptions cap_not_undershot_select.
Print Assumptions exit_dec_step.
Print Assumptions exit_done_step.
Print Assumptions exit_entry.
Print Assumptions idle_expanded_worker_can_expire.
