(** Safety of the worker pool, part 11: backpressure yields to cancellation (C17).

    A Do / Execute call waiting at its blocking select ([SubPush]) is blocked
    exactly while the queue is full AND neither the pool's context nor the
    task's context is done.  When the select fires on a cancelled context the
    call moves to [SubFut], whose step is never blocked and delivers the one
    and only result of the task, the cancellation result; the task is never
    executed ([PoolAfterStop.one_result_per_task]). *)
From Coq Require Import List Arith Bool ZArith Lia.
From Garr Require Import Conc.Conc Pure.F64 Queue.MutexModel Pool.PoolModel Pool.PoolBase Pool.PoolInv1 Pool.PoolTok
  Pool.PoolStop Pool.PoolStopMain Pool.PoolWg Pool.PoolCap Pool.PoolMain Pool.PoolStopDone Pool.PoolAcct Pool.PoolHist
  Pool.PoolAfterStop.
Import ListNotations.

Lemma pick_ready_nonempty ready k : ready <> [] -> pick_ready ready k <> None.
Proof.
  unfold pick_ready. destruct ready as [|r0 ready]; [congruence|]. intros _ H.
  apply nth_error_None in H.
  assert (Hlt : k mod length (r0 :: ready) < length (r0 :: ready)) by (apply Nat.mod_upper_bound; simpl; lia).
  lia.
Qed.

Section Main.
Variable nw : nat.
Variable lim : Z.
Variables (autostart : bool) (choices : list nat) (clients : list (list pop)) (nslots : nat).
Hypothesis Hok : clients_ok clients.
Notation M := (pool nw lim).
Notation nc := (length clients).
Notation ndo := (cntdo (concat clients)).
Notation cfg0 := (pool_cfg nw autostart choices clients nslots).

Variable sched : list nat.
Let c := final M cfg0 sched.
Let tr := trace M cfg0 sched.
Let s := c_sh c.

(** (B) [do_select_enabled_when_cancelled] *)
Theorem do_select_enabled_when_cancelled i id :
  at_pc c i (SubPush id) ->
  exists t, get_task s id = Some t /\
    p_closedflag s = false /\ p_qclosed s = false /\
    (* blocked exactly while the queue is full and neither context is done *)
    (pstep nw lim (SubPush id) s = Blocked <->
       p_poolctx s = false /\ ctx_done s (tk_ctx t) = false /\ length (p_queue s) = 1) /\
    pstep nw lim (SubPush id) s <> Fault /\
    (* when it fires: on a context that IS cancelled, or into the empty queue slot *)
    (forall l' s', pstep nw lim (SubPush id) s = Next l' s' ->
       (l' = SubFut KDo id true /\ p_poolctx s = true /\ p_queue s' = p_queue s) \/
       (l' = SubFut KDo id false /\ ctx_done s (tk_ctx t) = true /\ p_queue s' = p_queue s) \/
       (l' = SubRUnlock KDo /\ p_queue s = [] /\ p_queue s' = [id])).
Proof.
  intros Ha.
  pose proof (Hist_reach nw lim autostart choices clients nslots Hok sched) as HH. fold c tr in HH.
  pose proof (Hist_I1 _ _ _ HH) as HI1. pose proof (Hist_I2 _ _ _ HH) as HI2. fold s in HI1, HI2.
  destruct (at_pc_abs _ _ _ Ha) as [pr Hn].
  pose proof (i_wf _ _ _ HI1 _ _ Hn) as Hwf. unfold wf in Hwf. simpl in Hwf. destruct Hwf as [Hpc _].
  unfold has_task in Hpc. destruct (get_task s id) as [t|] eqn:Eg; [|congruence]. exists t. split; [reflexivity|].
  pose proof (cntp_ge is_open _ _ _ Hn) as Hop. unfold pcf in Hop. simpl in Hop.
  pose proof (i_cf _ _ _ HI1) as Icf.
  assert (Hcf : p_closedflag s = false) by (destruct (p_closedflag s); [lia|reflexivity]).
  rewrite Hcf in Icf. destruct Icf as [_ Hqc].
  pose proof (t_qlen _ _ HI2) as Hql.
  split; [exact Hcf|]. split; [exact Hqc|].
  assert (Hqs : queue_send_ready s = Nat.ltb (length (p_queue s)) 1) by (unfold queue_send_ready; rewrite Hqc; reflexivity).
  simpl. unfold submit_select. rewrite Eg, take_choice_eq. unfold submit_conds. rewrite Hqs, Hqc.
  destruct (pick_ready (ready_cases [p_poolctx s; ctx_done s (tk_ctx t); length (p_queue s) <? 1]) (hd 0 (p_choices s)))
    as [k|] eqn:Ep.
  - pose proof (pick_ready_cond _ _ _ Ep) as Hk.
    split; [|split].
    + split; [destruct k as [|[|k]]; discriminate|].
      intros (H1 & H2 & H3). exfalso. rewrite H1, H2 in Ep.
      assert (E3 : (length (p_queue s) <? 1) = false) by (apply Nat.ltb_ge; lia). rewrite E3 in Ep. discriminate Ep.
    + destruct k as [|[|k]]; discriminate.
    + intros l' s' H. destruct k as [|[|k]]; simpl in Hk.
      * left. unfold goto in H. injection H as <- <-. auto.
      * right; left. unfold goto in H. injection H as <- <-. auto.
      * right; right. destruct k as [|k]; [|destruct k; discriminate Hk]. simpl in Hk.
        apply Nat.ltb_lt in Hk. destruct (p_queue s) as [|q0 q] eqn:Eq; [|simpl in Hk; lia].
        unfold after_sub, goto in H. injection H as <- <-. auto.
  - split; [|split; [discriminate|intros l' s' H; discriminate H]].
    split; [intros _|reflexivity].
    pose proof (pick_ready_none _ _ Ep) as Hnone.
    pose proof (Hnone 0) as N0. pose proof (Hnone 1) as N1. pose proof (Hnone 2) as N2. simpl in N0, N1, N2.
    apply Nat.ltb_ge in N2. repeat split; auto; lia.
Qed.

(** the delivery of the context error: never blocked, exactly one result, never executed *)
Theorem cancelled_submission_delivers i k id b :
  at_pc c i (SubFut k id b) ->
  exists t, get_task s id = Some t /\ tk_future t = [] /\ tk_execs t = 0 /\ recvd id tr = [] /\
    pstep nw lim (SubFut k id b) s =
      Next (SubRUnlock k) (set_task s id (Task (tk_ctx t) (tk_gate t) [TCanceled] 0)).
Proof.
  intros Ha.
  pose proof (Hist_reach nw lim autostart choices clients nslots Hok sched) as HH. fold c tr in HH.
  pose proof (Hist_I1 _ _ _ HH) as HI1. pose proof (Hist_I2 _ _ _ HH) as HI2. fold s in HI1, HI2.
  destruct (at_pc_abs _ _ _ Ha) as [pr Hn].
  pose proof (i_wf _ _ _ HI1 _ _ Hn) as Hwf. unfold wf in Hwf. simpl in Hwf. destruct Hwf as [Hpc _].
  unfold has_task in Hpc. destruct (get_task s id) as [t|] eqn:Eg; [|congruence]. exists t. split; [reflexivity|].
  pose proof (H0_at _ _ _ id Ha eq_refl) as Hh.
  pose proof (h_one _ _ _ _ _ HH id) as H1. unfold Dx, tokens, futlen in H1. fold s in H1. rewrite Eg in H1.
  destruct (t_ex _ _ HI2 id t Eg) as (_ & T2 & _).
  assert (Hf : tk_future t = []) by (destruct (tk_future t); [reflexivity|simpl in H1; lia]).
  assert (He : tk_execs t = 0) by (apply T2; lia).
  split; [exact Hf|]. split; [exact He|]. split; [destruct (recvd id tr); [reflexivity|simpl in H1; lia]|].
  simpl. rewrite Eg. unfold future_send. rewrite Eg, Hf, He. reflexivity.
Qed.

End Main.

Print Assumptions do_select_enabled_when_cancelled.
Print Assumptions cancelled_submission_delivers.
