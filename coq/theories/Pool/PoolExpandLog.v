(** Worker pool, C11 "reaches its cap" / "expansion is temporary": the safety
    cores, part 2 - statements over the LOG of an execution
    ([steps_of]: every step taken, as (configuration before the step, thread)).

    - [log_abs_invariant]: proof principle for invariants over (log, state).
    - [exit_counts]: per goroutine, the number of [AddInt32(&p.expanded,-1)]
      steps and of [wg.Done()] steps of the exit path executed so far.
    - [reservation_balance]: live_or_reserved = granted - exited.
    - [fired_by_environment]: an unreceived expiry seen by a worker waiting in
      its select was put there by a [Fire] step that happened while it waited. *)
From Coq Require Import List Arith Bool ZArith Lia.
From Garr Require Import Conc.Conc Pure.F64 Queue.MutexModel Pool.PoolModel Pool.PoolBase Pool.PoolInv1 Pool.PoolTok
  Pool.PoolStop Pool.PoolStopMain Pool.PoolWg Pool.PoolCap Pool.PoolMain Pool.PoolStopDone Pool.PoolAcct Pool.PoolHist
  Pool.PoolAfterStop Pool.PoolSelect Pool.PoolTimers Pool.PoolLive Pool.PoolProgress Pool.PoolExpand.
From Garr Require Breaker.ConcBase.
Import ListNotations.

Notation steps_of := ConcBase.steps_of.
Notation plog := (list (pconfig * nat)).

(** ** Reading a log entry *)
(* the pc the thread steps from ([PInv o] when the step is the invocation of o) *)
Definition step_pc (e : pconfig * nat) : option ppc :=
  match nth_error (aths (fst e)) (snd e) with
  | Some a => match a_view a with Some (l, _) => Some l | None => None end
  | None => None
  end.
Definition is_pc (p : ppc -> bool) (e : pconfig * nat) : bool :=
  match step_pc e with Some l => p l | None => false end.
(* steps from a pc satisfying p, by anybody / by thread i *)
Definition nsteps (p : ppc -> bool) (lg : plog) : nat := length (filter (is_pc p) lg).
Definition nsteps_of (i : nat) (p : ppc -> bool) (lg : plog) : nat :=
  length (filter (fun e => Nat.eqb (snd e) i && is_pc p e) lg).

Lemma nsteps_app p l1 l2 : nsteps p (l1 ++ l2) = nsteps p l1 + nsteps p l2.
Proof. unfold nsteps. rewrite filter_app, app_length. reflexivity. Qed.
Lemma nsteps_of_app i p l1 l2 : nsteps_of i p (l1 ++ l2) = nsteps_of i p l1 + nsteps_of i p l2.
Proof. unfold nsteps_of. rewrite filter_app, app_length. reflexivity. Qed.

Lemma at_pc_step_pc c i l : at_pc c i l -> step_pc (c, i) = Some l.
Proof.
  intros Ha. destruct (at_pc_abs _ _ _ Ha) as [pr Hn]. unfold step_pc. simpl. rewrite Hn. reflexivity.
Qed.

Definition is_xdec (l : ppc) : bool := match l with XExitDec => true | _ => false end.
Definition is_fire (l : ppc) : bool := match l with FFire _ => true | _ => false end.

(* goroutines that have executed wg.Done() of the expanded worker's exit path *)
Definition fDone (nc : nat) (s : pshared) (i : nat) (a : ath) : nat :=
  if nc <=? i then
    match snd a with
    | Some _ => 0
    | None => match fst a with [] => roleE s (i - nc) | _ => 0 end
    end
  else 0.

(** ** What one abstract step does to the exit accounting of the stepping thread *)
Section AbsSteps.
Variable nw : nat.
Variable lim : Z.
Variable nc : nat.

Lemma fD_step s ps t a l pr cur s' :
  Inv1 nc s ps -> Inv4 nc lim s ps -> nth_error ps t = Some a -> a_view a = Some (l, pr) ->
  astep nw lim l s = RNext cur s' ->
  fD nc s' t (pr, cur) = fD nc s t a + (if is_xdec l then 1 else 0) /\
  fDone nc s' t (pr, cur) = fDone nc s t a + (if is_xdone l then 1 else 0).
Proof.
  intros HI1 HI4 Hn Hv H.
  pose proof (i_wf _ _ _ HI1 _ _ Hn) as Hwf.
  pose proof (r_role _ _ _ _ HI4 _ _ Hn) as Hro.
  assert (Hk : (nc <=? t) = negb (t <? nc)).
  { destruct (Nat.leb_spec nc t), (Nat.ltb_spec t nc); simpl; try reflexivity; lia. }
  destruct a as [prog [l0|]]; unfold a_view in Hv; simpl in Hv.
  - injection Hv as <- <-. unfold wf in Hwf; simpl in Hwf. unfold role_ok in Hro; simpl in Hro.
    destruct Hro as [Hfix Hexp].
    destruct l0.
    all: step_cases H.
    all: unfold fD, fDone; simpl; rewrite Hk; destruct (t <? nc) eqn:Et; simpl; simpl in Hwf; destr_hyps; try discriminate; subst.
    all: try (split; reflexivity).
    all: unfold roleE; simpl.
    all: try (rewrite (Hfix eq_refl); split; reflexivity).
    all: try (rewrite (Hexp eq_refl); split; reflexivity).
  - destruct prog as [|o pr0]; [discriminate|]. injection Hv as <- <-.
    destruct o.
    all: step_cases H.
    all: unfold fD, fDone; simpl; destruct (nc <=? t); split; reflexivity.
Qed.

(* the other threads: nothing changes *)
Lemma fD_other s s' i a :
  sle s s' -> wf nc s i a -> fD nc s' i a = fD nc s i a /\ fDone nc s' i a = fDone nc s i a.
Proof.
  intros (_ & _ & l & E) Hwf. unfold fD, fDone.
  destruct (Nat.leb_spec nc i) as [Hle|Hgt]; [|auto].
  destruct (snd a) eqn:Es; [auto|]. destruct (fst a) eqn:Ef; [|auto].
  unfold wf in Hwf. rewrite Es, Ef in Hwf.
  assert (Hltb : (i <? nc) = false) by (apply Nat.ltb_ge; exact Hle). rewrite Hltb in Hwf.
  destruct Hwf as [Hf|[_ Hf]]; [discriminate|].
  unfold roleE. rewrite E. rewrite nth_error_app1 by exact Hf. auto.
Qed.

(* reserve-then-spawn: started expanded goroutines + reservations grow exactly at a granted AddInt32 *)
Definition granted_abs (l : ppc) (s : pshared) : bool :=
  match l with SubAddExp _ => (wrap32 (p_expanded s + 1) <=? lim)%Z | _ => false end.

Lemma reserve_step l s cur s' :
  astep nw lim l s = RNext cur s' ->
  nRE s' + pcf is_wgadd ([], cur) =
  nRE s + (if is_wgadd l then 1 else 0) + (if granted_abs l s then 1 else 0).
Proof.
  intros H. destruct l; try (match goal with o : pop |- _ => destruct o end); step_cases H;
    unfold nRE, pcf, granted_abs; simpl; rewrite ?filter_length_app, ?filter_re_repeat; simpl; norm_bools; lia.
Qed.

(* an unreceived expiry is put into a timer only by the environment's Fire *)
Lemma fired_origin l s cur s' j x' :
  astep nw lim l s = RNext cur s' -> nth_error (p_timers s') j = Some x' -> tm_fired x' = true ->
  (exists x, nth_error (p_timers s) j = Some x /\ tm_fired x = true) \/
  (exists n, l = FFire n /\ nth_armed (p_timers s) n 0 = Some j).
Proof.
  intros H Hj Hf.
  destruct l; try (match goal with o : pop |- _ => destruct o end); step_cases H; simpl in Hj;
    try (left; eauto; fail).
  all: try (apply nth_error_snoc in Hj; destruct Hj as [Hj|[_ ->]]; [left; eauto|discriminate Hf]).
  all: try (destruct tm as [|tm']; simpl in Hj; [left; eauto; fail|]).
  all: rewrite nth_error_upd in Hj;
       match type of Hj with context [Nat.eqb ?a ?b] => destruct (Nat.eqb_spec a b) as [->|Hne] end;
       try (left; eauto; fail).
  all: try (match type of Hj with context [nth_error ?l ?k] => destruct (nth_error l k); [|discriminate Hj] end;
            injection Hj as <-; try discriminate Hf).
  all: right; eauto.
Qed.

(* a worker enters its select with its timer armed and no expiry pending *)
Lemma enter_select l s tm s' :
  astep nw lim l s = RNext (Some (XSelect tm)) s' ->
  exists j, tm = S j /\ nth_error (p_timers s') j = Some (Timer true false).
Proof.
  intros H. unfold astep in H. destruct (pstep nw lim l s) as [l' s1|r u s1| |] eqn:Hp; try discriminate H.
  injection H as -> ->.
  destruct l; try (match goal with o : pop |- _ => destruct o end);
    unfold_pstep Hp; repeat break1 Hp; try discriminate Hp; injection Hp as <- <-.
  - exists (length (p_timers s)). split; [reflexivity|]. simpl. rewrite nth_error_app2 by lia. rewrite Nat.sub_diag. reflexivity.
  - exists (length (p_timers s)). split; [reflexivity|]. simpl. rewrite nth_error_app2 by lia. rewrite Nat.sub_diag. reflexivity.
  - match goal with E : nth_error (p_timers s) ?m = Some _ |- _ =>
      exists m; split; [reflexivity|]; cbn [p_timers upd_timers]; rewrite nth_error_upd, Nat.eqb_refl, E; reflexivity end.
Qed.

(* a stopped timer that nobody owns stays so *)
Definition dead_timer (j : nat) (s : pshared) (ps : list ath) : Prop :=
  cntp (owns (S j)) ps = 0 /\ nth_error (p_timers s) j = Some (Timer false false).

Lemma dead_timer_step j s ps t a l pr cur s' :
  Inv1 nc s ps -> dead_timer j s ps -> nth_error ps t = Some a -> a_view a = Some (l, pr) ->
  astep nw lim l s = RNext cur s' -> dead_timer j s' (upd ps t (pr, cur)).
Proof.
  intros HI1 [Hown Hj] Hn Hv H.
  assert (Hnp : forall prog l0, nth_error ps t = Some (prog, Some l0) -> forall o, l0 <> PInv o).
  { intros prog l0 Hn0. eapply stored_not_inv3; eauto. }
  pose proof (nth_error_lt _ _ _ Hj) as Hjl.
  pose proof (cntp_upd (owns (S j)) ps t _ (pr, cur) Hn) as Eo.
  pose proof (cntp_ge (owns (S j)) ps t _ Hn) as Go.
  destruct a as [prog [l0|]]; unfold a_view in Hv; simpl in Hv.
  - injection Hv as <- <-. specialize (Hnp _ _ Hn).
    destruct l0; try (exfalso; eapply Hnp; reflexivity).
    all: step_cases H.
    all: unfold pcf in Eo, Go; simpl in Eo, Go.
    all: split; [|simpl].
    all: try (repeat match goal with
              | H : context [Nat.eqb ?a ?b] |- _ => destruct (Nat.eqb_spec a b); [subst|]
              end; lia).
    all: try exact Hj.
    all: try (rewrite nth_error_app1 by exact Hjl; exact Hj).
    all: rewrite nth_error_upd; match goal with |- context [Nat.eqb ?a ?b] => destruct (Nat.eqb_spec a b) as [->|Hne] end;
         [|exact Hj].
    all: try (exfalso; rewrite ?Nat.eqb_refl in Go; lia).
    all: match goal with E : nth_armed _ _ _ = Some _ |- _ =>
           apply nth_armed_spec in E; destruct E as (_ & x0 & A1 & A2); rewrite Nat.sub_0_r in A1 end.
    all: rewrite Hj in A1; injection A1 as <-; discriminate A2.
  - destruct prog as [|o pr0]; [discriminate|]. injection Hv as <- <-.
    destruct o.
    all: step_cases H.
    all: unfold pcf in Eo, Go; simpl in Eo, Go.
    all: split; [|simpl].
    all: try (repeat match goal with
              | H : context [Nat.eqb ?a ?b] |- _ => destruct (Nat.eqb_spec a b); [subst|]
              end; lia).
    all: try exact Hj.
    all: try (rewrite nth_error_app1 by exact Hjl; exact Hj).
Qed.

(* how the blocking select of push is reached *)
Lemma enter_push l s id s' :
  astep nw lim l s = RNext (Some (SubPush id)) s' ->
  (l = SubRLock false id /\ lim = 0%Z) \/ l = SubWgAdd id \/ l = SubSubExp id.
Proof.
  intros H. unfold astep in H. destruct (pstep nw lim l s) as [l' s1|r u s1| |] eqn:Hp; try discriminate H.
  injection H as -> ->.
  destruct l; try (match goal with o : pop |- _ => destruct o end);
    unfold_pstep Hp; repeat break1 Hp; try discriminate Hp; injection Hp as <- <-; eqb_clean; auto.
Qed.

End AbsSteps.

(** ** Generic facts about [steps_of] *)
Section StepsOf.
Variable nw : nat.
Variable lim : Z.
Notation M := (pool nw lim).

Lemma steps_of_app : forall s1 s2 (c : pconfig),
  steps_of M c (s1 ++ s2) = steps_of M c s1 ++ steps_of M (final M c s1) s2.
Proof.
  induction s1 as [|t s1 IH]; intros s2 c; [reflexivity|].
  cbn [app ConcBase.steps_of]. rewrite final_cons. destruct (step_thread M c t) as [[c' e]|] eqn:E.
  - rewrite (ConcBase.step_cfg_some _ _ _ _ _ E). cbn [app]. rewrite IH. reflexivity.
  - rewrite (ConcBase.step_cfg_none _ _ _ E). apply IH.
Qed.

(* prefixes of the log are logs *)
Lemma steps_of_prefix : forall sched (c : pconfig) j cj tj,
  nth_error (steps_of M c sched) j = Some (cj, tj) ->
  exists s1, firstn j (steps_of M c sched) = steps_of M c s1 /\ cj = final M c s1.
Proof.
  induction sched as [|t s IH]; intros c j cj tj H.
  - destruct j; discriminate.
  - cbn [ConcBase.steps_of] in *. destruct (step_thread M c t) as [[c' e]|] eqn:E.
    + destruct j as [|j].
      * injection H as <- <-. exists []. split; reflexivity.
      * cbn [nth_error] in H. destruct (IH _ _ _ _ H) as (s1 & H1 & H2).
        exists (t :: s1). cbn [ConcBase.steps_of firstn]. rewrite E, H1, final_cons, (ConcBase.step_cfg_some _ _ _ _ _ E).
        split; [reflexivity | exact H2].
    + destruct (IH _ _ _ _ H) as (s1 & H1 & H2).
      exists (t :: s1). cbn [ConcBase.steps_of]. rewrite E, final_cons, (ConcBase.step_cfg_none _ _ _ E). auto.
Qed.

(* every entry of the log is a step that was enabled *)
Lemma steps_of_enabled sched (c : pconfig) j cj tj :
  nth_error (steps_of M c sched) j = Some (cj, tj) -> step_thread M cj tj <> None.
Proof.
  intros H. destruct (ConcBase.steps_of_split M _ _ _ _ _ H) as (s1 & s2 & ci' & e & _ & Hs & _). rewrite Hs. discriminate.
Qed.

(* steps of other threads leave thread i untouched *)
Lemma steps_other_thread i : forall sched (c : pconfig) m cm tm,
  nth_error (steps_of M c sched) m = Some (cm, tm) ->
  (forall k ck tk, k < m -> nth_error (steps_of M c sched) k = Some (ck, tk) -> tk <> i) ->
  nth_error (c_thr cm) i = nth_error (c_thr c) i.
Proof.
  induction sched as [|t s IH]; intros c m cm tm H Hoth.
  - destruct m; discriminate.
  - cbn [ConcBase.steps_of] in *. destruct (step_thread M c t) as [[c' e]|] eqn:E.
    + destruct m as [|m].
      * injection H as <- <-. reflexivity.
      * cbn [nth_error] in H.
        assert (Hti : t <> i) by (apply (Hoth 0 c t); [lia|reflexivity]).
        rewrite (IH c' m cm tm H).
        -- rewrite <- (ConcBase.step_cfg_some _ _ _ _ _ E). apply step_cfg_other. congruence.
        -- intros k ck tk Hk Hnk. apply (Hoth (S k) ck tk); [lia|exact Hnk].
    + apply (IH c m cm tm H Hoth).
Qed.

(* the next step of thread i after step j starts from the local state step j left *)
Lemma next_step_thread sched (c : pconfig) j cj i j1 c1 t1 :
  nth_error (steps_of M c sched) j = Some (cj, i) -> j < j1 ->
  nth_error (steps_of M c sched) j1 = Some (c1, t1) ->
  (forall k ck tk, j < k < j1 -> nth_error (steps_of M c sched) k = Some (ck, tk) -> tk <> i) ->
  nth_error (c_thr c1) i = nth_error (c_thr (step_cfg M cj i)) i.
Proof.
  intros Hj Hlt Hj1 Hbetween.
  destruct (ConcBase.steps_of_split M _ _ _ _ _ Hj) as (s1 & s2 & cj' & e & _ & Hs & Hskip).
  rewrite (ConcBase.step_cfg_some _ _ _ _ _ Hs).
  assert (Hn1 : nth_error (steps_of M cj' s2) (j1 - S j) = Some (c1, t1)).
  { rewrite <- Hskip, ConcBase.nth_error_skipn. replace (S j + (j1 - S j)) with j1 by lia. exact Hj1. }
  apply (steps_other_thread i s2 cj' _ _ _ Hn1).
  intros k ck tk Hk Hnk. rewrite <- Hskip, ConcBase.nth_error_skipn in Hnk.
  apply (Hbetween (S j + k) ck tk); [lia|exact Hnk].
Qed.

End StepsOf.

Lemma find_first {A} (f : A -> bool) (l : list A) m x :
  nth_error l m = Some x -> f x = true ->
  exists m1 x1, m1 <= m /\ nth_error l m1 = Some x1 /\ f x1 = true /\
                forall k y, k < m1 -> nth_error l k = Some y -> f y = false.
Proof.
  revert m. induction l as [|a l IH]; intros m H Hf; [destruct m; discriminate|].
  destruct (f a) eqn:Efa.
  - exists 0, a. split; [lia|]. split; [reflexivity|]. split; [exact Efa|]. intros k y Hk. lia.
  - destruct m as [|m]; [simpl in H; injection H as ->; congruence|]. simpl in H.
    destruct (IH m H Hf) as (m1 & x1 & H1 & H2 & H3 & H4).
    exists (S m1), x1. split; [lia|]. split; [exact H2|]. split; [exact H3|].
    intros k y Hk Hy. destruct k as [|k]; simpl in Hy; [injection Hy as <-; exact Efa|]. apply (H4 k y); [lia|exact Hy].
Qed.

Section Log.
Variable nw : nat.
Variable lim : Z.
Variables (autostart : bool) (choices : list nat) (clients : list (list pop)) (nslots : nat).
Hypothesis Hok : clients_ok clients.
Hypothesis Hlim0 : (0 <= lim)%Z.
Hypothesis Hlim : (lim + Z.of_nat (length clients) < 2 ^ 31)%Z.
Notation M := (pool nw lim).
Notation nc := (length clients).
Notation ndo := (cntdo (concat clients)).
Hypothesis Hslots : nw + ndo <= nslots.
Notation cfg0 := (pool_cfg nw autostart choices clients nslots).
Notation Good := (GoodE nw lim clients nslots).

(** one step from a configuration satisfying the invariants, abstractly *)
Lemma good_step c t c' e :
  Good c -> step_thread M c t = Some (c', e) ->
  exists a l pr cur s',
    nth_error (aths c) t = Some a /\ a_view a = Some (l, pr) /\
    astep nw lim l (c_sh c) = RNext cur s' /\ c_sh c' = s' /\ aths c' = upd (aths c) t (pr, cur) /\
    Good c' /\ step_pc (c, t) = Some l.
Proof.
  intros HG Hs.
  assert (HG' : Good c').
  { pose proof (GoodE_step nw lim clients nslots Hlim0 Hlim c t HG) as H. unfold step_cfg in H. rewrite Hs in H. exact H. }
  destruct (step_abs nw lim _ _ _ _ Hs) as (th & l & pr & Hn & Hd & Hv & Hm).
  pose proof (aths_nth _ _ _ Hn) as Hna.
  destruct HG as ([H1 _ _ _ _ _ _] & _ & _).
  pose proof (Inv1_step nw lim nc _ _ _ _ _ _ H1 Hna Hv) as Hst.
  destruct (astep nw lim l (c_sh c)) as [cur s'| |] eqn:Ea; try contradiction.
  destruct Hm as (Hs' & Hps & _).
  exists (abs_th th), l, pr, cur, s'.
  split; [exact Hna|]. split; [exact Hv|]. split; [exact Ea|]. split; [exact Hs'|]. split; [exact Hps|].
  split; [exact HG'|]. unfold step_pc. cbn [fst snd]. rewrite Hna, Hv. reflexivity.
Qed.

(** proof principle: invariants over (log so far, shared state, abstract threads) *)
Lemma log_abs_invariant (I : plog -> pshared -> list ath -> Prop) :
  (forall lg c t a l pr cur s', Good c -> I lg (c_sh c) (aths c) ->
     nth_error (aths c) t = Some a -> a_view a = Some (l, pr) -> step_pc (c, t) = Some l ->
     astep nw lim l (c_sh c) = RNext cur s' -> I (lg ++ [(c, t)]) s' (upd (aths c) t (pr, cur))) ->
  forall sched c lg, Good c -> I lg (c_sh c) (aths c) ->
    I (lg ++ steps_of M c sched) (c_sh (final M c sched)) (aths (final M c sched)).
Proof.
  intros Hstep. induction sched as [|t sched IH]; intros c lg HG HI.
  - cbn [ConcBase.steps_of]. rewrite app_nil_r. exact HI.
  - rewrite final_cons. cbn [ConcBase.steps_of]. unfold step_cfg.
    destruct (step_thread M c t) as [[c' e]|] eqn:E.
    + destruct (good_step _ _ _ _ HG E) as (a & l & pr & cur & s' & Hn & Hv & Ha & Hs' & Hps & HG' & Hpc).
      replace (lg ++ (c, t) :: steps_of M c' sched) with ((lg ++ [(c, t)]) ++ steps_of M c' sched)
        by (rewrite <- app_assoc; reflexivity).
      apply IH; [exact HG'|]. rewrite Hs', Hps. eapply Hstep; eauto.
    + apply IH; assumption.
Qed.

Lemma nsteps_snoc p lg e : nsteps p (lg ++ [e]) = nsteps p lg + (if is_pc p e then 1 else 0).
Proof. rewrite nsteps_app. unfold nsteps at 2. simpl. destruct (is_pc p e); reflexivity. Qed.

Lemma nsteps_of_snoc i p lg e :
  nsteps_of i p (lg ++ [e]) = nsteps_of i p lg + (if Nat.eqb (snd e) i && is_pc p e then 1 else 0).
Proof. rewrite nsteps_of_app. unfold nsteps_of at 2. simpl. destruct (Nat.eqb (snd e) i && is_pc p e); reflexivity. Qed.

(** ** (C) per goroutine: decrements and wg.Done()s of the exit path executed so far *)
Definition I_exit (lg : plog) (s : pshared) (ps : list ath) : Prop :=
  forall i a, nth_error ps i = Some a ->
    nsteps_of i is_xdec lg = fD nc s i a /\ nsteps_of i is_xdone lg = fDone nc s i a.

Lemma I_exit_step lg c t a l pr cur s' :
  Good c -> I_exit lg (c_sh c) (aths c) ->
  nth_error (aths c) t = Some a -> a_view a = Some (l, pr) -> step_pc (c, t) = Some l ->
  astep nw lim l (c_sh c) = RNext cur s' -> I_exit (lg ++ [(c, t)]) s' (upd (aths c) t (pr, cur)).
Proof.
  intros HG HI Hn Hv Hpc Ha i ai Hi.
  destruct HG as ([H1 _ _ H4 _ _ _] & _ & _).
  rewrite !nsteps_of_snoc. unfold is_pc. rewrite Hpc. cbn [snd].
  rewrite nth_error_upd in Hi. destruct (Nat.eqb_spec t i) as [<-|Hne].
  - rewrite Hn in Hi. injection Hi as <-. simpl.
    destruct (fD_step nw lim nc _ _ _ _ _ _ _ _ H1 H4 Hn Hv Ha) as [E1 E2].
    destruct (HI _ _ Hn) as [J1 J2]. rewrite E1, E2, J1, J2. split; reflexivity.
  - simpl. destruct (HI _ _ Hi) as [J1 J2].
    destruct (fD_other nc _ _ i ai (astep_sle _ _ _ _ _ _ Ha) (i_wf _ _ _ H1 _ _ Hi)) as [E1 E2].
    rewrite E1, E2, J1, J2. split; lia.
Qed.

Lemma I_exit_init : I_exit [] (pinit nw autostart choices) (ps0 clients nslots).
Proof.
  intros i a Hi. apply ps0_nth in Hi. unfold fD, fDone, nsteps_of. simpl.
  destruct Hi as [(Hlt & q & _ & ->)|(Hge & _ & ->)].
  - destruct (Nat.leb_spec nc i); [lia|auto].
  - destruct (nc <=? i); auto.
Qed.

Theorem exit_counts sched :
  let c := final M cfg0 sched in let lg := steps_of M cfg0 sched in
  forall i a, nth_error (aths c) i = Some a ->
    nsteps_of i is_xdec lg = fD nc (c_sh c) i a /\ nsteps_of i is_xdone lg = fDone nc (c_sh c) i a.
Proof.
  intros c lg.
  pose proof (log_abs_invariant I_exit I_exit_step sched cfg0 []) as H. cbn [app] in H.
  apply H.
  - apply (GoodE_reach nw lim autostart choices clients nslots Hok Hlim0 Hlim []).
  - unfold pool_cfg. rewrite aths_init. apply I_exit_init.
Qed.

Lemma finished_abs (c : pconfig) i : nth_error (aths c) i = Some ([], None) -> finished_thr c i.
Proof.
  unfold aths. rewrite nth_error_map. destruct (nth_error (c_thr c) i) as [th|] eqn:E; [|discriminate].
  simpl. unfold abs_th. intros H. injection H as H1 H2. exists th. split; [exact E|].
  split; [destruct (t_cur th) as [[o l]|]; [discriminate|reflexivity]|exact H1].
Qed.

Lemma abs_of_finished (c : pconfig) i : finished_thr c i -> nth_error (aths c) i = Some ([], None).
Proof.
  intros (th & Hn & Hc & Hp). rewrite (aths_nth _ _ _ Hn). unfold abs_th. rewrite Hc, Hp. reflexivity.
Qed.

(** (C) [expanded_exit_accounting]: a goroutine executes the decrement of the exit path at most once and
    wg.Done() of the exit path at most once, the latter only after the former; where it stands tells
    how many of each it has executed; after wg.Done() it is finished *)
Theorem expanded_exit_accounting sched i :
  let c := final M cfg0 sched in let lg := steps_of M cfg0 sched in
  let d := nsteps_of i is_xdec lg in let w := nsteps_of i is_xdone lg in
  w <= d /\ d <= 1 /\
  (at_pc c i XExitDone -> d = 1 /\ w = 0) /\
  (forall l, at_pc c i l -> l <> XExitDone -> d = 0 /\ w = 0) /\
  (forall k, unstarted_slot c i k -> d = 0 /\ w = 0) /\
  (finished_thr c i -> nc <= i -> nth_error (p_spawned (c_sh c)) (i - nc) = Some RExpanded -> d = 1 /\ w = 1) /\
  (finished_thr c i -> nc <= i -> nth_error (p_spawned (c_sh c)) (i - nc) = Some RWorker -> d = 0 /\ w = 0) /\
  (w = 1 -> finished_thr c i /\ nc <= i /\ nth_error (p_spawned (c_sh c)) (i - nc) = Some RExpanded).
Proof.
  intros c lg d w.
  pose proof (exit_counts sched) as HE. cbv zeta in HE. fold c lg in HE.
  assert (Hcases : forall a, nth_error (aths c) i = Some a -> d = fD nc (c_sh c) i a /\ w = fDone nc (c_sh c) i a).
  { intros a Ha. apply (HE i a Ha). }
  destruct (nth_error (aths c) i) as [a|] eqn:Ea.
  - destruct (Hcases a eq_refl) as [Ed Ew]. clear Hcases.
    assert (Hro : roleE (c_sh c) (i - nc) <= 1) by (unfold roleE; destruct (nth_error (p_spawned (c_sh c)) (i - nc)) as [[|]|]; lia).
    split; [|split]; [| |split; [|split; [|split; [|split; [|split]]]]].
    + rewrite Ed, Ew. unfold fD, fDone. destruct (nc <=? i); [|lia]. destruct (snd a) as [l|]; [lia|]. destruct (fst a); lia.
    + rewrite Ed. unfold fD. destruct (nc <=? i); [|lia]. destruct (snd a) as [l|]; [destruct (is_xdone l); lia|]. destruct (fst a); lia.
    + intros Hat. destruct (at_pc_abs _ _ _ Hat) as [pr Hn]. rewrite Ea in Hn. injection Hn as ->.
      assert (Hi : nc <= i).
      { eapply worker_pc_index; [apply (GoodE_reach nw lim autostart choices clients nslots Hok Hlim0 Hlim sched)|exact Hat|reflexivity]. }
      apply Nat.leb_le in Hi. rewrite Ed, Ew. unfold fD, fDone. simpl. rewrite Hi. auto.
    + intros l Hat Hl. destruct (at_pc_abs _ _ _ Hat) as [pr Hn]. rewrite Ea in Hn. injection Hn as ->.
      rewrite Ed, Ew. unfold fD, fDone. simpl. destruct (nc <=? i); [|auto]. destruct l; try (auto; fail). congruence.
    + intros k (th & Hn & Hc & Hp & _). rewrite (aths_nth _ _ _ Hn) in Ea. injection Ea as <-.
      rewrite Ed, Ew. unfold fD, fDone, abs_th. rewrite Hc, Hp. simpl. destruct (nc <=? i); auto.
    + intros Hf Hi Hr. rewrite (abs_of_finished _ _ Hf) in Ea. injection Ea as <-.
      apply Nat.leb_le in Hi. rewrite Ed, Ew. unfold fD, fDone, roleE. simpl. rewrite Hi, Hr. auto.
    + intros Hf Hi Hr. rewrite (abs_of_finished _ _ Hf) in Ea. injection Ea as <-.
      apply Nat.leb_le in Hi. rewrite Ed, Ew. unfold fD, fDone, roleE. simpl. rewrite Hi, Hr. auto.
    + rewrite Ew. unfold fDone, roleE. destruct (Nat.leb_spec nc i) as [Hi|Hi]; [|discriminate].
      destruct a as [pr [l|]]; simpl; [discriminate|]. destruct pr; [|discriminate].
      destruct (nth_error (p_spawned (c_sh c)) (i - nc)) as [[|]|]; try discriminate.
      intros _. split; [apply finished_abs; exact Ea|auto].
  - (* no such thread *)
    assert (Hnone : nth_error (c_thr c) i = None).
    { unfold aths in Ea. rewrite nth_error_map in Ea. destruct (nth_error (c_thr c) i); [discriminate|reflexivity]. }
    assert (Hz : forall p, nsteps_of i p lg = 0).
    { intros p. unfold nsteps_of. destruct (filter _ lg) as [|e rest] eqn:Ef; [reflexivity|exfalso].
      assert (Hin : In e (filter (fun e0 => (snd e0 =? i) && is_pc p e0) lg)) by (rewrite Ef; left; reflexivity).
      apply filter_In in Hin. destruct Hin as [Hin Hb]. apply andb_true_iff in Hb. destruct Hb as [Hb _].
      apply Nat.eqb_eq in Hb. destruct e as [ce te]. simpl in Hb. subst te.
      apply In_nth_error in Hin. destruct Hin as [k Hk].
      pose proof (steps_of_enabled nw lim _ _ _ _ _ Hk) as Hen.
      destruct (ConcBase.steps_of_reach M _ _ _ _ _ Hk) as [s1 ->].
      apply Hen. unfold step_thread.
      assert (Hl : length (c_thr (final M cfg0 s1)) = length (c_thr c)) by (unfold c; rewrite !final_length; reflexivity).
      assert (Hn1 : nth_error (c_thr (final M cfg0 s1)) i = None).
      { apply nth_error_None. rewrite Hl. apply nth_error_None. exact Hnone. }
      rewrite Hn1. reflexivity. }
    unfold d, w. rewrite !Hz.
    split; [lia|]. split; [lia|]. split.
    { intros (th & o & Hn & _). congruence. }
    split. { intros l (th & o & Hn & _) _. congruence. }
    split. { intros k (th & Hn & _). congruence. }
    split. { intros (th & Hn & _). congruence. }
    split. { intros (th & Hn & _). congruence. }
    intros Hx. discriminate Hx.
Qed.

Lemma filter_pos_nth {A} (f : A -> bool) l :
  1 <= length (filter f l) -> exists k x, nth_error l k = Some x /\ f x = true.
Proof.
  intros H. destruct (filter f l) as [|x r] eqn:E; [simpl in H; lia|].
  assert (Hin : In x (filter f l)) by (rewrite E; left; reflexivity).
  apply filter_In in Hin. destruct Hin as [Hin Hf]. apply In_nth_error in Hin. destruct Hin as [k Hk]. eauto.
Qed.

Lemma nth_error_firstn_inv {A} (l : list A) j k x :
  nth_error (firstn j l) k = Some x -> k < j /\ nth_error l k = Some x.
Proof.
  revert l k. induction j as [|j IH]; intros l k H; [destruct k; discriminate|].
  destruct l as [|a l]; [destruct k; discriminate|]. destruct k as [|k]; simpl in H.
  - split; [lia|exact H].
  - destruct (IH _ _ H) as [H1 H2]. split; [lia|exact H2].
Qed.

Lemma nth_in_filter_pos {A} (f : A -> bool) l k x :
  nth_error l k = Some x -> f x = true -> 1 <= length (filter f (firstn (S k) l)).
Proof.
  revert k. induction l as [|a l IH]; intros k H Hf; [destruct k; discriminate|].
  destruct k as [|k]; simpl in *.
  - injection H as ->. rewrite Hf. simpl. lia.
  - specialize (IH _ H Hf). destruct (f a); simpl; lia.
Qed.

Lemma firstn_filter_le {A} (f : A -> bool) l j k : j <= k -> length (filter f (firstn j l)) <= length (filter f (firstn k l)).
Proof.
  revert j k. induction l as [|a l IH]; intros j k H; [rewrite !firstn_nil; simpl; lia|].
  destruct j as [|j]; [simpl; lia|]. destruct k as [|k]; [lia|]. simpl.
  specialize (IH j k ltac:(lia)). destruct (f a); simpl; lia.
Qed.

(** ... in that order, and then the goroutine never steps again *)
Theorem exit_order sched j cj i :
  let lg := steps_of M cfg0 sched in
  nth_error lg j = Some (cj, i) -> step_pc (cj, i) = Some XExitDone ->
  (exists j0 cj0, j0 < j /\ nth_error lg j0 = Some (cj0, i) /\ step_pc (cj0, i) = Some XExitDec) /\
  (forall k ck, j < k -> nth_error lg k <> Some (ck, i)).
Proof.
  intros lg Hj Hpc. subst lg. split.
  - destruct (steps_of_prefix nw lim _ _ _ _ _ Hj) as (s1 & Hpre & Hcj).
    pose proof (expanded_exit_accounting s1 i) as HA. cbv zeta in HA. rewrite <- Hpre, <- Hcj in HA.
    destruct HA as (_ & _ & Hat & _).
    assert (Ha : at_pc cj i XExitDone).
    { unfold step_pc in Hpc. cbn [fst snd] in Hpc. destruct (nth_error (aths cj) i) as [[pr [l|]]|] eqn:Ea; try discriminate Hpc.
      - simpl in Hpc. injection Hpc as ->. eapply abs_at_pc; eauto.
      - unfold a_view in Hpc. simpl in Hpc. destruct pr; discriminate Hpc. }
    destruct (Hat Ha) as [Hd _].
    assert (Hpos : 1 <= nsteps_of i is_xdec (firstn j (steps_of M cfg0 sched))) by (rewrite Hd; lia).
    destruct (filter_pos_nth _ _ Hpos) as (k & [ck tk] & Hk & Hf).
    apply nth_error_firstn_inv in Hk. destruct Hk as [Hkj Hk].
    apply andb_true_iff in Hf. destruct Hf as [Ht Hp]. apply Nat.eqb_eq in Ht. simpl in Ht. subst tk.
    exists k, ck. split; [exact Hkj|]. split; [exact Hk|].
    unfold is_pc in Hp. destruct (step_pc (ck, i)) as [l|]; [|discriminate]. destruct l; try discriminate Hp. reflexivity.
  - intros k ck Hlt Hk.
    destruct (steps_of_prefix nw lim _ _ _ _ _ Hk) as (s1 & Hpre & Hck).
    pose proof (expanded_exit_accounting s1 i) as HA. cbv zeta in HA. rewrite <- Hpre, <- Hck in HA.
    destruct HA as (_ & Hd1 & _ & _ & _ & _ & _ & Hfin).
    assert (Hw : 1 <= nsteps_of i is_xdone (firstn k (steps_of M cfg0 sched))).
    { unfold nsteps_of. eapply Nat.le_trans; [|apply (firstn_filter_le _ (steps_of M cfg0 sched) (S j) k); lia].
      eapply nth_in_filter_pos; [exact Hj|]. cbn [snd]. rewrite Nat.eqb_refl. unfold is_pc. rewrite Hpc. reflexivity. }
    pose proof (expanded_exit_accounting s1 i) as HA. cbv zeta in HA. rewrite <- Hpre, <- Hck in HA.
    destruct HA as (Hwd & _).
    destruct Hfin as ((th & Hn & Hc & Hp) & _); [lia|].
    apply (steps_of_enabled nw lim _ _ _ _ _ Hk). unfold step_thread. rewrite Hn. unfold view. rewrite Hc, Hp.
    destruct (t_dead th); reflexivity.
Qed.

(** ** (C) the balance of reservations: live_or_reserved = granted - exited *)
(* the step is an AddInt32(&p.expanded, 1) that observes a value <= limit *)
Definition granted (e : pconfig * nat) : bool :=
  match step_pc e with
  | Some (SubAddExp _) => (p_expanded (c_sh (fst e)) + 1 <=? lim)%Z
  | _ => false
  end.
Definition ngranted (lg : plog) : nat := length (filter granted lg).
Definition nexited (lg : plog) : nat := nsteps is_xdec lg.

Definition I_bal (G0 D0 : nat) (lg : plog) (s : pshared) (ps : list ath) : Prop :=
  nRE s + cntp is_wgadd ps = G0 + ngranted lg /\ nD nc s ps = D0 + nexited lg.

Lemma stored_view (c : pconfig) t a l pr :
  Good c -> nth_error (aths c) t = Some a -> a_view a = Some (l, pr) -> (forall o, l <> PInv o) -> at_pc c t l.
Proof.
  intros HG Hn Hv Hl. destruct a as [prog [l0|]]; unfold a_view in Hv; simpl in Hv.
  - injection Hv as <- <-. eapply abs_at_pc; eauto.
  - destruct prog as [|o pr0]; [discriminate|]. injection Hv as <- <-. exfalso. eapply Hl; reflexivity.
Qed.

Lemma I_bal_step G0 D0 lg c t a l pr cur s' :
  Good c -> I_bal G0 D0 lg (c_sh c) (aths c) ->
  nth_error (aths c) t = Some a -> a_view a = Some (l, pr) -> step_pc (c, t) = Some l ->
  astep nw lim l (c_sh c) = RNext cur s' -> I_bal G0 D0 (lg ++ [(c, t)]) s' (upd (aths c) t (pr, cur)).
Proof.
  intros HG [HI1 HI2] Hn Hv Hpc Ha.
  pose proof HG as ([H1 _ _ H4 _ _ _] & _ & _).
  unfold I_bal, ngranted, nexited. rewrite filter_app, app_length, nsteps_snoc. fold (ngranted lg).
  split.
  - pose proof (reserve_step nw lim _ _ _ _ Ha) as Hr.
    pose proof (cntp_upd is_wgadd _ t _ (pr, cur) Hn) as Ewg.
    assert (Epa : pcf is_wgadd a = if is_wgadd l then 1 else 0).
    { destruct a as [prog [l0|]]; unfold a_view in Hv; simpl in Hv.
      - injection Hv as <- <-. reflexivity.
      - destruct prog; [discriminate|]. injection Hv as <- <-. reflexivity. }
    assert (Epc : pcf is_wgadd (pr, cur) = pcf is_wgadd ([], cur)) by reflexivity.
    assert (Eg : granted (c, t) = granted_abs lim l (c_sh c)).
    { unfold granted. rewrite Hpc. cbn [fst]. destruct l; try reflexivity. unfold granted_abs.
      assert (Hat : at_pc c t (SubAddExp id)) by (eapply stored_view; eauto; intros o; discriminate).
      destruct (at_pc_abs _ _ _ Hat) as [pr' Hn'].
      destruct (expanded_value nw lim clients nslots Hlim Hslots c HG) as (Ev & Hle & Hge & Hcnt).
      pose proof (cntp_ge is_addexp _ _ _ Hn') as Gae. unfold pcf in Gae. simpl in Gae.
      rewrite wrap32_small by lia. reflexivity. }
    simpl. rewrite Eg. destruct (granted_abs lim l (c_sh c)); simpl; lia.
  - pose proof (nD_upd nc s' _ t _ (pr, cur) Hn) as ED.
    pose proof (nD_sle nc _ _ _ (astep_sle _ _ _ _ _ _ Ha) (i_wf _ _ _ H1)) as Es.
    destruct (fD_step nw lim nc _ _ _ _ _ _ _ _ H1 H4 Hn Hv Ha) as [E1 _].
    destruct (fD_other nc _ _ t a (astep_sle _ _ _ _ _ _ Ha) (i_wf _ _ _ H1 _ _ Hn)) as [E2 _].
    unfold is_pc. rewrite Hpc. unfold nexited in HI2. destruct (is_xdec l); lia.
Qed.

(* from any configuration satisfying the invariants (two-phase form) *)
Theorem reservation_balance_from c sched :
  Good c ->
  let c' := final M c sched in let lg := steps_of M c sched in
  live_or_reserved nc (c_sh c') (aths c') =
    (live_or_reserved nc (c_sh c) (aths c) + Z.of_nat (ngranted lg) - Z.of_nat (nexited lg))%Z /\
  nD nc (c_sh c') (aths c') = nD nc (c_sh c) (aths c) + nexited lg.
Proof.
  intros HG c' lg.
  pose proof (log_abs_invariant (I_bal (nRE (c_sh c) + cntp is_wgadd (aths c)) (nD nc (c_sh c) (aths c)))
                (I_bal_step _ _) sched c [] HG) as H.
  cbn [app] in H. destruct H as [B1 B2].
  - unfold I_bal, ngranted, nexited, nsteps. simpl. lia.
  - fold c' lg in B1, B2. unfold live_or_reserved. split; lia.
Qed.

(** [reservation_balance]: in every reachable configuration the number of live or reserved expanded
    workers is the number of granted reservations minus the number of exit decrements executed; so
    after k more expanded workers have exited it is down by k, and (B) grants again. *)
Theorem reservation_balance sched :
  let c := final M cfg0 sched in let lg := steps_of M cfg0 sched in
  live_or_reserved nc (c_sh c) (aths c) = (Z.of_nat (ngranted lg) - Z.of_nat (nexited lg))%Z /\
  nD nc (c_sh c) (aths c) = nexited lg /\
  p_expanded (c_sh c) = (Z.of_nat (ngranted lg) - Z.of_nat (nexited lg) + Z.of_nat (over_reserved (aths c)))%Z /\
  (Z.of_nat (ngranted lg) - Z.of_nat (nexited lg) <= lim)%Z.
Proof.
  intros c lg.
  pose proof (GoodE_reach nw lim autostart choices clients nslots Hok Hlim0 Hlim []) as HG0.
  destruct (reservation_balance_from cfg0 sched HG0) as [B1 B2]. fold c lg in B1, B2.
  assert (E0 : live_or_reserved nc (c_sh cfg0) (aths cfg0) = 0%Z /\ nD nc (c_sh cfg0) (aths cfg0) = 0).
  { unfold pool_cfg. rewrite aths_init. unfold init. cbn [c_sh].
    change (map (fun p : list pop => (p, @None ppc)) (clients ++ map (fun k => [Slot k]) (seq 0 nslots)))
      with (ps0 clients nslots).
    unfold live_or_reserved. rewrite nD_ps0, cntp_ps0. unfold nRE, pinit.
    destruct autostart; simpl; rewrite ?filter_re_repeat; auto. }
  destruct E0 as [E1 E2]. rewrite E1 in B1. rewrite E2 in B2.
  pose proof (GoodE_reach nw lim autostart choices clients nslots Hok Hlim0 Hlim sched) as HG. fold c in HG.
  destruct (expanded_value nw lim clients nslots Hlim Hslots c HG) as (Ev & Hle & Hge & Hcnt).
  split; [lia|]. split; [lia|]. split; lia.
Qed.

(** ** (C) expiry is never spontaneous: the unreceived expiry a waiting worker sees was put into its
    timer by a Fire step of the environment that happened while the worker was waiting in this select *)
Definition fired_since (lg : plog) (i j : nat) : Prop :=
  exists k ck tk n,
    nth_error lg k = Some (ck, tk) /\ step_pc (ck, tk) = Some (FFire n) /\
    nth_armed (p_timers (c_sh ck)) n 0 = Some j /\                 (* this Fire step expires timer j *)
    at_pc ck i (XSelect (S j)) /\                                   (* the worker was waiting in its select *)
    (forall k' e', k < k' -> nth_error lg k' = Some e' -> snd e' <> i).   (* and has not moved since *)

Definition I_fire (lg : plog) (s : pshared) (ps : list ath) : Prop :=
  forall i pr j x, nth_error ps i = Some (pr, Some (XSelect (S j))) ->
    nth_error (p_timers s) j = Some x -> tm_fired x = true -> fired_since lg i j.

Lemma I_fire_step lg c t a l pr cur s' :
  Good c -> I_fire lg (c_sh c) (aths c) ->
  nth_error (aths c) t = Some a -> a_view a = Some (l, pr) -> step_pc (c, t) = Some l ->
  astep nw lim l (c_sh c) = RNext cur s' -> I_fire (lg ++ [(c, t)]) s' (upd (aths c) t (pr, cur)).
Proof.
  intros HG HI Hn Hv Hpc Ha i pri j x' Hi Hj Hf.
  rewrite nth_error_upd in Hi. destruct (Nat.eqb_spec t i) as [<-|Hne].
  - exfalso. rewrite Hn in Hi. injection Hi as <- ->.
    destruct (enter_select nw lim _ _ _ _ Ha) as (j' & Ej & Hj'). injection Ej as <-.
    rewrite Hj in Hj'. injection Hj' as ->. discriminate Hf.
  - destruct (fired_origin nw lim _ _ _ _ _ _ Ha Hj Hf) as [(x & Hx & Hfx)|(n & -> & Harm)].
    + destruct (HI _ _ _ _ Hi Hx Hfx) as (k & ck & tk & n & Hk & Hkpc & Harm & Hat & Hlater).
      exists k, ck, tk, n. pose proof (nth_error_lt _ _ _ Hk) as Hkl.
      split; [rewrite nth_error_app1 by exact Hkl; exact Hk|]. split; [exact Hkpc|]. split; [exact Harm|]. split; [exact Hat|].
      intros k' e' Hlt He'. destruct (Nat.lt_ge_cases k' (length lg)) as [Hl|Hl].
      * rewrite nth_error_app1 in He' by exact Hl. eapply Hlater; eauto.
      * rewrite nth_error_app2 in He' by exact Hl. destruct (k' - length lg) as [|m]; simpl in He'.
        -- injection He' as <-. simpl. exact Hne.
        -- destruct m; discriminate He'.
    + exists (length lg), c, t, n.
      split; [rewrite nth_error_app2 by lia; rewrite Nat.sub_diag; reflexivity|]. split; [exact Hpc|]. split; [exact Harm|].
      split; [eapply abs_at_pc; exact Hi|].
      intros k' e' Hlt He'. exfalso.
      assert (Hnone : nth_error (lg ++ [(c, t)]) k' = None) by (apply nth_error_None; rewrite app_length; simpl; lia).
      congruence.
Qed.

Theorem fired_by_environment sched i j x :
  let c := final M cfg0 sched in let lg := steps_of M cfg0 sched in
  at_pc c i (XSelect (S j)) -> nth_error (p_timers (c_sh c)) j = Some x -> tm_fired x = true ->
  fired_since lg i j.
Proof.
  intros c lg Hat Hj Hf.
  pose proof (log_abs_invariant I_fire I_fire_step sched cfg0 []) as H. cbn [app] in H.
  destruct (at_pc_abs _ _ _ Hat) as [pr Hn].
  eapply H; eauto.
  - apply (GoodE_reach nw lim autostart choices clients nslots Hok Hlim0 Hlim []).
  - unfold pool_cfg. rewrite aths_init. intros i0 pr0 j0 x0 Hi0.
    change (map (fun p : list pop => (p, @None ppc)) (clients ++ map (fun k => [Slot k]) (seq 0 nslots)))
      with (ps0 clients nslots) in Hi0.
    apply ps0_nth in Hi0. destruct Hi0 as [(_ & q & _ & Hq)|(_ & _ & Hq)]; discriminate Hq.
Qed.

(** an expanded worker that takes the timer branch: its timer had been fired by the environment
    while it was waiting in this very select *)
Corollary timer_exit_was_fired sched i l :
  let c := final M cfg0 sched in let lg := steps_of M cfg0 sched in
  at_pc c i l -> (forall tm, l <> XStopTimer tm None) -> at_pc (step_cfg M c i) i XExitDec ->
  exists j, l = XSelect (S j) /\ fired_since lg i j.
Proof.
  intros c lg Hat Hl Hat'.
  pose proof (GoodE_reach nw lim autostart choices clients nslots Hok Hlim0 Hlim sched) as HG. fold c in HG.
  destruct (exit_entry nw lim clients nslots Hslots c HG i l Hat Hat') as (j & x & Hj & [(-> & Hf & _)|(-> & _)] & _).
  - exists j. split; [reflexivity|]. eapply fired_by_environment; eauto.
  - exfalso. eapply Hl. reflexivity.
Qed.

(** ** (C) after the exit the worker's timer is stopped for good: neither armed nor holding an expiry,
    and no goroutine ever owns it again *)
Theorem exited_timer_stays_stopped c i l sched2 :
  Good c -> at_pc c i l -> at_pc (step_cfg M c i) i XExitDec ->
  exists j, (l = XSelect (S j) \/ l = XStopTimer (S j) None) /\
    let c2 := final M (step_cfg M c i) sched2 in
    nth_error (p_timers (c_sh c2)) j = Some (Timer false false) /\ cntp (owns (S j)) (aths c2) = 0.
Proof.
  intros HG Hat Hat'.
  destruct (exit_entry nw lim clients nslots Hslots c HG i l Hat Hat') as (j & x & Hj & Hl & Ht & Ho).
  exists j. split; [destruct Hl as [(-> & _)|(-> & _)]; auto|].
  pose proof (GoodE_step nw lim clients nslots Hlim0 Hlim c i HG) as HG1.
  set (c1 := step_cfg M c i) in *.
  assert (Hres : let c2 := final M c1 sched2 in
            (InvE nw lim nc ndo (c_sh c2) (aths c2) /\ dead_timer j (c_sh c2) (aths c2)) /\ alive c2).
  { apply (abs_invariant_from nw lim (fun s ps => InvE nw lim nc ndo s ps /\ dead_timer j s ps)).
    - intros s ps t a l0 pr [HE HD] Hn Hv.
      pose proof (InvE_step nw lim nc ndo Hlim0 Hlim s ps t a l0 pr HE Hn Hv) as Hs.
      destruct (astep nw lim l0 s) as [cur s'| |] eqn:Ea; auto.
      split; [exact Hs|]. eapply dead_timer_step; eauto. apply (e_1 _ _ _ _ _ _ HE).
    - split; [apply HG1|]. split; [exact Ho|exact Ht].
    - apply HG1. }
  cbv zeta in Hres. destruct Hres as [[_ [D1 D2]] _]. split; [exact D2|exact D1].
Qed.

(** ** (A) over the log: after its AddInt32 a submitter's NEXT step is wg.Add(1)+go (observed <= limit)
    or the undo (observed > limit); the push comes strictly later *)
(* j1 is the index of the first step of thread i after step j *)
Definition next_of (lg : plog) (j i j1 : nat) : Prop :=
  j < j1 /\ (exists c1, nth_error lg j1 = Some (c1, i)) /\
  forall k ck tk, j < k < j1 -> nth_error lg k = Some (ck, tk) -> tk <> i.

Lemma next_of_exists (lg : plog) j i j2 c2 :
  j < j2 -> nth_error lg j2 = Some (c2, i) -> exists j1, next_of lg j i j1 /\ j1 <= j2.
Proof.
  intros Hlt H2.
  assert (Hn : nth_error (skipn (S j) lg) (j2 - S j) = Some (c2, i)).
  { rewrite ConcBase.nth_error_skipn. replace (S j + (j2 - S j)) with j2 by lia. exact H2. }
  destruct (find_first (fun e : pconfig * nat => Nat.eqb (snd e) i) _ _ _ Hn) as (m1 & [c1 t1] & H1 & Hm1 & Hf & Hbefore).
  { simpl. apply Nat.eqb_refl. }
  simpl in Hf. apply Nat.eqb_eq in Hf. subst t1. rewrite ConcBase.nth_error_skipn in Hm1.
  exists (S j + m1). split; [|lia]. split; [lia|]. split; [eauto|].
  intros k ck tk Hk Hnk Heq. subst tk.
  assert (Hx : nth_error (skipn (S j) lg) (k - S j) = Some (ck, i)).
  { rewrite ConcBase.nth_error_skipn. replace (S j + (k - S j)) with k by lia. exact Hnk. }
  specialize (Hbefore (k - S j) _ ltac:(lia) Hx). simpl in Hbefore. rewrite Nat.eqb_refl in Hbefore. discriminate.
Qed.

Lemma at_pc_same_thread (c1 c2 : pconfig) i l :
  nth_error (c_thr c1) i = nth_error (c_thr c2) i -> at_pc c2 i l -> at_pc c1 i l.
Proof. intros E (th & o & Hn & Hc). exists th, o. rewrite E. auto. Qed.

Theorem expansion_is_granted sched j cj i id :
  let lg := steps_of M cfg0 sched in
  nth_error lg j = Some (cj, i) -> at_pc cj i (SubAddExp id) ->
  let v := (p_expanded (c_sh cj) + 1)%Z in                  (* the value this AddInt32 observes *)
  forall j1 c1, next_of lg j i j1 -> nth_error lg j1 = Some (c1, i) ->
  let c1' := step_cfg M c1 i in
  Good c1 /\
  ((v <= lim)%Z ->
     at_pc c1 i (SubWgAdd id) /\ at_pc c1' i (SubPush id) /\
     let k := length (p_spawned (c_sh c1)) in
     p_spawned (c_sh c1') = p_spawned (c_sh c1) ++ [RExpanded] /\ p_wg (c_sh c1') = S (p_wg (c_sh c1)) /\
     unstarted_slot c1' (nc + k) k /\ step_thread M c1' (nc + k) <> None /\
     p_queue (c_sh c1') = p_queue (c_sh c1) /\ cnt (p_queue (c_sh c1')) id = 0) /\
  ((lim < v)%Z ->
     at_pc c1 i (SubSubExp id) /\ at_pc c1' i (SubPush id) /\
     c_sh c1' = upd_expanded (c_sh c1) (p_expanded (c_sh c1) - 1) /\
     (forall t, t <> i -> nth_error (c_thr c1') t = nth_error (c_thr c1) t)) /\
  (* any step in which thread i pushes (leaves the blocking select of push) comes after j1 *)
  (forall j2 c2, j < j2 -> nth_error lg j2 = Some (c2, i) -> at_pc c2 i (SubPush id) -> j1 < j2).
Proof.
  intros lg Hj Hat v j1 c1 (Hlt & _ & Hbetween) Hj1 c1'.
  destruct (ConcBase.steps_of_reach M _ _ _ _ _ Hj) as [s0 Ecj].
  destruct (ConcBase.steps_of_reach M _ _ _ _ _ Hj1) as [s1 Ec1].
  pose proof (GoodE_reach nw lim autostart choices clients nslots Hok Hlim0 Hlim s0) as HGj. rewrite <- Ecj in HGj.
  pose proof (GoodE_reach nw lim autostart choices clients nslots Hok Hlim0 Hlim s1) as HG1. rewrite <- Ec1 in HG1.
  destruct (addexp_step nw lim clients nslots Hlim Hslots cj HGj i id Hat) as (_ & _ & _ & Hle & Hgt). fold v in Hle, Hgt.
  pose proof (next_step_thread nw lim sched cfg0 j cj i j1 c1 i Hj Hlt Hj1 Hbetween) as Esame.
  split; [exact HG1|]. split; [|split].
  - intros Hv. pose proof (at_pc_same_thread _ _ _ _ Esame (Hle Hv)) as Hat1.
    destruct (wgadd_step nw lim clients nslots Hslots c1 HG1 i id Hat1) as (_ & W2 & W3 & _ & W5 & W6 & _ & W8).
    fold c1' in W2, W3, W5, W6, W8.
    split; [exact Hat1|]. split; [exact W2|]. rewrite W3. simpl. repeat split; auto.
    rewrite W3 in W8. exact W8.
  - intros Hv. pose proof (at_pc_same_thread _ _ _ _ Esame (Hgt Hv)) as Hat1.
    destruct (subsub_step nw lim clients nslots Hlim0 Hlim Hslots c1 HG1 i id Hat1) as (_ & U2 & U3 & U4 & _).
    fold c1' in U2, U3, U4. auto.
  - intros j2 c2 Hlt2 Hj2 Hat2.
    destruct (Nat.lt_trichotomy j1 j2) as [H|[H|H]]; [exact H| |].
    + exfalso. subst j2. rewrite Hj1 in Hj2. injection Hj2 as <-.
      destruct (Z.le_gt_cases v lim) as [Hv|Hv].
      * pose proof (at_pc_same_thread _ _ _ _ Esame (Hle Hv)) as Hat1.
        apply at_pc_pc_of in Hat1. apply at_pc_pc_of in Hat2. congruence.
      * pose proof (at_pc_same_thread _ _ _ _ Esame (Hgt ltac:(lia))) as Hat1.
        apply at_pc_pc_of in Hat1. apply at_pc_pc_of in Hat2. congruence.
    + exfalso. apply (Hbetween j2 c2 i); [lia|exact Hj2|reflexivity].
Qed.

(** conversely: with expansion on (limit <> 0) a submitter reaches the blocking select of push only from
    its wg.Add/go step or from its undo step - that step is its last step so far *)
Definition I_push (lg : plog) (s : pshared) (ps : list ath) : Prop :=
  forall i pr id, nth_error ps i = Some (pr, Some (SubPush id)) -> lim <> 0%Z ->
    exists k ck, nth_error lg k = Some (ck, i) /\
      (step_pc (ck, i) = Some (SubWgAdd id) \/ step_pc (ck, i) = Some (SubSubExp id)) /\
      (forall k' e', k < k' -> nth_error lg k' = Some e' -> snd e' <> i).

Lemma I_push_step lg c t a l pr cur s' :
  Good c -> I_push lg (c_sh c) (aths c) ->
  nth_error (aths c) t = Some a -> a_view a = Some (l, pr) -> step_pc (c, t) = Some l ->
  astep nw lim l (c_sh c) = RNext cur s' -> I_push (lg ++ [(c, t)]) s' (upd (aths c) t (pr, cur)).
Proof.
  intros HG HI Hn Hv Hpc Ha i pri id Hi Hl0.
  rewrite nth_error_upd in Hi. destruct (Nat.eqb_spec t i) as [<-|Hne].
  - rewrite Hn in Hi. injection Hi as <- ->.
    exists (length lg), c. split; [rewrite nth_error_app2 by lia; rewrite Nat.sub_diag; reflexivity|].
    split.
    + rewrite Hpc. destruct (enter_push nw lim _ _ _ _ Ha) as [[_ H0]|[->| ->]]; [contradiction|auto|auto].
    + intros k' e' Hlt He'. exfalso.
      assert (Hnone : nth_error (lg ++ [(c, t)]) k' = None) by (apply nth_error_None; rewrite app_length; simpl; lia).
      congruence.
  - destruct (HI _ _ _ Hi Hl0) as (k & ck & Hk & Hkpc & Hlater).
    exists k, ck. pose proof (nth_error_lt _ _ _ Hk) as Hkl.
    split; [rewrite nth_error_app1 by exact Hkl; exact Hk|]. split; [exact Hkpc|].
    intros k' e' Hlt He'. destruct (Nat.lt_ge_cases k' (length lg)) as [Hl|Hl].
    + rewrite nth_error_app1 in He' by exact Hl. eapply Hlater; eauto.
    + rewrite nth_error_app2 in He' by exact Hl. destruct (k' - length lg) as [|m]; simpl in He'.
      * injection He' as <-. simpl. exact Hne.
      * destruct m; discriminate He'.
Qed.

Theorem push_after_decision sched j2 c2 i id :
  let lg := steps_of M cfg0 sched in
  lim <> 0%Z -> nth_error lg j2 = Some (c2, i) -> at_pc c2 i (SubPush id) ->
  exists j1 c1, j1 < j2 /\ nth_error lg j1 = Some (c1, i) /\
    (at_pc c1 i (SubWgAdd id) \/ at_pc c1 i (SubSubExp id)) /\
    (forall k ck tk, j1 < k < j2 -> nth_error lg k = Some (ck, tk) -> tk <> i).
Proof.
  intros lg Hl0 Hj2 Hat. subst lg.
  destruct (steps_of_prefix nw lim _ _ _ _ _ Hj2) as (s1 & Hpre & Hc2).
  pose proof (log_abs_invariant I_push I_push_step s1 cfg0 []) as H. cbn [app] in H.
  rewrite <- Hpre, <- Hc2 in H.
  destruct (at_pc_abs _ _ _ Hat) as [pr Hn].
  destruct (H (GoodE_reach nw lim autostart choices clients nslots Hok Hlim0 Hlim [])) with (i := i) (pr := pr) (id := id)
    as (k & ck & Hk & Hkpc & Hlater); [|exact Hn|exact Hl0|].
  - unfold pool_cfg. rewrite aths_init. intros i0 pr0 id0 Hi0.
    change (map (fun p : list pop => (p, @None ppc)) (clients ++ map (fun k => [Slot k]) (seq 0 nslots)))
      with (ps0 clients nslots) in Hi0.
    apply ps0_nth in Hi0. destruct Hi0 as [(_ & q & _ & Hq)|(_ & _ & Hq)]; discriminate Hq.
  - apply nth_error_firstn_inv in Hk. destruct Hk as [Hkj Hk].
    exists k, ck. split; [exact Hkj|]. split; [exact Hk|].
    destruct (ConcBase.steps_of_reach M _ _ _ _ _ Hk) as [s0 Eck].
    pose proof (GoodE_reach nw lim autostart choices clients nslots Hok Hlim0 Hlim s0) as HGk. rewrite <- Eck in HGk.
    assert (Hview : forall l, step_pc (ck, i) = Some l -> (forall o, l <> PInv o) -> at_pc ck i l).
    { intros l Hs Hl. unfold step_pc in Hs. cbn [fst snd] in Hs.
      destruct (nth_error (aths ck) i) as [a|] eqn:Ea; [|discriminate Hs].
      destruct (a_view a) as [[l' pr']|] eqn:Ev; [|discriminate Hs]. injection Hs as ->.
      eapply stored_view; eauto. }
    split.
    + destruct Hkpc as [Hp|Hp]; [left|right]; apply Hview; try exact Hp; intros o; discriminate.
    + intros k' ck' tk' Hk' Hnk'. apply (Hlater k' (ck', tk')); [lia|].
      assert (Hlt : k' < j2) by lia. clear - Hnk' Hlt.
      revert k' j2 Hnk' Hlt. generalize (steps_of M cfg0 sched). intros l. induction l as [|x l IH]; intros k' j2 Hn Hlt.
      * destruct k'; discriminate.
      * destruct j2 as [|j2]; [lia|]. destruct k' as [|k']; [exact Hn|]. simpl in *. apply IH; [exact Hn|lia].
Qed.

(** ** (B)+(C) together: the pool grants an expansion exactly when granted - exited + (transient
    over-reservations) is below the limit; every exit gives one unit of capacity back *)
Theorem grant_iff_room sched i id :
  let c := final M cfg0 sched in let lg := steps_of M cfg0 sched in
  at_pc c i (SubAddExp id) ->
  let used := (Z.of_nat (ngranted lg) - Z.of_nat (nexited lg) + Z.of_nat (over_reserved (aths c)))%Z in
  (p_expanded (c_sh c) + 1)%Z = (used + 1)%Z /\
  ((used < lim)%Z <-> at_pc (step_cfg M c i) i (SubWgAdd id)) /\
  ((lim <= used)%Z <-> at_pc (step_cfg M c i) i (SubSubExp id)).
Proof.
  intros c lg Hat used.
  pose proof (GoodE_reach nw lim autostart choices clients nslots Hok Hlim0 Hlim sched) as HG. fold c in HG.
  destruct (reservation_balance sched) as (B1 & _ & B3 & _). fold c lg in B1, B3.
  destruct (addexp_step nw lim clients nslots Hlim Hslots c HG i id Hat) as (Ev & _ & _ & Hle & Hgt).
  split; [unfold used; lia|].
  assert (Hex : forall l1 l2, at_pc (step_cfg M c i) i l1 -> at_pc (step_cfg M c i) i l2 -> l1 = l2).
  { intros l1 l2 H1 H2. apply at_pc_pc_of in H1. apply at_pc_pc_of in H2. congruence. }
  split; split.
  - intros Hu. apply Hle. unfold used in Hu. lia.
  - intros Ha'. destruct (Z.lt_ge_cases used lim) as [Hu|Hu]; [exact Hu|exfalso].
    assert (Hx : at_pc (step_cfg M c i) i (SubSubExp id)) by (apply Hgt; unfold used in Hu; lia).
    pose proof (Hex _ _ Ha' Hx). discriminate.
  - intros Hu. apply Hgt. unfold used in Hu. lia.
  - intros Ha'. destruct (Z.lt_ge_cases used lim) as [Hu|Hu]; [exfalso|exact Hu].
    assert (Hx : at_pc (step_cfg M c i) i (SubWgAdd id)) by (apply Hle; unfold used in Hu; lia).
    pose proof (Hex _ _ Ha' Hx). discriminate.
Qed.

End Log.

Print Assumptions exit_counts.
Print Assumptions expanded_exit_accounting.
Print Assumptions exit_order.
Print Assumptions reservation_balance.
Print Assumptions reservation_balance_from.
Print Assumptions fired_by_environment.
Print Assumptions timer_exit_was_fired.
Print Assumptions exited_timer_stays_stopped.
Print Assumptions expansion_is_granted.
Print Assumptions grant_iff_room.
Print Assumptions push_after_decision.
