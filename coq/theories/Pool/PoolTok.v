(** Safety of the worker pool, part 2: every task is executed at most once and
    gets at most one result (C04); backpressure (C17). Token accounting. *)
From Coq Require Import List Arith Bool ZArith Lia.
From Garr Require Import Conc.Conc Pure.F64 Queue.MutexModel Pool.PoolModel Pool.PoolBase Pool.PoolInv1.
Import ListNotations.

Definition subids (pr : list pop) : list nat :=
  flat_map (fun o => match sub_id o with Some id => [id] | None => [] end) pr.

(* the task a thread holds and has not started to execute *)
Definition tok0 (l : ppc) : option nat :=
  match l with
  | SubRLock _ id | SubClosedFut _ id | SubTrySel id | SubAddExp id | SubWgAdd id | SubSubExp id | SubPush id
  | SubTryDoSel id | SubFut _ id _ | EBegin _ id | XStopTimer _ (Some id) | XDrainTimer _ (Some id)
  | XDrainSend id => Some id
  | _ => None
  end.
(* the task a worker is executing / has executed and not yet answered *)
Definition tok1 (l : ppc) : option nat :=
  match l with
  | EGate _ id | EEnd _ id | EFut _ id => Some id
  | _ => None
  end.

Definition oeq (o : option nat) (x : nat) : nat := match o with Some id => eqn id x | None => 0 end.

Definition h0 (x : nat) (a : ath) : nat :=
  cnt (subids (fst a)) x + match snd a with Some l => oeq (tok0 l) x | None => 0 end.
Definition h1 (x : nat) (a : ath) : nat :=
  match snd a with Some l => oeq (tok1 l) x | None => 0 end.

Definition H0 (x : nat) (ps : list ath) : nat := sumi (fun _ a => h0 x a) 0 ps.
Definition H1 (x : nat) (ps : list ath) : nat := sumi (fun _ a => h1 x a) 0 ps.

Definition futlen (s : pshared) (x : nat) : nat :=
  match get_task s x with Some t => length (tk_future t) | None => 0 end.

Definition tokens (s : pshared) (ps : list ath) (x : nat) : nat :=
  H0 x ps + H1 x ps + cnt (p_queue s) x + futlen s x.

Definition res_ok (x execs : nat) (r : tres) : Prop :=
  match r with TVal i => i = x /\ execs = 1 | TCanceled => execs = 0 end.

Record Inv2 (s : pshared) (ps : list ath) : Prop := {
  t_tok : forall x, tokens s ps x <= 1;
  t_ex : forall x t, get_task s x = Some t ->
      tk_execs t <= 1 /\
      (1 <= H0 x ps + cnt (p_queue s) x -> tk_execs t = 0) /\
      (1 <= H1 x ps -> tk_execs t = 1) /\
      Forall (res_ok x (tk_execs t)) (tk_future t);
  t_qlen : length (p_queue s) <= 1
}.

Arguments H0 : simpl never.
Arguments H1 : simpl never.

Lemma H0_upd x ps t a a' : nth_error ps t = Some a -> H0 x (upd ps t a') + h0 x a = H0 x ps + h0 x a'.
Proof. intros H. apply (sumi_upd (fun _ a => h0 x a) 0 ps t a a' H). Qed.
Lemma H1_upd x ps t a a' : nth_error ps t = Some a -> H1 x (upd ps t a') + h1 x a = H1 x ps + h1 x a'.
Proof. intros H. apply (sumi_upd (fun _ a => h1 x a) 0 ps t a a' H). Qed.
Lemma H0_ge x ps t a : nth_error ps t = Some a -> h0 x a <= H0 x ps.
Proof. intros H. apply (sumi_ge (fun _ a => h0 x a) 0 ps t a H). Qed.
Lemma H1_ge x ps t a : nth_error ps t = Some a -> h1 x a <= H1 x ps.
Proof. intros H. apply (sumi_ge (fun _ a => h1 x a) 0 ps t a H). Qed.

Lemma eqn_refl x : eqn x x = 1.
Proof. unfold eqn. rewrite Nat.eqb_refl. reflexivity. Qed.
Lemma eqn_neq a x : a <> x -> eqn a x = 0.
Proof. unfold eqn. intros H. destruct (Nat.eqb_spec a x); [contradiction|reflexivity]. Qed.
Lemma eqn_le a x : eqn a x <= 1.
Proof. unfold eqn. destruct (a =? x); lia. Qed.

Section Inv2.
Variable nw : nat.
Variable lim : Z.
Variable nc : nat.

Lemma stored_not_inv s ps t prog l0 :
  Inv1 nc s ps -> nth_error ps t = Some (prog, Some l0) -> forall o, l0 <> PInv o.
Proof.
  intros HI Hn o ->. pose proof (i_wf _ _ _ HI _ _ Hn) as Hwf. unfold wf in Hwf. simpl in Hwf.
  destruct (t <? nc); destr_hyps; discriminate.
Qed.

Ltac tok_setup x Hn :=
  let E0 := fresh "E0" in let E1 := fresh "E1" in let G0 := fresh "G0" in let G1 := fresh "G1" in
  match goal with |- context [upd ?ps ?t ?a'] =>
    pose proof (H0_upd x ps t _ a' Hn) as E0; pose proof (H1_upd x ps t _ a' Hn) as E1;
    pose proof (H0_ge x ps t _ Hn) as G0; pose proof (H1_ge x ps t _ Hn) as G1 end;
  unfold h0, h1 in E0, E1, G0, G1; simpl in E0, E1, G0, G1.

Ltac split_id x :=
  repeat match goal with
  | |- context [Nat.eqb ?a x] => destruct (Nat.eqb_spec a x); [subst a|]
  | H : context [Nat.eqb ?a x] |- _ => destruct (Nat.eqb_spec a x); [subst a|]
  end;
  repeat match goal with
  | H : ?a <> x |- _ => rewrite (eqn_neq a x H) in *
  end;
  rewrite ?eqn_refl in *.

Ltac fut_nil :=
  repeat match goal with
  | H : context [length (tk_future ?t)] |- _ =>
      let E := fresh "Ef" in destruct (tk_future t) eqn:E; simpl in *; try lia
  end.

Ltac rew_queue := repeat match goal with E : p_queue _ = _ |- _ => rewrite E in * end.
Ltac rew_fut := repeat match goal with E : tk_future _ = _ |- _ => rewrite E in * end.
Ltac rew_tasks := repeat match goal with E : get_task _ _ = _ |- _ => rewrite E in * end.

Ltac forall_res T4 :=
  first [ exact T4
        | apply Forall_inv_tail in T4; exact T4
        | constructor
        | fut_nil; repeat constructor; simpl; try lia; try (split; [reflexivity|lia]) ].

Ltac inv2_fields Hn Ttok Tex :=
  lazymatch goal with
  | |- forall x, tokens _ _ x <= 1 =>
      let x := fresh "x" in
      intros x; tok_setup x Hn; specialize (Ttok x); unfold tokens, futlen in *; simpl; autorewrite with pool;
      split_id x; simpl in *; rew_tasks; rew_queue; rew_fut; simpl in *;
      rewrite ?cnt_app, ?app_length in *; simpl in *; rewrite ?eqn_refl in *;
      try lia
  | |- forall x t, get_task _ x = Some t -> _ =>
      let x := fresh "x" in let t0 := fresh "t0" in let Hg := fresh "Hg" in
      let T1 := fresh "T1" in let T2 := fresh "T2" in let T3 := fresh "T3" in let T4 := fresh "T4" in
      intros x t0 Hg; tok_setup x Hn; autorewrite with pool in Hg; split_id x;
      specialize (Ttok x); unfold tokens, futlen in Ttok;
      lazymatch type of Hg with
      | Some _ = Some _ =>
        injection Hg as <-;
        try match goal with E : get_task _ x = Some ?t1 |- _ =>
          pose proof (Tex x t1 E) as (T1 & T2 & T3 & T4); rewrite E in Ttok end
      | _ => pose proof (Tex x t0 Hg) as (T1 & T2 & T3 & T4); rewrite Hg in Ttok
      end;
      rew_queue; rew_fut; rewrite ?cnt_app in *; simpl in *; rewrite ?eqn_refl in *;
      (split; [try lia|split; [try lia|split; [try lia|try solve [forall_res T4]]]])
  | |- length _ <= 1 =>
      unfold submit_conds in *;
      try match goal with E : pick_ready _ _ = Some _ |- _ =>
        apply pick_ready_cond in E; simpl in E;
        repeat (match type of E with context [match ?n with _ => _ end] => destruct n; simpl in E end); try discriminate E end;
      unfold queue_send_ready in *; norm_bools; simpl in *; eqb_clean; rewrite ?app_length; simpl; rew_queue; simpl in *; try lia
  end.

Lemma Inv2_next s ps t a l pr cur s' :
  Inv1 nc s ps -> Inv2 s ps -> nth_error ps t = Some a -> a_view a = Some (l, pr) ->
  astep nw lim l s = RNext cur s' -> Inv2 s' (upd ps t (pr, cur)).
Proof.
  intros HI1 HI2 Hn Hv H.
  destruct HI2 as [Ttok Tex Tql].
  destruct a as [prog [l0|]]; unfold a_view in Hv; simpl in Hv.
  - injection Hv as <- <-. pose proof (stored_not_inv _ _ _ _ _ HI1 Hn) as Hnp.
    destruct l0; try (exfalso; eapply Hnp; reflexivity).
    all: step_cases H.
    all: bool_clean; eqb_clean.
    all: constructor; simpl.
    all: inv2_fields Hn Ttok Tex.
  - destruct prog as [|o pr0]; [discriminate|]. injection Hv as <- <-.
    destruct o.
    all: step_cases H.
    all: bool_clean; eqb_clean.
    all: constructor; simpl.
    all: inv2_fields Hn Ttok Tex.
Qed.

End Inv2.

(** ** The initial configuration *)
Lemma subids_app p q : subids (p ++ q) = subids p ++ subids q.
Proof. unfold subids. apply flat_map_app. Qed.

Lemma H0_ps0 x clients nslots : H0 x (ps0 clients nslots) = cnt (subids (concat clients)) x.
Proof.
  unfold H0, ps0, progs0. rewrite sumi_map, sumi_app.
  assert (E2 : forall n l, sumi (fun (_ : nat) (a : list pop) => h0 x (a, None)) n (map (fun k => [Slot k]) l) = 0).
  { intros n l. apply sumi_all_zero. intros i a Hi. rewrite nth_error_map in Hi.
    destruct (nth_error l i); [|discriminate]. injection Hi as <-. reflexivity. }
  rewrite E2, Nat.add_0_r. generalize 0.
  induction clients as [|p cl IH]; intros n; simpl; [reflexivity|].
  rewrite IH, subids_app, cnt_app. unfold h0; simpl. lia.
Qed.

Lemma H1_ps0 x clients nslots : H1 x (ps0 clients nslots) = 0.
Proof.
  unfold H1. apply sumi_all_zero. intros i a Hi. apply ps0_nth in Hi.
  destruct Hi as [(_ & q & _ & ->)|(_ & _ & ->)]; reflexivity.
Qed.

Lemma get_task_pinit nw autostart choices x : get_task (pinit nw autostart choices) x = None.
Proof. unfold pinit, get_task. destruct autostart; simpl; destruct x; reflexivity. Qed.

Lemma Inv2_init nw autostart choices clients nslots :
  clients_ok clients -> Inv2 (pinit nw autostart choices) (ps0 clients nslots).
Proof.
  intros [_ Hnd]. constructor.
  - intros x. unfold tokens, futlen. rewrite H0_ps0, H1_ps0, get_task_pinit.
    pose proof (NoDup_cnt _ x Hnd) as Hc. fold (subids (concat clients)) in Hc.
    replace (p_queue (pinit nw autostart choices)) with (@nil nat) by (destruct autostart; reflexivity).
    simpl. lia.
  - intros x t. rewrite get_task_pinit. discriminate.
  - destruct autostart; simpl; lia.
Qed.

Definition Inv12 (nc : nat) (s : pshared) (ps : list ath) : Prop := Inv1 nc s ps /\ Inv2 s ps.

Section Reach2.
Variable nw : nat.
Variable lim : Z.

Lemma Inv12_step nc s ps t a l pr :
  Inv12 nc s ps -> nth_error ps t = Some a -> a_view a = Some (l, pr) ->
  match astep nw lim l s with
  | RNext cur s' => Inv12 nc s' (upd ps t (pr, cur))
  | RBlocked => True
  | RFault => False
  end.
Proof.
  intros [H1 H2] Hn Hv. pose proof (Inv1_step nw lim nc s ps t a l pr H1 Hn Hv) as Hs.
  destruct (astep nw lim l s) as [cur s'| |] eqn:E; auto.
  split; [exact Hs|]. eapply Inv2_next; eauto.
Qed.

Lemma Inv12_reach autostart choices clients nslots sched :
  clients_ok clients ->
  let c := final (pool nw lim) (pool_cfg nw autostart choices clients nslots) sched in
  Inv12 (length clients) (c_sh c) (aths c) /\ alive c.
Proof.
  intros Hc. apply (abs_invariant_from nw lim (Inv12 (length clients))).
  - intros s ps t a l pr. apply Inv12_step.
  - unfold pool_cfg. rewrite aths_init. split; [apply Inv1_init|apply Inv2_init]; exact Hc.
  - apply alive_init.
Qed.

End Reach2.

(** ** Reading the abstract counts on concrete configurations *)
Lemma aths_nth (c : pconfig) i th :
  nth_error (c_thr c) i = Some th -> nth_error (aths c) i = Some (abs_th th).
Proof. intros H. unfold aths. rewrite nth_error_map, H. reflexivity. Qed.

(* thread i is in the middle of a call, at pc l *)
Definition at_pc (c : pconfig) (i : nat) (l : ppc) : Prop :=
  exists th o, nth_error (c_thr c) i = Some th /\ t_cur th = Some (o, l).

Lemma at_pc_abs c i l : at_pc c i l -> exists pr, nth_error (aths c) i = Some (pr, Some l).
Proof.
  intros (th & o & Hn & Hc). exists (t_prog th). rewrite (aths_nth _ _ _ Hn). unfold abs_th. rewrite Hc. reflexivity.
Qed.

Lemma H0_at c i l x : at_pc c i l -> tok0 l = Some x -> 1 <= H0 x (aths c).
Proof.
  intros Ha Ht. destruct (at_pc_abs _ _ _ Ha) as [pr Hn]. pose proof (H0_ge x _ _ _ Hn) as Hg.
  unfold h0 in Hg. simpl in Hg. rewrite Ht in Hg. simpl in Hg. rewrite eqn_refl in Hg. lia.
Qed.

Lemma H1_at c i l x : at_pc c i l -> tok1 l = Some x -> 1 <= H1 x (aths c).
Proof.
  intros Ha Ht. destruct (at_pc_abs _ _ _ Ha) as [pr Hn]. pose proof (H1_ge x _ _ _ Hn) as Hg.
  unfold h1 in Hg. simpl in Hg. rewrite Ht in Hg. simpl in Hg. rewrite eqn_refl in Hg. lia.
Qed.

(* a submission of task x still to be invoked by thread i *)
Lemma H0_pending (c : pconfig) i th o x :
  nth_error (c_thr c) i = Some th -> In o (t_prog th) -> sub_id o = Some x -> 1 <= H0 x (aths c).
Proof.
  intros Hn Hin Hs. pose proof (H0_ge x _ _ _ (aths_nth _ _ _ Hn)) as Hg. unfold h0, abs_th in Hg. simpl in Hg.
  assert (1 <= cnt (subids (t_prog th)) x); [|lia].
  apply cnt_In. unfold subids. apply in_flat_map. exists o. split; [exact Hin|]. rewrite Hs. left. reflexivity.
Qed.

(* two different threads never hold the same task *)
Lemma holders_distinct x ps i j a b :
  H0 x ps + H1 x ps <= 1 -> nth_error ps i = Some a -> nth_error ps j = Some b -> i <> j ->
  1 <= h0 x a + h1 x a -> 1 <= h0 x b + h1 x b -> False.
Proof.
  intros Hle Hi Hj Hne Ha Hb.
  pose proof (sumi_ge2 (fun _ a => h0 x a + h1 x a) 0 ps i j a b Hi Hj Hne) as H. simpl in H.
  rewrite (sumi_plus (fun _ a => h0 x a) (fun _ a => h1 x a)) in H. unfold H0, H1 in Hle. lia.
Qed.

Section Main2.
Variable nw : nat.
Variable lim : Z.
Variables (autostart : bool) (choices : list nat) (clients : list (list pop)) (nslots : nat) (sched : list nat).
Hypothesis Hok : clients_ok clients.

Let c := final (pool nw lim) (pool_cfg nw autostart choices clients nslots) sched.
Let s := c_sh c.

(** T2 (C04, C17): exactly once, one result; never more than one waiting task.
    [tokens s ps x] = number of threads holding task x before execution ([H0]: a submission not
    yet invoked, a submitter before its decision, a worker before [begin], the drain)
    + number of workers executing x ([H1]) + occurrences in the queue + length of the result channel. *)
Theorem pool_exactly_once :
  (forall x, tokens s (aths c) x <= 1) /\
  (forall x t, get_task s x = Some t ->
     tk_execs t <= 1 /\ length (tk_future t) <= 1 /\
     (1 <= H0 x (aths c) + cnt (p_queue s) x -> tk_execs t = 0) /\
     (1 <= H1 x (aths c) -> tk_execs t = 1) /\
     (forall i, In (TVal i) (tk_future t) -> i = x /\ tk_execs t = 1) /\
     (In TCanceled (tk_future t) -> tk_execs t = 0)) /\
  length (p_queue s) <= 1 /\ NoDup (p_queue s).
Proof.
  destruct (Inv12_reach nw lim autostart choices clients nslots sched Hok) as [[_ [Ttok Tex Tql]] _].
  fold c in Ttok, Tex, Tql. fold s in Ttok, Tex, Tql.
  split; [exact Ttok|]. split; [|split; [exact Tql|]].
  - intros x t Hg. destruct (Tex x t Hg) as (T1 & T2 & T3 & T4).
    specialize (Ttok x). unfold tokens, futlen in Ttok. rewrite Hg in Ttok.
    split; [exact T1|]. split; [lia|]. split; [exact T2|]. split; [exact T3|].
    rewrite Forall_forall in T4. split.
    + intros i Hi. apply (T4 _ Hi).
    + intros Hi. apply (T4 _ Hi).
  - apply cnt_NoDup. intros x. specialize (Ttok x). unfold tokens in Ttok. lia.
Qed.

(** T3 (C17): the non-blocking submissions never block *)
Definition try_pc (l : ppc) : bool :=
  match l with
  | SubClosedFut true _ | SubTryDoSel _ | SubFut (KTry _) _ _ | SubRUnlock (KTry _) => true
  | _ => false
  end.

Theorem try_never_blocks i l :
  at_pc c i l -> try_pc l = true -> pstep nw lim l s <> Blocked.
Proof.
  intros Ha Ht.
  destruct (Inv12_reach nw lim autostart choices clients nslots sched Hok) as [[HI1 [Ttok Tex Tql]] _].
  fold c in HI1, Ttok, Tex, Tql. fold s in HI1, Ttok, Tex, Tql.
  destruct (at_pc_abs _ _ _ Ha) as [pr Hn].
  assert (Hf : forall x, tok0 l = Some x -> futlen s x = 0).
  { intros x Hx. pose proof (H0_at _ _ _ _ Ha Hx). specialize (Ttok x). unfold tokens in Ttok. lia. }
  destruct l as [| | [|] id | | | | | |id| [|a] id p| [|a] | | | | | | | | | | | | | | | | | | | | | | | | | | | | | | | | | | | | |];
    try discriminate Ht; simpl.
  - specialize (Hf id eq_refl). unfold future_send, futlen in *. destruct (get_task s id) as [tk|]; [|discriminate].
    rewrite Hf. simpl. discriminate.
  - unfold submit_select. destruct (get_task s id) as [tk|]; [|discriminate].
    rewrite take_choice_eq.
    destruct (pick_ready (ready_cases (submit_conds s tk)) (hd 0 (p_choices s))) as [[|[|k]]|]; try discriminate.
    destruct (p_qclosed s); discriminate.
  - specialize (Hf id eq_refl). unfold future_send, futlen in *. destruct (get_task s id) as [tk|]; [|discriminate].
    rewrite Hf. simpl. discriminate.
  - discriminate.
Qed.

(* the read lock is refused only while Stop holds the write lock, i.e. is at XClose or XUnlock ... *)
Theorem rlock_blocked_only_by_stop i try id :
  at_pc c i (SubRLock try id) -> pstep nw lim (SubRLock try id) s = Blocked ->
  exists j, at_pc c j XClose \/ at_pc c j XUnlock.
Proof.
  intros Ha Hb.
  destruct (Inv12_reach nw lim autostart choices clients nslots sched Hok) as [[HI1 _] _].
  fold c in HI1. fold s in HI1.
  simpl in Hb. unfold rlock in Hb. destruct (rw_writer (p_lock s)) eqn:Ew.
  - pose proof (i_wr _ _ _ HI1) as Hw. rewrite Ew in Hw. destruct Hw as [Hw _].
    assert (Hp : 1 <= cntp is_cl (aths c) \/ 1 <= cntp is_ul (aths c)) by lia.
    assert (G : forall p, 1 <= cntp p (aths c) -> exists j l, at_pc c j l /\ p l = true).
    { intros p H. apply cntp_pos in H. destruct H as (j & pr & l & Hj & Hl).
      unfold aths in Hj. rewrite nth_error_map in Hj. destruct (nth_error (c_thr c) j) as [th|] eqn:Eth; [|discriminate].
      simpl in Hj. unfold abs_th in Hj. destruct (t_cur th) as [[o l']|] eqn:Ec; [|discriminate].
      injection Hj as _ ->. exists j, l. split; [exists th, o; auto|exact Hl]. }
    destruct Hp as [Hp|Hp]; apply G in Hp; destruct Hp as (j & l & Hj & Hl); exists j; destruct l; try discriminate Hl; auto.
  - destruct (p_closedflag s); [discriminate|]. destruct try; [discriminate|]. destruct (lim =? 0)%Z; discriminate.
Qed.

(* ... from where it takes two steps that never block *)
Theorem stop_unlock_never_blocks s0 : pstep nw lim XClose s0 <> Blocked /\ pstep nw lim XUnlock s0 <> Blocked.
Proof. split; simpl; [destruct (p_qclosed s0)|]; discriminate. Qed.

End Main2.

Print Assumptions pool_exactly_once.
Print Assumptions try_never_blocks.
Print Assumptions rlock_blocked_only_by_stop.
Print Assumptions stop_unlock_never_blocks.
