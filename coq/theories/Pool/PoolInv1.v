(** Safety of the worker pool, part 1: lock discipline, the Stop protocol,
    wait-group accounting, existence of tasks and timers; no thread ever
    faults (property C12). *)
From Coq Require Import List Arith Bool ZArith Lia.
From Garr Require Import Conc.Conc Pure.F64 Queue.MutexModel Pool.PoolModel Pool.PoolBase.
Import ListNotations.

Arguments get_task : simpl never.

(** ** Classification of program counters *)
Definition is_reader (l : ppc) : bool :=
  match l with
  | SubClosedFut _ _ | SubTrySel _ | SubAddExp _ | SubWgAdd _ | SubSubExp _ | SubPush _ | SubTryDoSel _
  | SubFut _ _ _ | SubRUnlock _ | StCas | StWgAdd | StRUnlock => true
  | _ => false
  end.
(* readers that have seen p.closed = false (resp. state = 0 for Start) and may still add to the pool *)
Definition is_open (l : ppc) : bool :=
  match l with
  | SubTrySel _ | SubAddExp _ | SubWgAdd _ | SubSubExp _ | SubPush _ | SubTryDoSel _ | StWgAdd => true
  | _ => false
  end.
Definition is_pre (l : ppc) : bool := match l with XCancel | XLock => true | _ => false end.
Definition is_cl (l : ppc) : bool := match l with XClose => true | _ => false end.
Definition is_ul (l : ppc) : bool := match l with XUnlock => true | _ => false end.
Definition is_wt (l : ppc) : bool := match l with XWait => true | _ => false end.
Definition is_dr (l : ppc) : bool := match l with XDrainRecv | XDrainSend _ => true | _ => false end.
Definition is_stwg (l : ppc) : bool := match l with StWgAdd => true | _ => false end.

Definition worker_pc (l : ppc) : bool :=
  match l with
  | WRecv | WDone | EBegin _ _ | EGate _ _ | EEnd _ _ | EFut _ _ | XNewTimer | XSelect _ | XStopTimer _ _
  | XDrainTimer _ _ | XReset _ | XExitDec | XExitDone => true
  | _ => false
  end.
Definition client_pc (l : ppc) : bool :=
  match l with
  | PInv _ => false
  | _ => negb (worker_pc l)
  end.

(** ** Counting threads *)
Definition pcf (p : ppc -> bool) (a : ath) : nat :=
  match snd a with Some l => if p l then 1 else 0 | None => 0 end.
Definition cntp (p : ppc -> bool) (ps : list ath) : nat := sumi (fun _ a => pcf p a) 0 ps.

Definition started (a : ath) : nat :=
  match snd a with Some _ => 1 | None => match fst a with [] => 1 | _ => 0 end end.
Definition running (a : ath) : nat := match snd a with Some _ => 1 | None => 0 end.
Definition finished (a : ath) : nat :=
  match snd a with Some _ => 0 | None => match fst a with [] => 1 | _ => 0 end end.

Lemma cntp_upd p ps t a a' : nth_error ps t = Some a -> cntp p (upd ps t a') + pcf p a = cntp p ps + pcf p a'.
Proof. intros H. apply (sumi_upd (fun _ a => pcf p a) 0 ps t a a' H). Qed.

Lemma cntp_ge p ps t a : nth_error ps t = Some a -> pcf p a <= cntp p ps.
Proof. intros H. apply (sumi_ge (fun _ a => pcf p a) 0 ps t a H). Qed.

Lemma cntp_le p q ps : (forall l, p l = true -> q l = true) -> cntp p ps <= cntp q ps.
Proof.
  intros H. apply sumi_le. intros i a _. unfold pcf. destruct (snd a) as [l|]; [|lia].
  destruct (p l) eqn:E; [rewrite (H _ E)|destruct (q l)]; lia.
Qed.

Lemma cntp_pos p ps : 1 <= cntp p ps -> exists t pr l, nth_error ps t = Some (pr, Some l) /\ p l = true.
Proof.
  intros H. apply sumi_pos in H. destruct H as (i & [pr cur] & Hi & Hp). unfold pcf in Hp. simpl in Hp.
  destruct cur as [l|]; [|lia]. destruct (p l) eqn:E; [|lia]. eauto.
Qed.

Lemma cntp_zero p ps t pr l : cntp p ps = 0 -> nth_error ps t = Some (pr, Some l) -> p l = false.
Proof.
  intros H Hn. pose proof (cntp_ge p _ _ _ Hn) as Hg. unfold pcf in Hg. simpl in Hg. destruct (p l); [lia|reflexivity].
Qed.

(** ** What a step may do to the append-only parts of the shared state *)
Definition sle (s s' : pshared) : Prop :=
  (forall id, has_task s id -> has_task s' id) /\
  length (p_timers s) <= length (p_timers s') /\
  (exists l, p_spawned s' = p_spawned s ++ l).

Lemma sle_refl s : sle s s.
Proof. split; [auto|]. split; [lia|]. exists []. rewrite app_nil_r. reflexivity. Qed.

Lemma sle_spawned_len s s' : sle s s' -> length (p_spawned s) <= length (p_spawned s').
Proof. intros (_ & _ & l & ->). rewrite app_length. lia. Qed.

Lemma gt_upd_state s v id : get_task (upd_state s v) id = get_task s id. Proof. reflexivity. Qed.
Lemma gt_upd_closedflag s v id : get_task (upd_closedflag s v) id = get_task s id. Proof. reflexivity. Qed.
Lemma gt_upd_qclosed s v id : get_task (upd_qclosed s v) id = get_task s id. Proof. reflexivity. Qed.
Lemma gt_upd_queue s v id : get_task (upd_queue s v) id = get_task s id. Proof. reflexivity. Qed.
Lemma gt_upd_lock s v id : get_task (upd_lock s v) id = get_task s id. Proof. reflexivity. Qed.
Lemma gt_upd_wg s v id : get_task (upd_wg s v) id = get_task s id. Proof. reflexivity. Qed.
Lemma gt_upd_expanded s v id : get_task (upd_expanded s v) id = get_task s id. Proof. reflexivity. Qed.
Lemma gt_upd_poolctx s v id : get_task (upd_poolctx s v) id = get_task s id. Proof. reflexivity. Qed.
Lemma gt_upd_ctxs s v id : get_task (upd_ctxs s v) id = get_task s id. Proof. reflexivity. Qed.
Lemma gt_upd_gates s v id : get_task (upd_gates s v) id = get_task s id. Proof. reflexivity. Qed.
Lemma gt_upd_timers s v id : get_task (upd_timers s v) id = get_task s id. Proof. reflexivity. Qed.
Lemma gt_upd_spawned s v id : get_task (upd_spawned s v) id = get_task s id. Proof. reflexivity. Qed.
Lemma gt_upd_choices s v id : get_task (upd_choices s v) id = get_task s id. Proof. reflexivity. Qed.
Global Hint Rewrite gt_upd_state gt_upd_closedflag gt_upd_qclosed gt_upd_queue gt_upd_lock gt_upd_wg gt_upd_expanded
  gt_upd_poolctx gt_upd_ctxs gt_upd_gates gt_upd_timers gt_upd_spawned gt_upd_choices get_task_set : pool.

Ltac unfold_astep H :=
  unfold astep, pstep in H;
  unfold submit_select, future_send, rlock, runlock, after_sub, after_task, goto, fin, new_task, timer_get, timer_set in H;
  rewrite ?take_choice_eq in H; cbv beta iota zeta in H.

Ltac step_cases H :=
  unfold_astep H; repeat break1 H; try discriminate H; injection H as <- <-.

Section Inv1.
Variable nw : nat.
Variable lim : Z.

Lemma astep_sle l s cur s' : astep nw lim l s = RNext cur s' -> sle s s'.
Proof.
  intros H. destruct l; try (match goal with o : pop |- _ => destruct o end); step_cases H;
    (split; [intros x Hx; unfold has_task in *; autorewrite with pool; simpl; eqb_clean;
             try (destruct (Nat.eqb_spec id x); [discriminate|]); try assumption
            |split; [simpl; rewrite ?app_length, ?upd_length; simpl; lia
                    |simpl; first [exists []; rewrite app_nil_r; reflexivity | eexists; reflexivity]]]).
Qed.

Variable nc : nat.     (* number of client threads; thread nc + k is the k-th goroutine slot *)

Definition slotf (g : ath -> nat) : nat -> ath -> nat := fun i a => if nc <=? i then g a else 0.
Definition slotc (g : ath -> nat) (ps : list ath) : nat := sumi (slotf g) 0 ps.

Definition pc_ok (s : pshared) (l : ppc) : Prop :=
  match l with
  | SubRLock _ id | SubClosedFut _ id | SubTrySel id | SubAddExp id | SubWgAdd id | SubSubExp id | SubPush id
  | SubTryDoSel id | SubFut _ id _ | XDrainSend id | RRecv id | RPoll id => has_task s id
  | EBegin tm id | EGate tm id | EEnd tm id | EFut tm id => has_task s id /\ tm <= length (p_timers s)
  | XSelect tm | XReset tm => 1 <= tm <= length (p_timers s)
  | XStopTimer tm got | XDrainTimer tm got =>
      1 <= tm <= length (p_timers s) /\ match got with Some id => has_task s id | None => True end
  | _ => True
  end.

Definition all_client (pr : list pop) : Prop := Forall (fun o => client_op o = true) pr.

Definition wf (s : pshared) (i : nat) (a : ath) : Prop :=
  match snd a with
  | Some l => pc_ok s l /\
      if i <? nc then client_pc l = true /\ all_client (fst a)
      else worker_pc l = true /\ fst a = [] /\ i - nc < length (p_spawned s)
  | None =>
      if i <? nc then all_client (fst a)
      else fst a = [Slot (i - nc)] \/ (fst a = [] /\ i - nc < length (p_spawned s))
  end.

Definition nstop (ps : list ath) : nat :=
  cntp is_pre ps + cntp is_cl ps + cntp is_ul ps + cntp is_wt ps + cntp is_dr ps.

Record Inv1 (s : pshared) (ps : list ath) : Prop := {
  i_rd : rw_readers (p_lock s) = cntp is_reader ps;
  i_wr : if rw_writer (p_lock s) then cntp is_cl ps + cntp is_ul ps = 1 /\ rw_readers (p_lock s) = 0
         else cntp is_cl ps + cntp is_ul ps = 0;
  i_one : nstop ps <= 1;
  i_st : p_state s <= 2 /\ (p_state s <> 2 -> nstop ps = 0 /\ p_closedflag s = false);
  i_cf : if p_closedflag s then cntp is_pre ps = 0 /\ cntp is_open ps = 0
         else cntp is_cl ps + cntp is_ul ps + cntp is_wt ps + cntp is_dr ps = 0 /\ p_qclosed s = false;
  i_qc : if p_qclosed s then cntp is_cl ps = 0 else cntp is_ul ps + cntp is_wt ps + cntp is_dr ps = 0;
  i_wg : p_wg s + slotc started ps = length (p_spawned s) + slotc running ps;
  i_wf : forall i a, nth_error ps i = Some a -> wf s i a;
  i_q : Forall (has_task s) (p_queue s)
}.

Lemma pc_ok_mono s s' l : sle s s' -> pc_ok s l -> pc_ok s' l.
Proof.
  intros (Ht & Hl & _). destruct l; simpl; auto; try (intros [H1 H2]; split; [auto; lia|]); try lia; try (destruct got; auto); auto.
Qed.

Lemma wf_mono s s' i a : sle s s' -> wf s i a -> wf s' i a.
Proof.
  intros Hs. pose proof (sle_spawned_len _ _ Hs) as Hl. unfold wf.
  destruct (snd a) as [l|]; destruct (i <? nc); auto.
  - intros [H1 H2]. split; [eapply pc_ok_mono; eauto|exact H2].
  - intros (H1 & H2 & H3 & H4). split; [eapply pc_ok_mono; eauto|]. split; [exact H2|]. split; [exact H3|lia].
  - intros [H|[H1 H2]]; [auto|right; split; [exact H1|lia]].
Qed.


Arguments cntp : simpl never.
Arguments slotc : simpl never.

Lemma slotc_upd g ps t a a' : nth_error ps t = Some a -> slotc g (upd ps t a') + slotf g t a = slotc g ps + slotf g t a'.
Proof. intros H. apply (sumi_upd (slotf g) 0 ps t a a' H). Qed.

Lemma slotc_ge g ps t a : nth_error ps t = Some a -> slotf g t a <= slotc g ps.
Proof. intros H. apply (sumi_ge (slotf g) 0 ps t a H). Qed.

Ltac pose_counts Hn :=
  match goal with |- Inv1 _ (upd ?ps ?t ?a') =>
      pose proof (cntp_upd is_reader ps t _ a' Hn) as Erd;
      pose proof (cntp_upd is_open ps t _ a' Hn) as Eop;
      pose proof (cntp_upd is_pre ps t _ a' Hn) as Epre;
      pose proof (cntp_upd is_cl ps t _ a' Hn) as Ecl;
      pose proof (cntp_upd is_ul ps t _ a' Hn) as Eul;
      pose proof (cntp_upd is_wt ps t _ a' Hn) as Ewt;
      pose proof (cntp_upd is_dr ps t _ a' Hn) as Edr;
      pose proof (slotc_upd started ps t _ a' Hn) as Est;
      pose proof (slotc_upd running ps t _ a' Hn) as Ern;
      unfold pcf, slotf in Erd, Eop, Epre, Ecl, Eul, Ewt, Edr, Est, Ern;
      simpl in Erd, Eop, Epre, Ecl, Eul, Ewt, Edr, Est, Ern
  end.

Ltac has_task_tac Hht :=
  first [ apply Hht; assumption
        | unfold has_task in *; autorewrite with pool; rewrite ?Nat.eqb_refl; congruence ].

Ltac inv1_fields t Hn Hsle Iq Iwf :=
    let Hlen := fresh "Hlen" in let Htl := fresh "Htl" in let Hht := fresh "Hht" in let Iqh := fresh "Iqh" in
    pose proof (sle_spawned_len _ _ Hsle) as Hlen; pose proof (proj1 (proj2 Hsle)) as Htl; pose proof (proj1 Hsle) as Hht;
    simpl in Hlen, Htl;
    repeat match goal with E : p_queue _ = _ |- _ => rewrite E in * end;
    try match type of Iq with Forall _ (_ :: _) => apply Forall_cons_iff in Iq; destruct Iq as [Iqh Iq] end;
    constructor; unfold nstop; simpl;
    norm_bools;
    repeat match goal with E : p_queue _ = _ |- _ => rewrite E in * end;
    rewrite ?app_length, ?repeat_length; simpl;
    lazymatch goal with
    | |- Forall _ _ =>
      first [ solve [apply Forall_app; split; [eapply Forall_impl; [intros ? Hx; apply Hht; exact Hx|exact Iq]|constructor; [apply Hht; assumption|constructor]]]
            | solve [eapply Forall_impl; [intros ? Hx; apply Hht; exact Hx|]; first [exact Iq|constructor]] ]
    | |- forall _ _, nth_error _ _ = Some _ -> _ =>
      let ii := fresh "ii" in let aa := fresh "aa" in let Hi := fresh "Hi" in let Hne := fresh "Hne" in
      intros ii aa Hi; rewrite nth_error_upd in Hi; destruct (Nat.eqb_spec t ii) as [<-|Hne];
      [rewrite Hn in Hi; injection Hi as <-; unfold wf; simpl; destruct (Nat.ltb_spec t nc); try lia; rewrite ?app_length, ?upd_length; simpl;
       repeat split; auto; try (has_task_tac Hht); try lia
      |eapply wf_mono; [exact Hsle|apply Iwf; exact Hi]]
    | |- _ => first [lia | solve [ar] | solve [hyp_ifs; ar]]
    end.

Lemma Inv1_next s ps t a l pr cur s' :
  Inv1 s ps -> nth_error ps t = Some a -> a_view a = Some (l, pr) ->
  astep nw lim l s = RNext cur s' -> Inv1 s' (upd ps t (pr, cur)).
Proof.
  intros HI Hn Hv H.
  pose proof (astep_sle _ _ _ _ H) as Hsle.
  pose proof (i_wf _ _ HI _ _ Hn) as Hwf.
  assert (Hopen : cntp is_open ps <= cntp is_reader ps) by (apply cntp_le; intros []; simpl; congruence).
  assert (Hk : (nc <=? t) = negb (t <? nc)).
  { destruct (Nat.leb_spec nc t), (Nat.ltb_spec t nc); simpl; try reflexivity; lia. }
  destruct a as [prog [l0|]]; unfold a_view in Hv; simpl in Hv.
  - injection Hv as <- <-. unfold wf in Hwf; simpl in Hwf.
    destruct l0.
    all: step_cases H.
    all: pose_counts Hn.
    all: rewrite Hk in *; destruct (t <? nc) eqn:Et; simpl in Hwf, Est, Ern; cbn [started running fst snd] in Est, Ern; destr_hyps; try discriminate.
    all: destruct HI as [Ird Iwr Ione Ist Icf Iqc Iwg Iwf Iq].
    all: unfold nstop in *.
    all: bool_clean; norm_bools; eqb_clean.
    all: inv1_fields t Hn Hsle Iq Iwf.
  - destruct prog as [|o pr0]; [discriminate|]. injection Hv as <- <-. unfold wf in Hwf; simpl in Hwf.
    destruct o.
    all: step_cases H.
    all: pose_counts Hn.
    all: rewrite Hk in *; destruct (t <? nc) eqn:Et; simpl in Hwf, Est, Ern; cbn [started running fst snd] in Est, Ern.
    all: try (apply Forall_cons_iff in Hwf; destruct Hwf as [Hc Hwf]; simpl in Hc; try discriminate Hc).
    all: try (match type of Hwf with _ \/ _ => destruct Hwf as [Hwf|[Hwf ?]]; [|discriminate Hwf]; try discriminate Hwf; injection Hwf as -> -> end).
    all: destruct HI as [Ird Iwr Ione Ist Icf Iqc Iwg Iwf Iq].
    all: unfold nstop in *.
    all: bool_clean; norm_bools; eqb_clean.
    all: try match goal with E : nth_error (p_spawned _) _ = Some _ |- _ => pose proof (nth_error_lt _ _ _ E) end.
    all: inv1_fields t Hn Hsle Iq Iwf.
Qed.

Lemma filter_true_length {B} (l : list B) : length (filter (fun _ => true) l) = length l.
Proof. induction l; simpl; auto. Qed.

Lemma started_bound s ps :
  (forall i a, nth_error ps i = Some a -> wf s i a) -> slotc started ps <= length (p_spawned s).
Proof.
  intros Hwf. unfold slotc.
  pose proof (sumi_bound (slotf started) (fun _ : role => true) (p_spawned s) nc ps 0) as H.
  simpl in H. rewrite filter_true_length in H. apply H. clear H.
  intros i a Hi H1. specialize (Hwf i a Hi). unfold slotf in *. unfold wf in Hwf.
  destruct (Nat.leb_spec nc i) as [Hle|Hlt]; [|lia].
  assert (Hlt : (i <? nc) = false) by (apply Nat.ltb_ge; exact Hle). rewrite Hlt in Hwf.
  assert (Hb : i - nc < length (p_spawned s)).
  { unfold started in H1. destruct (snd a) as [l|].
    - tauto.
    - destruct Hwf as [Hf|[_ Hf]]; [rewrite Hf in H1; lia|exact Hf]. }
  split; [|split; [exact Hle|]].
  - unfold started in *. destruct (snd a); [reflexivity|]. destruct (fst a); [reflexivity|lia].
  - destruct (nth_error (p_spawned s) (i - nc)) as [b|] eqn:E; [eauto|].
    apply nth_error_None in E. lia.
Qed.

Lemma Inv1_nofault s ps t a l pr :
  Inv1 s ps -> nth_error ps t = Some a -> a_view a = Some (l, pr) -> astep nw lim l s <> RFault.
Proof.
  intros HI Hn Hv H.
  pose proof (i_wf _ _ HI _ _ Hn) as Hwf.
  pose proof (started_bound _ _ (i_wf _ _ HI)) as Hsb.
  pose proof (cntp_ge is_open _ _ _ Hn) as Gop.
  pose proof (cntp_ge is_cl _ _ _ Hn) as Gcl.
  pose proof (slotc_ge running _ _ _ Hn) as Grn.
  assert (Hk : (nc <=? t) = negb (t <? nc)).
  { destruct (Nat.leb_spec nc t), (Nat.ltb_spec t nc); simpl; try reflexivity; lia. }
  destruct HI as [Ird Iwr Ione Ist Icf Iqc Iwg Iwf Iq].
  unfold pcf, slotf in *. rewrite Hk in *.
  destruct a as [prog [l0|]]; unfold a_view in Hv; simpl in Hv.
  - injection Hv as <- <-. unfold wf in Hwf; simpl in Hwf.
    destruct l0.
    all: unfold_astep H; repeat break1 H; try discriminate H.
    all: simpl in *; cbn [running fst snd] in Grn; unfold has_task in *; destr_hyps; try congruence.
    all: try (match goal with E : nth_error (p_timers _) _ = None |- _ => apply nth_error_None in E end; lia).
    all: try solve [hyp_ifs; destr_hyps; try discriminate; try lia; try congruence].
    all: try match goal with E : p_queue _ = _ |- _ => rewrite E in Iq; apply Forall_cons_iff in Iq; destruct Iq; congruence end.
  - destruct prog as [|o pr0]; [discriminate|]. injection Hv as <- <-.
    destruct o; unfold_astep H; repeat break1 H; discriminate H.
Qed.

End Inv1.

(** ** The initial configuration *)
Definition progs0 (clients : list (list pop)) (nslots : nat) : list (list pop) :=
  clients ++ map (fun k => [Slot k]) (seq 0 nslots).
Definition ps0 (clients : list (list pop)) (nslots : nat) : list ath :=
  map (fun p => (p, None)) (progs0 clients nslots).

Lemma ps0_nth clients nslots i a :
  nth_error (ps0 clients nslots) i = Some a ->
  (i < length clients /\ exists p, In p clients /\ a = (p, None)) \/
  (length clients <= i /\ i - length clients < nslots /\ a = ([Slot (i - length clients)], None)).
Proof.
  unfold ps0, progs0. rewrite nth_error_map. intros H.
  destruct (Nat.lt_ge_cases i (length clients)) as [Hlt|Hge].
  - left. split; [exact Hlt|]. rewrite nth_error_app1 in H by exact Hlt.
    destruct (nth_error clients i) as [p|] eqn:E; [|discriminate]. simpl in H. injection H as <-.
    exists p. split; [eapply nth_error_In; eauto|reflexivity].
  - right. split; [exact Hge|]. rewrite nth_error_app2 in H by exact Hge. rewrite nth_error_map in H.
    destruct (nth_error (seq 0 nslots) (i - length clients)) as [k|] eqn:E; [|discriminate].
    simpl in H. injection H as <-.
    assert (Hl : i - length clients < nslots).
    { apply nth_error_lt in E. rewrite seq_length in E. exact E. }
    rewrite (nth_error_nth' _ 0) in E by (rewrite seq_length; exact Hl). rewrite seq_nth in E by exact Hl.
    injection E as <-. split; [exact Hl|reflexivity].
Qed.

Lemma cntp_ps0 p clients nslots : cntp p (ps0 clients nslots) = 0.
Proof.
  unfold cntp. apply sumi_all_zero. intros i a Hi. apply ps0_nth in Hi.
  destruct Hi as [(_ & q & _ & ->)|(_ & _ & ->)]; reflexivity.
Qed.

Lemma slotc_ps0 g clients nslots :
  (forall k, g ([Slot k], None) = 0) -> slotc (length clients) g (ps0 clients nslots) = 0.
Proof.
  intros Hg. unfold slotc. apply sumi_all_zero. intros i a Hi. apply ps0_nth in Hi. unfold slotf. simpl.
  destruct Hi as [(Hlt & _)|(Hge & _ & ->)].
  - destruct (Nat.leb_spec (length clients) i); [lia|reflexivity].
  - destruct (length clients <=? i); [apply Hg|reflexivity].
Qed.

Lemma Inv1_init nw autostart choices clients nslots :
  clients_ok clients -> Inv1 (length clients) (pinit nw autostart choices) (ps0 clients nslots).
Proof.
  intros [Hc _].
  assert (Hwf : forall s i a, nth_error (ps0 clients nslots) i = Some a -> wf (length clients) s i a).
  { intros s i a Hi. apply ps0_nth in Hi. unfold wf.
    destruct Hi as [(Hlt & q & Hq & ->)|(Hge & _ & ->)]; simpl.
    - apply Nat.ltb_lt in Hlt. rewrite Hlt. apply Forall_forall. intros o Ho. eapply Hc; eauto.
    - apply Nat.ltb_ge in Hge. rewrite Hge. left. reflexivity. }
  unfold pinit. destruct autostart; constructor; unfold nstop; simpl; rewrite ?cntp_ps0, ?repeat_length;
    rewrite ?(slotc_ps0 started), ?(slotc_ps0 running) by reflexivity; auto; try lia.
Qed.

Section Reach.
Variable nw : nat.
Variable lim : Z.

Lemma Inv1_step nc s ps t a l pr :
  Inv1 nc s ps -> nth_error ps t = Some a -> a_view a = Some (l, pr) ->
  match astep nw lim l s with
  | RNext cur s' => Inv1 nc s' (upd ps t (pr, cur))
  | RBlocked => True
  | RFault => False
  end.
Proof.
  intros HI Hn Hv. destruct (astep nw lim l s) as [cur s'| |] eqn:E.
  - eapply Inv1_next; eauto.
  - exact I.
  - eapply Inv1_nofault; eauto.
Qed.

Lemma Inv1_reach autostart choices clients nslots sched :
  clients_ok clients ->
  let c := final (pool nw lim) (pool_cfg nw autostart choices clients nslots) sched in
  Inv1 (length clients) (c_sh c) (aths c) /\ alive c.
Proof.
  intros Hc. apply (abs_invariant_from nw lim (Inv1 (length clients))).
  - intros s ps t a l pr. apply Inv1_step.
  - unfold pool_cfg. rewrite aths_init. apply Inv1_init. exact Hc.
  - apply alive_init.
Qed.

(** T1 (C12): no thread ever panics *)
Theorem pool_never_panics autostart choices clients nslots sched :
  clients_ok clients ->
  let c := final (pool nw lim) (pool_cfg nw autostart choices clients nslots) sched in
  forall th, In th (c_thr c) -> t_dead th = false.
Proof.
  intros Hc c th Hin. destruct (Inv1_reach autostart choices clients nslots sched Hc) as [_ Ha].
  unfold alive in Ha. rewrite Forall_forall in Ha. apply Ha. exact Hin.
Qed.

End Reach.

Print Assumptions pool_never_panics.
