(** Hand-written step machine for worker-pool/pool.go.

    One step = one access to a shared object in program order: an atomic
    operation on [state]/[expanded], an RWMutex or WaitGroup operation, a
    channel send / receive / close, a whole [select] (blocked while no case is
    ready; the case taken among several ready ones is read from the oracle
    stream [p_choices]; a send case on a closed channel is ready and faults
    when taken), a context cancellation, a timer operation.  Plain accesses to
    [p.closed] happen under the lock and are fused with the lock operation
    that precedes them.  Goroutines started by [go] are pre-existing threads
    (slots) that stay blocked until [p_spawned] says they have been started;
    their role (fixed or expanded worker) is assigned at the [go] statement.
    A task's executor is harness code: a [begin] step, an optional wait for a
    gate, an [end] step - so that every task duration and overlap is just a
    schedule.  Timers never fire by themselves: the environment operation
    [Fire i] expires the i-th armed timer (Go >= 1.23 channel-timer semantics:
    Stop/Reset discard an unreceived expiry, Stop reports whether the timer was
    armed or had an unreceived expiry).  Dereferencing a missing task, sending
    on / closing a closed channel and a negative wait group are [Fault]. *)
From Coq Require Import List Arith Bool ZArith.
From Garr Require Import Conc.Conc Pure.F64 Queue.MutexModel.
Import ListNotations.

Inductive tres := TVal (id : nat) | TCanceled.
Inductive role := RWorker | RExpanded.

Record task := Task {
  tk_ctx : nat;              (* 0 = the pool's context, k = user context k *)
  tk_gate : nat;             (* 0 = none *)
  tk_future : list tres;     (* result channel, capacity 1 *)
  tk_execs : nat             (* how many times the executor was entered (observed by the harness) *)
}.

Record timer := Timer { tm_armed : bool; tm_fired : bool }.   (* fired = expiry not yet received *)

Record pshared := PS {
  p_state : nat;                    (* 0 not started, 1 started, 2 stopped *)
  p_closedflag : bool;              (* p.closed *)
  p_qclosed : bool;                 (* taskQueue has been closed *)
  p_queue : list nat;               (* taskQueue buffer (task ids), capacity 1 *)
  p_lock : rw;                      (* p.mu *)
  p_wg : nat;                       (* p.wg counter *)
  p_expanded : Z;                   (* p.expanded (int32) *)
  p_poolctx : bool;                 (* pool context cancelled *)
  p_ctxs : list bool;               (* user contexts cancelled *)
  p_gates : list bool;              (* open gates *)
  p_timers : list timer;
  p_tasks : list (option task);     (* task id = position *)
  p_spawned : list role;            (* go statements executed so far, in order *)
  p_choices : list nat              (* oracle: which ready case each select takes *)
}.

Inductive pop :=
| Do (id ctx gate : nat) | TryDo (id ctx gate : nat)
| Execute (id gate : nat) | TryExecute (id gate : nat)
| Stop | Start | Cancel (k : nat) | OpenGate (g : nat) | Fire (i : nat)
| Await (id : nat) | PollRes (id : nat)
| AwaitBegun (n : nat) | AwaitArmed (n : nat) | AwaitTask (id : nat) | AwaitExpanded (n : nat)   (* harness: wait for a condition on the shared state *)
| Slot (k : nat).                    (* the k-th goroutine the pool starts *)

Inductive pret := PU | PB (b : bool) | PRes (r : tres) | PNone | PNoTask.

(* what a submission does after it has released the lock *)
Inductive subk := KDo | KTry (added : bool).

Inductive ppc :=
| PInv (o : pop)
(* submissions: Do / TryDo / Execute / TryExecute on task id; try = non-blocking variant *)
| SubRLock (try : bool) (id : nat)
| SubClosedFut (try : bool) (id : nat)
| SubTrySel (id : nat)                       (* Do with expansion: select { case queue <- t: default: } *)
| SubAddExp (id : nat)
| SubWgAdd (id : nat)
| SubSubExp (id : nat)
| SubPush (id : nat)                         (* push: blocking select *)
| SubTryDoSel (id : nat)                     (* TryDo: select with default *)
| SubFut (k : subk) (id : nat) (pool : bool) (* deliver a context error to the task *)
| SubRUnlock (k : subk)
(* Stop *)
| XCas1 | XCas0 | XCas1b | XCancel | XLock | XClose | XUnlock | XWait | XDrainRecv | XDrainSend (id : nat)
(* Start *)
| StRLock | StCas | StWgAdd | StRUnlock
(* harness operations *)
| CCancel (k : nat) | GOpen (g : nat) | FFire (i : nat)
| RRecv (id : nat) | RPoll (id : nat) | RNoTask
| HBegun (n : nat) | HArmed (n : nat) | HTask (id : nat) | HExpanded (n : nat)
(* worker goroutines; tm = the expanded worker's timer (0 for a fixed worker: none) *)
| WRecv                                       (* fixed worker: task, ok := <-taskQueue *)
| WDone                                       (* fixed worker: wg.Done() *)
| EBegin (tm id : nat) | EGate (tm id : nat) | EEnd (tm id : nat) | EFut (tm id : nat)
| XNewTimer | XSelect (tm : nat) | XStopTimer (tm : nat) (got : option nat)
| XDrainTimer (tm : nat) (got : option nat) | XReset (tm : nat)
| XExitDec | XExitDone.

Section Pool.
Variable nworkers : nat.          (* normalised Option.NumberWorker *)
Variable limit : Z.               (* normalised Option.ExpandableLimit *)

Definition pout := outcome pshared unit ppc pret.

(* record updates *)
Definition upd_state s v := PS v (p_closedflag s) (p_qclosed s) (p_queue s) (p_lock s) (p_wg s) (p_expanded s) (p_poolctx s) (p_ctxs s) (p_gates s) (p_timers s) (p_tasks s) (p_spawned s) (p_choices s).
Definition upd_closedflag s v := PS (p_state s) v (p_qclosed s) (p_queue s) (p_lock s) (p_wg s) (p_expanded s) (p_poolctx s) (p_ctxs s) (p_gates s) (p_timers s) (p_tasks s) (p_spawned s) (p_choices s).
Definition upd_qclosed s v := PS (p_state s) (p_closedflag s) v (p_queue s) (p_lock s) (p_wg s) (p_expanded s) (p_poolctx s) (p_ctxs s) (p_gates s) (p_timers s) (p_tasks s) (p_spawned s) (p_choices s).
Definition upd_queue s v := PS (p_state s) (p_closedflag s) (p_qclosed s) v (p_lock s) (p_wg s) (p_expanded s) (p_poolctx s) (p_ctxs s) (p_gates s) (p_timers s) (p_tasks s) (p_spawned s) (p_choices s).
Definition upd_lock s v := PS (p_state s) (p_closedflag s) (p_qclosed s) (p_queue s) v (p_wg s) (p_expanded s) (p_poolctx s) (p_ctxs s) (p_gates s) (p_timers s) (p_tasks s) (p_spawned s) (p_choices s).
Definition upd_wg s v := PS (p_state s) (p_closedflag s) (p_qclosed s) (p_queue s) (p_lock s) v (p_expanded s) (p_poolctx s) (p_ctxs s) (p_gates s) (p_timers s) (p_tasks s) (p_spawned s) (p_choices s).
Definition upd_expanded s v := PS (p_state s) (p_closedflag s) (p_qclosed s) (p_queue s) (p_lock s) (p_wg s) v (p_poolctx s) (p_ctxs s) (p_gates s) (p_timers s) (p_tasks s) (p_spawned s) (p_choices s).
Definition upd_poolctx s v := PS (p_state s) (p_closedflag s) (p_qclosed s) (p_queue s) (p_lock s) (p_wg s) (p_expanded s) v (p_ctxs s) (p_gates s) (p_timers s) (p_tasks s) (p_spawned s) (p_choices s).
Definition upd_ctxs s v := PS (p_state s) (p_closedflag s) (p_qclosed s) (p_queue s) (p_lock s) (p_wg s) (p_expanded s) (p_poolctx s) v (p_gates s) (p_timers s) (p_tasks s) (p_spawned s) (p_choices s).
Definition upd_gates s v := PS (p_state s) (p_closedflag s) (p_qclosed s) (p_queue s) (p_lock s) (p_wg s) (p_expanded s) (p_poolctx s) (p_ctxs s) v (p_timers s) (p_tasks s) (p_spawned s) (p_choices s).
Definition upd_timers s v := PS (p_state s) (p_closedflag s) (p_qclosed s) (p_queue s) (p_lock s) (p_wg s) (p_expanded s) (p_poolctx s) (p_ctxs s) (p_gates s) v (p_tasks s) (p_spawned s) (p_choices s).
Definition upd_tasks s v := PS (p_state s) (p_closedflag s) (p_qclosed s) (p_queue s) (p_lock s) (p_wg s) (p_expanded s) (p_poolctx s) (p_ctxs s) (p_gates s) (p_timers s) v (p_spawned s) (p_choices s).
Definition upd_spawned s v := PS (p_state s) (p_closedflag s) (p_qclosed s) (p_queue s) (p_lock s) (p_wg s) (p_expanded s) (p_poolctx s) (p_ctxs s) (p_gates s) (p_timers s) (p_tasks s) v (p_choices s).
Definition upd_choices s v := PS (p_state s) (p_closedflag s) (p_qclosed s) (p_queue s) (p_lock s) (p_wg s) (p_expanded s) (p_poolctx s) (p_ctxs s) (p_gates s) (p_timers s) (p_tasks s) (p_spawned s) v.

Definition take_choice (s : pshared) : nat * pshared :=
  match p_choices s with
  | [] => (0, s)
  | k :: r => (k, upd_choices s r)
  end.

Definition get_task (s : pshared) (id : nat) : option task :=
  match nth_error (p_tasks s) id with Some (Some t) => Some t | _ => None end.

Fixpoint set_nth {A} (l : list A) (i : nat) (d x : A) : list A :=
  match i, l with
  | O, [] => [x]
  | O, _ :: r => x :: r
  | S j, [] => d :: set_nth [] j d x
  | S j, a :: r => a :: set_nth r j d x
  end.

Definition set_task (s : pshared) (id : nat) (t : task) : pshared :=
  upd_tasks s (set_nth (p_tasks s) id None (Some t)).

Definition ctx_done (s : pshared) (k : nat) : bool :=
  match k with O => p_poolctx s | S j => nth j (p_ctxs s) false end.

Definition gate_open (s : pshared) (g : nat) : bool :=
  match g with O => true | S j => nth j (p_gates s) false end.

Definition queue_send_ready (s : pshared) : bool := p_qclosed s || Nat.ltb (length (p_queue s)) 1.
Definition queue_recv_ready (s : pshared) : bool := p_qclosed s || negb (Nat.eqb (length (p_queue s)) 0).

(* the k-th ready case (k taken modulo the number of ready cases) *)
Definition pick_ready (ready : list nat) (k : nat) : option nat :=
  match ready with
  | [] => None
  | _ => nth_error ready (Nat.modulo k (length ready))
  end.

Definition ready_cases (conds : list bool) : list nat :=
  map fst (filter snd (combine (seq 0 (length conds)) conds)).

Definition goto (p : ppc) (s : pshared) : pout := Next p s.
Definition fin (r : pret) (s : pshared) : pout := Done r tt s.

(* t.future <- result : blocks while the buffer is full *)
Definition future_send (s : pshared) (id : nat) (r : tres) : option (option pshared) :=
  match get_task s id with
  | None => None                                   (* nil task: fault *)
  | Some t =>
      if Nat.ltb (length (tk_future t)) 1
      then Some (Some (set_task s id (Task (tk_ctx t) (tk_gate t) (tk_future t ++ [r]) (tk_execs t))))
      else Some None                               (* would block *)
  end.

Definition rlock (s : pshared) : option pshared :=
  if rw_writer (p_lock s) then None
  else Some (upd_lock s (RW false (S (rw_readers (p_lock s))))).
Definition runlock (s : pshared) : pshared :=
  upd_lock s (RW (rw_writer (p_lock s)) (pred (rw_readers (p_lock s)))).

Definition wrap32 (z : Z) : Z := ((z + 2 ^ 31) mod 2 ^ 32 - 2 ^ 31)%Z.

Definition new_task (s : pshared) (id ctx gate : nat) : pshared :=
  set_task s id (Task ctx gate [] 0).

(* the cases of push / TryDo's select: <-p.ctx.Done(), <-t.ctx.Done(), taskQueue <- t *)
Definition submit_conds (s : pshared) (t : task) : list bool :=
  [p_poolctx s; ctx_done s (tk_ctx t); queue_send_ready s].

Definition after_sub (k : subk) (s : pshared) : pout := goto (SubRUnlock k) s.

Definition submit_select (s : pshared) (id : nat) (blocking : bool) (k0 : subk) : pout :=
  match get_task s id with
  | None => Fault
  | Some t =>
      let '(ch, s1) := take_choice s in
      match pick_ready (ready_cases (submit_conds s t)) ch with
      | None => if blocking then Blocked else after_sub k0 s1        (* default branch *)
      | Some 0 => goto (SubFut k0 id true) s1
      | Some 1 => goto (SubFut k0 id false) s1
      | Some _ =>
          if p_qclosed s then Fault                                  (* send on closed channel *)
          else after_sub (match k0 with KDo => KDo | KTry _ => KTry true end)
                         (upd_queue s1 (p_queue s ++ [id]))
      end
  end.

Definition timer_get (s : pshared) (tm : nat) : option timer :=
  match tm with O => None | S j => nth_error (p_timers s) j end.
Definition timer_set (s : pshared) (tm : nat) (x : timer) : pshared :=
  match tm with O => s | S j => upd_timers s (upd (p_timers s) j x) end.

(* index (in p_timers) of the i-th armed timer *)
Fixpoint nth_armed (l : list timer) (i pos : nat) : option nat :=
  match l with
  | [] => None
  | x :: r =>
      if tm_armed x then (match i with O => Some pos | S j => nth_armed r j (S pos) end)
      else nth_armed r i (S pos)
  end.

(* after a task has been executed: an expanded worker re-arms its timer, a fixed worker loops *)
Definition after_task (tm : nat) (s : pshared) : pout :=
  match tm with O => goto WRecv s | _ => goto (XReset tm) s end.

Definition pstep (l : ppc) (s : pshared) : pout :=
  match l with
  (* ---- invocations *)
  | PInv (Do id ctx gate) => goto (SubRLock false id) (new_task s id ctx gate)
  | PInv (TryDo id ctx gate) => goto (SubRLock true id) (new_task s id ctx gate)
  | PInv (Execute id gate) => goto (SubRLock false id) (new_task s id 0 gate)
  | PInv (TryExecute id gate) => goto (SubRLock true id) (new_task s id 0 gate)
  | PInv Stop => goto XCas1 s
  | PInv Start => goto StRLock s
  | PInv (Cancel k) => goto (CCancel k) s
  | PInv (OpenGate g) => goto (GOpen g) s
  | PInv (Fire i) => goto (FFire i) s
  | PInv (Await id) => match get_task s id with Some _ => goto (RRecv id) s | None => goto RNoTask s end
  | PInv (AwaitBegun n) => goto (HBegun n) s
  | PInv (AwaitArmed n) => goto (HArmed n) s
  | PInv (AwaitTask id) => goto (HTask id) s
  | PInv (AwaitExpanded n) => goto (HExpanded n) s
  | PInv (PollRes id) => match get_task s id with Some _ => goto (RPoll id) s | None => goto RNoTask s end
  (* a goroutine slot: its first step is the first access of the goroutine body *)
  | PInv (Slot k) =>
      match nth_error (p_spawned s) k with
      | None => Blocked
      | Some RWorker =>
          if queue_recv_ready s then
            match p_queue s with
            | id :: r => goto (EBegin 0 id) (upd_queue s r)
            | [] => goto WDone s
            end
          else Blocked
      | Some RExpanded =>
          goto (XSelect (S (length (p_timers s)))) (upd_timers s (p_timers s ++ [Timer true false]))
      end
  (* ---- submissions *)
  | SubRLock try id =>
      match rlock s with
      | None => Blocked
      | Some s1 =>
          if p_closedflag s then goto (SubClosedFut try id) s1
          else if try then goto (SubTryDoSel id) s1
          else if (limit =? 0)%Z then goto (SubPush id) s1
          else goto (SubTrySel id) s1
      end
  | SubClosedFut try id =>
      match future_send s id TCanceled with
      | None => Fault
      | Some None => Blocked
      | Some (Some s1) => after_sub (if try then KTry false else KDo) s1
      end
  | SubTrySel id =>
      let '(ch, s1) := take_choice s in
      if queue_send_ready s then
        if p_qclosed s then Fault else after_sub KDo (upd_queue s1 (p_queue s ++ [id]))
      else goto (SubAddExp id) s1
  | SubAddExp id =>
      let e := wrap32 (p_expanded s + 1) in
      if (e <=? limit)%Z then goto (SubWgAdd id) (upd_expanded s e)
      else goto (SubSubExp id) (upd_expanded s e)
  | SubWgAdd id =>
      goto (SubPush id) (upd_spawned (upd_wg s (S (p_wg s))) (p_spawned s ++ [RExpanded]))
  | SubSubExp id => goto (SubPush id) (upd_expanded s (wrap32 (p_expanded s - 1)))
  | SubPush id => submit_select s id true KDo
  | SubTryDoSel id => submit_select s id false (KTry false)
  | SubFut k id pool =>
      match get_task s id with
      | None => Fault
      | Some t =>
          (* the error value is ctx.Err() read when the result is built: cancelled by now *)
          match future_send s id TCanceled with
          | None => Fault
          | Some None => Blocked
          | Some (Some s1) => after_sub k s1
          end
      end
  | SubRUnlock k =>
      fin (match k with KDo => PU | KTry b => PB b end) (runlock s)
  (* ---- Stop *)
  | XCas1 => if Nat.eqb (p_state s) 1 then goto XCancel (upd_state s 2) else goto XCas0 s
  | XCas0 => if Nat.eqb (p_state s) 0 then goto XCancel (upd_state s 2) else goto XCas1b s
  | XCas1b => if Nat.eqb (p_state s) 1 then goto XCancel (upd_state s 2) else fin PU s
  | XCancel => goto XLock (upd_poolctx s true)
  | XLock =>
      if rw_writer (p_lock s) || negb (Nat.eqb (rw_readers (p_lock s)) 0) then Blocked
      else goto XClose (upd_closedflag (upd_lock s (RW true 0)) true)
  | XClose => if p_qclosed s then Fault else goto XUnlock (upd_qclosed s true)
  | XUnlock => goto XWait (upd_lock s (RW false (rw_readers (p_lock s))))
  | XWait => if Nat.eqb (p_wg s) 0 then goto XDrainRecv s else Blocked
  | XDrainRecv =>
      if queue_recv_ready s then
        match p_queue s with
        | id :: r => goto (XDrainSend id) (upd_queue s r)
        | [] => fin PU s
        end
      else Blocked
  | XDrainSend id =>
      match future_send s id TCanceled with
      | None => Fault
      | Some None => Blocked
      | Some (Some s1) => goto XDrainRecv s1
      end
  (* ---- Start *)
  | StRLock => match rlock s with None => Blocked | Some s1 => goto StCas s1 end
  | StCas => if Nat.eqb (p_state s) 0 then goto StWgAdd (upd_state s 1) else goto StRUnlock s
  | StWgAdd =>
      goto StRUnlock (upd_spawned (upd_wg s (p_wg s + nworkers)) (p_spawned s ++ repeat RWorker nworkers))
  | StRUnlock => fin PU (runlock s)
  (* ---- harness operations *)
  | CCancel k =>
      match k with
      | O => fin PU (upd_poolctx s true)       (* the context the pool was created from: cancels the pool's too *)
      | S j => fin PU (upd_ctxs s (set_nth (p_ctxs s) j false true))
      end
  | GOpen g =>
      match g with
      | O => fin PU s
      | S j => fin PU (upd_gates s (set_nth (p_gates s) j false true))
      end
  | FFire i =>
      match nth_armed (p_timers s) i 0 with
      | None => fin (PB false) s
      | Some pos => fin (PB true) (upd_timers s (upd (p_timers s) pos (Timer false true)))
      end
  | RRecv id =>
      match get_task s id with
      | None => Fault
      | Some t =>
          match tk_future t with
          | [] => Blocked
          | r :: rest => fin (PRes r) (set_task s id (Task (tk_ctx t) (tk_gate t) rest (tk_execs t)))
          end
      end
  | RPoll id =>
      let '(_, s1) := take_choice s in
      match get_task s id with
      | None => Fault
      | Some t =>
          match tk_future t with
          | [] => fin PNone s1
          | r :: rest => fin (PRes r) (set_task s1 id (Task (tk_ctx t) (tk_gate t) rest (tk_execs t)))
          end
      end
  | RNoTask => fin PNoTask s
  | HBegun n =>
      if Nat.leb n (fold_right (fun t acc => match t with Some x => tk_execs x + acc | None => acc end) 0 (p_tasks s))
      then fin PU s else Blocked
  | HArmed n =>
      if Nat.leb n (length (filter tm_armed (p_timers s))) then fin PU s else Blocked
  | HTask id => match get_task s id with Some _ => fin PU s | None => Blocked end
  | HExpanded n => if (p_expanded s <=? Z.of_nat n)%Z then fin PU s else Blocked
  (* ---- fixed worker *)
  | WRecv =>
      if queue_recv_ready s then
        match p_queue s with
        | id :: r => goto (EBegin 0 id) (upd_queue s r)
        | [] => goto WDone s
        end
      else Blocked
  | WDone => match p_wg s with O => Fault | S n => fin PU (upd_wg s n) end
  (* ---- Task.Execute, run by a worker *)
  | EBegin tm id =>
      match get_task s id with
      | None => Fault
      | Some t =>
          let s1 := set_task s id (Task (tk_ctx t) (tk_gate t) (tk_future t) (S (tk_execs t))) in
          match tk_gate t with O => goto (EEnd tm id) s1 | _ => goto (EGate tm id) s1 end
      end
  | EGate tm id =>
      match get_task s id with
      | None => Fault
      | Some t => if gate_open s (tk_gate t) then goto (EEnd tm id) s else Blocked
      end
  | EEnd tm id => goto (EFut tm id) s
  | EFut tm id =>
      match future_send s id (TVal id) with
      | None => Fault
      | Some None => Blocked
      | Some (Some s1) => after_task tm s1
      end
  (* ---- expanded worker *)
  | XNewTimer => goto (XSelect (S (length (p_timers s)))) (upd_timers s (p_timers s ++ [Timer true false]))
  | XSelect tm =>
      match timer_get s tm with
      | None => Fault
      | Some x =>
          let '(ch, s1) := take_choice s in
          match pick_ready (ready_cases [queue_recv_ready s; tm_fired x]) ch with
          | None => Blocked
          | Some 0 =>
              match p_queue s with
              | id :: r => goto (XStopTimer tm (Some id)) (upd_queue s1 r)
              | [] => goto (XStopTimer tm None) s1
              end
          | Some _ => goto XExitDec (timer_set s1 tm (Timer (tm_armed x) false))
          end
      end
  | XStopTimer tm got =>
      match timer_get s tm with
      | None => Fault
      | Some x =>
          let was := tm_armed x || tm_fired x in
          let s1 := timer_set s tm (Timer false false) in
          if was then
            match got with
            | Some id => goto (EBegin tm id) s1
            | None => goto XExitDec s1
            end
          else goto (XDrainTimer tm got) s1
      end
  | XDrainTimer tm got =>
      match timer_get s tm with
      | None => Fault
      | Some x =>
          if tm_fired x then
            let s1 := timer_set s tm (Timer (tm_armed x) false) in
            match got with
            | Some id => goto (EBegin tm id) s1
            | None => goto XExitDec s1
            end
          else Blocked
      end
  | XReset tm =>
      match timer_get s tm with
      | None => Fault
      | Some _ => goto (XSelect tm) (timer_set s tm (Timer true false))
      end
  | XExitDec => goto XExitDone (upd_expanded s (wrap32 (p_expanded s - 1)))
  | XExitDone => match p_wg s with O => Fault | S n => fin PU (upd_wg s n) end
  end.

Definition pool : machine pshared unit ppc pop pret :=
  Machine (fun _ o => PInv o) pstep (fun _ => false).

(* NewPool: state 0, nothing spawned; with auto-start the constructor has already run Start() *)
Definition pinit0 (choices : list nat) : pshared :=
  PS 0 false false [] (RW false 0) 0 0 false [] [] [] [] [] choices.

Definition pinit (autostart : bool) (choices : list nat) : pshared :=
  let s := pinit0 choices in
  if autostart then upd_spawned (upd_wg (upd_state s 1) nworkers) (repeat RWorker nworkers) else s.

End Pool.
