(** Safety of the worker pool, part 3 (continued): what holds once Stop has
    passed wg.Wait() (C08). *)
From Coq Require Import List Arith Bool ZArith Lia.
From Garr Require Import Conc.Conc Pure.F64 Queue.MutexModel Pool.PoolModel Pool.PoolBase Pool.PoolInv1 Pool.PoolTok Pool.PoolStop.
Import ListNotations.

Ltac qpre := first [exists []; reflexivity | exists []; simpl; congruence | eexists [_]; reflexivity | eexists [_]; eassumption].

Section Stop.
Variable nw : nat.
Variable lim : Z.
Variable nc : nat.

(* once p.closed is set nothing is started or queued any more *)
Lemma closed_step s ps t a l pr cur s' :
  Inv1 nc s ps -> p_closedflag s = true -> nth_error ps t = Some a -> a_view a = Some (l, pr) ->
  astep nw lim l s = RNext cur s' ->
  p_spawned s' = p_spawned s /\ p_closedflag s' = true /\ (exists pre, p_queue s = pre ++ p_queue s') /\
  (p_qclosed s = true -> p_qclosed s' = true).
Proof.
  intros HI Hcf Hn Hv H.
  pose proof (cntp_ge is_open _ _ _ Hn) as Gop.
  pose proof (i_cf _ _ _ HI) as Icf. rewrite Hcf in Icf. destruct Icf as [_ Iop].
  destruct a as [prog [l0|]]; unfold a_view in Hv; simpl in Hv.
  - injection Hv as <- <-.
    destruct l0; step_cases H; unfold pcf in Gop; simpl in Gop; try lia; simpl;
      (split; [reflexivity|split; [auto|split; [qpre|auto]]]).
  - destruct prog as [|o pr0]; [discriminate|]. injection Hv as <- <-.
    destruct o; step_cases H; simpl;
      (split; [reflexivity|split; [auto|split; [qpre|auto]]]).
Qed.

Lemma drained_step s ps t a l pr cur s' :
  Inv1 nc s ps -> drained s ps -> nth_error ps t = Some a -> a_view a = Some (l, pr) ->
  astep nw lim l s = RNext cur s' -> drained s' (upd ps t (pr, cur)).
Proof.
  intros HI [Hq Hd] Hn Hv H.
  pose proof (cntp_ge is_cl _ _ _ Hn) as Gcl.
  pose proof (cntp_ge is_ul _ _ _ Hn) as Gul.
  pose proof (i_qc _ _ _ HI) as Iqc. rewrite Hq in Iqc.
  assert (Eul : cntp is_ul (upd ps t (pr, cur)) + pcf is_ul a = cntp is_ul ps + pcf is_ul (pr, cur)) by (apply cntp_upd; exact Hn).
  assert (Ewt : cntp is_wt (upd ps t (pr, cur)) + pcf is_wt a = cntp is_wt ps + pcf is_wt (pr, cur)) by (apply cntp_upd; exact Hn).
  destruct a as [prog [l0|]]; unfold a_view in Hv; simpl in Hv.
  - injection Hv as <- <-.
    destruct l0; step_cases H; unfold drained, pcf in *; simpl in *; try discriminate; (split; [first [assumption|reflexivity]|lia]).
  - destruct prog as [|o pr0]; [discriminate|]. injection Hv as <- <-.
    destruct o; step_cases H; unfold drained, pcf in *; simpl in *; try discriminate; (split; [first [assumption|reflexivity]|lia]).
Qed.

Lemma dr_drained s ps : Inv1 nc s ps -> 1 <= cntp is_dr ps -> drained s ps.
Proof.
  intros HI Hd. pose proof (i_one _ _ _ HI) as Ione. pose proof (i_qc _ _ _ HI) as Iqc. unfold nstop in Ione.
  unfold drained. destruct (p_qclosed s); [split; [reflexivity|lia]|lia].
Qed.


Lemma filter_le_length {B} (g : B -> bool) l : length (filter g l) <= length l.
Proof. induction l as [|b l IH]; simpl; [lia|]. destruct (g b); simpl; lia. Qed.

Lemma hole_lt k L a :
  a <= k < a + L -> length (filter (fun b : bool => b) (map (fun j => negb (j =? k)) (seq a L))) < L.
Proof.
  revert a. induction L as [|L IH]; intros a H; [lia|]. simpl.
  destruct (Nat.eqb_spec a k) as [->|Hne]; simpl.
  - pose proof (filter_le_length (fun b : bool => b) (map (fun j => negb (j =? k)) (seq (S k) L))) as Hl.
    rewrite map_length, seq_length in Hl. lia.
  - specialize (IH (S a)). lia.
Qed.

Lemma started_01 a : started a = 0 \/ started a = 1.
Proof. unfold started. destruct (snd a); [auto|]. destruct (fst a); auto. Qed.

(* if as many slot threads have started as goroutines were spawned, every spawned one has *)
Lemma all_started s ps :
  (forall i a, nth_error ps i = Some a -> wf nc s i a) ->
  slotc nc started ps = length (p_spawned s) ->
  forall k, k < length (p_spawned s) -> exists a, nth_error ps (nc + k) = Some a /\ started a = 1.
Proof.
  intros Hwf Hs k Hk.
  destruct (nth_error ps (nc + k)) as [a0|] eqn:E0.
  - destruct (started_01 a0) as [H0|H1]; [|eauto]. exfalso.
    set (L := length (p_spawned s)) in *.
    set (sp := map (fun j => negb (j =? k)) (seq 0 L)).
    pose proof (sumi_bound (slotf nc started) (fun b : bool => b) sp nc ps 0) as Hb. simpl in Hb.
    assert (Hlt : length (filter (fun b : bool => b) sp) < L) by (apply hole_lt; lia).
    unfold slotc in Hs. rewrite Hs in Hb. apply Nat.lt_irrefl with L. eapply Nat.le_lt_trans; [apply Hb|exact Hlt].
    intros i a Hi H1. specialize (Hwf i a Hi). unfold slotf in *. unfold wf in Hwf.
    destruct (Nat.leb_spec nc i) as [Hle|Hgt]; [|lia].
    assert (Hltb : (i <? nc) = false) by (apply Nat.ltb_ge; exact Hle). rewrite Hltb in Hwf.
    assert (Hb' : i - nc < L).
    { unfold started in H1. destruct (snd a) as [l|]; [tauto|].
      destruct Hwf as [Hf|[_ Hf]]; [rewrite Hf in H1; lia|exact Hf]. }
    split; [destruct (started_01 a); lia|]. split; [exact Hle|].
    exists (negb (i - nc =? k)). split.
    + unfold sp. rewrite nth_error_map. rewrite (nth_error_nth' _ 0) by (rewrite seq_length; exact Hb').
      rewrite seq_nth by exact Hb'. reflexivity.
    + destruct (Nat.eqb_spec (i - nc) k) as [Ek|Ek]; [|reflexivity].
      exfalso. replace i with (nc + k) in Hi by lia. rewrite Hi in E0. injection E0 as ->. lia.
  - exfalso.
    set (L := length (p_spawned s)) in *.
    set (sp := map (fun j => negb (j =? k)) (seq 0 L)).
    pose proof (sumi_bound (slotf nc started) (fun b : bool => b) sp nc ps 0) as Hb. simpl in Hb.
    assert (Hlt : length (filter (fun b : bool => b) sp) < L) by (apply hole_lt; lia).
    unfold slotc in Hs. rewrite Hs in Hb. apply Nat.lt_irrefl with L. eapply Nat.le_lt_trans; [apply Hb|exact Hlt].
    intros i a Hi H1. specialize (Hwf i a Hi). unfold slotf in *. unfold wf in Hwf.
    destruct (Nat.leb_spec nc i) as [Hle|Hgt]; [|lia].
    assert (Hltb : (i <? nc) = false) by (apply Nat.ltb_ge; exact Hle). rewrite Hltb in Hwf.
    assert (Hb' : i - nc < L).
    { unfold started in H1. destruct (snd a) as [l|]; [tauto|].
      destruct Hwf as [Hf|[_ Hf]]; [rewrite Hf in H1; lia|exact Hf]. }
    split; [destruct (started_01 a); lia|]. split; [exact Hle|].
    exists (negb (i - nc =? k)). split.
    + unfold sp. rewrite nth_error_map. rewrite (nth_error_nth' _ 0) by (rewrite seq_length; exact Hb').
      rewrite seq_nth by exact Hb'. reflexivity.
    + destruct (Nat.eqb_spec (i - nc) k) as [Ek|Ek]; [|reflexivity].
      exfalso. replace i with (nc + k) in Hi by lia. rewrite Hi in E0. discriminate.
Qed.

(* what holds once Stop has passed wg.Wait() *)
Lemma drained_quiescent nwk ndo s ps :
  Inv1 nc s ps -> Inv3 nwk ndo s ps -> drained s ps ->
  p_wg s = 0 /\ slotc nc running ps = 0 /\
  (forall k, k < length (p_spawned s) -> nth_error ps (nc + k) = Some ([], None)) /\
  (forall j x, nth_error (p_timers s) j = Some x -> tm_armed x = false /\ tm_fired x = false).
Proof.
  intros HI1 HI3 [Hq Hd].
  pose proof (k_dr _ _ _ _ HI3) as Kdr. rewrite Hq in Kdr. specialize (Kdr Hd).
  pose proof (i_wg _ _ _ HI1) as Iwg. pose proof (started_bound _ _ _ (i_wf _ _ _ HI1)) as Hsb.
  assert (Hrun : slotc nc running ps = 0) by lia.
  assert (Hst : slotc nc started ps = length (p_spawned s)) by lia.
  assert (Hnorun : forall i pr l, nth_error ps i = Some (pr, Some l) -> nc <= i -> False).
  { intros i pr l Hi Hle. pose proof (sumi_zero (slotf nc running) 0 ps i _ Hrun Hi) as Hz.
    unfold slotf in Hz. simpl in Hz. apply Nat.leb_le in Hle. rewrite Hle in Hz. discriminate. }
  split; [exact Kdr|]. split; [exact Hrun|]. split.
  - intros k Hk. destruct (all_started _ _ (i_wf _ _ _ HI1) Hst k Hk) as ([pr [l|]] & Hn & Ha).
    + exfalso. eapply Hnorun; [exact Hn|lia].
    + rewrite Hn. unfold started in Ha. simpl in Ha. destruct pr; [reflexivity|discriminate].
  - intros j x Hj. destruct (k_tm _ _ _ _ HI3 j x Hj) as [K1 K2].
    destruct (tm_armed x || tm_fired x) eqn:E.
    + exfalso. specialize (K1 eq_refl). apply cntp_pos in K1. destruct K1 as (i & pr & l & Hi & Hl).
      pose proof (i_wf _ _ _ HI1 _ _ Hi) as Hwf. unfold wf in Hwf. simpl in Hwf.
      destruct (Nat.ltb_spec i nc) as [Hlt|Hge].
      * destruct Hwf as (_ & Hc & _). destruct l; simpl in Hl; try discriminate Hl; discriminate Hc.
      * eapply Hnorun; eauto.
    + apply orb_false_iff in E. exact E.
Qed.

End Stop.

Section Traj.
Variable nw : nat.
Variable lim : Z.
Notation M := (pool nw lim).

(* a relation between shared states established by every step from an invariant holds along every schedule *)
Lemma run_rel (I : pshared -> list ath -> Prop) (R : pshared -> pshared -> Prop) :
  (forall s, R s s) -> (forall s1 s2 s3, R s1 s2 -> R s2 s3 -> R s1 s3) ->
  (forall s ps t a l pr, I s ps -> nth_error ps t = Some a -> a_view a = Some (l, pr) ->
     match astep nw lim l s with
     | RNext cur s' => I s' (upd ps t (pr, cur)) /\ R s s'
     | RBlocked => True
     | RFault => False
     end) ->
  forall sched c0, I (c_sh c0) (aths c0) ->
    R (c_sh c0) (c_sh (final M c0 sched)) /\ I (c_sh (final M c0 sched)) (aths (final M c0 sched)).
Proof.
  intros Hrefl Htrans Hstep sched. induction sched as [|t sched IH]; intros c0 H0.
  - simpl. auto.
  - rewrite final_cons. unfold step_cfg. destruct (step_thread M c0 t) as [[c' e]|] eqn:E; [|apply IH; exact H0].
    destruct (step_abs _ _ _ _ _ _ E) as (th & l & pr & Hn & Hd & Hv & Hm).
    specialize (Hstep _ _ _ _ _ _ H0 (aths_nth _ _ _ Hn) Hv).
    destruct (astep nw lim l (c_sh c0)) as [cur s'| |]; try contradiction.
    destruct Hm as (Hs' & Hps & _). destruct Hstep as [HI HR]. rewrite <- Hs', <- Hps in HI. rewrite <- Hs' in HR.
    destruct (IH c' HI) as [HR' HI']. split; [eapply Htrans; eauto|exact HI'].
Qed.
End Traj.

Lemma abs_finished (c : pconfig) i :
  nth_error (aths c) i = Some ([], None) ->
  exists th, nth_error (c_thr c) i = Some th /\ t_prog th = [] /\ t_cur th = None.
Proof.
  unfold aths. rewrite nth_error_map. destruct (nth_error (c_thr c) i) as [th|]; [|discriminate].
  simpl. unfold abs_th. intros H. exists th. split; [reflexivity|].
  destruct (t_cur th) as [[o l]|]; [discriminate|]. injection H as H. auto.
Qed.

Section Main3.
Variable nw : nat.
Variable lim : Z.
Variables (autostart : bool) (choices : list nat) (clients : list (list pop)) (nslots : nat) (sched : list nat).
Hypothesis Hok : clients_ok clients.
Notation M := (pool nw lim).
Notation nc := (length clients).
Notation ndo := (cntdo (concat clients)).

Let c := final M (pool_cfg nw autostart choices clients nslots) sched.
Let s := c_sh c.

(** The pool never starts more goroutines than [nworkers] + the number of blocking submissions *)
Theorem spawned_bounded : length (p_spawned s) <= nw + ndo.
Proof.
  destruct (Inv13_reach nw lim autostart choices clients nslots sched Hok) as [[_ HI3] _].
  fold c in HI3. fold s in HI3. pose proof (k_rw _ _ _ _ HI3) as Krw. pose proof (k_re _ _ _ _ HI3) as Kre.
  unfold nRW, nRE in *. pose proof (rw_re_length (p_spawned s)). lia.
Qed.

Corollary spawned_fits : nw + ndo <= nslots -> length (p_spawned s) <= nslots.
Proof. pose proof spawned_bounded. lia. Qed.

(** An armed timer, or one holding an unreceived expiry, belongs to an expanded worker
    waiting in its select or about to stop the timer *)
Theorem armed_timer_owned j x :
  nth_error (p_timers s) j = Some x -> tm_armed x || tm_fired x = true ->
  exists i, at_pc c i (XSelect (S j)) \/ exists got, at_pc c i (XStopTimer (S j) got).
Proof.
  intros Hj Hx.
  destruct (Inv13_reach nw lim autostart choices clients nslots sched Hok) as [[_ HI3] _].
  fold c in HI3. fold s in HI3. destruct (k_tm _ _ _ _ HI3 j x Hj) as [K1 _]. specialize (K1 Hx).
  apply cntp_pos in K1. destruct K1 as (i & pr & l & Hi & Hl). exists i.
  unfold aths in Hi. rewrite nth_error_map in Hi. destruct (nth_error (c_thr c) i) as [th|] eqn:Eth; [|discriminate].
  simpl in Hi. unfold abs_th in Hi. destruct (t_cur th) as [[o l']|] eqn:Ec; [|discriminate].
  injection Hi as _ ->.
  destruct l; simpl in Hl; try discriminate Hl; apply Nat.eqb_eq in Hl; subst.
  - left. exists th, o. auto.
  - right. exists got, th, o. auto.
Qed.

(** T4 (C08): once Stop has closed the queue and passed wg.Wait() - it is draining the queue or has
    returned - every goroutine the pool ever started has finished, the wait group is at zero, no
    timer is pending; and from then on nothing is started and the queue only shrinks. *)
Theorem stop_leaves_no_goroutine :
  drained s (aths c) ->
  p_wg s = 0 /\
  (forall k, k < length (p_spawned s) ->
     exists th, nth_error (c_thr c) (nc + k) = Some th /\ t_prog th = [] /\ t_cur th = None) /\
  (forall x, In x (p_timers s) -> tm_armed x = false /\ tm_fired x = false) /\
  (forall sched', let c' := final M c sched' in
     drained (c_sh c') (aths c') /\ p_spawned (c_sh c') = p_spawned s /\
     exists pre, p_queue s = pre ++ p_queue (c_sh c')).
Proof.
  intros Hd.
  destruct (Inv13_reach nw lim autostart choices clients nslots sched Hok) as [[HI1 HI3] _].
  fold c in HI1, HI3. fold s in HI1, HI3.
  destruct (drained_quiescent nc nw ndo s (aths c) HI1 HI3 Hd) as (Hwg & _ & Hfin & Htm).
  split; [exact Hwg|]. split; [|split].
  - intros k Hk. apply abs_finished. apply Hfin. exact Hk.
  - intros x Hx. apply In_nth_error in Hx. destruct Hx as [j Hj]. eapply Htm; eauto.
  - intros sched' c'.
    pose proof (run_rel nw lim
      (fun s ps => Inv1 nc s ps /\ drained s ps)
      (fun s1 s2 => p_spawned s2 = p_spawned s1 /\ exists pre, p_queue s1 = pre ++ p_queue s2)) as Hr.
    destruct (Hr (fun s0 => conj eq_refl (ex_intro _ [] eq_refl))) with (sched := sched') (c0 := c) as [[R1 R2] [_ R3]].
    + intros s1 s2 s3 [E1 [p1 Q1]] [E2 [p2 Q2]]. split; [congruence|]. exists (p1 ++ p2). rewrite <- app_assoc, <- Q2. exact Q1.
    + intros s0 ps t a l pr [H1 H2] Hn Hv.
      pose proof (Inv1_step nw lim nc s0 ps t a l pr H1 Hn Hv) as Hs.
      destruct (astep nw lim l s0) as [cur s'| |] eqn:E; auto.
      assert (Hcf : p_closedflag s0 = true).
      { pose proof (i_cf _ _ _ H1) as Icf. destruct H2 as [Hq _]. destruct (p_closedflag s0); [reflexivity|].
        destruct Icf as [_ Hq']. congruence. }
      destruct (closed_step nw lim nc s0 ps t a l pr cur s' H1 Hcf Hn Hv E) as (C1 & _ & C3 & _).
      split; [split; [exact Hs|eapply drained_step; eauto]|split; [exact C1|exact C3]].
    + split; [exact HI1|exact Hd].
    + fold c' in R1, R2, R3. split; [exact R3|]. split; [exact R1|exact R2].
Qed.

(* in particular while the Stop thread is draining *)
Corollary draining_is_drained i l :
  at_pc c i l -> is_dr l = true -> drained s (aths c).
Proof.
  intros Ha Hl.
  destruct (Inv13_reach nw lim autostart choices clients nslots sched Hok) as [[HI1 _] _].
  fold c in HI1. fold s in HI1. apply (dr_drained nc); [exact HI1|].
  destruct (at_pc_abs _ _ _ Ha) as [pr Hn]. pose proof (cntp_ge is_dr _ _ _ Hn) as Hg.
  unfold pcf in Hg. simpl in Hg. rewrite Hl in Hg. exact Hg.
Qed.

End Main3.

Print Assumptions spawned_bounded.
Print Assumptions armed_timer_owned.
Print Assumptions stop_leaves_no_goroutine.
Print Assumptions draining_is_drained.
