(** Worker pool, C11 "reaches its cap", (E): for every nw >= 1 and every limit
    (as a natural number, limit + 1 < 2^31) the run [cap_sched nw lim] of the
    one-client program [cap_clients nw lim] (nw + lim gated tasks submitted with
    Do) reaches a configuration with exactly nw + lim threads inside an
    executor.  Symbolic execution: the configuration after every round of the
    schedule is written down explicitly. *)
From Coq Require Import List Arith Bool ZArith Lia.
From Garr Require Import Conc.Conc Pure.F64 Queue.MutexModel Pool.PoolModel Pool.PoolBase Pool.PoolInv1 Pool.PoolTok
  Pool.PoolStop Pool.PoolStopMain Pool.PoolWg Pool.PoolCap Pool.PoolMain Pool.PoolExpand Pool.PoolExpandExamples.
Import ListNotations.

(** ** Stepping explicit configurations *)
Section Steps.
Variable nw : nat.
Variable lim : Z.
Notation M := (pool nw lim).

Lemma step_cfg_next s thr t pr o l l' s' :
  nth_error thr t = Some (Thread pr tt (Some (o, l)) false) -> pstep nw lim l s = Next l' s' ->
  step_cfg M (Config s thr) t = Config s' (upd thr t (Thread pr tt (Some (o, l')) false)).
Proof.
  intros Hn Hp. unfold step_cfg, step_thread. cbn [c_thr c_sh]. rewrite Hn. unfold view. cbn [t_dead t_cur t_ts rest_prog t_prog].
  change (m_step M l s) with (pstep nw lim l s). rewrite Hp. reflexivity.
Qed.

Lemma step_cfg_done s thr t pr o l r s' :
  nth_error thr t = Some (Thread pr tt (Some (o, l)) false) -> pstep nw lim l s = Done r tt s' ->
  step_cfg M (Config s thr) t = Config s' (upd thr t (Thread pr tt None false)).
Proof.
  intros Hn Hp. unfold step_cfg, step_thread. cbn [c_thr c_sh]. rewrite Hn. unfold view. cbn [t_dead t_cur t_ts rest_prog t_prog].
  change (m_step M l s) with (pstep nw lim l s). rewrite Hp. reflexivity.
Qed.

Lemma step_cfg_inv s thr t pr o l' s' :
  nth_error thr t = Some (Thread (o :: pr) tt None false) -> pstep nw lim (PInv o) s = Next l' s' ->
  step_cfg M (Config s thr) t = Config s' (upd thr t (Thread pr tt (Some (o, l')) false)).
Proof.
  intros Hn Hp. unfold step_cfg, step_thread. cbn [c_thr c_sh]. rewrite Hn. unfold view. cbn [t_dead t_cur t_ts rest_prog t_prog tl].
  change (m_step M (m_start M tt o) s) with (pstep nw lim (PInv o) s). rewrite Hp. reflexivity.
Qed.

Lemma step_cfg_finished (c : pconfig) t :
  nth_error (c_thr c) t = Some (Thread [] tt None false) -> step_cfg M c t = c.
Proof. intros Hn. unfold step_cfg, step_thread. rewrite Hn. reflexivity. Qed.

End Steps.

(** ** List facts *)
Lemma nth_error_at {A} (l1 l2 : list A) x n : n = length l1 -> nth_error (l1 ++ x :: l2) n = Some x.
Proof. intros ->. rewrite nth_error_app2 by lia. rewrite Nat.sub_diag. reflexivity. Qed.

Lemma upd_at {A} (l1 l2 : list A) x y n : n = length l1 -> upd (l1 ++ x :: l2) n y = l1 ++ y :: l2.
Proof. intros ->. induction l1 as [|a l1 IH]; simpl; [reflexivity|]. rewrite IH. reflexivity. Qed.

Lemma nth_error_at2 {A} (l1 l2 : list A) a x n : n = S (length l1) -> nth_error (l1 ++ a :: x :: l2) n = Some x.
Proof.
  intros ->. replace (l1 ++ a :: x :: l2) with ((l1 ++ [a]) ++ x :: l2) by (rewrite <- app_assoc; reflexivity).
  apply nth_error_at. rewrite app_length. simpl. lia.
Qed.

Lemma nth_error_S {A} (a : A) l n : nth_error (a :: l) (S n) = nth_error l n.
Proof. reflexivity. Qed.

Lemma set_nth_at {A} (l1 l2 : list A) x y d n : n = length l1 -> set_nth (l1 ++ x :: l2) n d y = l1 ++ y :: l2.
Proof. intros ->. induction l1 as [|a l1 IH]; simpl; [reflexivity|]. rewrite IH. reflexivity. Qed.

Lemma set_nth_end {A} (l : list A) y d n : n = length l -> set_nth l n d y = l ++ [y].
Proof. intros ->. induction l as [|a l IH]; simpl; [reflexivity|]. rewrite IH. reflexivity. Qed.

Lemma repeat_snoc {A} (x : A) n : repeat x n ++ [x] = repeat x (S n).
Proof. induction n as [|n IH]; simpl; [reflexivity|]. rewrite IH. reflexivity. Qed.

Lemma seq_snoc a n : seq a (S n) = seq a n ++ [a + n].
Proof. rewrite seq_S. reflexivity. Qed.

Lemma nth_shape {A} (T0 : A) F E x R n :
  n = S (length F + length E) -> nth_error (T0 :: F ++ E ++ x :: R) n = Some x.
Proof. intros ->. cbn [nth_error]. rewrite app_assoc. apply nth_error_at. rewrite app_length. reflexivity. Qed.

Lemma upd_shape {A} (T0 : A) F E x R n y :
  n = S (length F + length E) -> upd (T0 :: F ++ E ++ x :: R) n y = T0 :: F ++ E ++ y :: R.
Proof.
  intros ->. cbn [upd]. f_equal. rewrite !app_assoc. apply upd_at. rewrite app_length. reflexivity.
Qed.

Lemma nth_shape2 {A} (T0 : A) F1 x F2 Rest n :
  n = S (length F1) -> nth_error (T0 :: (F1 ++ x :: F2) ++ Rest) n = Some x.
Proof. intros ->. cbn [nth_error]. rewrite <- app_assoc. cbn [app]. apply nth_error_at. reflexivity. Qed.

Lemma upd_shape2 {A} (T0 : A) F1 x F2 Rest n y :
  n = S (length F1) -> upd (T0 :: (F1 ++ x :: F2) ++ Rest) n y = T0 :: (F1 ++ y :: F2) ++ Rest.
Proof.
  intros ->. cbn [upd]. f_equal. rewrite <- !app_assoc. cbn [app]. apply upd_at. reflexivity.
Qed.

Lemma nth_error_repeat_app {A} (x : A) n l i : i < n -> nth_error (repeat x n ++ l) i = Some x.
Proof. intros H. rewrite nth_error_app1 by (rewrite repeat_length; exact H). apply nth_error_repeat. exact H. Qed.

(** ** The configurations along the run *)
Definition tk_run : option task := Some (Task 0 1 [] 1).   (* begun; its executor waits at gate 1 *)
Definition tk_new : option task := Some (Task 0 1 [] 0).   (* submitted, not begun *)
Definition slotT (j : nat) : pthread := Thread [Slot j] tt None false.
Definition execT (sl tm id : nat) : pthread := Thread [] tt (Some (Slot sl, EGate tm id)) false.
Definition doops (a n : nat) : list pop := map (fun id => Do id 0 1) (seq a n).

(* k expanded workers started, the first nt tasks begun, [tail] = the tasks submitted and not begun *)
Definition shG (nw k nt : nat) (q : list nat) (tail : list (option task)) : pshared :=
  PS 1 false false q (RW false 0) (nw + k) (Z.of_nat k) false [] [] (repeat (Timer false false) k)
     (None :: repeat tk_run nt ++ tail) (repeat RWorker nw ++ repeat RExpanded k) [].

(* thread 0 = the client; then the nw fixed workers (the first f busy), the k expanded workers (busy),
   the goroutine slots not started yet *)
Definition thrG (nw lim k f : nat) (prog : list pop) : list pthread :=
  Thread prog tt None false
  :: (map (fun j => execT j 0 (lim + j + 1)) (seq 0 f) ++ map slotT (seq f (nw - f)))
  ++ map (fun m => execT (nw + m) (S m) (S m)) (seq 0 k) ++ map slotT (seq (nw + k) (nw + lim - k)).

Definition C1 (nw lim k : nat) : pconfig :=
  Config (shG nw k k [S k] [tk_new]) (thrG nw lim k 0 (doops (k + 2) (nw + lim - k - 1))).
Definition C2 (nw lim f : nat) : pconfig :=
  Config (shG nw lim (lim + f) [lim + f + 1] [tk_new]) (thrG nw lim lim f (doops (lim + f + 2) (nw - f - 1))).
Definition C2a (nw lim f : nat) : pconfig :=
  Config (shG nw lim (lim + f + 1) [] []) (thrG nw lim lim (S f) (doops (lim + f + 2) (nw - f - 1))).

Section Run.
Variable nw lim : nat.
Hypothesis Hnw : 1 <= nw.
Hypothesis Hlim : (Z.of_nat lim + 1 < 2 ^ 31)%Z.
Notation L := (Z.of_nat lim).
Notation M := (pool nw L).

Lemma cap_cfg_eq :
  cap_cfg nw lim =
  Config (PS 1 false false [] (RW false 0) nw 0 false [] [] [] [] (repeat RWorker nw) [])
         (thrG nw lim 0 0 (doops 1 (nw + lim))).
Proof.
  unfold cap_cfg, pool_cfg, init, pinit, pinit0, cap_clients, thrG. cbn [upd_spawned upd_wg upd_state p_state p_closedflag p_qclosed p_queue p_lock
    p_wg p_expanded p_poolctx p_ctxs p_gates p_timers p_tasks p_spawned p_choices].
  f_equal. cbn [app map seq]. unfold mk_thread at 1. fold (doops 1 (nw + lim)). f_equal.
  rewrite map_map. rewrite seq_app, map_app. cbn [seq map app].
  replace (nw + lim - 0) with (nw + lim) by lia. replace (nw - 0) with nw by lia. replace (nw + 0) with nw by lia.
  reflexivity.
Qed.

Lemma doops_cons a n : doops a (S n) = Do a 0 1 :: doops (S a) n.
Proof. reflexivity. Qed.

Ltac norm_sh :=
  cbv beta iota delta [new_task set_task upd_state upd_closedflag upd_qclosed upd_queue upd_lock upd_wg upd_expanded upd_poolctx
       upd_ctxs upd_gates upd_timers upd_tasks upd_spawned upd_choices goto fin after_sub after_task
       p_state p_closedflag p_qclosed p_queue p_lock p_wg p_expanded p_poolctx p_ctxs p_gates p_timers p_tasks p_spawned
       p_choices rw_writer rw_readers runlock rlock pred].

Ltac norm_sel :=
  cbv beta iota delta [submit_select take_choice queue_send_ready queue_recv_ready submit_conds ctx_done ready_cases
    timer_get timer_set future_send gate_open];
  norm_sh.

Lemma start_phase : final M (cap_cfg nw lim) [0;0;0;0] = C1 nw lim 0.
Proof.
  rewrite cap_cfg_eq. unfold thrG. replace (nw + lim) with (S (nw + lim - 1)) at 1 by lia. rewrite doops_cons.
  rewrite final_cons. erewrite step_cfg_inv; [|reflexivity|reflexivity]. cbn [upd]. norm_sh. cbn [set_nth].
  destruct (L =? 0)%Z eqn:E0.
  - rewrite final_cons. erewrite step_cfg_next; [|reflexivity|unfold pstep; norm_sh; rewrite E0; reflexivity]. cbn [upd].
    rewrite final_cons. erewrite step_cfg_next; [|reflexivity|unfold pstep; norm_sel; cbn; reflexivity]. cbn [upd].
    rewrite final_cons. erewrite step_cfg_done; [|reflexivity|unfold pstep; norm_sh; reflexivity]. cbn [upd].
    rewrite final_nil. unfold C1, shG, thrG. cbn [repeat app Z.of_nat Nat.add].
    rewrite app_nil_r, Nat.add_0_r. replace (nw + lim - 0 - 1) with (nw + lim - 1) by lia. reflexivity.
  - rewrite final_cons. erewrite step_cfg_next; [|reflexivity|unfold pstep; norm_sh; rewrite E0; reflexivity]. cbn [upd].
    rewrite final_cons. erewrite step_cfg_next; [|reflexivity|unfold pstep; norm_sel; cbn; reflexivity]. cbn [upd].
    rewrite final_cons. erewrite step_cfg_done; [|reflexivity|unfold pstep; norm_sh; reflexivity]. cbn [upd].
    rewrite final_nil. unfold C1, shG, thrG. cbn [repeat app Z.of_nat Nat.add].
    rewrite app_nil_r, Nat.add_0_r. replace (nw + lim - 0 - 1) with (nw + lim - 1) by lia. reflexivity.
Qed.

Definition round1 (k : nat) : list nat := [0;0;0;0;0] ++ repeat (1 + nw + k) 4 ++ [0;0].

Lemma phase1_round k : k < lim -> final M (C1 nw lim k) (round1 k) = C1 nw lim (S k).
Proof.
  intros Hk. unfold C1 at 1, shG, thrG, round1. cbn [seq map app repeat].
  replace (nw - 0) with nw by lia.
  remember (nw + lim - k - 1) as n1 eqn:En1. destruct n1 as [|n2]; [lia|]. rewrite doops_cons.
  remember (nw + lim - k) as r1 eqn:Er1. destruct r1 as [|r2]; [lia|]. cbn [seq map].
  set (F := map slotT (seq 0 nw)).
  set (E := map (fun m : nat => execT (nw + m) (S m) (S m)) (seq 0 k)).
  set (R := map slotT (seq (S (nw + k)) r2)).
  assert (HF : length F = nw) by (unfold F; rewrite map_length, seq_length; reflexivity).
  assert (HE : length E = k) by (unfold E; rewrite map_length, seq_length; reflexivity).
  assert (E0 : (L =? 0)%Z = false) by (apply Z.eqb_neq; lia).
  (* 1. invocation of Do (k+2) *)
  rewrite final_cons. erewrite step_cfg_inv; [|reflexivity|reflexivity]. cbn [upd]. norm_sh.
  rewrite (set_nth_end _ _ _ (k + 2)) by (cbn [length]; rewrite app_length, repeat_length; cbn [length]; lia).
  cbn [app]. rewrite <- app_assoc. cbn [app].
  (* 2. RLock *)
  rewrite final_cons. erewrite step_cfg_next; [|reflexivity|unfold pstep; norm_sh; rewrite E0; reflexivity]. cbn [upd].
  (* 3. first select: queue full, default branch *)
  rewrite final_cons. erewrite step_cfg_next; [|reflexivity|unfold pstep; norm_sel; cbn; reflexivity]. cbn [upd].
  (* 4. AddInt32: observes k + 1 <= limit *)
  rewrite final_cons. erewrite step_cfg_next;
    [|reflexivity|unfold pstep; norm_sh; rewrite wrap32_small by lia; rewrite (proj2 (Z.leb_le _ _)) by lia; reflexivity].
  cbn [upd]. norm_sh.
  (* 5. wg.Add(1); go expandedWorker() *)
  rewrite final_cons. erewrite step_cfg_next; [|reflexivity|reflexivity]. cbn [upd]. norm_sh.
  (* 6. the new goroutine: NewTimer *)
  rewrite final_cons. erewrite step_cfg_inv; [|apply nth_shape; lia|].
  2: { unfold pstep. norm_sh. rewrite (nth_error_at _ [] RExpanded (nw + k)) by (rewrite app_length, !repeat_length; reflexivity).
       reflexivity. }
  rewrite upd_shape by lia. norm_sh. rewrite repeat_length.
  (* 7. its select: the queue is non-empty, it receives task k+1 *)
  rewrite final_cons. erewrite step_cfg_next; [|apply nth_shape; lia|].
  2: { unfold pstep. norm_sel. rewrite (nth_error_at _ [] _ k) by (rewrite repeat_length; reflexivity).
       norm_sel. cbn. reflexivity. }
  rewrite upd_shape by lia. norm_sh.
  (* 8. stopTimer *)
  rewrite final_cons. erewrite step_cfg_next; [|apply nth_shape; lia|].
  2: { unfold pstep. norm_sel. rewrite (nth_error_at _ [] _ k) by (rewrite repeat_length; reflexivity).
       norm_sel. cbn [tm_armed tm_fired orb]. rewrite (upd_at _ [] _ _ k) by (rewrite repeat_length; reflexivity). reflexivity. }
  rewrite upd_shape by lia. norm_sh. rewrite repeat_snoc.
  (* 9. Task.Execute begins: the executor waits at gate 1 *)
  rewrite final_cons. erewrite step_cfg_next; [|apply nth_shape; lia|].
  2: { unfold pstep, get_task. norm_sel. cbn [nth_error].
       rewrite (nth_error_at _ [tk_new] _ k) by (rewrite repeat_length; reflexivity).
       unfold tk_new at 1. cbn [tk_gate tk_ctx tk_future tk_execs set_nth].
       rewrite (set_nth_at _ [tk_new] _ _ _ k) by (rewrite repeat_length; reflexivity). reflexivity. }
  rewrite upd_shape by lia. norm_sh.
  (* 10. push: the queue has room now *)
  rewrite final_cons. erewrite step_cfg_next; [|reflexivity|].
  2: { unfold pstep. norm_sel. unfold get_task. norm_sh. replace (k + 2) with (S (S k)) by lia. rewrite nth_error_S.
       rewrite (nth_error_at2 _ [] _ _ (S k)) by (rewrite repeat_length; reflexivity).
       unfold tk_new. norm_sel. cbn. reflexivity. }
  cbn [upd]. norm_sh.
  (* 11. RUnlock *)
  rewrite final_cons. erewrite step_cfg_done; [|reflexivity|unfold pstep; norm_sh; reflexivity]. cbn [upd].
  rewrite final_nil. unfold C1, shG, thrG.
  replace (nw + S k) with (S (nw + k)) by lia. rewrite Nat2Z.inj_succ. unfold Z.succ.
  rewrite <- (repeat_snoc tk_run k), <- (app_assoc (repeat tk_run k)). cbn [app].
  rewrite <- (app_assoc (repeat RWorker nw)), (repeat_snoc RExpanded k).
  replace (S k + 2) with (S (k + 2)) by lia. replace (nw + lim - S k - 1) with n2 by lia.
  replace (nw + lim - S k) with r2 by lia. replace (nw - 0) with nw by lia.
  rewrite (seq_snoc 0 k), map_app. cbn [seq map app Nat.add]. rewrite <- (app_assoc _ _ (map slotT _)). cbn [app repeat].
  reflexivity.
Qed.

Lemma phase1_all m : forall a, a + m <= lim ->
  final M (C1 nw lim a) (concat (map round1 (seq a m))) = C1 nw lim (a + m).
Proof.
  induction m as [|m IH]; intros a Ha.
  - cbn [seq map concat]. rewrite final_nil, Nat.add_0_r. reflexivity.
  - cbn [seq map concat]. rewrite final_app, phase1_round by lia. rewrite IH by lia. f_equal. lia.
Qed.

Lemma C1_C2 : C1 nw lim lim = C2 nw lim 0.
Proof.
  unfold C1, C2. replace (lim + 0) with lim by lia. replace (lim + 1) with (S lim) by lia.
  replace (nw + lim - lim - 1) with (nw - 0 - 1) by lia. reflexivity.
Qed.

(* a fixed worker takes the queued task and begins it *)
Lemma phase2_take f : f < nw -> final M (C2 nw lim f) [1 + f; 1 + f] = C2a nw lim f.
Proof.
  intros Hf. unfold C2, shG, thrG.
  remember (nw - f) as r1 eqn:Er1. destruct r1 as [|r2]; [lia|]. cbn [seq map].
  set (F1 := map (fun j : nat => execT j 0 (lim + j + 1)) (seq 0 f)).
  set (F2 := map slotT (seq (S f) r2)).
  set (Rest := map (fun m : nat => execT (nw + m) (S m) (S m)) (seq 0 lim) ++ map slotT (seq (nw + lim) (nw + lim - lim))).
  assert (HF1 : length F1 = f) by (unfold F1; rewrite map_length, seq_length; reflexivity).
  (* 1. the worker goroutine receives from the queue *)
  rewrite final_cons. erewrite step_cfg_inv; [|apply nth_shape2; lia|].
  2: { unfold pstep. norm_sel. rewrite nth_error_repeat_app by exact Hf. cbn. reflexivity. }
  rewrite upd_shape2 by lia. norm_sh.
  (* 2. Task.Execute begins *)
  rewrite final_cons. erewrite step_cfg_next; [|apply nth_shape2; lia|].
  2: { unfold pstep. norm_sel. unfold get_task. norm_sh. replace (lim + f + 1) with (S (lim + f)) by lia. rewrite nth_error_S.
       rewrite (nth_error_at _ [] _ (lim + f)) by (rewrite repeat_length; reflexivity).
       unfold tk_new at 1. cbn [tk_gate tk_ctx tk_future tk_execs set_nth].
       rewrite (set_nth_at _ [] _ _ _ (lim + f)) by (rewrite repeat_length; reflexivity). reflexivity. }
  rewrite upd_shape2 by lia. norm_sh.
  rewrite final_nil. unfold C2a, shG, thrG.
  rewrite app_nil_r. replace (lim + f + 1) with (S (lim + f)) by lia. rewrite <- (repeat_snoc tk_run (lim + f)).
  replace (nw - f - 1) with (S r2 - 1) by lia. replace (nw - S f) with r2 by lia.
  rewrite (seq_snoc 0 f), map_app. cbn [seq map app Nat.add]. rewrite <- (app_assoc _ _ (map slotT _)). cbn [app].
  replace (lim + f + 1) with (S (lim + f)) by lia. reflexivity.
Qed.

(* the client submits the next task: the queue is empty, the first select (or push) sends *)
Lemma phase2_do f : f + 1 < nw -> final M (C2a nw lim f) [0;0;0;0] = C2 nw lim (S f).
Proof.
  intros Hf. unfold C2a, shG, thrG.
  remember (nw - f - 1) as n1 eqn:En1. destruct n1 as [|n2]; [lia|]. rewrite doops_cons.
  set (Rest := (map (fun j : nat => execT j 0 (lim + j + 1)) (seq 0 (S f)) ++ map slotT (seq (S f) (nw - S f))) ++
               map (fun m : nat => execT (nw + m) (S m) (S m)) (seq 0 lim) ++ map slotT (seq (nw + lim) (nw + lim - lim))).
  rewrite app_nil_r.
  rewrite final_cons. erewrite step_cfg_inv; [|reflexivity|reflexivity]. cbn [upd]. norm_sh.
  rewrite (set_nth_end _ _ _ (lim + f + 2)) by (cbn [length]; rewrite repeat_length; lia).
  cbn [app].
  assert (Hfin : forall l,
    l = SubPush (lim + f + 2) \/ l = SubTrySel (lim + f + 2) ->
    forall s0, s0 = PS 1 false false [] (RW false 1) (nw + lim) L false [] [] (repeat (Timer false false) lim)
                       (None :: repeat tk_run (lim + f + 1) ++ [tk_new]) (repeat RWorker nw ++ repeat RExpanded lim) [] ->
    pstep nw L l s0 = Next (SubRUnlock KDo)
      (PS 1 false false [lim + f + 2] (RW false 1) (nw + lim) L false [] [] (repeat (Timer false false) lim)
          (None :: repeat tk_run (lim + f + 1) ++ [tk_new]) (repeat RWorker nw ++ repeat RExpanded lim) [])).
  { intros l [->| ->] s0 ->.
    - unfold pstep. norm_sel. unfold get_task. norm_sh. replace (lim + f + 2) with (S (lim + f + 1)) by lia. rewrite nth_error_S.
      rewrite (nth_error_at _ [] _ (lim + f + 1)) by (rewrite repeat_length; reflexivity).
      unfold tk_new. norm_sel. cbn. reflexivity.
    - unfold pstep. norm_sel. cbn. reflexivity. }
  destruct (L =? 0)%Z eqn:E0.
  - rewrite final_cons. erewrite step_cfg_next; [|reflexivity|unfold pstep; norm_sh; rewrite E0; reflexivity]. cbn [upd].
    rewrite final_cons. erewrite step_cfg_next; [|reflexivity|apply Hfin; [left; reflexivity|reflexivity]]. cbn [upd].
    rewrite final_cons. erewrite step_cfg_done; [|reflexivity|unfold pstep; norm_sh; reflexivity]. cbn [upd].
    rewrite final_nil. unfold C2, shG, thrG.
    replace (lim + S f) with (lim + f + 1) by lia. replace (lim + f + 1 + 1) with (lim + f + 2) by lia.
    replace (lim + f + 1 + 2) with (S (lim + f + 2)) by lia. replace (nw - S f - 1) with n2 by lia. reflexivity.
  - rewrite final_cons. erewrite step_cfg_next; [|reflexivity|unfold pstep; norm_sh; rewrite E0; reflexivity]. cbn [upd].
    rewrite final_cons. erewrite step_cfg_next; [|reflexivity|apply Hfin; [right; reflexivity|reflexivity]]. cbn [upd].
    rewrite final_cons. erewrite step_cfg_done; [|reflexivity|unfold pstep; norm_sh; reflexivity]. cbn [upd].
    rewrite final_nil. unfold C2, shG, thrG.
    replace (lim + S f) with (lim + f + 1) by lia. replace (lim + f + 1 + 1) with (lim + f + 2) by lia.
    replace (lim + f + 1 + 2) with (S (lim + f + 2)) by lia. replace (nw - S f - 1) with n2 by lia. reflexivity.
Qed.

(* no task left: the client has finished, its schedule entries are no-ops *)
Lemma phase2_idle f : f + 1 = nw -> final M (C2a nw lim f) [0;0;0;0] = C2a nw lim f.
Proof.
  intros Hf.
  assert (Hn : nth_error (c_thr (C2a nw lim f)) 0 = Some (Thread [] tt None false)).
  { unfold C2a, thrG. cbn [c_thr nth_error]. replace (nw - f - 1) with 0 by lia. reflexivity. }
  rewrite !final_cons, final_nil. rewrite !(step_cfg_finished nw L _ 0 Hn). reflexivity.
Qed.

Lemma phase2_all m : forall a, a + m = nw -> 1 <= m ->
  final M (C2 nw lim a) (concat (map (fun f => [1 + f; 1 + f; 0;0;0;0]) (seq a m))) = C2a nw lim (a + m - 1).
Proof.
  induction m as [|m IH]; intros a Ha Hm; [lia|].
  cbn [seq map concat]. change ([1 + a; 1 + a; 0; 0; 0; 0] ++ ?x) with ([1 + a; 1 + a] ++ [0;0;0;0] ++ x).
  rewrite !final_app, phase2_take by lia.
  destruct m as [|m].
  - cbn [seq map concat]. rewrite final_nil, phase2_idle by lia. f_equal. lia.
  - rewrite phase2_do by lia. rewrite IH by lia. f_equal. lia.
Qed.

(** ** The configuration reached *)
Lemma cap_final_eq : cap_final nw lim = C2a nw lim (nw - 1).
Proof.
  unfold cap_final, cap_sched.
  change (fun k : nat => [0;0;0;0;0] ++ repeat (1 + nw + k) 4 ++ [0;0]) with round1.
  rewrite final_app, start_phase.
  rewrite final_app. rewrite (phase1_all lim 0) by lia. cbn [Nat.add]. rewrite C1_C2.
  apply (phase2_all nw 0); lia.
Qed.

Lemma filter_map_all {A B} (g : B -> bool) (h : A -> B) l b :
  (forall x, g (h x) = b) -> length (filter g (map h l)) = if b then length l else 0.
Proof.
  intros H. induction l as [|a l IH]; simpl; [destruct b; reflexivity|]. rewrite H. destruct b; simpl; rewrite IH; reflexivity.
Qed.

(** (E) [cap_reachable] *)
Theorem cap_reached : cntp is_exec (aths (cap_final nw lim)) = nw + lim.
Proof.
  rewrite cap_final_eq, cntp_concrete. unfold nthreads, C2a, thrG. cbn [c_thr filter t_cur].
  rewrite !filter_app, !app_length.
  rewrite (filter_map_all _ (fun j => execT j 0 (lim + j + 1)) _ true) by reflexivity.
  rewrite (filter_map_all _ slotT _ false) by reflexivity.
  rewrite (filter_map_all _ (fun m => execT (nw + m) (S m) (S m)) _ true) by reflexivity.
  rewrite (filter_map_all _ slotT _ false) by reflexivity.
  rewrite !seq_length. lia.
Qed.

End Run.

Lemma doops_nodup : forall n a,
  NoDup (flat_map (fun o => match sub_id o with Some id => [id] | None => [] end) (map (fun id => Do id 0 1) (seq a n))).
Proof.
  induction n as [|n IH]; intros a; cbn [seq map flat_map]; [constructor|].
  cbn [sub_id app]. constructor; [|apply IH].
  intros Hin. apply in_flat_map in Hin. destruct Hin as (o & Ho & Hid). apply in_map_iff in Ho.
  destruct Ho as (id & <- & Hs). apply in_seq in Hs. cbn [sub_id] in Hid. destruct Hid as [Hid|[]]. lia.
Qed.

(** for every nw >= 1 and limit there are a client program and a schedule that reach exactly nw + limit
    simultaneous executions; together with [C11_parallelism_capped] the cap is attained *)
Theorem cap_reachable : forall nw lim : nat, 1 <= nw -> (Z.of_nat lim + 1 < 2 ^ 31)%Z ->
  exists clients nslots sched,
    clients_ok clients /\ nw + cntdo (concat clients) <= nslots /\
    cntp is_exec (aths (final (pool nw (Z.of_nat lim)) (pool_cfg nw true [] clients nslots) sched)) = nw + lim.
Proof.
  intros nw lim Hnw Hlim. exists (cap_clients nw lim), (nw + (nw + lim)), (cap_sched nw lim).
  split; [|split].
  - unfold cap_clients. split.
    + intros p o [<-|[]] Ho. apply in_map_iff in Ho. destruct Ho as (id & <- & _). reflexivity.
    + cbn [concat]. rewrite app_nil_r. apply doops_nodup.
  - unfold cap_clients. cbn [concat]. rewrite app_nil_r. unfold cntdo.
    assert (E : forall a n, length (filter is_doexec (map (fun id => Do id 0 1) (seq a n))) = n).
    { intros a n. revert a. induction n as [|n IH]; intros a; cbn [seq map filter is_doexec length]; [reflexivity|]. rewrite IH. reflexivity. }
    rewrite E. lia.
  - exact (cap_reached nw lim Hnw Hlim).
Qed.

Print Assumptions cap_reachable.
