(** Concrete runs (vm_compute) showing that the hypotheses of the theorems of
    [PoolAfterStop], [PoolLateSubmit], [PoolSelect] are satisfiable, and the
    counterexample to the naive reading of "Stop has returned". *)
From Coq Require Import List Arith Bool ZArith Lia.
From Garr Require Import Conc.Conc Pure.F64 Queue.MutexModel Pool.PoolModel Pool.PoolBase Pool.PoolInv1 Pool.PoolTok
  Pool.PoolStop Pool.PoolStopMain Pool.PoolWg Pool.PoolCap Pool.PoolMain Pool.PoolStopDone Pool.PoolAcct Pool.PoolHist
  Pool.PoolAfterStop Pool.PoolStopCount Pool.PoolLateSubmit Pool.PoolSelect Pool.PoolTimers Pool.PoolLive Pool.PoolProgress.
Import ListNotations.

Ltac compute_cfg c :=
  let E := fresh "E" in
  remember c as c0 eqn:E; vm_compute in E; subst c0.

(** ** 1. Stop drains a queued task.
    One fixed worker but DisableAutoStart and no Start: the task submitted by thread 0 stays in
    the queue; thread 1 calls Stop, which closes the queue, passes wg.Wait() and drains it. *)
Definition ex1_cfg := pool_cfg 1 false [] [[Do 1 0 0]; [Stop]] 1.
Definition ex1_sched := [0;0;0;0; 1;1;1;1;1;1;1;1;1;1;1].

Example ex1_clients_ok : clients_ok [[Do 1 0 0]; [Stop]].
Proof.
  split.
  - intros p o [<-|[<-|[]]] [<-|[]]; reflexivity.
  - simpl. constructor; [intros []|constructor].
Qed.

Example ex1_trace :
  trace (pool 1 0) ex1_cfg ex1_sched = [EInv 0 (Do 1 0 0); ERet 0 (Do 1 0 0) PU; EInv 1 Stop; ERet 1 Stop PU].
Proof. vm_compute. reflexivity. Qed.

(* the task sat in the queue until Stop took it *)
Example ex1_queued_before_drain :
  let c := final (pool 1 0) ex1_cfg [0;0;0;0; 1;1;1;1;1;1;1;1] in
  p_queue (c_sh c) = [1] /\ p_qclosed (c_sh c) = true /\
  map (fun th => match t_cur th with Some (_, l) => Some l | None => None end) (c_thr c) = [None; Some XDrainRecv; None].
Proof. vm_compute. auto. Qed.

Example ex1_accepted : accepted 1 (trace (pool 1 0) ex1_cfg ex1_sched).
Proof. rewrite ex1_trace. exists 0, (Do 1 0 0), PU. simpl. auto. Qed.

Example ex1_stop_returned : stop_returned (trace (pool 1 0) ex1_cfg ex1_sched).
Proof. rewrite ex1_trace. exists 1, PU. simpl. auto. Qed.

Example ex1_stop_done : stop_done (final (pool 1 0) ex1_cfg ex1_sched).
Proof.
  apply (stop_done_single_stop 1 0 false [] [[Do 1 0 0]; [Stop]] 1 ex1_clients_ok ex1_sched).
  - vm_compute. lia.
  - exact ex1_stop_returned.
Qed.

(* the drained task got the cancellation result and was never executed *)
Example ex1_result :
  let c := final (pool 1 0) ex1_cfg ex1_sched in
  results c (trace (pool 1 0) ex1_cfg ex1_sched) 1 = [TCanceled] /\
  get_task (c_sh c) 1 = Some (Task 0 0 [TCanceled] 0) /\ p_queue (c_sh c) = [].
Proof. vm_compute. auto. Qed.

(** ** 2. A second Stop call returns while the first one is still at work.
    Thread 1 wins the CAS (it is about to cancel the context); thread 2's three CAS attempts fail
    and its Stop call RETURNS - but task 1 is still in the queue and has no result.  So
    "some Stop call has returned" does not imply that accepted work has been drained: the
    statement needs the Stop call that won the CAS ([stop_done]). *)
Definition ex2_cfg := pool_cfg 1 false [] [[Do 1 0 0]; [Stop]; [Stop]] 1.
Definition ex2_sched := [0;0;0;0; 1;1;1; 2;2;2;2].

Example ex2_clients_ok : clients_ok [[Do 1 0 0]; [Stop]; [Stop]].
Proof.
  split.
  - intros p o [<-|[<-|[<-|[]]]] [<-|[]]; reflexivity.
  - simpl. constructor; [intros []|constructor].
Qed.

Example second_stop_returns_early :
  let c := final (pool 1 0) ex2_cfg ex2_sched in
  let tr := trace (pool 1 0) ex2_cfg ex2_sched in
  stop_returned tr /\ accepted 1 tr /\
  p_queue (c_sh c) = [1] /\ results c tr 1 = [] /\ p_qclosed (c_sh c) = false /\
  map (fun th => match t_cur th with Some (_, l) => Some l | None => None end) (c_thr c) = [None; Some XCancel; None; None].
Proof.
  assert (Et : trace (pool 1 0) ex2_cfg ex2_sched =
               [EInv 0 (Do 1 0 0); ERet 0 (Do 1 0 0) PU; EInv 1 Stop; EInv 2 Stop; ERet 2 Stop PU]) by (vm_compute; reflexivity).
  cbv zeta. rewrite Et. split; [|split].
  - exists 2, PU. simpl. auto 10.
  - exists 0, (Do 1 0 0), PU. simpl. auto.
  - vm_compute. auto.
Qed.

Example ex2_not_stop_done : ~ stop_done (final (pool 1 0) ex2_cfg ex2_sched).
Proof.
  intros [_ H]. specialize (H 1 XCancel). assert (Hx : is_stop XCancel = false); [|discriminate Hx].
  apply H. compute_cfg (final (pool 1 0) ex2_cfg ex2_sched). eexists. exists Stop. split; reflexivity.
Qed.

(** ** 3. A Do blocked on a full queue is released by the cancellation of its task's context.
    No worker (the pool is started with 0 workers), task 1 fills the queue, the Do of task 2
    (context 1) blocks at its select; thread 2 cancels context 1; the select is enabled again,
    takes the context branch, delivers the cancellation result; task 2 is never executed. *)
Definition ex3_cfg := pool_cfg 0 true [] [[Do 1 0 0]; [Do 2 1 0]; [Cancel 1]] 0.

Example ex3_blocked :
  let c := final (pool 0 0) ex3_cfg [0;0;0;0; 1;1] in
  at_pc c 1 (SubPush 2) /\ pstep 0 0 (SubPush 2) (c_sh c) = Blocked /\
  p_queue (c_sh c) = [1] /\ p_poolctx (c_sh c) = false /\ ctx_done (c_sh c) 1 = false.
Proof.
  cbv zeta. compute_cfg (final (pool 0 0) ex3_cfg [0;0;0;0; 1;1]). split.
  - eexists. exists (Do 2 1 0). split; reflexivity.
  - vm_compute. auto.
Qed.

Example ex3_released :
  let c := final (pool 0 0) ex3_cfg [0;0;0;0; 1;1; 2;2] in
  at_pc c 1 (SubPush 2) /\ ctx_done (c_sh c) 1 = true /\ p_queue (c_sh c) = [1] /\
  exists s', pstep 0 0 (SubPush 2) (c_sh c) = Next (SubFut KDo 2 false) s'.
Proof.
  cbv zeta. compute_cfg (final (pool 0 0) ex3_cfg [0;0;0;0; 1;1; 2;2]). split.
  - eexists. exists (Do 2 1 0). split; reflexivity.
  - split; [reflexivity|]. split; [reflexivity|]. eexists. vm_compute. reflexivity.
Qed.

Example ex3_result :
  let sched := [0;0;0;0; 1;1; 2;2; 1;1;1] in
  let c := final (pool 0 0) ex3_cfg sched in
  get_task (c_sh c) 2 = Some (Task 1 0 [TCanceled] 0) /\
  trace (pool 0 0) ex3_cfg sched =
    [EInv 0 (Do 1 0 0); ERet 0 (Do 1 0 0) PU; EInv 1 (Do 2 1 0); EInv 2 (Cancel 1); ERet 2 (Cancel 1) PU; ERet 1 (Do 2 1 0) PU].
Proof. vm_compute. auto. Qed.

(** ** 4. An accepted task whose result is not yet available is held by a live worker.
    One fixed worker, task 1 waits for gate 1 inside its executor. *)
Definition ex4_cfg := pool_cfg 1 true [] [[Do 1 0 1]] 1.

Example ex4_owner :
  let sched := [0;0;0;0; 1;1] in
  let c := final (pool 1 0) ex4_cfg sched in
  let tr := trace (pool 1 0) ex4_cfg sched in
  accepted 1 tr /\ results c tr 1 = [] /\ p_queue (c_sh c) = [] /\
  Hwk 1 (aths c) = 1 /\ at_pc c 1 (EGate 0 1).
Proof.
  assert (Et : trace (pool 1 0) ex4_cfg [0;0;0;0; 1;1] = [EInv 0 (Do 1 0 1); ERet 0 (Do 1 0 1) PU; EInv 1 (Slot 0)])
    by (vm_compute; reflexivity).
  cbv zeta. rewrite Et. split.
  - exists 0, (Do 1 0 1), PU. simpl. auto.
  - compute_cfg (final (pool 1 0) ex4_cfg [0; 0; 0; 0; 1; 1]). repeat split.
    eexists. exists (Slot 0). split; reflexivity.
Qed.

(** ** 5. A submission after Stop has returned is refused with one cancellation result. *)
Definition ex5_cfg := pool_cfg 1 true [] [[Stop; TryDo 7 0 0]] 1.

Example ex5_late_submission :
  let sched := [0;0;0;0;0;0; 1;1; 0;0;0; 0;0;0;0] in
  let c := final (pool 1 0) ex5_cfg sched in
  trace (pool 1 0) ex5_cfg sched =
    [EInv 0 Stop; EInv 1 (Slot 0); ERet 1 (Slot 0) PU; ERet 0 Stop PU; EInv 0 (TryDo 7 0 0); ERet 0 (TryDo 7 0 0) (PB false)] /\
  get_task (c_sh c) 7 = Some (Task 0 0 [TCanceled] 0) /\ p_queue (c_sh c) = [].
Proof. vm_compute. auto. Qed.

Example ex5_clients_ok : clients_ok [[Stop; TryDo 7 0 0]].
Proof.
  split.
  - intros p o [<-|[]] [<-|[<-|[]]]; reflexivity.
  - simpl. constructor; [intros []|constructor].
Qed.

(* the hypotheses of [submission_after_stop_refused] hold after Stop has returned *)
Example ex5_hypotheses :
  let c1 := final (pool 1 0) ex5_cfg [0;0;0;0;0;0; 1;1; 0;0] in
  stop_done c1 /\ exists th, nth_error (c_thr c1) 0 = Some th /\ In (TryDo 7 0 0) (t_prog th).
Proof.
  split.
  - apply (stop_done_single_stop 1 0 true [] [[Stop; TryDo 7 0 0]] 1 ex5_clients_ok).
    + vm_compute. lia.
    + exists 0, PU. vm_compute. auto.
  - compute_cfg (final (pool 1 0) ex5_cfg [0;0;0;0;0;0; 1;1; 0;0]). eexists. split; [reflexivity|]. simpl. auto.
Qed.

(** ** 6. Deadlock freedom (D): the hypotheses are satisfiable ... *)
Definition ex6_cfg := pool_cfg 1 true [] [[Do 1 0 0; Await 1]] 1.

Example ex6_progress :
  let sched := [0;0;0;0; 0;0] in
  let c := final (pool 1 0) ex6_cfg sched in
  let tr := trace (pool 1 0) ex6_cfg sched in
  p_state (c_sh c) = 1 /\ gates_ok c /\ accepted 1 tr /\ results c tr 1 = [] /\
  at_pc c 0 (RRecv 1) /\ pstep 1 0 (RRecv 1) (c_sh c) = Blocked /\
  ~ enabled 1 0 c 0 /\ enabled 1 0 c 1.
Proof.
  assert (Et : trace (pool 1 0) ex6_cfg [0;0;0;0; 0;0] = [EInv 0 (Do 1 0 0); ERet 0 (Do 1 0 0) PU; EInv 0 (Await 1)])
    by (vm_compute; reflexivity).
  cbv zeta. rewrite Et. compute_cfg (final (pool 1 0) ex6_cfg [0;0;0;0; 0;0]).
  split; [reflexivity|]. split.
  - intros j tm y t (th & o & Hn & Hc) _. exfalso.
    destruct j as [|[|j]]; simpl in Hn; [| |destruct j; discriminate Hn]; injection Hn as <-; simpl in Hc; discriminate Hc.
  - split; [exists 0, (Do 1 0 0), PU; simpl; auto|]. split; [reflexivity|].
    split; [eexists; exists (Await 1); split; reflexivity|]. split; [reflexivity|].
    split; [intros H; apply H; reflexivity|]. unfold enabled. vm_compute. discriminate.
Qed.

(** ** 7. ... and the hypothesis on the gates cannot be weakened to the gate of the awaited task.
    One fixed worker; it takes task 1 and waits at gate 1, which nobody opens any more.  Task 2
    (no gate) is accepted and sits in the queue; the client waits for its result.  No thread can
    take a step: this is a deadlock of the client program (the only thread that could open the
    gate is waiting), not of the pool. *)
Definition ex7_cfg := pool_cfg 1 true [] [[Do 1 0 1; Do 2 0 0; Await 2; OpenGate 1]] 1.

Example closed_gate_deadlock :
  let sched := [0;0;0;0; 1;1; 0;0;0;0; 0] in
  let c := final (pool 1 0) ex7_cfg sched in
  let tr := trace (pool 1 0) ex7_cfg sched in
  p_state (c_sh c) = 1 /\ accepted 2 tr /\ results c tr 2 = [] /\ p_queue (c_sh c) = [2] /\
  get_task (c_sh c) 2 = Some (Task 0 0 [] 0) /\        (* the gate of task 2 is "none": open *)
  at_pc c 0 (RRecv 2) /\ at_pc c 1 (EGate 0 1) /\
  length (c_thr c) = 2 /\ ~ enabled 1 0 c 0 /\ ~ enabled 1 0 c 1.
Proof.
  assert (Et : trace (pool 1 0) ex7_cfg [0;0;0;0; 1;1; 0;0;0;0; 0] =
     [EInv 0 (Do 1 0 1); ERet 0 (Do 1 0 1) PU; EInv 1 (Slot 0); EInv 0 (Do 2 0 0); ERet 0 (Do 2 0 0) PU; EInv 0 (Await 2)])
    by (vm_compute; reflexivity).
  cbv zeta. rewrite Et. compute_cfg (final (pool 1 0) ex7_cfg [0;0;0;0; 1;1; 0;0;0;0; 0]).
  split; [reflexivity|]. split; [exists 0, (Do 2 0 0), PU; simpl; auto 10|]. split; [reflexivity|]. split; [reflexivity|].
  split; [reflexivity|]. split; [eexists; exists (Await 2); split; reflexivity|].
  split; [eexists; exists (Slot 0); split; reflexivity|]. split; [reflexivity|].
  split; intros H; apply H; reflexivity.
Qed.

(** ** 8. ... and at least one fixed worker is needed (the Go code normalises NumberWorker to >= 1) *)
Definition ex8_cfg := pool_cfg 0 true [] [[Do 1 0 0; Await 1]] 0.

Example no_worker_deadlock :
  let sched := [0;0;0;0; 0] in
  let c := final (pool 0 0) ex8_cfg sched in
  p_state (c_sh c) = 1 /\ p_queue (c_sh c) = [1] /\ at_pc c 0 (RRecv 1) /\ length (c_thr c) = 1 /\ ~ enabled 0 0 c 0.
Proof.
  cbv zeta. compute_cfg (final (pool 0 0) ex8_cfg [0;0;0;0; 0]).
  split; [reflexivity|]. split; [reflexivity|]. split; [eexists; exists (Await 1); split; reflexivity|].
  split; [reflexivity|]. intros H; apply H; reflexivity.
Qed.
