(** Safety of the worker pool, part 12: timers of expanded workers.
    Every timer has at most one owner; while its owner waits in the select or
    is about to call timer.Stop() the timer is armed or holds an unreceived
    expiry - so timer.Stop() always reports true and the drain of the timer
    channel after a failed Stop ([XDrainTimer], the only step of an expanded
    worker that could wait for ever) is never reached. *)
From Coq Require Import List Arith Bool ZArith Lia.
From Garr Require Import Conc.Conc Pure.F64 Queue.MutexModel Pool.PoolModel Pool.PoolBase Pool.PoolInv1 Pool.PoolTok
  Pool.PoolStop.
Import ListNotations.

Definition owns (tm : nat) (l : ppc) : bool :=
  match l with
  | XSelect t' | XStopTimer t' _ | XDrainTimer t' _ | XReset t' | EBegin t' _ | EGate t' _ | EEnd t' _ | EFut t' _ =>
      Nat.eqb t' tm
  | _ => false
  end.
Definition is_xdrt (l : ppc) : bool := match l with XDrainTimer _ _ => true | _ => false end.

Record InvT (s : pshared) (ps : list ath) : Prop := {
  u_one : forall j, cntp (owns (S j)) ps <= 1;
  u_sel : forall j x, nth_error (p_timers s) j = Some x -> 1 <= cntp (at_sel (S j)) ps ->
            tm_armed x || tm_fired x = true;
  u_nd : cntp is_xdrt ps = 0
}.

Lemma at_sel_le_owns tm ps : cntp (at_sel tm) ps <= cntp (owns tm) ps.
Proof. apply cntp_le. intros []; simpl; congruence. Qed.

Section InvT.
Variable nw : nat.
Variable lim : Z.
Variable nc : nat.

Lemma owns_fresh s ps j :
  (forall i a, nth_error ps i = Some a -> wf nc s i a) -> length (p_timers s) <= j -> cntp (owns (S j)) ps = 0.
Proof.
  intros Hwf Hj. unfold cntp. apply sumi_all_zero. intros i a Hi. simpl. unfold pcf.
  specialize (Hwf i a Hi). unfold wf in Hwf. destruct (snd a) as [l|]; [|reflexivity].
  destruct Hwf as [Hpc _].
  destruct l; simpl; try reflexivity; simpl in Hpc; destr_hyps;
    match goal with |- (if Nat.eqb ?t ?u then _ else _) = _ => destruct (Nat.eqb_spec t u); [lia|reflexivity] end.
Qed.

Ltac eqb_all :=
  repeat match goal with
  | H : context [Nat.eqb ?a ?b] |- _ => destruct (Nat.eqb_spec a b); [subst|]
  | |- context [Nat.eqb ?a ?b] => destruct (Nat.eqb_spec a b); [subst|]
  end.

Ltac t_one Hn Uone Hfresh :=
  let j := fresh "j" in let Ej := fresh "Ej" in
  intros j;
  match goal with |- context [upd ?ps ?t ?a'] =>
    pose proof (cntp_upd (owns (S j)) ps t _ a' Hn) as Ej end;
  unfold pcf in Ej; simpl in Ej; specialize (Uone j);
  eqb_all; try lia.

Ltac t_sel Hn Uone Usel Und :=
  let j := fresh "j" in let x := fresh "x" in let Hj := fresh "Hj" in let Hc := fresh "Hc" in
  let Ej := fresh "Ej" in let Eo := fresh "Eo" in let Hle := fresh "Hle" in
  intros j x Hj Hc;
  match goal with |- context [tm_armed _] => idtac end;
  match type of Hc with context [upd ?ps ?t ?a'] =>
    pose proof (cntp_upd (at_sel (S j)) ps t _ a' Hn) as Ej;
    pose proof (cntp_upd (owns (S j)) ps t _ a' Hn) as Eo;
    pose proof (at_sel_le_owns (S j) ps) as Hle end;
  unfold pcf in Ej, Eo; simpl in Ej, Eo; specialize (Uone j);
  try match goal with E : nth_armed _ _ _ = Some _ |- _ =>
        let x0 := fresh "x0" in let A1 := fresh "A1" in let A2 := fresh "A2" in
        apply nth_armed_spec in E; destruct E as (_ & x0 & A1 & A2); rewrite Nat.sub_0_r in A1 end;
  lazymatch type of Hj with
  | nth_error (_ ++ [_]) _ = _ => apply nth_error_snoc in Hj; destruct Hj as [Hj|[-> ->]]
  | nth_error (upd _ _ _) _ = _ => rewrite nth_error_upd in Hj
  | _ => idtac
  end;
  eqb_all;
  repeat match goal with E : nth_error (p_timers _) _ = Some _ |- _ => rewrite E in * end;
  repeat match goal with H : Some _ = Some _ |- _ => injection H as <- end;
  try reflexivity;
  try (apply (Usel _ _ Hj); lia);
  try (exfalso; lia).

Lemma InvT_next s ps t a l pr cur s' :
  Inv1 nc s ps -> InvT s ps -> nth_error ps t = Some a -> a_view a = Some (l, pr) ->
  astep nw lim l s = RNext cur s' -> InvT s' (upd ps t (pr, cur)).
Proof.
  intros HI1 HIT Hn Hv H.
  pose proof (owns_fresh s ps (length (p_timers s)) (i_wf _ _ _ HI1) (le_n _)) as Hfresh.
  pose proof (i_wf _ _ _ HI1 _ _ Hn) as Hwf.
  assert (Hnp : forall prog l0, nth_error ps t = Some (prog, Some l0) -> forall o, l0 <> PInv o).
  { intros prog l0 Hn0. eapply stored_not_inv3; eauto. }
  destruct HIT as [Uone Usel Und].
  pose proof (cntp_upd is_xdrt ps t _ (pr, cur) Hn) as Exd.
  pose proof (cntp_ge is_xdrt ps t _ Hn) as Gxd.
  destruct a as [prog [l0|]]; unfold a_view in Hv; simpl in Hv.
  - injection Hv as <- <-. specialize (Hnp _ _ Hn).
    destruct l0; try (exfalso; eapply Hnp; reflexivity).
    all: step_cases H.
    all: unfold pcf in Exd, Gxd; simpl in Exd, Gxd; try lia.
    all: constructor; simpl; [t_one Hn Uone Hfresh | t_sel Hn Uone Usel Und | try lia].
    all: try (match goal with H : nth_error ?l (length ?l) = Some _ |- _ => exfalso; pose proof (nth_error_lt _ _ _ H); lia end).
    all: exfalso; match goal with E : nth_error (p_timers _) ?n = Some ?x |- _ =>
           let Gs := fresh "Gs" in pose proof (cntp_ge (at_sel (S n)) _ _ _ Hn) as Gs; unfold pcf in Gs; simpl in Gs;
           rewrite Nat.eqb_refl in Gs; pose proof (Usel n x E Gs); congruence end.
  - destruct prog as [|o pr0]; [discriminate|]. injection Hv as <- <-.
    destruct o.
    all: step_cases H.
    all: unfold pcf in Exd, Gxd; simpl in Exd, Gxd; try lia.
    all: constructor; simpl; [t_one Hn Uone Hfresh | t_sel Hn Uone Usel Und | try lia].
    all: try (match goal with H : nth_error ?l (length ?l) = Some _ |- _ => exfalso; pose proof (nth_error_lt _ _ _ H); lia end).
Qed.

End InvT.
