(** Concrete runs (vm_compute): the hypotheses of the theorems of [PoolExpand]
    and [PoolExpandLog] are satisfiable, the scenario "refused below the cap
    because of a transient over-reservation", and (E) the cap is reached
    (checked instances). *)
From Coq Require Import List Arith Bool ZArith Lia.
From Garr Require Import Conc.Conc Pure.F64 Queue.MutexModel Pool.PoolModel Pool.PoolBase Pool.PoolInv1 Pool.PoolTok
  Pool.PoolStop Pool.PoolCap Pool.PoolTimers Pool.PoolExpand Pool.PoolExpandLog.
Import ListNotations.

Definition pcs (c : pconfig) : list (option ppc) :=
  map (fun th => match t_cur th with Some (_, l) => Some l | None => None end) (c_thr c).

Lemma at_pc_pcs c i l : nth_error (pcs c) i = Some (Some l) -> at_pc c i l.
Proof.
  unfold pcs. rewrite nth_error_map. destruct (nth_error (c_thr c) i) as [th|] eqn:E; [|discriminate].
  simpl. destruct (t_cur th) as [[o l']|] eqn:Ec; [|discriminate]. intros H. injection H as <-. exists th, o. auto.
Qed.

Ltac run_tac :=
  cbv zeta; repeat split;
  try (apply at_pc_pcs);
  try (vm_compute; reflexivity);
  try (vm_compute; eexists; repeat split; reflexivity).

Ltac clients_ok_tac :=
  split; [intros p o Hp Ho; simpl in Hp; repeat (destruct Hp as [<-|Hp]; [simpl in Ho; repeat (destruct Ho as [<-|Ho]; [reflexivity|]); contradiction|]); contradiction
         |simpl; repeat (constructor; [simpl; intuition discriminate|]); constructor].

(** ** 1. One fixed worker, limit 1, one client submitting four gated tasks.
    Task 1 runs on the fixed worker, task 2 waits in the queue; Do(3) finds the queue full, observes
    1 <= limit: granted, an expanded worker is started, takes task 2; Do(4) finds the queue full
    again, observes 2 > limit: refused, decrements, starts nothing. *)
Definition x1_clients := [[Do 1 0 1; Do 2 0 1; Do 3 0 1; Do 4 0 1]].
Definition x1_cfg := pool_cfg 1 true [] x1_clients 5.
Definition x1_at_add3 := [0;0;0;0; 1;1; 0;0;0;0; 0;0;0].
Definition x1_at_add4 := x1_at_add3 ++ [0;0; 2;2;2;2; 0;0; 0;0;0].
Notation f1 := (final (pool 1 1) x1_cfg).

Example x1_clients_ok : clients_ok x1_clients.
Proof. clients_ok_tac. Qed.

(* hypotheses of [addexp_step] / [cap_not_undershot] / [expansion_is_granted], granted case *)
Example x1_granted :
  let c := f1 x1_at_add3 in
  at_pc c 0 (SubAddExp 3) /\ p_expanded (c_sh c) = 0%Z /\ p_queue (c_sh c) = [2] /\
  live_or_reserved 1 (c_sh c) (aths c) = 0%Z /\ over_reserved (aths c) = 0 /\
  pcs (f1 (x1_at_add3 ++ [0])) = [Some (SubWgAdd 3); Some (EGate 0 1); None; None; None; None] /\
  (* wg.Add(1); go expandedWorker(): slot 1 is started with the expanded role; the task is not pushed yet *)
  (let c2 := f1 (x1_at_add3 ++ [0; 0]) in
   pcs c2 = [Some (SubPush 3); Some (EGate 0 1); None; None; None; None] /\
   p_spawned (c_sh c2) = [RWorker; RExpanded] /\ p_wg (c_sh c2) = 2 /\ p_queue (c_sh c2) = [2] /\ p_expanded (c_sh c2) = 1%Z) /\
  (* the new goroutine runs: timer, select, takes task 2; then task 3 is pushed *)
  (let c3 := f1 (x1_at_add3 ++ [0; 0; 2;2;2;2; 0;0]) in
   pcs c3 = [None; Some (EGate 0 1); Some (EGate 1 2); None; None; None] /\ p_queue (c_sh c3) = [3] /\
   cntp is_exec (aths c3) = 2).
Proof. run_tac. Qed.

(* refused case: the cap (1 live expanded worker) is reached *)
Example x1_refused :
  let c := f1 x1_at_add4 in
  at_pc c 0 (SubAddExp 4) /\ p_expanded (c_sh c) = 1%Z /\ p_queue (c_sh c) = [3] /\
  live_or_reserved 1 (c_sh c) (aths c) = 1%Z /\ over_reserved (aths c) = 0 /\
  (let c1 := f1 (x1_at_add4 ++ [0]) in
   pcs c1 = [Some (SubSubExp 4); Some (EGate 0 1); Some (EGate 1 2); None; None; None] /\
   p_expanded (c_sh c1) = 2%Z /\ over_reserved (aths c1) = 1) /\
  (let c2 := f1 (x1_at_add4 ++ [0; 0]) in
   pcs c2 = [Some (SubPush 4); Some (EGate 0 1); Some (EGate 1 2); None; None; None] /\
   p_expanded (c_sh c2) = 1%Z /\ p_spawned (c_sh c2) = [RWorker; RExpanded] /\ p_wg (c_sh c2) = 2).
Proof. run_tac. Qed.

(* the log: the step after the AddInt32 of thread 0 is its wg.Add / its undo *)
Example x1_log :
  map (fun e => (snd e, step_pc e)) (steps_of (pool 1 1) x1_cfg (x1_at_add4 ++ [0; 0])) =
  [(0, Some (PInv (Do 1 0 1))); (0, Some (SubRLock false 1)); (0, Some (SubTrySel 1)); (0, Some (SubRUnlock KDo));
   (1, Some (PInv (Slot 0))); (1, Some (EBegin 0 1));
   (0, Some (PInv (Do 2 0 1))); (0, Some (SubRLock false 2)); (0, Some (SubTrySel 2)); (0, Some (SubRUnlock KDo));
   (0, Some (PInv (Do 3 0 1))); (0, Some (SubRLock false 3)); (0, Some (SubTrySel 3));
   (0, Some (SubAddExp 3)); (0, Some (SubWgAdd 3));
   (2, Some (PInv (Slot 1))); (2, Some (XSelect 1)); (2, Some (XStopTimer 1 (Some 2))); (2, Some (EBegin 1 2));
   (0, Some (SubPush 3)); (0, Some (SubRUnlock KDo));
   (0, Some (PInv (Do 4 0 1))); (0, Some (SubRLock false 4)); (0, Some (SubTrySel 4));
   (0, Some (SubAddExp 4)); (0, Some (SubSubExp 4))].
Proof. vm_compute. reflexivity. Qed.

Example x1_counts :
  let lg := steps_of (pool 1 1) x1_cfg (x1_at_add4 ++ [0; 0]) in
  ngranted 1 lg = 1 /\ nexited lg = 0.
Proof. vm_compute. auto. Qed.

(** ** 2. Refused below the cap: the transient over-reservation.
    No fixed worker, limit 1, three submitters A (thread 0), B (1), C (2) and the environment (3).
    A is granted, the expanded worker E (thread 4) runs task 1.  B finds the queue full, observes
    2 > 1 and is now between its AddInt32 and its undo.  C finds the queue full and stops in front of
    its AddInt32.  E runs task 2, goes idle, its timer is fired, it takes the timer branch and
    decrements.  Now live_or_reserved = 0 < limit, but C would observe 1 + 0 + 1 = 2 > 1 and be refused:
    exactly the case described by [cap_not_undershot].  If B undoes first, C is granted. *)
Definition x2_clients := [[Do 1 0 0; Do 2 0 0]; [Do 3 0 0]; [Do 4 0 0]; [Fire 0]].
Definition x2_cfg := pool_cfg 0 true [] x2_clients 4.
Notation f2 := (final (pool 0 1) x2_cfg).
Definition x2_a := [0;0;0;0; 0;0;0;0;0; 4;4;4;4;4;4;4; 0;0].      (* A granted, E ran task 1, task 2 queued *)
Definition x2_b := x2_a ++ [1;1;1;1; 2;2;2].                      (* B over-reserves; C in front of AddInt32 *)
Definition x2_c := x2_b ++ [4;4;4;4;4;4; 3;3].                    (* E ran task 2, idle; timer fired *)
Definition x2_d := x2_c ++ [4;4].                                 (* E took the timer branch and decremented *)

Example x2_clients_ok : clients_ok x2_clients.
Proof. clients_ok_tac. Qed.

(* (D): an idle expanded worker, its timer fired, queue empty and open: the timer branch is the only one *)
Example x2_idle_fired :
  let c := f2 x2_c in
  at_pc c 4 (XSelect 1) /\ p_timers (c_sh c) = [Timer false true] /\ p_queue (c_sh c) = [] /\ p_qclosed (c_sh c) = false /\
  pcs (f2 (x2_c ++ [4])) = [None; Some (SubSubExp 3); Some (SubAddExp 4); None; Some XExitDec; None; None; None].
Proof. run_tac. Qed.

(* without an expiry the same worker is blocked (queue empty, timer not fired) *)
Example x2_idle_not_fired :
  let c := f2 (x2_b ++ [4;4;4;4;4;4]) in
  at_pc c 4 (XSelect 1) /\ p_timers (c_sh c) = [Timer true false] /\ step_thread (pool 0 1) c 4 = None.
Proof. run_tac. Qed.

(* (C): exit path: decrement, then wg.Done(), then finished; timer stopped *)
Example x2_exit :
  (let c := f2 (x2_c ++ [4]) in
   at_pc c 4 XExitDec /\ p_expanded (c_sh c) = 2%Z /\ p_wg (c_sh c) = 1 /\ p_timers (c_sh c) = [Timer false false]) /\
  (let c := f2 x2_d in
   at_pc c 4 XExitDone /\ p_expanded (c_sh c) = 1%Z /\ p_wg (c_sh c) = 1 /\
   live_or_reserved 4 (c_sh c) (aths c) = 0%Z /\ nD 4 (c_sh c) (aths c) = 1) /\
  (let c := f2 (x2_d ++ [4]) in
   finished_thr c 4 /\ p_expanded (c_sh c) = 1%Z /\ p_wg (c_sh c) = 0 /\
   live_or_reserved 4 (c_sh c) (aths c) = 0%Z /\ nD 4 (c_sh c) (aths c) = 1 /\
   nsteps_of 4 is_xdec (steps_of (pool 0 1) x2_cfg (x2_d ++ [4])) = 1 /\
   nsteps_of 4 is_xdone (steps_of (pool 0 1) x2_cfg (x2_d ++ [4])) = 1 /\
   ngranted 1 (steps_of (pool 0 1) x2_cfg (x2_d ++ [4])) = 1 /\
   nexited (steps_of (pool 0 1) x2_cfg (x2_d ++ [4])) = 1).
Proof. run_tac. Qed.

(* (B): refused below the cap, because B over-reserves; granted once B has undone *)
Example x2_refused_below_cap :
  let c := f2 x2_d in
  at_pc c 2 (SubAddExp 4) /\ at_pc c 1 (SubSubExp 3) /\
  live_or_reserved 4 (c_sh c) (aths c) = 0%Z /\ over_reserved (aths c) = 1 /\ p_expanded (c_sh c) = 1%Z /\
  pcs (f2 (x2_d ++ [2])) = [None; Some (SubSubExp 3); Some (SubSubExp 4); None; Some XExitDone; None; None; None] /\
  pcs (f2 (x2_d ++ [1; 2])) = [None; Some (SubPush 3); Some (SubWgAdd 4); None; Some XExitDone; None; None; None].
Proof. run_tac. Qed.

Example x2_log :
  map (fun e => (snd e, step_pc e)) (steps_of (pool 0 1) x2_cfg (x2_d ++ [4])) =
  [(0, Some (PInv (Do 1 0 0))); (0, Some (SubRLock false 1)); (0, Some (SubTrySel 1)); (0, Some (SubRUnlock KDo));
   (0, Some (PInv (Do 2 0 0))); (0, Some (SubRLock false 2)); (0, Some (SubTrySel 2)); (0, Some (SubAddExp 2));
   (0, Some (SubWgAdd 2));
   (4, Some (PInv (Slot 0))); (4, Some (XSelect 1)); (4, Some (XStopTimer 1 (Some 1))); (4, Some (EBegin 1 1));
   (4, Some (EEnd 1 1)); (4, Some (EFut 1 1)); (4, Some (XReset 1));
   (0, Some (SubPush 2)); (0, Some (SubRUnlock KDo));
   (1, Some (PInv (Do 3 0 0))); (1, Some (SubRLock false 3)); (1, Some (SubTrySel 3)); (1, Some (SubAddExp 3));
   (2, Some (PInv (Do 4 0 0))); (2, Some (SubRLock false 4)); (2, Some (SubTrySel 4));
   (4, Some (XSelect 1)); (4, Some (XStopTimer 1 (Some 2))); (4, Some (EBegin 1 2)); (4, Some (EEnd 1 2));
   (4, Some (EFut 1 2)); (4, Some (XReset 1));
   (3, Some (PInv (Fire 0))); (3, Some (FFire 0));
   (4, Some (XSelect 1)); (4, Some XExitDec); (4, Some XExitDone)].
Proof. vm_compute. reflexivity. Qed.

(** ** (E) the cap is reached: one client submits nw + lim gated tasks with Do; the expanded workers are
    started first (each Do after the first finds the queue full), then the fixed workers take the
    rest: nw + lim executors are inside a task at the same time.  Here: the definitions and the instances
    used by the scenarios, by computation; the statement for ALL nw >= 1 and limits is
    [PoolCapReach.cap_reachable]. *)
Definition cap_clients (nw lim : nat) : list (list pop) := [map (fun id => Do id 0 1) (seq 1 (nw + lim))].
Definition cap_sched (nw lim : nat) : list nat :=
  [0;0;0;0] ++
  concat (map (fun k => [0;0;0;0;0] ++ repeat (1 + nw + k) 4 ++ [0;0]) (seq 0 lim)) ++
  concat (map (fun f => [1 + f; 1 + f; 0;0;0;0]) (seq 0 nw)).
Definition cap_cfg (nw lim : nat) := pool_cfg nw true [] (cap_clients nw lim) (nw + (nw + lim)).
Definition cap_final (nw lim : nat) := final (pool nw (Z.of_nat lim)) (cap_cfg nw lim) (cap_sched nw lim).
Definition cap_ok (nw lim : nat) : bool := Nat.eqb (cntp is_exec (aths (cap_final nw lim))) (nw + lim).

Example cap_reachable_1_1 : cntp is_exec (aths (cap_final 1 1)) = 1 + 1. Proof. vm_compute. reflexivity. Qed.
Example cap_reachable_1_2 : cntp is_exec (aths (cap_final 1 2)) = 1 + 2. Proof. vm_compute. reflexivity. Qed.
Example cap_reachable_2_1 : cntp is_exec (aths (cap_final 2 1)) = 2 + 1. Proof. vm_compute. reflexivity. Qed.
Example cap_reachable_2_2 : cntp is_exec (aths (cap_final 2 2)) = 2 + 2. Proof. vm_compute. reflexivity. Qed.
Example cap_reachable_2_2_pcs :
  pcs (cap_final 2 2) = [None; Some (EGate 0 3); Some (EGate 0 4); Some (EGate 1 1); Some (EGate 2 2); None; None].
Proof. vm_compute. reflexivity. Qed.
(* all nw in 1..5, lim in 0..5 *)
Example cap_reachable_grid :
  forallb (fun nw => forallb (fun lim => cap_ok nw lim) (seq 0 6)) (seq 1 5) = true.
Proof. vm_compute. reflexivity. Qed.

(** ** The theorems applied to the runs above (all hypotheses are jointly satisfiable) *)
Example x2_cap_not_undershot_instance :
  let c := f2 x2_d in
  at_pc (step_cfg (pool 0 1) c 2) 2 (SubSubExp 4) /\
  (1 - live_or_reserved 4 (c_sh c) (aths c) <= Z.of_nat (over_reserved (aths c)))%Z.
Proof.
  intros c.
  assert (HG : GoodE 0 1 x2_clients 4 c).
  { apply (GoodE_reach 0 1 true [] x2_clients 4 x2_clients_ok); [lia|vm_compute; reflexivity]. }
  assert (Hat : at_pc c 2 (SubAddExp 4)) by (apply at_pc_pcs; vm_compute; reflexivity).
  destruct (cap_not_undershot 0 1 x2_clients 4 ltac:(vm_compute; reflexivity) ltac:(vm_compute; lia) c 2 4 HG Hat) as (_ & _ & Hrefused).
  apply Hrefused. vm_compute. reflexivity.
Qed.

Example x2_idle_can_expire_instance :
  let c := f2 x2_c in at_pc (step_cfg (pool 0 1) c 4) 4 XExitDec.
Proof.
  intros c.
  assert (HG : GoodE 0 1 x2_clients 4 c).
  { apply (GoodE_reach 0 1 true [] x2_clients 4 x2_clients_ok); [lia|vm_compute; reflexivity]. }
  assert (Hat : at_pc c 4 (XSelect 1)) by (apply at_pc_pcs; vm_compute; reflexivity).
  destruct (idle_expanded_worker_can_expire 0 1 x2_clients 4 ltac:(vm_compute; lia) c HG 4 1 Hat) as (j & x & Ej & Hj & Hfired & _).
  injection Ej as <-. assert (Ex : x = Timer false true) by (vm_compute in Hj; congruence). subst x.
  destruct (Hfired eq_refl) as (_ & _ & Honly). apply Honly; vm_compute; reflexivity.
Qed.
