(* Replays the schedules the Go implementation was run under on the extracted
   Coq step machines and compares, event by event, the invocation/response
   history and the final-state digest.  Input: the output of a vdrv driver. *)
module ZA = Z
open Conc_model

let rec nat_of_int i = if i <= 0 then O else S (nat_of_int (i - 1))
let rec int_of_nat = function O -> 0 | S m -> 1 + int_of_nat m
let rec int_of_pos = function XH -> 1 | XO p -> 2 * int_of_pos p | XI p -> 2 * int_of_pos p + 1
let int_of_n = function N0 -> 0 | Npos p -> int_of_pos p

type ('sh, 'ts, 'l, 'op, 'ret) comp = {
  mach : ('sh, 'ts, 'l, 'op, 'ret) machine;
  sh0 : (string * string) list -> int list -> 'sh;
  ts0 : 'ts;
  parse_op : string -> string list -> 'op;
  show_ret : 'ret -> string;
  prefill : (string * string) list -> int list -> 'op list;
  final_prog : (string * string) list -> int list -> string list list -> 'op list;
  final_digest : 'ret list -> string;
  pc_of : 'l -> Obj.t;          (* the program-counter constructor inside a local state *)
  sh_digest : 'sh -> string;    (* observable part of the final shared state, appended to the digest *)
  extra : (string * string) list -> string list list -> 'op list list;  (* threads the code under test may spawn *)
  with_choices : 'sh -> int list -> 'sh;   (* per-run oracle stream (select choices) *)
  cfg_digest : (Obj.t -> string) option;   (* digest needing the whole configuration (thread states) *)
  kind_of : 'l -> nat;          (* which kind of shared access the step from this local state is (0 = unspecified) *)
}

(* coverage of model program counters: kind -> set of constructor keys *)
let coverage : (string, (string, unit) Hashtbl.t) Hashtbl.t = Hashtbl.create 8
let cover kind (o : Obj.t) =
  let key = if Obj.is_int o then "c" ^ string_of_int (Obj.obj o : int) else "b" ^ string_of_int (Obj.tag o) in
  let tbl = match Hashtbl.find_opt coverage kind with
    | Some t -> t | None -> let t = Hashtbl.create 64 in Hashtbl.add coverage kind t; t in
  if not (Hashtbl.mem tbl key) then Hashtbl.add tbl key ()

let fuel = nat_of_int 64

let split_ws s = List.filter (fun x -> x <> "") (String.split_on_char ' ' s)

let parse_tok tok =
  let n = String.length tok in
  let i = ref 0 in
  while !i < n && not ((tok.[!i] >= '0' && tok.[!i] <= '9') || tok.[!i] = '-') do incr i done;
  let name = String.sub tok 0 !i in
  let args = if !i >= n then [] else
    String.split_on_char ',' (String.sub tok !i (n - !i)) in
  (name, args)

type scn = {
  id : string; kind : string; opts : (string * string) list;
  pre : int list; threads : string list list;
}

(* run thread t alone until it can no longer step; returns config and its events *)
let run_solo c cfg t =
  let rec go cfg acc n =
    if n > 100000 then (cfg, List.rev acc) else
    match replay_step c.mach fuel cfg (nat_of_int t) with
    | Some (cfg', evs) -> go cfg' (List.rev_append evs acc) (n + 1)
    | None -> (cfg, List.rev acc)
  in go cfg [] 0

(* which object an access touches (Extract/Locs.v): set for the machines that have a location function *)
let loc_fn : (Obj.t -> (nat * (nat * nat))) option ref = ref None

let opt_int_early opts k d = match List.assoc_opt k opts with Some v -> (try int_of_string v with _ -> d) | None -> d
let mismatches = ref 0
let total_runs = ref 0

let process_runs (type sh ts l op ret) (c : (sh, ts, l, op, ret) comp) (s : scn) (ic : in_channel) =
  let nthr = List.length s.threads in
  let progs = List.map (fun th -> List.map (fun tok -> let (n, a) = parse_tok tok in c.parse_op n a)
                           (List.filter (fun tok -> tok <> "/") th)) s.threads in
  let extra = c.extra s.opts s.threads in
  let nextra = List.length extra in
  let cfg0 = init (c.sh0 s.opts s.pre) c.ts0
      ((c.prefill s.opts s.pre :: progs) @ extra @ [c.final_prog s.opts s.pre s.threads]) in
  let (cfg1, _) = run_solo c cfg0 0 in
  let runs = ref 0 and mism = ref 0 in
  let seen : (string, unit) Hashtbl.t = Hashtbl.create 1024 and nontriv = ref 0 in
  let continue = ref true in
  let choices = ref [] in
  let kline = ref [] in
  let lline = ref [] in
  let cur_n = ref "" and sline = ref [] and cline = ref "" and hline = ref "" and fline = ref None
  and aline = ref None and vline = ref None in
  let finish_run () =
    incr runs; incr total_runs;
    if not (Hashtbl.mem seen !cline) then begin
      Hashtbl.add seen !cline ();
      if List.exists (fun x -> x <> "0") (split_ws !cline) then incr nontriv
    end;
    (* replay *)
    let kcount = Array.make (nthr + nextra + 2) 0 in
    let buf = Buffer.create 256 in
    let add_evs evs =
      List.iter (fun e ->
          match e with
          | EInv (t, _) ->
            let t = int_of_nat t - 1 in
            if t < nthr then Buffer.add_string buf (Printf.sprintf " i%d.%d" t kcount.(t + 1))
          | ERet (t, _, r) ->
            let t = int_of_nat t - 1 in
            if t < nthr then begin
              Buffer.add_string buf (Printf.sprintf " r%d.%d=%s" t kcount.(t + 1) (c.show_ret r));
              kcount.(t + 1) <- kcount.(t + 1) + 1 end
          | EFault (t, _) ->
            let t = int_of_nat t - 1 in
            Buffer.add_string buf (Printf.sprintf " FAULT%d" t)) evs in
    let kinds = Array.of_list !kline in
    let kind_bad = ref None in
    let locs = Array.of_list !lline in
    let loc_bad = ref None in
    let m2i : (int * int * int, int) Hashtbl.t = Hashtbl.create 64 and i2m : (int, int * int * int) Hashtbl.t = Hashtbl.create 64 in
    let rec go cfg sched pos =
      match sched with
      | [] -> Ok cfg
      | t :: rest ->
        (* the kind of access the implementation performed here vs the kind of the model step about to run *)
        (if !kind_bad = None && pos < Array.length kinds && kinds.(pos) <> 0 then
           match List.nth_opt cfg.c_thr (t + 1) with
           | Some th ->
             (match view c.mach th with
              | Some ((_, l), _) ->
                let mk = int_of_nat (c.kind_of l) in
                if mk <> 0 && mk <> kinds.(pos) then kind_bad := Some (pos, kinds.(pos), mk)
              | None -> ())
           | None -> ());
        (* the object the implementation touched here vs the location of the model step: same object <-> same location *)
        (match !loc_fn with
         | Some f when !loc_bad = None && pos < Array.length locs && locs.(pos) <> 0 ->
           (match List.nth_opt cfg.c_thr (t + 1) with
            | Some th ->
              (match view c.mach th with
               | Some ((_, l), _) ->
                 let (tg, (a, b)) = f (Obj.repr l) in
                 let key = (int_of_nat tg, int_of_nat a, int_of_nat b) in
                 let (tg', _, _) = key in
                 if tg' <> 0 then begin
                   let il = locs.(pos) in
                   (match Hashtbl.find_opt m2i key with
                    | Some i when i <> il -> loc_bad := Some (pos, Printf.sprintf "the model step touches a location (%d,%d,%d) last seen as object #%d, the implementation touches object #%d" tg' (int_of_nat a) (int_of_nat b) i il)
                    | Some _ -> ()
                    | None ->
                      (match Hashtbl.find_opt i2m il with
                       | Some (t2, a2, b2) -> loc_bad := Some (pos, Printf.sprintf "the implementation touches object #%d again (model location (%d,%d,%d)) where the model touches a different location (%d,%d,%d)" il t2 a2 b2 tg' (int_of_nat a) (int_of_nat b))
                       | None -> Hashtbl.add m2i key il; Hashtbl.add i2m il key))
                 end
               | None -> ())
            | None -> ())
         | _ -> ());
        (match replay_step c.mach fuel cfg (nat_of_int (t + 1)) with
         | Some (cfg', evs) ->
           (* coverage only: redo the step one access at a time to see the silent pcs too *)
           let rec cov cfg n =
             if n > 0 then
               match step_thread c.mach cfg (nat_of_int (t + 1)) with
               | Some (c1, _) ->
                 (match List.nth_opt c1.c_thr (t + 1) with
                  | Some { t_cur = Some (_, l); _ } ->
                    cover s.kind (c.pc_of l);
                    if c.mach.m_silent l then cov c1 (n - 1)
                  | _ -> ())
               | None -> () in
           if !runs <= 48 || !runs land 63 = 0 then cov cfg 8;
           add_evs evs; go cfg' rest (pos + 1)
         | None -> Error pos)
    in
    let sample = opt_int_early s.opts "sample" 1 in
    let fine = List.mem_assoc "fine" s.opts || List.mem_assoc "nomodel" s.opts
               || (sample > 1 && !runs mod sample <> 1 && !vline = None) in
    let cfg1 = { cfg1 with c_sh = c.with_choices cfg1.c_sh !choices } in
    let res = if fine then Ok cfg1 else go cfg1 !sline 0 in
    let model_h = if fine then !hline else Buffer.contents buf in
    let impl_h = !hline in
    let report kind extra =
      incr mism; incr mismatches;
      if !mism <= 5 then
        Printf.printf "MISMATCH %s %s %s |C %s |S %s |impl%s |model%s %s\n" s.id !cur_n kind !cline
          (String.concat " " (List.map string_of_int !sline)) impl_h model_h extra in
    (match res with
     | Error pos -> report "stuck" (Printf.sprintf "|model cannot take access #%d" pos)
     | Ok _ when !kind_bad <> None ->
       (match !kind_bad with
        | Some (pos, ik, mk) -> report "access-kind" (Printf.sprintf "|access #%d is of kind %d in the implementation, %d in the model" pos ik mk)
        | None -> ())
     | Ok _ when !loc_bad <> None ->
       (match !loc_bad with
        | Some (pos, what) -> report "access-location" (Printf.sprintf "|access #%d: %s" pos what)
        | None -> ())
     | Ok cfg ->
       if model_h <> impl_h then report "history" ""
       else (match !fline, !aline with
           | Some f, None when not fine ->
             let (_, evs) = run_solo c cfg (nthr + nextra + 1) in
             let rets = List.filter_map (function ERet (_, _, r) -> Some r | _ -> None) evs in
             let (cfgf, _) = run_solo c cfg (nthr + nextra + 1) in
             let d = c.final_digest rets ^ c.sh_digest cfgf.c_sh ^
                     (match c.cfg_digest with Some f -> f (Obj.repr cfgf) | None -> "") in
             if d <> f then report "final" (Printf.sprintf "|implF %s |modelF %s" f d)
           | _ -> ()));
    (match !vline with
     | Some v -> Printf.printf "VIOL %s %s |C %s |H%s |%s\n" s.id !cur_n !cline impl_h v
     | None -> ());
    (match !aline with
     | Some a when a <> "solo-done" -> Printf.printf "ABORT %s %s |C %s |%s\n" s.id !cur_n !cline a
     | _ -> ())
  in
  while !continue do
    match input_line ic with
    | exception End_of_file -> continue := false
    | line ->
      let n = String.length line in
      if n >= 4 && String.sub line 0 4 = "RUN " then begin
        cur_n := List.nth (split_ws line) 2;
        sline := []; kline := []; lline := []; cline := ""; hline := ""; fline := None; aline := None; vline := None
      end
      else if n >= 1 && line.[0] = 'S' && (n = 1 || line.[1] = ' ') then
        (let toks = split_ws (String.sub line 1 (n - 1)) in
         sline := List.map (fun tok -> match String.index_opt tok ':' with
             | Some i -> int_of_string (String.sub tok 0 i) | None -> int_of_string tok) toks;
         choices := List.filter_map (fun tok -> match String.index_opt tok ':' with
             | Some i -> Some (int_of_string (String.sub tok (i + 1) (String.length tok - i - 1))) | None -> None) toks)
      else if n >= 1 && line.[0] = 'K' && (n = 1 || line.[1] = ' ') then
        kline := List.map int_of_string (split_ws (String.sub line 1 (n - 1)))
      else if n >= 1 && line.[0] = 'L' && (n = 1 || line.[1] = ' ') then
        lline := List.map int_of_string (split_ws (String.sub line 1 (n - 1)))
      else if n >= 1 && line.[0] = 'C' && (n = 1 || line.[1] = ' ') then
        cline := String.trim (String.sub line 1 (n - 1))
      else if n >= 1 && line.[0] = 'H' && (n = 1 || line.[1] = ' ') then
        hline := String.sub line 1 (n - 1)
      else if n >= 2 && String.sub line 0 2 = "F " then fline := Some (String.sub line 2 (n - 2))
      else if n >= 2 && String.sub line 0 2 = "A " then aline := Some (String.sub line 2 (n - 2))
      else if n >= 2 && String.sub line 0 2 = "V " then vline := Some (String.sub line 2 (n - 2))
      else if line = "END" then finish_run ()
      else if n >= 5 && String.sub line 0 5 = "DONE " then begin
        Printf.printf "RES %s runs=%d mismatches=%d %s\n" s.id !runs !mism
          (String.concat " " (List.tl (List.tl (split_ws line))));
        Printf.printf "NT %d\n" !nontriv;
        continue := false
      end
  done

(* ---------------------------------------------------------------- components *)

let show_qret = function
  | RUnit -> "u"
  | RVal v -> "v" ^ string_of_int (int_of_nat v)
  | RBool b -> if b then "b1" else "b0"
  | RSize n -> "s" ^ string_of_int (int_of_n n)

let parse_qop name args =
  let a = match args with x :: _ -> int_of_string x | [] -> 0 in
  match name with
  | "o" -> Offer (nat_of_int a)
  | "p" -> Poll | "k" -> Peek | "e" -> IsEmpty | "z" -> Size
  | "i" -> IterNew | "h" -> HasNext | "n" -> ItNext | "r" -> Remove
  | _ -> failwith ("unknown queue op " ^ name)

let count_offers pre threads =
  List.length pre + List.fold_left (fun acc th ->
      acc + List.length (List.filter (fun tok -> String.length tok > 0 && tok.[0] = 'o') th)) 0 threads

let queue_final iter _ pre threads =
  let n = count_offers pre threads + 1 in
  (Size :: (if iter then IterNew :: List.init n (fun _ -> ItNext) else []))
  @ List.init n (fun _ -> Poll)

let queue_digest iter rets =
  let rec take = function
    | RVal O :: _ | [] -> []
    | RVal v :: r -> string_of_int (int_of_nat v) :: take r
    | _ :: r -> take r in
  let rec drop k l = if k <= 0 then l else match l with [] -> [] | _ :: r -> drop (k - 1) r in
  match rets with
  | RSize n :: rest ->
    if iter then
      let rest = (match rest with RUnit :: r -> r | r -> r) in
      let k = List.length rest / 2 in
      Printf.sprintf "s%d t%s d%s" (int_of_n n) (String.concat "," (take rest)) (String.concat "," (take (drop k rest)))
    else Printf.sprintf "s%d t d%s" (int_of_n n) (String.concat "," (take rest))
  | _ -> "?"

let jdk_comp = {
  mach = jdk; sh0 = (fun _ _ -> qinit); ts0 = qiter0; parse_op = parse_qop; show_ret = show_qret;
  prefill = (fun _ pre -> List.map (fun v -> if v < 0 then Poll else Offer (nat_of_int v)) pre);
  final_prog = queue_final true; final_digest = queue_digest true; pc_of = (fun l -> Obj.repr l.l_pc); kind_of = jdk_kind; sh_digest = (fun _ -> ""); extra = (fun _ _ -> []); with_choices = (fun sh _ -> sh); cfg_digest = None;
}

let mutex_comp = {
  mach = mutexq; sh0 = (fun _ _ -> minit); ts0 = (); parse_op = parse_qop; show_ret = show_qret;
  prefill = (fun _ pre -> List.map (fun v -> if v < 0 then Poll else Offer (nat_of_int v)) pre);
  final_prog = queue_final false; final_digest = queue_digest false; pc_of = Obj.repr; kind_of = mutexq_kind; sh_digest = (fun _ -> ""); extra = (fun _ _ -> []); with_choices = (fun sh _ -> sh); cfg_digest = None;
}

(* adders *)
let zint i = Zconv.z_of_zarith (ZA.of_int i)
let show_aret = function RU -> "u" | RZ z -> "z" ^ Zconv.string_of_z z
let parse_aop name args =
  let a = match args with x :: _ -> Zconv.z_of_string x | [] -> Z0 in
  match name with
  | "a" -> Add a | "i" -> Inc | "d" -> Dec | "s" -> Sum | "r" -> Reset
  | "q" -> SumAndReset | "w" -> Store a
  | "h" -> Add a    (* only in nomodel scenarios: values outside the modelled range, never replayed *)
  | _ -> failwith ("unknown adder op " ^ name)
let adder_final _ _ _ =
  [Sum; Store (zint 7); Sum; Add (zint 5); Sum; SumAndReset; Sum; Add (zint 3); Reset; Sum; Add (zint 11); Sum]
let adder_digest rets = String.concat "," (List.map show_aret rets)
let opt_int opts k d = match List.assoc_opt k opts with Some v -> int_of_string v | None -> d
(* pglen / pgcap / pgmask: start from a published table of pglen slots (capacity pgcap) whose slots in pgmask hold cells of value 0 *)
let striped_init opts pre =
  let s0 = ainit (List.map zint pre) in
  let n = opt_int opts "pglen" 0 in
  if n = 0 then s0 else begin
    let cap = opt_int opts "pgcap" n and mask = opt_int opts "pgmask" 0 and md = opt_int opts "pgmod" 0 in
    let full j = if md > 0 then j mod md <> 0 else (mask lsr j) land 1 = 1 in
    let next = ref 0 in
    let slots = List.init cap (fun j -> if j < n && full j then (incr next; nat_of_int !next) else O) in
    { s0 with a_table = Some (O, nat_of_int n); a_arrays = [slots]; a_cells = List.init !next (fun _ -> Z0) }
  end
let adder_comp mach sh0 kind_of = {
  mach; sh0; kind_of; ts0 = (); parse_op = parse_aop; show_ret = show_aret;
  prefill = (fun _ _ -> []); final_prog = adder_final; final_digest = adder_digest; pc_of = Obj.repr; sh_digest = (fun _ -> ""); extra = (fun _ _ -> []); with_choices = (fun sh _ -> sh); cfg_digest = None;
}

(* breaker *)
let opt_z opts k d = match List.assoc_opt k opts with Some v -> Zconv.z_of_string v | None -> zint d
let breaker_cfg opts = {
  thr = of_bits (opt_z opts "thr" 0); minreq = opt_z opts "minreq" 1; trial = opt_z opts "trial" 3;
  openw = opt_z opts "openw" 10; window = opt_z opts "window" 20; interval = opt_z opts "interval" 5 }
let show_bret = function
  | BU -> "u" | BB b -> if b then "b1" else "b0"
  | BCount None -> "n"
  | BCount (Some (s, f)) -> Printf.sprintf "e%s:%s" (Zconv.string_of_z s) (Zconv.string_of_z f)
let parse_bop name _ = match name with
  | "c" | "x" -> CanRequest   (* x = Execute(ctx, fn): CanRequest followed by fn or ErrFailFast *)
  | "s" -> OnSuccess | "f" -> OnFailure
  | "ws" -> WSuccess | "wf" -> WFailure | "wc" -> WCount
  | "wP" -> WCount   (* preload: monitor-only scenarios (nomodel), never replayed *)
  | _ -> failwith ("unknown breaker op " ^ name)
let show_log log =
  "L" ^ String.concat "," (List.map (fun (i, e) ->
      let i = int_of_nat i in
      match e with
      | LStateChanged KClosed -> Printf.sprintf "%d:S0" i
      | LStateChanged KOpen -> Printf.sprintf "%d:S1" i
      | LStateChanged KHalfOpen -> Printf.sprintf "%d:S2" i
      | LCountUpdated (s, f) -> Printf.sprintf "%d:C%s:%s" i (Zconv.string_of_z s) (Zconv.string_of_z f)
      | LRejected -> Printf.sprintf "%d:R" i) log)
(* the P line as unbounded integers (ticker readings may lie outside OCaml's 63-bit int) *)
let pre_z : z list ref = ref []
let breaker_comp opts window_only = {
  mach = breaker (breaker_cfg opts) (nat_of_int (opt_int opts "listeners" 1));
  sh0 = (fun o _ -> let ticks = !pre_z in
          if window_only then winit ticks else binit (nat_of_int (opt_int o "listeners" 1)) ticks);
  ts0 = (); parse_op = parse_bop; show_ret = show_bret;
  prefill = (fun _ _ -> []); final_prog = (fun _ _ _ -> []); final_digest = (fun _ -> "");
  pc_of = Obj.repr; kind_of = breaker_kind; sh_digest = (fun s -> show_log s.b_log); extra = (fun _ _ -> []); with_choices = (fun sh _ -> sh); cfg_digest = None;
}

(* worker pool *)
let show_pret = function
  | PU -> "u" | PB b -> if b then "b1" else "b0"
  | PRes (TVal id) -> "v" ^ string_of_int (int_of_nat id)
  | PRes TCanceled -> "ec" | PNone -> "n" | PNoTask -> "x"
let parse_pop name args =
  let a i = match List.nth_opt args i with Some x -> nat_of_int (int_of_string x) | None -> O in
  match name with
  | "D" -> Do (a 0, a 1, a 2) | "T" -> TryDo (a 0, a 1, a 2)
  | "E" -> Execute (a 0, a 1) | "Y" -> TryExecute (a 0, a 1)
  | "X" -> Stop | "S" -> Start | "C" -> Cancel (a 0) | "G" -> OpenGate (a 0) | "F" -> Fire (a 0)
  | "R" -> Await (a 0) | "r" -> PollRes (a 0)
  | "W" -> AwaitBegun (a 0) | "A" -> AwaitArmed (a 0) | "K" -> AwaitTask (a 0) | "Z" -> AwaitExpanded (a 0)
  | _ -> failwith ("unknown pool op " ^ name)
(* Option.normalize (Pool/PoolOptions.v); the controlled runs fix runtime.NumCPU() to 2 *)
let pool_workers opts = int_of_string (Zconv.string_of_z (norm_workers (zint 2) (zint (opt_int opts "workers" 1))))
let pool_limit opts = norm_limit (zint (opt_int opts "limit" 0))
let pool_slots opts threads =
  let subs = List.fold_left (fun acc th -> acc + List.length (List.filter (fun tok ->
      String.length tok > 0 && (tok.[0] = 'D' || tok.[0] = 'E')) th)) 0 threads in
  pool_workers opts + subs
let show_tres = function TVal id -> "v" ^ string_of_int (int_of_nat id) | TCanceled -> "ec"
let pool_digest nclients nslots (o : Obj.t) =
  let cfg : (pshared, unit, ppc, pop) config = Obj.obj o in
  let s = cfg.c_sh in
  let tasks = List.mapi (fun i t -> (i, t)) s.p_tasks in
  let parts = List.filter_map (fun (i, t) -> match t with
      | Some t -> Some (Printf.sprintf "t%d:x%d:%s" i (int_of_nat t.tk_execs)
                          (String.concat "+" (List.map show_tres t.tk_future)))
      | None -> None) tasks in
  let armed = List.length (List.filter (fun x -> x.tm_armed) s.p_timers) in
  (* live goroutines: spawned slots whose thread has not finished *)
  let nsp = List.length s.p_spawned in
  let live = ref 0 in
  List.iteri (fun i th ->
      let k = i - 1 - nclients in
      if k >= 0 && k < nslots && k < nsp then
        (match th.t_prog, th.t_cur with [], None -> () | _ -> incr live)) cfg.c_thr;
  String.concat " " (parts @ [Printf.sprintf "exp=%s st=%d q=%d wg=%d armed=%d live=%d"
                                (Zconv.string_of_z s.p_expanded) (int_of_nat s.p_state) (List.length s.p_queue)
                                (int_of_nat s.p_wg) armed !live])
let pool_comp opts threads =
  let nslots = pool_slots opts threads in
  let nclients = List.length threads in
  {
    mach = pool (nat_of_int (pool_workers opts)) (pool_limit opts);
    sh0 = (fun o _ -> pinit (nat_of_int (pool_workers o)) (opt_int o "autostart" 1 <> 0) []);
    ts0 = (); parse_op = parse_pop; show_ret = show_pret;
    prefill = (fun _ _ -> []); final_prog = (fun _ _ _ -> []); final_digest = (fun _ -> "");
    pc_of = Obj.repr; kind_of = pool_kind; sh_digest = (fun _ -> "");
    extra = (fun _ _ -> List.init nslots (fun k -> [Slot (nat_of_int k)]));
    with_choices = (fun sh ch -> upd_choices sh (List.map nat_of_int ch));
    cfg_digest = Some (pool_digest nclients nslots);
  }

(* ---------------------------------------------------------------- main loop *)

let () =
  let ic = stdin in
  let cur = ref None in
  let pre = ref [] and threads = ref [] in
  (try
     while true do
       let line = input_line ic in
       match split_ws line with
       | "SCN" :: id :: kind :: opts ->
         let opts = List.filter_map (fun kv ->
             match String.index_opt kv '=' with
             | Some i -> Some (String.sub kv 0 i, String.sub kv (i + 1) (String.length kv - i - 1))
             | None -> None) opts in
         cur := Some (id, kind, opts); pre := []; pre_z := []; threads := []
       | "P" :: vs ->
         pre := List.map (fun v -> match int_of_string_opt v with Some i -> i | None -> 0) vs;
         pre_z := List.map Zconv.z_of_string vs
       | "T" :: ops -> threads := !threads @ [ops]
       | ["GO"] ->
         (match !cur with
          | Some (id, kind, opts) ->
            let s = { id; kind; opts; pre = !pre; threads = !threads } in
            loc_fn := None;
            (match kind with
             | "jdk" ->
               loc_fn := Some (fun o -> jdk_loc ((Obj.obj o : qlocal).l_pc));
               process_runs jdk_comp s ic
             | "mutex" -> process_runs mutex_comp s ic
             | "jdkadd" ->
               loc_fn := Some (fun o -> striped_loc (Obj.obj o));
               process_runs (adder_comp (jdk_adder (zint (opt_int opts "maxcells" 2))) striped_init striped_kind) s ic
             | "jdkf" ->
               loc_fn := Some (fun o -> striped_loc (Obj.obj o));
               process_runs (adder_comp (jdk_f64_adder (zint (opt_int opts "maxcells" 2))) striped_init striped_kind) s ic
             | "rc" -> process_runs (adder_comp rc_adder (fun _ pre -> rinit (nat_of_int 128) (List.map zint pre)) rc_kind) s ic
             | "atomic" -> process_runs (adder_comp atomic_adder (fun _ _ -> Z0) atomic_kind) s ic
             | "atomicf" -> process_runs (adder_comp atomic_f64_adder (fun _ _ -> Z0) atomic_kind) s ic
             | "mutexadd" -> process_runs (adder_comp mutex_adder (fun _ _ -> xinit) mutexadd_kind) s ic
             | "breaker" -> loc_fn := Some (fun o -> breaker_loc (Obj.obj o)); process_runs (breaker_comp opts false) s ic
             | "window" -> loc_fn := Some (fun o -> breaker_loc (Obj.obj o)); process_runs (breaker_comp opts true) s ic
             | "pool" -> process_runs (pool_comp opts s.threads) s ic
             | k -> failwith ("unknown kind " ^ k))
          | None -> ())
       | "ERROR" :: _ -> print_endline line
       | _ -> ()
     done
   with End_of_file -> ());
  Hashtbl.iter (fun kind tbl ->
      Printf.printf "COV %s %s\n" kind (String.concat " " (Hashtbl.fold (fun k () acc -> k :: acc) tbl []))) coverage;
  Printf.printf "TOTAL runs=%d mismatches=%d\n" !total_runs !mismatches
