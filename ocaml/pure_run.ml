(* Runs the extracted Tier-2 models on the cases written by the Go harness.
   stdin: one case per line, tab-separated: id, kind, args...
   stdout: id <tab> model result *)
open Zconv
let zs = z_of_string
let fl s = M.of_bits (zs s)
let b2s b = if b then "1" else "0"
let optb o = match o with Some _ -> "1" | None -> "0"

let rec desc (b : M.backoff) : string =
  match b with
  | M.Fixed d -> "F " ^ string_of_z d
  | M.Expo (i, mx, m) -> "E " ^ string_of_z i ^ " " ^ string_of_z mx ^ " " ^ string_of_z (M.to_bits m)
  | M.Random (mn, mx, bd) -> "R " ^ string_of_z mn ^ " " ^ string_of_z mx ^ " " ^ string_of_z bd
  | M.Jitter (lo, hi, b') -> "J " ^ string_of_z (M.to_bits lo) ^ " " ^ string_of_z (M.to_bits hi) ^ " (" ^ desc b' ^ ")"
  | M.Limit (l, b') -> "L " ^ string_of_z l ^ " (" ^ desc b' ^ ")"

(* parse a backoff description in prefix notation, building it through the
   model's constructors; None as soon as one constructor rejects *)
let rec parse_b (toks : string list) : M.backoff option * string list =
  match toks with
  | "F" :: d :: r -> (M.new_fixed (zs d), r)
  | "E" :: i :: mx :: m :: r -> (M.new_expo (zs i) (zs mx) (fl m), r)
  | "R" :: mn :: mx :: r -> (M.new_random (zs mn) (zs mx), r)
  | "J" :: lo :: hi :: r ->
      (match parse_b r with
       | (Some b, r') -> (M.new_jitter b (fl lo) (fl hi), r')
       | (None, r') -> (None, r'))
  | "L" :: l :: r ->
      (match parse_b r with
       | (Some b, r') -> (M.new_limit b (zs l), r')
       | (None, r') -> (None, r'))
  | _ -> failwith "bad backoff description"

let bytes_of_hex (h0 : string) : M.z list =
  let h = String.sub h0 1 (String.length h0 - 1) in (* leading 'x' keeps the empty string visible *)
  let n = String.length h / 2 in
  List.init n (fun i -> z_of_zarith (Z.of_int (int_of_string ("0x" ^ String.sub h (2 * i) 2))))

let rec parse_layers (toks : string list) : M.layer list =
  match toks with
  | [] -> []
  | "l" :: n :: r -> M.LLimit (zs n) :: parse_layers r
  | "j" :: lo :: hi :: r -> M.LJitter (fl lo, fl hi) :: parse_layers r
  | "w" :: x :: r -> M.with_jitter (fl x) :: parse_layers r
  | _ -> failwith "bad layers"

let rec take n l = if n = 0 then ([], l) else match l with x :: r -> let (a, b) = take (n - 1) r in (x :: a, b) | [] -> ([], [])

let run (kind : string) (args : string list) : string =
  match kind, args with
  | "validate", [t; mr; tr; ow; w; iv] ->
      b2s (M.validate { M.thr = fl t; minreq = zs mr; trial = zs tr; openw = zs ow; window = zs w; interval = zs iv })
  | "newfixed", [d] -> optb (M.new_fixed (zs d))
  | "newexpo", [i; mx; m] -> optb (M.new_expo (zs i) (zs mx) (fl m))
  | "newrandom", [mn; mx] -> optb (M.new_random (zs mn) (zs mx))
  | "newjitter", [lo; hi] -> optb (M.new_jitter (M.Fixed (zs "1")) (fl lo) (fl hi))
  | "newlimit", [l] -> optb (M.new_limit (M.Fixed (zs "1")) (zs l))
  | "parseint", [h] -> (match M.parse_int (bytes_of_hex h) with Some z -> string_of_z z | None -> "err")
  | "delay", n :: p :: k :: rest ->
      let (rnd, btoks) = take (int_of_string k) rest in
      (match parse_b btoks with
       | (None, _) -> "none"
       | (Some b, _) ->
           (match M.next_delay (fl p) b (zs n) (List.map zs rnd) with
            | Some (d, _) -> string_of_z d
            | None -> "fuel"))
  | "spec", h :: pf :: ltoks ->
      let pfun = fun _ -> (match pf with "pferr" | "pfnone" -> None | bits -> Some (fl bits)) in
      (match M.build_spec pfun (bytes_of_hex h) (parse_layers ltoks) with
       | M.Ok b -> "ok " ^ desc b
       | M.Err -> "err"
       | M.Panic -> "panic")
  | "bseq", toks ->
      (* a builder call sequence: S hex pf | N | B <backoff> | l n | j lo hi | w x | D ; result = outcomes of the Builds *)
      let table = ref [] in
      let field3 (bs : M.z list) : M.z list option =
        let eq = z_of_zarith (Z.of_int 61) and colon = z_of_zarith (Z.of_int 58) in
        let rec after = function [] -> None | c :: r -> if c = eq then Some r else after r in
        match after bs with
        | None -> None
        | Some v ->
            let rec split cur acc = function
              | [] -> List.rev (List.rev cur :: acc)
              | c :: r -> if c = colon then split [] (List.rev cur :: acc) r else split (c :: cur) acc r in
            (match split [] [] v with _ :: _ :: f :: _ -> Some f | _ -> None) in
      let rec ops = function
        | [] -> []
        | "S" :: h :: pf :: r ->
            let bs = bytes_of_hex h in
            (match field3 bs, pf with
             | Some f, ("pferr" | "pfnone") -> table := (f, None) :: !table
             | Some f, bits -> table := (f, Some (fl bits)) :: !table
             | None, _ -> ());
            M.SetSpec bs :: ops r
        | "N" :: r -> M.SetBase None :: ops r
        | "B" :: r -> let (b, r') = parse_b r in M.SetBase b :: ops r'
        | "l" :: n :: r -> M.AddLayer (M.LLimit (zs n)) :: ops r
        | "j" :: lo :: hi :: r -> M.AddLayer (M.LJitter (fl lo, fl hi)) :: ops r
        | "w" :: x :: r -> M.AddLayer (M.with_jitter (fl x)) :: ops r
        | "D" :: r -> M.DoBuild :: ops r
        | t :: _ -> failwith ("bad builder op " ^ t) in
      let os = ops toks in
      let pfun f = (match List.assoc_opt f !table with Some v -> v | None -> None) in
      let (_, outs) = M.brun pfun M.binit os in
      String.concat " ; " (List.map (function M.Ok b -> "ok " ^ desc b | M.Err -> "err" | M.Panic -> "panic") outs)
  | _ -> failwith ("bad case kind " ^ kind)

let () =
  try
    while true do
      let line = input_line stdin in
      match String.split_on_char '\t' line with
      | id :: kind :: rest ->
          let toks = List.concat_map (fun s -> List.filter (fun t -> t <> "") (String.split_on_char ' ' s)) rest in
          let r = (try run kind toks with Failure m -> "driver-error:" ^ m) in
          print_string (id ^ "\t" ^ r ^ "\n")
      | _ -> ()
    done
  with End_of_file -> ()
