module github.com/valyala/fastrand

go 1.23.5
