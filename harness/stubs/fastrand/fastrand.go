// Package fastrand is the verification harness' deterministic stand-in for
// github.com/valyala/fastrand (selected by a replace directive in the harness
// go.mod, never in garr itself). Uint32 draws from Source when set.
package fastrand

import (
	"sync"
)

var (
	mu     sync.Mutex
	source func() uint32
	state  uint32 = 2463534242
)

// SetSource installs (or, with nil, removes) the function Uint32 draws from.
func SetSource(f func() uint32) {
	mu.Lock()
	source = f
	mu.Unlock()
}

// Uint32 returns the next word of the installed source, or of a xorshift PRNG.
func Uint32() uint32 {
	mu.Lock()
	defer mu.Unlock()
	if source != nil {
		return source()
	}
	x := state
	x ^= x << 13
	x ^= x >> 17
	x ^= x << 5
	state = x
	return x
}

// Uint32n returns a pseudorandom uint32 in [0, maxN).
func Uint32n(maxN uint32) uint32 {
	x := Uint32()
	return uint32((uint64(x) * uint64(maxN)) >> 32)
}

// RNG mirrors the upstream type.
type RNG struct{ x uint32 }

func (r *RNG) Uint32() uint32           { return Uint32() }
func (r *RNG) Uint32n(maxN uint32) uint32 { return Uint32n(maxN) }
func (r *RNG) Seed(seed uint32)         { r.x = seed }
