// Command volume runs the real (uninstrumented) library at sizes the controlled-schedule runs cannot reach: hundreds of
// thousands of tasks through one worker, tens of thousands of workers, thousands of window buckets, consumer storms on a
// well-filled queue.  It is a SEARCH AID (it turns a broken tie into a concrete failing input); every verdict rests on an
// assertion that holds for every schedule (no timing assumptions except generous watchdogs).
// Output: one line per test, "OK <name> ..." or "VIOL <name> | <what>".
package main

import (
	"context"
	"flag"
	"fmt"
	"os"
	"runtime"
	"strings"
	"sync"
	"sync/atomic"
	"time"

	cb "go.linecorp.com/garr/circuit-breaker"
	"go.linecorp.com/garr/queue"
	wp "go.linecorp.com/garr/worker-pool"
)

var mu sync.Mutex

func report(name, what string) {
	mu.Lock()
	defer mu.Unlock()
	if what == "" {
		fmt.Printf("OK %s\n", name)
	} else {
		fmt.Printf("VIOL %s | %s\n", name, what)
	}
}

// within runs f with a watchdog; "" or f's verdict, or the hang message.
func within(d time.Duration, hang string, f func() string) string {
	ch := make(chan string, 1)
	go func() { ch <- f() }()
	select {
	case r := <-ch:
		return r
	case <-time.After(d):
		return hang
	}
}

// ---------------------------------------------------------------- queue

// pollStorm: N elements, many consumers, nobody offers.  Poll may return nil only when the queue is (about to be) empty:
// `removed` is incremented AFTER each successful Poll, so removed + consumers < N at a nil return proves that elements were
// in the queue during the whole call.  Every element comes out once; each consumer sees increasing values (FIFO).
func pollStorm(mk func() queue.Queue, name string, n, consumers int, d time.Duration) {
	// fresh queues, round after round, until the time budget is used (a loaded machine gets fewer rounds, never a wrong verdict)
	t0 := time.Now()
	for round := 0; round == 0 || time.Since(t0) < d; round++ {
		if m := pollStormRound(mk(), n, consumers); m != "" {
			report(name, m)
			return
		}
	}
	report(name, "")
}

func pollStormRound(q queue.Queue, n, consumers int) string {
	for i := 1; i <= n; i++ {
		q.Offer(int64(i))
	}
	var removed int64
	seen := make([]int32, n+1)
	var bad atomic.Value
	var wg sync.WaitGroup
	for c := 0; c < consumers; c++ {
		wg.Add(1)
		go func() {
			defer wg.Done()
			last := int64(0)
			for {
				x := q.Poll()
				if x == nil {
					if r := atomic.LoadInt64(&removed); r+int64(consumers) < int64(n) {
						bad.Store(fmt.Sprintf("Poll returned nil although at least %d of %d elements were in the queue during the whole call", int64(n)-r-int64(consumers), n))
						return
					}
					if atomic.LoadInt64(&removed) >= int64(n) {
						return
					}
					runtime.Gosched()
					continue
				}
				v := x.(int64)
				if atomic.AddInt32(&seen[v], 1) != 1 {
					bad.Store(fmt.Sprintf("element %d was polled twice", v))
					return
				}
				if v < last {
					bad.Store(fmt.Sprintf("one consumer polled %d after %d: not first-in first-out", v, last))
					return
				}
				last = v
				atomic.AddInt64(&removed, 1)
			}
		}()
	}
	wg.Wait()
	if b := bad.Load(); b != nil {
		return b.(string)
	}
	if atomic.LoadInt64(&removed) != int64(n) {
		return fmt.Sprintf("%d of %d elements came out", removed, n)
	}
	return ""
}

// observerStorm: producers and consumers keep at least `floor` elements in the queue (avail is a lower bound of the size:
// incremented after Offer returned, decremented before Poll is called); IsEmpty / Size()==0 / Peek()==nil are then wrong.
func observerStorm(q queue.Queue, name string, d time.Duration) {
	const floor = 64
	var avail int64
	for i := 0; i < 4*floor; i++ {
		q.Offer(int64(i))
		avail++
	}
	stop := make(chan struct{})
	var bad atomic.Value
	var wg sync.WaitGroup
	for p := 0; p < 4; p++ {
		wg.Add(1)
		go func() {
			defer wg.Done()
			for i := int64(0); ; i++ {
				select {
				case <-stop:
					return
				default:
				}
				if atomic.LoadInt64(&avail) > 4096 {
					runtime.Gosched()
					continue
				}
				q.Offer(i)
				atomic.AddInt64(&avail, 1)
			}
		}()
	}
	for c := 0; c < 12; c++ {
		wg.Add(1)
		go func() {
			defer wg.Done()
			for {
				select {
				case <-stop:
					return
				default:
				}
				if atomic.AddInt64(&avail, -1) < floor {
					atomic.AddInt64(&avail, 1)
					runtime.Gosched()
					continue
				}
				if q.Poll() == nil {
					bad.Store("Poll returned nil on a queue that held at least 64 elements during the whole call")
					return
				}
			}
		}()
	}
	for o := 0; o < 6; o++ {
		wg.Add(1)
		go func(o int) {
			defer wg.Done()
			for {
				select {
				case <-stop:
					return
				default:
				}
				switch o % 3 {
				case 0:
					if q.IsEmpty() {
						bad.Store("IsEmpty() returned true on a queue that held at least 64 elements during the whole call")
						return
					}
				case 1:
					if q.Size() == 0 {
						bad.Store("Size() returned 0 on a queue that held at least 64 elements during the whole call")
						return
					}
				default:
					if q.Peek() == nil {
						bad.Store("Peek() returned nil on a queue that held at least 64 elements during the whole call")
						return
					}
				}
			}
		}(o)
	}
	t := time.After(d)
loop:
	for {
		select {
		case <-t:
			break loop
		default:
			if bad.Load() != nil {
				break loop
			}
			time.Sleep(5 * time.Millisecond)
		}
	}
	close(stop)
	wg.Wait()
	if b := bad.Load(); b != nil {
		report(name, b.(string))
		return
	}
	report(name, "")
}

// ---------------------------------------------------------------- pool

func val(i int) func(context.Context) (interface{}, error) {
	return func(context.Context) (interface{}, error) { return i, nil }
}

func expect(t *wp.Task, want int, what string) string {
	select {
	case r := <-t.Result():
		if r == nil || r.Err != nil || r.Result != want {
			return fmt.Sprintf("%s: result %+v, want value %d", what, r, want)
		}
		return ""
	case <-time.After(12 * time.Second):
		return what + ": accepted but no result arrived within 12 s"
	}
}

// manyTasks: n tasks through ONE worker, results read in order; then (gated task + one queued task) Stop must drain.
func manyTasks(name string, n int) {
	report(name, within(120*time.Second, "did not finish within 120 s", func() string {
		p := wp.NewPool(context.Background(), wp.Option{NumberWorker: 1})
		window := make([]*wp.Task, 0, 64)
		next := 0
		for i := 0; i < n; i++ {
			window = append(window, p.Execute(val(i)))
			if len(window) == cap(window) {
				for _, t := range window {
					if m := expect(t, next, fmt.Sprintf("task %d of %d through one worker", next, n)); m != "" {
						return m
					}
					next++
				}
				window = window[:0]
			}
		}
		for _, t := range window {
			if m := expect(t, next, fmt.Sprintf("task %d of %d through one worker", next, n)); m != "" {
				return m
			}
			next++
		}
		// the worker is busy with a gated task, one more task is accepted into the queue, then Stop: both must be executed
		gate := make(chan struct{})
		g := p.Execute(func(context.Context) (interface{}, error) { <-gate; return -1, nil })
		var ran int32
		var last *wp.Task
		for {
			t, ok := p.TryExecute(func(context.Context) (interface{}, error) { atomic.AddInt32(&ran, 1); return -2, nil })
			if ok {
				last = t
				break
			}
			runtime.Gosched()
		}
		done := make(chan struct{})
		go func() { p.Stop(); close(done) }()
		time.Sleep(30 * time.Millisecond)
		close(gate)
		select {
		case <-done:
		case <-time.After(20 * time.Second):
			return fmt.Sprintf("after %d tasks: Stop did not return within 20 s although every task can finish", n)
		}
		if m := expect(g, -1, "the task running at Stop"); m != "" {
			return m
		}
		select {
		case r := <-last.Result():
			if atomic.LoadInt32(&ran) != 1 || r.Err != nil {
				return fmt.Sprintf("after %d tasks: Stop returned but the task accepted before Stop was not executed (result %+v)", n, r)
			}
		default:
			return fmt.Sprintf("after %d tasks: Stop returned but the task accepted before Stop has no result", n)
		}
		return ""
	}))
}

// manyWorkers: a pool of nw fixed workers runs a few tasks and stops.
func manyWorkers(name string, nw int) {
	report(name, within(60*time.Second, fmt.Sprintf("NumberWorker=%d: did not finish within 60 s", nw), func() string {
		p := wp.NewPool(context.Background(), wp.Option{NumberWorker: nw})
		var ts []*wp.Task
		for i := 0; i < 64; i++ {
			ts = append(ts, p.Execute(val(i)))
		}
		for i, t := range ts {
			if m := expect(t, i, fmt.Sprintf("NumberWorker=%d, task %d", nw, i)); m != "" {
				return m
			}
		}
		done := make(chan struct{})
		go func() { p.Stop(); close(done) }()
		select {
		case <-done:
			return ""
		case <-time.After(15 * time.Second):
			return fmt.Sprintf("NumberWorker=%d: Stop did not return within 15 s although all 64 tasks are done", nw)
		}
	}))
}

// backpressure: every one of nw workers is busy; exactly ONE more task may wait, whatever the size of the pool.
func backpressure(name string, nw int) {
	report(name, within(90*time.Second, fmt.Sprintf("NumberWorker=%d: did not finish within 90 s", nw), func() string {
		p := wp.NewPool(context.Background(), wp.Option{NumberWorker: nw})
		gate := make(chan struct{})
		var running int32
		for i := 0; i < nw; i++ {
			p.Execute(func(context.Context) (interface{}, error) { atomic.AddInt32(&running, 1); <-gate; return 0, nil })
		}
		for t0 := time.Now(); atomic.LoadInt32(&running) < int32(nw); {
			if time.Since(t0) > 60*time.Second {
				close(gate)
				return fmt.Sprintf("NumberWorker=%d: only %d tasks were running after 60 s", nw, atomic.LoadInt32(&running))
			}
			time.Sleep(time.Millisecond)
		}
		msg := ""
		if _, ok := p.TryExecute(val(1)); !ok {
			msg = fmt.Sprintf("NumberWorker=%d, all workers busy, queue empty: TryExecute was refused (one task may wait)", nw)
		} else if _, ok := p.TryExecute(val(2)); ok {
			msg = fmt.Sprintf("NumberWorker=%d, all workers busy and one task waiting: a second TryExecute was accepted - backpressure allows ONE accepted task to wait", nw)
		} else {
			ctx, cancel := context.WithCancel(context.Background())
			t := wp.NewTask(ctx, val(3))
			ret := make(chan struct{})
			go func() { p.Do(t); close(ret) }()
			select {
			case <-ret:
				msg = fmt.Sprintf("NumberWorker=%d, all workers busy and one task waiting: Do returned although nobody can take the task - backpressure lost", nw)
			case <-time.After(200 * time.Millisecond):
			}
			cancel()
			if msg == "" {
				select {
				case <-ret:
				case <-time.After(20 * time.Second):
					msg = "a blocked Do was not released by cancelling its context (backpressure scenario)"
				}
			}
		}
		close(gate)
		p.Stop()
		return msg
	}))
}

// expandedVeteran: n tasks through ONE expanded worker (the fixed worker is parked), then a burst: never more than
// NumberWorker+ExpandableLimit tasks at once.
func expandedVeteran(name string, n int) {
	report(name, within(120*time.Second, "did not finish within 120 s", func() string {
		p := wp.NewPool(context.Background(), wp.Option{NumberWorker: 1, ExpandableLimit: 1, ExpandedLifetime: 30 * time.Second})
		gate := make(chan struct{})
		parked := make(chan struct{})
		p.Execute(func(context.Context) (interface{}, error) { close(parked); <-gate; return 0, nil })
		<-parked
		var prev *wp.Task
		for i := 0; i < n; i++ {
			t := wp.NewTask(context.Background(), val(i))
			p.Do(t)
			if prev != nil {
				if m := expect(prev, i-1, "task through the expanded worker"); m != "" {
					return m
				}
			}
			prev = t
		}
		if m := expect(prev, n-1, "task through the expanded worker"); m != "" {
			return m
		}
		var running, high int32
		gate2 := make(chan struct{})
		var wg sync.WaitGroup
		for i := 0; i < 4; i++ {
			wg.Add(1)
			go func() {
				defer wg.Done()
				t := wp.NewTask(context.Background(), func(context.Context) (interface{}, error) {
					r := atomic.AddInt32(&running, 1)
					for {
						h := atomic.LoadInt32(&high)
						if r <= h || atomic.CompareAndSwapInt32(&high, h, r) {
							break
						}
					}
					<-gate2
					atomic.AddInt32(&running, -1)
					return 1, nil
				})
				p.Do(t)
				<-t.Result()
			}()
		}
		time.Sleep(100 * time.Millisecond)
		h := atomic.LoadInt32(&high)
		close(gate2)
		close(gate)
		wg.Wait()
		p.Stop()
		if h > 1 { // the fixed worker is parked on the first task: one expanded worker is all there may be
			return fmt.Sprintf("after %d tasks through one expanded worker, %d burst tasks ran at once next to the parked fixed worker: the cap NumberWorker+ExpandableLimit = 2 allows 1", n, h)
		}
		return ""
	}))
}

// ---------------------------------------------------------------- sliding window

type tick struct{ t int64 }

func (k *tick) Tick() int64 { return atomic.LoadInt64(&k.t) }

type rb struct{ ts, s, f int64 }

// windowScript: one goroutine, one event per tick for n ticks (window w, interval 1), every returned count compared with
// the plain reference window; then a jump beyond the window.
func windowScript(name string, n int, w int64) {
	tk := &tick{}
	c, err := cb.NewSlidingWindowCounter(tk, time.Duration(w), 1)
	if err != nil {
		report(name, "constructor: "+err.Error())
		return
	}
	cur := rb{ts: 0}
	var res []rb
	step := func(t int64, succ bool) string {
		atomic.StoreInt64(&tk.t, t)
		var got *cb.EventCount
		if succ {
			got = c.OnSuccess()
		} else {
			got = c.OnFailure()
		}
		add := func(b *rb) {
			if succ {
				b.s++
			} else {
				b.f++
			}
		}
		if t < cur.ts+1 {
			add(&cur)
			if got != nil {
				return fmt.Sprintf("tick %d: a count was returned without a roll", t)
			}
			return ""
		}
		nb := rb{ts: t}
		add(&nb)
		res = append(res, cur)
		cur = nb
		var keep []rb
		var s, f int64
		for _, b := range res {
			if b.ts < t-w {
				continue
			}
			keep = append(keep, b)
			s += b.s
			f += b.f
		}
		res = keep
		if got == nil || got.Success() != s || got.Failure() != f {
			return fmt.Sprintf("window %d, interval 1, one event per tick: the roll at tick %d reported %v, the events inside the window are (%d,%d)", w, t, got, s, f)
		}
		if cc := c.Count(); cc.Success() != s || cc.Failure() != f {
			return fmt.Sprintf("Count() after the roll at tick %d is %v, want (%d,%d)", t, cc, s, f)
		}
		return ""
	}
	for i := 1; i <= n; i++ {
		if m := step(int64(i), i%3 != 0); m != "" {
			report(name, m)
			return
		}
	}
	for _, t := range []int64{int64(n) + 10*w + 5, int64(n) + 10*w + 6} {
		if m := step(t, false); m != "" {
			report(name, m+" (after a gap longer than the window)")
			return
		}
	}
	report(name, "")
}

func main() {
	kinds := flag.String("kinds", "queue,pool,window", "queue,pool,window")
	flag.Parse()
	for _, k := range strings.Split(*kinds, ",") {
		switch k {
		case "queue":
			jdk := func() queue.Queue { return queue.NewJDKLinkedQueue() }
			pollStorm(jdk, "queue/poll-storm-jdk-16", 300000, 16, 1500*time.Millisecond)
			pollStorm(jdk, "queue/poll-storm-jdk-48", 200000, 48, 1500*time.Millisecond)
			pollStorm(func() queue.Queue { return queue.NewMutexLinkedQueue() }, "queue/poll-storm-mutex", 100000, 8, 0)
			observerStorm(queue.NewJDKLinkedQueue(), "queue/observer-storm-jdk", 2500*time.Millisecond)
			observerStorm(queue.NewMutexLinkedQueue(), "queue/observer-storm-mutex", 300*time.Millisecond)
		case "pool":
			var wg sync.WaitGroup
			for _, f := range []func(){
				func() { manyTasks("pool/one-worker-70000-tasks", 70000) },
				func() { manyTasks("pool/one-worker-2^20-tasks", 1<<20+64) },
				func() { manyTasks("pool/one-worker-65535-tasks", 65535) },
				func() { manyWorkers("pool/1024-workers", 1024) },
				func() { manyWorkers("pool/16387-workers", 16387) },
				func() { manyWorkers("pool/40000-workers", 40000) },
				func() { expandedVeteran("pool/expanded-worker-70000-tasks", 70000) },
				func() { backpressure("pool/backpressure-8-workers", 8) },
				func() { backpressure("pool/backpressure-70000-workers", 70000) },
			} {
				wg.Add(1)
				go func(f func()) { defer wg.Done(); f() }(f)
			}
			wg.Wait()
		case "window":
			windowScript("window/700-buckets", 700, 2000)
			windowScript("window/1500-buckets", 1500, 2000)
			windowScript("window/6000-buckets", 6000, 1000000)
		}
	}
	os.Stdout.Sync()
}
