package main

import (
	"reflect"
	"unsafe"
)

// unsafePointer returns the address of an (unexported, addressable) field value.
func unsafePointer(v reflect.Value) unsafe.Pointer { return unsafe.Pointer(v.UnsafeAddr()) }
