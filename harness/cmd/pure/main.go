// Command pure drives the Tier-2 (pure value code) correspondence: it
// generates cases, runs them on the real garr code and writes
//
//	<out>/cases.tsv   id, kind, args        (input of the extracted Coq model)
//	<out>/impl.tsv    id, implementation result
//	<out>/stats.json  input distribution
package main

import (
	"runtime"
	"sync"
	"bufio"
	"encoding/hex"
	"encoding/json"
	"flag"
	"fmt"
	"math"
	"os"
	"reflect"
	"strconv"
	"strings"

	"github.com/valyala/fastrand"
	cb "go.linecorp.com/garr/circuit-breaker"
	"go.linecorp.com/garr/retry"
	"time"
	"verif/harness/internal/gen"
)

var (
	cases *bufio.Writer
	impl  *bufio.Writer
	nid   int
	stats = map[string]int{}
)

func emit(kind, args, res string) {
	nid++
	fmt.Fprintf(cases, "%d\t%s\t%s\n", nid, kind, args)
	fmt.Fprintf(impl, "%d\t%s\n", nid, res)
	stats["kind:"+kind]++
}

func b2s(b bool) string {
	if b {
		return "1"
	}
	return "0"
}

func fb(f float64) string { return strconv.FormatUint(gen.Bits(f), 10) }

// ---------- C20: constructors ----------

func validate(thr float64, mr, tr, ow, w, iv int64) bool {
	_, err := cb.NewCircuitBreakerBuilder().
		SetFailureRateThreshold(thr).SetMinimumRequestThreshold(mr).
		SetTrialRequestInterval(time.Duration(tr)).SetCircuitOpenWindow(time.Duration(ow)).
		SetCounterSlidingWindow(time.Duration(w)).SetCounterUpdateInterval(time.Duration(iv)).Build()
	return err == nil
}

func genValidate(r *gen.Rand, n int) {
	// the read side of a configuration (the only one a client can make itself is the zero value)
	z := &cb.CircuitBreakerConfig{}
	okz := z.GetName() == nil && z.GetFailureRateThreshold() == 0 && z.GetMinimumRequestThreshold() == 0 && z.GetTrialRequestInterval() == 0 &&
		z.GetCircuitOpenWindow() == 0 && z.GetCounterSlidingWindow() == 0 && z.GetCounterUpdateInterval() == 0 && len(z.Getlisteners()) == 0 &&
		strings.Contains(z.String(), "failureRateThreshold: 0.000") && z.Validate() != nil
	emit("apicheck", "zero-config-getters", b2s(okz))
	durs := []int64{-1, 0, 1, 2, 3, 1000, math.MaxInt64, math.MaxInt64 - 1, math.MinInt64}
	// every palette threshold with a valid and a few invalid duration tuples
	for _, thr := range gen.Float64Palette {
		emit("validate", fmt.Sprintf("%s 10 1 1 2 1", fb(thr)), b2s(validate(thr, 10, 1, 1, 2, 1)))
	}
	// boundary product over the durations with a valid threshold
	for _, tr := range durs {
		for _, ow := range durs {
			for _, w := range []int64{-1, 0, 1, 2, 3, math.MaxInt64} {
				for _, iv := range []int64{-1, 0, 1, 2, 3, math.MaxInt64} {
					emit("validate", fmt.Sprintf("%s 10 %d %d %d %d", fb(0.5), tr, ow, w, iv), b2s(validate(0.5, 10, tr, ow, w, iv)))
				}
			}
		}
	}
	for i := 0; i < n; i++ {
		thr := r.Float64()
		mr, tr, ow, w, iv := r.Int64(), r.Int64(), r.Int64(), r.Int64(), r.Int64()
		if r.Intn(3) > 0 { // mostly valid durations so that the threshold decides
			tr, ow, iv = r.NonNeg()|1, r.NonNeg()|1, r.NonNeg()%1000+1
			w = iv + int64(r.Intn(3)) - 1 + int64(r.Intn(2))*1000
		}
		res := validate(thr, mr, tr, ow, w, iv)
		stats["validate:accept="+b2s(res)]++
		emit("validate", fmt.Sprintf("%s %d %d %d %d %d", fb(thr), mr, tr, ow, w, iv), b2s(res))
	}
}

// viaBuilder answers the same accept/reject question through the documented builder: the configuration is
// built several times from ONE builder; every Build must give the constructor's answer and an accepted
// policy must be usable (a typed-nil or half-built policy shows as "unusable" / "inconsistent").
func viaBuilder(conf func(*retry.BackoffBuilder)) string {
	b := retry.NewBackoffBuilder()
	conf(b)
	ans := ""
	for k := 0; k < 3; k++ {
		bo, err := b.Build()
		a := b2s(false)
		if err == nil {
			a = b2s(true)
			func() {
				defer func() {
					if recover() != nil {
						a = "unusable"
					}
				}()
				if bo == nil {
					a = "unusable"
					return
				}
				bo.NextDelayMillis(1)
			}()
		}
		if k > 0 && a != ans {
			return fmt.Sprintf("inconsistent(build1=%s,build%d=%s)", ans, k+1, a)
		}
		ans = a
	}
	return ans
}

func ff(m float64) string { return strconv.FormatFloat(m, 'g', -1, 64) }

func genCtors(r *gen.Rand, n int) {
	// wrappers need something to wrap
	lb, e1 := retry.NewAttemptLimitingBackoff(nil, 3)
	jb, e2 := retry.NewJitterAddingBackoff(nil, 0, 0.5)
	emit("apicheck", "nil-delegate-refused", b2s(e1 != nil && e2 != nil && lb == nil && jb == nil))
	ints := []int64{math.MinInt64, -2, -1, 0, 1, 2, 200, 10000, math.MaxInt64 - 1, math.MaxInt64}
	for _, i := range ints {
		_, e := retry.NewFixedBackoff(i)
		emit("newfixed", fmt.Sprint(i), b2s(e == nil))
		emit("newfixed", fmt.Sprint(i), viaBuilder(func(b *retry.BackoffBuilder) { b.BaseBackoffSpec(fmt.Sprintf("fixed=%d", i)) }))
		emit("newfixed", fmt.Sprint(i), viaBuilder(func(b *retry.BackoffBuilder) { b.BaseBackoffSpec(fmt.Sprintf("fixed=%d", i)).WithLimit(3).WithJitter(0.2) }))
		_, e = retry.NewAttemptLimitingBackoff(retry.NoDelayBackoff, int(i))
		emit("newlimit", fmt.Sprint(i), b2s(e == nil))
		emit("newlimit", fmt.Sprint(i), viaBuilder(func(b *retry.BackoffBuilder) { b.BaseBackoff(retry.NoDelayBackoff).WithLimit(int(i)) }))
		emit("newlimit", fmt.Sprint(i), viaBuilder(func(b *retry.BackoffBuilder) { b.BaseBackoffSpec("fixed=5").WithJitter(0.1).WithLimit(int(i)) }))
		// the layer under test BELOW acceptable ones: its refusal must still be Build's answer
		emit("newlimit", fmt.Sprint(i), viaBuilder(func(b *retry.BackoffBuilder) { b.BaseBackoffSpec("fixed=5").WithLimit(int(i)).WithJitter(0.1) }))
		emit("newlimit", fmt.Sprint(i), viaBuilder(func(b *retry.BackoffBuilder) { b.BaseBackoff(retry.NoDelayBackoff).WithLimit(int(i)).WithLimit(7).WithJitterBound(0, 0.5) }))
		for _, mx := range ints {
			_, e := retry.NewRandomBackoff(i, mx)
			emit("newrandom", fmt.Sprintf("%d %d", i, mx), b2s(e == nil))
			emit("newrandom", fmt.Sprintf("%d %d", i, mx), viaBuilder(func(b *retry.BackoffBuilder) { b.BaseBackoffSpec(fmt.Sprintf("random=%d:%d", i, mx)).WithLimit(2) }))
			for _, m := range gen.Float64Palette {
				_, e := retry.NewExponentialBackoff(i, mx, m)
				emit("newexpo", fmt.Sprintf("%d %d %s", i, mx, fb(m)), b2s(e == nil))
				if r.Intn(4) == 0 {
					emit("newexpo", fmt.Sprintf("%d %d %s", i, mx, fb(m)), viaBuilder(func(b *retry.BackoffBuilder) {
						b.BaseBackoffSpec(fmt.Sprintf("exponential=%d:%d:%s", i, mx, ff(m))).WithJitter(0.3)
					}))
				}
			}
		}
	}
	one, _ := retry.NewFixedBackoff(1)
	for _, lo := range gen.Float64Palette {
		for _, hi := range gen.Float64Palette {
			_, e := retry.NewJitterAddingBackoff(one, lo, hi)
			emit("newjitter", fmt.Sprintf("%s %s", fb(lo), fb(hi)), b2s(e == nil))
			if r.Intn(3) == 0 {
				emit("newjitter", fmt.Sprintf("%s %s", fb(lo), fb(hi)), viaBuilder(func(b *retry.BackoffBuilder) { b.BaseBackoffSpec("fixed=1").WithJitterBound(lo, hi) }))
				emit("newjitter", fmt.Sprintf("%s %s", fb(lo), fb(hi)), viaBuilder(func(b *retry.BackoffBuilder) { b.BaseBackoffSpec("fixed=1").WithJitterBound(lo, hi).WithLimit(4) }))
				emit("newjitter", fmt.Sprintf("%s %s", fb(lo), fb(hi)), viaBuilder(func(b *retry.BackoffBuilder) { b.BaseBackoffSpec("fixed=1").WithLimit(2).WithJitterBound(lo, hi).WithJitter(0.5) }))
			}
		}
	}
	for k := 0; k < n; k++ {
		i, mx, m := r.Int64(), r.Int64(), r.Float64()
		_, e := retry.NewExponentialBackoff(i, mx, m)
		stats["newexpo:accept="+b2s(e == nil)]++
		emit("newexpo", fmt.Sprintf("%d %d %s", i, mx, fb(m)), b2s(e == nil))
		lo, hi := r.Float64(), r.Float64()
		_, e = retry.NewJitterAddingBackoff(one, lo, hi)
		stats["newjitter:accept="+b2s(e == nil)]++
		emit("newjitter", fmt.Sprintf("%s %s", fb(lo), fb(hi)), b2s(e == nil))
		a, b := r.Int64(), r.Int64()
		_, e = retry.NewRandomBackoff(a, b)
		emit("newrandom", fmt.Sprintf("%d %d", a, b), b2s(e == nil))
	}
}

// ---------- C05: delays ----------

type bdesc struct {
	toks string
	b    retry.Backoff
	ok   bool
	m    float64 // multiplier of the exponential base (0 if none)
	lim  []int
	via  string // how the backoff was obtained: ctor, builder-base, builder-spec (x number of Build calls)
}

func jrate(r *gen.Rand) float64 {
	switch r.Intn(8) {
	case 0:
		return -1
	case 1:
		return 1
	case 2:
		return 0
	case 3:
		return gen.Float64Palette[r.Intn(len(gen.Float64Palette))]
	default:
		return r.Float01()*2 - 1
	}
}

func genBackoff(r *gen.Rand) bdesc {
	var d bdesc
	d.ok = true
	d.via = "ctor"
	var err error
	spec := ""
	bld := retry.NewBackoffBuilder()
	switch r.Intn(3) {
	case 0:
		v := r.NonNeg()
		if r.Intn(12) == 0 {
			v = r.Int64()
		}
		d.toks = fmt.Sprintf("F %d", v)
		spec = fmt.Sprintf("fixed=%d", v)
		d.b, err = retry.NewFixedBackoff(v)
	case 1:
		i, mx := r.NonNeg(), r.NonNeg()
		if r.Intn(4) > 0 && i > mx {
			i, mx = mx, i
		}
		m := []float64{2, 1.5, 1.0000001, math.Nextafter(1, 2), 3, 10, 1e10, 1e300, math.Inf(1), 1.1}[r.Intn(10)]
		if r.Intn(6) == 0 {
			m = r.Float64()
		}
		d.m = m
		d.toks = fmt.Sprintf("E %d %d %s", i, mx, fb(m))
		spec = fmt.Sprintf("exponential=%d:%d:%s", i, mx, strconv.FormatFloat(m, 'g', -1, 64))
		d.b, err = retry.NewExponentialBackoff(i, mx, m)
	default:
		mn, mx := r.NonNeg(), r.NonNeg()
		if r.Intn(4) > 0 && mn > mx {
			mn, mx = mx, mn
		}
		if r.Intn(5) == 0 {
			mx = mn + int64(r.Intn(4))
			if mx < mn {
				mx = mn
			}
		}
		if r.Intn(4) == 0 {
			// boundary pairs of the range first: widest range, adjacent values, both ends of int64
			pairs := [][2]int64{{0, math.MaxInt64}, {0, math.MaxInt64 - 1}, {1, math.MaxInt64}, {math.MaxInt64 - 1, math.MaxInt64},
				{math.MaxInt64, math.MaxInt64}, {0, 0}, {0, 1}, {0, 2}, {1, 2}, {5, 6}, {0, 1 << 32}, {1 << 62, math.MaxInt64}, {0, 1 << 62}}
			pr := pairs[r.Intn(len(pairs))]
			mn, mx = pr[0], pr[1]
		}
		d.toks = fmt.Sprintf("R %d %d", mn, mx)
		spec = fmt.Sprintf("random=%d:%d", mn, mx)
		d.b, err = retry.NewRandomBackoff(mn, mx)
	}
	if err != nil {
		d.ok = false
		return d
	}
	base := d.b
	nl := r.Intn(4)
	if r.Intn(6) == 0 {
		nl = 4 + r.Intn(14) // deep stacks: "all layerings built by the builder", far beyond any initial capacity
		stats["delay:deep-stack"]++
	}
	for l := nl; l > 0; l-- {
		if r.Bool() {
			lim := 1 + r.Intn(6)
			if r.Intn(10) == 0 {
				lim = int(r.Int64())
			}
			d.toks = fmt.Sprintf("L %d %s", lim, d.toks)
			nb, e := retry.NewAttemptLimitingBackoff(d.b, lim)
			if e != nil {
				d.ok = false
				return d
			}
			d.b = nb
			d.lim = append(d.lim, lim)
			bld.WithLimit(lim)
		} else {
			lo, hi := jrate(r), jrate(r)
			if r.Intn(4) > 0 && lo > hi {
				lo, hi = hi, lo
			}
			d.toks = fmt.Sprintf("J %s %s %s", fb(lo), fb(hi), d.toks)
			nb, e := retry.NewJitterAddingBackoff(d.b, lo, hi)
			if e != nil {
				d.ok = false
				return d
			}
			d.b = nb
			bld.WithJitterBound(lo, hi)
		}
	}
	// the documented way to compose policies is the builder: the same composition, built once or several times
	// from one builder (every Build must give the policy described by d.toks), replaces the direct construction
	if k := r.Intn(5); k > 0 {
		if k%2 == 0 {
			bld.BaseBackoff(base)
			d.via = "builder-base"
		} else {
			bld.BaseBackoffSpec(spec)
			d.via = "builder-spec"
		}
		n := 1 + r.Intn(3)
		d.via += fmt.Sprintf("x%d", n)
		for ; n > 0; n-- {
			nb, e := bld.Build()
			if e != nil || nb == nil {
				d.b = nil
				return d
			}
			d.b = nb
		}
	}
	return d
}

func genDelay(r *gen.Rand, n int) {
	attempts := []int{1, 2, 3, 4, 5, 6, 7, 10, 31, 32, 33, 63, 64, 65, 100, 1023, 1024, 1025, 1026, 1027, 2000, math.MaxInt32, math.MaxInt64, 0, -1}
	for k := 0; k < n; k++ {
		d := genBackoff(r)
		for rep := 0; rep < 3; rep++ {
			att := attempts[r.Intn(len(attempts)-2)]
			if r.Intn(40) == 0 {
				att = attempts[len(attempts)-1-r.Intn(2)]
			}
			if len(d.lim) > 0 && r.Intn(3) == 0 {
				att = d.lim[r.Intn(len(d.lim))] + r.Intn(3) - 1
			}
			words := make([]uint32, 12)
			for i := range words {
				switch r.Intn(6) {
				case 0:
					words[i] = 0
				case 1:
					words[i] = 0xFFFFFFFF
				case 2:
					words[i] = uint32(r.Intn(4))
				default:
					words[i] = r.U32()
				}
			}
			pow := 0.0
			if d.m != 0 {
				pow = math.Pow(d.m, float64(att-1))
			}
			var sb strings.Builder
			fmt.Fprintf(&sb, "%d %s %d", att, fb(pow), len(words))
			for _, w := range words {
				fmt.Fprintf(&sb, " %d", w)
			}
			sb.WriteString(" " + d.toks)
			res := "none"
			if d.ok {
				idx := 0
				fastrand.SetSource(func() uint32 {
					if idx < len(words) {
						idx++
						return words[idx-1]
					}
					return 0
				})
				if d.b == nil {
					fastrand.SetSource(nil)
					stats["delay:builder-refused"]++
					emit("delay", sb.String(), "builder-refused("+d.via+")")
					break
				}
				stats["delay:via-"+strings.SplitN(d.via, "x", 2)[0]]++
				v := d.b.NextDelayMillis(att)
				fastrand.SetSource(nil)
				res = fmt.Sprint(v)
				switch {
				case v < 0:
					stats["delay:stop"]++
				case v == math.MaxInt64:
					stats["delay:saturated"]++
				default:
					stats["delay:value"]++
				}
			} else {
				stats["delay:ctor-rejected"]++
			}
			emit("delay", sb.String(), res)
			if !d.ok {
				break
			}
		}
	}
}

// genShared: one deterministic policy object queried by several goroutines at once, each with its own attempt
// number; every answer must be the one the same object gives sequentially (emitted as an ordinary "delay" case, so
// the model and the envelope judge it). Policies are documented as safe for concurrent use.
func genShared(r *gen.Rand, n int) {
	for k := 0; k < n; k++ {
		i := int64(1 + r.Intn(1000))
		mx := i * int64(1+r.Intn(1<<20))
		m := []float64{2, 1.5, 3, 1.1, 10}[r.Intn(5)]
		var b retry.Backoff
		eb, err := retry.NewExponentialBackoff(i, mx, m)
		if err != nil {
			continue
		}
		b = eb
		toks := fmt.Sprintf("E %d %d %s", i, mx, fb(m))
		if r.Bool() {
			lim := 5 + r.Intn(20)
			lb, e := retry.NewAttemptLimitingBackoff(b, lim)
			if e != nil {
				continue
			}
			b = lb
			toks = fmt.Sprintf("L %d %s", lim, toks)
		}
		const workers, rounds = 4, 4000
		atts := make([]int, workers)
		for w := range atts {
			atts[w] = 2 + r.Intn(12)
		}
		bad := make([]int64, workers)
		seen := make([]bool, workers)
		var wg sync.WaitGroup
		for w := 0; w < workers; w++ {
			wg.Add(1)
			go func(w int) {
				defer wg.Done()
				first := b.NextDelayMillis(atts[w])
				for j := 0; j < rounds; j++ {
					if v := b.NextDelayMillis(atts[w]); v != first && !seen[w] {
						bad[w], seen[w] = v, true
					}
					if j%97 == 0 {
						runtime.Gosched() // keeps the callers interleaved on a loaded machine
					}
				}
				if !seen[w] {
					bad[w] = first
				}
			}(w)
		}
		wg.Wait()
		stats["delay:shared"]++
		for w := 0; w < workers; w++ {
			pow := math.Pow(m, float64(atts[w]-1))
			emit("delay", fmt.Sprintf("%d %s 0 %s", atts[w], fb(pow), toks), fmt.Sprint(bad[w]))
		}
	}
}

// ---------- C18: spec strings ----------

func describe(b retry.Backoff) string {
	v := reflect.ValueOf(b)
	if v.Kind() == reflect.Ptr {
		v = v.Elem()
	}
	f := func(name string) reflect.Value { return v.FieldByName(name) }
	sub := func(name string) string {
		d := f(name)
		// unexported interface field: rebuild an addressable view to reach the delegate
		return describe(reflect.NewAt(d.Type(), unsafePointer(d)).Elem().Interface().(retry.Backoff))
	}
	switch v.Type().Name() {
	case "FixedBackoff":
		return fmt.Sprintf("F %d", f("delayMillis").Int())
	case "ExponentialBackoff":
		return fmt.Sprintf("E %d %d %s", f("initialDelayMillis").Int(), f("maxDelayMillis").Int(), fb(f("multiplier").Float()))
	case "RandomBackoff":
		return fmt.Sprintf("R %d %d %d", f("minDelayMillis").Int(), f("maxDelayMillis").Int(), f("bound").Int())
	case "JitterAddingBackoff":
		return fmt.Sprintf("J %s %s (%s)", fb(f("minJitterRate").Float()), fb(f("maxJitterRate").Float()), sub("delegate"))
	case "AttemptLimitingBackoff":
		return fmt.Sprintf("L %d (%s)", f("limit").Int(), sub("delegate"))
	}
	return "unknown-type:" + v.Type().String()
}

func numField(r *gen.Rand, float bool) string {
	switch r.Intn(12) {
	case 0:
		return ""
	case 1:
		return "+" + fmt.Sprint(r.NonNeg())
	case 2:
		return "9223372036854775808"
	case 3:
		return "-9223372036854775809"
	case 4:
		return "00" + fmt.Sprint(r.Intn(1000))
	case 5:
		if float {
			return []string{"NaN", "nan", "Inf", "+Inf", "-inf", "1e3", "0x1p4", "1_000.5", "1.0000000000000002", ".5", "5.", "1e400", "infinity"}[r.Intn(13)]
		}
		return []string{"1e3", "0x10", "1_000", " 1", "1 ", "٣", "-", "+", "--1", "1.0", "9223372036854775807", "-9223372036854775808", "99999999999999999999"}[r.Intn(13)]
	case 6:
		if float {
			return strconv.FormatFloat(r.Float64(), 'g', -1, 64)
		}
		return fmt.Sprint(r.Int64())
	default:
		if float {
			return strconv.FormatFloat(1+r.Float01()*4, 'g', -1, 64)
		}
		return fmt.Sprint(r.Intn(20000))
	}
}

func genSpecString(r *gen.Rand) string {
	var s string
	switch r.Intn(10) {
	case 0, 1:
		s = "fixed=" + numField(r, false)
	case 2, 3, 4:
		s = "random=" + numField(r, false) + ":" + numField(r, false)
	case 5, 6, 7:
		s = "exponential=" + numField(r, false) + ":" + numField(r, false) + ":" + numField(r, true)
	case 8:
		s = []string{"", "=", "fixed", "fixed=", "random=", "random=:", "exponential=::", "exponential=:", "exponential=:::", "Fixed=1", "fixed =1", "fixed==1", "random=1:2:3", "=fixed=1", "exp=1:2:3", "fixed=1=2", "random=:=", "exponential=1:2:=3"}[r.Intn(18)]
	default:
		b := make([]byte, r.Intn(24))
		for i := range b {
			const alpha = "=:fixedrandomexponential0123456789+-.eE_ \x00\xff"
			b[i] = alpha[r.Intn(len(alpha))]
		}
		s = string(b)
	}
	// mutate
	for m := r.Intn(3); m > 0 && r.Intn(3) == 0; m-- {
		b := []byte(s)
		if len(b) == 0 {
			break
		}
		p := r.Intn(len(b))
		switch r.Intn(4) {
		case 0:
			b = append(b[:p], b[p+1:]...)
		case 1:
			b = append(b[:p+1], b[p:]...)
		case 2:
			b[p] = "=:+-0 _\x00"[r.Intn(8)]
		default:
			b[p] = byte(r.Intn(256))
		}
		s = string(b)
	}
	return s
}

func genSpec(r *gen.Rand, n int) {
	for k := 0; k < n; k++ {
		s := genSpecString(r)
		bld := retry.NewBackoffBuilder()
		// the specification in force is the last one given: a third of the builders are given another one first
		// (always when the spec under test is the empty string, which must not let an earlier one survive)
		if s == "" || r.Intn(3) == 0 {
			bld.BaseBackoffSpec([]string{"fixed=7", "random=1:9", "exponential=10:100:3", "bogus", ""}[r.Intn(5)])
			stats["spec:set-twice"]++
		}
		bld.BaseBackoffSpec(s)
		var lt []string
		for l := r.Intn(3); l > 0; l-- {
			switch r.Intn(3) {
			case 0:
				lim := 1 + r.Intn(5) - r.Intn(2)*r.Intn(3)
				bld.WithLimit(lim)
				lt = append(lt, fmt.Sprintf("l %d", lim))
			case 1:
				lo, hi := jrate(r), jrate(r)
				if r.Intn(3) > 0 && lo > hi {
					lo, hi = hi, lo
				}
				bld.WithJitterBound(lo, hi)
				lt = append(lt, fmt.Sprintf("j %s %s", fb(lo), fb(hi)))
			default:
				x := jrate(r)
				bld.WithJitter(x)
				lt = append(lt, fmt.Sprintf("w %s", fb(x)))
			}
		}
		// the ParseFloat oracle value for the third ':' field after the first '='
		pfOf := func(s string) string {
			if i := strings.Index(s, "="); i >= 0 {
				if fs := strings.Split(s[i+1:], ":"); len(fs) >= 3 {
					if f, err := strconv.ParseFloat(fs[2], 64); err != nil {
						return "pferr"
					} else {
						return fb(f)
					}
				}
			}
			return "pfnone"
		}
		build := func() (res string) {
			defer func() {
				if rec := recover(); rec != nil {
					res = "panic"
				}
			}()
			b, err := bld.Build()
			if err != nil {
				return "err"
			}
			first := describe(b)
			// the builder is reusable: building again must give the same backoff (layers applied once, in order)
			b2, err2 := bld.Build()
			if err2 != nil {
				return "rebuild-err after ok " + first
			}
			if second := describe(b2); second != first {
				return "rebuild-differs " + first + " | " + second
			}
			return "ok " + first
		}
		pf := pfOf(s)
		res := build()
		stats["spec:"+strings.SplitN(res, " ", 2)[0]]++
		emit("spec", "x"+hex.EncodeToString([]byte(s))+"\t"+pf+"\t"+strings.Join(lt, " "), res)
		// ... and re-configurable: a builder that has already built is given ANOTHER specification; what it builds
		// from then on is decided by that specification alone (same layers)
		if r.Intn(3) == 0 {
			s2 := genSpecString(r)
			bld.BaseBackoffSpec(s2)
			res2 := build()
			stats["spec:respecified"]++
			emit("spec", "x"+hex.EncodeToString([]byte(s2))+"\t"+pfOf(s2)+"\t"+strings.Join(lt, " "), res2)
		}
	}
}

// genBuilderSeq: the builder as an object with a history - random CALL SEQUENCES (specifications, explicit and nil bases,
// layers, Builds in any order and number); the outcome of every Build is compared with the builder machine of the model.
func genBuilderSeq(r *gen.Rand, n int) {
	pfOf := func(s string) string {
		if i := strings.Index(s, "="); i >= 0 {
			if fs := strings.Split(s[i+1:], ":"); len(fs) >= 3 {
				if f, err := strconv.ParseFloat(fs[2], 64); err != nil {
					return "pferr"
				} else {
					return fb(f)
				}
			}
		}
		return "pfnone"
	}
	validSpecs := []string{"fixed=7", "fixed=", "random=1:9", "random=:", "exponential=10:100:3", "exponential=::", "exponential=5:50:1.5"}
	type bsq struct {
		bld    *retry.BackoffBuilder
		toks   []string
		outs   []string
		builds int
	}
	// one builder call, chosen by c (0-2 spec, 3 base, 4 nil base, 5 limit, 6 jitter bound, 7 jitter, 8+ Build; 20 = a valid
	// layer, 21 = an INVALID layer); a configuration call that panics is recorded as an extra outcome (the model has none)
	var apply func(st *bsq, c int)
	apply = func(st *bsq, c int) {
		safe := func(f func()) {
			defer func() {
				if rec := recover(); rec != nil {
					st.outs = append(st.outs, fmt.Sprintf("panic in a configuration call (%v)", rec))
				}
			}()
			f()
		}
		bld := st.bld
		switch {
		case c < 3: // a specification: mostly valid ones, so that there is a remembered base to go stale
			sp := validSpecs[r.Intn(len(validSpecs))]
			if r.Intn(3) == 0 {
				sp = genSpecString(r)
			}
			safe(func() { bld.BaseBackoffSpec(sp) })
			st.toks = append(st.toks, "S", "x"+hex.EncodeToString([]byte(sp)), pfOf(sp))
		case c == 3: // an explicit base
			d := int64(r.Intn(1000))
			fx, _ := retry.NewFixedBackoff(d)
			safe(func() { bld.BaseBackoff(fx) })
			st.toks = append(st.toks, "B", "F", fmt.Sprint(d))
		case c == 4:
			safe(func() { bld.BaseBackoff(nil) })
			st.toks = append(st.toks, "N")
		case c == 5:
			lim := 1 + r.Intn(5) - r.Intn(2)*r.Intn(3)
			safe(func() { bld.WithLimit(lim) })
			st.toks = append(st.toks, "l", fmt.Sprint(lim))
		case c == 6:
			lo, hi := jrate(r), jrate(r)
			if r.Intn(3) > 0 && lo > hi {
				lo, hi = hi, lo
			}
			bld.WithJitterBound(lo, hi)
			st.toks = append(st.toks, "j", fb(lo), fb(hi))
		case c == 7:
			x := jrate(r)
			bld.WithJitter(x)
			st.toks = append(st.toks, "w", fb(x))
		case c == 20: // a layer every constructor accepts
			switch r.Intn(3) {
			case 0:
				lim := 1 + r.Intn(9)
				bld.WithLimit(lim)
				st.toks = append(st.toks, "l", fmt.Sprint(lim))
			case 1:
				lo, hi := []float64{-1, -0.5, 0, 0}[r.Intn(4)], []float64{0, 0.25, 1, 0.5}[r.Intn(4)]
				bld.WithJitterBound(lo, hi)
				st.toks = append(st.toks, "j", fb(lo), fb(hi))
			default:
				x := []float64{0, 0.1, 0.5, 1, -0.3}[r.Intn(5)]
				bld.WithJitter(x)
				st.toks = append(st.toks, "w", fb(x))
			}
		case c == 21: // a layer its constructor refuses
			switch r.Intn(4) {
			case 0:
				lim := -r.Intn(3)
				bld.WithLimit(lim)
				st.toks = append(st.toks, "l", fmt.Sprint(lim))
			case 1:
				lo, hi := []float64{0.5, -2, 0, math.NaN()}[r.Intn(4)], []float64{-0.5, 0, 1.5, 0.5}[r.Intn(4)]
				bld.WithJitterBound(lo, hi)
				st.toks = append(st.toks, "j", fb(lo), fb(hi))
			default:
				x := []float64{1.5, -1.01, math.NaN(), math.Inf(1), 2}[r.Intn(5)]
				bld.WithJitter(x)
				st.toks = append(st.toks, "w", fb(x))
			}
		default:
			st.builds++
			st.toks = append(st.toks, "D")
			st.outs = append(st.outs, func() (res string) {
				defer func() {
					if recover() != nil {
						res = "panic"
					}
				}()
				b, err := bld.Build()
				if err != nil {
					return "err"
				}
				return "ok " + describe(b)
			}())
		}
	}
	flush := func(st *bsq) {
		stats["bseq:builds"] += st.builds
		emit("bseq", strings.Join(st.toks, " "), strings.Join(st.outs, " ; "))
	}
	for k := 0; k < n; k++ {
		switch k % 8 {
		case 1: // deep stacks: many more layers than any initial capacity, mostly acceptable ones, built (twice)
			st := &bsq{bld: retry.NewBackoffBuilder()}
			apply(st, r.Intn(4))
			for depth := 5 + r.Intn(16); depth > 0; depth-- {
				if r.Intn(12) == 0 {
					apply(st, 5+r.Intn(3))
				} else {
					apply(st, 20)
				}
				if r.Intn(9) == 0 {
					apply(st, 8)
				}
			}
			apply(st, 8)
			if r.Intn(2) == 0 {
				apply(st, 20)
				apply(st, 8)
			}
			stats["bseq:deep"]++
			flush(st)
		case 3: // a refused layer anywhere in the stack - below acceptable ones, between them, on top: Build answers with its error
			st := &bsq{bld: retry.NewBackoffBuilder()}
			apply(st, r.Intn(4))
			for j := r.Intn(3); j > 0; j-- {
				apply(st, 20)
			}
			apply(st, 21)
			for j := r.Intn(4); j > 0; j-- {
				apply(st, 20)
			}
			apply(st, 8)
			stats["bseq:badlayer"]++
			flush(st)
		case 5: // two (three) builders alive at once, their calls interleaved: each must build what IT was given
			sts := []*bsq{{bld: retry.NewBackoffBuilder()}, {bld: retry.NewBackoffBuilder()}}
			if r.Intn(3) == 0 {
				sts = append(sts, &bsq{bld: retry.NewBackoffBuilder()})
			}
			for _, st := range sts {
				apply(st, r.Intn(4))
			}
			for steps := 4 + r.Intn(10); steps > 0; steps-- {
				st := sts[r.Intn(len(sts))]
				if c := r.Intn(10); c < 6 {
					apply(st, 20)
				} else if c < 8 {
					apply(st, r.Intn(8))
				} else {
					apply(st, 8)
				}
			}
			for _, st := range sts {
				apply(st, 8)
				flush(st)
			}
			stats["bseq:interleaved"]++
		default:
			st := &bsq{bld: retry.NewBackoffBuilder()}
			for steps := 3 + r.Intn(8); steps > 0 || st.builds == 0; steps-- {
				apply(st, r.Intn(12))
				if steps < -20 {
					break
				}
			}
			flush(st)
		}
	}
}

func genParseInt(r *gen.Rand, n int) {
	fixed := []string{"", "+", "-", "0", "-0", "+0", "00", "9223372036854775807", "9223372036854775808", "-9223372036854775808", "-9223372036854775809",
		"18446744073709551615", "18446744073709551616", "99999999999999999999999", "1_0", "0x1f", "0b1", "0o7", " 1", "1 ", "1.0", "1e1", "+-1", "٣", "١٢", "1\x00", "\xff"}
	for _, s := range fixed {
		v, err := strconv.ParseInt(s, 10, 64)
		res := "err"
		if err == nil {
			res = fmt.Sprint(v)
		}
		emit("parseint", "x"+hex.EncodeToString([]byte(s)), res)
	}
	for k := 0; k < n; k++ {
		s := numField(r, false)
		if r.Intn(4) == 0 {
			b := make([]byte, r.Intn(22))
			for i := range b {
				b[i] = "0123456789+-_ "[r.Intn(11+r.Intn(4))]
			}
			s = string(b)
		}
		v, err := strconv.ParseInt(s, 10, 64)
		res := "err"
		if err == nil {
			res = fmt.Sprint(v)
		}
		stats["parseint:ok="+b2s(err == nil)]++
		emit("parseint", "x"+hex.EncodeToString([]byte(s)), res)
	}
}

func main() {
	seed := flag.Uint64("seed", 0, "seed")
	n := flag.Int("n", 1000, "random cases per generator")
	out := flag.String("out", ".", "output directory")
	kinds := flag.String("kinds", "validate,ctors,delay,spec,parseint", "generators to run")
	flag.Parse()
	cf, _ := os.Create(*out + "/cases.tsv")
	rf, _ := os.Create(*out + "/impl.tsv")
	cases, impl = bufio.NewWriter(cf), bufio.NewWriter(rf)
	r := gen.New(*seed)
	for _, k := range strings.Split(*kinds, ",") {
		switch k {
		case "validate":
			genValidate(r, *n)
		case "ctors":
			genCtors(r, *n)
		case "delay":
			genDelay(r, *n)
			genShared(r, 24)
		case "spec":
			genSpec(r, *n)
			genBuilderSeq(r, *n/2)
		case "parseint":
			genParseInt(r, *n)
		}
	}
	cases.Flush()
	impl.Flush()
	cf.Close()
	rf.Close()
	sj, _ := json.MarshalIndent(stats, "", " ")
	os.WriteFile(*out+"/stats.json", sj, 0o644)
	fmt.Println("cases:", nid)
}
