// Package gen holds the single seeded PRNG and the boundary palettes every
// generator of the harness draws from.
package gen

import (
	"math"
)

// Rand is a splitmix64 generator; every random choice of a run derives from one.
type Rand struct{ s uint64 }

func New(seed uint64) *Rand { return &Rand{s: seed*0x9E3779B97F4A7C15 + 0x1234567} }

func (r *Rand) U64() uint64 {
	r.s += 0x9E3779B97F4A7C15
	z := r.s
	z = (z ^ (z >> 30)) * 0xBF58476D1CE4E5B9
	z = (z ^ (z >> 27)) * 0x94D049BB133111EB
	return z ^ (z >> 31)
}
func (r *Rand) Intn(n int) int   { return int(r.U64() % uint64(n)) }
func (r *Rand) Bool() bool       { return r.U64()&1 == 1 }
func (r *Rand) U32() uint32      { return uint32(r.U64() >> 32) }
func (r *Rand) Float01() float64 { return float64(r.U64()>>11) / (1 << 53) }

var Int64Palette = []int64{
	0, 1, -1, 2, -2, 3, 7, 10, 100, 199, 200, 201, 9999, 10000, 10001,
	1<<31 - 1, 1 << 31, 1<<32 + 1, 1 << 52, 1 << 53, 1<<53 + 1, 1<<53 + 2, 1 << 62, 1<<62 + 1,
	math.MaxInt64, math.MaxInt64 - 1, math.MaxInt64 / 2, math.MaxInt64/2 + 1, math.MinInt64, math.MinInt64 + 1,
	-(1 << 53), 4611686018427387903, 6148914691236517205,
}

func (r *Rand) Int64() int64 {
	switch r.Intn(10) {
	case 0, 1, 2, 3:
		return Int64Palette[r.Intn(len(Int64Palette))]
	case 4, 5:
		return int64(r.Intn(2000)) - 100
	case 6:
		return int64(r.U64() >> uint(1+r.Intn(62)))
	case 7:
		return -int64(r.U64() >> uint(1+r.Intn(62)))
	default:
		return int64(r.U64())
	}
}

// NonNeg returns a boundary-biased non-negative int64.
func (r *Rand) NonNeg() int64 {
	v := r.Int64()
	if v == math.MinInt64 {
		return math.MaxInt64
	}
	if v < 0 {
		return -v
	}
	return v
}

var Float64Palette = []float64{
	0, math.Copysign(0, -1), 1, -1, math.Nextafter(1, 2), math.Nextafter(1, 0), math.Nextafter(-1, 0), math.Nextafter(-1, -2),
	0.5, -0.5, 2, 1.5, 3, 10, math.NaN(), math.Inf(1), math.Inf(-1), math.SmallestNonzeroFloat64, -math.SmallestNonzeroFloat64,
	1e-300, -1e-300, 1e300, 0.2, -0.2, 0.8, math.Nextafter(0.8, 1), 1.0000001, math.MaxFloat64, -math.MaxFloat64,
	0.1, 0.3, 0.999999999, 1.0000000000000004, 1.1, 1.01, 2.2250738585072014e-308, 1e-310, 0.25, 0.75, 1e18, 9.3e18,
}

func (r *Rand) Float64() float64 {
	switch r.Intn(10) {
	case 0, 1, 2, 3:
		return Float64Palette[r.Intn(len(Float64Palette))]
	case 4, 5:
		return r.Float01()*2 - 1
	case 6:
		return 1 + r.Float01()*3
	case 7:
		return math.Float64frombits(r.U64())
	default:
		return (r.Float01() - 0.5) * math.Pow(10, float64(r.Intn(40)-20))
	}
}

// Bits is the canonical bit pattern of f (one NaN).
func Bits(f float64) uint64 {
	if f != f {
		return 0x7ff8000000000000
	}
	return math.Float64bits(f)
}
