#!/bin/sh
# runs every seeded mutant against the quick check of the property it was written for; prints one line each
cd /verif
for d in seeded/*/; do m=$(basename $d); p=${m%-*}; tools/runmut.sh $m $p 2>/dev/null | grep -v WARNING; done
