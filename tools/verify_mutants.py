#!/usr/bin/env python3
"""Re-verify sub-agent mutants in their scratch worktrees and collect the
confirmed ones under /verif/seeded/<id>-m<k>/ (patch.diff, demo, meta.json).
usage: verify_mutants.py C01 C02 ...   (worktrees at /tmp/wt/<id>)"""
import json, os, shutil, subprocess, sys, glob
ENV = dict(os.environ, GOFLAGS="-mod=mod", GOPROXY="off", GOSUMDB="off", GOTOOLCHAIN="local")

def sh(cmd, cwd, timeout=1500):
    try:
        p = subprocess.run(cmd, cwd=cwd, shell=True, env=ENV, stdout=subprocess.PIPE, stderr=subprocess.STDOUT, timeout=timeout, text=True)
        return p.returncode, p.stdout
    except subprocess.TimeoutExpired as e:
        return 124, (e.stdout or "") + "\nTIMEOUT"

def clean(wt):
    sh("git checkout -q -- . && git clean -fdq -e _out", wt)

def verify(pid, k, wtname=None, outk=None):
    wt = "/tmp/wt/%s" % (wtname or pid)
    d = "%s/_out/m%d" % (wt, k)
    outk = outk or k
    if not os.path.exists(d + "/patch.diff"):
        return None
    meta = json.load(open(d + "/meta.json"))
    res = {"id": "%s-m%d" % (pid, outk), "property": pid, "title": meta.get("title"), "needs": meta.get("needs"), "demo_cmd": meta.get("demo_cmd")}
    clean(wt)
    rc, out = sh("git apply --check _out/m%d/patch.diff && git apply _out/m%d/patch.diff" % (k, k), wt)
    res["applies"] = rc == 0
    rc, out = sh("go build ./... ", wt)
    res["builds"] = rc == 0
    rc, out = sh("go test -vet=off -count=1 -timeout 20m ./...", wt)
    res["suite_passes"] = rc == 0
    res["suite_tail"] = out[-400:]
    rc, out = sh(meta["demo_cmd"], wt, timeout=600)
    res["demo_fails_with_patch"] = rc != 0
    res["demo_with_tail"] = out[-600:]
    clean(wt)
    rc, out = sh(meta["demo_cmd"], wt, timeout=600)
    res["demo_passes_without"] = rc == 0
    res["demo_without_tail"] = out[-300:]
    clean(wt)
    res["confirmed"] = all(res[x] for x in ("applies", "builds", "suite_passes", "demo_fails_with_patch", "demo_passes_without"))
    if res["confirmed"]:
        dst = "/verif/seeded/%s-m%d" % (pid, outk)
        os.makedirs(dst, exist_ok=True)
        for f in os.listdir(d):
            if os.path.isfile(os.path.join(d, f)):
                shutil.copy(os.path.join(d, f), dst)
            else:
                shutil.copytree(os.path.join(d, f), os.path.join(dst, f), dirs_exist_ok=True)
        meta["verified_by_me"] = {"what_i_ran": "git apply; go build ./...; go test -vet=off -count=1 ./... (pass); demo_cmd with patch (fails); git checkout; demo_cmd (passes)",
                                   "worktree": wt, "breaks": pid}
        json.dump(meta, open(dst + "/meta.json", "w"), indent=1)
    return res

if __name__ == "__main__":
    allres = []
    for arg in sys.argv[1:]:
        # "C16" (worktree /tmp/wt/C16, outputs m1,m2) or "r2_C16:C16:3" (worktree r2_C16, outputs C16-m3, C16-m4)
        parts = arg.split(":")
        wtname, pid, base = (parts[0], parts[1], int(parts[2])) if len(parts) == 3 else (arg, arg, 1)
        for k in (1, 2):
            r = verify(pid, k, wtname, base + k - 1)
            if r:
                allres.append(r)
                print(json.dumps({x: r[x] for x in ("id", "confirmed", "applies", "builds", "suite_passes", "demo_fails_with_patch", "demo_passes_without")}), flush=True)
        json.dump(allres, open("/tmp/wt/verify_%s.json" % pid, "w"), indent=1)
