// finegrain inserts an unlogged scheduling point (vsched.Plain()) before every
// statement of every function in the given package directories of the
// instrumented scratch copy, so that the cooperative scheduler can also
// interleave goroutines between PLAIN memory accesses (hunt build).
package main

import (
	"bytes"
	"go/ast"
	"go/format"
	"go/parser"
	"go/token"
	"os"
	"path/filepath"
	"strings"
)

func plainCall() ast.Stmt {
	return &ast.ExprStmt{X: &ast.CallExpr{Fun: &ast.SelectorExpr{X: ast.NewIdent("vschedfine"), Sel: ast.NewIdent("Plain")}}}
}

func instr(list []ast.Stmt) []ast.Stmt {
	var out []ast.Stmt
	for _, s := range list {
		out = append(out, plainCall(), s)
	}
	return out
}

func main() {
	for _, dir := range os.Args[1:] {
		files, _ := filepath.Glob(filepath.Join(dir, "*.go"))
		for _, f := range files {
			if strings.HasSuffix(f, "_test.go") || strings.Contains(filepath.Base(f), "zz_verif_") {
				continue
			}
			fset := token.NewFileSet()
			af, err := parser.ParseFile(fset, f, nil, parser.ParseComments)
			if err != nil {
				panic(err)
			}
			changed := false
			skip := map[*ast.BlockStmt]bool{}
			ast.Inspect(af, func(n ast.Node) bool {
				switch b := n.(type) {
				case *ast.SwitchStmt:
					skip[b.Body] = true
				case *ast.TypeSwitchStmt:
					skip[b.Body] = true
				case *ast.SelectStmt:
					skip[b.Body] = true
				case *ast.BlockStmt:
					if len(b.List) > 0 && !skip[b] {
						b.List = instr(b.List)
						changed = true
					}
				case *ast.CaseClause:
					if len(b.Body) > 0 {
						b.Body = instr(b.Body)
						changed = true
					}
				case *ast.CommClause:
					if len(b.Body) > 0 {
						b.Body = instr(b.Body)
						changed = true
					}
				}
				return true
			})
			if !changed {
				continue
			}
			orig, _ := os.ReadFile(f)
			header := ""
			for _, line := range strings.SplitAfter(string(orig), "\n") {
				if strings.HasPrefix(line, "package ") {
					break
				}
				if strings.HasPrefix(line, "//go:build") || strings.HasPrefix(line, "// +build") {
					header += line + "\n"
				}
			}
			af.Comments = nil
			af.Doc = nil
			var buf bytes.Buffer
			if err := format.Node(&buf, fset, af); err != nil {
				panic(err)
			}
			src := buf.String()
			// add the import right after the package clause
			i := strings.Index(src, "package ")
			j := strings.Index(src[i:], "\n") + i
			src = header + src[:j+1] + "\nimport vschedfine \"go.linecorp.com/garr/vshim/vsched\"\n" + src[j+1:]
			if err := os.WriteFile(f, []byte(src), 0o644); err != nil {
				panic(err)
			}
		}
	}
}
