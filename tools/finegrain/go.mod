module verif/finegrain

go 1.23.5
