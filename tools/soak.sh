#!/bin/sh
# usage: soak.sh <from> <to> <prop>... : run the quick checks on the unchanged tree under several seeds (false-alarm soak)
a=$1; b=$2; shift 2
cd /verif
for s in $(seq $a $b); do for p in "$@"; do
  out=$(VERIF_SEED=$s ./check $p --tier quick 2>/dev/null); rc=$?
  [ $rc -ne 0 ] && echo "seed=$s $p rc=$rc $(echo "$out" | grep VIOLATION)"
done; done
echo soak-done
