#!/usr/bin/env python3
"""usage: genscn.py <prop> [tier] [seed] [id-prefix] : print the scenarios the check of <prop> would run (for tools/trymut.sh)"""
import sys, os
sys.path.insert(0, os.path.join(os.path.dirname(os.path.abspath(__file__)), ".."))
from vcheck import conc, queue, adder, breaker, pool
prop = sys.argv[1]; tier = sys.argv[2] if len(sys.argv) > 2 else "quick"; seed = int(sys.argv[3]) if len(sys.argv) > 3 else 0
pre = sys.argv[4] if len(sys.argv) > 4 else ""
gens = {}
for m in (queue, adder, breaker, pool):
    for n in dir(m):
        if n.startswith("gen_c"):
            gens[n[4:].upper().split("_")[0]] = getattr(m, n)
g = gens[prop]
for s in g(tier, conc.rng_for(prop, seed)):
    if s.sid.startswith(pre):
        sys.stdout.write(s.text())
