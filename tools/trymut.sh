#!/bin/sh
# usage: trymut.sh <driver> <scenario-file> <mutant>...   (applies each seeded mutant to /repo, rebuilds the inst driver, runs, reverts)
drv=$1; scn=$2; shift 2
export GOFLAGS=-mod=mod GOPROXY=off GOSUMDB=off GOTOOLCHAIN=local
for m in "$@"; do
  git -C /repo apply /verif/seeded/$m/patch.diff || continue
  python3 /verif/tools/mkinst.py && (cd /verif/build/inst && go build -o ../bin/${drv}_mut ./vdrv_${drv#drv_})
  git -C /repo checkout -- .
  echo "== $m"
  /verif/build/bin/${drv}_mut < $scn | /verif/build/ocaml/conc_run/conc_run | cut -c1-400 | awk '{print $1, ($1=="VIOL"||$1=="ABORT" ? substr($0, index($0,"|H")) : "")}' | cut -c1-200 | sort | uniq -c | sort -rn | head -6
done
python3 /verif/tools/mkinst.py
