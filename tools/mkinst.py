#!/usr/bin/env python3
"""Build the instrumented scratch copy of /repo under /verif/build/inst:
the working tree's non-test Go files with `sync/atomic` and `sync` imports
redirected to the yielding shims (vshim/...), plus the controlled-schedule
drivers.  Nothing in /repo is touched.  usage: mkinst.py [--fine]"""
import os, re, shutil, subprocess, sys, hashlib

ROOT = os.path.dirname(os.path.dirname(os.path.abspath(__file__)))
REPO = os.environ.get("VERIF_REPO", "/repo")
ENV = dict(os.environ, GOFLAGS="-mod=mod", GOPROXY="off", GOSUMDB="off", GOTOOLCHAIN="local", CGO_ENABLED="0")

def rewrite_cbreaker(src):
    """package cbreaker calls the queue and the adders through atomic wrappers"""
    src = src.replace('"go.linecorp.com/garr/adder"', '"go.linecorp.com/garr/vshim/vadder"')
    src = src.replace('"go.linecorp.com/garr/queue"', '"go.linecorp.com/garr/vshim/vqueue"')
    # the package's own SystemTicker reads the scripted clock (vtime.NowHook) when the driver selects it
    src = re.sub(r'(?m)^(\s*)"time"', r'\1time "go.linecorp.com/garr/vshim/vtime"', src)
    src = re.sub(r'(?m)^import "time"', 'import time "go.linecorp.com/garr/vshim/vtime"', src)
    return src

def rewrite(src):
    src = re.sub(r'(?m)^(\s*)"sync/atomic"', r'\1atomic "go.linecorp.com/garr/vshim/vatomic"', src)
    src = re.sub(r'(?m)^(\s*)"sync"', r'\1sync "go.linecorp.com/garr/vshim/vsync"', src)
    src = re.sub(r'(?m)^import "sync/atomic"', 'import atomic "go.linecorp.com/garr/vshim/vatomic"', src)
    src = re.sub(r'(?m)^import "sync"', 'import sync "go.linecorp.com/garr/vshim/vsync"', src)
    return src

CHANGED_POOL = [False]

def write_if_changed(path, data):
    if os.path.exists(path) and open(path).read() == data:
        return
    os.makedirs(os.path.dirname(path), exist_ok=True)
    open(path, "w").write(data)

def main(dst):
    keep = set()
    for dp, dns, fns in os.walk(REPO):
        dns[:] = [d for d in dns if not d.startswith(".") and d not in ("vshim",)]
        rel = os.path.relpath(dp, REPO)
        for f in fns:
            if not f.endswith(".go") or f.endswith("_test.go"):
                continue
            src = open(os.path.join(dp, f)).read()
            out = os.path.normpath(os.path.join(dst, rel, f))
            src = rewrite(src)
            if rel == "circuit-breaker":
                src = rewrite_cbreaker(src)
            if rel == "worker-pool":
                keep.add(out)        # rewritten further by chanrw below
                continue
            write_if_changed(out, src)
            keep.add(out)
    for name in ("vsched", "vatomic", "vsync", "vdrv", "vqueue", "vadder", "vchan", "vcontext", "vtime"):
        for f in os.listdir(os.path.join(ROOT, "shim", name)):
            out = os.path.join(dst, "vshim", name, f)
            write_if_changed(out, open(os.path.join(ROOT, "shim", name, f)).read())
            keep.add(out)
    for name in os.listdir(os.path.join(ROOT, "shim", "drivers")):
        for f in os.listdir(os.path.join(ROOT, "shim", "drivers", name)):
            data = open(os.path.join(ROOT, "shim", "drivers", name, f)).read()
            if f.endswith(".go.in"):      # file to be dropped into the package under test
                out = os.path.join(dst, name.split("_")[0] if "_" in name else name, "zz_verif_" + f[:-3])
                pkgdir = data.split("//verif:dir ", 1)[1].split("\n", 1)[0].strip() if "//verif:dir " in data else name
                out = os.path.join(dst, pkgdir, "zz_verif_" + f[:-3])
            else:
                out = os.path.join(dst, "vdrv_" + name, f)
            write_if_changed(out, data)
            keep.add(out)
    gomod = open(os.path.join(REPO, "go.mod")).read()
    gomod += "\nrequire github.com/anishathalye/porcupine v1.3.0\n"
    gomod += "\nreplace github.com/valyala/fastrand => %s\n" % os.path.join(ROOT, "harness", "stubs", "fastrand")
    write_if_changed(os.path.join(dst, "go.mod"), gomod)
    if not os.path.exists(os.path.join(dst, "go.sum")):
        shutil.copy(os.path.join(REPO, "go.sum"), os.path.join(dst, "go.sum"))
    # worker-pool: channels / select / go / context / timers -> cooperative runtime
    rw = os.path.join(ROOT, "build", "bin", "chanrw")
    src = os.path.join(ROOT, "tools", "chanrw")
    if not os.path.exists(rw) or os.path.getmtime(rw) < os.path.getmtime(os.path.join(src, "main.go")):
        os.makedirs(os.path.dirname(rw), exist_ok=True)
        subprocess.run(["go", "build", "-o", rw, "."], cwd=src, env=ENV, check=True)
    stamp = os.path.join(dst, "worker-pool", ".chanrw")
    srcs = sorted(f for f in os.listdir(os.path.join(REPO, "worker-pool")) if f.endswith(".go") and not f.endswith("_test.go"))
    h = hashlib.sha1()
    for f in srcs:
        h.update(open(os.path.join(REPO, "worker-pool", f), "rb").read())
    h.update(open(os.path.join(src, "main.go"), "rb").read())
    if CHANGED_POOL[0] or not os.path.exists(stamp) or open(stamp).read() != h.hexdigest():
        # re-copy pristine (import-rewritten) sources, then rewrite
        for f in srcs:
            open(os.path.join(dst, "worker-pool", f), "w").write(rewrite(open(os.path.join(REPO, "worker-pool", f)).read()))
        r = subprocess.run([rw, os.path.join(dst, "worker-pool")], capture_output=True, text=True)
        if r.returncode != 0:
            sys.stderr.write("chanrw failed: " + r.stdout + r.stderr)
            sys.exit(3)
        open(stamp, "w").write(h.hexdigest())
    # remove files that disappeared from the source
    for dp, dns, fns in os.walk(dst):
        for f in fns:
            p = os.path.join(dp, f)
            if f.endswith(".go") and p not in keep:
                os.remove(p)

if __name__ == "__main__":
    main(sys.argv[1] if len(sys.argv) > 1 else os.path.join(ROOT, "build", "inst"))
