module verif/chanrw

go 1.23.5

require golang.org/x/tools v0.29.0
