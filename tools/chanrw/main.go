// chanrw rewrites the channel, select, go, close, context and timer constructs
// of the (already import-rewritten) scratch copy of package workerpool into
// calls of the cooperative runtime (vshim/vchan, vsched, vcontext, vtime), so
// that the worker pool can be executed under the deterministic scheduler.
// Purely syntactic; it fails loudly on constructs it does not know.
package main

import (
	"bytes"
	"fmt"
	"go/ast"
	"go/format"
	"go/parser"
	"go/token"
	"os"
	"path/filepath"
	"strconv"
	"strings"

	"golang.org/x/tools/go/ast/astutil"
)

func sel(pkg, name string) ast.Expr {
	return &ast.SelectorExpr{X: ast.NewIdent(pkg), Sel: ast.NewIdent(name)}
}

func call(fn ast.Expr, args ...ast.Expr) *ast.CallExpr { return &ast.CallExpr{Fun: fn, Args: args} }

func chanType(elem ast.Expr) ast.Expr {
	return &ast.StarExpr{X: &ast.IndexExpr{X: sel("vchan", "Chan"), Index: elem}}
}

var tmp int

func fresh(p string) string { tmp++; return fmt.Sprintf("_%s%d", p, tmp) }

func isRecv(e ast.Expr) (ast.Expr, bool) {
	if p, ok := e.(*ast.ParenExpr); ok {
		return isRecv(p.X)
	}
	if u, ok := e.(*ast.UnaryExpr); ok && u.Op == token.ARROW {
		return u.X, true
	}
	return nil, false
}

// rewriteSelect builds the replacement block for a select statement.
func rewriteSelect(s *ast.SelectStmt) ast.Stmt {
	hasDefault := false
	for _, c := range s.Body.List {
		if c.(*ast.CommClause).Comm == nil {
			hasDefault = true
		}
	}
	selName := fresh("sel")
	var pre []ast.Stmt
	pre = append(pre, &ast.AssignStmt{Lhs: []ast.Expr{ast.NewIdent(selName)}, Tok: token.DEFINE,
		Rhs: []ast.Expr{call(sel("vchan", "NewSelect"), ast.NewIdent(strconv.FormatBool(hasDefault)))}})
	sw := &ast.SwitchStmt{Tag: call(&ast.SelectorExpr{X: ast.NewIdent(selName), Sel: ast.NewIdent("Wait")}), Body: &ast.BlockStmt{}}
	idx := 0
	for _, c := range s.Body.List {
		cc := c.(*ast.CommClause)
		if cc.Comm == nil {
			sw.Body.List = append(sw.Body.List, &ast.CaseClause{List: []ast.Expr{&ast.UnaryExpr{Op: token.SUB, X: &ast.BasicLit{Kind: token.INT, Value: "1"}}}, Body: cc.Body})
			continue
		}
		cname := fresh("c")
		var body []ast.Stmt
		switch st := cc.Comm.(type) {
		case *ast.SendStmt:
			pre = append(pre, &ast.AssignStmt{Lhs: []ast.Expr{ast.NewIdent(cname)}, Tok: token.DEFINE,
				Rhs: []ast.Expr{call(sel("vchan", "SendCase"), ast.NewIdent(selName), st.Chan, st.Value)}})
			pre = append(pre, &ast.AssignStmt{Lhs: []ast.Expr{ast.NewIdent("_")}, Tok: token.ASSIGN, Rhs: []ast.Expr{ast.NewIdent(cname)}})
		case *ast.ExprStmt:
			ch, ok := isRecv(st.X)
			if !ok {
				panic("chanrw: unsupported select case expression")
			}
			pre = append(pre, &ast.AssignStmt{Lhs: []ast.Expr{ast.NewIdent(cname)}, Tok: token.DEFINE,
				Rhs: []ast.Expr{call(sel("vchan", "RecvCase"), ast.NewIdent(selName), ch)}})
			pre = append(pre, &ast.AssignStmt{Lhs: []ast.Expr{ast.NewIdent("_")}, Tok: token.ASSIGN, Rhs: []ast.Expr{ast.NewIdent(cname)}})
		case *ast.AssignStmt:
			ch, ok := isRecv(st.Rhs[0])
			if !ok || len(st.Rhs) != 1 {
				panic("chanrw: unsupported select receive assignment")
			}
			pre = append(pre, &ast.AssignStmt{Lhs: []ast.Expr{ast.NewIdent(cname)}, Tok: token.DEFINE,
				Rhs: []ast.Expr{call(sel("vchan", "RecvCase"), ast.NewIdent(selName), ch)}})
			rhs := []ast.Expr{call(&ast.SelectorExpr{X: ast.NewIdent(cname), Sel: ast.NewIdent("Val")})}
			if len(st.Lhs) == 2 {
				rhs = append(rhs, call(&ast.SelectorExpr{X: ast.NewIdent(cname), Sel: ast.NewIdent("Ok")}))
			}
			body = append(body, &ast.AssignStmt{Lhs: st.Lhs, Tok: st.Tok, Rhs: rhs})
		default:
			panic("chanrw: unsupported select communication")
		}
		body = append(body, cc.Body...)
		sw.Body.List = append(sw.Body.List, &ast.CaseClause{List: []ast.Expr{&ast.BasicLit{Kind: token.INT, Value: strconv.Itoa(idx)}}, Body: body})
		idx++
	}
	return &ast.BlockStmt{List: append(pre, sw)}
}

func main() {
	for _, dir := range os.Args[1:] {
		files, _ := filepath.Glob(filepath.Join(dir, "*.go"))
		for _, f := range files {
			if strings.HasSuffix(f, "_test.go") || strings.Contains(filepath.Base(f), "zz_verif_") {
				continue
			}
			fset := token.NewFileSet()
			af, err := parser.ParseFile(fset, f, nil, 0)
			if err != nil {
				panic(err)
			}
			// names declared with a channel type (struct fields, vars): ranges over them are channel ranges
			chanNames := map[string]bool{}
			ast.Inspect(af, func(n ast.Node) bool {
				if fl, ok := n.(*ast.Field); ok {
					if _, isCh := fl.Type.(*ast.ChanType); isCh {
						for _, nm := range fl.Names {
							chanNames[nm.Name] = true
						}
					}
				}
				return true
			})
			isChanExpr := func(e ast.Expr) bool {
				switch x := e.(type) {
				case *ast.SelectorExpr:
					return chanNames[x.Sel.Name]
				case *ast.Ident:
					return chanNames[x.Name]
				}
				return false
			}
			inSelectComm := map[ast.Node]bool{}
			ast.Inspect(af, func(n ast.Node) bool {
				if cc, ok := n.(*ast.CommClause); ok && cc.Comm != nil {
					inSelectComm[cc.Comm] = true
				}
				return true
			})
			post := func(c *astutil.Cursor) bool {
				switch n := c.Node().(type) {
				case *ast.SelectStmt:
					c.Replace(rewriteSelect(n))
				case *ast.SendStmt:
					if !inSelectComm[n] {
						c.Replace(&ast.ExprStmt{X: call(sel("vchan", "Send"), n.Chan, n.Value)})
					}
				case *ast.GoStmt:
					c.Replace(&ast.ExprStmt{X: call(sel("vsched", "Go"), &ast.FuncLit{Type: &ast.FuncType{Params: &ast.FieldList{}},
						Body: &ast.BlockStmt{List: []ast.Stmt{&ast.ExprStmt{X: n.Call}}}})})
				case *ast.RangeStmt:
					if isChanExpr(n.X) {
						okName := fresh("ok")
						key := n.Key
						if key == nil {
							key = ast.NewIdent("_")
						}
						recv := &ast.AssignStmt{Lhs: []ast.Expr{key, ast.NewIdent(okName)}, Tok: token.DEFINE, Rhs: []ast.Expr{call(sel("vchan", "Recv2"), n.X)}}
						brk := &ast.IfStmt{Cond: &ast.UnaryExpr{Op: token.NOT, X: ast.NewIdent(okName)}, Body: &ast.BlockStmt{List: []ast.Stmt{&ast.BranchStmt{Tok: token.BREAK}}}}
						body := append([]ast.Stmt{recv, brk}, n.Body.List...)
						c.Replace(&ast.ForStmt{Body: &ast.BlockStmt{List: body}})
					}
				case *ast.ChanType:
					c.Replace(chanType(n.Value))
				case *ast.CallExpr:
					if id, ok := n.Fun.(*ast.Ident); ok {
						if id.Name == "close" && len(n.Args) == 1 {
							c.Replace(call(sel("vchan", "Close"), n.Args[0]))
						}
						if (id.Name == "len" || id.Name == "cap") && len(n.Args) == 1 && isChanExpr(n.Args[0]) {
							m := map[string]string{"len": "Len", "cap": "Cap"}[id.Name]
							c.Replace(call(&ast.SelectorExpr{X: n.Args[0], Sel: ast.NewIdent(m)}))
						}
						if id.Name == "make" && len(n.Args) >= 1 {
							// make(chan T, n): the ChanType child has already been rewritten to *vchan.Chan[T]
							if st, ok := n.Args[0].(*ast.StarExpr); ok {
								if ix, ok := st.X.(*ast.IndexExpr); ok {
									if s, ok := ix.X.(*ast.SelectorExpr); ok && s.Sel.Name == "Chan" {
										size := ast.Expr(&ast.BasicLit{Kind: token.INT, Value: "0"})
										if len(n.Args) > 1 {
											size = n.Args[1]
										}
										c.Replace(call(&ast.IndexExpr{X: sel("vchan", "Make"), Index: ix.Index}, size))
									}
								}
							}
						}
					}
				case *ast.UnaryExpr:
					if n.Op == token.ARROW {
						if _, isAssign := c.Parent().(*ast.AssignStmt); isAssign && len(c.Parent().(*ast.AssignStmt).Lhs) == 2 {
							c.Replace(call(sel("vchan", "Recv2"), n.X))
						} else if !inSelectComm[c.Parent()] {
							c.Replace(call(sel("vchan", "Recv"), n.X))
						}
					}
				}
				return true
			}
			// select communications are handled by rewriteSelect: keep their receive expressions intact
			pre := func(c *astutil.Cursor) bool {
				if cc, ok := c.Parent().(*ast.CommClause); ok && cc.Comm == c.Node() {
					// descend only into the channel / value expressions? they contain no channel syntax in practice
					return false
				}
				return true
			}
			astutil.Apply(af, pre, post)
			var buf bytes.Buffer
			if err := format.Node(&buf, fset, af); err != nil {
				panic(err)
			}
			src := buf.String()
			src = strings.Replace(src, "\"context\"", "context \"go.linecorp.com/garr/vshim/vcontext\"", 1)
			src = strings.Replace(src, "\"time\"", "time \"go.linecorp.com/garr/vshim/vtime\"", 1)
			i := strings.Index(src, "package ")
			j := strings.Index(src[i:], "\n") + i
			src = src[:j+1] + "\nimport (\n\tvchan \"go.linecorp.com/garr/vshim/vchan\"\n\tvsched \"go.linecorp.com/garr/vshim/vsched\"\n)\n" + src[j+1:] + "\nvar _ = vsched.Active\nvar _ = vchan.NewSelect\n"
			if err := os.WriteFile(f, []byte(src), 0o644); err != nil {
				panic(err)
			}
		}
	}
}
